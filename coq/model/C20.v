(* C20 — model of the encoding/asn1 decoder (asn1.go parseField and everything it
   calls), parametrised by the mode switch [perm] (= asn1.AllowPermissiveParsing)
   over a universe [ty] of the Go types the package supports.  Executable
   definitions only.  The same parser is the decoder half of the C18 model.

   Go passes (bytes, offset) and returns the new offset; the model passes the
   suffix bytes[offset:] and returns the remaining suffix.  The only places where
   Go looks left of the offset are RawValue.FullBytes / RawContent
   (bytes[initOffset:offset]); the model recomputes them as the consumed prefix.
   Go's int is 64 bit here (offset+length cannot overflow: lengths are < 2^31). *)
From Coq Require Import List NArith ZArith Bool Arith.
From Verif Require Import Harness.
Import ListNotations.
Open Scope N_scope.

(* ------------------------------------------------------------------ types *)

(* common.go fieldParameters *)
Record fparams := {
  optional : bool; explicit : bool; application : bool; private : bool;
  defaultv : option Z; ptag : option N;
  stringType : N; timeType : N; pset : bool; omitEmpty : bool }.

Definition no_params : fparams :=
  {| optional := false; explicit := false; application := false; private := false;
     defaultv := None; ptag := None; stringType := 0; timeType := 0; pset := false; omitEmpty := false |}.

Inductive ty :=
| TBool | TInt (w32 : bool) | TBig | TEnum | TStr | TOid | TBits | TTime | TBytes | TRaw | TFlag
| TStruct (raw0 : bool) (fs : fields)        (* raw0: field 0 is a RawContent *)
| TSlice (setname : bool) (e : ty)           (* setname: the slice type's name ends in "SET" *)
with fields := FNil | FCons (p : fparams) (t : ty) (r : fields).

(* wall-clock fields in the time's own zone + zone offset in seconds *)
Record timev := { yr : Z; mo : N; dy : N; hh : N; mi : N; ss : N; ns : N; off : Z }.

Inductive value :=
| VNull                                       (* nil *big.Int / nil slice / nil ObjectIdentifier / BitString{nil,0} / RawValue{} *)
| VBool (b : bool) | VInt (z : Z) | VStr (s : bytes) | VOid (arcs : list N)
| VBits (bs : bytes) (bitlen : Z) | VTime (t : timev) | VBytes (b : bytes)
| VRaw (cls tag : N) (comp : bool) (body full : bytes) | VFlag (b : bool)
| VStruct (raw : option bytes) (vs : vals) | VList (vs : vals)
with vals := VNil | VCons (v : value) (r : vals).

Definition TagBoolean := 1. Definition TagInteger := 2. Definition TagBitString := 3.
Definition TagOctetString := 4. Definition TagOID := 6. Definition TagEnum := 10.
Definition TagUTF8String := 12. Definition TagSequence := 16. Definition TagSet := 17.
Definition TagNumericString := 18. Definition TagPrintableString := 19. Definition TagT61String := 20.
Definition TagIA5String := 22. Definition TagUTCTime := 23. Definition TagGeneralizedTime := 24.
Definition TagGeneralString := 27. Definition TagBMPString := 30.

(* ------------------------------------------------------------------ header *)

Record hdr := { t_class : N; t_tag : N; t_len : N; t_comp : bool }.

(* parseBase128Int: [shifted] counts the bytes read so far *)
Fixpoint base128 (shifted acc : N) (bs : bytes) : option (N * bytes) :=
  match bs with
  | [] => None                                              (* truncated base 128 integer *)
  | b :: r =>
      if shifted =? 5 then None                             (* too large *)
      else if (shifted =? 0) && (b =? 128) then None        (* not minimally encoded *)
      else
        let acc' := acc * 128 + (b mod 128) in
        if b <? 128 then (if 2147483647 <? acc' then None else Some (acc', r))
        else base128 (shifted + 1) acc' r
  end.

(* the long-form length loop *)
Fixpoint len_loop (n : nat) (acc : N) (bs : bytes) : option (N * bytes) :=
  match n with
  | O => Some (acc, bs)
  | S n' =>
      match bs with
      | [] => None                                          (* truncated tag or length *)
      | b :: r =>
          if 8388608 <=? acc then None                      (* length too large *)
          else let acc' := acc * 256 + b in
               if acc' =? 0 then None                       (* superfluous leading zeros *)
               else len_loop n' acc' r
      end
  end.

(* parseTagAndLength *)
Definition parse_tl (perm : bool) (bs : bytes) : option (hdr * bytes) :=
  match bs with
  | [] => None
  | b :: r0 =>
      let cls := b / 64 in
      let comp := N.testbit b 5 in
      let tag0 := b mod 32 in
      match (if tag0 =? 31
             then match base128 0 0 r0 with
                  | Some (t, r) => if t <? 31 then None else Some (t, r)   (* non-minimal tag *)
                  | None => None
                  end
             else Some (tag0, r0)) with
      | None => None
      | Some (tag, r1) =>
          match r1 with
          | [] => None                                      (* truncated tag or length *)
          | lb :: r2 =>
              if lb <? 128 then Some ({| t_class := cls; t_tag := tag; t_len := lb; t_comp := comp |}, r2)
              else
                let nb := lb mod 128 in
                if nb =? 0 then None                        (* indefinite length *)
                else match len_loop (N.to_nat nb) 0 r2 with
                     | None => None
                     | Some (l, r3) =>
                         if perm then Some ({| t_class := cls; t_tag := tag; t_len := l; t_comp := comp |}, r3)
                         else if l <? 128 then None         (* non-minimal length: strict only *)
                         else Some ({| t_class := cls; t_tag := tag; t_len := l; t_comp := comp |}, r3)
                     end
          end
      end
  end.

Definition take (n : N) (bs : bytes) : bytes := firstn (N.to_nat n) bs.
Definition drop (n : N) (bs : bytes) : bytes := skipn (N.to_nat n) bs.
Definition blen (bs : bytes) : N := N.of_nat (length bs).

(* ------------------------------------------------------------------ primitives *)

Definition parse_bool (bs : bytes) : option bool :=
  match bs with
  | [b] => if b =? 0 then Some false else if b =? 255 then Some true else None
  | _ => None
  end.

(* checkInteger *)
Definition check_integer (perm : bool) (bs : bytes) : bool :=
  match bs with
  | [] => false
  | [_] => true
  | b0 :: b1 :: _ =>
      if perm then true
      else negb (((b0 =? 0) && (b1 <? 128)) || ((b0 =? 255) && (128 <=? b1)))
  end.

Definition be_unsigned (bs : bytes) : Z :=
  fold_left (fun a b => (a * 256 + Z.of_N b)%Z) bs 0%Z.

(* two's complement big-endian value of a non-empty byte string *)
Definition be_signed (bs : bytes) : Z :=
  match bs with
  | [] => 0%Z
  | b0 :: _ => if 128 <=? b0 then (be_unsigned bs - 2 ^ (8 * Z.of_nat (length bs)))%Z else be_unsigned bs
  end.

(* parseInt64: accumulate, then shift up and down to sign-extend (= be_signed for <= 8 bytes) *)
Definition parse_int64 (perm : bool) (bs : bytes) : option Z :=
  if check_integer perm bs then
    if (8 <? length bs)%nat then None else Some (be_signed bs)
  else None.

Definition parse_int32 (perm : bool) (bs : bytes) : option Z :=
  if check_integer perm bs then
    match parse_int64 perm bs with
    | Some z => if ((-2147483648 <=? z) && (z <=? 2147483647))%Z then Some z else None
    | None => None
    end
  else None.

Definition parse_bigint (perm : bool) (bs : bytes) : option Z :=
  if check_integer perm bs then Some (be_signed bs) else None.

Definition parse_bitstring (bs : bytes) : option value :=
  match bs with
  | [] => None
  | pad :: body =>
      if (7 <? pad) || ((length body =? 0)%nat && (0 <? pad))
         || negb (N.land (last bs 0) (2 ^ pad - 1) =? 0)
      then None
      else Some (VBits body (Z.of_nat (length body) * 8 - Z.of_N pad)%Z)
  end.

Fixpoint oid_rest (fuel : nat) (bs : bytes) : option (list N) :=
  match bs with
  | [] => Some []
  | _ => match fuel with
         | O => None
         | S f => match base128 0 0 bs with
                  | None => None
                  | Some (v, r) => match oid_rest f r with
                                   | Some l => Some (v :: l)
                                   | None => None
                                   end
                  end
         end
  end.

Definition parse_oid (bs : bytes) : option (list N) :=
  match bs with
  | [] => None
  | _ => match base128 0 0 bs with
         | None => None
         | Some (v, r) =>
             match oid_rest (length r) r with
             | None => None
             | Some l => Some (if v <? 80 then (v / 40) :: (v mod 40) :: l else 2 :: (v - 80) :: l)
             end
         end
  end.

(* --- strings --- *)
Definition is_numeric (b : N) : bool := ((48 <=? b) && (b <=? 57)) || (b =? 32).

Definition is_printable (b : N) (asterisk ampersand : bool) : bool :=
  ((97 <=? b) && (b <=? 122)) || ((65 <=? b) && (b <=? 90)) || ((48 <=? b) && (b <=? 57))
  || ((39 <=? b) && (b <=? 41)) || ((43 <=? b) && (b <=? 47))
  || (b =? 32) || (b =? 58) || (b =? 61) || (b =? 63)
  || (asterisk && (b =? 42)) || (ampersand && (b =? 38)).

Definition parse_numeric (perm : bool) (bs : bytes) : option bytes :=
  if perm then Some bs else if forallb is_numeric bs then Some bs else None.
Definition parse_printable (perm : bool) (bs : bytes) : option bytes :=
  if perm then Some bs else if forallb (fun b => is_printable b true true) bs then Some bs else None.
Definition parse_ia5 (perm : bool) (bs : bytes) : option bytes :=
  if perm then Some bs else if forallb (fun b => b <? 128) bs then Some bs else None.

Definition cont (b : N) : bool := (128 <=? b) && (b <=? 191).

(* unicode/utf8.Valid *)
Fixpoint utf8_valid_f (fuel : nat) (bs : bytes) : bool :=
  match fuel with
  | O => match bs with [] => true | _ => false end
  | S f =>
      match bs with
      | [] => true
      | b :: r =>
          if b <? 128 then utf8_valid_f f r
          else if (194 <=? b) && (b <=? 223) then
            match r with c1 :: r' => cont c1 && utf8_valid_f f r' | _ => false end
          else if (224 <=? b) && (b <=? 239) then
            match r with
            | c1 :: c2 :: r' =>
                (if b =? 224 then (160 <=? c1) && (c1 <=? 191)
                 else if b =? 237 then (128 <=? c1) && (c1 <=? 159)
                 else cont c1) && cont c2 && utf8_valid_f f r'
            | _ => false
            end
          else if (240 <=? b) && (b <=? 244) then
            match r with
            | c1 :: c2 :: c3 :: r' =>
                (if b =? 240 then (144 <=? c1) && (c1 <=? 191)
                 else if b =? 244 then (128 <=? c1) && (c1 <=? 143)
                 else cont c1) && cont c2 && cont c3 && utf8_valid_f f r'
            | _ => false
            end
          else false
      end
  end.
Definition utf8_valid (bs : bytes) : bool := utf8_valid_f (length bs) bs.

Definition parse_utf8 (perm : bool) (bs : bytes) : option bytes :=
  if utf8_valid bs then Some bs else if perm then Some bs else None.

(* utf8.AppendRune for a valid scalar value *)
Definition utf8_enc (r : N) : bytes :=
  if r <? 128 then [r]
  else if r <? 2048 then [192 + r / 64; 128 + r mod 64]
  else if r <? 65536 then [224 + r / 4096; 128 + (r / 64) mod 64; 128 + r mod 64]
  else [240 + r / 262144; 128 + (r / 4096) mod 64; 128 + (r / 64) mod 64; 128 + r mod 64].

Fixpoint units (bs : bytes) : list N :=
  match bs with
  | a :: b :: r => (a * 256 + b) :: units r
  | _ => []
  end.

(* utf16.Decode followed by string([]rune) *)
Fixpoint utf16_to_utf8 (fuel : nat) (us : list N) : bytes :=
  match fuel with
  | O => []
  | S f =>
      match us with
      | [] => []
      | u :: r =>
          if (u <? 55296) || (57344 <=? u) then utf8_enc u ++ utf16_to_utf8 f r
          else if u <? 56320 then
            match r with
            | u2 :: r' =>
                if (56320 <=? u2) && (u2 <? 57344)
                then utf8_enc ((u - 55296) * 1024 + (u2 - 56320) + 65536) ++ utf16_to_utf8 f r'
                else utf8_enc 65533 ++ utf16_to_utf8 f r
            | [] => utf8_enc 65533
            end
          else utf8_enc 65533 ++ utf16_to_utf8 f r
      end
  end.

Definition strip_bmp_terminator (bs : bytes) : bytes :=
  match rev bs with
  | 0 :: 0 :: r => rev r
  | _ => bs
  end.

Definition parse_bmp (bs : bytes) : option bytes :=
  if Nat.even (length bs) then
    let us := units (strip_bmp_terminator bs) in Some (utf16_to_utf8 (length us) us)
  else None.

(* the reflect.String arm of parseField *)
Definition parse_string (perm : bool) (utag : N) (bs : bytes) : option bytes :=
  if utag =? TagPrintableString then parse_printable perm bs
  else if utag =? TagNumericString then parse_numeric perm bs
  else if utag =? TagIA5String then parse_ia5 perm bs
  else if utag =? TagT61String then Some bs
  else if utag =? TagUTF8String then parse_utf8 perm bs
  else if utag =? TagGeneralString then Some bs
  else if utag =? TagBMPString then parse_bmp bs
  else None.

(* --- time (time.Parse specialised to the three layouts asn1.go uses) --- *)
Definition is_digit (b : N) : bool := (48 <=? b) && (b <=? 57).

(* time.getnum *)
Definition getnum (fixed : bool) (bs : bytes) : option (N * bytes) :=
  match bs with
  | a :: r =>
      if is_digit a then
        match r with
        | b :: r' => if is_digit b then Some ((a - 48) * 10 + (b - 48), r')
                     else if fixed then None else Some (a - 48, r)
        | [] => if fixed then None else Some (a - 48, r)
        end
      else None
  | [] => None
  end.

(* stdYear "06": two characters through time.atoi (which accepts a sign) *)
Definition short_year (bs : bytes) : option (Z * bytes) :=
  match bs with
  | a :: b :: r =>
      match (if is_digit a && is_digit b then Some (Z.of_N ((a - 48) * 10 + (b - 48)))
             else if (a =? 43) && is_digit b then Some (Z.of_N (b - 48))
             else if (a =? 45) && is_digit b then Some (- Z.of_N (b - 48))%Z
             else None) with
      | Some y => Some ((if (69 <=? y)%Z then y + 1900 else y + 2000)%Z, r)
      | None => None
      end
  | _ => None
  end.

(* stdLongYear "2006" *)
Definition long_year (bs : bytes) : option (Z * bytes) :=
  match bs with
  | a :: b :: c :: d :: r =>
      if is_digit a && is_digit b && is_digit c && is_digit d
      then Some (Z.of_N ((a - 48) * 1000 + (b - 48) * 100 + (c - 48) * 10 + (d - 48)), r)
      else None
  | _ => None
  end.

Definition is_leap (y : Z) : bool :=
  ((y mod 4 =? 0) && (negb (y mod 100 =? 0) || (y mod 400 =? 0)))%Z.

Definition days_in (m : N) (y : Z) : N :=
  if m =? 2 then (if is_leap y then 29 else 28)
  else if (m =? 4) || (m =? 6) || (m =? 9) || (m =? 11) then 30 else 31.

Fixpoint span_digits (bs : bytes) : bytes * bytes :=
  match bs with
  | b :: r => if is_digit b then let '(d, r') := span_digits r in (b :: d, r') else ([], bs)
  | [] => ([], [])
  end.

(* parseNanoseconds on ".ddd…": at most nine digits count, scaled to nanoseconds *)
Definition nanos (digits : bytes) : N :=
  let d9 := firstn 9 digits in
  fold_left (fun a b => a * 10 + (b - 48)) d9 0 * 10 ^ (9 - blen d9).

(* fractional second present in the input but not in the layout *)
Definition opt_fraction (bs : bytes) : N * bytes :=
  match bs with
  | c :: d :: _ =>
      if ((c =? 46) || (c =? 44)) && is_digit d
      then let '(ds, r) := span_digits (List.tl bs) in (nanos ds, r)
      else (0, bs)
  | _ => (0, bs)
  end.

(* "Z0700": Z, or sign hh mm *)
Definition zone (bs : bytes) : option (Z * bytes) :=
  match bs with
  | 90 :: r => Some (0%Z, r)
  | sg :: h1 :: h2 :: m1 :: m2 :: r =>
      match getnum true [h1; h2], getnum true [m1; m2] with
      | Some (hr, _), Some (mm, _) =>
          if (24 <? hr) || (60 <? mm) then None
          else let o := Z.of_N ((hr * 60 + mm) * 60) in
               if sg =? 43 then Some (o, r) else if sg =? 45 then Some ((- o)%Z, r) else None
      | _, _ => None
      end
  | _ => None
  end.

(* time.Parse for "[20]0601021504[05]Z0700" *)
Definition time_parse (longyear withsec : bool) (bs : bytes) : option timev :=
  match (if longyear then long_year bs else short_year bs) with
  | None => None
  | Some (y, r1) =>
  match getnum true r1 with
  | None => None
  | Some (m, r2) => if (m =? 0) || (12 <? m) then None else
  match getnum true r2 with
  | None => None
  | Some (d, r3) =>
  match getnum false r3 with
  | None => None
  | Some (h, r4) => if 24 <=? h then None else
  match getnum true r4 with
  | None => None
  | Some (mn, r5) => if 60 <=? mn then None else
  match (if withsec
         then match getnum true r5 with
              | None => None
              | Some (s, r6) => if 60 <=? s then None
                                else let '(n, r7) := opt_fraction r6 in Some (s, n, r7)
              end
         else Some (0, 0, r5)) with
  | None => None
  | Some (s, n, r7) =>
  match zone r7 with
  | None => None
  | Some (o, r8) =>
      match r8 with
      | _ :: _ => None                                       (* extra text *)
      | [] => if (d <? 1) || (days_in m y <? d) then None      (* day out of range *)
              else Some {| yr := y; mo := m; dy := d; hh := h; mi := mn; ss := s; ns := n; off := o |}
      end
  end end end end end end end.

Definition fmt2 (n : N) : bytes := [48 + (n / 10) mod 10; 48 + n mod 10].
Definition fmt4 (n : N) : bytes := [48 + (n / 1000) mod 10; 48 + (n / 100) mod 10; 48 + (n / 10) mod 10; 48 + n mod 10].

(* Time.Format for the same layouts *)
Definition time_format (longyear withsec : bool) (t : timev) : bytes :=
  (if longyear then fmt4 (Z.to_N (yr t)) else fmt2 (Z.to_N (yr t mod 100)%Z))
  ++ fmt2 (mo t) ++ fmt2 (dy t) ++ fmt2 (hh t) ++ fmt2 (mi t)
  ++ (if withsec then fmt2 (ss t) else [])
  ++ (if (off t =? 0)%Z then [90]
      else let z := Z.to_N (Z.abs (off t) / 60)%Z in
           (if (off t <? 0)%Z then [45] else [43]) ++ fmt2 (z / 60) ++ fmt2 (z mod 60)).

(* the re-serialisation test both time parsers apply in strict mode only *)
Definition reserial_ok (perm : bool) (longyear withsec : bool) (t : timev) (s : bytes) : bool :=
  if perm then true else bytes_eqb (time_format longyear withsec t) s.

Definition parse_utctime (perm : bool) (bs : bytes) : option timev :=
  match (match time_parse false false bs with
         | Some t => Some (t, false)
         | None => match time_parse false true bs with
                   | Some t => Some (t, true)
                   | None => None
                   end
         end) with
  | None => None
  | Some (t, withsec) =>
      if reserial_ok perm false withsec t bs
      then Some (if (2050 <=? yr t)%Z
                 then {| yr := (yr t - 100)%Z; mo := mo t; dy := dy t; hh := hh t; mi := mi t;
                         ss := ss t; ns := ns t; off := off t |}
                 else t)
      else None
  end.

Definition parse_gentime (perm : bool) (bs : bytes) : option timev :=
  match time_parse true true bs with
  | None => None
  | Some t => if reserial_ok perm true true t bs then Some t else None
  end.

(* ------------------------------------------------------------------ parseField *)

(* getUniversalType: (matchAny, tag, isCompound) *)
Definition universal_type (t : ty) : bool * N * bool :=
  match t with
  | TRaw => (true, 0, false)
  | TOid => (false, TagOID, false)
  | TBits => (false, TagBitString, false)
  | TTime => (false, TagUTCTime, false)
  | TEnum => (false, TagEnum, false)
  | TBig => (false, TagInteger, false)
  | TBool | TFlag => (false, TagBoolean, false)
  | TInt _ => (false, TagInteger, false)
  | TStruct _ _ => (false, TagSequence, true)
  | TBytes => (false, TagOctetString, false)
  | TSlice sn _ => (false, if sn then TagSet else TagSequence, true)
  | TStr => (false, TagPrintableString, false)
  end.

Definition zero_time : timev := {| yr := 1; mo := 1; dy := 1; hh := 0; mi := 0; ss := 0; ns := 0; off := 0 |}.

Fixpoint zero (t : ty) : value :=
  match t with
  | TBool => VBool false
  | TInt _ | TEnum => VInt 0
  | TBig | TBytes | TSlice _ _ | TOid | TBits | TRaw => VNull
  | TStr => VStr []
  | TTime => VTime zero_time
  | TFlag => VFlag false
  | TStruct _ fs => VStruct None (zeros fs)
  end
with zeros (fs : fields) : vals :=
  match fs with
  | FNil => VNil
  | FCons _ t r => VCons (zero t) (zeros r)
  end.

Definition wrap32 (z : Z) : Z := ((z + 2147483648) mod 4294967296 - 2147483648)%Z.

(* setDefaultValue on a fresh target: None = not optional *)
Definition default_value (p : fparams) (t : ty) : option value :=
  if optional p then
    Some match defaultv p, t with
         | Some d, TInt w32 => VInt (if w32 then wrap32 d else d)
         | Some d, TEnum => VInt d
         | _, _ => zero t
         end
  else None.

Definition is_raw (t : ty) : bool := match t with TRaw => true | _ => false end.
Definition is_flag (t : ty) : bool := match t with TFlag => true | _ => false end.
Definition is_string_tag (t : N) : bool :=
  (t =? TagIA5String) || (t =? TagGeneralString) || (t =? TagT61String) || (t =? TagUTF8String)
  || (t =? TagNumericString) || (t =? TagBMPString).

(* everything parseField does before it looks at the Go kind of the target:
   PDone = returned early with a value, PBody = reached the type switch *)
Inductive pre :=
| PFail
| PDone (v : value) (rest : bytes)
| PBody (utag : N) (h : hdr) (inner rest full : bytes).
(* full: RawValue.FullBytes = bytes[initOffset:offset]; RawContent = bytes[elemOffset:offset] *)

Definition opt_tag_eqb (h : N) (p : option N) : bool :=
  match p with Some x => h =? x | None => false end.

Definition consumed (bs rest : bytes) : bytes := firstn (length bs - length rest) bs.

(* parseField from "We have unwrapped any explicit tagging at this point": h is the header to match, r the bytes
   after it, start the suffix at which the element begins, bs the whole input of parseField (returned untouched when
   the field is skipped) *)
Definition match_elem (p : fparams) (t : ty) (bs : bytes) (h : hdr) (r start : bytes) : pre :=
  let '(match_any, utag0, compound_type) := universal_type t in
  let utag1 :=
    if utag0 =? TagPrintableString then
      if t_class h =? 0 then (if is_string_tag (t_tag h) then t_tag h else utag0)
      else if negb (stringType p =? 0) then stringType p else utag0
    else utag0 in
  let utag2 :=
    if utag1 =? TagUTCTime then
      if t_class h =? 0 then (if t_tag h =? TagGeneralizedTime then t_tag h else utag1)
      else if negb (timeType p =? 0) then timeType p else utag1
    else utag1 in
  let utag := if pset p then TagSet else utag2 in
  let implicit := negb (explicit p) && match ptag p with Some _ => true | None => false end in
  let expected_class :=
    if implicit && private p then 3 else if implicit && application p then 1
    else if implicit then 2 else 0 in
  let expected_tag := if implicit then match ptag p with Some x => x | None => utag end else utag in
  let match_any_ct := if implicit then false else match_any in
  if (negb match_any_ct && (negb (t_class h =? expected_class) || negb (t_tag h =? expected_tag)))
     || (negb match_any && negb (Bool.eqb (t_comp h) compound_type))
  then match default_value p t with
       | Some v => PDone v bs
       | None => PFail
       end
  else if blen r <? t_len h then PFail                  (* data truncated *)
  else let rest := drop (t_len h) r in
       PBody utag h (take (t_len h) r) rest
             (consumed start rest).

Definition pre_field (perm : bool) (p : fparams) (t : ty) (bs : bytes) : pre :=
  match bs with
  | [] => match default_value p t with Some v => PDone v [] | None => PFail end
  | _ =>
  match parse_tl perm bs with
  | None => PFail
  | Some (h1, r1) =>
  (* the header to match, the bytes after it, and the suffix at which the element decoded into the target starts
     (after the header of an EXPLICIT tag, if one was unwrapped) *)
  let unwrap : option (hdr * bytes * bytes) + pre :=
    if explicit p then
      let expected_class := if application p then 1 else if private p then 3 else 2 in
      if (t_class h1 =? expected_class) && opt_tag_eqb (t_tag h1) (ptag p)
         && ((t_len h1 =? 0) || t_comp h1)
      then
        if is_raw t then inl (Some (h1, r1, bs))
        else if 0 <? t_len h1 then
          match r1 with
          | [] => inr PFail                                 (* explicit tag has no child *)
          | _ => inl (match parse_tl perm r1 with Some (h2, r2) => Some (h2, r2, r1) | None => None end)
          end
        else if is_flag t then inr (PDone (VFlag true) r1)
        else inr PFail                                      (* zero length explicit tag was not a Flag *)
      else match default_value p t with
           | Some v => inr (PDone v bs)
           | None => inr PFail
           end
    else inl (Some (h1, r1, bs)) in
  match unwrap with
  | inr x => x
  | inl None => PFail
  | inl (Some (h, r, start)) =>
      match_elem p t bs h r start
  end end end.

(* the non-recursive arms of the type switch *)
Definition parse_prim (perm : bool) (t : ty) (utag : N) (h : hdr) (inner full : bytes) : option value :=
  match t with
  | TRaw => Some (VRaw (t_class h) (t_tag h) (t_comp h) inner full)
  | TOid => option_map VOid (parse_oid inner)
  | TBits => parse_bitstring inner
  | TTime => option_map VTime (if utag =? TagUTCTime then parse_utctime perm inner else parse_gentime perm inner)
  | TEnum => option_map VInt (parse_int32 perm inner)
  | TFlag => Some (VFlag true)
  | TBig => option_map VInt (parse_bigint perm inner)
  | TBool => option_map VBool (parse_bool inner)
  | TInt w32 => option_map VInt (if w32 then parse_int32 perm inner else parse_int64 perm inner)
  | TBytes => Some (VBytes inner)
  | TStr => option_map VStr (parse_string perm utag inner)
  | TStruct _ _ | TSlice _ _ => None
  end.

(* first pass of parseSequenceOf: count the elements and check their tags *)
Fixpoint count_elems (perm : bool) (ut : bool * N * bool) (fuel : nat) (bs : bytes) : option nat :=
  match bs with
  | [] => Some O
  | _ =>
    match fuel with
    | O => None
    | S f =>
      match parse_tl perm bs with
      | None => None
      | Some (h, r) =>
          let '(match_any, expected_tag, compound_type) := ut in
          let tg := if is_string_tag (t_tag h) then TagPrintableString
                    else if (t_tag h =? TagGeneralizedTime) || (t_tag h =? TagUTCTime) then TagUTCTime
                    else t_tag h in
          if negb match_any && (negb (t_class h =? 0) || negb (Bool.eqb (t_comp h) compound_type)
                                || negb (tg =? expected_tag))
          then None                                         (* sequence tag mismatch *)
          else if blen r <? t_len h then None               (* truncated sequence *)
          else match count_elems perm ut f (drop (t_len h) r) with
               | Some n => Some (S n)
               | None => None
               end
      end
    end
  end.

(* second pass of parseSequenceOf: n elements, each through parseField with empty parameters *)
Fixpoint elems_with (pf : bytes -> option (value * bytes)) (n : nat) (bs : bytes) : option vals :=
  match n with
  | O => Some VNil
  | S n' =>
      match pf bs with
      | None => None
      | Some (v, r) =>
          match elems_with pf n' r with
          | Some vs => Some (VCons v vs)
          | None => None
          end
      end
  end.

Fixpoint parse_field (perm : bool) (p : fparams) (t : ty) (bs : bytes) {struct t} : option (value * bytes) :=
  match pre_field perm p t bs with
  | PFail => None
  | PDone v r => Some (v, r)
  | PBody utag h inner rest full =>
      match t with
      | TStruct raw0 fs =>
          match parse_fields perm fs inner with
          | Some vs => Some (VStruct (if raw0 then Some full else None) vs, rest)
          | None => None
          end
      | TSlice _ e =>
          match count_elems perm (universal_type e) (length inner) inner with
          | None => None
          | Some n =>
              match elems_with (parse_field perm no_params e) n inner with
              | Some vs => Some (VList vs, rest)
              | None => None
              end
          end
      | _ =>
          match parse_prim perm t utag h inner full with
          | Some v => Some (v, rest)
          | None => None
          end
      end
  end
with parse_fields (perm : bool) (fs : fields) (bs : bytes) {struct fs} : option vals :=
  match fs with
  | FNil => Some VNil                   (* trailing bytes of the SEQUENCE are ignored *)
  | FCons p t r =>
      match parse_field perm p t bs with
      | None => None
      | Some (v, bs') =>
          match parse_fields perm r bs' with
          | Some vs => Some (VCons v vs)
          | None => None
          end
      end
  end.

(* UnmarshalWithParams: value and the number of bytes left over *)
Definition unmarshal (perm : bool) (p : fparams) (t : ty) (bs : bytes) : option (value * N) :=
  match parse_field perm p t bs with
  | Some (v, r) => Some (v, blen r)
  | None => None
  end.

(* ------------------------------------------------------------------ correspondence case *)

Definition timev_eqb (a b : timev) : bool :=
  (yr a =? yr b)%Z && (mo a =? mo b) && (dy a =? dy b) && (hh a =? hh b) && (mi a =? mi b)
  && (ss a =? ss b) && (ns a =? ns b) && (off a =? off b)%Z.

Fixpoint value_eqb (a b : value) : bool :=
  match a, b with
  | VNull, VNull => true
  | VBool x, VBool y => Bool.eqb x y
  | VInt x, VInt y => (x =? y)%Z
  | VStr x, VStr y => bytes_eqb x y
  | VOid x, VOid y => list_eqb N.eqb x y
  | VBits x n, VBits y m => bytes_eqb x y && (n =? m)%Z
  | VTime x, VTime y => timev_eqb x y
  | VBytes x, VBytes y => bytes_eqb x y
  | VRaw c t k b f, VRaw c' t' k' b' f' =>
      (c =? c') && (t =? t') && Bool.eqb k k' && bytes_eqb b b' && bytes_eqb f f'
  | VFlag x, VFlag y => Bool.eqb x y
  | VStruct r x, VStruct r' y => option_eqb bytes_eqb r r' && vals_eqb x y
  | VList x, VList y => vals_eqb x y
  | _, _ => false
  end
with vals_eqb (a b : vals) : bool :=
  match a, b with
  | VNil, VNil => true
  | VCons x a', VCons y b' => value_eqb x y && vals_eqb a' b'
  | _, _ => false
  end.

Definition obs := option (value * N).
Definition obs_eqb : obs -> obs -> bool := option_eqb (prod_eqb value_eqb N.eqb).

(* (top-level params, target type, input, strict-mode outcome, permissive-mode outcome) *)
Definition case := (fparams * ty * bytes * obs * obs)%type.
Definition check_case (c : case) : bool :=
  let '(p, t, bs, o_strict, o_perm) := c in
  obs_eqb (unmarshal false p t bs) o_strict && obs_eqb (unmarshal true p t bs) o_perm.
