(* C11 — model of verifier/walk.go: WalkChainsAsync / WalkChains / continueWalking /
   canAddToChain, on the graph model of C10.  Executable only.

   A chain is the list of certificates from the start certificate to a root
   (x509.CertificateChain).  The Go walk sends chains through a channel in map
   iteration order; the model returns them in the order of g_parents, and the
   comparison is on sorted lists (multisets).  The asynchronous delivery is
   modelled separately (model/C11Async.v). *)
From Coq Require Import List NArith ZArith Bool Arith.
From Verif Require Import Harness.
From VerifModel Require Export C10.
Import ListNotations.

Definition max_intermediate : nat := 9.     (* maxIntermediateCount *)

(* CertificateChain.SubjectAndKeyInChain *)
Definition in_chain (n : node) (ch : list cert) : bool :=
  existsb (fun c => node_eqb n (node_of c)) ch.

(* canAddToChain(c, certType, currentChain) == nil *)
Definition can_add (c : cert) (is_root : bool) (ch : list cert) : bool :=
  if negb is_root && (negb (c_bcv c) || negb (c_ca c)) then false          (* NotAuthorizedToSign *)
  else if c_bcv c && (0 <=? c_mpl c)%Z && (c_mpl c <? Z.of_nat (length ch) - 1)%Z then false  (* TooManyIntermediates *)
  else true.

(* continueWalking(found, start, current, soFar, lastEdge) *)
Fixpoint cw (fuel : nat) (g : graph) (cur : option node) (sofar : list cert) (last : edge) : list (list cert) :=
  match fuel with
  | O => []
  | S f =>
      if e_root last then [sofar] else
      match cur with
      | None => []
      | Some n =>
          if in_chain n sofar then [] else                      (* a self-signed non-root leads back into the chain *)
          if Nat.leb max_intermediate (length sofar) then [] else
          (* root certificates issued to the current node end the chain, whatever their own issuer *)
          flat_map (fun x : node * N =>
                      let '(ch, fp) := x in
                      if negb (node_eqb ch n) then [] else      (* current.rootEdges *)
                      match find_edge fp (g_edges g) with
                      | None => []
                      | Some e =>
                          if can_add (e_cert e) true sofar
                          then cw f g (e_iss e) (sofar ++ [e_cert e]) e
                          else []
                      end)
                   (g_roots g)
          ++
          flat_map (fun t : trip =>
                      let '(ch, tgt, fp) := t in
                      if negb (node_eqb ch n) then [] else      (* current.parentsBySubjectAndKey *)
                      if mem_node tgt (g_nodes g) && in_chain tgt sofar then [] else
                      match find_edge fp (g_edges g) with
                      | None => []
                      | Some e =>
                          if e_root e then [] else              (* roots are handled above *)
                          if can_add (e_cert e) false sofar
                          then cw f g (e_iss e) (sofar ++ [e_cert e]) e
                          else []
                      end)
                   (g_parents g)
      end
  end.

(* WalkChainsAsync: the start edge is the graph's edge for the certificate, or
   a synthesized non-root edge whose issuer is the first node with the issuer
   name whose key verifies the certificate *)
Definition start_edge (g : graph) (c : cert) : edge :=
  match find_edge (c_fp c) (g_edges g) with
  | Some e => e
  | None => mkEdge c (find (issues c) (g_nodes g)) (node_of c) false
  end.

Definition walk (g : graph) (c : cert) : list (list cert) :=
  let s := start_edge g c in
  cw (S max_intermediate) g (e_iss s) [e_cert s] s.

(* ---- correspondence case ---- *)
Definition code_chain (ch : list N) : N := fold_left (fun a f => (a * 64 + f + 1)%N) ch 0%N.
Definition chains_code (l : list (list N)) : list N := sortN (map code_chain l).

(* (index of the start certificate in the universe, chains observed, as fingerprint lists) *)
Definition wobs := (nat * list (list N))%type.
(* universe, ops that build the graph, walks *)
Definition case := (list cert * list uop * list wobs)%type.

Definition check_walk (u : list cert) (g : graph) (w : wobs) : bool :=
  match nth_error u (fst w) with
  | Some c => list_eqb N.eqb (chains_code (map (map c_fp) (walk g c))) (chains_code (snd w))
  | None => false
  end.

Definition check_case (c : case) : bool :=
  let '(u, l, ws) := c in
  match ops_of u l with
  | Some ops =>
      match run empty_graph ops with
      | Some g => forallb (check_walk u g) ws
      | None => false
      end
  | None => false
  end.
