(* C32 — model of what a zcrypto endpoint does with whatever a peer sends,
   executable only.  Every index and slice goes through a checked primitive
   that yields RPanic when Go would panic; recursion carries fuel and yields
   RFuel when it runs out.

   key_agreement.go  rsaKeyAgreement.processClientKeyExchange    -> rsa_ckx
                     ecdheKeyAgreement.processClientKeyExchange  -> ecdhe_ckx
                     dheKeyAgreement.processClientKeyExchange    -> dhe_ckx
                     ecdheKeyAgreement.processServerKeyExchange  -> ecdhe_skx
                     dheKeyAgreement.processServerKeyExchange    -> dhe_skx
                     signedKeyAgreement.verifyParameters         -> verify_params
   conn.go           readRecordOrCCS / retryReadRecord           -> rroc
                     readHandshake                               -> read_handshake
   (record protection is the model of C25: half_decrypt) *)
From Coq Require Import List NArith ZArith Bool Arith.
From Verif Require Import Harness.
From VerifModel Require Import C25.
Import ListNotations.
Local Open Scope Z_scope.

(* ------------------------------------------------------------ panicking primitives *)
Inductive res (A : Type) := ROk (a : A) | RErr (code : Z) | RPanic.
Arguments ROk {A} a. Arguments RErr {A} code. Arguments RPanic {A}.

Definition rbind {A B} (r : res A) (f : A -> res B) : res B :=
  match r with ROk a => f a | RErr c => RErr c | RPanic => RPanic end.
Notation "x <- e ;; f" := (rbind e (fun x => f)) (at level 61, e at next level, right associativity).

(* l[i] *)
Definition idx (l : bytes) (i : Z) : res Z :=
  if (0 <=? i) && (i <? zlen l) then ROk (Z.of_N (nth (Z.to_nat i) l 0%N)) else RPanic.
(* l[a:b] *)
Definition slice (l : bytes) (a b : Z) : res bytes :=
  if (0 <=? a) && (a <=? b) && (b <=? zlen l) then ROk (ztake (b - a) (zdrop a l)) else RPanic.
Definition slice_from (l : bytes) (a : Z) : res bytes := slice l a (zlen l).
Definition slice_to (l : bytes) (b : Z) : res bytes := slice l 0 b.
(* int(l[i])<<8 | int(l[i+1]) *)
Definition be16_at (l : bytes) (i : Z) : res Z :=
  hi <- idx l i ;; lo <- idx l (i + 1) ;; ROk (hi * 256 + lo).

Definition err_struct := 1.   (* errServerKeyExchange / errClientKeyExchange *)
Definition err_other := 2.    (* any other error *)

(* ------------------------------------------------------------ ClientKeyExchange *)
(* rsaKeyAgreement.processClientKeyExchange up to the decryption: the ciphertext *)
Definition rsa_ckx (ct : bytes) : res bytes :=
  if zlen ct <? 2 then RErr err_struct else
  n <- be16_at ct 0 ;;
  if negb (n =? zlen ct - 2) then RErr err_struct else
  slice_from ct 2.

(* ecdheKeyAgreement.processClientKeyExchange up to SharedKey: the peer's point *)
Definition ecdhe_ckx (ct : bytes) : res bytes :=
  if zlen ct =? 0 then RErr err_struct else
  n <- idx ct 0 ;;
  if negb (n =? zlen ct - 1) then RErr err_struct else
  slice_from ct 1.

(* dheKeyAgreement.processClientKeyExchange: Yc, checked against 0 < Yc < p *)
Definition dhe_ckx (p : N) (ct : bytes) : res N :=
  if zlen ct <? 2 then RErr err_struct else
  n <- be16_at ct 0 ;;
  if negb (n =? zlen ct - 2) then RErr err_struct else
  yb <- slice_from ct 2 ;;
  let y := unbe yb in
  if (y =? 0)%N || (p <=? y)%N then RErr err_struct else ROk y.

(* ------------------------------------------------------------ ServerKeyExchange *)
Definition curve_known (c : Z) : bool := (c =? 23) || (c =? 24) || (c =? 25) || (c =? 29).

(* typeAndHashFromSignatureScheme: 1 = RSA (PKCS#1 v1.5 or PSS), 2 = ECDSA, 3 = Ed25519 *)
Definition sig_family (alg : Z) : option Z :=
  if (alg =? 513) || (alg =? 1025) || (alg =? 1281) || (alg =? 1537) then Some 1
  else if (alg =? 2052) || (alg =? 2053) || (alg =? 2054) then Some 1
  else if (alg =? 515) || (alg =? 1027) || (alg =? 1283) || (alg =? 1539) then Some 2
  else if alg =? 2055 then Some 3
  else None.

Fixpoint memZ (x : Z) (l : list Z) : bool :=
  match l with [] => false | y :: r => (x =? y) || memZ x r end.

(* how far processServerKeyExchange got: the fields it has stored *)
Record skx_view := { sv_stage : Z; sv_curve : Z; sv_sig : bytes; sv_p : bytes; sv_g : bytes; sv_y : bytes }.
Definition sv0 : skx_view := {| sv_stage := 0; sv_curve := 0; sv_sig := []; sv_p := []; sv_g := []; sv_y := [] |}.
(* (view, 0 = reached signature verification / returned nil, otherwise error code) *)
Definition skx_out := (skx_view * Z)%type.

(* ecdheKeyAgreement.processServerKeyExchange.
   tls12: ka.version >= TLS 1.2; is_rsa: ka.isRSA; cert_rsa: the certificate
   key is RSA (legacy type); algs: clientHello.supportedSignatureAlgorithms;
   point_ok: params.SharedKey(publicKey) != nil (elliptic-curve arithmetic, an input) *)
Definition ecdhe_skx (tls12 is_rsa cert_rsa : bool) (algs : list Z) (point_ok : bool) (key : bytes)
  : res skx_out :=
  if zlen key <? 4 then ROk (sv0, err_struct) else
  k0 <- idx key 0 ;;
  if negb (k0 =? 3) then ROk (sv0, err_other) else
  curve <- be16_at key 1 ;;
  plen <- idx key 3 ;;
  if plen + 4 >? zlen key then ROk (sv0, err_struct) else
  params <- slice_to key (4 + plen) ;;
  pub <- slice_from params 4 ;;
  sig <- slice_from key (4 + plen) ;;
  if zlen sig <? 2 then ROk (sv0, err_struct) else
  if negb (curve_known curve) then ROk (sv0, err_other) else
  let v1 := {| sv_stage := 1; sv_curve := curve; sv_sig := []; sv_p := []; sv_g := []; sv_y := [] |} in
  if negb point_ok then ROk (v1, err_struct) else
  let v2 := {| sv_stage := 2; sv_curve := curve; sv_sig := []; sv_p := []; sv_g := []; sv_y := [] |} in
  fam_sig <-
    (if tls12 then
       alg <- be16_at sig 0 ;;
       sig' <- slice_from sig 2 ;;
       if zlen sig' <? 2 then RErr err_struct else
       if negb (memZ alg algs) then RErr err_other else
       match sig_family alg with
       | None => RErr err_other
       | Some f => ROk (f, sig')
       end
     else ROk (if cert_rsa then 1 else 2, sig)) ;;
  let '(fam, sig1) := fam_sig in
  if negb (Bool.eqb (fam =? 1) is_rsa) then RErr err_struct else
  sl <- be16_at sig1 0 ;;
  if negb (sl + 2 =? zlen sig1) then RErr err_struct else
  raw <- slice_from sig1 2 ;;
  ROk ({| sv_stage := 3; sv_curve := curve; sv_sig := raw; sv_p := []; sv_g := []; sv_y := [] |}, 0).

(* errors raised after stage 2 keep the stage-2 view *)
Definition ecdhe_skx_view (tls12 is_rsa cert_rsa : bool) (algs : list Z) (point_ok : bool) (key : bytes)
  : res skx_out :=
  match ecdhe_skx tls12 is_rsa cert_rsa algs point_ok key with
  | RErr c =>
      match be16_at key 1 with
      | ROk curve => ROk ({| sv_stage := 2; sv_curve := curve; sv_sig := []; sv_p := []; sv_g := []; sv_y := [] |}, c)
      | _ => RPanic
      end
  | r => r
  end.

(* signedKeyAgreement.verifyParameters up to the signature check.
   sig_type: ka.sigType (1 RSA, 2 DSA, 3 ECDSA); sah: the (signature, hash)
   pairs the client accepts, as hash*256+signature *)
Definition verify_params (tls12 : bool) (sig_type : Z) (sah : list Z) (sig : bytes) : res bytes :=
  if zlen sig <? 2 then RErr err_struct else
  sig1 <-
    (if tls12 then
       h <- idx sig 0 ;;
       s <- idx sig 1 ;;
       sig' <- slice_from sig 2 ;;
       if negb (s =? sig_type) then RErr err_struct else
       if zlen sig' <? 2 then RErr err_struct else
       if negb (memZ (h * 256 + sig_type) sah) then RErr err_other else ROk sig'
     else ROk sig) ;;
  sl <- be16_at sig1 0 ;;
  if negb (sl + 2 =? zlen sig1) then RErr err_struct else
  slice_from sig1 2.

(* one length-prefixed big integer of dheKeyAgreement.processServerKeyExchange *)
Definition read_u16_bytes (k : bytes) : res (bytes * bytes) :=
  if zlen k <? 2 then RErr err_struct else
  n <- be16_at k 0 ;;
  k1 <- slice_from k 2 ;;
  if zlen k1 <? n then RErr err_struct else
  v <- slice_to k1 n ;;
  r <- slice_from k1 n ;;
  ROk (v, r).

Definition dhe_skx (tls12 : bool) (sig_type : Z) (sah : list Z) (skip_verify : bool) (key : bytes)
  : res skx_out :=
  match read_u16_bytes key with
  | RPanic => RPanic
  | RErr c => ROk (sv0, c)
  | ROk (p, k1) =>
    let v1 := {| sv_stage := 1; sv_curve := 0; sv_sig := []; sv_p := p; sv_g := []; sv_y := [] |} in
    match read_u16_bytes k1 with
    | RPanic => RPanic
    | RErr c => ROk (v1, c)
    | ROk (g, k2) =>
      let v2 := {| sv_stage := 2; sv_curve := 0; sv_sig := []; sv_p := p; sv_g := g; sv_y := [] |} in
      match read_u16_bytes k2 with
      | RPanic => RPanic
      | RErr c => ROk (v2, c)
      | ROk (y, sig) =>
        let v3 := {| sv_stage := 3; sv_curve := 0; sv_sig := []; sv_p := p; sv_g := g; sv_y := y |} in
        if (unbe y =? 0)%N || (unbe p <=? unbe y)%N then ROk (v3, err_struct) else
        (* serverDHParams := skx.key[:len(skx.key)-len(sig)] *)
        match slice_to key (zlen key - zlen sig) with
        | RPanic => RPanic
        | RErr c => ROk (v3, c)
        | ROk _ =>
          match verify_params tls12 sig_type sah sig with
          | RPanic => RPanic
          | RErr c => ROk (v3, if skip_verify then 0 else c)
          | ROk raw =>
              ROk ({| sv_stage := 4; sv_curve := 0; sv_sig := raw; sv_p := p; sv_g := g; sv_y := y |}, 0)
          end
        end
      end
    end
  end.

(* ------------------------------------------------------------ the reader *)
Definition max_handshake := 65536.
Definition max_useless := 16.
Definition alert_internal_error := 80.

Record rconn := {
  rc_st : hstate;                 (* c.in (version of rc_st = c.vers) *)
  rc_have_vers : bool;            (* c.haveVers *)
  rc_complete : bool;             (* handshake complete *)
  rc_hand : bytes;                (* c.hand *)
  rc_retry : Z;                   (* c.retryCount *)
  rc_next : option (kind * bytes);(* c.in.nextCipher (kind, IV held by the mode) *)
  rc_pending : bool               (* c.input holds undelivered application data *)
}.

Definition with_read (c : rconn) (st : hstate) (hand : bytes) (retry : Z) (pending : bool) : rconn :=
  {| rc_st := st; rc_have_vers := rc_have_vers c; rc_complete := rc_complete c; rc_hand := hand;
     rc_retry := retry; rc_next := rc_next c; rc_pending := pending |}.

Section Reader.
  Variable stream : Z -> bytes -> bytes.
  Variable cbc_dec : bytes -> bytes -> bytes.
  Variable aopen : bytes -> bytes -> bytes -> option bytes.
  Variable mac : bytes -> bytes.

  (* header checks of readRecordOrCCS in any phase; raw holds at least 5 bytes *)
  Definition rx_header32 (c : rconn) (raw : bytes) : option Z :=
    let v := version (rc_st c) in
    let typ := nth 0 raw 0%N in
    let vers := Z.of_N (nth 1 raw 0%N) * 256 + Z.of_N (nth 2 raw 0%N) in
    let n := Z.of_N (nth 3 raw 0%N) * 256 + Z.of_N (nth 4 raw 0%N) in
    if negb (rc_complete c) && (typ =? 128)%N then None else
    if rc_have_vers c && negb (v =? VersionTLS13) && negb (vers =? v) then None else
    if negb (rc_have_vers c) && ((negb (typ =? 21)%N && negb (typ =? 22)%N) || (vers >=? 4096)) then None else
    if ((v =? VersionTLS13) && (n >? max_ciphertext13)) || (n >? max_ciphertext) then None else Some n.

  Definition rx_record32 (c : rconn) (buf : bytes) : rx_step bytes :=
    if zlen buf <? 5 then RxEnd (match buf with [] => EndEOF | _ => EndUnexpectedEOF end) else
    match rx_header32 c buf with
    | None => RxEnd EndHeader
    | Some n =>
        if zlen buf <? 5 + n then RxEnd EndUnexpectedEOF else
        rx_decrypt stream cbc_dec aopen mac (rc_st c) (ztake (5 + n) buf) (zdrop (5 + n) buf)
    end.

  (* the result of one readRecordOrCCS call *)
  Inductive rr :=
  | RROk (c : rconn) (rest : bytes) (delivered : bytes)
  | RREnd (e : rx_end)
  | RRFuel.

  Fixpoint rroc (fuel : nat) (expect_ccs : bool) (c : rconn) (buf : bytes) : rr :=
    match fuel with
    | O => RRFuel
    | S f =>
      if rc_pending c then RREnd EndOther else
      match rx_record32 c buf with
      | RxEnd e => RREnd e
      | RxRec typ data st' rest =>
        let v := version st' in
        let is_null := match knd st' with KNull => true | _ => false end in
        if is_null && (typ =? 23)%N then RREnd (EndLocal alert_unexpected_message) else
        let retry1 := if negb (typ =? 21)%N && negb (typ =? 20)%N && (0 <? zlen data) then 0 else rc_retry c in
        if (v =? VersionTLS13) && negb (typ =? 22)%N && (0 <? zlen (rc_hand c))
        then RREnd (EndLocal alert_unexpected_message) else
        let again :=
          if retry1 + 1 >? max_useless then RREnd EndOther
          else rroc f expect_ccs (with_read c st' (rc_hand c) (retry1 + 1) false) rest in
        if (typ =? 21)%N then
          if negb (zlen data =? 2) then RREnd (EndLocal alert_unexpected_message) else
          let lvl := nth 0 data 0%N in let desc := Z.of_N (nth 1 data 0%N) in
          if desc =? 0 then RREnd EndEOF else
          if v =? VersionTLS13 then RREnd (EndRemote desc) else
          if (lvl =? 1)%N then again
          else if (lvl =? 2)%N then RREnd (EndRemote desc)
          else RREnd (EndLocal alert_unexpected_message)
        else if (typ =? 20)%N then
          if negb (zlen data =? 1) || negb (nth 0 data 0%N =? 1)%N then RREnd (EndLocal alert_decode_error) else
          if 0 <? zlen (rc_hand c) then RREnd (EndLocal alert_unexpected_message) else
          if v =? VersionTLS13 then again else
          if negb expect_ccs then RREnd (EndLocal alert_unexpected_message) else
          match rc_next c with
          | None => RREnd (EndLocal alert_internal_error)
          | Some (k, iv) =>
              RROk {| rc_st := {| version := v; knd := k; seqno := 0%N; civ := iv; spos := 0 |};
                      rc_have_vers := rc_have_vers c; rc_complete := rc_complete c; rc_hand := rc_hand c;
                      rc_retry := retry1; rc_next := None; rc_pending := false |} rest []
          end
        else if (typ =? 23)%N then
          if negb (rc_complete c) || expect_ccs then RREnd (EndLocal alert_unexpected_message) else
          match data with
          | [] => again
          | _ => RROk (with_read c st' (rc_hand c) retry1 true) rest data
          end
        else if (typ =? 22)%N then
          match data with
          | [] => RREnd (EndLocal alert_unexpected_message)
          | _ => if expect_ccs then RREnd (EndLocal alert_unexpected_message)
                 else RROk (with_read c st' (rc_hand c ++ data) retry1 false) rest []
          end
        else RREnd (EndLocal alert_unexpected_message)
      end
    end.

  (* for c.hand.Len() < need { readRecord() } *)
  Fixpoint fill_hand (fuel : nat) (need : Z) (c : rconn) (buf : bytes) : rr :=
    if zlen (rc_hand c) >=? need then RROk c buf [] else
    match fuel with
    | O => RRFuel
    | S f =>
        match rroc 18 false c buf with
        | RROk c' rest _ => fill_hand f need c' rest
        | e => e
        end
    end.

  (* message types readHandshake knows, as a function of c.vers *)
  Definition known_type (t : Z) : bool :=
    memZ t [0; 1; 2; 4; 11; 13; 22; 12; 14; 16; 15; 20; 8; 5; 24].

  Inductive hres :=
  | HMsg (typ : Z) (raw : bytes) (c : rconn) (rest : bytes)
  | HEnd (e : rx_end)
  | HFuel.

  (* readHandshake; unm = the message's unmarshal result (C30) *)
  Definition read_handshake (unm : Z -> bytes -> bool) (c : rconn) (buf : bytes) : hres :=
    match fill_hand 5 4 c buf with
    | RRFuel => HFuel
    | RREnd e => HEnd e
    | RROk c1 buf1 _ =>
        let h := rc_hand c1 in
        let n := Z.of_N (nth 1 h 0%N) * 65536 + Z.of_N (nth 2 h 0%N) * 256 + Z.of_N (nth 3 h 0%N) in
        if n >? max_handshake then HEnd EndOther else
        match fill_hand (Z.to_nat (4 + n) + 1) (4 + n) c1 buf1 with
        | RRFuel => HFuel
        | RREnd e => HEnd e
        | RROk c2 buf2 _ =>
            let h2 := rc_hand c2 in
            let data := ztake (4 + n) h2 in
            let c3 := with_read c2 (rc_st c2) (zdrop (4 + n) h2) (rc_retry c2) (rc_pending c2) in
            let t := Z.of_N (nth 0 data 0%N) in
            if negb (known_type t) then HEnd (EndLocal alert_unexpected_message) else
            if negb (unm t data) then HEnd (EndLocal alert_unexpected_message) else
            HMsg t data c3 buf2
        end
    end.

  (* a sequence of readHandshake calls, then what ended it: the types and
     lengths of the messages delivered *)
  Fixpoint read_handshakes (fuel : nat) (unm : Z -> bytes -> bool) (c : rconn) (buf : bytes)
    : list (Z * Z) * Z * Z :=
    match fuel with
    | O => ([], 3, zlen (rc_hand c))
    | S f =>
        match read_handshake unm c buf with
        | HFuel => ([], 99, zlen (rc_hand c))
        | HEnd e => ([], end_code e, 0)
        | HMsg t raw c' rest =>
            let '(l, e, h) := read_handshakes f unm c' rest in ((t, zlen raw) :: l, e, h)
        end
    end.
End Reader.

(* ------------------------------------------------------------ correspondence cases *)
Definition res_code {A} (r : res A) : Z :=
  match r with ROk _ => 0 | RErr c => c | RPanic => 9 end.

(* stream ckx: (kind 0 rsa / 1 ecdhe / 2 dhe, p, ciphertext, observed class, observed parsed bytes)
   class: 0 past the structural checks, 1 structural error, 9 panic *)
Definition ckx := (Z * N * bytes * (Z * bytes))%type.
Definition check_ckx (c : ckx) : bool :=
  let '(kind, p, ct, (cls, parsed)) := c in
  if kind =? 0 then
    match rsa_ckx ct with
    | ROk b => (cls =? 0) && bytes_eqb b parsed
    | r => cls =? res_code r
    end
  else if kind =? 1 then
    match ecdhe_ckx ct with
    | ROk b => (cls =? 0) && bytes_eqb b parsed
    | r => cls =? res_code r
    end
  else
    match dhe_ckx p ct with
    | ROk y => (cls =? 0) && (unbe parsed =? y)%N
    | r => cls =? res_code r
    end.

(* stream skx: ECDHE (kind 0) or DHE (kind 1) ServerKeyExchange.
   observed: (panic?, stage, error class 0/1/2, curve, isolated signature, p, g, y) *)
Definition skx_obs := (bool * Z * Z * Z * bytes * bytes * bytes * bytes)%type.
Definition skx := (Z * bool * bool * bool * list Z * bool * Z * bool * bytes * skx_obs)%type.
Definition strip0 (l : bytes) : bytes :=   (* big.Int.Bytes drops leading zeros *)
  (fix go (l : bytes) := match l with 0%N :: r => go r | _ => l end) l.
Definition check_skx (c : skx) : bool :=
  let '(kind, tls12, is_rsa, cert_rsa, algs, point_ok, sig_type, skip_verify, key,
        (pan, stage, cls, curve, sig, p, g, y)) := c in
  let r := if kind =? 0 then ecdhe_skx_view tls12 is_rsa cert_rsa algs point_ok key
           else dhe_skx tls12 sig_type algs skip_verify key in
  match r with
  | RPanic => pan
  | RErr _ => false
  | ROk (v, e) =>
      negb pan && (stage =? sv_stage v) &&
      (* reaching the signature check, the outcome is the primitive's; before it, the class is determined *)
      ((e =? 0) || (cls =? e)) &&
      ((kind =? 1) || (sv_stage v <? 1) || (curve =? sv_curve v)) &&
      bytes_eqb sig (sv_sig v) &&
      bytes_eqb p (strip0 (sv_p v)) && bytes_eqb g (strip0 (sv_g v)) && bytes_eqb y (strip0 (sv_y v))
  end.

(* stream hs: a connection in the handshake phase (spy primitives of C25) fed a
   byte stream; readHandshake is called until it fails.
   observed: the (type, length) of every message returned, the end class, and
   len(c.hand) at the end when the reader gave up for lack of fuel only *)
Definition t_unm (t : Z) (raw : bytes) : bool :=
  (* the harness only sends types whose unmarshal is a length check:
     0 hello_request and 14 server_hello_done are empty, 12, 16 and 20 carry
     opaque bytes; everything else the harness never sends *)
  if (t =? 0) || (t =? 14) then zlen raw =? 4 else true.
Definition hs := (nonce_wrap * hstate * bool * bool * option (kind * bytes) * bytes * nat * (list (Z * Z) * Z))%type.
Definition check_hs (c : hs) : bool :=
  let '(w, st, have_vers, complete, next, buf, calls, (msgs, cls)) := c in
  let k := knd st in
  let rc := {| rc_st := st; rc_have_vers := have_vers; rc_complete := complete; rc_hand := [];
               rc_retry := 0; rc_next := next; rc_pending := false |} in
  let '(l, e, _) :=
    read_handshakes toy_stream (toy_cbc_dec (kind_bs k)) (toy_open (kind_ovh k) w) (toy_mac (kind_ms k))
                    calls t_unm rc buf in
  list_eqb (prod_eqb Z.eqb Z.eqb) msgs l && (cls =? e).

(* ------------------------------------------------------------ post-handshake KeyUpdate: lock discipline *)
(* conn.go Read -> handlePostHandshakeMessage -> handleKeyUpdate, as a summary of
   what it does to c.out: Lock / Unlock, the write of the answer (which fails or
   not with the transport), the sticky c.out.err.  Locking c.out while it is
   held is a self-deadlock (sync.Mutex is not reentrant): None. *)
Record lk := { out_held : bool; out_err : bool }.
Definition lock_out (s : lk) : option lk :=
  if out_held s then None else Some {| out_held := true; out_err := out_err s |}.
Definition unlock_out (s : lk) : lk := {| out_held := false; out_err := out_err s |}.

(* handleKeyUpdate(keyUpdate): the read key is switched; if update_requested,
   c.out.Lock(); defer Unlock; writeRecordLocked(answer); on failure
   c.out.setErrorLocked(err) (no locking) and return nil; else switch the write key *)
Definition handle_key_update (requested write_fails : bool) (s : lk) : option lk :=
  if requested then
    match lock_out s with
    | None => None
    | Some s1 =>
        if write_fails
        then Some (unlock_out {| out_held := out_held s1; out_err := true |})
        else Some (unlock_out s1)
    end
  else Some s.

Inductive pout := PReturns (read_end : Z) (write_failed : bool) | PDeadlock.

(* Read until the transport ends (every KeyUpdate in its own record: the retry
   count never passes 1), then one Write *)
Fixpoint post_reads (acts : list bool) (write_fails : bool) (s : lk) : option lk :=
  match acts with
  | [] => Some s
  | r :: rest =>
      match handle_key_update r write_fails s with
      | None => None
      | Some s' => post_reads rest write_fails s'
      end
  end.
Definition post_run (acts : list bool) (write_fails : bool) : pout :=
  match post_reads acts write_fails {| out_held := false; out_err := false |} with
  | None => PDeadlock
  | Some s =>
      (* Write: c.out.Lock(); if c.out.err != nil return it; writeRecordLocked *)
      match lock_out s with
      | None => PDeadlock
      | Some s1 => PReturns 0 (out_err s1 || write_fails)
      end
  end.

(* stream post: (update_requested flags, writes fail, observed: Read returned, its end class, Write failed) *)
Definition post := (list bool * bool * (bool * Z * bool))%type.
Definition check_post (c : post) : bool :=
  let '(acts, wf, (returned, cls, werr)) := c in
  match post_run acts wf with
  | PDeadlock => negb returned
  | PReturns e w => returned && (cls =? e) && Bool.eqb werr w
  end.
