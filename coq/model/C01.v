(* C01 — Parsers of untrusted bytes never panic or hang.  MODEL (executable only).

   The hand-written index arithmetic where a panic, an endless loop or an
   attacker-sized allocation can live, written with the checked primitives of
   C01Prim.v ([idx], [slice] return Panic out of range; loops take fuel and
   return OutOfFuel when it runs out):
     encoding/asn1  parseBase128Int, parseTagAndLength (both parsing modes),
                    the element-counting loop of parseSequenceOf
     x509           parseSignedCertificateTimestampList + ct.DeserializeSCT
     google         getHeader + the CRLSet entry loop
     microsoft      the SST element loop (repaired code)
   Bytes are N, offsets are nat.  The key-safety part of the property
   (parsePublicKey -> CheckSignatureFromKey) is modelled in C02.v. *)
From Coq Require Import List NArith ZArith Bool Arith.
From VerifModel Require Import C01Prim.
Import ListNotations.

Definition bytes := list N.

(* ================= encoding/asn1 ================= *)
Definition max_int32 : N := 2147483647%N.

(* parseBase128Int(bytes, initOffset): at most 5 septets, no leading 0x80, fits int32 *)
Fixpoint base128 (bs : bytes) (off shifted : nat) (acc : N) (fuel : nat) : res (N * nat) :=
  match fuel with
  | O => OutOfFuel
  | S f =>
      if Nat.ltb off (length bs) then
        if Nat.eqb shifted 5 then Err
        else
          b <- idx bs off ;;
          if (Nat.eqb shifted 0 && N.eqb b 128)%bool then Err
          else
            let acc' := (acc * 128 + b mod 128)%N in
            if (b <? 128)%N then (if (max_int32 <? acc')%N then Err else Ok (acc', S off))
            else base128 bs (S off) (S shifted) acc' f
      else Err
  end.
Definition parse_base128 (bs : bytes) (off : nat) : res (N * nat) := base128 bs off 0 0 7.

Record tl := { t_class : N; t_compound : bool; t_tag : N; t_len : N }.

(* the long-form length octets *)
Fixpoint len_octets (bs : bytes) (off : nat) (num : nat) (acc : N) : res (N * nat) :=
  match num with
  | O => Ok (acc, off)
  | S n =>
      if Nat.ltb off (length bs) then
        b <- idx bs off ;;
        if (8388608 <=? acc)%N then Err               (* ret.length >= 1<<23 *)
        else
          let acc' := (acc * 256 + b)%N in
          if (acc' =? 0)%N then Err                   (* superfluous leading zeros *)
          else len_octets bs (S off) n acc'
      else Err
  end.

(* parseTagAndLength(bytes, initOffset); perm = asn1.AllowPermissiveParsing *)
Definition parse_tl (perm : bool) (bs : bytes) (off : nat) : res (tl * nat) :=
  if Nat.ltb off (length bs) then
    b <- idx bs off ;;
    let cls := (b / 64)%N in
    let cmp := N.eqb ((b / 32) mod 2) 1 in
    let tg := (b mod 32)%N in
    r <- (if (tg =? 31)%N
          then (p <- parse_base128 bs (S off) ;;
                if (fst p <? 31)%N then Err else Ok p)   (* non-minimal tag *)
          else Ok (tg, S off)) ;;
    let '(tg', off2) := r in
    if Nat.ltb off2 (length bs) then
      b2 <- idx bs off2 ;;
      if (b2 <? 128)%N then Ok ({| t_class := cls; t_compound := cmp; t_tag := tg'; t_len := b2 |}, S off2)
      else
        let num := (b2 mod 128)%N in
        if (num =? 0)%N then Err                       (* indefinite length *)
        else
          p <- len_octets bs (S off2) (N.to_nat num) 0 ;;
          let '(l, off4) := p in
          if (negb perm && (l <? 128)%N)%bool then Err (* non-minimal length, strict mode only *)
          else Ok ({| t_class := cls; t_compound := cmp; t_tag := tg'; t_len := l |}, off4)
    else Err
  else Err.

(* invalidLength(offset, length, sliceLength) on 64-bit ints: no overflow since length < 2^31 *)
Definition invalid_length (off : nat) (len : N) (slice_len : nat) : bool :=
  (N.of_nat slice_len <? N.of_nat off + len)%N.

(* first loop of parseSequenceOf for an element type that matches any tag ([]RawValue):
   counts the elements; the count sizes reflect.MakeSlice *)
Fixpoint count_elems (perm : bool) (bs : bytes) (off n fuel : nat) : res nat :=
  match fuel with
  | O => OutOfFuel
  | S f =>
      if Nat.ltb off (length bs) then
        p <- parse_tl perm bs off ;;
        let '(t, off') := p in
        if invalid_length off' (t_len t) (length bs) then Err
        else count_elems perm bs (off' + N.to_nat (t_len t)) (S n) f
      else Ok n
  end.
Definition seq_of_count (perm : bool) (bs : bytes) : res nat := count_elems perm bs 0 0 (S (length bs)).

(* ================= SCT list extension ================= *)
Definition drop_ok (n : nat) (bs : bytes) : option bytes :=
  if Nat.leb n (length bs) then Some (skipn n bs) else None.
(* readVarBytes(r, 2) *)
Definition read_var2 (bs : bytes) : option bytes :=
  match bs with
  | h :: l :: r => drop_ok (N.to_nat (h * 256 + l)) r
  | _ => None
  end.
(* ct.DeserializeSCT on a reader over [bs]: version 0, 32-byte log id, 8-byte timestamp,
   extensions (2-byte length), hash, signature algorithm, signature (2-byte length); trailing bytes ignored *)
Definition deserialize_sct (bs : bytes) : bool :=
  match bs with
  | v :: r =>
      if (v =? 0)%N then
        match drop_ok 40 r with
        | Some r1 =>
            match read_var2 r1 with
            | Some (_ :: _ :: r2) => match read_var2 r2 with Some _ => true | None => false end
            | _ => false
            end
        | None => false
        end
      else false
  | [] => false
  end.

Fixpoint sct_loop (scts : bytes) (n fuel : nat) : res nat :=
  match fuel with
  | O => OutOfFuel
  | S f =>
      match scts with
      | [] => Ok n
      | [_] => Err                                    (* trailing data *)
      | b0 :: b1 :: _ =>
          let sct_length := (N.to_nat (b1 + b0 * 256) + 2)%nat in
          if Nat.leb sct_length (length scts) then
            body <- slice scts 2 sct_length ;;
            if deserialize_sct body then
              rest <- slice scts sct_length (length scts) ;;
              sct_loop rest (S n) f
            else Err
          else Err                                    (* incomplete SCT *)
      end
  end.
(* [v] is the content of the extension's OCTET STRING *)
Definition parse_sct_list (v : bytes) : res nat :=
  if Nat.ltb (length v) 2 then Err
  else rest <- slice v 2 (length v) ;; sct_loop rest 0 (S (length v)).

(* ================= Google CRLSet ================= *)
(* one issuer's serial list: [remaining] serials still to read *)
Fixpoint serial_loop (bs : bytes) (remaining : N) (count fuel : nat) : res (bytes * nat) :=
  if (remaining =? 0)%N then Ok (bs, count)
  else match fuel with
       | O => OutOfFuel
       | S f =>
           match bs with
           | [] => Err                                (* truncated at serial length *)
           | l :: r =>
               if Nat.ltb (length r) (N.to_nat l) then Err   (* truncated at serial *)
               else serial_loop (skipn (N.to_nat l) r) (remaining - 1) (S count) f
           end
       end.
Definition le32 (b0 b1 b2 b3 : N) : N := (b0 + 256 * b1 + 65536 * b2 + 16777216 * b3)%N.
Fixpoint issuer_loop (bs : bytes) (count fuel : nat) : res nat :=
  match fuel with
  | O => OutOfFuel
  | S f =>
      match bs with
      | [] => Ok count
      | _ =>
          match drop_ok 32 bs with
          | None => Err                               (* short SPKI hash *)
          | Some (b0 :: b1 :: b2 :: b3 :: r) =>
              p <- serial_loop r (le32 b0 b1 b2 b3) count (S (length r)) ;;
              issuer_loop (fst p) (snd p) f
          | Some _ => Err                             (* short serial count *)
          end
      end
  end.
(* google.Parse: [json_ok] = encoding/json accepted the header bytes *)
Definition crlset_parse (b : bytes) (json_ok : bool) : res nat :=
  if Nat.ltb (length b) 2 then Err
  else
    lo <- idx b 0 ;; hi <- idx b 1 ;;
    let hl := N.to_nat (lo + 256 * hi) in
    c <- slice b 2 (length b) ;;
    if Nat.ltb (length c) hl then Err
    else
      hdr <- slice c 0 hl ;; rest <- slice c hl (length c) ;;
      if json_ok then issuer_loop rest 0 (S (length rest)) else Err.

(* ================= Microsoft SST (repaired code) ================= *)
(* binary.Read of a uint32 whose error is ignored: the variable keeps 0 and the
   reader is drained when fewer than four bytes are left *)
Definition read_u32 (bs : bytes) : N * bytes :=
  match bs with
  | b0 :: b1 :: b2 :: b3 :: r => (le32 b0 b1 b2 b3, r)
  | _ => (0%N, [])
  end.
Fixpoint sst_loop (bs : bytes) (certs : list bytes) (fuel : nat) : res (list bytes) :=
  match fuel with
  | O => OutOfFuel
  | S f =>
      let '(id, r1) := read_u32 bs in
      if (id =? 0)%N then Ok certs
      else
        let '(fmt, r2) := read_u32 r1 in
        let '(len, r3) := read_u32 r2 in
        if (id =? 32)%N then
          if negb (fmt =? 1)%N then Err
          else if (N.of_nat (length r3) <? len)%N then Err      (* truncated at certificate *)
          else sst_loop (skipn (N.to_nat len) r3) (certs ++ [firstn (N.to_nat len) r3]) f
        else sst_loop (skipn (N.to_nat (N.min len (N.of_nat (length r3)))) r3) certs f
  end.
Fixpoint bytes_eqb (a b : bytes) : bool :=
  match a, b with [], [] => true | x :: a', y :: b' => N.eqb x y && bytes_eqb a' b' | _, _ => false end.
(* [good] is the one certificate of the stream that x509.ParseCertificate accepts *)
Definition sst_parse (good b : bytes) : res nat :=
  let '(version, r1) := read_u32 b in
  match r1 with
  | m0 :: m1 :: m2 :: m3 :: r2 =>
      if ((m0 =? 67) && (m1 =? 69) && (m2 =? 82) && (m3 =? 84) && (version =? 0))%N%bool then   (* "CERT", version 0 *)
        certs <- sst_loop r2 [] (S (length r2)) ;;
        if forallb (bytes_eqb good) certs then Ok (length certs) else Err
      else Err
  | _ => Err
  end.

(* ================= correspondence cases ================= *)
Definition ores {A} (r : res A) : option A := match r with Ok a => Some a | _ => None end.
Definition opt_eqb {A} (e : A -> A -> bool) (a b : option A) : bool :=
  match a, b with None, None => true | Some x, Some y => e x y | _, _ => false end.

(* hcase: (perm, bytes, offset, class, (class, compound, tag, length, new offset)) *)
Definition hcase := (bool * bytes * nat * N * option (N * bool * N * N * nat))%type.
Definition check_hcase (c : hcase) : bool :=
  let '(perm, bs, off, cl, obs) := c in
  let r := parse_tl perm bs off in
  N.eqb (class r) cl &&
  opt_eqb (fun a b => let '(c1, k1, t1, l1, o1) := a in let '(c2, k2, t2, l2, o2) := b in
                      N.eqb c1 c2 && Bool.eqb k1 k2 && N.eqb t1 t2 && N.eqb l1 l2 && Nat.eqb o1 o2)
    (match r with Ok (t, o) => Some (t_class t, t_compound t, t_tag t, t_len t, o) | _ => None end) obs.

Definition bcase := (bytes * nat * N * option (N * nat))%type.
Definition check_bcase (c : bcase) : bool :=
  let '(bs, off, cl, obs) := c in
  let r := parse_base128 bs off in
  N.eqb (class r) cl && opt_eqb (fun a b => N.eqb (fst a) (fst b) && Nat.eqb (snd a) (snd b)) (ores r) obs.

Definition qcase := (bool * bytes * N * option nat)%type.
Definition check_qcase (c : qcase) : bool :=
  let '(perm, bs, cl, obs) := c in
  let r := seq_of_count perm bs in N.eqb (class r) cl && opt_eqb Nat.eqb (ores r) obs.

Definition scase := (bytes * N * option nat)%type.
Definition check_scase (c : scase) : bool :=
  let '(bs, cl, obs) := c in
  let r := parse_sct_list bs in N.eqb (class r) cl && opt_eqb Nat.eqb (ores r) obs.

(* gcase: (whole input, header JSON accepted, class, number of serial entries) *)
Definition gcase := (bytes * bool * N * option nat)%type.
Definition check_gcase (c : gcase) : bool :=
  let '(b, json_ok, cl, obs) := c in
  let r := crlset_parse b json_ok in N.eqb (class r) cl && opt_eqb Nat.eqb (ores r) obs.

Definition mcase := (bytes * bytes * N)%type.
Definition check_mcase (c : mcase) : bool :=
  let '(good, b, cl) := c in N.eqb (class (sst_parse good b)) cl.
