(* C30 — model of the TLS handshake message and session-state codecs
   (tls/handshake_messages.go, tls/ticket.go).  Executable definitions only.

   Part 1: the message types whose Go decoder is a straight-line cryptobyte or
   index-arithmetic parser.  Each is a format term of the WireTLS DSL (enc/dec
   come from the DSL), except certificateMsg whose loop has a length quirk and
   is mirrored by hand.
   Part 2: messages with extension blocks (hellos, TLS 1.3 messages,
   sessionStateTLS13).  The framing is a DSL format in which an extension block
   is an opaque uint16-prefixed field; the block is then run through
   WireTLS.ext_loop with one table entry per arm of the Go switch.  The fields
   that extensions set are a list of slots (documented per message). *)
From Coq Require Import List NArith Bool Arith.
From Verif Require Export Harness WireTLS.
Import ListNotations.
Open Scope N_scope.

Definition pAny (x : N) : bool := true.
Definition U8 := FUint 1 pAny.
Definition U16 := FUint 2 pAny.
Definition U24 := FUint 3 pAny.
Definition U32 := FUint 4 pAny.
Definition U64 := FUint 8 pAny.

(* ---- formats (handshake type byte first) ---- *)
(* finishedMsg: s.Skip(1) && readUint24LengthPrefixed(&s, &verifyData) && s.Empty() *)
Definition fmt_finished := FPair (FSkip [20]) (FBytes 3 false).
(* clientKeyExchangeMsg: len >= 4, uint24(data[1..3]) == len-4, ciphertext = data[4:] *)
Definition fmt_ckx := FPair (FSkip [16]) (FBytes 3 false).
(* serverKeyExchangeMsg (after "fix: serverKeyExchangeMsg.unmarshal checks the 24-bit length field") *)
Definition fmt_skx := FPair (FSkip [12]) (FBytes 3 false).
(* certificateStatusMsg: Skip(4), status_type == 1, uint24-prefixed non-empty response, Empty *)
Definition fmt_cert_status := FHdr 22 (FPair (FUint 1 (N.eqb 1)) (FBytes 3 true)).
(* serverHelloDoneMsg (14), helloRequestMsg (0), endOfEarlyDataMsg (5): len(data) == 4 *)
Definition fmt_empty (t : N) := FHdr t FUnit.
(* keyUpdateMsg: Skip(4), one byte that must be 0 or 1, Empty *)
Definition fmt_key_update := FHdr 24 (FUint 1 (fun x => x <=? 1)).
(* certificateVerifyMsg: Skip(4), [uint16 alg when hasSignatureAlgorithm], uint16-prefixed signature, Empty *)
Definition fmt_cert_verify (has : bool) :=
  FHdr 15 (if has then FPair U16 (FBytes 2 false) else FBytes 2 false).
(* newSessionTicketMsg: len >= 10, uint24 == len-4, uint32 lifetime, uint16 ticketLen == len-10 *)
Definition fmt_nst := FPair (FSkip [4]) (FSub 3 (FPair U32 (FBytes 2 false))).
(* certificateRequestMsg: uint24 == len-4; uint8-prefixed non-empty types; [uint16-prefixed list of uint16];
   uint16-prefixed list of uint16-prefixed names; nothing left *)
Definition fmt_cas := FVec 2 false (FBytes 2 false).
Definition fmt_cert_req (has : bool) :=
  FPair (FSkip [13]) (FSub 3 (FPair (FBytes 1 true)
    (if has then FPair (FVec 2 false U16) fmt_cas else fmt_cas))).
(* sessionState (ticket.go): no header *)
Definition fmt_sess :=
  FPair U16 (FPair U16 (FPair U64 (FPair (FBytes 2 true) (FVec 3 false (FBytes 3 false))))).

(* ---- message values ---- *)
Inductive kind :=
| KFinished | KCKX | KSKX | KCertStatus | KSHD | KHelloReq | KEOED | KKeyUpdate
| KCertVerify | KNST | KCertReq | KCert | KSess
| KEE | KNST13 | KCertReq13 | KCert13 | KSess13 | KSH | KCH.

Inductive msg :=
| MFinished (verify_data : bytes)
| MCKX (ciphertext : bytes)
| MSKX (key : bytes)
| MCertStatus (response : bytes)
| MSHD
| MHelloReq
| MEOED
| MKeyUpdate (update_requested : bool)
| MCertVerify (has : bool) (alg : N) (signature : bytes)
| MNST (lifetime_hint : N) (ticket : bytes)
| MCertReq (has : bool) (types : bytes) (algs : list N) (cas : list bytes)
| MCert (certs : list bytes)
| MSess (vers suite created : N) (master : bytes) (certs : list bytes)
(* part 2: [exts] are the extension-set fields as slots, see the tables below *)
| MEE (exts : slots)
| MNST13 (lifetime age_add : N) (nonce label : bytes) (exts : slots)
| MCertReq13 (exts : slots)
| MCert13 (ocsp_stapling scts : bool) (certs : list bytes) (exts : slots)
| MSess13 (suite created : N) (secret : bytes) (certs : list bytes) (exts : slots)
| MSH (vers : N) (random session_id : bytes) (suite compression : N) (exts : slots)
| MCH (vers : N) (random session_id : bytes) (suites : list N) (compressions : bytes) (exts : slots).

Definition kind_of (m : msg) : kind :=
  match m with
  | MFinished _ => KFinished | MCKX _ => KCKX | MSKX _ => KSKX | MCertStatus _ => KCertStatus
  | MSHD => KSHD | MHelloReq => KHelloReq | MEOED => KEOED | MKeyUpdate _ => KKeyUpdate
  | MCertVerify _ _ _ => KCertVerify | MNST _ _ => KNST | MCertReq _ _ _ _ => KCertReq
  | MCert _ => KCert | MSess _ _ _ _ _ => KSess
  | MEE _ => KEE | MNST13 _ _ _ _ _ => KNST13 | MCertReq13 _ => KCertReq13
  | MCert13 _ _ _ _ => KCert13 | MSess13 _ _ _ _ _ => KSess13
  | MSH _ _ _ _ _ _ => KSH | MCH _ _ _ _ _ _ => KCH
  end.

(* kinds whose whole codec is a DSL format term *)
Definition is_dsl (k : kind) : bool :=
  match k with
  | KCert | KEE | KNST13 | KCertReq13 | KCert13 | KSess13 | KSH | KCH => false
  | _ => true
  end.

(* the decoder input flag hasSignatureAlgorithm (certificateVerifyMsg, certificateRequestMsg) *)
Definition has_of (m : msg) : bool :=
  match m with
  | MCertVerify h _ _ => h
  | MCertReq h _ _ _ => h
  | _ => false
  end.

(* format of the DSL-described kinds *)
Definition fmt_of (k : kind) (has : bool) : fmt :=
  match k with
  | KFinished => fmt_finished
  | KCKX => fmt_ckx
  | KSKX => fmt_skx
  | KCertStatus => fmt_cert_status
  | KSHD => fmt_empty 14
  | KHelloReq => fmt_empty 0
  | KEOED => fmt_empty 5
  | KKeyUpdate => fmt_key_update
  | KCertVerify => fmt_cert_verify has
  | KNST => fmt_nst
  | KCertReq => fmt_cert_req has
  | KSess => fmt_sess
  | _ => FUnit (* not used: these kinds have their own codec below *)
  end.

Definition vbytes (l : list bytes) : val := VL (map VB l).
Definition vnums (l : list N) : val := VL (map VN l).
Definition unVB (v : val) : bytes := match v with VB b => b | _ => [] end.
Definition unVN (v : val) : N := match v with VN x => x | _ => 0 end.
Definition unVL (v : val) : list val := match v with VL l => l | _ => [] end.

Definition to_val (m : msg) : val :=
  match m with
  | MFinished b | MCKX b | MSKX b => VP VU (VB b)
  | MCertStatus b => VP (VN 1) (VB b)
  | MSHD | MHelloReq | MEOED => VU
  | MKeyUpdate r => VN (if r then 1 else 0)
  | MCertVerify has alg sig => if has then VP (VN alg) (VB sig) else VB sig
  | MNST hint t => VP VU (VP (VN hint) (VB t))
  | MCertReq has tys algs cas =>
      VP VU (VP (VB tys) (if has then VP (vnums algs) (vbytes cas) else vbytes cas))
  | MSess v s c ms certs => VP (VN v) (VP (VN s) (VP (VN c) (VP (VB ms) (vbytes certs))))
  | _ => VU
  end.

Definition of_val (k : kind) (has : bool) (v : val) : msg :=
  match k, v with
  | KFinished, VP _ (VB b) => MFinished b
  | KCKX, VP _ (VB b) => MCKX b
  | KSKX, VP _ (VB b) => MSKX b
  | KCertStatus, VP _ (VB b) => MCertStatus b
  | KSHD, _ => MSHD
  | KHelloReq, _ => MHelloReq
  | KEOED, _ => MEOED
  | KKeyUpdate, VN x => MKeyUpdate (x =? 1)
  | KCertVerify, VP (VN a) (VB s) => MCertVerify has a s
  | KCertVerify, VB s => MCertVerify has 0 s
  | KNST, VP _ (VP (VN h) (VB t)) => MNST h t
  | KCertReq, VP _ (VP (VB tys) (VP (VL algs) (VL cas))) => MCertReq has tys (map unVN algs) (map unVB cas)
  | KCertReq, VP _ (VP (VB tys) (VL cas)) => MCertReq has tys [] (map unVB cas)
  | KSess, VP (VN v) (VP (VN s) (VP (VN c) (VP (VB ms) (VL certs)))) => MSess v s c ms (map unVB certs)
  | _, _ => MSHD
  end.

(* ---- certificateMsg, mirrored by hand ----
   marshal: type, uint24 total, uint24 list length, per certificate uint24 length + bytes.
   unmarshal: len >= 7; uint24(data[4..6]) + 7 == len (data[1..3] is not looked at);
   loop "for certsLen > 0 { if len(d) < 4 {return false}; certLen; if len(d) < 3+certLen {return false} ... }"
   (len(d) == certsLen throughout), so a final empty certificate (exactly 3 bytes left) is rejected
   while an empty certificate followed by another one is accepted. *)
Definition concat_lp (ll : nat) : list bytes -> option bytes :=
  fix go (l : list bytes) : option bytes :=
    match l with
    | [] => Some []
    | c :: r => match wr_lp ll c, go r with
                | Some a, Some b => Some (a ++ b)
                | _, _ => None
                end
    end.

Definition enc_certificate (certs : list bytes) : option bytes :=
  match concat_lp 3 certs with
  | Some body => match wr_lp 3 body with
                 | Some l1 => match wr_lp 3 l1 with
                              | Some l2 => Some (11 :: l2)
                              | None => None
                              end
                 | None => None
                 end
  | None => None
  end.

Fixpoint certs_loop (fuel : nat) (d : bytes) : option (list bytes) :=
  match d with
  | [] => Some []
  | _ => match fuel with
         | O => None
         | S k => if blen d <? 4 then None
                  else match rd_lp 3 d with
                       | Some (c, r) => match certs_loop k r with
                                        | Some l => Some (c :: l)
                                        | None => None
                                        end
                       | None => None
                       end
         end
  end.

Definition dec_certificate (s : bytes) : option (list bytes) :=
  if blen s <? 7 then None
  else match rd_bytes 4 s with
       | Some (_, r) => match rd_uint 3 r with
                        | Some (n, d) => if blen d =? n then certs_loop (length d) d else None
                        | None => None
                        end
       | None => None
       end.

(* ==================== Part 2: messages with extension blocks ==================== *)
Definition vfst (v : val) : val := match v with VP a _ => a | _ => VU end.
Definition vsnd (v : val) : val := match v with VP _ b => b | _ => VU end.
Definition isVU (v : val) : bool := match v with VU => true | _ => false end.
Definition isVB (v : val) : bool := match v with VB _ => true | _ => false end.
Definition isVN (v : val) : bool := match v with VN _ => true | _ => false end.
Definition isVL (v : val) : bool := match v with VL _ => true | _ => false end.
Definition isFlag (v : val) : bool := match v with VN x => x <=? 1 | _ => false end.
Definition flag_on (v : val) : bool := unVN v =? 1.
Definition nonempty_b (v : val) : bool := negb (is_nil (unVB v)).
Definition nonempty_l (v : val) : bool := negb (is_nil (unVL' v)).
Definition nonzero (v : val) : bool := negb (unVN v =? 0).

(* handlers shared by several switch arms *)
Definition h_set (f : fmt) : val -> bytes -> option (val * bytes) := fun _ d => dec f d.
(* "x = append(x, item...)": a repeated extension appends *)
Definition h_app (f : fmt) : val -> bytes -> option (val * bytes) :=
  fun old d => match dec f d with
               | Some (VL l, r) => Some (VL (unVL' old ++ l), r)
               | _ => None
               end.
(* "m.flag = true" without reading extData (which must then be empty) *)
Definition h_flag : val -> bytes -> option (val * bytes) := fun _ d => Some (VN 1, d).
(* flag := true; bytes := uint8-prefixed / uint16-prefixed non-empty / all of extData *)
Definition h_flag_bytes (f : fmt) : val -> bytes -> option (val * bytes) :=
  fun _ d => match dec f d with
             | Some (VB b, r) => Some (VP (VN 1) (VB b), r)
             | _ => None
             end.
Definition is_t (t : N) : N -> bytes -> bool := fun t' _ => t' =? t.
Definition ent (t : N) (slot : nat) (h : val -> bytes -> option (val * bytes)) : entry :=
  mkEntry (is_t t) slot false h.
Definition body_nil : val -> option bytes := fun _ => Some [].

(* extension body formats *)
Definition f_alpn1 := FSub 2 (FBytes 1 true).           (* ProtocolNameList with exactly one name *)
Definition f_alpn := FVec 2 true (FBytes 1 true).
Definition f_u16list := FVec 2 true U16.                (* signature algorithms, curves *)
Definition f_blist := FVec 2 true (FBytes 2 true).      (* SCT list, certificate authorities *)
Definition f_versions := FVec 1 true U16.
Definition f_key_shares := FVec 2 false (FPair U16 (FBytes 2 true)).
Definition f_share := FPair U16 (FBytes 2 false).
Definition f_psk := FPair (FVec 2 true (FPair (FBytes 2 true) U32)) (FVec 2 true (FBytes 1 true)).
Definition f_status_req := FPair U8 (FPair (FBytes 2 false) (FBytes 2 false)).
Definition f_cert_status := FPair (FUint 1 (N.eqb 1)) (FBytes 3 true).

(* slot predicates: the slot has the right shape, and when its extension is absent the default value *)
Definition p_list (f : fmt) (v : val) : bool :=
  match v with VL [] => true | VL _ => wf f v | _ => false end.
Definition p_flag_bytes (ne : bool) (v : val) : bool :=
  match v with
  | VP (VN 0) (VB []) => true
  | VP (VN 1) (VB b) => negb (ne && is_nil b)
  | _ => false
  end.
Fixpoint check_slots (ps : list (val -> bool)) (s : slots) : bool :=
  match ps, s with
  | [], [] => true
  | p :: ps', v :: s' => p v && check_slots ps' s'
  | _, _ => false
  end.

(* ---- encryptedExtensionsMsg: slots [0 alpnProtocol : VB] ---- *)
Definition F_ee := FHdr 8 (FBytes 2 false).
Definition init_ee : slots := [VB []].
Definition tb_ee : list entry := [ent 16 0 (h_set f_alpn1)].
Definition wt_ee : list wentry := [mkW 16 0 nonempty_b (enc f_alpn1)].
Definition ps_ee : list (val -> bool) := [isVB].

(* ---- newSessionTicketMsgTLS13: slots [0 maxEarlyData : VN] ---- *)
Definition F_nst13 := FHdr 4 (FPair U32 (FPair U32 (FPair (FBytes 1 false) (FPair (FBytes 2 false) (FBytes 2 false))))).
Definition init_nst13 : slots := [VN 0].
Definition tb_nst13 : list entry := [ent 42 0 (h_set U32)].
Definition wt_nst13 : list wentry := [mkW 42 0 nonzero (enc U32)].
Definition ps_nst13 : list (val -> bool) := [isVN].

(* ---- certificateRequestMsgTLS13: slots [0 ocspStapling : flag; 1 scts : flag;
       2 supportedSignatureAlgorithms : VL VN; 3 supportedSignatureAlgorithmsCert : VL VN;
       4 certificateAuthorities : VL VB] ---- *)
Definition F_cert_req13 := FHdr 13 (FPair (FUint 1 (N.eqb 0)) (FBytes 2 false)).
Definition init_cert_req13 : slots := [VN 0; VN 0; VL []; VL []; VL []].
Definition tb_cert_req13 : list entry :=
  [ent 5 0 h_flag; ent 18 1 h_flag; ent 13 2 (h_app f_u16list); ent 50 3 (h_app f_u16list);
   ent 47 4 (h_app f_blist)].
Definition wt_cert_req13 : list wentry :=
  [mkW 5 0 flag_on body_nil; mkW 18 1 flag_on body_nil; mkW 13 2 nonempty_l (enc f_u16list);
   mkW 50 3 nonempty_l (enc f_u16list); mkW 47 4 nonempty_l (enc f_blist)].
Definition ps_cert_req13 : list (val -> bool) :=
  [isFlag; isFlag; p_list f_u16list; p_list f_u16list; p_list f_blist].

(* ---- Certificate (TLS 1.3 certificate list with per-certificate extensions), used by
       certificateMsgTLS13 and sessionStateTLS13: slots [0 OCSPStaple : VU (nil) | VB;
       1 SignedCertificateTimestamps : VU (nil) | VL VB].  Only the first entry's extensions
       are interpreted; those of the other entries are framed and skipped. ---- *)
Definition f_cert_list := FVec 3 false (FPair (FBytes 3 false) (FBytes 2 false)).
Definition init_cert13 : slots := [VU; VU].
Definition h_staple : val -> bytes -> option (val * bytes) :=
  fun _ d => match dec f_cert_status d with
             | Some (VP _ (VB s), r) => Some (VB s, r)
             | _ => None
             end.
Definition tb_leaf : list entry := [ent 5 0 h_staple; ent 18 1 (h_app f_blist)].
Definition wt_leaf : list wentry :=
  [mkW 5 0 isVB (fun v => enc f_cert_status (VP (VN 1) v)); mkW 18 1 isVL (enc f_blist)].
Definition p_staple (v : val) : bool :=
  match v with VU => true | VB s => negb (is_nil s) | _ => false end.
Definition p_scts (v : val) : bool :=
  match v with VU => true | VL _ => wf f_blist v | _ => false end.
Definition ps_cert13 : list (val -> bool) := [p_staple; p_scts].

Fixpoint cert_pass (first : bool) (st : slots) (l : list val) : option (list bytes * slots) :=
  match l with
  | [] => Some ([], st)
  | VP (VB c) (VB x) :: r =>
      match ext_loop (if first then tb_leaf else []) USkip (length x) st x with
      | Some st' => match cert_pass false st' r with
                    | Some (cs, st'') => Some (c :: cs, st'')
                    | None => None
                    end
      | None => None
      end
  | _ => None
  end.

Definition cert_entries (certs : list bytes) (x0 : bytes) : val :=
  VL (match certs with
      | [] => []
      | c :: r => VP (VB c) (VB x0) :: map (fun c => VP (VB c) (VB [])) r
      end).

(* certificateMsgTLS13: marshal drops the staple / the SCTs unless the flag is set *)
Definition F_cert13 := FHdr 11 (FPair (FUint 1 (N.eqb 0)) f_cert_list).
Definition mask_cert13 (ocsp scts : bool) (exts : slots) : slots :=
  [if ocsp then sget 0 exts else VU; if scts then sget 1 exts else VU].
(* sessionStateTLS13 *)
Definition F_sess13 :=
  FPair (FUint 2 (N.eqb 772)) (FPair (FUint 1 (N.eqb 0)) (FPair U16 (FPair U64 (FPair (FBytes 1 true) f_cert_list)))).

(* ---- hellos: header, fixed part (a DSL format), then either nothing or a uint16-prefixed
       extension block that reaches the end ---- *)
Definition enc_hello (t : N) (fb : fmt) (bv : val) (x : bytes) : option bytes :=
  match enc fb bv, (if is_nil x then Some [] else wr_lp 2 x) with
  | Some b, Some tl => match wr_lp 3 (b ++ tl) with
                       | Some e => Some (t :: e)
                       | None => None
                       end
  | _, _ => None
  end.

Definition dec_hello (fb : fmt) (s : bytes) : option (val * option bytes) :=
  match rd_bytes 4 s with
  | Some (_, r) =>
      match dec fb r with
      | Some (bv, []) => Some (bv, None)
      | Some (bv, r2) => match rd_lp 2 r2 with
                         | Some (x, []) => Some (bv, Some x)
                         | _ => None
                         end
      | None => None
      end
  | None => None
  end.

(* ---- serverHelloMsg: slots
       [0 ocspStapling : flag; 1 ticketSupported : flag;
        2 (secureRenegotiationSupported, secureRenegotiation) : VP flag VB;
        3 alpnProtocol : VB; 4 scts : VL VB; 5 supportedVersion : VN;
        6 serverShare (group, data) : VP VN VB; 7 (selectedIdentityPresent, selectedIdentity) : VP flag VN;
        8 cookie : VB; 9 selectedGroup : VN; 10 supportedPoints : VB; 11 extendedMasterSecret : flag;
        12 unknownExtensions : VL VB (each type||length||data)] ---- *)
Definition f_sh_base := FPair U16 (FPair (FFixed 32) (FPair (FBytes 1 false) (FPair U16 U8))).
Definition init_sh : slots :=
  [VN 0; VN 0; VP (VN 0) (VB []); VB []; VL []; VN 0; VP (VN 0) (VB []); VP (VN 0) (VN 0);
   VB []; VN 0; VB []; VN 0; VL []].
Definition h_sel_id : val -> bytes -> option (val * bytes) :=
  fun _ d => match dec U16 d with
             | Some (VN x, r) => Some (VP (VN 1) (VN x), r)
             | _ => None
             end.
Definition tb_sh : list entry :=
  [ent 5 0 h_flag; ent 35 1 h_flag; ent 65281 2 (h_flag_bytes (FBytes 1 false)); ent 16 3 (h_set f_alpn1);
   ent 18 4 (h_app f_blist); ent 43 5 (h_set U16); ent 44 8 (h_set (FBytes 2 true));
   (* key_share: "if len(extData) == 2 { selectedGroup } else { serverShare }" *)
   mkEntry (fun t d => (t =? 51) && (blen d =? 2)) 9 false (h_set U16);
   mkEntry (fun t d => (t =? 51) && negb (blen d =? 2)) 6 false (h_set f_share);
   ent 41 7 h_sel_id; ent 11 10 (h_set (FBytes 1 true)); ent 23 11 h_flag].
Definition wt_sh : list wentry :=
  [mkW 5 0 flag_on body_nil; mkW 35 1 flag_on body_nil;
   mkW 65281 2 (fun v => flag_on (vfst v)) (fun v => enc (FBytes 1 false) (vsnd v));
   mkW 16 3 nonempty_b (enc f_alpn1); mkW 18 4 nonempty_l (enc f_blist); mkW 43 5 nonzero (enc U16);
   mkW 51 6 (fun v => nonzero (vfst v)) (enc f_share);
   mkW 41 7 (fun v => flag_on (vfst v)) (fun v => enc U16 (vsnd v));
   mkW 44 8 nonempty_b (enc (FBytes 2 true)); mkW 51 9 nonzero (enc U16);
   mkW 11 10 nonempty_b (enc (FBytes 1 true)); mkW 23 11 flag_on body_nil].
Definition p_share (v : val) : bool :=
  match v with
  | VP (VN g) (VB d) => negb (g =? 0) || is_nil d
  | _ => false
  end.
Definition p_sel_id (v : val) : bool :=
  match v with
  | VP (VN 0) (VN 0) => true
  | VP (VN 1) (VN _) => true
  | _ => false
  end.
Definition p_unknown (v : val) : bool :=
  match v with
  | VL l => forallb (fun x => match x with VB raw => raw_ok tb_sh raw | _ => false end) l
  | _ => false
  end.
Definition ps_sh : list (val -> bool) :=
  [isFlag; isFlag; p_flag_bytes false; isVB; p_list f_blist; isVN; p_share; p_sel_id; isVB; isVN; isVB; isFlag;
   p_unknown].
Definition sh_base (vers : N) (random sid : bytes) (suite comp : N) : val :=
  VP (VN vers) (VP (VB random) (VP (VB sid) (VP (VN suite) (VN comp)))).
Definition raws_of (v : val) : list bytes := map unVB (unVL' v).

(* ---- clientHelloMsg: slots
       [0 serverName : VB; 1 ocspStapling : flag; 2 supportedCurves : VL VN; 3 supportedPoints : VB;
        4 (ticketSupported, sessionTicket) : VP flag VB; 5 supportedSignatureAlgorithms : VL VN;
        6 supportedSignatureAlgorithmsCert : VL VN;
        7 (secureRenegotiationSupported, secureRenegotiation) : VP flag VB;
        8 alpnProtocols : VL VB; 9 (extendedRandomEnabled, extendedRandom) : VP flag VB;
        10 extendedMasterSecret : flag; 11 scts : flag; 12 supportedVersions : VL VN; 13 cookie : VB;
        14 keyShares : VL (VP VN VB); 15 earlyData : flag; 16 pskModes : VB;
        17 (pskIdentities : VL (VP VB VN), pskBinders : VL VB) : VP] ---- *)
Definition f_ch_base := FPair U16 (FPair (FFixed 32) (FPair (FBytes 1 false) (FPair (FVec 2 false U16) (FBytes 1 false)))).
Definition ch_base (vers : N) (random sid : bytes) (suites : list N) (comps : bytes) : val :=
  VP (VN vers) (VP (VB random) (VP (VB sid) (VP (vnums suites) (VB comps)))).
(* "if suite == scsvRenegotiation { m.secureRenegotiationSupported = true }" happens before the extensions *)
Definition has_scsv (suites : list N) : bool := existsb (N.eqb 255) suites.
Definition init_ch (suites : list N) : slots :=
  [VB []; VN 0; VL []; VB []; VP (VN 0) (VB []); VL []; VL [];
   VP (VN (if has_scsv suites then 1 else 0)) (VB []);
   VL []; VP (VN 0) (VB []); VN 0; VN 0; VL []; VB []; VL []; VN 0; VB []; VP (VL []) (VL [])].

(* server_name: list of (name_type, uint16-prefixed non-empty name); only host_name (0) is kept, a
   second host_name is an error, and so is a trailing dot *)
Definition ends_with_dot (b : bytes) : bool := match rev b with 46 :: _ => true | _ => false end.
Fixpoint sni_loop (fuel : nat) (cur : bytes) (nl : bytes) : option bytes :=
  match nl with
  | [] => Some cur
  | _ =>
    match fuel with
    | O => None
    | S k =>
      match rd_uint 1 nl with
      | None => None
      | Some (ty, r1) =>
        match rd_lp 2 r1 with
        | None => None
        | Some (name, r) =>
            if is_nil name then None
            else if negb (ty =? 0) then sni_loop k cur r
            else if negb (is_nil cur) then None
            else if ends_with_dot name then None
            else sni_loop k name r
        end
      end
    end
  end.
Definition h_sni : val -> bytes -> option (val * bytes) :=
  fun old d => match rd_lp 2 d with
               | Some (nl, rest) =>
                   if is_nil nl then None
                   else match sni_loop (length nl) (unVB old) nl with
                        | Some n => Some (VB n, rest)
                        | None => None
                        end
               | None => None
               end.
Definition sni_body (v : val) : option bytes :=
  match wr_lp 2 (unVB v) with
  | Some n => wr_lp 2 (0 :: n)
  | None => None
  end.
(* status_request: "m.ocspStapling = statusType == statusTypeOCSP" *)
Definition h_status : val -> bytes -> option (val * bytes) :=
  fun _ d => match dec f_status_req d with
             | Some (VP (VN x) _, r) => Some (VN (if x =? 1 then 1 else 0), r)
             | _ => None
             end.
(* session_ticket: the whole extData is the ticket *)
Definition h_ticket : val -> bytes -> option (val * bytes) :=
  fun _ d => Some (VP (VN 1) (VB d), []).
(* pre_shared_key: identities and binders are both appended *)
Definition h_psk : val -> bytes -> option (val * bytes) :=
  fun old d => match dec f_psk d with
               | Some (VP (VL a) (VL b), r) =>
                   Some (VP (VL (unVL' (vfst old) ++ a)) (VL (unVL' (vsnd old) ++ b)), r)
               | _ => None
               end.
Definition tb_ch : list entry :=
  [ent 0 0 h_sni; ent 5 1 h_status; ent 10 2 (h_app f_u16list); ent 11 3 (h_set (FBytes 1 true));
   ent 35 4 h_ticket; ent 13 5 (h_app f_u16list); ent 50 6 (h_app f_u16list);
   ent 65281 7 (h_flag_bytes (FBytes 1 false)); ent 16 8 (h_app f_alpn); ent 18 11 h_flag;
   ent 43 12 (h_app f_versions); ent 44 13 (h_set (FBytes 2 true)); ent 51 14 (h_app f_key_shares);
   ent 42 15 h_flag; ent 45 16 (h_set (FBytes 1 false));
   mkEntry (is_t 41) 17 true h_psk;   (* "pre_shared_key must be the last extension" *)
   ent 40 9 (h_flag_bytes (FBytes 2 true)); ent 23 10 h_flag].
Definition wt_ch : list wentry :=
  [mkW 0 0 nonempty_b sni_body; mkW 5 1 flag_on (fun _ => Some [1; 0; 0; 0; 0]);
   mkW 10 2 nonempty_l (enc f_u16list); mkW 11 3 nonempty_b (enc (FBytes 1 true));
   mkW 35 4 (fun v => flag_on (vfst v)) (fun v => Some (unVB (vsnd v)));
   mkW 13 5 nonempty_l (enc f_u16list); mkW 50 6 nonempty_l (enc f_u16list);
   mkW 65281 7 (fun v => flag_on (vfst v)) (fun v => enc (FBytes 1 false) (vsnd v));
   mkW 16 8 nonempty_l (enc f_alpn);
   mkW 40 9 (fun v => flag_on (vfst v)) (fun v => enc (FBytes 2 true) (vsnd v));
   mkW 23 10 flag_on body_nil; mkW 18 11 flag_on body_nil;
   mkW 43 12 nonempty_l (enc f_versions); mkW 44 13 nonempty_b (enc (FBytes 2 true));
   mkW 51 14 nonempty_l (enc f_key_shares); mkW 42 15 flag_on body_nil;
   mkW 45 16 nonempty_b (enc (FBytes 1 false));
   mkW 41 17 (fun v => nonempty_l (vfst v)) (enc f_psk)].
Definition p_sni (v : val) : bool :=
  match v with VB b => negb (ends_with_dot b) | _ => false end.
Definition p_reneg_ch (suites : list N) (v : val) : bool :=
  match v with
  | VP (VN 0) (VB []) => negb (has_scsv suites)
  | VP (VN 1) (VB _) => true
  | _ => false
  end.
Definition p_psk (v : val) : bool :=
  match v with
  | VP (VL []) (VL []) => true
  | VP (VL (_ :: _)) (VL _) => wf f_psk v
  | _ => false
  end.
Definition ps_ch (suites : list N) : list (val -> bool) :=
  [p_sni; isFlag; p_list f_u16list; isVB; p_flag_bytes false; p_list f_u16list; p_list f_u16list;
   p_reneg_ch suites; p_list f_alpn; p_flag_bytes true; isFlag; isFlag; p_list f_versions; isVB;
   p_list f_key_shares; isFlag; isVB; p_psk].

(* ---- part-2 codecs ---- *)
Definition obind {A B} (o : option A) (f : A -> option B) : option B :=
  match o with Some x => f x | None => None end.

Definition enc_cert_list (certs : list bytes) (st : slots) : option val :=
  obind (enc_exts wt_leaf st) (fun x0 => Some (cert_entries certs x0)).

Definition enc_part2 (m : msg) : option bytes :=
  match m with
  | MEE exts => obind (enc_exts wt_ee exts) (fun x => enc F_ee (VB x))
  | MNST13 lt aa nonce label exts =>
      obind (enc_exts wt_nst13 exts) (fun x =>
        enc F_nst13 (VP (VN lt) (VP (VN aa) (VP (VB nonce) (VP (VB label) (VB x))))))
  | MCertReq13 exts => obind (enc_exts wt_cert_req13 exts) (fun x => enc F_cert_req13 (VP (VN 0) (VB x)))
  | MCert13 ocsp scts certs exts =>
      obind (enc_cert_list certs (mask_cert13 ocsp scts exts)) (fun cl => enc F_cert13 (VP (VN 0) cl))
  | MSess13 suite created secret certs exts =>
      obind (enc_cert_list certs exts) (fun cl =>
        enc F_sess13 (VP (VN 772) (VP (VN 0) (VP (VN suite) (VP (VN created) (VP (VB secret) cl))))))
  | MSH vers random sid suite comp exts =>
      obind (enc_exts wt_sh exts) (fun x =>
        enc_hello 2 f_sh_base (sh_base vers random sid suite comp) (x ++ concat (raws_of (sget 12 exts))))
  | MCH vers random sid suites comps exts =>
      obind (enc_exts wt_ch exts) (fun x => enc_hello 1 f_ch_base (ch_base vers random sid suites comps) x)
  | _ => None
  end.

Definition run_exts (tb : list entry) (u : unknown) (init : slots) (x : bytes) : option slots :=
  ext_loop tb u (length x) init x.

Definition dec_cert_list (cl : val) : option (list bytes * slots) :=
  cert_pass true init_cert13 (unVL' cl).

Definition dec_part2 (k : kind) (s : bytes) : option msg :=
  match k with
  | KEE => match dec_all F_ee s with
           | Some (VB x) => option_map MEE (run_exts tb_ee USkip init_ee x)
           | _ => None
           end
  | KNST13 => match dec_all F_nst13 s with
              | Some (VP (VN lt) (VP (VN aa) (VP (VB nonce) (VP (VB label) (VB x))))) =>
                  option_map (MNST13 lt aa nonce label) (run_exts tb_nst13 USkip init_nst13 x)
              | _ => None
              end
  | KCertReq13 => match dec_all F_cert_req13 s with
                  | Some (VP _ (VB x)) => option_map MCertReq13 (run_exts tb_cert_req13 USkip init_cert_req13 x)
                  | _ => None
                  end
  | KCert13 => match dec_all F_cert13 s with
               | Some (VP _ cl) =>
                   match dec_cert_list cl with
                   | Some (certs, st) =>
                       (* m.scts = SignedCertificateTimestamps != nil; m.ocspStapling = OCSPStaple != nil *)
                       Some (MCert13 (negb (isVU (sget 0 st))) (negb (isVU (sget 1 st))) certs st)
                   | None => None
                   end
               | _ => None
               end
  | KSess13 => match dec_all F_sess13 s with
               | Some (VP _ (VP _ (VP (VN suite) (VP (VN created) (VP (VB secret) cl))))) =>
                   match dec_cert_list cl with
                   | Some (certs, st) => Some (MSess13 suite created secret certs st)
                   | None => None
                   end
               | _ => None
               end
  | KSH => match dec_hello f_sh_base s with
           | Some (VP (VN vers) (VP (VB random) (VP (VB sid) (VP (VN suite) (VN comp)))), ox) =>
               option_map (MSH vers random sid suite comp)
                 (match ox with None => Some init_sh | Some x => run_exts tb_sh (UKeep 12) init_sh x end)
           | _ => None
           end
  | KCH => match dec_hello f_ch_base s with
           | Some (VP (VN vers) (VP (VB random) (VP (VB sid) (VP (VL suites) (VB comps)))), ox) =>
               let su := map unVN suites in
               option_map (MCH vers random sid su comps)
                 (match ox with None => Some (init_ch su) | Some x => run_exts tb_ch USkip (init_ch su) x end)
           | _ => None
           end
  | _ => None
  end.

(* round-trip domain of the part-2 kinds *)
Definition valid_part2 (m : msg) : bool :=
  match m with
  | MEE exts => check_slots ps_ee exts
  | MNST13 _ _ _ _ exts => check_slots ps_nst13 exts
  | MCertReq13 exts => check_slots ps_cert_req13 exts
  | MCert13 ocsp scts certs exts =>
      check_slots ps_cert13 exts &&
      Bool.eqb ocsp (negb (isVU (sget 0 exts))) && Bool.eqb scts (negb (isVU (sget 1 exts))) &&
      (negb (is_nil certs) || (isVU (sget 0 exts) && isVU (sget 1 exts)))
  | MSess13 _ _ secret certs exts =>
      check_slots ps_cert13 exts && negb (is_nil secret) &&
      (negb (is_nil certs) || (isVU (sget 0 exts) && isVU (sget 1 exts)))
  | MSH _ _ _ _ _ exts => check_slots ps_sh exts
  | MCH _ _ _ suites _ exts => check_slots (ps_ch suites) exts
  | _ => false
  end.

(* ---- the codec of every kind ---- *)
Definition enc_msg (m : msg) : option bytes :=
  match m with
  | MCert certs => enc_certificate certs
  | MEE _ | MNST13 _ _ _ _ _ | MCertReq13 _ | MCert13 _ _ _ _ | MSess13 _ _ _ _ _
  | MSH _ _ _ _ _ _ | MCH _ _ _ _ _ _ => enc_part2 m
  | _ => enc (fmt_of (kind_of m) (has_of m)) (to_val m)
  end.

Definition dec_msg (k : kind) (has : bool) (s : bytes) : option msg :=
  match k with
  | KCert => option_map MCert (dec_certificate s)
  | KEE | KNST13 | KCertReq13 | KCert13 | KSess13 | KSH | KCH => dec_part2 k s
  | _ => option_map (of_val k has) (dec_all (fmt_of k has) s)
  end.

(* the value domain on which marshal/unmarshal round-trips:
   - fields the decoder insists on being non-empty are non-empty (RFC: <1..n> vectors);
   - a field that the selected layout does not carry has its zero value. *)
Definition all_nonempty (l : list bytes) : bool := forallb (fun c => negb (is_nil c)) l.

Definition canonical (m : msg) : bool :=
  match m with
  | MCertVerify has alg _ => has || (alg =? 0)
  | MCertReq has _ algs _ => has || is_nil algs
  | _ => true
  end.

Definition valid (m : msg) : bool :=
  match m with
  | MCert certs => all_nonempty certs
  | MEE _ | MNST13 _ _ _ _ _ | MCertReq13 _ | MCert13 _ _ _ _ | MSess13 _ _ _ _ _
  | MSH _ _ _ _ _ _ | MCH _ _ _ _ _ _ => valid_part2 m
  | _ => wf (fmt_of (kind_of m) (has_of m)) (to_val m) && canonical m
  end.

(* kinds whose encoding has no optional tail: all but the hellos *)
Definition no_opt_tail (k : kind) : bool := match k with KSH | KCH => false | _ => true end.

(* ---- equality of decoded values ---- *)
Fixpoint val_eqb (a b : val) : bool :=
  match a, b with
  | VU, VU => true
  | VN x, VN y => x =? y
  | VB x, VB y => bytes_eqb x y
  | VL x, VL y =>
      (fix go (x y : list val) : bool :=
         match x, y with
         | [], [] => true
         | u :: x', w :: y' => val_eqb u w && go x' y'
         | _, _ => false
         end) x y
  | VP u w, VP u' w' => val_eqb u u' && val_eqb w w'
  | _, _ => false
  end.
Definition slots_eqb := list_eqb val_eqb.
Definition lbytes_eqb := list_eqb bytes_eqb.
Definition msg_eqb (a b : msg) : bool :=
  match a, b with
  | MFinished x, MFinished y | MCKX x, MCKX y | MSKX x, MSKX y | MCertStatus x, MCertStatus y => bytes_eqb x y
  | MSHD, MSHD | MHelloReq, MHelloReq | MEOED, MEOED => true
  | MKeyUpdate x, MKeyUpdate y => Bool.eqb x y
  | MCertVerify h a s, MCertVerify h' a' s' => Bool.eqb h h' && (a =? a') && bytes_eqb s s'
  | MNST h t, MNST h' t' => (h =? h') && bytes_eqb t t'
  | MCertReq h t a c, MCertReq h' t' a' c' =>
      Bool.eqb h h' && bytes_eqb t t' && list_eqb N.eqb a a' && lbytes_eqb c c'
  | MCert c, MCert c' => lbytes_eqb c c'
  | MSess v s c m l, MSess v' s' c' m' l' =>
      (v =? v') && (s =? s') && (c =? c') && bytes_eqb m m' && lbytes_eqb l l'
  | MEE x, MEE x' => slots_eqb x x'
  | MNST13 l a n b x, MNST13 l' a' n' b' x' =>
      (l =? l') && (a =? a') && bytes_eqb n n' && bytes_eqb b b' && slots_eqb x x'
  | MCertReq13 x, MCertReq13 x' => slots_eqb x x'
  | MCert13 o s c x, MCert13 o' s' c' x' => Bool.eqb o o' && Bool.eqb s s' && lbytes_eqb c c' && slots_eqb x x'
  | MSess13 s c r l x, MSess13 s' c' r' l' x' =>
      (s =? s') && (c =? c') && bytes_eqb r r' && lbytes_eqb l l' && slots_eqb x x'
  | MSH v r i s c x, MSH v' r' i' s' c' x' =>
      (v =? v') && bytes_eqb r r' && bytes_eqb i i' && (s =? s') && (c =? c') && slots_eqb x x'
  | MCH v r i s c x, MCH v' r' i' s' c' x' =>
      (v =? v') && bytes_eqb r r' && bytes_eqb i i' && list_eqb N.eqb s s' && bytes_eqb c c' && slots_eqb x x'
  | _, _ => false
  end.

(* ---- correspondence cases ----
   ecase: (value, validity computed by the harness's own predicate, Go marshal output or None when it panicked)
   dcase: (kind, hasSignatureAlgorithm, input, every prefix length of the input that Go's unmarshal accepts
           with the decoded value).  The model decodes every prefix 0..len and must agree on all of them. *)
Definition ecase := (msg * bool * option bytes)%type.
Definition check_ecase (c : ecase) : bool :=
  let '(m, v, out) := c in
  option_eqb bytes_eqb (enc_msg m) out && Bool.eqb (valid m) v.

Fixpoint lookup_n (n : N) (l : list (N * msg)) : option msg :=
  match l with
  | [] => None
  | (k, m) :: r => if k =? n then Some m else lookup_n n r
  end.

Fixpoint check_prefixes (k : kind) (has : bool) (s : bytes) (acc : list (N * msg)) (n : nat) : bool :=
  option_eqb msg_eqb (dec_msg k has (firstn n s)) (lookup_n (N.of_nat n) acc) &&
  match n with
  | O => true
  | S n' => check_prefixes k has s acc n'
  end.

Definition dcase := (kind * bool * bytes * list (N * msg))%type.
Definition check_dcase (c : dcase) : bool :=
  let '(k, has, s, acc) := c in check_prefixes k has s acc (length s).

(* scase: large inputs, whole-input decode only *)
Definition scase := (kind * bool * bytes * option msg)%type.
Definition check_scase (c : scase) : bool :=
  let '(k, has, s, r) := c in option_eqb msg_eqb (dec_msg k has s) r.

(* xcase: exhaustive small inputs, folded into one rolling checksum that the harness
   computes in the same order: for every body in {0,1,2}^<=depth (depth-first, shorter first),
   input = type || uint24(len body) || body (or the body alone when there is no header),
   for every prefix length 0..len: reject -> mix 0; accept -> mix 1 then every byte of the
   re-marshalled decoded value *)
Definition P : N := 1000000007.
Definition mix (h x : N) : N := (h * 31 + x + 1) mod P.

Definition digest_dec (k : kind) (has : bool) (s : bytes) (h : N) : N :=
  match dec_msg k has s with
  | None => mix h 0
  | Some m => match enc_msg m with
              | Some e => fold_left mix e (mix h 1)
              | None => mix h 2
              end
  end.

Definition digest_prefixes (k : kind) (has : bool) (s : bytes) (h : N) : N :=
  fold_left (fun h n => digest_dec k has (firstn n s) h) (seq 0 (S (length s))) h.

Definition small_input (typ : N) (nohdr : bool) (body : bytes) : bytes :=
  if nohdr then body else typ :: be_enc 3 (blen body) ++ body.

Fixpoint enum_small (depth : nat) (k : kind) (has : bool) (typ : N) (nohdr : bool) (body : bytes) (h : N) : N :=
  let h1 := digest_prefixes k has (small_input typ nohdr body) h in
  match depth with
  | O => h1
  | S d => fold_left (fun h b => enum_small d k has typ nohdr (body ++ [b]) h) [0; 1; 2] h1
  end.

Definition xcase := (kind * bool * N * bool * nat * N)%type.
Definition check_xcase (c : xcase) : bool :=
  let '(k, has, typ, nohdr, depth, h) := c in
  enum_small depth k has typ nohdr [] 0 =? h.

(* hellos: the one strict prefix of an encoding that is accepted ends after the fixed part;
   what is decoded there is the message without any extension *)
Definition strip_exts (m : msg) : msg :=
  match m with
  | MSH v r s c k _ => MSH v r s c k init_sh
  | MCH v r s su c _ => MCH v r s su c (init_ch su)
  | _ => m
  end.
Definition hello_base_enc (m : msg) : option bytes :=
  match m with
  | MSH v r s c k _ => enc f_sh_base (sh_base v r s c k)
  | MCH v r s su c _ => enc f_ch_base (ch_base v r s su c)
  | _ => None
  end.

(* ycase: systematic single-byte substitution.  For a base input s (a valid encoding), every position i
   and every value of subst_vals (the byte there): the whole substituted input is decoded and folded
   into the checksum like digest_dec; same order on the Go side *)
Definition subst_vals (o : N) : list N := [0; 1; 2; 3; 127; 128; 255; (o + 1) mod 256; (o + 255) mod 256].
Fixpoint subst_at (i : nat) (v : N) (s : bytes) : bytes :=
  match s with
  | [] => []
  | x :: r => match i with
              | O => v :: r
              | S k => x :: subst_at k v r
              end
  end.
Definition digest_subst (k : kind) (has : bool) (s : bytes) (h : N) : N :=
  fold_left (fun h i =>
               fold_left (fun h v => digest_dec k has (subst_at i v s) h) (subst_vals (nth i s 0)) h)
            (seq 0 (length s)) h.
Definition ycase := (kind * bool * bytes * N)%type.
Definition check_ycase (c : ycase) : bool :=
  let '(k, has, s, h) := c in digest_subst k has s 0 =? h.
