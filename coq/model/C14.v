(* C14 — model of x509/revocation/crl/crl.go CheckCRLForCert, gatherListExtensionInfo
   and of pkix.Name.FillFromRDNSequence (the issuer copy).  Executable definitions only.

   Go values and their model:
     *big.Int serial / CRL number        Z
     time.Time                           Z  (milliseconds since Unix second 1600000000; the harness
                                             uses whole milliseconds; zero time.Time = [zero_time])
     asn1.ObjectIdentifier               list N
     Go string / []byte                  bytes (list N)
     map[string]*pkix.RevokedCertificate association list with distinct keys, key = decimal string
   The model follows the code after the repair "fix: CheckCRLForCert reports CRL numbers that
   do not fit an int" (CRLNumber is a *big.Int, nil = None).  [old_crl_number] keeps the
   pre-repair decoding for the refutation witness. *)
From Coq Require Import List NArith ZArith Bool.
From Verif Require Import Harness.
Import ListNotations.

Definition oid := list N.
Definition oid_eqb : oid -> oid -> bool := list_eqb N.eqb.

(* ---------- big.Int.String(): decimal, '-' prefix, no leading zeros ---------- *)
(* least significant digit first; fuel = log2 n + 1 is always enough *)
Fixpoint dec_digits (fuel : nat) (n : N) : bytes :=
  match fuel with
  | O => []
  | S f => if (n <? 10)%N then [(48 + n)%N]
           else let qr := N.div_eucl n 10 in (48 + snd qr)%N :: dec_digits f (fst qr)
  end.
Definition dec_N (n : N) : bytes := rev (dec_digits (S (N.to_nat (N.log2 n))) n).
Definition dec_string (z : Z) : bytes :=
  match z with
  | Z0 => [48%N]
  | Zpos p => dec_N (Npos p)
  | Zneg p => 45%N :: dec_N (Npos p)
  end.

(* ---------- revoked entries, linear search ---------- *)
Record rentry := { r_serial : Z; r_time : Z }.

(* milliseconds since 2020-09-13T12:26:40Z (Unix 1600000000), see the harness *)
Definition zero_time : Z := (-63735596800000)%Z.

Fixpoint find_first (s : Z) (l : list rentry) : option rentry :=
  match l with
  | [] => None
  | e :: r => if Z.eqb (r_serial e) s then Some e else find_first s r
  end.

(* (IsRevoked, RevocationTime) *)
Definition lookup_linear (entries : list rentry) (s : Z) : bool * Z :=
  match find_first s entries with
  | Some e => (true, r_time e)
  | None => (false, zero_time)
  end.

(* ---------- cache: Go map keyed by SerialNumber.String() ---------- *)
Definition cache := list (bytes * Z).

Fixpoint assoc (k : bytes) (c : cache) : option Z :=
  match c with
  | [] => None
  | (k', t) :: r => if bytes_eqb k k' then Some t else assoc k r
  end.

Definition lookup_cache (c : cache) (s : Z) : bool * Z :=
  match assoc (dec_string s) c with
  | Some t => (true, t)
  | None => (false, zero_time)
  end.

Definition entry_key (e : rentry) : bytes := dec_string (r_serial e).

(* for i := range rcs { if _, ok := m[k]; !ok { m[k] = &rcs[i] } } *)
Definition ins_first (c : cache) (e : rentry) : cache :=
  match assoc (entry_key e) c with
  | Some _ => c
  | None => c ++ [(entry_key e, r_time e)]
  end.
Definition first_wins_cache (l : list rentry) : cache := fold_left ins_first l [].

(* for i := range rcs { m[k] = &rcs[i] }  (what crl_test.go does) *)
Fixpoint remove_key (k : bytes) (c : cache) : cache :=
  match c with
  | [] => []
  | (k', t) :: r => if bytes_eqb k k' then remove_key k r else (k', t) :: remove_key k r
  end.
Definition ins_last (c : cache) (e : rentry) : cache :=
  (entry_key e, r_time e) :: remove_key (entry_key e) c.
Definition last_wins_cache (l : list rentry) : cache := fold_left ins_last l [].

(* ---------- CRL number: asn1.Unmarshal(value, &*big.Int) ---------- *)
(* parseTagAndLength, length part; returns (length, rest) *)
Fixpoint parse_long_len (nb : nat) (acc : N) (bs : bytes) : option (N * bytes) :=
  match nb with
  | O => Some (acc, bs)
  | S nb' =>
      match bs with
      | [] => None                                   (* truncated tag or length *)
      | b :: r =>
          if (8388608 <=? acc)%N then None           (* length too large (>= 1<<23) *)
          else let acc' := (acc * 256 + b)%N in
               if (acc' =? 0)%N then None            (* superfluous leading zeros *)
               else parse_long_len nb' acc' r
      end
  end.

Definition parse_len (bs : bytes) : option (N * bytes) :=
  match bs with
  | [] => None
  | b :: r =>
      if (b <? 128)%N then Some (b, r)
      else let nb := (b - 128)%N in
           if (nb =? 0)%N then None                  (* indefinite length *)
           else match parse_long_len (N.to_nat nb) 0%N r with
                | Some (l, r') => if (l <? 128)%N then None else Some (l, r')   (* non-minimal length *)
                | None => None
                end
  end.

Definition be_val (bs : bytes) : N := fold_left (fun a b => (a * 256 + b)%N) bs 0%N.

(* checkInteger + parseBigInt *)
Definition parse_bigint (bs : bytes) : option Z :=
  match bs with
  | [] => None
  | b0 :: r =>
      let nonminimal :=
        match r with
        | b1 :: _ => ((b0 =? 0)%N && (b1 <? 128)%N) || ((b0 =? 255)%N && (128 <=? b1)%N)
        | [] => false
        end in
      if nonminimal then None
      else if (128 <=? b0)%N
           then Some (- (Z.of_N (be_val (map (fun b => (255 - b)%N) bs)) + 1))%Z
           else Some (Z.of_N (be_val bs))
  end.

(* asn1.Unmarshal(value, &n) with n *big.Int: universal primitive INTEGER (first octet 0x02;
   every other identifier octet — other class, constructed, other tag, high-tag form — is an
   error), DER length, content inside the buffer; trailing bytes are ignored by the caller *)
Definition parse_crl_number (v : bytes) : option Z :=
  match v with
  | [] => None
  | t :: r =>
      if negb (t =? 2)%N then None
      else match parse_len r with
           | None => None
           | Some (l, body) =>
               if (N.of_nat (length body) <? l)%N then None       (* data truncated *)
               else parse_bigint (firstn (N.to_nat l) body)
           end
  end.

(* the code before the repair: Unmarshal into an int, error ignored, zero value kept *)
Definition old_crl_number (v : bytes) : Z :=
  match v with
  | [] => 0
  | t :: r =>
      if negb (t =? 2)%N then 0
      else match parse_len r with
           | None => 0
           | Some (l, body) =>
               if (N.of_nat (length body) <? l)%N then 0
               else let inner := firstn (N.to_nat l) body in
                    if (8 <? length inner)%nat then 0          (* "integer too large" *)
                    else match parse_bigint inner with Some z => z | None => 0 end
           end
  end%Z.

(* DER INTEGER of a non-negative number, content shorter than 128 octets (short length form) *)
Fixpoint le_bytes (fuel : nat) (n : N) : bytes :=
  match fuel with
  | O => []
  | S f => if (n =? 0)%N then [] else (n mod 256)%N :: le_bytes f (n / 256)%N
  end.
Definition be_bytes (n : N) : bytes := rev (le_bytes (S (N.to_nat (N.log2 n))) n).
Definition uint_content (n : N) : bytes :=
  match be_bytes n with
  | [] => [0%N]
  | b :: r => if (128 <=? b)%N then 0%N :: b :: r else b :: r
  end.
Definition der_uint (n : N) : bytes :=
  let c := uint_content n in 2%N :: N.of_nat (length c) :: c.

(* ---------- gatherListExtensionInfo ---------- *)
Record ext := { x_oid : oid; x_crit : bool; x_val : bytes }.
Definition crl_number_oid : oid := [2; 5; 29; 20]%N.

Record gathered := { g_num : option Z; g_crit : list ext; g_unk : list ext }.

Definition is_number (x : ext) : bool := oid_eqb (x_oid x) crl_number_oid.

Definition gather_step (g : gathered) (x : ext) : gathered :=
  if is_number x
  then {| g_num := parse_crl_number (x_val x); g_crit := g_crit g; g_unk := g_unk g |}
  else if x_crit x
       then {| g_num := g_num g; g_crit := g_crit g ++ [x]; g_unk := g_unk g |}
       else {| g_num := g_num g; g_crit := g_crit g; g_unk := g_unk g ++ [x] |}.

Definition gather (exts : list ext) : gathered :=
  fold_left gather_step exts {| g_num := None; g_crit := []; g_unk := [] |}.

(* ---------- pkix.Name.FillFromRDNSequence ---------- *)
(* a_isstr: the attribute value is a Go string (the type assertion atv.Value.(string)) *)
Record atv := { a_oid : oid; a_isstr : bool; a_val : bytes }.
Definition rdnseq := list (list atv).

Definition names (r : rdnseq) : list atv := concat r.

(* index of the Name field an attribute type is appended to:
   0 CommonNames 1 Surname 2 SerialNumbers 3 Country 4 Locality 5 Province 6 StreetAddress
   7 Organization 8 OrganizationalUnit 9 PostalCode 10 GivenName 11 OrganizationIDs
   12 DomainComponent 13 EmailAddress 14..16 Jurisdiction{Locality,Province,Country} *)
Definition field_of_oid (t : oid) : option N :=
  match t with
  | [2; 5; 4; x]%N =>
      match x with
      | 3 => Some 0 | 4 => Some 1 | 5 => Some 2 | 6 => Some 3 | 7 => Some 4 | 8 => Some 5
      | 9 => Some 6 | 10 => Some 7 | 11 => Some 8 | 17 => Some 9 | 42 => Some 10 | 97 => Some 11
      | _ => None
      end%N
  | _ =>
      if oid_eqb t [0; 9; 2342; 19200300; 100; 1; 25]%N then Some 12%N
      else if oid_eqb t [1; 2; 840; 113549; 1; 9; 1]%N then Some 13%N
      else if oid_eqb t [1; 3; 6; 1; 4; 1; 311; 60; 2; 1; 1]%N then Some 14%N
      else if oid_eqb t [1; 3; 6; 1; 4; 1; 311; 60; 2; 1; 2]%N then Some 15%N
      else if oid_eqb t [1; 3; 6; 1; 4; 1; 311; 60; 2; 1; 3]%N then Some 16%N
      else None
  end.

Definition in_field (i : N) (a : atv) : bool :=
  a_isstr a && option_eqb N.eqb (field_of_oid (a_oid a)) (Some i).

Definition field_values (i : N) (r : rdnseq) : list bytes :=
  map a_val (filter (in_field i) (names r)).

Definition nfields : nat := 17.
Definition all_fields (r : rdnseq) : list (list bytes) :=
  map (fun i => field_values (N.of_nat i) r) (seq 0 nfields).

(* CommonName / SerialNumber: overwritten by every matching attribute, so the last one *)
Definition last_or_empty (l : list bytes) : bytes := last l [].

(* ---------- CheckCRLForCert ---------- *)
Record crl := {
  c_version : Z; c_issuer : rdnseq; c_this : Z; c_next : Z;
  c_entries : list rentry; c_exts : list ext }.

Record result := {
  res_version : Z; res_this : Z; res_next : Z;
  res_orig : rdnseq; res_names : list atv; res_cn : bytes; res_sn : bytes;
  res_fields : list (list bytes);
  res_num : option Z; res_crit : list ext; res_unk : list ext;
  res_revoked : bool; res_time : Z }.

Definition check_crl (c : crl) (s : Z) (ch : option cache) : result :=
  let g := gather (c_exts c) in
  let rt := match ch with
            | Some m => lookup_cache m s
            | None => lookup_linear (c_entries c) s
            end in
  {| res_version := c_version c; res_this := c_this c; res_next := c_next c;
     res_orig := c_issuer c; res_names := names (c_issuer c);
     res_cn := last_or_empty (field_values 0 (c_issuer c));
     res_sn := last_or_empty (field_values 2 (c_issuer c));
     res_fields := all_fields (c_issuer c);
     res_num := g_num g; res_crit := g_crit g; res_unk := g_unk g;
     res_revoked := fst rt; res_time := snd rt |}.

(* ---------- correspondence cases ---------- *)
(* Observables are folded into the rolling checksum of vh.Mix in a fixed traversal order (the
   harness folds the RevocationData it got in the same order), so that a case term stays small. *)
Definition P : N := 1000000007%N.
Definition mix (h x : N) : N := ((h * 31 + x + 1) mod P)%N.
Definition mixZ (h : N) (z : Z) : N :=
  match z with
  | Z0 => mix h 0
  | Zpos p => mix (mix h 1) (Npos p)
  | Zneg p => mix (mix h 2) (Npos p)
  end.
Definition mix_list {A} (f : N -> A -> N) (h : N) (l : list A) : N :=
  fold_left f l (mix h (N.of_nat (length l))).
Definition mix_bytes : N -> bytes -> N := mix_list mix.
Definition mix_bool (h : N) (b : bool) : N := mix h (if b then 1 else 0)%N.
Definition mix_atv (h : N) (a : atv) : N :=
  mix_bytes (mix_bool (mix_bytes h (a_oid a)) (a_isstr a)) (a_val a).
Definition mix_ext (h : N) (x : ext) : N :=
  mix_bytes (mix_bool (mix_bytes h (x_oid x)) (x_crit x)) (x_val x).
Definition mix_optZ (h : N) (o : option Z) : N :=
  match o with None => mix h 0 | Some z => mixZ (mix h 1) z end.

Definition result_hash (r : result) : N :=
  let h := mixZ (mixZ (mixZ 0%N (res_version r)) (res_this r)) (res_next r) in
  let h := mix_list (mix_list mix_atv) h (res_orig r) in
  let h := mix_list mix_atv h (res_names r) in
  let h := mix_bytes (mix_bytes h (res_cn r)) (res_sn r) in
  let h := mix_list (mix_list mix_bytes) h (res_fields r) in
  let h := mix_optZ h (res_num r) in
  let h := mix_list mix_ext (mix_list mix_ext h (res_crit r)) (res_unk r) in
  mixZ (mix_bool h (res_revoked r)) (res_time r).

(* order-independent checksum of a map's contents *)
Definition cache_sum (m : cache) : N :=
  fold_left (fun a kv => ((a + mixZ (mix_bytes 0%N (fst kv)) (snd kv)) mod P)%N) m 0%N.

(* one call: mode 0 = no cache, 1 = first-wins cache built by the harness from the entries,
   2 = last-wins cache, 3 = arbitrary cache (contents given).
   (mode, cache contents for mode 3, checksum of the cache the implementation got,
    checksum of the RevocationData it returned) *)
Definition call := (N * cache * N * N)%type.
Definition check_call (c : crl) (s : Z) (x : call) : bool :=
  let '(mode, given, msum, h) := x in
  let ch := if (mode =? 0)%N then None
            else if (mode =? 1)%N then Some (first_wins_cache (c_entries c))
            else if (mode =? 2)%N then Some (last_wins_cache (c_entries c))
            else Some given in
  (match ch with Some m => (cache_sum m =? msum)%N | None => true end) &&
  (result_hash (check_crl c s ch) =? h)%N.

(* (crl, query serial, calls) *)
Definition case := (crl * Z * list call)%type.
Definition check_case (x : case) : bool :=
  let '(c, s, calls) := x in forallb (check_call c s) calls.

(* big.Int.String() against dec_string: (z, observed string) *)
Definition dcase := (Z * bytes)%type.
Definition check_dcase (x : dcase) : bool := bytes_eqb (dec_string (fst x)) (snd x).

(* asn1.Unmarshal into *big.Int against parse_crl_number: (value bytes, observed) *)
Definition ncase := (bytes * option Z)%type.
Definition check_ncase (x : ncase) : bool :=
  option_eqb Z.eqb (parse_crl_number (fst x)) (snd x).
