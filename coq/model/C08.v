(* C08 — model of x509/cert_pool.go (CertPool).  Executable definitions only.
   Certificates are abstract records (Verif.AbsCert); Go maps are association
   lists whose keys appear in first-insertion order (the harness dumps the real
   maps in that order).  A nil *CertPool is [None]. *)
From Coq Require Import List NArith ZArith Bool Arith.
From Verif Require Import Harness.
From Verif Require Export AbsCert.
Import ListNotations.

(* ---------- maps ---------- *)
Definition amap := list (N * list nat).
Fixpoint amap_get (m : amap) (k : N) : list nat :=
  match m with
  | [] => []
  | (k', l) :: r => if N.eqb k k' then l else amap_get r k
  end.
(* m[k] = append(m[k], i) *)
Fixpoint amap_push (m : amap) (k : N) (i : nat) : amap :=
  match m with
  | [] => [(k, [i])]
  | (k', l) :: r => if N.eqb k k' then (k', l ++ [i]) :: r else (k', l) :: amap_push r k i
  end.

Definition smap := list (N * nat).
Fixpoint smap_get (m : smap) (k : N) : option nat :=
  match m with
  | [] => None
  | (k', v) :: r => if N.eqb k k' then Some v else smap_get r k
  end.

Record pool := mkPool {
  certs : list cert;
  by_sha : smap;      (* bySHA256 *)
  by_name : amap;     (* byName *)
  by_skid : amap      (* bySubjectKeyId *)
}.

Definition empty_pool : pool := mkPool [] [] [] [].

(* AddCert *)
Definition add_cert (s : pool) (c : cert) : pool :=
  match smap_get (by_sha s) (c_fp c) with
  | Some _ => s
  | None =>
      let n := length (certs s) in
      mkPool (certs s ++ [c])
             (by_sha s ++ [(c_fp c, n)])
             (amap_push (by_name s) (c_subject c) n)
             (match c_skid c with
              | Some k => amap_push (by_skid s) k n
              | None => by_skid s
              end)
  end.

(* AppendCertsFromPEM: pem.Decode (stdlib) yields the blocks; a block is a
   parseable certificate, or is skipped for one of three reasons *)
Inductive pemblock := BCert (c : cert) | BUnparseable | BWrongType | BHeaders.

Fixpoint append_pem (s : pool) (bs : list pemblock) (ok : bool) : pool * bool :=
  match bs with
  | [] => (s, ok)
  | BCert c :: r => append_pem (add_cert s c) r true
  | _ :: r => append_pem s r ok
  end.

(* observers *)
Definition contains (s : option pool) (c : cert) : bool :=
  match s with
  | None => false
  | Some p => match smap_get (by_sha p) (c_fp c) with Some _ => true | None => false end
  end.
Definition covers (s : pool) (o : option pool) : bool :=
  match o with
  | None => true
  | Some p => forallb (contains (Some s)) (certs p)
  end.
Definition size (s : option pool) : nat :=
  match s with None => 0 | Some p => length (certs p) end.
Definition subjects (s : pool) : list N := map c_subject (certs s).

(* Sum *)
Definition opt_certs (s : option pool) : list cert :=
  match s with None => [] | Some p => certs p end.
Definition sum (s o : option pool) : pool :=
  fold_left add_cert (opt_certs o) (fold_left add_cert (opt_certs s) empty_pool).

(* findVerifiedParents; None = index out of range (Go would panic) *)
Section Parents.
  Variable sigok : cert -> cert -> bool.

  Fixpoint fvp_loop (cs : list cert) (c : cert) (cand : list nat) : option (list nat) :=
    match cand with
    | [] => Some []
    | i :: r =>
        match nth_error cs i with
        | None => None
        | Some par =>
            match fvp_loop cs c r with
            | None => None
            | Some l => Some (if check_sig_from sigok c par then i :: l else l)
            end
        end
    end.

  Definition candidates (p : pool) (c : cert) : list nat :=
    let cand := match c_akid c with
                | Some k => amap_get (by_skid p) k
                | None => []
                end in
    match cand with
    | [] => amap_get (by_name p) (c_issuer c)
    | _ => cand
    end.

  Definition find_verified_parents (s : option pool) (c : cert) : option (list nat) :=
    match s with
    | None => Some []
    | Some p => fvp_loop (certs p) c (candidates p c)
    end.
End Parents.

(* ---------- operation histories over a file of pool registers ---------- *)
Inductive op :=
| ONew (r : nat)                          (* regs[r] = NewCertPool() *)
| OAdd (r : nat) (c : cert)               (* regs[r].AddCert(c) *)
| OPem (r : nat) (bs : list pemblock)     (* regs[r].AppendCertsFromPEM(...) *)
| OSum (d : nat) (a b : option nat).      (* regs[d] = regs[a].Sum(regs[b]); None = nil pool *)

Definition regs := list pool.
Definition reg (st : regs) (r : nat) : pool := nth r st empty_pool.
Definition oreg (st : regs) (r : option nat) : option pool :=
  match r with None => None | Some i => Some (reg st i) end.
Fixpoint set_nth {A} (st : list A) (r : nat) (p : A) : list A :=
  match st, r with
  | [], _ => []
  | _ :: t, O => p :: t
  | h :: t, S r' => h :: set_nth t r' p
  end.
Definition set_reg (st : regs) (r : nat) (p : pool) : regs := set_nth st r p.

Definition target (o : op) : nat :=
  match o with ONew r => r | OAdd r _ => r | OPem r _ => r | OSum d _ _ => d end.

(* new register file and the result of AppendCertsFromPEM if any *)
Definition step (st : regs) (o : op) : regs * option bool :=
  match o with
  | ONew r => (set_reg st r empty_pool, None)
  | OAdd r c => (set_reg st r (add_cert (reg st r) c), None)
  | OPem r bs => let '(p, ok) := append_pem (reg st r) bs false in (set_reg st r p, Some ok)
  | OSum d a b => (set_reg st d (sum (oreg st a) (oreg st b)), None)
  end.

Definition init (n : nat) : regs := repeat empty_pool n.
Definition run_ops (st : regs) (ops : list op) : regs :=
  fold_left (fun st o => fst (step st o)) ops st.

(* ---------- observation, flattened to a list of numbers ---------- *)
Definition b2n (b : bool) : N := if b then 1%N else 0%N.
Definition nn (n : nat) : N := N.of_nat n.
Definition flat_amap (m : amap) : list N :=
  nn (length m) :: flat_map (fun kl => fst kl :: nn (length (snd kl)) :: map nn (snd kl)) m.
Definition flat_smap (m : smap) : list N :=
  nn (length m) :: flat_map (fun kv => [fst kv; nn (snd kv)]) m.

(* what the harness sees of register r after an op: the result flag, Size,
   Certificates (fingerprints), Subjects, Contains for every universe certificate,
   Covers in both directions against every register and Covers(nil), the three indices *)
Definition observe (univ : list cert) (st : regs) (r : nat) (ok : option bool) : list N :=
  let p := reg st r in
  (match ok with None => 0 | Some false => 1 | Some true => 2 end)%N
  :: nn (size (Some p))
  :: nn (length (certs p)) :: map c_fp (certs p)
  ++ nn (length (subjects p)) :: subjects p
  ++ map (fun c => b2n (contains (Some p) c)) univ
  ++ flat_map (fun q => [b2n (covers p (Some q)); b2n (covers q (Some p))]) st
  ++ b2n (covers p None)
  :: flat_smap (by_sha p) ++ flat_amap (by_name p) ++ flat_amap (by_skid p).

Fixpoint run_obs (univ : list cert) (st : regs) (ops : list op) : list (list N) :=
  match ops with
  | [] => []
  | o :: r => let '(st', ok) := step st o in observe univ st' (target o) ok :: run_obs univ st' r
  end.

(* findVerifiedParents of every universe certificate in every register:
   0 = panic, else 1 + length followed by the indices *)
Definition flat_parents (sig : sigmatrix) (univ : list cert) (st : regs) : list N :=
  flat_map (fun p =>
              flat_map (fun c =>
                          match find_verified_parents (sig_of sig) (Some p) c with
                          | None => [0%N]
                          | Some l => N.succ (nn (length l)) :: map nn l
                          end) univ) st.

(* ---------- correspondence cases: ops refer to universe certificates by index ---------- *)
Inductive iblock := IBCert (i : nat) | IBUnparseable | IBWrongType | IBHeaders.
Inductive iop :=
| INew (r : nat) | IAdd (r : nat) (i : nat) | IPem (r : nat) (bs : list iblock)
| ISum (d : nat) (a b : option nat).

Definition dummy_cert : cert :=
  mkCert 999999 0 0 0 None None 0 false false 0 0 false false [] 0 0 0 false false [] [] [].
Definition ucert (univ : list cert) (i : nat) : cert := nth i univ dummy_cert.
Definition resolve_block (univ : list cert) (b : iblock) : pemblock :=
  match b with
  | IBCert i => BCert (ucert univ i)
  | IBUnparseable => BUnparseable | IBWrongType => BWrongType | IBHeaders => BHeaders
  end.
Definition resolve (univ : list cert) (o : iop) : op :=
  match o with
  | INew r => ONew r
  | IAdd r i => OAdd r (ucert univ i)
  | IPem r bs => OPem r (map (resolve_block univ) bs)
  | ISum d a b => OSum d a b
  end.

Definition lN_eqb : list N -> list N -> bool := list_eqb N.eqb.

(* (registers, universe, signature matrix, ops, observation after each op, parents at the end) *)
Definition case := (nat * list cert * sigmatrix * list iop * list (list N) * list N)%type.
Definition check_case (c : case) : bool :=
  let '(n, univ, sig, iops, obs, par) := c in
  let ops := map (resolve univ) iops in
  list_eqb lN_eqb (run_obs univ (init n) ops) obs
  && lN_eqb (flat_parents sig univ (run_ops (init n) ops)) par.

(* CheckSignatureFrom alone: (child, parent, result of parent.CheckSignature on the child,
   observed: nil error) *)
Definition scase := (cert * cert * bool * bool)%type.
Definition check_scase (s : scase) : bool :=
  let '(c, p, sg, o) := s in Bool.eqb (check_sig_from (fun _ _ => sg) c p) o.

(* ---------- exhaustive: every op sequence of length <= depth over an alphabet,
   depth first, folding each step's observation into a rolling checksum ---------- *)
(* rolling checksum; N.land, not mod: N.modulo is ~700x slower under vm_compute *)
Definition mix (h x : N) : N := N.land (h * 31 + x + 1) 2147483647%N.
Definition hash_list (h : N) (l : list N) : N := fold_left mix l (mix h 77).

Fixpoint enum_hash (univ : list cert) (alphabet : list op) (n : nat) (st : regs) (h : N) : N :=
  match n with
  | O => h
  | S n' =>
      fold_left (fun h o =>
                   let '(st', ok) := step st o in
                   enum_hash univ alphabet n' st' (hash_list h (observe univ st' (target o) ok)))
                alphabet h
  end.

(* (registers, universe, alphabet, depth, checksum) *)
Definition xcase := (nat * list cert * list iop * nat * N)%type.
Definition check_xcase (x : xcase) : bool :=
  let '(n, univ, alpha, depth, h) := x in
  N.eqb (enum_hash univ (map (resolve univ) alpha) depth (init n) 0%N) h.
