(* C04 — model of x509.CreateCertificate / buildExtensions (issuance) and of
   ParseCertificate / parseCertificate (the branches that read what issuance
   writes), on DER value trees.  Executable definitions only.

   build side:  template -> DER tree of the TBSCertificate (then [emit])
   parse side:  bytes -> [parse] -> tree -> fields

   Tables (signature algorithms, extended key usages) are regenerated from
   the built code into gen/C04_gen.v on every run. *)
From Coq Require Import List NArith ZArith Bool Arith.
From Verif Require Import Harness DerTree DerPrim.
From VerifGen Require Import C04_gen.
Import ListNotations.
Local Open Scope N_scope.

(* ------------------------------------------------------------------ *)
(* small helpers                                                        *)
Definition obind {A B} (o : option A) (f : A -> option B) : option B :=
  match o with Some x => f x | None => None end.

Fixpoint omap {A B} (f : A -> option B) (l : list A) : option (list B) :=
  match l with
  | [] => Some []
  | x :: r => match f x, omap f r with
              | Some y, Some ys => Some (y :: ys)
              | _, _ => None
              end
  end.

Definition seq (kids : list dv) : dv := Cons 0 16 kids.
Definition d_int (z : Z) : dv := Prim 0 2 (enc_int z).
Definition d_bool (b : bool) : dv := Prim 0 1 (enc_bool b).
Definition d_octets (bs : bytes) : dv := Prim 0 4 bs.
Definition d_null : dv := Prim 0 5 [].
Definition d_oid (o : oid) : option dv :=
  match enc_oid o with Some bs => Some (Prim 0 6 bs) | None => None end.

(* RawValue.Bytes / RawValue.Tag of an element *)
Definition raw_bytes (d : dv) : bytes :=
  match d with Prim _ _ b => b | Cons _ _ k => emit_list k end.
Definition raw_tag (d : dv) : N := match d with Prim _ t _ => t | Cons _ t _ => t end.

(* short names used by the generated case files *)
Definition en : bytes := [].
Definition eB : list bytes := [].
Definition eN : list N := [].
Definition eO : list oid := [].

(* subject public key infos of the harness's fixed key pool (regenerated) *)
Definition spki (k : nat) : bytes := nth k spki_table [].

(* two rolling checksums + length: how certificate bytes are compared *)
Definition mix1 (h x : N) : N := (h * 31 + x + 1) mod 1000000007.
Definition mix2 (h x : N) : N := (h * 257 + x + 1) mod 998244353.
Definition digest (bs : bytes) : N * N * N :=
  (N.of_nat (length bs), fold_left mix1 bs 0, fold_left mix2 bs 0).
Definition digest_eqb (a b : N * N * N) : bool :=
  let '(a1, a2, a3) := a in let '(b1, b2, b3) := b in (a1 =? b1) && (a2 =? b2) && (a3 =? b3).

(* ------------------------------------------------------------------ *)
(* distinguished names at the RDNSequence level (pkix.Name <-> RDNSequence
   is pkix.ToRDNSequence / FillFromRDNSequence)                         *)
Definition atv := (oid * bytes)%type.
Definition rdn := list atv.
Definition name := list rdn.

Definition build_atv (a : atv) : option dv :=
  match d_oid (fst a) with
  | Some o => Some (seq [o; Prim 0 (string_tag (snd a)) (snd a)])
  | None => None
  end.

(* bytes.Compare (a, b) < 0 *)
Fixpoint bytes_ltb (a b : bytes) : bool :=
  match a, b with
  | [], [] => false
  | [], _ :: _ => true
  | _ :: _, [] => false
  | x :: a', y :: b' => if x <? y then true else if y <? x then false else bytes_ltb a' b'
  end.

(* setEncoder: the encodings of the members of a SET OF in ascending order *)
Fixpoint insert_by (x : dv) (l : list dv) : list dv :=
  match l with
  | [] => [x]
  | y :: r => if bytes_ltb (emit y) (emit x) then y :: insert_by x r else x :: l
  end.
Definition sort_set (l : list dv) : list dv := fold_right insert_by [] l.

Definition build_rdn (r : rdn) : option dv :=
  match omap build_atv r with
  | Some l => Some (Cons 0 17 (sort_set l))
  | None => None
  end.

Definition build_name (n : name) : option dv :=
  match omap build_rdn n with
  | Some l => Some (seq l)
  | None => None
  end.

(* PrintableString as the reader accepts it: '*' and '&' allowed *)
Definition printable_read (b : N) : bool := is_printable_char b || (b =? 42) || (b =? 38).

Definition read_atv (d : dv) : option atv :=
  match d with
  | Cons 0 16 (Prim 0 6 ob :: Prim 0 tg v :: _) =>
      match dec_oid ob with
      | Some o =>
          if tg =? 19 then (if forallb printable_read v then Some (o, v) else None)
          else if tg =? 12 then Some (o, v)
          else None        (* other string / value types: never written by issuance *)
      | None => None
      end
  | _ => None
  end.

Definition read_rdn (d : dv) : option rdn :=
  match d with
  | Cons 0 17 l => omap read_atv l
  | _ => None
  end.

Definition read_name (d : dv) : option name :=
  match d with
  | Cons 0 16 l => omap read_rdn l
  | _ => None
  end.

Definition atv_eqb (a b : atv) : bool := oid_eqb (fst a) (fst b) && bytes_eqb (snd a) (snd b).
Definition name_eqb : name -> name -> bool := list_eqb (list_eqb atv_eqb).

(* ------------------------------------------------------------------ *)
(* extensions                                                           *)
Definition ext := (oid * bool * bytes)%type.
Definition ext_id (e : ext) : oid := fst (fst e).
Definition ext_crit (e : ext) : bool := snd (fst e).
Definition ext_val (e : ext) : bytes := snd e.
Definition ext_eqb (a b : ext) : bool :=
  oid_eqb (ext_id a) (ext_id b) && Bool.eqb (ext_crit a) (ext_crit b) && bytes_eqb (ext_val a) (ext_val b).

Definition eX : list ext := [].

Definition oid_in_exts (o : oid) (l : list ext) : bool := existsb (fun e => oid_eqb o (ext_id e)) l.

Definition build_ext (e : ext) : option dv :=
  match d_oid (ext_id e) with
  | Some o => Some (seq ([o] ++ (if ext_crit e then [d_bool true] else []) ++ [d_octets (ext_val e)]))
  | None => None
  end.

Definition oid_ku : oid := [2; 5; 29; 15].
Definition oid_eku : oid := [2; 5; 29; 37].
Definition oid_bc : oid := [2; 5; 29; 19].
Definition oid_ski : oid := [2; 5; 29; 14].
Definition oid_aki : oid := [2; 5; 29; 35].
Definition oid_san : oid := [2; 5; 29; 17].
Definition oid_policies : oid := [2; 5; 29; 32].
Definition oid_nc : oid := [2; 5; 29; 30].
Definition oid_crldp : oid := [2; 5; 29; 31].
Definition oid_aia : oid := [1; 3; 6; 1; 5; 5; 7; 1; 1].
Definition oid_aia_ocsp : oid := [1; 3; 6; 1; 5; 5; 7; 48; 1].
Definition oid_aia_issuers : oid := [1; 3; 6; 1; 5; 5; 7; 48; 2].

(* ---- key usage ---- *)
Definition bit (b : N) (i : N) : N := (b / 2 ^ i) mod 2.
Definition rev8 (b : N) : N :=
  bit b 0 * 128 + bit b 1 * 64 + bit b 2 * 32 + bit b 3 * 16 +
  bit b 4 * 8 + bit b 5 * 4 + bit b 6 * 2 + bit b 7.

Fixpoint tz (fuel : nat) (b : N) : N :=
  match fuel with
  | O => 0
  | S f => if N.odd b then 0 else 1 + tz f (b / 2)
  end.

(* asn1BitLength of one or two bytes *)
Definition asn1_bitlen (bs : bytes) : N :=
  match bs with
  | [a0] => 8 - tz 8 a0
  | [a0; a1] => if a1 =? 0 then 8 - tz 8 a0 else 16 - tz 8 a1
  | _ => 0
  end.

Definition bitstring_content (bs : bytes) (bitlen : N) : bytes := ((8 - bitlen mod 8) mod 8) :: bs.

Definition build_ku (ku : N) : dv :=
  let a0 := rev8 (ku mod 256) in
  let a1 := rev8 ((ku / 256) mod 256) in
  let bs := if a1 =? 0 then [a0] else [a0; a1] in
  Prim 0 3 (bitstring_content bs (asn1_bitlen bs)).

(* parseBitString: (bytes, bit length) *)
Definition parse_bitstring (c : bytes) : option (bytes * N) :=
  match c with
  | [] => None
  | pad :: bs =>
      if 7 <? pad then None
      else if (match bs with [] => true | _ => false end) && (0 <? pad) then None
      else if negb (last bs 0 mod 2 ^ pad =? 0) then None
      else Some (bs, N.of_nat (length bs) * 8 - pad)
  end.

(* BitString.At *)
Definition bit_at (bs : bytes) (bitlen : N) (i : N) : N :=
  if bitlen <=? i then 0 else bit (nth (N.to_nat (i / 8)) bs 0) (7 - i mod 8).

Definition ku_of_bits (bs : bytes) (bitlen : N) : N :=
  fold_right (fun i acc => acc + bit_at bs bitlen i * 2 ^ i) 0 [0; 1; 2; 3; 4; 5; 6; 7; 8].

Definition read_ku (d : dv) : option N :=
  match d with
  | Prim 0 3 c =>
      match parse_bitstring c with
      | Some (bs, bl) => Some (ku_of_bits bs bl)
      | None => None
      end
  | _ => None
  end.

(* ---- extended key usage ---- *)
Definition eku_oid (e : N) : option oid :=
  match find (fun p => fst p =? e) eku_build_table with
  | Some p => Some (snd p)
  | None => None
  end.

Definition eku_of_oid (o : oid) : option N :=
  match find (fun p => oid_eqb (fst p) o) eku_parse_table with
  | Some p => Some (snd p)
  | None => None
  end.

Definition build_eku (ekus : list N) (unknown : list oid) : option dv :=
  match omap eku_oid ekus with
  | Some known =>
      match omap d_oid (known ++ unknown) with
      | Some l => Some (seq l)
      | None => None
      end
  | None => None
  end.

Definition read_oid_elem (d : dv) : option oid :=
  match d with Prim 0 6 b => dec_oid b | _ => None end.

Fixpoint split_ekus (l : list oid) : list N * list oid :=
  match l with
  | [] => ([], [])
  | o :: r =>
      let '(k, u) := split_ekus r in
      match eku_of_oid o with
      | Some e => (e :: k, u)
      | None => (k, o :: u)
      end
  end.

Definition read_eku (d : dv) : option (list N * list oid) :=
  match d with
  | Cons 0 16 l => match omap read_oid_elem l with
                   | Some oids => Some (split_ekus oids)
                   | None => None
                   end
  | _ => None
  end.

(* ---- basic constraints ---- *)
Definition eff_pathlen (mpl : Z) (zero : bool) : Z :=
  if (mpl =? 0)%Z && negb zero then (-1)%Z else mpl.

Definition build_bc (isca : bool) (mpl : Z) (zero : bool) : dv :=
  let m := eff_pathlen mpl zero in
  seq ((if isca then [d_bool true] else []) ++ (if (m =? -1)%Z then [] else [d_int m])).

Definition read_bc (d : dv) : option (bool * Z) :=
  match d with
  | Cons 0 16 kids =>
      let r1 := match kids with
                | Prim 0 1 b :: r => (dec_bool b, r)
                | _ => (Some false, kids)
                end in
      let r2 := match snd r1 with
                | Prim 0 2 b :: _ => dec_int64 b
                | _ => Some (-1)%Z
                end in
      match fst r1, r2 with
      | Some ca, Some m => Some (ca, m)
      | _, _ => None
      end
  | _ => None
  end.

(* ---- key identifiers ---- *)
Definition build_ski (id : bytes) : dv := d_octets id.
Definition read_ski (d : dv) : option bytes := match d with Prim 0 4 b => Some b | _ => None end.

Definition build_aki (id : bytes) : dv := seq [Prim 2 0 id].
Definition read_aki (d : dv) : option bytes :=
  match d with
  | Cons 0 16 (Prim 2 0 b :: _) => Some b
  | Cons 0 16 _ => Some []
  | _ => None
  end.

(* ---- authority information access ---- *)
Definition build_aia (ocsp issuers : list bytes) : option dv :=
  match d_oid oid_aia_ocsp, d_oid oid_aia_issuers with
  | Some oo, Some oi =>
      Some (seq (map (fun u => seq [oo; Prim 2 6 u]) ocsp ++ map (fun u => seq [oi; Prim 2 6 u]) issuers))
  | _, _ => None
  end.

(* (method, location tag, location bytes) per entry *)
Definition read_aia_entry (d : dv) : option (oid * N * bytes) :=
  match d with
  | Cons 0 16 (Prim 0 6 m :: loc :: _) =>
      match dec_oid m with
      | Some o => Some (o, raw_tag loc, raw_bytes loc)
      | None => None
      end
  | _ => None
  end.

Definition read_aia (d : dv) : option (list bytes * list bytes) :=
  match d with
  | Cons 0 16 l =>
      match omap read_aia_entry l with
      | Some es =>
          let uris := filter (fun e => snd (fst e) =? 6) es in
          Some (map snd (filter (fun e => oid_eqb (fst (fst e)) oid_aia_ocsp) uris),
                map snd (filter (fun e => negb (oid_eqb (fst (fst e)) oid_aia_ocsp)
                                          && oid_eqb (fst (fst e)) oid_aia_issuers) uris))
      | None => None
      end
  | _ => None
  end.

(* ---- subject alternative names ---- *)
(* net.IP.To4 *)
Definition v4_in_v6_prefix : bytes := [0; 0; 0; 0; 0; 0; 0; 0; 0; 0; 255; 255].
Definition ip_to4 (ip : bytes) : option bytes :=
  if (length ip =? 4)%nat then Some ip
  else if (length ip =? 16)%nat && bytes_eqb (firstn 12 ip) v4_in_v6_prefix then Some (skipn 12 ip)
  else None.
(* net.IP.To16 *)
Definition ip_to16 (ip : bytes) : option bytes :=
  if (length ip =? 4)%nat then Some (v4_in_v6_prefix ++ ip)
  else if (length ip =? 16)%nat then Some ip
  else None.

Definition san_ip (ip : bytes) : bytes := match ip_to4 ip with Some v4 => v4 | None => ip end.

Definition build_san (dns emails : list bytes) (ips : list bytes) : dv :=
  seq (map (Prim 2 2) dns ++ map (Prim 2 1) emails ++ map (fun ip => Prim 2 7 (san_ip ip)) ips).

(* parseGeneralNames restricted to the three kinds issuance writes;
   (dns, emails, ips) *)
Fixpoint read_gnames (l : list dv) : option (list bytes * list bytes * list bytes) :=
  match l with
  | [] => Some ([], [], [])
  | v :: r =>
      match read_gnames r with
      | None => None
      | Some (d, e, i) =>
          let t := raw_tag v in
          let b := raw_bytes v in
          if t =? 1 then Some (d, b :: e, i)
          else if t =? 2 then Some (b :: d, e, i)
          else if t =? 7 then
            (if (length b =? 4)%nat || (length b =? 16)%nat then Some (d, e, b :: i) else None)
          else Some (d, e, i)
      end
  end.

Definition read_san (d : dv) : option (list bytes * list bytes * list bytes) :=
  match d with
  | Cons 0 16 l => read_gnames l
  | _ => None
  end.

(* ---- certificate policies ---- *)
Definition build_policies (ps : list oid) : option dv :=
  match omap (fun p => match d_oid p with Some o => Some (seq [o]) | None => None end) ps with
  | Some l => Some (seq l)
  | None => None
  end.

Definition read_policy (d : dv) : option oid :=
  match d with
  | Cons 0 16 (Prim 0 6 b :: _) => dec_oid b
  | _ => None
  end.

Definition read_policies (d : dv) : option (list oid) :=
  match d with
  | Cons 0 16 l => omap read_policy l
  | _ => None
  end.

(* ---- name constraints ---- *)
Definition ipnet := (bytes * bytes)%type.     (* IP, Mask *)

(* ipAndMask (after the fix of defect 20) *)
Definition ip_and_mask (n : ipnet) : bytes :=
  let '(ip, mask) := n in
  let ip' := if (length mask =? 4)%nat then (match ip_to4 ip with Some v => v | None => ip end)
             else if (length mask =? 16)%nat then (match ip_to16 ip with Some v => v | None => ip end)
             else ip in
  ip' ++ mask.

Record ncset := { nc_email : list bytes; nc_dns : list bytes; nc_dir : list name; nc_ip : list ipnet }.

Definition nc_empty (s : ncset) : bool :=
  match nc_email s, nc_dns s, nc_dir s, nc_ip s with
  | [], [], [], [] => true
  | _, _, _, _ => false
  end.

Definition subtree (base : dv) : dv := seq [base].

Definition build_ncset (s : ncset) : option (list dv) :=
  match omap build_name (nc_dir s) with
  | Some dirs =>
      Some (map (fun e => subtree (Prim 2 1 e)) (nc_email s) ++
            map (fun e => subtree (Prim 2 2 e)) (nc_dns s) ++
            map (fun n => subtree (Cons 2 4 [n])) dirs ++
            map (fun n => subtree (Prim 2 7 (ip_and_mask n))) (nc_ip s))
  | None => None
  end.

Definition build_nc (perm excl : ncset) : option dv :=
  match build_ncset perm, build_ncset excl with
  | Some p, Some e =>
      Some (seq ((match p with [] => [] | _ => [Cons 2 0 p] end) ++
                 (match e with [] => [] | _ => [Cons 2 1 e] end)))
  | _, _ => None
  end.

Definition ncset_add_email (s : ncset) (b : bytes) : ncset :=
  {| nc_email := b :: nc_email s; nc_dns := nc_dns s; nc_dir := nc_dir s; nc_ip := nc_ip s |}.
Definition ncset_add_dns (s : ncset) (b : bytes) : ncset :=
  {| nc_email := nc_email s; nc_dns := b :: nc_dns s; nc_dir := nc_dir s; nc_ip := nc_ip s |}.
Definition ncset_add_dir (s : ncset) (n : name) : ncset :=
  {| nc_email := nc_email s; nc_dns := nc_dns s; nc_dir := n :: nc_dir s; nc_ip := nc_ip s |}.
Definition ncset_add_ip (s : ncset) (n : ipnet) : ncset :=
  {| nc_email := nc_email s; nc_dns := nc_dns s; nc_dir := nc_dir s; nc_ip := n :: nc_ip s |}.
Definition ncset_nil : ncset := {| nc_email := []; nc_dns := []; nc_dir := []; nc_ip := [] |}.
Definition nc0 : ncset := ncset_nil.

(* one GeneralSubtree: the base is the first element, whatever its tag *)
Fixpoint read_subtrees (l : list dv) : option ncset :=
  match l with
  | [] => Some ncset_nil
  | st :: r =>
      match read_subtrees r with
      | None => None
      | Some s =>
          match st with
          | Cons 0 16 (base :: _) =>
              let t := raw_tag base in
              let b := raw_bytes base in
              if t =? 1 then Some (ncset_add_email s b)
              else if t =? 2 then Some (ncset_add_dns s b)
              else if t =? 4 then
                match parse b with
                | Some (nd, _) => match read_name nd with
                                  | Some n => Some (ncset_add_dir s n)
                                  | None => None
                                  end
                | None => None
                end
              else if t =? 7 then
                (if (length b =? 8)%nat then Some (ncset_add_ip s (firstn 4 b, skipn 4 b))
                 else if (length b =? 32)%nat then Some (ncset_add_ip s (firstn 16 b, skipn 16 b))
                 else None)
              else Some s
          | Cons 0 16 [] => Some s
          | _ => None
          end
      end
  end.

Definition read_nc (d : dv) : option (ncset * ncset) :=
  match d with
  | Cons 0 16 kids =>
      let r1 := match kids with
                | Cons 2 0 p :: r => (read_subtrees p, r)
                | _ => (Some ncset_nil, kids)
                end in
      let r2 := match snd r1 with
                | Cons 2 1 e :: _ => read_subtrees e
                | _ => Some ncset_nil
                end in
      match fst r1, r2 with
      | Some p, Some e => Some (p, e)
      | _, _ => None
      end
  | _ => None
  end.

Definition ipnet_eqb (a b : ipnet) : bool := bytes_eqb (fst a) (fst b) && bytes_eqb (snd a) (snd b).
Definition ncset_eqb (a b : ncset) : bool :=
  list_eqb bytes_eqb (nc_email a) (nc_email b) && list_eqb bytes_eqb (nc_dns a) (nc_dns b) &&
  list_eqb name_eqb (nc_dir a) (nc_dir b) && list_eqb ipnet_eqb (nc_ip a) (nc_ip b).

(* ---- CRL distribution points ---- *)
Definition build_crldp (dps : list bytes) : dv :=
  seq (map (fun u => seq [Cons 2 0 [Cons 2 0 [Prim 2 6 u]]]) dps).

Definition read_dp (d : dv) : option (list bytes) :=
  match d with
  | Cons 0 16 (Cons 2 0 (fn :: _) :: _) =>
      match parse_seq (raw_bytes fn) with
      | Some names => Some (map raw_bytes (filter (fun n => raw_tag n =? 6) names))
      | None => None
      end
  | Cons 0 16 _ => Some []
  | _ => None
  end.

Definition read_crldp (d : dv) : option (list bytes) :=
  match d with
  | Cons 0 16 l => match omap read_dp l with
                   | Some ls => Some (concat ls)
                   | None => None
                   end
  | _ => None
  end.

(* ------------------------------------------------------------------ *)
(* signature algorithm identifiers                                      *)
Inductive keykind := KRSA | KEC (bits : N) | KEd.

Definition pubtype (k : keykind) : N := match k with KRSA => 1 | KEC _ => 3 | KEd => 4 end.

Definition oid_sha256_rsa : oid := [1; 2; 840; 113549; 1; 1; 11].
Definition oid_rsa_pss : oid := [1; 2; 840; 113549; 1; 1; 10].
Definition oid_ecdsa_sha256 : oid := [1; 2; 840; 10045; 4; 3; 2].
Definition oid_ecdsa_sha384 : oid := [1; 2; 840; 10045; 4; 3; 3].
Definition oid_ecdsa_sha512 : oid := [1; 2; 840; 10045; 4; 3; 4].
Definition oid_ed25519 : oid := [1; 3; 101; 112].
Definition oid_sha256 : oid := [2; 16; 840; 1; 101; 3; 4; 2; 1].
Definition oid_sha384 : oid := [2; 16; 840; 1; 101; 3; 4; 2; 2].
Definition oid_sha512 : oid := [2; 16; 840; 1; 101; 3; 4; 2; 3].
Definition oid_mgf1 : oid := [1; 2; 840; 113549; 1; 1; 8].

(* rows of signatureAlgorithmDetails: (algo, oid, pubKeyAlgo, hash, isRSAPSS, PSS parameters) *)
Definition row := (N * oid * N * N * bool * bytes)%type.
Definition r_algo (r : row) : N := let '(a, _, _, _, _, _) := r in a.
Definition r_oid (r : row) : oid := let '(_, o, _, _, _, _) := r in o.
Definition r_pk (r : row) : N := let '(_, _, p, _, _, _) := r in p.
Definition r_hash (r : row) : N := let '(_, _, _, h, _, _) := r in h.
Definition r_pss (r : row) : bool := let '(_, _, _, _, p, _) := r in p.
Definition r_params (r : row) : bytes := let '(_, _, _, _, _, b) := r in b.

(* AlgorithmIdentifier as (algorithm, optional parameters element) *)
Definition algid := (oid * option dv)%type.

Definition default_alg (k : keykind) : option algid :=
  match k with
  | KRSA => Some (oid_sha256_rsa, Some d_null)
  | KEC b => if (b =? 224) || (b =? 256) then Some (oid_ecdsa_sha256, None)
             else if b =? 384 then Some (oid_ecdsa_sha384, None)
             else if b =? 521 then Some (oid_ecdsa_sha512, None)
             else None
  | KEd => Some (oid_ed25519, None)
  end.

(* signingParamsForPublicKey *)
Definition signing_alg (k : keykind) (req : N) : option algid :=
  match default_alg k with
  | None => None
  | Some (o, p) =>
      if req =? 0 then Some (o, p)
      else
        match find (fun r => r_algo r =? req) sigalg_table with
        | None => None
        | Some r =>
            if negb (r_pk r =? pubtype k) then None
            else if (r_hash r =? 0) && (match k with KEd => false | _ => true end) then None
            else if r_pss r then
              match parse_all (r_params r) with
              | Some t => Some (r_oid r, Some t)
              | None => None
              end
            else Some (r_oid r, p)
        end
  end.

Definition build_algid (a : algid) : option dv :=
  match d_oid (fst a) with
  | Some o => Some (seq (o :: match snd a with Some p => [p] | None => [] end))
  | None => None
  end.

Definition read_algid (d : dv) : option algid :=
  match d with
  | Cons 0 16 (Prim 0 6 b :: r) =>
      match dec_oid b with
      | Some o => Some (o, match r with p :: _ => Some p | [] => None end)
      | None => None
      end
  | _ => None
  end.

Definition null_bytes : bytes := [5; 0].
Definition params_are_null (p : option dv) : bool :=
  match p with Some d => bytes_eqb (emit d) null_bytes | None => false end.

(* the PSS branch of GetSignatureAlgorithmFromAI; 0 = UnknownSignatureAlgorithm *)
Definition pss_algo (params : option dv) : N :=
  match params with
  | Some (Cons 0 16 (Cons 2 0 [h] :: Cons 2 1 [m] :: Cons 2 2 [Prim 0 2 salt] :: tr)) =>
      match read_algid h, read_algid m, dec_int64 salt with
      | Some (ho, hp), Some (mo, Some mp), Some s =>
          match read_algid mp with
          | Some (m1o, m1p) =>
              let trailer_ok :=
                match tr with
                | [] => true
                | Cons 2 3 [Prim 0 2 t] :: _ =>
                    match dec_int64 t with Some 1%Z => true | _ => false end
                | _ => false
                end in
              if params_are_null hp && oid_eqb mo oid_mgf1 && oid_eqb m1o ho
                 && params_are_null m1p && trailer_ok
              then
                let '(a256, a384, a512) := pss_algos in
                if oid_eqb ho oid_sha256 && (s =? 32)%Z then a256
                else if oid_eqb ho oid_sha384 && (s =? 48)%Z then a384
                else if oid_eqb ho oid_sha512 && (s =? 64)%Z then a512
                else 0
              else 0
          | None => 0
          end
      | _, _, _ => 0
      end
  | _ => 0
  end.

(* GetSignatureAlgorithmFromAI *)
Definition sigalg_of (a : algid) : N :=
  if oid_eqb (fst a) oid_rsa_pss then pss_algo (snd a)
  else match find (fun r => oid_eqb (r_oid r) (fst a)) sigalg_table with
       | Some r => r_algo r
       | None => 0
       end.

(* ------------------------------------------------------------------ *)
(* templates                                                            *)
Record tmpl := mk_tmpl {
  t_serial : Z;
  t_sigalg : N;                      (* requested SignatureAlgorithm, 0 = default *)
  t_nb : civil; t_na : civil;        (* NotBefore / NotAfter in UTC *)
  t_subject : name;
  t_ku : N;
  t_eku : list N; t_ueku : list oid;
  t_bcvalid : bool; t_isca : bool; t_mpl : Z; t_mplzero : bool;
  t_ski : bytes; t_aki : bytes;
  t_ocsp : list bytes; t_issuing : list bytes;
  t_dns : list bytes; t_emails : list bytes; t_ips : list bytes;
  t_policies : list oid;
  t_nc_crit : bool; t_perm : ncset; t_excl : ncset;
  t_crldp : list bytes;
  t_extra : list ext
}.

Definition nonempty {A} (l : list A) : bool := match l with [] => false | _ => true end.

(* one generated extension: present iff [cond] and no ExtraExtension has the OID *)
Definition gen_ext (t : tmpl) (cond : bool) (id : oid) (crit : bool) (v : option dv)
  : option (list ext) :=
  if cond && negb (oid_in_exts id (t_extra t)) then
    match v with
    | Some d => Some [(id, crit, emit d)]
    | None => None
    end
  else Some [].

Fixpoint oconcat {A} (l : list (option (list A))) : option (list A) :=
  match l with
  | [] => Some []
  | Some x :: r => match oconcat r with Some y => Some (x ++ y) | None => None end
  | None :: _ => None
  end.

(* buildExtensions, in its order *)
Definition build_extensions (t : tmpl) : option (list ext) :=
  match oconcat
    [ gen_ext t (negb (t_ku t =? 0)) oid_ku true (Some (build_ku (t_ku t)));
      gen_ext t (nonempty (t_eku t) || nonempty (t_ueku t)) oid_eku false (build_eku (t_eku t) (t_ueku t));
      gen_ext t (t_bcvalid t) oid_bc true (Some (build_bc (t_isca t) (t_mpl t) (t_mplzero t)));
      gen_ext t (nonempty (t_ski t)) oid_ski false (Some (build_ski (t_ski t)));
      gen_ext t (nonempty (t_aki t)) oid_aki false (Some (build_aki (t_aki t)));
      gen_ext t (nonempty (t_ocsp t) || nonempty (t_issuing t)) oid_aia false (build_aia (t_ocsp t) (t_issuing t));
      gen_ext t (nonempty (t_dns t) || nonempty (t_emails t) || nonempty (t_ips t)) oid_san false
              (Some (build_san (t_dns t) (t_emails t) (t_ips t)));
      gen_ext t (nonempty (t_policies t)) oid_policies false (build_policies (t_policies t));
      gen_ext t (negb (nc_empty (t_perm t)) || negb (nc_empty (t_excl t))) oid_nc (t_nc_crit t)
              (build_nc (t_perm t) (t_excl t));
      gen_ext t (nonempty (t_crldp t)) oid_crldp false (Some (build_crldp (t_crldp t))) ] with
  | Some l => Some (l ++ t_extra t)
  | None => None
  end.

Definition build_time (c : civil) : option dv :=
  match enc_time c with
  | Some (tag, bs) => Some (Prim 0 tag bs)
  | None => None
  end.

(* inputs of CreateCertificate besides the template: signer key kind, issuer
   name (parent subject), subject public key info (opaque, already DER) *)
Record input := mk_input { i_key : keykind; i_issuer : name; i_spki : bytes; i_t : tmpl }.

Definition build_tbs (i : input) : option (dv * dv) :=      (* (tbs, outer algorithm identifier) *)
  let t := i_t i in
  match signing_alg (i_key i) (t_sigalg t) with
  | None => None
  | Some alg =>
      match build_algid alg, parse_all (i_spki i), build_name (i_issuer i), build_name (t_subject t),
            build_extensions t, build_time (t_nb t), build_time (t_na t) with
      | Some a, Some spki, Some iss, Some sub, Some exts, Some nb, Some na =>
          match omap build_ext exts with
          | Some es =>
              Some (seq [Cons 2 0 [d_int 2]; d_int (t_serial t); a; iss; seq [nb; na]; sub; spki;
                         Cons 2 3 [seq es]], a)
          | None => None
          end
      | _, _, _, _, _, _, _ => None
      end
  end.

Definition build_cert (i : input) (sig : bytes) : option bytes :=
  match build_tbs i with
  | Some (tbs, a) => Some (emit (seq [tbs; a; Prim 0 3 (0 :: sig)]))
  | None => None
  end.

(* ------------------------------------------------------------------ *)
(* parsed fields                                                        *)
Record fields := mk_fields {
  f_version : Z;
  f_serial : Z;
  f_sigalg : N;
  f_issuer : name; f_subject : name;
  f_nb : civil; f_na : civil;
  f_ku : N;
  f_eku : list N; f_ueku : list oid;
  f_bcvalid : bool; f_isca : bool; f_mpl : Z; f_mplzero : bool;
  f_ski : bytes; f_aki : bytes;
  f_ocsp : list bytes; f_issuing : list bytes;
  f_dns : list bytes; f_emails : list bytes; f_ips : list bytes;
  f_policies : list oid;
  f_nc_crit : bool; f_perm : ncset; f_excl : ncset;
  f_crldp : list bytes;
  f_exts : list ext
}.

Definition ncset_app (a b : ncset) : ncset :=
  {| nc_email := nc_email a ++ nc_email b; nc_dns := nc_dns a ++ nc_dns b;
     nc_dir := nc_dir a ++ nc_dir b; nc_ip := nc_ip a ++ nc_ip b |}.

(* the extension-dependent part of the parser's state *)
Record xstate := mk_x {
  x_ku : N; x_eku : list N; x_ueku : list oid;
  x_bcvalid : bool; x_isca : bool; x_mpl : Z; x_mplzero : bool;
  x_ski : bytes; x_aki : bytes; x_ocsp : list bytes; x_issuing : list bytes;
  x_dns : list bytes; x_emails : list bytes; x_ips : list bytes;
  x_policies : list oid; x_nc_crit : bool; x_perm : ncset; x_excl : ncset;
  x_crldp : list bytes
}.

Definition x0 : xstate :=
  {| x_ku := 0; x_eku := []; x_ueku := []; x_bcvalid := false; x_isca := false; x_mpl := 0%Z;
     x_mplzero := false; x_ski := []; x_aki := []; x_ocsp := []; x_issuing := [];
     x_dns := []; x_emails := []; x_ips := []; x_policies := []; x_nc_crit := false;
     x_perm := ncset_nil; x_excl := ncset_nil; x_crldp := [] |}.

(* asn1.Unmarshal(e.Value, &v): first element, trailing bytes ignored *)
Definition first_elem (bs : bytes) : option dv :=
  match parse bs with Some (d, _) => Some d | None => None end.

(* one iteration of the extension loop of parseCertificate; None = the whole
   parse fails *)
Definition step_ext (x : xstate) (e : ext) : option xstate :=
  let id := ext_id e in
  let v := first_elem (ext_val e) in
  if oid_eqb id oid_ku then
    match obind v read_ku with
    | Some ku => Some (mk_x ku (x_eku x) (x_ueku x) (x_bcvalid x) (x_isca x) (x_mpl x) (x_mplzero x)
                        (x_ski x) (x_aki x) (x_ocsp x) (x_issuing x) (x_dns x) (x_emails x) (x_ips x)
                        (x_policies x) (x_nc_crit x) (x_perm x) (x_excl x) (x_crldp x))
    | None => None
    end
  else if oid_eqb id oid_bc then
    match obind v read_bc with
    | Some (ca, m) => Some (mk_x (x_ku x) (x_eku x) (x_ueku x) true ca m (m =? 0)%Z
                        (x_ski x) (x_aki x) (x_ocsp x) (x_issuing x) (x_dns x) (x_emails x) (x_ips x)
                        (x_policies x) (x_nc_crit x) (x_perm x) (x_excl x) (x_crldp x))
    | None => None
    end
  else if oid_eqb id oid_san then
    match obind v read_san with
    | Some (d, em, ip) => Some (mk_x (x_ku x) (x_eku x) (x_ueku x) (x_bcvalid x) (x_isca x) (x_mpl x) (x_mplzero x)
                        (x_ski x) (x_aki x) (x_ocsp x) (x_issuing x) d em ip
                        (x_policies x) (x_nc_crit x) (x_perm x) (x_excl x) (x_crldp x))
    | None => None
    end
  else if oid_eqb id oid_nc then
    match obind v read_nc with
    | Some (p, ex) => Some (mk_x (x_ku x) (x_eku x) (x_ueku x) (x_bcvalid x) (x_isca x) (x_mpl x) (x_mplzero x)
                        (x_ski x) (x_aki x) (x_ocsp x) (x_issuing x) (x_dns x) (x_emails x) (x_ips x)
                        (x_policies x) (x_nc_crit x || ext_crit e) (ncset_app (x_perm x) p) (ncset_app (x_excl x) ex)
                        (x_crldp x))
    | None => None
    end
  else if oid_eqb id oid_crldp then
    match obind v read_crldp with
    | Some l => Some (mk_x (x_ku x) (x_eku x) (x_ueku x) (x_bcvalid x) (x_isca x) (x_mpl x) (x_mplzero x)
                        (x_ski x) (x_aki x) (x_ocsp x) (x_issuing x) (x_dns x) (x_emails x) (x_ips x)
                        (x_policies x) (x_nc_crit x) (x_perm x) (x_excl x) (x_crldp x ++ l))
    | None => None
    end
  else if oid_eqb id oid_aki then
    match obind v read_aki with
    | Some a => Some (mk_x (x_ku x) (x_eku x) (x_ueku x) (x_bcvalid x) (x_isca x) (x_mpl x) (x_mplzero x)
                        (x_ski x) a (x_ocsp x) (x_issuing x) (x_dns x) (x_emails x) (x_ips x)
                        (x_policies x) (x_nc_crit x) (x_perm x) (x_excl x) (x_crldp x))
    | None => None
    end
  else if oid_eqb id oid_eku then
    match obind v read_eku with
    | Some (k, u) => Some (mk_x (x_ku x) (x_eku x ++ k) (x_ueku x ++ u) (x_bcvalid x) (x_isca x) (x_mpl x) (x_mplzero x)
                        (x_ski x) (x_aki x) (x_ocsp x) (x_issuing x) (x_dns x) (x_emails x) (x_ips x)
                        (x_policies x) (x_nc_crit x) (x_perm x) (x_excl x) (x_crldp x))
    | None => None
    end
  else if oid_eqb id oid_ski then
    match obind v read_ski with
    | Some s => Some (mk_x (x_ku x) (x_eku x) (x_ueku x) (x_bcvalid x) (x_isca x) (x_mpl x) (x_mplzero x)
                        s (x_aki x) (x_ocsp x) (x_issuing x) (x_dns x) (x_emails x) (x_ips x)
                        (x_policies x) (x_nc_crit x) (x_perm x) (x_excl x) (x_crldp x))
    | None => None
    end
  else if oid_eqb id oid_policies then
    match obind v read_policies with
    | Some ps => Some (mk_x (x_ku x) (x_eku x) (x_ueku x) (x_bcvalid x) (x_isca x) (x_mpl x) (x_mplzero x)
                        (x_ski x) (x_aki x) (x_ocsp x) (x_issuing x) (x_dns x) (x_emails x) (x_ips x)
                        ps (x_nc_crit x) (x_perm x) (x_excl x) (x_crldp x))
    | None => None
    end
  else if oid_eqb id oid_aia then
    match obind v read_aia with
    | Some (o, i) => Some (mk_x (x_ku x) (x_eku x) (x_ueku x) (x_bcvalid x) (x_isca x) (x_mpl x) (x_mplzero x)
                        (x_ski x) (x_aki x) (x_ocsp x ++ o) (x_issuing x ++ i) (x_dns x) (x_emails x) (x_ips x)
                        (x_policies x) (x_nc_crit x) (x_perm x) (x_excl x) (x_crldp x))
    | None => None
    end
  else Some x.

Fixpoint run_exts (x : xstate) (l : list ext) : option xstate :=
  match l with
  | [] => Some x
  | e :: r => match step_ext x e with Some x' => run_exts x' r | None => None end
  end.

Definition read_ext (d : dv) : option ext :=
  match d with
  | Cons 0 16 (Prim 0 6 ib :: Prim 0 1 cb :: Prim 0 4 v :: _) =>
      match dec_oid ib, dec_bool cb with
      | Some id, Some c => Some (id, c, v)
      | _, _ => None
      end
  | Cons 0 16 (Prim 0 6 ib :: Prim 0 4 v :: _) =>
      match dec_oid ib with
      | Some id => Some (id, false, v)
      | None => None
      end
  | _ => None
  end.

Definition read_time (d : dv) : option civil :=
  match d with Prim 0 t b => dec_time t b | _ => None end.

(* tbsCertificate: optional [0] version, serial, algorithm, issuer, validity,
   subject, spki, optional [1] [2] unique ids, optional [3] extensions *)
Definition read_tbs (d : dv) : option fields :=
  match d with
  | Cons 0 16 kids =>
      let '(ver, k1) := match kids with
                        | Cons 2 0 [Prim 0 2 v] :: r => (dec_int64 v, r)
                        | Cons 2 0 _ :: r => (None, r)
                        | _ => (Some 0%Z, kids)
                        end in
      match ver, k1 with
      | Some ver, Prim 0 2 ser :: alg :: iss :: Cons 0 16 (nb :: na :: _) :: sub :: Cons 0 16 (_ :: Prim 0 3 _ :: _) :: k2 =>
          let k3 := match k2 with Prim 2 1 _ :: r => r | _ => k2 end in
          let k4 := match k3 with Prim 2 2 _ :: r => r | _ => k3 end in
          let exts := match k4 with
                      | Cons 2 3 [Cons 0 16 es] :: _ => omap read_ext es
                      | Cons 2 3 _ :: _ => None
                      | _ => Some []
                      end in
          match dec_int ser, read_algid alg, read_name iss, read_name sub, read_time nb, read_time na, exts with
          | Some serial, Some a, Some issuer, Some subject, Some tnb, Some tna, Some es =>
              match run_exts x0 es with
              | Some x =>
                  Some (mk_fields (ver + 1)%Z serial (sigalg_of a) issuer subject tnb tna
                          (x_ku x) (x_eku x) (x_ueku x) (x_bcvalid x) (x_isca x) (x_mpl x) (x_mplzero x)
                          (x_ski x) (x_aki x) (x_ocsp x) (x_issuing x) (x_dns x) (x_emails x) (x_ips x)
                          (x_policies x) (x_nc_crit x) (x_perm x) (x_excl x) (x_crldp x) es)
              | None => None
              end
          | _, _, _, _, _, _, _ => None
          end
      | _, _ => None
      end
  | _ => None
  end.

(* ParseCertificate: one SEQUENCE { tbs, algorithm, BIT STRING }, no trailing data *)
Definition parse_cert (bs : bytes) : option fields :=
  match parse_all bs with
  | Some (Cons 0 16 (tbs :: Cons 0 16 _ :: Prim 0 3 _ :: _)) => read_tbs tbs
  | _ => None
  end.

(* ------------------------------------------------------------------ *)
(* correspondence                                                       *)
Definition fields_eqb (a b : fields) : bool :=
  (f_version a =? f_version b)%Z && (f_serial a =? f_serial b)%Z && (f_sigalg a =? f_sigalg b) &&
  name_eqb (f_issuer a) (f_issuer b) && name_eqb (f_subject a) (f_subject b) &&
  civil_eqb (f_nb a) (f_nb b) && civil_eqb (f_na a) (f_na b) &&
  (f_ku a =? f_ku b) && list_eqb N.eqb (f_eku a) (f_eku b) && list_eqb oid_eqb (f_ueku a) (f_ueku b) &&
  Bool.eqb (f_bcvalid a) (f_bcvalid b) && Bool.eqb (f_isca a) (f_isca b) && (f_mpl a =? f_mpl b)%Z &&
  Bool.eqb (f_mplzero a) (f_mplzero b) &&
  bytes_eqb (f_ski a) (f_ski b) && bytes_eqb (f_aki a) (f_aki b) &&
  list_eqb bytes_eqb (f_ocsp a) (f_ocsp b) && list_eqb bytes_eqb (f_issuing a) (f_issuing b) &&
  list_eqb bytes_eqb (f_dns a) (f_dns b) && list_eqb bytes_eqb (f_emails a) (f_emails b) &&
  list_eqb bytes_eqb (f_ips a) (f_ips b) && list_eqb oid_eqb (f_policies a) (f_policies b) &&
  Bool.eqb (f_nc_crit a) (f_nc_crit b) && ncset_eqb (f_perm a) (f_perm b) && ncset_eqb (f_excl a) (f_excl b) &&
  list_eqb bytes_eqb (f_crldp a) (f_crldp b) && list_eqb ext_eqb (f_exts a) (f_exts b).

(* (inputs, what the implementation did):
   created = Some (signature length, digest of the certificate DER with the
   signature bytes zeroed), or None when CreateCertificate returned an error;
   parsed = the fields ParseCertificate reported, None when it failed.
   The model rebuilds the certificate (with a zero signature of that length),
   compares digests, and parses its own bytes. *)
Definition case := (input * option (N * (N * N * N)) * option fields)%type.

Definition check_case (c : case) : bool :=
  let '(i, created, parsed) := c in
  match created with
  | None => match build_tbs i with None => true | Some _ => false end
  | Some (siglen, dg) =>
      match build_cert i (repeat 0 (N.to_nat siglen)) with
      | Some bs => digest_eqb (digest bs) dg && option_eqb fields_eqb (parse_cert bs) parsed
      | None => false
      end
  end.
