(* C01Pss.v — the index arithmetic of rsa/pss.go emsaPSSVerify (RFC 8017 section 9.1.2) with
   checked slices.  Hash values are abstract: [db_after] is what mgf1XOR and the top-bit
   mask leave in DB (any bytes of the same length), [h_ok] is the outcome of H = H'.
   [moved] = true is the variant in which the resolution of PSSSaltLengthEqualsHash
   happens next to the PSSSaltLengthAuto case instead of at the top (a seeded change
   that the oracle missed at first). *)
From Coq Require Import List NArith ZArith Bool.
From VerifModel Require Import C01Prim.
Import ListNotations.
Local Open Scope Z_scope.

Definition zlen {A} (l : list A) : Z := Z.of_nat (length l).
(* l[i] and l[i:j] with Go ints *)
Definition zidx {A} (l : list A) (i : Z) : res A :=
  if (0 <=? i) && (i <? zlen l) then idx l (Z.to_nat i) else Panic.
Definition zslice {A} (l : list A) (i j : Z) : res (list A) :=
  if (0 <=? i) && (i <=? j) && (j <=? zlen l) then slice l (Z.to_nat i) (Z.to_nat j) else Panic.

Fixpoint index_of (b : N) (l : list N) (i : Z) : option Z :=
  match l with
  | [] => None
  | x :: r => if N.eqb x b then Some i else index_of b r (i + 1)
  end.

Definition salt_equals_hash : Z := -1.
Definition salt_auto : Z := 0.

Definition pss_verify (moved : bool) (hLen mLen : Z) (em : list N) (emBits : Z) (sLen0 : Z)
                      (db_after : list N) (h_ok : bool) : res unit :=
  let sLen := if negb moved && (sLen0 =? salt_equals_hash) then hLen else sLen0 in
  let emLen := (emBits + 7) / 8 in
  if negb (emLen =? zlen em) then Err                         (* inconsistent length *)
  else if negb (hLen =? mLen) then Err                        (* step 2 *)
  else if emLen <? hLen + sLen + 2 then Err                   (* step 3 *)
  else
    last <- zidx em (emLen - 1) ;;
    if negb (N.eqb last 188) then Err                         (* step 4: 0xbc *)
    else
      db <- zslice em 0 (emLen - hLen - 1) ;;                 (* step 5 *)
      _h <- zslice em (emLen - hLen - 1) (emLen - 1) ;;
      first <- zidx em 0 ;;
      let bit_mask := N.shiftr 255 (Z.to_N (8 * emLen - emBits)) in
      if negb (N.eqb (N.land first (255 - bit_mask)) 0) then Err   (* step 6 *)
      else
        _d0 <- zidx db 0 ;;                                   (* db[0] &= bitMask *)
        let db := db_after in
        r <- (if sLen =? salt_auto then
                match index_of 1 db 0 with
                | None => Err
                | Some ps => Ok (zlen db - ps - 1)
                end
              else if moved && (sLen =? salt_equals_hash) then Ok hLen
              else Ok sLen) ;;
        let sLen := r in
        let psLen := emLen - hLen - sLen - 2 in               (* step 10 *)
        zeros <- zslice db 0 psLen ;;
        if negb (forallb (N.eqb 0) zeros) then Err
        else
          d <- zidx db psLen ;;
          if negb (N.eqb d 1) then Err
          else
            _salt <- zslice db (zlen db - sLen) (zlen db) ;;  (* step 11 *)
            if h_ok then Ok tt else Err.

(* vcase: (hLen, mLen, EM, emBits, salt option, DB after unmasking, H = H', class of rsa.VerifyPSS) *)
Definition vcase := (Z * Z * list N * Z * Z * list N * bool * N)%type.
Definition check_vcase (c : vcase) : bool :=
  let '(hLen, mLen, em, emBits, sLen0, db_after, h_ok, cl) := c in
  N.eqb (class (pss_verify false hLen mLen em emBits sLen0 db_after h_ok)) cl.
