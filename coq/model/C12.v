(* C12 — model of verifier/verifier.go: Verifier.VerifyWithContext (OCSP/CRL network
   checks off) with x509.FilterByDate and parentsFromChains, on the walk model
   of C11.  Executable only.

   Times are seconds (Z) relative to a base; only comparisons and "minus one
   second" are used.  The hostname check (C09) and the two revocation-set
   lookups (C15) are inputs: [name] = None when VerificationOptions.Name is
   empty, Some ok otherwise (ok = c.VerifyHostname(name) == nil);
   [onecrl] = None for a nil OneCRL, Some b for OneCRL.Check(c) != nil;
   [crlset] = None for a nil CRLSet, Some ks with ks the SPKI identifiers k for
   which CRLSet.Check(c, hex(SHA-256(k))) != nil. *)
From Coq Require Import List NArith ZArith Bool Arith.
From Verif Require Import Harness.
From VerifModel Require Export C11.
Import ListNotations.

Definition chain := list cert.

(* later / earlier folded over the chain, starting from the leaf *)
Definition lower_bound (leaf : cert) (rest : chain) : Z :=
  fold_left (fun lo c => if (lo <? c_nb c)%Z then c_nb c else lo) rest (c_nb leaf).
Definition upper_bound (leaf : cert) (rest : chain) : Z :=
  fold_left (fun hi c => if (c_na c <? hi)%Z then c_na c else hi) rest (c_na leaf).

(* x509.FilterByDate: (current, expired, never); the Go code panics on valid && !wasValid: [None] *)
Fixpoint filter_by_date (chains : list chain) (now : Z) : option (list chain * list chain * list chain) :=
  match chains with
  | [] => Some ([], [], [])
  | ch :: r =>
      match filter_by_date r now with
      | None => None
      | Some (cur, ex, nev) =>
          match ch with
          | [] => Some (cur, ex, nev)
          | leaf :: rest =>
              let lo := lower_bound leaf rest in
              let hi := upper_bound leaf rest in
              let valid := (lo <? now)%Z && (now <? hi)%Z in
              let was := (lo <? hi)%Z in
              if valid && negb was then None
              else if valid then Some (ch :: cur, ex, nev)
              else if was then Some (cur, ch :: ex, nev)
              else Some (cur, ex, ch :: nev)
          end
      end
  end.

(* parentsFromChains: the distinct (by fingerprint) second certificates *)
Fixpoint parents_from_chains (chains : list chain) : list cert :=
  match chains with
  | [] => []
  | ch :: r =>
      let ps := parents_from_chains r in
      match ch with
      | _ :: p :: _ => if existsb (fun q => N.eqb (c_fp q) (c_fp p)) ps then ps else p :: ps
      | _ => ps
      end
  end.

Record vres := mkRes {
  r_expired : bool;
  r_current : list chain;
  r_expiredc : list chain;
  r_never : list chain;
  r_vae : list chain;          (* ValidAtExpirationChains *)
  r_parents : list cert;
  r_inrev : bool;              (* InRevocationSet *)
  r_type : N;                  (* 0 unknown, 1 leaf, 2 intermediate, 3 root *)
  r_name_error : bool          (* NameError != nil *)
}.

Definition time_in_validity (c : cert) (t : Z) : bool := (c_nb c <? t)%Z && (t <? c_na c)%Z.

Definition verify (g : graph) (c : cert) (t : Z) (name : option bool)
           (onecrl : option bool) (crlset : option (list N)) : option vres :=
  let expired := negb (time_in_validity c t) in
  match filter_by_date (walk g c) t with
  | None => None
  | Some (cur, ex, nev) =>
      match filter_by_date (cur ++ ex ++ nev) (c_na c - 1)%Z with
      | None => None
      | Some (vae, _, _) =>
          let parents := if expired then parents_from_chains vae else parents_from_chains cur in
          let in1 := match onecrl with Some true => true | _ => false end in
          let in2 := if in1 then true else
                       match crlset with
                       | Some ks => existsb (fun p => memN (c_key p) ks) parents
                       | None => false
                       end in
          let ty := if is_root g c then 3%N
                    else if c_ca c && negb (Nat.eqb (length parents) 0) then 2%N
                    else if negb (Nat.eqb (length parents) 0) then 1%N
                    else 0%N in
          Some (mkRes expired cur ex nev vae parents in2 ty
                      (match name with Some ok => negb ok | None => false end))
      end
  end.

(* ---- correspondence case ---- *)
(* observation of one Verify call: start index, time, name, onecrl, crlset, and the result:
   expired, the four chain lists (fingerprint lists), parents (fingerprints), in-revocation-set,
   type, name error, and the (subject, key) of ParentSPKISubjectFingerprint (None when no parent) *)
Definition vobs := (nat * Z * option bool * option bool * option (list N) *
                    (bool * list (list N) * list (list N) * list (list N) * list (list N) *
                     list N * bool * N * bool * option node))%type.
Definition case := (list cert * list uop * list vobs)%type.

Definition fps (l : list chain) : list N := chains_code (map (map c_fp) l).

Definition check_verify (u : list cert) (g : graph) (o : vobs) : bool :=
  let '(i, t, name, onecrl, crlset, (ex, cur, exc, nev, vae, par, inrev, ty, nerr, pnode)) := o in
  match nth_error u i with
  | None => false
  | Some c =>
      match verify g c t name onecrl crlset with
      | None => false
      | Some r =>
          Bool.eqb (r_expired r) ex &&
          list_eqb N.eqb (fps (r_current r)) (chains_code cur) &&
          list_eqb N.eqb (fps (r_expiredc r)) (chains_code exc) &&
          list_eqb N.eqb (fps (r_never r)) (chains_code nev) &&
          list_eqb N.eqb (fps (r_vae r)) (chains_code vae) &&
          list_eqb N.eqb (sortN (map c_fp (r_parents r))) (sortN par) &&
          Bool.eqb (r_inrev r) inrev && N.eqb (r_type r) ty && Bool.eqb (r_name_error r) nerr &&
          option_eqb node_eqb (match r_parents r with p :: _ => Some (node_of p) | [] => None end) pnode
      end
  end.

Definition check_case (c : case) : bool :=
  let '(u, l, os) := c in
  match ops_of u l with
  | Some ops =>
      match run empty_graph ops with
      | Some g => forallb (check_verify u g) os
      | None => false
      end
  | None => false
  end.
