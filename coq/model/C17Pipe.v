(* C17 — the concurrent structure of Scan as a transition system: the main
   goroutine sends the ranges into the (bounded) channel [fetches]; F fetcher
   goroutines take a range each, run the retry loop of fetcherJob one request
   at a time and push what they got, entry by entry, into the (bounded)
   channel [jobs]; M matcher goroutines take entries and process them.
   Any interleaving of these steps is a run.  Definitions only.

   A range carries the finite list of answers the server will give to its
   successive requests before it starts answering completely (the property's
   premise "transient errors").  processEntry is one atomic step: its only
   shared effects are atomic counter increments (C17 counters_race_free) and
   the callbacks. *)
From Coq Require Import List NArith Bool Arith.
From Verif Require Import Harness.
From VerifModel Require Import C17.
Import ListNotations.
Open Scope N_scope.

Record rangeT := mkRange { r_lo : N; r_hi : N; r_ans : list answer }.

Inductive fstate :=
| FIdle
| FBusy (lo hi : N) (ans : list answer) (pending : list item).

Record pstate := mkP {
  unsent : list rangeT;     (* Scan's list, not yet sent *)
  fetchq : list rangeT;     (* channel fetches *)
  fetchers : list fstate;
  jobs : list item;         (* channel jobs *)
  delivered : list item }.  (* entries handed to processEntry, most recent first *)

(* one GetEntries call of a fetcher whose pending list is empty and lo <= hi *)
Definition request (lo hi : N) (ans : list answer) : fstate :=
  match ans with
  | [] => let resp := serve lo hi (hi + 1 - lo) in
          FBusy (lo + N.of_nat (length resp)) hi [] (label_entries lo resp)
  | AErr :: a => FBusy lo hi a []
  | APrefix k :: a => let resp := serve lo hi k in
                      FBusy (lo + N.of_nat (length resp)) hi a (label_entries lo resp)
  end.

Fixpoint set_at {A} (l : list A) (i : nat) (x : A) : list A :=
  match l, i with
  | [], _ => []
  | _ :: r, O => x :: r
  | y :: r, S i' => y :: set_at r i' x
  end.

Section Pipe.
  Variables (capF capJ M : nat).

  Inductive pstep : pstate -> pstate -> Prop :=
  | p_send r u q fs j d :
      (length q < capF)%nat ->
      pstep (mkP (r :: u) q fs j d) (mkP u (q ++ [r]) fs j d)
  | p_take i r u q fs j d :
      nth_error fs i = Some FIdle ->
      pstep (mkP u (r :: q) fs j d) (mkP u q (set_at fs i (FBusy (r_lo r) (r_hi r) (r_ans r) [])) j d)
  | p_request i lo hi ans u q fs j d :
      nth_error fs i = Some (FBusy lo hi ans []) -> lo <= hi ->
      pstep (mkP u q fs j d) (mkP u q (set_at fs i (request lo hi ans)) j d)
  | p_push i lo hi ans x p u q fs j d :
      nth_error fs i = Some (FBusy lo hi ans (x :: p)) -> (length j < capJ)%nat ->
      pstep (mkP u q fs j d) (mkP u q (set_at fs i (FBusy lo hi ans p)) (j ++ [x]) d)
  | p_done i lo hi ans u q fs j d :
      nth_error fs i = Some (FBusy lo hi ans []) -> hi < lo ->
      pstep (mkP u q fs j d) (mkP u q (set_at fs i FIdle) j d)
  | p_match x u q fs j d :
      (0 < M)%nat ->
      pstep (mkP u q fs (x :: j) d) (mkP u q fs j (x :: d)).

  Inductive preach (s0 : pstate) : pstate -> Prop :=
  | preach_refl : preach s0 s0
  | preach_step s s' : preach s0 s -> pstep s s' -> preach s0 s'.

  Definition terminal (s : pstate) : Prop := forall s', ~ pstep s s'.
End Pipe.

Definition mk_ranges (start stop batch : N) (script : list (list answer)) : list rangeT :=
  map (fun '(r, a) => mkRange (fst r) (snd r) a) (zip_script (ranges start stop batch) script).

Definition pinit (F : nat) (start stop batch : N) (script : list (list answer)) : pstate :=
  mkP (mk_ranges start stop batch script) [] (repeat FIdle F) [] [].

(* what Scan returns: StartIndex + certsProcessed *)
Definition pret (start : N) (s : pstate) : N := start + N.of_nat (length (delivered s)).

Close Scope N_scope.
Open Scope nat_scope.
(* termination measure *)
Definition rlen (lo hi : N) : nat := N.to_nat (hi + 1 - lo)%N.
Definition range_weight (r : rangeT) : nat := 3 * rlen (r_lo r) (r_hi r) + length (r_ans r).
Definition fweight (f : fstate) : nat :=
  match f with
  | FIdle => 0
  | FBusy lo hi ans p => 3 * rlen lo hi + length ans + 2 * length p + 2
  end.
Definition sum (l : list nat) : nat := fold_right Nat.add 0 l.
Definition measure (s : pstate) : nat :=
  sum (map (fun r => range_weight r + 4) (unsent s))
  + sum (map (fun r => range_weight r + 3) (fetchq s))
  + sum (map fweight (fetchers s))
  + length (jobs s).
