(* C06 — executable model of the metadata /repo/x509/x509.go derives from the DER
   bytes of a certificate: ParseCertificate (asn1.Unmarshal into the structs
   [certificate] / [tbsCertificate], strict mode) followed by the head of
   parseCertificate: Raw* slices, fingerprints, Version, SelfSigned and the
   no-CT fingerprint (re-marshal of the TBS with Raw = nil and the CT poison /
   SCT-list extensions removed).  Definitions only.

   The walk over the TBS fields mirrors parseField field by field (optional
   EXPLICIT [0] version with default, RawValue issuer/subject, RawContent SPKI,
   optional IMPLICIT [1]/[2] bit strings, optional EXPLICIT [3] extensions);
   the inner structure of AlgorithmIdentifier, Validity, SubjectPublicKeyInfo
   and of the extension values is not parsed, so [meta bs = Some _] is a
   necessary condition for Go to accept [bs], not a sufficient one.
   Hash functions and the signature check are parameters. *)
From Coq Require Import List NArith ZArith Bool Arith.
From Verif Require Import Harness.
From VerifModel Require Import C22Tlv.
Import ListNotations.
Open Scope N_scope.

Definition hdr_is (t : tl) (cls : N) (comp : bool) (tag : N) : bool :=
  (t_class t =? cls) && Bool.eqb (t_comp t) comp && (t_tag t =? tag).

(* one element: header, content, raw bytes (header ++ content), rest *)
Definition next (bs : bytes) : option (tl * bytes * bytes * bytes) :=
  match take_tlv bs with
  | Some (t, c, rest) => Some (t, c, raw_prefix bs rest, rest)
  | None => None
  end.

(* checkInteger (strict): non-empty, minimal two's complement *)
Definition int_ok (c : bytes) : bool :=
  match c with
  | [] => false
  | [_] => true
  | a :: b :: _ => negb (((a =? 0) && (b <? 128)) || ((a =? 255) && (128 <=? b)))
  end.
Definition be_val (c : bytes) : N := fold_left (fun a b => a * 256 + b) c 0.
(* parseInt64 *)
Definition int64_val (c : bytes) : option Z :=
  if int_ok c && (length c <=? 8)%nat then
    let u := Z.of_N (be_val c) in
    Some (if hd 0 c <? 128 then u else (u - 2 ^ (8 * Z.of_nat (length c)))%Z)
  else None.

(* parseBitString validity *)
Definition bits_ok (c : bytes) : bool :=
  match c with
  | [] => false
  | p :: r =>
      if 7 <? p then false
      else if (match r with [] => true | _ => false end) && (0 <? p) then false
      else (last c 0) mod (2 ^ p) =? 0
  end.

(* Version int `asn1:"optional,explicit,default:0,tag:0"`:
   (raw bytes of the [0] element as Go delimits it, value, rest).  The inner
   INTEGER is read from the bytes after the wrapper header; the wrapper's own
   length is not compared with it (parseField does not). *)
Definition version_step (c : bytes) : option (bytes * Z * bytes) :=
  match parse_tl c with
  | None => None
  | Some (t, r) =>
      match r with
      | [] => None                                            (* explicit tag has no child *)
      | _ :: _ =>
          if hdr_is t 2 (t_comp t) 0 && ((t_len t =? 0) || t_comp t) then
            if t_len t =? 0 then None                          (* zero length explicit tag was not a Flag *)
            else match take_tlv r with
                 | None => None
                 | Some (t2, b2, rest) =>
                     if hdr_is t2 0 false 2 then
                       match int64_val b2 with
                       | Some v => Some (raw_prefix c rest, v, rest)
                       | None => None
                       end
                     else None   (* default taken, then SerialNumber fails on the [0] element *)
                 end
          else Some ([], 0%Z, c)
      end
  end.

(* optional IMPLICIT [tag] BIT STRING: (raw or [], rest) *)
Definition opt_bits (tag : N) (c : bytes) : option (bytes * bytes) :=
  match c with
  | [] => Some ([], c)
  | _ :: _ =>
      match parse_tl c with
      | None => None
      | Some (t, _) =>
          if hdr_is t 2 false tag then
            match next c with
            | Some (_, b, raw, rest) => if bits_ok b then Some (raw, rest) else None
            | None => None
            end
          else Some ([], c)
      end
  end.

(* raw elements of a SEQUENCE OF body, each with its header and content *)
Fixpoint split_raws (fuel : nat) (bs : bytes) : option (list (tl * bytes * bytes)) :=
  match bs with
  | [] => Some []
  | _ :: _ =>
      match fuel with
      | O => None
      | S f =>
          match next bs with
          | None => None
          | Some (t, c, raw, rest) =>
              match split_raws f rest with
              | None => None
              | Some l => Some ((t, c, raw) :: l)
              end
          end
      end
  end.

(* one extension: its raw bytes and its Id (first field, OBJECT IDENTIFIER) *)
Definition ext_id (content : bytes) : option oid :=
  match take_tlv content with
  | Some (t, b, _) => if hdr_is t 0 false 6 then parse_oid b else None
  | None => None
  end.

(* every element must be a SEQUENCE whose first field is an OBJECT IDENTIFIER *)
Fixpoint ext_ids (l : list (tl * bytes * bytes)) : option (list (oid * bytes)) :=
  match l with
  | [] => Some []
  | (te, ce, re) :: l' =>
      if hdr_is te 0 true 16 then
        match ext_id ce, ext_ids l' with
        | Some o, Some x => Some ((o, re) :: x)
        | _, _ => None
        end
      else None
  end.

(* Extensions []pkix.Extension `asn1:"optional,explicit,tag:3"`: list of (Id, raw) *)
Definition ext_step (c : bytes) : option (list (oid * bytes)) :=
  match c with
  | [] => Some []
  | _ :: _ =>
      match parse_tl c with
      | None => None
      | Some (t, r) =>
          match r with
          | [] => None
          | _ :: _ =>
              if hdr_is t 2 (t_comp t) 3 && ((t_len t =? 0) || t_comp t) then
                if t_len t =? 0 then None
                else match parse_tl r with
                     | None => None
                     | Some (t2, r2) =>
                         if hdr_is t2 0 true 16 then
                           if N.of_nat (length r2) <? t_len t2 then None
                           else
                             let body := firstn (N.to_nat (t_len t2)) r2 in
                             match split_raws (length body) body with
                             | None => None
                             | Some es =>
                                 ext_ids es
                             end
                         else Some []       (* tags don't match: optional, rest of the struct ignored *)
                     end
              else Some []
          end
      end
  end.

Record tbs_parts := mkParts {
  p_version_raw : bytes; p_version : Z;
  p_serial_raw : bytes; p_sigalg_raw : bytes; p_issuer_raw : bytes; p_validity_raw : bytes;
  p_subject_raw : bytes; p_spki_raw : bytes; p_uid1_raw : bytes; p_uid2_raw : bytes;
  p_exts : list (oid * bytes) }.

(* the next n elements: (header, content, raw) each, and the rest *)
Fixpoint take_elems (n : nat) (c : bytes) : option (list (tl * bytes * bytes) * bytes) :=
  match n with
  | O => Some ([], c)
  | S n' =>
      match next c with
      | None => None
      | Some (t, b, raw, rest) =>
          match take_elems n' rest with
          | None => None
          | Some (l, r) => Some ((t, b, raw) :: l, r)
          end
      end
  end.

(* the fields of tbsCertificate in order, from the content of the TBS SEQUENCE:
   Version; then SerialNumber, SignatureAlgorithm, Issuer (RawValue: any element),
   Validity, Subject (RawValue), PublicKey; then the three optional fields *)
Definition parse_tbs (c : bytes) : option tbs_parts :=
  match version_step c with
  | None => None
  | Some (vraw, ver, c) =>
      match take_elems 6 c with
      | Some ([(t1, b1, serial); (t2, _, sigalg); (_, _, issuer); (t4, _, validity); (_, _, subject); (t6, _, spki)], c) =>
          if hdr_is t1 0 false 2 && int_ok b1 && hdr_is t2 0 true 16 && hdr_is t4 0 true 16 && hdr_is t6 0 true 16 then
            match opt_bits 1 c with
            | None => None
            | Some (uid1, c) =>
                match opt_bits 2 c with
                | None => None
                | Some (uid2, c) =>
                    match ext_step c with
                    | None => None
                    | Some exts =>
                        Some (mkParts vraw ver serial sigalg issuer validity subject spki uid1 uid2 exts)
                    end
                end
            end
          else None
      | _ => None
      end
  end.

Definition oid_ct_poison : oid := [1;3;6;1;4;1;11129;2;4;3].
Definition oid_ct_scts : oid := [1;3;6;1;4;1;11129;2;4;2].
Definition is_ct (e : oid * bytes) : bool :=
  oid_eqb (fst e) oid_ct_poison || oid_eqb (fst e) oid_ct_scts.

(* asn1.Marshal(tbs) with Raw = nil and the CT extensions filtered, for a TBS
   whose fields re-encode to their own bytes (canonical DER): version omitted
   when 0, every other field as parsed, and the extension list always present
   (the filtered slice is non-nil, so `optional` does not drop it). *)
Definition noct_tbs (p : tbs_parts) : bytes :=
  tlv 0 true 16
    ((if (p_version p =? 0)%Z then [] else p_version_raw p)
     ++ p_serial_raw p ++ p_sigalg_raw p ++ p_issuer_raw p ++ p_validity_raw p
     ++ p_subject_raw p ++ p_spki_raw p ++ p_uid1_raw p ++ p_uid2_raw p
     ++ tlv 2 true 3 (tlv 0 true 16 (concat (map snd (filter (fun e => negb (is_ct e)) (p_exts p)))))).

(* ---- ValidityPeriod = seconds(notAfter) - seconds(notBefore) ---- *)
(* days from 1970-01-01 of a proleptic Gregorian date *)
Definition days_from_civil (y m d : Z) : Z :=
  (let y' := if m <=? 2 then y - 1 else y in
   let era := y' / 400 in
   let yoe := y' - era * 400 in
   let mp := if m <=? 2 then m + 9 else m - 3 in
   let doy := (153 * mp + 2) / 5 + d - 1 in
   let doe := yoe * 365 + yoe / 4 - yoe / 100 + doy in
   era * 146097 + doe - 719468)%Z.
Definition is_leap (y : Z) : bool :=
  (((y mod 4 =? 0) && negb (y mod 100 =? 0)) || (y mod 400 =? 0))%Z.
Definition days_in_month (y m : Z) : Z :=
  (if m =? 2 then (if is_leap y then 29 else 28)
   else if (m =? 4) || (m =? 6) || (m =? 9) || (m =? 11) then 30 else 31)%Z.
Definition digit (b : N) : option Z :=
  if (48 <=? b) && (b <=? 57) then Some (Z.of_N b - 48)%Z else None.
Fixpoint digits (acc : Z) (l : bytes) : option Z :=
  match l with
  | [] => Some acc
  | b :: r => match digit b with Some d => digits (acc * 10 + d)%Z r | None => None end
  end.
(* seconds since the epoch for the canonical forms YYMMDDhhmmssZ (UTCTime, 1950-2049) and
   YYYYMMDDhhmmssZ (GeneralizedTime); None for any other form (not modelled) *)
Definition time_secs (tag : N) (c : bytes) : option Z :=
  let ylen := if tag =? 23 then 2%nat else 4%nat in
  if negb ((tag =? 23) || (tag =? 24)) then None
  else if negb (Nat.eqb (length c) (ylen + 11)) then None
  else
    let f (a n : nat) := digits 0%Z (firstn n (skipn a c)) in
    match f 0%nat ylen, f ylen 2%nat, f (ylen + 2)%nat 2%nat, f (ylen + 4)%nat 2%nat,
          f (ylen + 6)%nat 2%nat, f (ylen + 8)%nat 2%nat, nth_error c (ylen + 10) with
    | Some y0, Some mo, Some d, Some h, Some mi, Some s, Some z =>
        let y := if (tag =? 23)%N then (if y0 <? 50 then 2000 + y0 else 1900 + y0)%Z else y0 in
        if (z =? 90) && (1 <=? mo)%Z && (mo <=? 12)%Z && (1 <=? d)%Z && (d <=? days_in_month y mo)%Z
           && (h <? 24)%Z && (mi <? 60)%Z && (s <? 60)%Z
        then Some (days_from_civil y mo d * 86400 + h * 3600 + mi * 60 + s)%Z
        else None
    | _, _, _, _, _, _, _ => None
    end.
(* from the raw Validity element: SEQUENCE { notBefore, notAfter } *)
Definition validity_of (raw : bytes) : option Z :=
  match next raw with
  | Some (_, c, _, _) =>
      match take_elems 2 c with
      | Some ([(t1, c1, _); (t2, c2, _)], _) =>
          if negb (t_comp t1) && (t_class t1 =? 0) && negb (t_comp t2) && (t_class t2 =? 0) then
            match time_secs (t_tag t1) c1, time_secs (t_tag t2) c2 with
            | Some a, Some b => Some (b - a)%Z
            | _, _ => None
            end
          else None
      | _ => None
      end
  | None => None
  end.

Record meta := mkMeta {
  m_raw : bytes; m_raw_tbs : bytes; m_raw_issuer : bytes; m_raw_subject : bytes; m_raw_spki : bytes;
  m_version : Z; m_self_signed : bool;
  m_fp_md5 : bytes; m_fp_sha1 : bytes; m_fp_sha256 : bytes;
  m_fp_spki : bytes; m_fp_tbs : bytes; m_fp_noct : bytes; m_fp_spki_subject : bytes;
  m_validity : option Z }.   (* None: a time form the model does not cover *)

Section Meta.
  Variables md5 sha1 sha256 : bytes -> bytes.
  (* CheckSignature(SignatureAlgorithm, RawTBSCertificate, Signature) under the
     certificate's own public key returned nil *)
  Variable sigok : bytes -> bool.

  Definition cert_parts (bs : bytes) : option (bytes * tbs_parts) :=
    match take_tlv bs with
    | Some (t, c, []) =>
        if hdr_is t 0 true 16 then
          match next c with
          | Some (t1, c1, raw_tbs, _) =>
              if hdr_is t1 0 true 16 then
                match parse_tbs c1 with
                | Some p => Some (raw_tbs, p)
                | None => None
                end
              else None
          | None => None
          end
        else None
    | _ => None
    end.

  Definition meta_of (bs : bytes) : option meta :=
    match cert_parts bs with
    | Some (raw_tbs, p) =>
        Some (mkMeta bs raw_tbs (p_issuer_raw p) (p_subject_raw p) (p_spki_raw p)
                (p_version p + 1)%Z
                (bytes_eqb (p_subject_raw p) (p_issuer_raw p) && sigok bs)
                (md5 bs) (sha1 bs) (sha256 bs)
                (sha256 (p_spki_raw p)) (sha256 raw_tbs) (sha256 (noct_tbs p))
                (sha256 (p_spki_raw p ++ p_subject_raw p))
                (validity_of (p_validity_raw p)))
    | None => None
    end.
End Meta.

(* ---- specification-level navigation: the raw element at a path of child
   indices in the DER tree (independent of the certificate walk above) ---- *)
Fixpoint nth_raw (fuel : nat) (i : nat) (bs : bytes) : option (tl * bytes * bytes) :=
  match fuel with
  | O => None
  | S f =>
      match next bs with
      | None => None
      | Some (t, c, raw, rest) =>
          match i with
          | O => Some (t, c, raw)
          | S i' => nth_raw f i' rest
          end
      end
  end.
(* [elem_at path bs]: bs is a sequence of elements; take child path[0], descend into its content, ... *)
Fixpoint elem_at (path : list nat) (bs : bytes) : option bytes :=
  match path with
  | [] => None
  | [i] => match nth_raw (S i) i bs with Some (_, _, raw) => Some raw | None => None end
  | i :: p => match nth_raw (S i) i bs with Some (_, c, _) => elem_at p c | None => None end
  end.

(* ---- correspondence cases ---- *)
(* the hash functions are instantiated by a finite table the harness computes
   with the Go standard library: (algorithm, preimage, digest); preimages that
   are slices of the input are given as (offset, length) *)
Inductive pre := PSlice (off len : N) | PBytes (b : bytes).
Definition resolve (bs : bytes) (p : pre) : bytes :=
  match p with
  | PSlice off len => firstn (N.to_nat len) (skipn (N.to_nat off) bs)
  | PBytes b => b
  end.
Definition table := list (N * pre * bytes).     (* alg: 1 md5, 2 sha1, 3 sha256 *)
Fixpoint lookup (bs : bytes) (tb : table) (alg : N) (x : bytes) : bytes :=
  match tb with
  | [] => []                                      (* not in the table: empty digest, never equal to a real one *)
  | (a, p, d) :: r => if (a =? alg) && bytes_eqb (resolve bs p) x then d else lookup bs r alg x
  end.

Definition meta_eqb (a b : meta) : bool :=
  bytes_eqb (m_raw a) (m_raw b) && bytes_eqb (m_raw_tbs a) (m_raw_tbs b)
  && bytes_eqb (m_raw_issuer a) (m_raw_issuer b) && bytes_eqb (m_raw_subject a) (m_raw_subject b)
  && bytes_eqb (m_raw_spki a) (m_raw_spki b) && (m_version a =? m_version b)%Z
  && Bool.eqb (m_self_signed a) (m_self_signed b)
  && bytes_eqb (m_fp_md5 a) (m_fp_md5 b) && bytes_eqb (m_fp_sha1 a) (m_fp_sha1 b)
  && bytes_eqb (m_fp_sha256 a) (m_fp_sha256 b) && bytes_eqb (m_fp_spki a) (m_fp_spki b)
  && bytes_eqb (m_fp_tbs a) (m_fp_tbs b) && bytes_eqb (m_fp_noct a) (m_fp_noct b)
  && bytes_eqb (m_fp_spki_subject a) (m_fp_spki_subject b)
  && match m_validity a with
     | Some v => option_eqb Z.eqb (Some v) (m_validity b)
     | None => true        (* first argument = model: unmodelled time form, not compared *)
     end.

(* which observables to compare: everything, or everything but the no-CT
   fingerprint (certificates whose TBS does not re-marshal to itself) *)
Definition blank_noct (m : meta) : meta :=
  mkMeta (m_raw m) (m_raw_tbs m) (m_raw_issuer m) (m_raw_subject m) (m_raw_spki m) (m_version m)
         (m_self_signed m) (m_fp_md5 m) (m_fp_sha1 m) (m_fp_sha256 m) (m_fp_spki m) (m_fp_tbs m) []
         (m_fp_spki_subject m) (m_validity m).

(* (input, CheckSignature-under-own-key result, hash table, canonical?, Go's metadata or None when Go rejects) *)
Definition ccert := (bytes * bool * table * bool * option meta)%type.
Definition check_ccert (c : ccert) : bool :=
  let '(bs, ok, tb, canonical, obs) := c in
  match obs with
  | None => true                                   (* rejected by Go: the property says nothing *)
  | Some o =>
      match meta_of (lookup bs tb 1) (lookup bs tb 2) (lookup bs tb 3) (fun _ => ok) bs with
      | None => false                              (* the model's walk is a necessary condition *)
      | Some m => if canonical then meta_eqb m o else meta_eqb (blank_noct m) (blank_noct o)
      end
  end.
