(* C29 — model of the fingerprinted ClientHello encoder
   tls/handshake_client.go ClientFingerprintConfiguration.marshal and the Marshal
   methods of the built-in extension types in tls/handshake_extensions.go.
   Executable definitions only.  The decoder is the C30 clientHello decoder.

   The encoders are index-arithmetic code: a length that does not fit its field is
   silently truncated (uint8(len >> 8), uint8(len)); [be_enc] does the same. *)
From Coq Require Import List NArith Bool Arith.
From Verif Require Export Harness WireTLS.
From VerifModel Require Export C30.
From VerifGen Require Import C29_gen.
Import ListNotations.
Open Scope N_scope.

Inductive fp_ext :=
| XNull
| XSNI (domains : list bytes)
| XALPN (protocols : list bytes)
| XSecureReneg
| XEMS
| XStatusReq
| XSCT
| XCurves (curves : list N)
| XPoints (formats : bytes)
| XTicket (ticket : bytes)
| XSigAlgs (algs : list N).

Record fp_cfg := mkCfg {
  fp_vers : N;
  fp_random : bytes;        (* ClientRandom: used when exactly 32 bytes long *)
  fp_insert_ts : bool;      (* InsertTimestamp *)
  fp_sid : bytes;
  fp_suites : list N;
  fp_comps : bytes;
  fp_exts : list fp_ext;
  fp_force_suites : bool    (* Config.ForceSuites *)
}.

Definition concat_map {A} (f : A -> bytes) (l : list A) : bytes := concat (map f l).

(* extension type and extension_data of each built-in type; None = nothing is sent *)
Definition ext_body (e : fp_ext) : option (N * bytes) :=
  match e with
  | XNull => None
  | XSNI [] => None
  | XSNI ds =>
      let entries := concat_map (fun d => 0 :: be_enc 2 (blen d) ++ d) ds in
      Some (0, be_enc 2 (blen entries) ++ entries)
  | XALPN ps =>
      let entries := concat_map (fun p => be_enc 1 (blen p) ++ p) ps in
      Some (16, be_enc 2 (blen entries) ++ entries)
  | XSecureReneg => Some (65281, [0])
  | XEMS => Some (23, [])
  | XStatusReq => Some (5, [1; 0; 0; 0; 0])
  | XSCT => Some (18, [])
  | XCurves l => Some (10, be_enc 2 (2 * N.of_nat (length l)) ++ concat_map (be_enc 2) l)
  | XPoints l => Some (11, be_enc 1 (blen l) ++ l)
  | XTicket t => Some (35, t)
  | XSigAlgs l => Some (13, be_enc 2 (2 * N.of_nat (length l)) ++ concat_map (be_enc 2) l)
  end.

(* Marshal(): type(2) length(2) data *)
Definition ext_marshal (e : fp_ext) : bytes :=
  match ext_body e with
  | None => []
  | Some (t, b) => raw_ext t b
  end.

(* CheckImplemented() of every extension *)
Definition ext_implemented (e : fp_ext) : bool :=
  match e with
  | XCurves l => forallb (fun c => existsb (N.eqb c) default_curves) l
  | XPoints l => forallb (N.eqb 0) l
  | XSigAlgs l => forallb (fun a => existsb (N.eqb a) supported_sig_algs) l
  | _ => true
  end.

(* the 32 bytes of client random: configured, or [timestamp] fresh bytes from Config.rand() *)
Definition fp_client_random (c : fp_cfg) (ts rnd : bytes) : bytes :=
  if blen (fp_random c) =? 32 then fp_random c
  else if fp_insert_ts c then ts ++ firstn 28 rnd
  else firstn 32 rnd.

Definition fp_exts_bytes (c : fp_cfg) : bytes := concat_map ext_marshal (fp_exts c).

(* marshal: None = an error is returned and no ClientHello is sent *)
Definition fp_marshal (c : fp_cfg) (ts rnd : bytes) : option bytes :=
  if negb (forallb ext_implemented (fp_exts c)) then None
  else if 256 <=? blen (fp_sid c) then None
  else if negb (fp_force_suites c) && negb (forallb (fun s => existsb (N.eqb s) implemented_suites) (fp_suites c)) then None
  else if negb (list_eqb N.eqb (fp_comps c) [0]) then None   (* exactly one method, null *)
  else
    let xb := fp_exts_bytes c in
    let body :=
      be_enc 2 (fp_vers c) ++ fp_client_random c ts rnd ++
      (be_enc 1 (blen (fp_sid c)) ++ fp_sid c) ++
      (be_enc 2 (2 * N.of_nat (length (fp_suites c))) ++ concat_map (be_enc 2) (fp_suites c)) ++
      (be_enc 1 (blen (fp_comps c)) ++ fp_comps c) ++
      (if is_nil xb then [] else be_enc 2 (blen xb) ++ xb) in
    if 16777216 <=? blen body then None
    else Some (1 :: be_enc 3 (blen body) ++ body).

(* ---- what the ClientHello parser must read back: the effect of each configured
   extension, in order, on the clientHello slots (C30: slot layout of MCH) ---- *)
Definition fits16 (b : bytes) : bool := blen b <? 65536.

Definition apply_ext (st : slots) (e : fp_ext) : option slots :=
  match e with
  | XNull => Some st
  | XSNI [] => Some st
  | XSNI [d] =>
      (* one host_name: non-empty, no trailing dot, and no name set by an earlier extension *)
      if negb (is_nil d) && negb (ends_with_dot d) && is_nil (unVB (sget 0 st)) && (blen d + 5 <? 65536)
      then Some (sset 0 (VB d) st) else None
  | XSNI _ => None                    (* several host_names: refused by the parser (RFC 6066) *)
  | XALPN ps =>
      if negb (is_nil ps) && forallb (fun p => negb (is_nil p) && (blen p <? 256)) ps &&
         (blen (concat_map (fun p => be_enc 1 (blen p) ++ p) ps) + 2 <? 65536)
      then Some (sset 8 (VL (unVL' (sget 8 st) ++ map VB ps)) st) else None
  | XSecureReneg => Some (sset 7 (VP (VN 1) (VB [])) st)
  | XEMS => Some (sset 10 (VN 1) st)
  | XStatusReq => Some (sset 1 (VN 1) st)
  | XSCT => Some (sset 11 (VN 1) st)
  | XCurves l =>
      if negb (is_nil l) && forallb (fun x => x <? 65536) l && (2 * N.of_nat (length l) + 2 <? 65536)
      then Some (sset 2 (VL (unVL' (sget 2 st) ++ map VN l)) st) else None
  | XPoints l =>
      if negb (is_nil l) && (blen l <? 256) then Some (sset 3 (VB l) st) else None
  | XTicket t =>
      if fits16 t then Some (sset 4 (VP (VN 1) (VB t)) st) else None
  | XSigAlgs l =>
      if negb (is_nil l) && forallb (fun x => x <? 65536) l && (2 * N.of_nat (length l) + 2 <? 65536)
      then Some (sset 5 (VL (unVL' (sget 5 st) ++ map VN l)) st) else None
  end.

Fixpoint apply_exts (st : slots) (l : list fp_ext) : option slots :=
  match l with
  | [] => Some st
  | e :: r => match apply_ext st e with
              | Some st' => apply_exts st' r
              | None => None
              end
  end.

(* the configurations on which the fixed part is representable (uint16 fields, list lengths) *)
Definition fp_valid (c : fp_cfg) : bool :=
  (fp_vers c <? 65536) && forallb (fun s => s <? 65536) (fp_suites c) &&
  (2 * N.of_nat (length (fp_suites c)) <? 65536) && (blen (fp_exts_bytes c) <? 65536).

(* the clientHello the parser is expected to produce *)
Definition fp_expected (c : fp_cfg) (ts rnd : bytes) : option msg :=
  match apply_exts (init_ch (fp_suites c)) (fp_exts c) with
  | Some st => Some (MCH (fp_vers c) (fp_client_random c ts rnd) (fp_sid c) (fp_suites c) (fp_comps c) st)
  | None => None
  end.

(* ---- correspondence case ----
   (configuration, timestamp bytes observed, bytes served by Config.Rand,
    Go marshal output or None on error, Go unmarshal of that output or None) *)
Definition mcase := (fp_cfg * bytes * bytes * option bytes * option msg)%type.
Definition check_mcase (c : mcase) : bool :=
  let '(cfg, ts, rnd, out, decoded) := c in
  option_eqb bytes_eqb (fp_marshal cfg ts rnd) out &&
  match out with
  | None => match decoded with None => true | Some _ => false end
  | Some h =>
      option_eqb msg_eqb (dec_msg KCH false h) decoded &&
      (* whenever the specification says what must be read back, that is what is read back *)
      match (if fp_valid cfg then fp_expected cfg ts rnd else None) with
      | Some m => option_eqb msg_eqb decoded (Some m)
      | None => true
      end
  end.
