(* C11 (asynchronous part) — labelled transition system of WalkChainsAsync:
   one producer (walkFromEdgeToRoot: sends the chains continueWalking finds, in
   that order, then closes the channel) and one consumer (WalkChains: `for chain
   := range ch`) over a buffered Go channel of capacity [cap] >= 1
   (WalkChainsAsync replaces ChannelSize <= 0 by 4).  Executable only.

   Send   : enabled when an item is left and the buffer is not full
   Close  : enabled when nothing is left to send and the channel is open
   Recv   : enabled when the buffer is not empty
   Finish : the consumer's range loop ends: buffer empty and channel closed *)
From Coq Require Import List Arith Bool.
Import ListNotations.

Section Chan.
  Variable A : Type.

  Record st := mkSt {
    todo : list A;      (* chains the producer has not sent yet *)
    buf : list A;       (* channel buffer, FIFO *)
    closed : bool;
    got : list A;       (* chains the consumer has appended to its result *)
    fin : bool          (* the consumer's loop has ended *)
  }.

  Inductive label := Send | Close | Recv | Finish.

  Definition init (items : list A) : st := mkSt items [] false [] false.

  Definition step (cap : nat) (s : st) (l : label) : option st :=
    match l with
    | Send =>
        match todo s with
        | x :: r => if Nat.ltb (length (buf s)) cap
                    then Some (mkSt r (buf s ++ [x]) (closed s) (got s) (fin s)) else None
        | [] => None
        end
    | Close =>
        match todo s with
        | [] => if closed s then None else Some (mkSt [] (buf s) true (got s) (fin s))
        | _ => None
        end
    | Recv =>
        if fin s then None else
        match buf s with
        | x :: b => Some (mkSt (todo s) b (closed s) (got s ++ [x]) (fin s))
        | [] => None
        end
    | Finish =>
        if fin s then None else
        match buf s with
        | [] => if closed s then Some (mkSt (todo s) [] true (got s) true) else None
        | _ => None
        end
    end.

  (* run a schedule: a label that is not enabled is a blocked goroutine and is skipped *)
  Fixpoint exec (cap : nat) (s : st) (sched : list label) : st :=
    match sched with
    | [] => s
    | l :: r => match step cap s l with Some s' => exec cap s' r | None => exec cap s r end
    end.

  Definition measure (s : st) : nat :=
    2 * length (todo s) + length (buf s) + (if closed s then 0 else 1) + (if fin s then 0 else 1).
End Chan.
Arguments todo {A}. Arguments buf {A}. Arguments closed {A}. Arguments got {A}. Arguments fin {A}.
Arguments mkSt {A}. Arguments init {A}. Arguments step {A}. Arguments exec {A}. Arguments measure {A}.
