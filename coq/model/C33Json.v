(* C33Json.v — JSON trees, outcome type, text leaf codecs (hex, base64, decimal,
   dotted OIDs, IPv4) and a field-list description of the auxiliary structs that
   the zcrypto MarshalJSON/UnmarshalJSON methods hand to encoding/json.
   Executable definitions only.

   encoding/json itself (bytes <-> tree, struct tags, omitempty, base64 of
   []byte, range checks of sized integers) is the trusted standard library; its
   behaviour on a struct is described by a [fields] list:
     emit   = what Marshal writes for the member (None = omitted)
     absorb = what Unmarshal stores for the member (None = absent or null). *)
From Coq Require Import List NArith ZArith Bool String Ascii Decimal DecimalString.
Import ListNotations.
Local Open Scope string_scope.

Inductive json :=
| JNull
| JBool (b : bool)
| JNum (z : Z)
| JStr (s : string)
| JArr (l : list json)
| JObj (l : list (string * json)).

(* Ok | Err | Panic — [Panic] is a nil dereference / index out of range /
   explicit panic in the Go code; total Gallina functions make it visible *)
Inductive res (A : Type) := Ok (a : A) | Err | Panic.
Arguments Ok {A} a.
Arguments Err {A}.
Arguments Panic {A}.

Definition rbind {A B} (r : res A) (f : A -> res B) : res B :=
  match r with Ok a => f a | Err => Err | Panic => Panic end.
Definition rmap {A B} (f : A -> B) (r : res A) : res B := rbind r (fun a => Ok (f a)).
Definition of_opt {A} (o : option A) : res A := match o with Some a => Ok a | None => Err end.

(* ---------- strings as byte strings ---------- *)
Definition bs (l : list N) : string :=
  fold_right (fun n s => String (ascii_of_N n) s) EmptyString l.
Fixpoint sbytes (s : string) : list N :=
  match s with EmptyString => [] | String c r => N_of_ascii c :: sbytes r end.
Definition slen (s : string) : N := N.of_nat (String.length s).
(* compact spelling of long repetitive strings in generated cases *)
Definition srep (c n : N) : string :=
  N.iter n (fun s => String (ascii_of_N c) s) EmptyString.
Definition scat (l : list string) : string := fold_right append EmptyString l.
Definition is_empty_s (s : string) : bool := match s with EmptyString => true | _ => false end.

(* all N below 2^k, in increasing order (used by the exhaustive theorems) *)
Fixpoint nrange (k : nat) : list N :=
  match k with
  | O => [0%N]
  | S k' => let r := nrange k' in r ++ map (N.add (2 ^ N.of_nat k')) r
  end.

(* ---------- hex ---------- *)
Definition hexdigit (up : bool) (n : N) : ascii :=
  ascii_of_N (if (n <? 10)%N then 48 + n else (if up then 55 else 87) + n)%N.
Definition unhexdigit (c : ascii) : option N :=
  let n := N_of_ascii c in
  if ((48 <=? n) && (n <=? 57))%N then Some (n - 48)%N
  else if ((97 <=? n) && (n <=? 102))%N then Some (n - 87)%N
  else if ((65 <=? n) && (n <=? 70))%N then Some (n - 55)%N
  else None.
Fixpoint hex_enc (up : bool) (s : string) : string :=
  match s with
  | EmptyString => EmptyString
  | String c r => let n := N_of_ascii c in
      String (hexdigit up (n / 16)) (String (hexdigit up (n mod 16)) (hex_enc up r))
  end.
Fixpoint hex_dec (s : string) : option string :=
  match s with
  | EmptyString => Some EmptyString
  | String a (String b r) =>
      match unhexdigit a, unhexdigit b, hex_dec r with
      | Some x, Some y, Some t => Some (String (ascii_of_N (16 * x + y)) t)
      | _, _, _ => None
      end
  | _ => None
  end.

(* ---------- base64 (StdEncoding, padded) ---------- *)
Definition b64char (n : N) : ascii :=
  ascii_of_N (if n <? 26 then 65 + n else if n <? 52 then 71 + n
              else if n <? 62 then n - 4 else if n =? 62 then 43 else 47)%N.
Definition b64val (c : ascii) : option N :=
  let n := N_of_ascii c in
  if ((65 <=? n) && (n <=? 90))%N then Some (n - 65)%N
  else if ((97 <=? n) && (n <=? 122))%N then Some (n - 71)%N
  else if ((48 <=? n) && (n <=? 57))%N then Some (n + 4)%N
  else if (n =? 43)%N then Some 62%N
  else if (n =? 47)%N then Some 63%N
  else None.
Definition pad : ascii := "="%char.
Definition is_pad (c : ascii) : bool := Ascii.eqb c pad.

Definition sx1 (x : N) : N := (x / 4)%N.
Definition sx2 (x y : N) : N := ((x mod 4) * 16 + y / 16)%N.
Definition sx3 (y z : N) : N := ((y mod 16) * 4 + z / 64)%N.
Definition sx4 (z : N) : N := (z mod 64)%N.
Definition by1 (v1 v2 : N) : N := (v1 * 4 + v2 / 16)%N.
Definition by2 (v2 v3 : N) : N := ((v2 mod 16) * 16 + v3 / 4)%N.
Definition by3 (v3 v4 : N) : N := ((v3 mod 4) * 64 + v4)%N.

Fixpoint b64enc (s : string) : string :=
  match s with
  | EmptyString => EmptyString
  | String a EmptyString =>
      let x := N_of_ascii a in
      String (b64char (sx1 x)) (String (b64char (sx2 x 0)) (String pad (String pad EmptyString)))
  | String a (String b EmptyString) =>
      let x := N_of_ascii a in let y := N_of_ascii b in
      String (b64char (sx1 x)) (String (b64char (sx2 x y)) (String (b64char (sx3 y 0)) (String pad EmptyString)))
  | String a (String b (String c r)) =>
      let x := N_of_ascii a in let y := N_of_ascii b in let z := N_of_ascii c in
      String (b64char (sx1 x)) (String (b64char (sx2 x y))
        (String (b64char (sx3 y z)) (String (b64char (sx4 z)) (b64enc r))))
  end.

(* Go's decoder is not strict about the unused low bits of the last sextet *)
Fixpoint b64dec (s : string) : option string :=
  match s with
  | EmptyString => Some EmptyString
  | String c1 (String c2 (String c3 (String c4 r))) =>
      match b64val c1, b64val c2 with
      | Some v1, Some v2 =>
          if is_pad c3 then
            if is_pad c4 && is_empty_s r then Some (String (ascii_of_N (by1 v1 v2)) EmptyString) else None
          else match b64val c3 with
               | None => None
               | Some v3 =>
                   if is_pad c4 then
                     if is_empty_s r
                     then Some (String (ascii_of_N (by1 v1 v2)) (String (ascii_of_N (by2 v2 v3)) EmptyString))
                     else None
                   else match b64val c4, b64dec r with
                        | Some v4, Some t =>
                            Some (String (ascii_of_N (by1 v1 v2)) (String (ascii_of_N (by2 v2 v3))
                                   (String (ascii_of_N (by3 v3 v4)) t)))
                        | _, _ => None
                        end
               end
      | _, _ => None
      end
  | _ => None
  end.

(* ---------- decimal ---------- *)
Definition dec_of_N (n : N) : string := NilEmpty.string_of_uint (N.to_uint n).
Definition dec_of_Z (z : Z) : string :=
  match z with
  | Zneg p => String "-"%char (dec_of_N (Npos p))
  | _ => dec_of_N (Z.to_N z)
  end.
(* digits only, at least one *)
Definition parse_N (s : string) : option N :=
  match s with
  | EmptyString => None
  | _ => match NilEmpty.uint_of_string s with
         | Some d => Some (N.of_uint d)
         | None => None
         end
  end.
(* strconv.ParseInt(s, 10, bits) / Atoi: optional sign, digits, range check *)
Definition parse_int (bits : N) (s : string) : option Z :=
  let body sign r :=
    match parse_N r with
    | None => None
    | Some n =>
        let z := (sign * Z.of_N n)%Z in
        if ((- 2 ^ (Z.of_N bits - 1) <=? z) && (z <? 2 ^ (Z.of_N bits - 1)))%Z then Some z else None
    end in
  match s with
  | String c r =>
      if Ascii.eqb c "+"%char then body 1%Z r
      else if Ascii.eqb c "-"%char then body (-1)%Z r
      else body 1%Z s
  | EmptyString => None
  end.

(* strings.TrimPrefix *)
Fixpoint trim_prefix (p s : string) : option string :=
  match p, s with
  | EmptyString, _ => Some s
  | String a p', String b s' => if Ascii.eqb a b then trim_prefix p' s' else None
  | _, _ => None
  end.
Definition trim_prefix_or_same (p s : string) : string :=
  match trim_prefix p s with Some r => r | None => s end.

(* ---------- dotted notation ---------- *)
Fixpoint split_on (c : ascii) (s : string) : list string :=
  match s with
  | EmptyString => [EmptyString]
  | String a r =>
      if Ascii.eqb a c then EmptyString :: split_on c r
      else match split_on c r with
           | h :: t => String a h :: t
           | [] => [String a EmptyString]
           end
  end.
Fixpoint join_with (sep : string) (l : list string) : string :=
  match l with
  | [] => EmptyString
  | [x] => x
  | x :: r => x ++ sep ++ join_with sep r
  end.
(* asn1.ObjectIdentifier.String(); arcs are Go ints (Z) *)
Definition oid_str (o : list Z) : string := join_with "." (map dec_of_Z o).
Fixpoint mapM {A B} (f : A -> option B) (l : list A) : option (list B) :=
  match l with
  | [] => Some []
  | x :: r => match f x, mapM f r with Some y, Some t => Some (y :: t) | _, _ => None end
  end.
(* strings.Split(s, ".") then Atoi / ParseInt(...,32) of every part *)
Definition parse_oid (bits : N) (s : string) : option (list Z) :=
  mapM (parse_int bits) (split_on "."%char s).

(* ---------- IPv4 ---------- *)
(* a 4-byte address as a 4-character string *)
Definition ip4_str (ip : string) : string := join_with "." (map dec_of_N (sbytes ip)).
Definition parse_octet (s : string) : option N :=
  match s with
  | String c (String _ _) => if Ascii.eqb c "0"%char then None else
      match parse_N s with Some n => if (n <=? 255)%N then Some n else None | None => None end
  | _ => match parse_N s with Some n => if (n <=? 255)%N then Some n else None | None => None end
  end.
Definition parse_ip4 (s : string) : option string :=
  match mapM parse_octet (split_on "."%char s) with
  | Some [a; b; c; d] => Some (bs [a; b; c; d])
  | _ => None
  end.
(* net.CIDRMask(n, 32) *)
Definition mask_byte (n i : N) : N :=
  (if 8 * (i + 1) <=? n then 255 else if n <=? 8 * i then 0 else 256 - 2 ^ (8 * (i + 1) - n))%N.
Definition mask4 (n : N) : list N := [mask_byte n 0; mask_byte n 1; mask_byte n 2; mask_byte n 3].
Fixpoint zip_with {A} (f : A -> A -> A) (a b : list A) : list A :=
  match a, b with x :: a', y :: b' => f x y :: zip_with f a' b' | _, _ => [] end.

(* ---------- object access ---------- *)
Fixpoint assoc (k : string) (o : list (string * json)) : option json :=
  match o with
  | [] => None
  | (k', v) :: r => if String.eqb k k' then Some v else assoc k r
  end.
(* a member that is absent or null leaves the Go destination untouched, except
   for a non-pointer member whose type has its own UnmarshalJSON (k_val): that
   method is called with the literal null *)
Definition nonnull (o : option json) : option json :=
  match o with Some JNull => None | x => x end.

(* ---------- field descriptions ---------- *)
(* A = the Go value that is marshalled, B = the Go value that unmarshalling
   produces (the same type except where decoding is lossy by design) *)
Record codec (A B : Type) := {
  enc : A -> json;
  dec : json -> res B;
}.
Arguments enc {A B} c a.
Arguments dec {A B} c j.

Record fkind (A B : Type) := {
  emit : A -> option json;
  absorb : option json -> res B;
}.
Arguments emit {A B} f a.
Arguments absorb {A B} f o.

Inductive fields : Type -> Type -> Type :=
| FEnd : fields unit unit
| FCons : forall {A A' B B'}, string -> fkind A A' -> fields B B' -> fields (A * B) (A' * B').

Fixpoint enc_fields {T U} (fs : fields T U) : T -> list (string * json) :=
  match fs in fields T U return T -> list (string * json) with
  | FEnd => fun _ => []
  | FCons k fk rest => fun v =>
      match emit fk (fst v) with
      | Some j => (k, j) :: enc_fields rest (snd v)
      | None => enc_fields rest (snd v)
      end
  end.

Fixpoint dec_fields {T U} (fs : fields T U) (o : list (string * json)) : res U :=
  match fs in fields T U return res U with
  | FEnd => Ok tt
  | FCons k fk rest =>
      rbind (absorb fk (assoc k o)) (fun a =>
      rbind (dec_fields rest o) (fun b => Ok (a, b)))
  end.

Fixpoint field_keys {T U} (fs : fields T U) : list string :=
  match fs with FEnd => [] | FCons k _ rest => k :: field_keys rest end.

Definition obj {T U} (fs : fields T U) : codec T U :=
  {| enc := fun v => JObj (enc_fields fs v);
     dec := fun j => match j with
                     | JObj o => dec_fields fs o
                     | JNull => dec_fields fs []      (* json.Unmarshal("null", &aux) leaves aux zero *)
                     | _ => Err end |}.

(* ---- member kinds ---- *)
Definition int_in (lo hi z : Z) : bool := ((lo <=? z) && (z <=? hi))%Z.
(* string member *)
Definition k_str (omit : bool) : fkind string string :=
  {| emit := fun s => if omit && is_empty_s s then None else Some (JStr s);
     absorb := fun o => match nonnull o with None => Ok EmptyString | Some (JStr s) => Ok s | Some _ => Err end |}.
(* integer member of a sized Go type, range lo..hi *)
Definition k_int (omit : bool) (lo hi : Z) : fkind Z Z :=
  {| emit := fun z => if omit && (z =? 0)%Z then None else Some (JNum z);
     absorb := fun o => match nonnull o with
                        | None => Ok 0%Z
                        | Some (JNum z) => if int_in lo hi z then Ok z else Err
                        | Some _ => Err end |}.
Definition k_bool (omit : bool) : fkind bool bool :=
  {| emit := fun b => if omit && negb b then None else Some (JBool b);
     absorb := fun o => match nonnull o with None => Ok false | Some (JBool b) => Ok b | Some _ => Err end |}.
(* encoding/json also accepts a JSON array of numbers for a []byte *)
Fixpoint bytes_of_jarr (l : list json) : res string :=
  match l with
  | [] => Ok EmptyString
  | j :: r =>
      rbind (match j with
             | JNum z => if int_in 0 255 z then Ok (ascii_of_N (Z.to_N z)) else Err
             | JNull => Ok Ascii.zero
             | _ => Err end) (fun c =>
      rbind (bytes_of_jarr r) (fun t => Ok (String c t)))
  end.
(* []byte member with omitempty: nil and empty are both omitted *)
Definition k_bytes_omit : fkind string string :=
  {| emit := fun s => if is_empty_s s then None else Some (JStr (b64enc s));
     absorb := fun o => match nonnull o with None => Ok EmptyString
                                | Some (JStr s) => of_opt (b64dec s)
                                | Some (JArr l) => bytes_of_jarr l | Some _ => Err end |}.
(* []byte member without omitempty: nil is written as null (None = nil) *)
Definition k_bytes_null : fkind (option string) (option string) :=
  {| emit := fun s => match s with None => Some JNull | Some b => Some (JStr (b64enc b)) end;
     absorb := fun o => match nonnull o with None => Ok None
                                | Some (JStr s) => rmap Some (of_opt (b64dec s))
                                | Some (JArr l) => rmap Some (bytes_of_jarr l) | Some _ => Err end |}.
(* pointer member *)
Definition k_ptr {A B} (omit : bool) (c : codec A B) : fkind (option A) (option B) :=
  {| emit := fun p => match p with
                      | None => if omit then None else Some JNull
                      | Some a => Some (enc c a) end;
     absorb := fun o => match nonnull o with None => Ok None | Some j => rmap Some (dec c j) end |}.
(* value member with its own codec (zero value when absent); [empty] decides omitempty *)
Definition k_val {A B} (c : codec A B) (zero : B) (empty : A -> bool) : fkind A B :=
  {| emit := fun a => if empty a then None else Some (enc c a);
     absorb := fun o => match o with None => Ok zero | Some j => dec c j end |}.
(* slice member with omitempty; nil and empty are the same value [] *)
Fixpoint dec_list {A B} (c : codec A B) (l : list json) : res (list B) :=
  match l with
  | [] => Ok []
  | j :: r => rbind (dec c j) (fun a => rbind (dec_list c r) (fun t => Ok (a :: t)))
  end.
Definition k_list {A B} (c : codec A B) : fkind (list A) (list B) :=
  {| emit := fun l => match l with [] => None | _ => Some (JArr (map (enc c) l)) end;
     absorb := fun o => match nonnull o with None => Ok [] | Some (JArr l) => dec_list c l | Some _ => Err end |}.

Definition c_str : codec string string :=
  {| enc := JStr; dec := fun j => match j with JStr s => Ok s | JNull => Ok EmptyString | _ => Err end |}.

(* ---------- tree checksum for exhaustive enumerations (same fold in Go) ---------- *)
(* 32-bit multiplicative mix (a mask instead of a modulus: cheap in vm_compute) *)
Definition P : N := 4294967296%N.
Definition mix (h x : N) : N := N.land (h * 33 + x + 1) 4294967295%N.
Definition hash_str (h : N) (s : string) : N :=
  fold_left (fun h c => mix h c) (sbytes s) (mix h (slen s)).
Fixpoint jhash (h : N) (j : json) : N :=
  match j with
  | JNull => mix h 1
  | JBool b => mix (mix h 2) (if b then 1 else 0)
  | JNum z => mix (mix h 3) (Z.to_N (z mod Z.of_N P))
  | JStr s => hash_str (mix h 4) s
  | JArr l => fold_left jhash l (mix (mix h 5) (N.of_nat (List.length l)))
  | JObj l => (fix go (l : list (string * json)) (h : N) : N :=
                 match l with
                 | [] => h
                 | (k, v) :: r => go r (jhash (hash_str h k) v)
                 end) l (mix (mix h 6) (N.of_nat (List.length l)))
  end.

(* ---------- tree equality ---------- *)
Fixpoint json_eqb (a b : json) : bool :=
  match a, b with
  | JNull, JNull => true
  | JBool x, JBool y => Bool.eqb x y
  | JNum x, JNum y => Z.eqb x y
  | JStr x, JStr y => String.eqb x y
  | JArr x, JArr y =>
      (fix go (x y : list json) : bool :=
         match x, y with
         | [], [] => true
         | p :: x', q :: y' => json_eqb p q && go x' y'
         | _, _ => false
         end) x y
  | JObj x, JObj y =>
      (fix go (x y : list (string * json)) : bool :=
         match x, y with
         | [], [] => true
         | (k, p) :: x', (k', q) :: y' => String.eqb k k' && json_eqb p q && go x' y'
         | _, _ => false
         end) x y
  | _, _ => false
  end.
