(* C07 — model of x509/verify.go Certificate.Verify: isValid, buildChains (with
   its memo table keyed by intermediate index), checkChainForKeyUsage,
   FilterByDate, the DNS-name step (C09 model), and x509/validation.go
   ValidateWithStupidDetail.  Executable definitions only.
   Certificates are abstract records (Verif.AbsCert); the pools are the C08
   model, built with AddCert from certificate lists; the cryptographic signature
   check is the Section variable [sigok]; net.ParseIP is [ip_of] (as in C09). *)
From Coq Require Import List NArith ZArith Bool Arith.
From Verif Require Import Harness.
From Verif Require Export AbsCert.
From VerifModel Require C08 C09.
Import ListNotations.

Definition chain := list cert.

(* error classes: CertificateInvalidError reasons, UnknownAuthorityError, HostnameError *)
Inductive verr :=
| ENotAuthorizedToSign | EExpired | ETooManyIntermediates | EIncompatibleUsage
| ENeverValid | EIsSelfSigned | EUnknownAuthority | EHostname.

Inductive ctype := TLeaf | TIntermediate | TRoot.

Definition max_intermediate_count : nat := 10.

(* isValid(certType, currentChain); [n] = len(currentChain) *)
Definition is_valid (t : ctype) (c : cert) (n : nat) : option verr :=
  if (match t with TIntermediate => true | _ => false end)
     && (negb (c_bc_valid c) || negb (c_is_ca c))
  then Some ENotAuthorizedToSign
  else if c_bc_valid c && (0 <=? c_max_path_len c)%Z
          && (c_max_path_len c <? Z.of_nat n - 1)%Z
  then Some ETooManyIntermediates
  else if Nat.ltb max_intermediate_count n then Some ETooManyIntermediates
  else None.

(* CertificateChain.CertificateInChain (by Raw) and CertificateSubjectAndKeyInChain *)
Definition cert_in_chain (c : cert) (ch : chain) : bool :=
  existsb (fun x => N.eqb (c_fp c) (c_fp x)) ch.
Definition subj_key_in_chain (c : cert) (ch : chain) : bool :=
  existsb (fun x => N.eqb (c_subject c) (c_subject x) && N.eqb (c_spki c) (c_spki x)) ch.

Definition is_nil {A} (l : list A) : bool := match l with [] => true | _ => false end.
Definition is_none {A} (o : option A) : bool := match o with None => true | _ => false end.

(* the memo table: intermediate index -> chains *)
Definition cache := list (nat * list chain).
Fixpoint cache_get (m : cache) (k : nat) : option (list chain) :=
  match m with
  | [] => None
  | (k', v) :: r => if Nat.eqb k k' then Some v else cache_get r k
  end.
Definition cache_set (m : cache) (k : nat) (v : list chain) : cache := (k, v) :: m.

Section Build.
  Variable sigok : cert -> cert -> bool.
  Variables roots inters : C08.pool.

  Definition res := (cache * list chain * option verr)%type.

  Definition pool_nth (p : C08.pool) (n : nat) : cert := nth n (C08.certs p) C08.dummy_cert.

  (* the loop over possibleRoots; [err] is overwritten by every isValid result *)
  Fixpoint root_loop (cur : chain) (cands : list nat) (chains : list chain) (err : option verr)
    : list chain * option verr :=
    match cands with
    | [] => (chains, err)
    | n :: r =>
        let root := pool_nth roots n in
        match is_valid TRoot root (length cur) with
        | Some e => root_loop cur r chains (Some e)
        | None =>
            root_loop cur r
              (if cert_in_chain root cur then chains else chains ++ [cur ++ [root]]) None
        end
    end.

  (* the loop over possibleIntermediates; [rec] is buildChains on the intermediate *)
  Fixpoint inter_loop (rec : cache -> cert -> chain -> option res)
           (cur : chain) (cands : list nat) (st : cache) (chains : list chain) (err : option verr)
    : option res :=
    match cands with
    | [] => Some (st, chains, err)
    | n :: r =>
        let im := pool_nth inters n in
        if C08.contains (Some roots) im then inter_loop rec cur r st chains err
        else if subj_key_in_chain im cur then inter_loop rec cur r st chains err
        else
          match is_valid TIntermediate im (length cur) with
          | Some e => inter_loop rec cur r st chains (Some e)
          | None =>
              match cache_get st n with
              | Some cc => inter_loop rec cur r st (chains ++ cc) None
              | None =>
                  match rec st im (cur ++ [im]) with
                  | None => None
                  | Some (st', cc, e') =>
                      inter_loop rec cur r (cache_set st' n cc) (chains ++ cc) e'
                  end
              end
          end
    end.

  (* buildChains; None = out of fuel or an index out of range (neither happens, see proofs) *)
  Fixpoint build_chains (fuel : nat) (st : cache) (c : cert) (cur : chain) : option res :=
    match fuel with
    | O => None
    | S f =>
        let chains0 :=
          if Nat.eqb (length cur) 1 && C08.contains (Some roots) c then [[c]] else [] in
        let err0 := if is_nil chains0 && c_self_signed c then Some EIsSelfSigned else None in
        match C08.find_verified_parents sigok (Some roots) c,
              C08.find_verified_parents sigok (Some inters) c with
        | Some pr, Some pi =>
            let '(chains1, err1) := root_loop cur pr chains0 err0 in
            match inter_loop (build_chains f) cur pi st chains1 err1 with
            | None => None
            | Some (st2, chains2, err2) =>
                let err3 := if is_nil chains2 then err2 else None in
                let err4 := if is_nil chains2 && is_none err3 then Some EUnknownAuthority else err3 in
                Some (st2, chains2, err4)
            end
        | _, _ => None
        end
    end.
End Build.

(* ---------- checkChainForKeyUsage ---------- *)
(* does a certificate's ExtKeyUsage list satisfy one requested usage *)
Definition eku_supports (ekus : list N) (req : N) : bool :=
  existsb (fun u => N.eqb req u
                    || (N.eqb req eku_server_auth
                        && (N.eqb u eku_netscape_sgc || N.eqb u eku_microsoft_sgc))) ekus.

(* cross out the requested usages the certificate does not support; stop with None as soon
   as none remains (the "return false") *)
Fixpoint cross_out (ekus : list N) (us : list (option N)) (remaining : nat)
  : option (list (option N) * nat) :=
  match us with
  | [] => Some ([], remaining)
  | None :: r =>
      match cross_out ekus r remaining with
      | Some (r', n) => Some (None :: r', n)
      | None => None
      end
  | Some req :: r =>
      if eku_supports ekus req then
        match cross_out ekus r remaining with
        | Some (r', n) => Some (Some req :: r', n)
        | None => None
        end
      else
        let remaining' := pred remaining in
        if Nat.eqb remaining' 0 then None
        else match cross_out ekus r remaining' with
             | Some (r', n) => Some (None :: r', n)
             | None => None
             end
  end.

(* walk from the root end (reversed chain) *)
Fixpoint eku_walk (rev_chain : chain) (us : list (option N)) (remaining : nat) : bool :=
  match rev_chain with
  | [] => true
  | c :: r =>
      if is_nil (c_ekus c) && Nat.eqb (c_unknown_ekus c) 0 then eku_walk r us remaining
      else if existsb (N.eqb eku_any) (c_ekus c) then eku_walk r us remaining
      else match cross_out (c_ekus c) us remaining with
           | None => false
           | Some (us', n) => eku_walk r us' n
           end
  end.

Definition check_chain_for_key_usage (ch : chain) (key_usages : list N) : bool :=
  if is_nil ch then false
  else eku_walk (rev ch) (map Some key_usages) (length key_usages).

(* ---------- FilterByDate ---------- *)
Definition later (a b : Z) : Z := if (b <? a)%Z then a else b.
Definition earlier (a b : Z) : Z := if (a <? b)%Z then a else b.

Definition bounds (ch : chain) : Z * Z :=
  match ch with
  | [] => (0, 0)%Z
  | leaf :: rest =>
      fold_left (fun lu c => (later (fst lu) (c_not_before c), earlier (snd lu) (c_not_after c)))
                rest (c_not_before leaf, c_not_after leaf)
  end.

Inductive date_class := DCurrent | DExpired | DNever | DPanic.
Definition classify (ch : chain) (now : Z) : date_class :=
  let '(lo, hi) := bounds ch in
  let valid := (lo <? now)%Z && (now <? hi)%Z in
  let was_valid := (lo <? hi)%Z in
  if valid && negb was_valid then DPanic
  else if valid then DCurrent else if was_valid then DExpired else DNever.

(* (current, expired, never, panicked) *)
Fixpoint filter_by_date (chains : list chain) (now : Z)
  : list chain * list chain * list chain * bool :=
  match chains with
  | [] => ([], [], [], false)
  | ch :: r =>
      let '(cu, ex, ne, pn) := filter_by_date r now in
      if is_nil ch then (cu, ex, ne, pn)
      else match classify ch now with
           | DCurrent => (ch :: cu, ex, ne, pn)
           | DExpired => (cu, ch :: ex, ne, pn)
           | DNever => (cu, ex, ch :: ne, pn)
           | DPanic => (cu, ex, ne, true)
           end
  end.

(* ---------- Verify ---------- *)
Record options := mkOptions {
  o_roots : list cert;         (* opts.Roots, built with AddCert in this order *)
  o_inters : list cert;        (* opts.Intermediates *)
  o_now : Z;                   (* opts.CurrentTime; a zero CurrentTime means time.Now() (fix 453d4ef): the
                                  harness then passes the wall clock *)
  o_key_usages : list N;       (* opts.KeyUsages, canonical codes *)
  o_dns : bytes                (* opts.DNSName *)
}.

Definition pool_of (l : list cert) : C08.pool := fold_left C08.add_cert l C08.empty_pool.

Definition hcert_of (c : cert) : C09.hcert :=
  C09.Build_hcert (c_ips c) (c_has_san c) (c_dns c) (c_cn c).

Record result := mkResult {
  r_current : list chain; r_expired : list chain; r_never : list chain;
  r_err : option verr;
  r_fault : bool               (* out of fuel, index out of range or the FilterByDate panic *)
}.

Definition fuel0 : nat := 12.

Section Verify.
  Variable sigok : cert -> cert -> bool.
  Variable ip_of : bytes -> option bytes.

  Definition verify (c : cert) (o : options) : result :=
    let roots := pool_of (o_roots o) in
    let inters := pool_of (o_inters o) in
    match is_valid TLeaf c 0 with
    | Some e => mkResult [] [] [] (Some e) false
    | None =>
        let cand :=
          if C08.contains (Some roots) c then Some ([[c]], None)
          else match build_chains sigok roots inters fuel0 [] c [c] with
               | None => None
               | Some (_, chains, err) => Some (chains, err)
               end in
        match cand with
        | None => mkResult [] [] [] None true
        | Some (_, Some e) => mkResult [] [] [] (Some e) false
        | Some (candidates, None) =>
            let key_usages :=
              if is_nil (o_key_usages o) then [eku_server_auth] else o_key_usages o in
            let chains :=
              if existsb (N.eqb eku_any) key_usages then candidates
              else filter (fun ch => check_chain_for_key_usage ch key_usages) candidates in
            if is_nil chains then mkResult [] [] [] (Some EIncompatibleUsage) false
            else
              let '(cu, ex, ne, pn) := filter_by_date chains (o_now o) in
              if is_nil cu then
                mkResult cu ex ne
                         (if negb (is_nil ex) then Some EExpired
                          else if negb (is_nil ne) then Some ENeverValid else None) pn
              else if negb (is_nil (o_dns o)) then
                mkResult cu ex ne
                         (if C09.verify_hostname ip_of (hcert_of c) (o_dns o) then None
                          else Some EHostname) pn
              else mkResult cu ex ne None pn
        end
    end.

  (* ValidateWithStupidDetail: (chains, BrowserTrusted, MatchesDomain, err, fault) *)
  Definition validate (c : cert) (o : options)
    : list chain * bool * bool * option verr * bool :=
    let r := verify c (mkOptions (o_roots o) (o_inters o) (o_now o) [] []) in
    let trusted := is_none (r_err r) in
    if is_nil (o_dns o) then (r_current r, trusted, false, r_err r, r_fault r)
    else
      let name_ok := C09.verify_hostname ip_of (hcert_of c) (o_dns o) in
      (r_current r, trusted, name_ok,
       (if is_none (r_err r) && negb name_ok then Some EHostname else r_err r), r_fault r).
End Verify.

(* ---------- correspondence cases ---------- *)
Definition err_code (e : option verr) : N :=
  match e with
  | None => 0
  | Some EUnknownAuthority => 1
  | Some EHostname => 2
  | Some ENotAuthorizedToSign => 10
  | Some EExpired => 11
  | Some ETooManyIntermediates => 16
  | Some EIncompatibleUsage => 17
  | Some ENeverValid => 19
  | Some EIsSelfSigned => 20
  end%N.

Definition chains_fp (l : list chain) : list (list N) := map (map c_fp) l.
Definition lN_eqb : list N -> list N -> bool := list_eqb N.eqb.
Definition llN_eqb : list (list N) -> list (list N) -> bool := list_eqb lN_eqb.

Definition ucert (univ : list cert) (i : nat) : cert := nth i univ C08.dummy_cert.

(* one verification query against a PKI:
   leaf index, root indices, intermediate indices, time, key usages, DNS name, ParseIP table for
   the name; observed: current / expired / never as fingerprint lists, error code *)
Record query := mkQuery {
  q_leaf : nat; q_roots : list nat; q_inters : list nat; q_now : Z; q_ku : list N; q_dns : bytes;
  q_ip : C09.qtable;
  q_stupid : bool;  (* ValidateWithStupidDetail instead of Verify *)
  q_cur : list (list N); q_exp : list (list N); q_nev : list (list N); q_err : N;
  q_flags : N       (* ValidateWithStupidDetail: BrowserTrusted + 2 * MatchesDomain *)
}.

Definition check_query (univ : list cert) (sig : sigmatrix) (q : query) : bool :=
  let o := mkOptions (map (ucert univ) (q_roots q)) (map (ucert univ) (q_inters q))
                     (q_now q) (q_ku q) (q_dns q) in
  let c := ucert univ (q_leaf q) in
  (* the model asks ParseIP only about the unbracketed name *)
  (is_nil (q_dns q) || negb (is_none (C09.q_lookup (q_ip q) (C09.unbracket (q_dns q))))) &&
  if q_stupid q then
    let '(chs, trusted, matches, err, fault) := validate (sig_of sig) (C09.q_fun (q_ip q)) c o in
    negb fault && llN_eqb (chains_fp chs) (q_cur q) && N.eqb (err_code err) (q_err q)
    && N.eqb ((if trusted then 1 else 0) + (if matches then 2 else 0))%N (q_flags q)
  else
    let r := verify (sig_of sig) (C09.q_fun (q_ip q)) c o in
    negb (r_fault r)
    && llN_eqb (chains_fp (r_current r)) (q_cur q)
    && llN_eqb (chains_fp (r_expired r)) (q_exp q)
    && llN_eqb (chains_fp (r_never r)) (q_nev q)
    && N.eqb (err_code (r_err r)) (q_err q).

(* a PKI with its signature matrix and a batch of queries *)
Definition case := (list cert * sigmatrix * list query)%type.
Definition check_case (c : case) : bool :=
  let '(univ, sig, qs) := c in forallb (check_query univ sig) qs.

(* stream kcase: checkChainForKeyUsage alone (certificates' EKU lists and unknown counts from
   leaf to root, requested usages, observed), and isValid alone (certType 1 leaf / 2 intermediate /
   3 root, BasicConstraintsValid, IsCA, MaxPathLen, len(currentChain), observed error code) *)
Definition eku_cert (e : list N * nat) : cert :=
  mkCert 0 0 0 0 None None 3 false false (-1) 0 true false (fst e) (snd e) 0 0 false false [] [] [].
Inductive kcase :=
| KEku (es : list (list N * nat)) (req : list N) (obs : bool)
| KValid (t : N) (bc ca : bool) (mpl : Z) (n : nat) (obs : N).
Definition check_kcase (k : kcase) : bool :=
  match k with
  | KEku es req obs => Bool.eqb (check_chain_for_key_usage (map eku_cert es) req) obs
  | KValid t bc ca mpl n obs =>
      let c := mkCert 0 0 0 0 None None 3 bc ca mpl 0 true false [] 0 0 0 false false [] [] [] in
      let ty := if N.eqb t 2 then TIntermediate else if N.eqb t 3 then TRoot else TLeaf in
      N.eqb (err_code (is_valid ty c n)) obs
  end.
