From Coq Require Import List NArith ZArith Bool Arith Lia.
From Verif Require Import Harness.
From VerifModel Require Import C20 C18.
From VerifProof Require Import C18Header C18Ints C18Prims C18Field C18Proofs C18Idem.
Import ListNotations.
Open Scope N_scope.

(* C18Example — the hypotheses of the round-trip theorems are met by a concrete value (non-vacuity).
   struct { A int `optional,default:5`; B bool `private,explicit,tag:2`; C []int32 }  =  {5, true, [7, -1]} *)
Definition pA : fparams := Build_fparams true false false false (Some 5%Z) None 0 0 false false.
Definition pB : fparams := Build_fparams false true false true None (Some 2) 0 0 false false.
Definition ex_ty : ty :=
  TStruct false (FCons pA (TInt false) (FCons pB TBool (FCons no_params (TSlice false (TInt true)) FNil))).
Definition ex_val : value :=
  VStruct None (VCons (VInt 5) (VCons (VBool true) (VCons (VList (VCons (VInt 7) (VCons (VInt (-1)) VNil))) VNil))).
Definition ex_bytes : bytes := [48; 13; 226; 3; 1; 1; 255; 48; 6; 2; 1; 7; 2; 1; 255].

Ltac solve_size := let bs := fresh "bs" in let H := fresh "H" in
  intros bs H; vm_compute in H; injection H as <-; vm_compute; reflexivity.
Ltac solve_params := unfold params_ok; cbn; repeat split; auto; try lia; try (vm_compute; discriminate).

Lemma ex_marshal : marshal no_params ex_ty ex_val = Some ex_bytes.
Proof. vm_compute. reflexivity. Qed.

Lemma ex_dom : dom no_params ex_ty ex_val.
Proof.
  unfold ex_ty, ex_val. cbn [dom].
  split; [solve_params|]. split; [solve_size|].
  change (omitted no_params (TStruct false (FCons pA (TInt false) (FCons pB TBool (FCons no_params (TSlice false (TInt true)) FNil))))
            (VStruct None (VCons (VInt 5) (VCons (VBool true) (VCons (VList (VCons (VInt 7) (VCons (VInt (-1)) VNil))) VNil)))))
    with false. cbv iota.
  split; [reflexivity|]. cbn [doms].
  split; [|split; [split; [|split; [split; [|split; [exact I|]]|]]|]].
  - (* A: omitted *) cbn [dom]. split; [solve_params|]. split; [solve_size|].
    change (omitted pA (TInt false) (VInt 5)) with true. reflexivity.
  - (* B *) cbn [dom]. split; [solve_params|]. split; [solve_size|].
    change (omitted pB TBool (VBool true)) with false. cbv iota.
    exists 1. split; [reflexivity|exact I].
  - (* C *) cbn [dom]. split; [solve_params|]. split; [solve_size|].
    change (omitted no_params (TSlice false (TInt true)) (VList (VCons (VInt 7) (VCons (VInt (-1)) VNil)))) with false. cbv iota.
    split; [reflexivity|]. split; [reflexivity|]. cbn [all_vals].
    split; [|split; [|exact I]].
    + cbn [dom]. split; [solve_params|]. split; [solve_size|].
      change (omitted no_params (TInt true) (VInt 7)) with false. cbv iota. exists 2. split; [reflexivity|]. cbn. lia.
    + cbn [dom]. split; [solve_params|]. split; [solve_size|].
      change (omitted no_params (TInt true) (VInt (-1))) with false. cbv iota. exists 2. split; [reflexivity|]. cbn. lia.
  - (* C written: nothing to skip *) intros Ho. vm_compute in Ho. discriminate.
  - (* B written *) intros Ho. vm_compute in Ho. discriminate.
  - (* A omitted: B's header is not A's *)
    intros _ b H. vm_compute in H. injection H as <-. unfold skips.
    eexists. split; vm_compute; reflexivity.
Qed.

Ltac canon_leaf :=
  cbn [canon]; split; [vm_compute; reflexivity|];
  split; [intros Ho; first [vm_compute in Ho; discriminate | vm_compute; reflexivity] | intros _; exact I].

Lemma ex_canon : canon no_params ex_ty ex_val.
Proof.
  unfold ex_ty, ex_val. cbn [canon].
  split; [vm_compute; reflexivity|]. split; [intros Ho; vm_compute in Ho; discriminate|]. intros _.
  cbn [canons]. split; [canon_leaf|]. split; [canon_leaf|]. split; [|exact I].
  cbn [canon]. split; [vm_compute; reflexivity|]. split; [intros Ho; vm_compute in Ho; discriminate|]. intros _.
  cbn [all_vals]. split; [canon_leaf|]. split; [canon_leaf|exact I].
Qed.

Lemma ex_flags : flags_ok no_params ex_ty ex_val.
Proof.
  unfold ex_ty, ex_val. cbn [flags_ok]. right. cbn [flagss_ok].
  split; [left; reflexivity|]. split; [right; exact I|]. split; [|exact I].
  cbn [flags_ok]. right. cbn [all_vals]. repeat split; right; exact I.
Qed.

(* the example: 30 0d  e2 03 01 01 ff  30 06 02 01 07 02 01 ff *)
Theorem example_roundtrip :
  dom no_params ex_ty ex_val /\ canon no_params ex_ty ex_val /\ flags_ok no_params ex_ty ex_val
  /\ marshal no_params ex_ty ex_val = Some ex_bytes
  /\ unmarshal false no_params ex_ty ex_bytes = Some (ex_val, 0).
Proof.
  split; [exact ex_dom|]. split; [exact ex_canon|]. split; [exact ex_flags|]. split; [exact ex_marshal|].
  vm_compute. reflexivity.
Qed.
