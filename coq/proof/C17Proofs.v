(* C17 — proofs about the sequential core of the scanner model. *)
From Coq Require Import List NArith Bool Arith Lia Permutation.
From Verif Require Import Harness.
From VerifModel Require Import C17.
Import ListNotations.
Open Scope N_scope.

(* ---- nseq ---- *)
Lemma nseq_length lo n : length (nseq lo n) = n.
Proof. revert lo; induction n; simpl; auto. Qed.

Lemma nseq_app lo a b : nseq lo (a + b) = nseq lo a ++ nseq (lo + N.of_nat a) b.
Proof.
  revert lo; induction a as [|a IH]; intros lo.
  - simpl. now rewrite N.add_0_r.
  - cbn [Nat.add nseq app]. rewrite IH.
    replace (lo + 1 + N.of_nat a) with (lo + N.of_nat (S a)) by lia. reflexivity.
Qed.

Lemma nseq_In lo n x : In x (nseq lo n) <-> lo <= x < lo + N.of_nat n.
Proof.
  revert lo; induction n as [|n IH]; intros lo; cbn [nseq In].
  - lia.
  - rewrite IH. lia.
Qed.

Lemma nseq_NoDup lo n : NoDup (nseq lo n).
Proof.
  revert lo; induction n as [|n IH]; intros lo; cbn [nseq]; constructor; auto.
  rewrite nseq_In. lia.
Qed.

(* ---- ranges: the batches partition [start, stop) ---- *)
Lemma ranges_fuel_partition fuel start stop batch :
  1 <= batch -> (N.to_nat (stop - start) <= fuel)%nat ->
  concat (map indices (ranges_fuel fuel start stop batch)) = nseq start (N.to_nat (stop - start)).
Proof.
  intros Hb. revert start. induction fuel as [|f IH]; intros start Hf.
  - simpl. replace (N.to_nat (stop - start)) with 0%nat by lia. reflexivity.
  - cbn [ranges_fuel]. destruct (start <? stop) eqn:E.
    + apply N.ltb_lt in E.
      cbn [map concat]. rewrite IH by lia.
      unfold indices, range_len. cbn [fst snd].
      set (e := N.min (start + batch) stop - 1).
      assert (He : start <= e /\ e + 1 <= stop) by (unfold e; lia).
      replace (N.to_nat (stop - start)) with (N.to_nat (e + 1 - start) + N.to_nat (stop - (e + 1)))%nat by lia.
      rewrite nseq_app. do 2 f_equal. lia.
    + apply N.ltb_ge in E. replace (N.to_nat (stop - start)) with 0%nat by lia. reflexivity.
Qed.

Theorem ranges_partition start stop batch :
  1 <= batch ->
  concat (map indices (ranges start stop batch)) = nseq start (N.to_nat (stop - start)).
Proof. intros Hb. unfold ranges. apply ranges_fuel_partition; auto. Qed.

Lemma ranges_fuel_wf fuel start stop batch :
  1 <= batch -> Forall (fun r => fst r <= snd r /\ snd r < stop) (ranges_fuel fuel start stop batch).
Proof.
  intros Hb. revert start. induction fuel as [|f IH]; intros start; cbn [ranges_fuel]; [constructor|].
  destruct (start <? stop) eqn:E; [|constructor].
  apply N.ltb_lt in E. constructor; [cbn [fst snd]; lia | apply IH].
Qed.

Lemma ranges_wf start stop batch :
  1 <= batch -> Forall (fun r => fst r <= snd r /\ snd r < stop) (ranges start stop batch).
Proof. intros. now apply ranges_fuel_wf. Qed.

(* ---- fetch_range: every index of the range exactly once, in order, each
   labelled with its own index — whatever finite sequence of errors, empty
   answers and truncations the server produces first ---- *)
Definition diag (l : list N) : list item := map (fun i => (i, i)) l.

Lemma label_entries_nseq lo n : label_entries lo (nseq lo n) = diag (nseq lo n).
Proof.
  unfold label_entries. rewrite nseq_length.
  generalize (nseq lo n). induction l as [|x l IH]; simpl; auto. now rewrite IH.
Qed.

Lemma diag_app a b : diag (a ++ b) = diag a ++ diag b.
Proof. unfold diag. apply map_app. Qed.

Lemma serve_length lo hi k : length (serve lo hi k) = N.to_nat (N.min k (hi + 1 - lo)).
Proof. unfold serve. apply nseq_length. Qed.

Lemma fetch_range_prefix lo hi k r :
  fetch_range lo hi (APrefix k :: r) =
  let n := N.to_nat (N.min k (hi + 1 - lo)) in
  match n with
  | O => let '(q, d) := fetch_range lo hi r in (lo :: q, d)
  | S _ =>
      if hi <? lo + N.of_nat n then ([lo], diag (nseq lo n))
      else let '(q, d) := fetch_range (lo + N.of_nat n) hi r in (lo :: q, diag (nseq lo n) ++ d)
  end.
Proof.
  cbn [fetch_range]. unfold serve. cbv zeta.
  destruct (N.to_nat (N.min k (hi + 1 - lo))) as [|m] eqn:E; [reflexivity|].
  rewrite <- (label_entries_nseq lo (S m)).
  change (nseq lo (S m)) with (lo :: nseq (lo + 1) m) at 1.
  cbv iota. rewrite nseq_length. reflexivity.
Qed.

Theorem fetch_range_exact answers : forall lo hi,
  lo <= hi ->
  snd (fetch_range lo hi answers) = diag (nseq lo (N.to_nat (hi + 1 - lo))).
Proof.
  induction answers as [|a r IH]; intros lo hi Hle.
  - cbn [fetch_range snd]. unfold serve. rewrite N.min_id. apply label_entries_nseq.
  - destruct a as [|k].
    + cbn [fetch_range]. specialize (IH lo hi Hle). destruct (fetch_range lo hi r). exact IH.
    + rewrite fetch_range_prefix. cbv zeta.
      destruct (N.to_nat (N.min k (hi + 1 - lo))) as [|m] eqn:En.
      * specialize (IH lo hi Hle). destruct (fetch_range lo hi r). exact IH.
      * set (n := S m) in *.
        destruct (hi <? lo + N.of_nat n) eqn:E.
        -- apply N.ltb_lt in E. cbn [snd]. do 2 f_equal. lia.
        -- apply N.ltb_ge in E.
           specialize (IH (lo + N.of_nat n) hi E).
           destruct (fetch_range (lo + N.of_nat n) hi r) as [q d]. cbn [snd] in *.
           rewrite IH, <- diag_app, <- nseq_app.
           do 2 f_equal. lia.
Qed.

(* the requests of one range: the first asks for lo, all ask for something in [lo, hi] *)
Lemma fetch_range_requests answers : forall lo hi,
  lo <= hi ->
  Forall (fun s => lo <= s <= hi) (fst (fetch_range lo hi answers)) /\
  hd_error (fst (fetch_range lo hi answers)) = Some lo.
Proof.
  induction answers as [|a r IH]; intros lo hi Hle.
  - cbn. split; [constructor; [lia|constructor] | reflexivity].
  - destruct a as [|k].
    + cbn [fetch_range]. destruct (IH lo hi Hle) as [F _]. destruct (fetch_range lo hi r). cbn in *. split; auto. constructor; auto; lia.
    + rewrite fetch_range_prefix. cbv zeta.
      destruct (N.to_nat (N.min k (hi + 1 - lo))) as [|m] eqn:En.
      * destruct (IH lo hi Hle) as [F _]. destruct (fetch_range lo hi r). cbn in *. split; auto. constructor; auto; lia.
      * set (n := S m) in *.
        destruct (hi <? lo + N.of_nat n) eqn:E.
        -- cbn. split; [constructor; [lia|constructor] | reflexivity].
        -- apply N.ltb_ge in E. destruct (IH (lo + N.of_nat n) hi E) as [F _].
           destruct (fetch_range (lo + N.of_nat n) hi r). cbn in *. split; auto.
           constructor; [lia|]. eapply Forall_impl; [|exact F]. cbn. intros; lia.
Qed.

(* ---- the sequential scan ---- *)
Lemma zip_script_fst rs : forall sc, map fst (zip_script rs sc) = rs.
Proof. induction rs as [|r rs IH]; intros [|a sc]; cbn; auto; now rewrite IH. Qed.

Lemma scan_seq_delivered o start stop batch kinds script :
  1 <= batch ->
  s_delivered (scan_seq o start stop batch kinds script) = diag (nseq start (N.to_nat (stop - start))).
Proof.
  intros Hb. unfold scan_seq. cbn [s_delivered].
  rewrite <- (ranges_partition start stop batch Hb).
  pose proof (ranges_wf start stop batch Hb) as W.
  rewrite map_map.
  revert script W. generalize (ranges start stop batch) as rs.
  induction rs as [|r rs IH]; intros script W; [reflexivity|].
  inversion W as [|? ? [Hr _] W']; subst.
  assert (Step : forall a sc',
    concat (map (fun x => snd (snd (let '(r0, a0) := x in (snd r0, fetch_range (fst r0) (snd r0) a0))))
                ((r, a) :: zip_script rs sc')) =
    diag (concat (map indices (r :: rs)))).
  { intros a sc'. cbn [map concat]. rewrite IH by auto. cbn [snd].
    rewrite fetch_range_exact by auto. rewrite diag_app. reflexivity. }
  destruct script as [|a sc']; cbn [zip_script]; apply Step.
Qed.

(* totals only depend on the multiset of processed entries *)
Lemma fold_add_effect o start kinds l : forall c,
  fold_left (fun c it => add_effect c (item_effect o start kinds it)) l c =
  mkCnt (c_certs c + N.of_nat (length l))
        (c_pre c + fold_right (fun it a => e_pre (item_effect o start kinds it) + a) 0 l)
        (c_unp c + fold_right (fun it a => e_unp (item_effect o start kinds it) + a) 0 l)
        (c_nf c + fold_right (fun it a => e_nf (item_effect o start kinds it) + a) 0 l).
Proof.
  induction l as [|x l IH]; intros [a b c d].
  - cbn. f_equal; lia.
  - cbn [fold_left]. rewrite IH. unfold add_effect. cbn [c_certs c_pre c_unp c_nf fold_right length].
    f_equal; lia.
Qed.

Lemma fold_sum_perm (f : item -> N) l l' :
  Permutation l l' -> fold_right (fun it a => f it + a) 0 l = fold_right (fun it a => f it + a) 0 l'.
Proof. induction 1; cbn; lia. Qed.

Theorem totals_perm o start kinds l l' :
  Permutation l l' -> totals o start kinds l = totals o start kinds l'.
Proof.
  intros P. unfold totals. rewrite !fold_add_effect.
  rewrite (Permutation_length P).
  rewrite (fold_sum_perm (fun it => e_pre (item_effect o start kinds it)) l l' P).
  rewrite (fold_sum_perm (fun it => e_unp (item_effect o start kinds it)) l l' P).
  rewrite (fold_sum_perm (fun it => e_nf (item_effect o start kinds it)) l l' P).
  reflexivity.
Qed.

Lemma totals_certs o start kinds l : c_certs (totals o start kinds l) = N.of_nat (length l).
Proof. unfold totals. rewrite fold_add_effect. cbn. lia. Qed.

Lemma diag_length l : length (diag l) = length l.
Proof. unfold diag. apply map_length. Qed.

Theorem scan_seq_returns o start stop batch kinds script :
  1 <= batch -> start <= stop ->
  s_ret (scan_seq o start stop batch kinds script) = stop /\
  c_certs (s_counters (scan_seq o start stop batch kinds script)) = stop - start.
Proof.
  intros Hb Hle.
  pose proof (scan_seq_delivered o start stop batch kinds script Hb) as D.
  unfold scan_seq in *. cbn [s_delivered s_ret s_counters] in *.
  rewrite totals_certs, D, diag_length, nseq_length. lia.
Qed.

(* ---- counters with values: plain read-then-write loses updates, atomic
   increments never do ---- *)
Definition remaining (ts : list cthread) : N :=
  fold_right (fun t a => N.of_nat (length (snd t)) + a) 0 ts.

Definition all_atomic (ts : list cthread) : Prop :=
  Forall (fun t => Forall (fun op => op = CAtomicInc) (snd t)) ts.

Lemma remaining_set_nth ts i t t' :
  nth_error ts i = Some t ->
  remaining (set_nth ts i t') + N.of_nat (length (snd t)) = remaining ts + N.of_nat (length (snd t')).
Proof.
  assert (RC : forall y l, remaining (y :: l) = N.of_nat (length (snd y)) + remaining l) by reflexivity.
  revert i; induction ts as [|y ts IH]; intros [|i] H; cbn [nth_error set_nth] in *; try discriminate.
  - inversion H; subst. rewrite !RC. lia.
  - specialize (IH i H). rewrite !RC. lia.
Qed.

Lemma all_atomic_set_nth ts i t' :
  all_atomic ts -> Forall (fun op => op = CAtomicInc) (snd t') -> all_atomic (set_nth ts i t').
Proof.
  unfold all_atomic. revert i; induction ts as [|y ts IH]; intros [|i] H Ht; cbn; auto;
    inversion H; subst; constructor; auto.
Qed.

Theorem atomic_counter_exact sched : forall ts x ts' x',
  all_atomic ts -> crun ts x sched = (ts', x') ->
  x' + remaining ts' = x + remaining ts /\ all_atomic ts'.
Proof.
  induction sched as [|i s IH]; intros ts x ts' x' A R; cbn in R.
  - inversion R; subst. auto.
  - destruct (nth_error ts i) as [t|] eqn:E; [|eauto].
    destruct t as [r p].
    assert (Ap : Forall (fun op => op = CAtomicInc) p).
    { unfold all_atomic in A. rewrite Forall_forall in A. apply (A (r, p)). eapply nth_error_In; eauto. }
    destruct p as [|op p].
    + cbn in R. destruct (IH _ _ _ _ (all_atomic_set_nth ts i (r, []) A Ap) R) as [H1 H2].
      split; auto. pose proof (remaining_set_nth ts i (r, []) (r, []) E). cbn in *. lia.
    + inversion Ap as [|? ? Hop Ap']; subst. cbn in R.
      destruct (IH _ _ _ _ (all_atomic_set_nth ts i (r, p) A Ap') R) as [H1 H2].
      split; auto. pose proof (remaining_set_nth ts i (r, CAtomicInc :: p) (r, p) E). cbn in *. lia.
Qed.

(* two matchers, each "tmp := x; x := tmp + 1" (what x++ compiles to): the
   schedule load, load, store, store leaves 1, not 2 *)
Lemma counter_lost_update_refuted :
  snd (crun [(0, [CLoad; CStoreInc]); (0, [CLoad; CStoreInc])] 0 [0; 1; 0; 1]%nat) = 1
  /\ remaining (fst (crun [(0, [CLoad; CStoreInc]); (0, [CLoad; CStoreInc])] 0 [0; 1; 0; 1]%nat)) = 0.
Proof. vm_compute. split; reflexivity. Qed.
