(* C34 — proofs: the activeCall interlock model, and the generic phase/lock
   theorems instantiated on the generated summary of tls/conn.go. *)
From Coq Require Import String.
From Coq Require Import List NArith Bool Arith Lia Relations.
From Verif Require Import Harness Lts LtsPhase.
From VerifGen Require Import C34Summary_gen.
From VerifModel Require Import C34 C34Summary.
Import ListNotations.

(* ================================================================ T3 *)
Lemma races_checked : check_races = true.
Proof. vm_compute. reflexivity. Qed.

Lemma order_checked : check_order = true.
Proof. vm_compute. reflexivity. Qed.

Lemma keyupdate_checked : check_keyupdate = true.
Proof. vm_compute. reflexivity. Qed.

(* the shape a seeded change produced (reply KeyUpdate sent in one critical
   section of c.out, key switched in the next) is rejected *)
Definition split_key_update : xprog :=
  [AssertP PDone; B (Acquire "in");
   B (Acquire "out"); B (Write "@writeRecord"); B (Release "out");
   B (Acquire "out"); B (Read "out.trafficSecret"); B (Write "out.trafficSecret"); B (Release "out");
   B (Release "in")]%string.

Lemma split_key_update_rejected : key_switch_atomic [] KUnknown false split_key_update = false.
Proof. vm_compute. reflexivity. Qed.

Lemma summary_checked : summary_ok = true.
Proof. vm_compute. reflexivity. Qed.

Lemma forallb_drawn {A} (f : A -> bool) (pool ps : list A) :
  forallb f pool = true -> (forall p, In p ps -> In p pool) -> forallb f ps = true.
Proof.
  intros H D. apply forallb_forall. intros p Hp. rewrite forallb_forall in H. auto.
Qed.

(* Any number of goroutines, each running any of the summarised paths that does
   not renegotiate: no reachable state has two of them about to perform
   conflicting accesses to a field of the connection. *)
Theorem conn_fields_guarded : forall ps,
  (forall p, In p ps -> In p race_paths) ->
  forall st, xreachable hs ps st -> ~ xrace st.
Proof.
  intros ps D. apply (phase_lockset_race_free hs pol).
  eapply forallb_drawn; [exact races_checked | exact D].
Qed.

(* Any number of goroutines, each running any summarised path (renegotiation
   included): no reachable state contains a cycle of goroutines each waiting for
   a lock the next one holds. *)
Theorem conn_lock_order_phase_acyclic : forall ps,
  (forall p, In p ps -> In p all_paths) ->
  forall st, xreachable hs ps st -> forall i, ~ clos_trans nat (xwf_edge (snd st)) i i.
Proof.
  intros ps D. apply (phase_ordered_deadlock_free hs rank1 rank2).
  eapply forallb_drawn; [exact order_checked | exact D].
Qed.

(* the single-rank order is NOT enough for this code: handshake() takes in while
   holding handshakeMutex, renegotiation takes handshakeMutex while holding in *)
Definition hs_then_in : prog := [Acquire hs; Acquire "in"; Release "in"; Release hs]%string.
Definition in_then_hs : prog := [Acquire "in"; Acquire hs; Release hs; Release "in"]%string.

Lemma plain_order_impossible : forall rank : lock -> nat,
  forallb (ordered_from rank []) [hs_then_in; in_then_hs] = false.
Proof.
  intros rank. unfold hs_then_in, in_then_hs. simpl.
  destruct (Nat.ltb (rank hs) (rank "in"%string)) eqn:A; simpl; auto.
  apply Nat.ltb_lt in A.
  destruct (Nat.ltb (rank "in"%string) (rank hs)) eqn:Bq; simpl; auto.
  apply Nat.ltb_lt in Bq. lia.
Qed.

(* what goes wrong without the phase argument: the two shapes do deadlock in the
   plain semantics *)
Lemma reach_head34 s0 s1 s lbl : lstep s0 lbl s1 -> reachable_from s1 s -> reachable_from s0 s.
Proof.
  intros H R. induction R; [eapply reach_step; [apply reach_refl | exact H] | eapply reach_step; eauto].
Qed.

Lemma plain_semantics_deadlocks :
  exists s, reachable [hs_then_in; in_then_hs] s /\ clos_trans nat (wf_edge s) 0%nat 0%nat.
Proof.
  exists [mkT [hs] [Acquire "in"; Release "in"; Release hs];
          mkT ["in"] [Acquire hs; Release hs; Release "in"]]%string.
  split.
  - unfold reachable, init, hs_then_in, in_then_hs. cbn [map].
    eapply reach_head34.
    { eapply (lstep_intro _ 0%nat); [reflexivity | reflexivity |].
      intros j [t [Hn Hin]]. destruct j as [|[|j]]; simpl in Hn.
      - inversion Hn; subst. inversion Hin.
      - inversion Hn; subst. inversion Hin.
      - destruct j; discriminate. }
    cbn [upd held_after held].
    eapply reach_head34.
    { eapply (lstep_intro _ 1%nat); [reflexivity | reflexivity |].
      intros j [t [Hn Hin]]. destruct j as [|[|j]]; simpl in Hn.
      - inversion Hn; subst. simpl in Hin. destruct Hin as [E|[]]. discriminate.
      - inversion Hn; subst. inversion Hin.
      - destruct j; discriminate. }
    cbn [upd held_after held]. apply reach_refl.
  - apply t_trans with 1%nat.
    + apply t_step. exists "in"%string. split.
      * eexists _, _. split; reflexivity.
      * eexists. split; [reflexivity | simpl; auto].
    + apply t_step. exists hs. split.
      * eexists _, _. split; reflexivity.
      * eexists. split; [reflexivity | simpl; auto].
Qed.

(* ================================================================ activeCall *)
Open Scope N_scope.

(* the word always encodes (2 x Writes in flight) + closed bit *)
Definition ac_wf (s : acstate) : Prop :=
  ac s = 2 * N.of_nat (parked s) + (if closed_bit s then 1 else 0).

Lemma odd_2n_plus (n : N) (b : bool) : N.odd (2 * n + (if b then 1 else 0)) = b.
Proof.
  rewrite N.add_comm, N.odd_add_mul_2. destruct b; reflexivity.
Qed.

Lemma lor_2n_1 (n : N) : N.lor (2 * n) 1 = 2 * n + 1.
Proof. destruct n; reflexivity. Qed.

Lemma odd_even_form (n : N) : N.odd (2 * n) = false.
Proof. pose proof (odd_2n_plus n false) as H. cbv iota in H. now rewrite N.add_0_r in H. Qed.

Lemma odd_odd_form (n : N) : N.odd (2 * n + 1) = true.
Proof. apply (odd_2n_plus n true). Qed.

(* ac_wf, split by the closed bit *)
Lemma ac_wf_cases s : ac_wf s <->
  (closed_bit s = true /\ ac s = 2 * N.of_nat (parked s) + 1) \/
  (closed_bit s = false /\ ac s = 2 * N.of_nat (parked s)).
Proof.
  unfold ac_wf. destruct (closed_bit s); split.
  - intros H. left. auto.
  - intros [[_ H]|[H _]]; [exact H | discriminate].
  - intros H. right. split; auto. lia.
  - intros [[H _]|[_ H]]; [discriminate | lia].
Qed.

Lemma ac_wf_intro (a : N) (p : nat) (tc : bool) :
  a = 2 * N.of_nat p + 1 \/ a = 2 * N.of_nat p -> ac_wf (mkAc a p tc).
Proof.
  intros [->| ->]; apply ac_wf_cases; unfold closed_bit; simpl ac; simpl parked.
  - left. split; auto. apply odd_odd_form.
  - right. split; auto. apply odd_even_form.
Qed.

Lemma ac_wf_step s e : ac_wf s -> ac_wf (fst (ac_step s e)).
Proof.
  intros W. pose proof W as W0. apply ac_wf_cases in W as [[C A]|[C A]]; unfold ac_step; rewrite C.
  - (* closed *)
    destruct e; simpl; auto.
    destruct (parked s) as [|p] eqn:P; simpl; auto.
    apply ac_wf_intro. left. rewrite A. lia.
  - destruct e; simpl.
    + apply ac_wf_intro. right. rewrite A. lia.
    + destruct (parked s) as [|p] eqn:P; simpl; auto.
      apply ac_wf_intro. right. rewrite A. lia.
    + destruct (N.eqb (ac s) 0) eqn:Z; simpl.
      * apply N.eqb_eq in Z. apply ac_wf_intro. left. lia.
      * apply ac_wf_intro. left. rewrite A. apply lor_2n_1.
Qed.

Lemma closed_bit_sticky s e : ac_wf s -> closed_bit s = true -> closed_bit (fst (ac_step s e)) = true.
Proof.
  intros W C. apply ac_wf_cases in W as [[_ A]|[C' _]]; [|congruence].
  unfold ac_step. rewrite C.
  destruct e; simpl; auto.
  destruct (parked s) as [|p] eqn:P; simpl; auto.
  unfold closed_bit. simpl. replace (ac s - 2) with (2 * N.of_nat p + 1) by lia. apply odd_odd_form.
Qed.

(* once Close has set the bit, every later Write or Close returns ErrClosed and changes nothing *)
Theorem no_write_after_close_bit : forall es s,
  ac_wf s -> closed_bit s = true ->
  Forall2 (fun e o => e <> ERelease -> o = (1, false)) es (ac_run s es) /\
  closed_bit (ac_after s es) = true.
Proof.
  induction es as [|e es IH]; intros s W C; simpl.
  - split; auto.
  - pose proof (closed_bit_sticky s e W C) as C'.
    pose proof (ac_wf_step s e W) as W'.
    destruct (ac_step s e) as [s' o] eqn:E. simpl in C', W'.
    destruct (IH s' W' C') as (F & Cl).
    split; auto. constructor; auto.
    intros N. unfold ac_step in E. destruct e; try congruence; rewrite C in E; now inversion E.
Qed.

(* the first Close: with a Write in flight it closes the transport without
   sending the alert (it never waits for c.out); with none it sends close_notify *)
Theorem close_waits_or_interrupts : forall s,
  ac_wf s -> closed_bit s = false ->
  let '(s', (code, alert)) := ac_step s EClose in
  code = 2 /\ tclosed s' = true /\ closed_bit s' = true /\
  (alert = true <-> parked s = 0%nat).
Proof.
  intros s W C. apply ac_wf_cases in W as [[C' _]|[_ A]]; [congruence|].
  unfold ac_step. rewrite C.
  destruct (N.eqb (ac s) 0) eqn:Z.
  - apply N.eqb_eq in Z. repeat split; auto. intros _. lia.
  - apply N.eqb_neq in Z. repeat split; auto.
    + unfold closed_bit. simpl. rewrite A, lor_2n_1. apply odd_odd_form.
    + intros X. discriminate.
    + intros X. exfalso. apply Z. rewrite A, X. reflexivity.
Qed.

Lemma ac_wf_run es : forall s, ac_wf s -> ac_wf (ac_after s es).
Proof. induction es as [|e es IH]; intros s W; simpl; auto. apply IH. now apply ac_wf_step. Qed.

Lemma ac_nonvacuous :
  ac_run ac_init [EWrite; EClose; EWrite; ERelease; EClose] =
  [(0, false); (2, false); (1, false); (3, false); (1, false)].
Proof. vm_compute. reflexivity. Qed.
