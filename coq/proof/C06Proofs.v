(* Proofs about the C06 model (model/C06.v): raw fields are the elements at
   their paths, version, self-signed flag, fingerprints. *)
From Coq Require Import List NArith ZArith Bool Arith Lia.
From Verif Require Import Harness.
From VerifModel Require Import C22Tlv C06.
From VerifProof Require Import C22TlvProofs.
Import ListNotations.
Open Scope N_scope.

(* ------------------------------------------------------------------ *)
(* elements *)

Lemma raw_prefix_app2 (x y : bytes) : raw_prefix (x ++ y) y = x.
Proof.
  unfold raw_prefix. rewrite app_length.
  replace (length x + length y - length y)%nat with (length x) by lia.
  rewrite firstn_app, Nat.sub_diag, firstn_all. cbn [firstn]. apply app_nil_r.
Qed.

(* [next] delimits exactly one self-contained TLV: the raw slice followed by
   the rest is the input, the raw slice is header ++ content, and it reads the
   same whatever follows it *)
Theorem next_spec bs t c raw rest :
  next bs = Some (t, c, raw, rest) ->
  bs = raw ++ rest /\
  exists h, raw = h ++ c /\ (2 <= length h)%nat /\ N.of_nat (length c) = t_len t /\
            forall rest', next (raw ++ rest') = Some (t, c, raw, rest').
Proof.
  unfold next. destruct (take_tlv bs) as [[[t0 c0] r0]|] eqn:E; [|discriminate].
  intros H; inversion H; subst.
  destruct (take_tlv_raw _ _ _ _ E) as (h & -> & Hh & Hl & Hr).
  rewrite raw_prefix_app. split; [rewrite app_assoc; reflexivity|].
  exists h. split; [reflexivity|]. split; [exact Hh|]. split; [exact Hl|].
  intros rest'. rewrite <- app_assoc, Hr, raw_prefix_app. reflexivity.
Qed.

Definition single_tlv (raw : bytes) : Prop :=
  exists t c, next raw = Some (t, c, raw, []).

Lemma next_single bs t c raw rest : next bs = Some (t, c, raw, rest) -> single_tlv raw.
Proof.
  intros H. destruct (next_spec _ _ _ _ _ H) as (_ & h & _ & _ & _ & Hr).
  exists t, c. specialize (Hr []). rewrite app_nil_r in Hr. exact Hr.
Qed.

Lemma next_raw_nonempty bs t c raw rest : next bs = Some (t, c, raw, rest) -> raw <> [].
Proof.
  intros H. destruct (next_spec _ _ _ _ _ H) as (_ & h & -> & Hh & _).
  destruct h; [simpl in Hh; lia|discriminate].
Qed.

Lemma take_elems_nth n : forall c l r i,
  take_elems n c = Some (l, r) -> (i < n)%nat -> nth_raw (S i) i c = nth_error l i.
Proof.
  induction n as [|n IH]; intros c l r i H Hi; [lia|].
  cbn [take_elems] in H. destruct (next c) as [[[[t b] raw] rest]|] eqn:E; [|discriminate].
  destruct (take_elems n rest) as [[l' r']|] eqn:E'; [|discriminate].
  injection H as Hl Hr. subst l r.
  destruct i as [|i].
  - cbn [nth_raw]. rewrite E. reflexivity.
  - change (nth_raw (S (S i)) (S i) c) with
      (match next c with Some (_, _, _, rest0) => nth_raw (S i) i rest0 | None => None end).
    rewrite E. cbn [nth_error]. apply (IH rest l' r' i E'). lia.
Qed.

(* ------------------------------------------------------------------ *)
(* the version field *)

Lemma version_step_spec c vraw ver c2 :
  version_step c = Some (vraw, ver, c2) ->
  (vraw = [] /\ ver = 0%Z /\ c2 = c) \/
  (vraw <> [] /\ c = vraw ++ c2 /\
   exists t r t2 b2, parse_tl c = Some (t, r) /\ t_class t = 2 /\ t_tag t = 0 /\
                     take_tlv r = Some (t2, b2, c2) /\ hdr_is t2 0 false 2 = true /\
                     int64_val b2 = Some ver).
Proof.
  unfold version_step. destruct (parse_tl c) as [[t r]|] eqn:E; [|discriminate].
  destruct r as [|x r']; [discriminate|].
  destruct (hdr_is t 2 (t_comp t) 0 && ((t_len t =? 0) || t_comp t)) eqn:Hm.
  - destruct (t_len t =? 0); [discriminate|].
    destruct (take_tlv (x :: r')) as [[[t2 b2] rest]|] eqn:E2; [|discriminate].
    destruct (hdr_is t2 0 false 2) eqn:H2; [|discriminate].
    destruct (int64_val b2) as [v|] eqn:Ev; [|discriminate].
    intros H; inversion H; subst. right.
    destruct (parse_tl_prefix _ _ _ E) as (h & Ec & Hh & _).
    destruct (take_tlv_raw _ _ _ _ E2) as (h2 & Er & _ & _ & _).
    assert (Ec' : c = (h ++ h2 ++ b2) ++ c2).
    { rewrite Ec, Er. rewrite <- !app_assoc. reflexivity. }
    assert (Hraw : raw_prefix c c2 = h ++ h2 ++ b2) by (rewrite Ec' at 1; apply raw_prefix_app2).
    rewrite Hraw.
    split. { destruct h; [simpl in Hh; lia|discriminate]. }
    split; [exact Ec'|].
    apply andb_prop in Hm. destruct Hm as [Hm _]. unfold hdr_is in Hm.
    apply andb_prop in Hm. destruct Hm as [Hm Ht]. apply andb_prop in Hm. destruct Hm as [Hc _].
    apply N.eqb_eq in Hc, Ht.
    exists t, (x :: r'), t2, b2. repeat split; assumption.
  - intros H; inversion H; subst. left. repeat split.
Qed.

(* the meaning of the INTEGER value: big-endian two's complement *)
Lemma be_val_fold : forall c acc,
  fold_left (fun a b => a * 256 + b) c acc = acc * 256 ^ N.of_nat (length c) + be_val c.
Proof.
  unfold be_val. induction c as [|b c IH]; intros acc.
  - cbn [fold_left length]. change (256 ^ N.of_nat 0) with 1. lia.
  - cbn [fold_left length]. rewrite IH. rewrite (IH (0 * 256 + b)).
    replace (N.of_nat (S (length c))) with (N.succ (N.of_nat (length c))) by lia.
    rewrite N.pow_succ_r'. lia.
Qed.

Theorem int64_val_spec c z :
  int64_val c = Some z ->
  c <> [] /\ (length c <= 8)%nat /\
  z = if (hd 0 c <? 128)%N then Z.of_N (be_val c)
      else (Z.of_N (be_val c) - 2 ^ (8 * Z.of_nat (length c)))%Z.
Proof.
  unfold int64_val. destruct (int_ok c) eqn:Ho; [|discriminate].
  destruct (Nat.leb_spec (length c) 8) as [L|L]; [|discriminate]. cbn [andb].
  intros H; inversion H; subst. split; [destruct c; [discriminate|discriminate]|].
  split; [exact L|reflexivity].
Qed.

(* ------------------------------------------------------------------ *)
(* the certificate walk *)

Section Walk.
  Variables md5 sha1 sha256 : bytes -> bytes.
  Variable sigok : bytes -> bool.
  Notation meta_of := (meta_of md5 sha1 sha256 sigok).

  Lemma meta_of_parts bs m :
    meta_of bs = Some m ->
    exists raw_tbs p, cert_parts bs = Some (raw_tbs, p) /\
      m = mkMeta bs raw_tbs (p_issuer_raw p) (p_subject_raw p) (p_spki_raw p)
                 (p_version p + 1)%Z
                 (bytes_eqb (p_subject_raw p) (p_issuer_raw p) && sigok bs)
                 (md5 bs) (sha1 bs) (sha256 bs)
                 (sha256 (p_spki_raw p)) (sha256 raw_tbs) (sha256 (noct_tbs p))
                 (sha256 (p_spki_raw p ++ p_subject_raw p))
                 (validity_of (p_validity_raw p)).
  Proof.
    unfold C06.meta_of. destruct (cert_parts bs) as [[raw_tbs p]|]; [|discriminate].
    intros H; inversion H; subst. exists raw_tbs, p. split; reflexivity.
  Qed.

  Theorem fingerprints_are_hashes bs m :
    meta_of bs = Some m ->
    m_raw m = bs /\
    m_fp_md5 m = md5 (m_raw m) /\ m_fp_sha1 m = sha1 (m_raw m) /\ m_fp_sha256 m = sha256 (m_raw m) /\
    m_fp_spki m = sha256 (m_raw_spki m) /\ m_fp_tbs m = sha256 (m_raw_tbs m) /\
    m_fp_spki_subject m = sha256 (m_raw_spki m ++ m_raw_subject m) /\
    exists raw_tbs p, cert_parts bs = Some (raw_tbs, p) /\ m_fp_noct m = sha256 (noct_tbs p).
  Proof.
    intros H. destruct (meta_of_parts _ _ H) as (raw_tbs & p & Hp & ->). cbn.
    repeat split; try reflexivity. exists raw_tbs, p. split; [exact Hp|reflexivity].
  Qed.

  Lemma bytes_eqb_refl a : bytes_eqb a a = true.
  Proof. apply list_eqb_refl. intros x; apply N.eqb_refl. Qed.

  Theorem self_signed_iff bs m :
    meta_of bs = Some m ->
    (m_self_signed m = true <-> m_raw_issuer m = m_raw_subject m /\ sigok bs = true).
  Proof.
    intros H. destruct (meta_of_parts _ _ H) as (raw_tbs & p & Hp & ->). cbn. split.
    - intros E. apply andb_prop in E. destruct E as [E1 E2]. apply bytes_eqb_eq in E1. split; [symmetry; exact E1|exact E2].
    - intros [E1 E2]. rewrite E1, bytes_eqb_refl, E2. reflexivity.
  Qed.

  Theorem version_plus_one bs m :
    meta_of bs = Some m ->
    exists raw_tbs p, cert_parts bs = Some (raw_tbs, p) /\ m_version m = (p_version p + 1)%Z.
  Proof.
    intros H. destruct (meta_of_parts _ _ H) as (raw_tbs & p & Hp & ->). exists raw_tbs, p. split; [exact Hp|reflexivity].
  Qed.
End Walk.

(* what cert_parts found, spelled out *)
Lemma parse_tbs_inv c1 p :
  parse_tbs c1 = Some p ->
  exists c2 l c3,
    version_step c1 = Some (p_version_raw p, p_version p, c2) /\
    take_elems 6 c2 = Some (l, c3) /\
    (exists t1 b1 t2 b2 t3 b3 t4 b4 t5 b5 t6 b6,
       l = [(t1, b1, p_serial_raw p); (t2, b2, p_sigalg_raw p); (t3, b3, p_issuer_raw p);
            (t4, b4, p_validity_raw p); (t5, b5, p_subject_raw p); (t6, b6, p_spki_raw p)] /\
       hdr_is t1 0 false 2 = true /\ int_ok b1 = true /\ hdr_is t2 0 true 16 = true /\
       hdr_is t4 0 true 16 = true /\ hdr_is t6 0 true 16 = true).
Proof.
  unfold parse_tbs. destruct (version_step c1) as [[[vraw ver] c2]|] eqn:Ev; [|discriminate].
  destruct (take_elems 6 c2) as [[l c3]|] eqn:El; [|discriminate].
  destruct l as [|[[t1 b1] r1] l]; [discriminate|]. destruct l as [|[[t2 b2] r2] l]; [discriminate|].
  destruct l as [|[[t3 b3] r3] l]; [discriminate|]. destruct l as [|[[t4 b4] r4] l]; [discriminate|].
  destruct l as [|[[t5 b5] r5] l]; [discriminate|]. destruct l as [|[[t6 b6] r6] l]; [discriminate|].
  destruct l; [|discriminate].
  destruct (hdr_is t1 0 false 2 && int_ok b1 && hdr_is t2 0 true 16 && hdr_is t4 0 true 16 && hdr_is t6 0 true 16) eqn:Hc; [|discriminate].
  destruct (opt_bits 1 c3) as [[uid1 c4]|]; [|discriminate].
  destruct (opt_bits 2 c4) as [[uid2 c5]|]; [|discriminate].
  destruct (ext_step c5) as [exts|]; [|discriminate].
  intros H; inversion H; subst. cbn.
  apply andb_prop in Hc; destruct Hc as [Hc A6].
  apply andb_prop in Hc; destruct Hc as [Hc A4].
  apply andb_prop in Hc; destruct Hc as [Hc A2].
  apply andb_prop in Hc; destruct Hc as [A1 Ai].
  exists c2, [(t1, b1, r1); (t2, b2, r2); (t3, b3, r3); (t4, b4, r4); (t5, b5, r5); (t6, b6, r6)], c3.
  split; [reflexivity|]. split; [exact El|].
  exists t1, b1, t2, b2, t3, b3, t4, b4, t5, b5, t6, b6. repeat split; assumption.
Qed.

Lemma cert_parts_inv bs raw_tbs p :
  cert_parts bs = Some (raw_tbs, p) ->
  exists t c t1 c1 r1,
    take_tlv bs = Some (t, c, []) /\ hdr_is t 0 true 16 = true /\
    next c = Some (t1, c1, raw_tbs, r1) /\ hdr_is t1 0 true 16 = true /\
    parse_tbs c1 = Some p.
Proof.
  unfold cert_parts. destruct (take_tlv bs) as [[[t c] rest]|] eqn:E; [|discriminate].
  destruct rest; [|discriminate].
  destruct (hdr_is t 0 true 16) eqn:H0; [|discriminate].
  destruct (next c) as [[[[t1 c1] raw] r1]|] eqn:E1; [|discriminate].
  destruct (hdr_is t1 0 true 16) eqn:H1; [|discriminate].
  destruct (parse_tbs c1) as [p'|] eqn:Ep; [|discriminate].
  intros H; inversion H; subst. exists t, c, t1, c1, r1. repeat split; assumption.
Qed.

(* index of the first field after the optional version element *)
Definition vk (p : tbs_parts) : nat := match p_version_raw p with [] => 0 | _ => 1 end.

(* Every raw field is the element at its path in the DER tree of the input:
   certificate = child 0 of the input, TBS = its child 0, and below the TBS
   serial, signature algorithm, issuer, validity, subject, SPKI are children
   k .. k+5 where k = 1 iff the version element is present.  When it is
   present the statement assumes that Go's delimitation of the version element
   is the tree's (premise [Hver]: the inner INTEGER fills the [0] wrapper
   exactly; parseField does not check this). *)
Theorem raw_at_paths bs raw_tbs p :
  cert_parts bs = Some (raw_tbs, p) ->
  elem_at [0%nat] bs = Some bs /\
  elem_at [0; 0]%nat bs = Some raw_tbs /\
  single_tlv bs /\ single_tlv raw_tbs /\
  ((vk p = 1%nat -> elem_at [0; 0; 0]%nat bs = Some (p_version_raw p)) ->
   elem_at [0; 0; vk p]%nat bs = Some (p_serial_raw p) /\
   elem_at [0; 0; vk p + 1]%nat bs = Some (p_sigalg_raw p) /\
   elem_at [0; 0; vk p + 2]%nat bs = Some (p_issuer_raw p) /\
   elem_at [0; 0; vk p + 3]%nat bs = Some (p_validity_raw p) /\
   elem_at [0; 0; vk p + 4]%nat bs = Some (p_subject_raw p) /\
   elem_at [0; 0; vk p + 5]%nat bs = Some (p_spki_raw p)).
Proof.
  intros H. destruct (cert_parts_inv _ _ _ H) as (t & c & t1 & c1 & r1 & E0 & H0 & E1 & H1 & Ep).
  assert (N0 : next bs = Some (t, c, bs, [])).
  { unfold next. rewrite E0. unfold raw_prefix. cbn [length]. rewrite Nat.sub_0_r, firstn_all. reflexivity. }
  assert (P0 : elem_at [0%nat] bs = Some bs).
  { cbn [elem_at nth_raw]. rewrite N0. reflexivity. }
  assert (P1 : elem_at [0; 0]%nat bs = Some raw_tbs).
  { cbn [elem_at nth_raw]. rewrite N0, E1. reflexivity. }
  split; [exact P0|]. split; [exact P1|].
  split; [exists t, c; exact N0|]. split; [eapply next_single; exact E1|].
  intros Hver.
  destruct (parse_tbs_inv _ _ Ep) as (c2 & l & c3 & Ev & El & t1' & b1 & t2 & b2 & t3 & b3 & t4 & b4 & t5 & b5 & t6 & b6 & -> & _).
  assert (Hpath : forall j, elem_at [0; 0; j]%nat bs = match nth_raw (S j) j c1 with Some (_, _, raw) => Some raw | None => None end).
  { intros j. cbn [elem_at]. cbn [nth_raw]. rewrite N0, E1. reflexivity. }
  assert (Hshift : forall j, (j < 6)%nat ->
            nth_raw (S (vk p + j)) (vk p + j) c1 =
            nth_error [(t1', b1, p_serial_raw p); (t2, b2, p_sigalg_raw p); (t3, b3, p_issuer_raw p);
                       (t4, b4, p_validity_raw p); (t5, b5, p_subject_raw p); (t6, b6, p_spki_raw p)] j).
  { intros j Hj. destruct (version_step_spec _ _ _ _ Ev) as [(Hv & _ & ->)|(Hv & Hc1 & _)].
    - unfold vk. rewrite Hv. cbn [Nat.add]. eapply take_elems_nth; [exact El|exact Hj].
    - assert (Hk : vk p = 1%nat). { unfold vk. destruct (p_version_raw p); [contradiction|reflexivity]. }
      specialize (Hver Hk). rewrite Hpath in Hver. cbn [nth_raw] in Hver.
      destruct (next c1) as [[[[tv bv] rawv] restv]|] eqn:Ec1; [|discriminate].
      inversion Hver; subst rawv.
      destruct (next_spec _ _ _ _ _ Ec1) as (Hc1' & _).
      assert (restv = c2). { rewrite Hc1 in Hc1' at 1. apply app_inv_head in Hc1'. symmetry. exact Hc1'. }
      subst restv. rewrite Hk.
      change (nth_raw (S (1 + j)) (1 + j) c1) with
        (match next c1 with Some (_, _, _, rest0) => nth_raw (S j) j rest0 | None => None end).
      rewrite Ec1. eapply take_elems_nth; [exact El|exact Hj]. }
  assert (G : forall j x, (j < 6)%nat ->
            nth_error [(t1', b1, p_serial_raw p); (t2, b2, p_sigalg_raw p); (t3, b3, p_issuer_raw p);
                       (t4, b4, p_validity_raw p); (t5, b5, p_subject_raw p); (t6, b6, p_spki_raw p)] j = Some x ->
            elem_at [0; 0; vk p + j]%nat bs = Some (snd x)).
  { intros j x Hj Hx. rewrite Hpath, (Hshift j Hj), Hx. destruct x as [[? ?] ?]. reflexivity. }
  split; [rewrite <- (Nat.add_0_r (vk p)); apply (G 0%nat _ ltac:(lia) eq_refl)|].
  split; [apply (G 1%nat _ ltac:(lia) eq_refl)|].
  split; [apply (G 2%nat _ ltac:(lia) eq_refl)|].
  split; [apply (G 3%nat _ ltac:(lia) eq_refl)|].
  split; [apply (G 4%nat _ ltac:(lia) eq_refl)|apply (G 5%nat _ ltac:(lia) eq_refl)].
Qed.

(* the encoded version: absent = 0, otherwise the INTEGER inside the [0] element *)
Theorem version_is_encoded bs raw_tbs p :
  cert_parts bs = Some (raw_tbs, p) ->
  (p_version_raw p = [] /\ p_version p = 0%Z) \/
  (exists c1 t r t2 b2 c2,
     single_tlv raw_tbs /\ (exists t1, next raw_tbs = Some (t1, c1, raw_tbs, [])) /\
     parse_tl c1 = Some (t, r) /\ t_class t = 2 /\ t_tag t = 0 /\
     take_tlv r = Some (t2, b2, c2) /\ hdr_is t2 0 false 2 = true /\
     int64_val b2 = Some (p_version p)).
Proof.
  intros H. destruct (cert_parts_inv _ _ _ H) as (t & c & t1 & c1 & r1 & E0 & H0 & E1 & H1 & Ep).
  destruct (parse_tbs_inv _ _ Ep) as (c2 & l & c3 & Ev & _).
  destruct (version_step_spec _ _ _ _ Ev) as [(Hv & Hz & _)|(Hv & Hc1 & tt & r & t2 & b2 & A & B & C & D & E & F)].
  - left. split; assumption.
  - right. exists c1, tt, r, t2, b2, c2.
    split; [eapply next_single; exact E1|]. split.
    { exists t1. destruct (next_spec _ _ _ _ _ E1) as (_ & h & _ & _ & _ & Hr).
      specialize (Hr []). rewrite app_nil_r in Hr. exact Hr. }
    repeat split; assumption.
Qed.

(* the metadata record carries exactly what the walk found *)
Theorem meta_raw_fields md5 sha1 sha256 sigok bs m :
  meta_of md5 sha1 sha256 sigok bs = Some m ->
  exists raw_tbs p, cert_parts bs = Some (raw_tbs, p) /\
    m_raw m = bs /\ m_raw_tbs m = raw_tbs /\ m_raw_issuer m = p_issuer_raw p /\
    m_raw_subject m = p_subject_raw p /\ m_raw_spki m = p_spki_raw p /\
    m_version m = (p_version p + 1)%Z.
Proof.
  intros H. destruct (meta_of_parts _ _ _ _ _ _ H) as (raw_tbs & p & Hp & ->).
  exists raw_tbs, p. repeat split; try reflexivity. exact Hp.
Qed.

Lemma nth_raw_single fuel : forall i c t b raw,
  nth_raw fuel i c = Some (t, b, raw) -> single_tlv raw.
Proof.
  induction fuel as [|fuel IH]; intros i c t b raw H; cbn [nth_raw] in H; [discriminate|].
  destruct (next c) as [[[[t0 b0] raw0] rest]|] eqn:E; [|discriminate].
  destruct i as [|i]; [inversion H; subst; eapply next_single; exact E|eapply IH; exact H].
Qed.

(* ValidityPeriod: difference of the two times of the Validity element, each read
   as a civil date and converted to seconds since the epoch *)
Theorem validity_is_difference md5 sha1 sha256 sigok bs m v :
  meta_of md5 sha1 sha256 sigok bs = Some m -> m_validity m = Some v ->
  exists raw_tbs p tv c rest t1 c1 r1 t2 c2 r2 rest2 a b,
    cert_parts bs = Some (raw_tbs, p) /\
    next (p_validity_raw p) = Some (tv, c, rest, []) /\ rest = p_validity_raw p /\
    take_elems 2 c = Some ([(t1, c1, r1); (t2, c2, r2)], rest2) /\
    time_secs (t_tag t1) c1 = Some a /\ time_secs (t_tag t2) c2 = Some b /\ v = (b - a)%Z.
Proof.
  intros H Hv. destruct (meta_of_parts _ _ _ _ _ _ H) as (raw_tbs & p & Hp & ->).
  cbn [m_validity] in Hv. unfold validity_of in Hv.
  destruct (next (p_validity_raw p)) as [[[[tv c] raw] rest]|] eqn:En; [|discriminate].
  destruct (take_elems 2 c) as [[l rest2]|] eqn:Et; [|discriminate].
  destruct l as [|[[t1 c1] r1] l]; [discriminate|]. destruct l as [|[[t2 c2] r2] l]; [discriminate|].
  destruct l; [|discriminate].
  destruct (negb (t_comp t1) && (t_class t1 =? 0) && negb (t_comp t2) && (t_class t2 =? 0)); [|discriminate].
  destruct (time_secs (t_tag t1) c1) as [a|] eqn:Ea; [|discriminate].
  destruct (time_secs (t_tag t2) c2) as [b|] eqn:Eb; [|discriminate].
  inversion Hv; subst v.
  destruct (cert_parts_inv _ _ _ Hp) as (t & c0 & t1' & c1' & r1' & _ & _ & _ & _ & Ep).
  destruct (parse_tbs_inv _ _ Ep) as (c2' & l & c3 & _ & El & ta & ba & tb & bb & tc & bc & td & bd & te & be & tf & bf & -> & _).
  (* the validity raw slice is a single element: what follows it inside itself is empty *)
  assert (Hs : single_tlv (p_validity_raw p)).
  { pose proof (take_elems_nth 6 _ _ _ 3%nat El ltac:(lia)) as Hn. cbn [nth_error] in Hn.
    eapply nth_raw_single. exact Hn. }
  destruct Hs as (ts & cs & Es). rewrite Es in En. inversion En; subst.
  exists raw_tbs, p, tv, c, (p_validity_raw p), t1, c1, r1, t2, c2, r2, rest2, a, b.
  repeat split; try assumption; reflexivity.
Qed.

Theorem civil_time_vectors :
  days_from_civil 1970 1 1 = 0%Z /\ days_from_civil 2000 3 1 = 11017%Z /\
  days_from_civil 1950 1 1 = (-7305)%Z /\ days_from_civil 9999 12 31 = 2932896%Z /\
  time_secs 23 [50;53;48;49;48;49;48;48;48;48;48;48;90] = Some 1735689600%Z /\      (* 250101000000Z *)
  time_secs 24 [57;57;57;57;49;50;51;49;50;51;53;57;53;57;90] = Some 253402300799%Z /\  (* 99991231235959Z *)
  time_secs 23 [50;51;48;50;50;57;48;48;48;48;48;48;90] = None.                       (* 230229000000Z *)
Proof. repeat split; vm_compute; reflexivity. Qed.
