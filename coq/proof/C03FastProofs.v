(* C03 — the dsa.Verify check evaluated by the correspondence run (word-level exponentiation) is
   the model's check (instance Zpow_mod).  Depends on the Uint63 axioms through C23FastProofs. *)
From Coq Require Import List ZArith NArith Bool Zpow_facts.
From Verif Require Import Harness.
From VerifModel Require Import C23 C23Fast C03 C03Run C03RunFast.
From VerifProof Require Import C23FastProofs.
Open Scope Z_scope.

Lemma dsa_verify_ext pm1 pm2 (Hpm : forall x y n, pm1 x y n = pm2 x y n) p q g y h r s :
  dsa_verify pm1 p q g y h r s = dsa_verify pm2 p q g y h r s.
Proof.
  unfold dsa_verify. destruct (p =? 0); [reflexivity|]. destruct (_ || _); [reflexivity|].
  destruct (_ || _); [reflexivity|]. destruct (mod_inverse s q); [|reflexivity].
  destruct (negb _); [reflexivity|].
  now rewrite !(go_exp_z_ext pm1 pm2 Hpm).
Qed.

Theorem dsa_fast_check_is_model_check :
  forall c, C03RunFast.check_dsacase c = C03.check_dsacase Zpow_mod c.
Proof.
  intros [[[[[[[p q] g] y] h] r] s] ob]. unfold C03RunFast.check_dsacase, C03.check_dsacase.
  now rewrite (dsa_verify_ext fast_powmod Zpow_mod fast_powmod_eq).
Qed.
