(* C19 — proofs: strict DER decoding is canonical (encoding/asn1 primitives and cryptobyte readers). *)
From Coq Require Import List NArith ZArith Bool Arith Lia.
From Verif Require Import Harness.
From VerifModel Require Import C21 C19.
From VerifProof Require Import C21Proofs.
Import ListNotations.
Open Scope N_scope.

(* BOOLEAN, both codecs: only 00 and ff are accepted, and they are what the encoders write *)
Lemma a_bool_canonical bs b : a_parse_bool bs = Some b -> bs = [if b then 255 else 0].
Proof.
  destruct bs as [|x [|y t]]; cbn; try discriminate.
  destruct (x =? 0) eqn:E0; [apply N.eqb_eq in E0; intros [= <-]; now subst|].
  destruct (x =? 255) eqn:E1; [apply N.eqb_eq in E1; intros [= <-]; now subst|discriminate].
Qed.

Lemma cb_bool_canonical s b rest : read_bool s = Some (b, rest) -> bytes_ok s ->
  exists c, read_asn1_tag 1 s = Some (c, rest) /\ c = [if b then 255 else 0].
Proof.
  unfold read_bool. destruct (read_asn1_tag 1 s) as [[c r]|]; [|discriminate].
  destruct c as [|x [|y t]]; try discriminate.
  destruct (x =? 0) eqn:E0; [apply N.eqb_eq in E0; intros [= <- <-] _; subst; eauto|].
  destruct (x =? 255) eqn:E1; [apply N.eqb_eq in E1; intros [= <- <-] _; subst; eauto|discriminate].
Qed.

(* ------------------------------------------------------------------ INTEGER *)
Lemma a_check_is_check bs : a_check_integer bs = check_asn1_integer bs.
Proof. reflexivity. Qed.

Lemma checked_nonempty c : check_asn1_integer c = true -> c <> [].
Proof. destruct c; [discriminate|congruence]. Qed.

Lemma checked_int_content c : bytes_ok c -> check_asn1_integer c = true -> int_content c (bigint_of_bytes c).
Proof. intros Hok Hc. repeat split; auto using checked_nonempty. Qed.

(* arbitrary precision, both codecs (parseBigInt / readASN1BigInt decode identically;
   makeBigInt / AddASN1BigInt encode identically) *)
Lemma bigint_canonical c : bytes_ok c -> check_asn1_integer c = true ->
  bigint_content (bigint_of_bytes c) = c.
Proof.
  intros Hok Hc. apply (int_content_unique _ _ (bigint_of_bytes c)).
  - apply int_content_bigint.
  - now apply checked_int_content.
Qed.

Lemma some_inj {A} (x y : A) : Some x = Some y -> x = y.
Proof. congruence. Qed.

Lemma signed_is_bigint c z : bytes_ok c -> check_asn1_integer c = true -> asn1_signed c = Some z ->
  bigint_of_bytes c = z /\ fits_signed 64 z = true.
Proof.
  intros Hok Hc Hs. destruct c as [|b l]; [discriminate|].
  assert (Hl : (length l < 8)%nat).
  { unfold asn1_signed in Hs. destruct (8 <? blen (b :: l)) eqn:E; [discriminate|].
    apply N.ltb_ge in E. rewrite blen_cons in E. unfold blen in E. lia. }
  pose proof (bigint_in_range b l Hok) as R.
  rewrite (asn1_signed_eq b l Hok Hl) in Hs. apply some_inj in Hs.
  split; [exact Hs|]. rewrite Hs in R. clear Hs.
  apply (in_range_mono _ 8) in R; [|lia].
  unfold in_range in R. change (pw 8) with 18446744073709551616%Z in R.
  unfold fits_signed. change (2 ^ (Z.of_N 64 - 1))%Z with 9223372036854775808%Z.
  apply andb_true_iff. split; [apply Z.leb_le|apply Z.ltb_lt]; lia.
Qed.

Lemma cb_int64_canonical c z : bytes_ok c -> check_asn1_integer c = true -> asn1_signed c = Some z ->
  int64_content z = c.
Proof.
  intros Hok Hc Hs. destruct (signed_is_bigint c z Hok Hc Hs) as [Hv F].
  apply (int_content_unique _ _ z); [now apply int_content_int64|].
  rewrite <- Hv. now apply checked_int_content.
Qed.

Lemma cb_uint64_canonical c n : bytes_ok c -> check_asn1_integer c = true -> asn1_unsigned c = Some n ->
  uint64_content n = c.
Proof.
  intros Hok Hc Hs. destruct (asn1_unsigned_eq c n Hok Hs) as [Hv Hn].
  apply (int_content_unique _ _ (Z.of_N n)).
  - apply int_content_uint64. unfold fits_unsigned. apply N.ltb_lt. exact Hn.
  - rewrite <- Hv. now apply checked_int_content.
Qed.

(* encoding/asn1 int64Encoder = cryptobyte addASN1Signed *)
Lemma a_len_pos_spec f z : (0 <= z)%Z -> S (a_len_pos f z) = int_len f z.
Proof.
  revert z; induction f as [|f IH]; intros z Hz; [reflexivity|].
  cbn [a_len_pos int_len].
  replace ((128 <=? z) || (z <? -128))%Z with (127 <? z)%Z.
  2:{ destruct (127 <? z)%Z eqn:C; symmetry.
      - apply Z.ltb_lt in C. apply orb_true_iff. left. apply Z.leb_le. lia.
      - apply Z.ltb_ge in C. apply orb_false_iff. split; [apply Z.leb_gt|apply Z.ltb_ge]; lia. }
  destruct (127 <? z)%Z; [|reflexivity]. f_equal. apply IH. apply Z.shiftr_nonneg. lia.
Qed.
Lemma a_len_neg_spec f z : (z < 0)%Z -> S (a_len_neg f z) = int_len f z.
Proof.
  revert z; induction f as [|f IH]; intros z Hz; [reflexivity|].
  cbn [a_len_neg int_len].
  replace ((128 <=? z) || (z <? -128))%Z with (z <? -128)%Z.
  2:{ destruct (z <? -128)%Z eqn:C; symmetry.
      - apply orb_true_iff. now right.
      - apply orb_false_iff. split; [apply Z.leb_gt; lia|reflexivity]. }
  destruct (z <? -128)%Z; [|reflexivity]. f_equal. apply IH. apply Z.shiftr_neg. lia.
Qed.
Lemma shiftr8_nonneg k z : (0 <= z)%Z -> (0 <= shiftr8 k z)%Z.
Proof. revert z; induction k as [|k IH]; intros z Hz; cbn; [lia|]. apply IH. apply Z.shiftr_nonneg. lia. Qed.
Lemma a_len_neg_nonneg f z : (0 <= z)%Z -> a_len_neg f z = 0%nat.
Proof. destruct f; [reflexivity|]. intro Hz. cbn. rewrite (proj2 (Z.ltb_ge z (-128))) by lia. reflexivity. Qed.
Lemma a_len_pos_neg f z : (z < 0)%Z -> a_len_pos f z = 0%nat.
Proof. destruct f; [reflexivity|]. intro Hz. cbn. rewrite (proj2 (Z.ltb_ge 127 z)) by lia. reflexivity. Qed.

Lemma a_int64_bytes_eq z : a_int64_bytes z = int64_content z.
Proof.
  unfold a_int64_bytes, int64_content, a_int64_len. f_equal. f_equal. f_equal.
  destruct (Z.neg_nonneg_cases z) as [Hn|Hp].
  - rewrite (a_len_pos_neg 8 z Hn). cbn [shiftr8 plus]. apply a_len_neg_spec. exact Hn.
  - rewrite (a_len_neg_nonneg 8) by (apply shiftr8_nonneg; exact Hp).
    rewrite Nat.add_0_r. apply a_len_pos_spec. exact Hp.
Qed.

Lemma a_int64_canonical c z : bytes_ok c -> a_parse_int64 c = Some z -> a_int64_bytes z = c.
Proof.
  unfold a_parse_int64. rewrite a_check_is_check. intros Hok H.
  destruct (check_asn1_integer c) eqn:Hc; [|discriminate].
  rewrite a_int64_bytes_eq. now apply cb_int64_canonical.
Qed.
Lemma a_int32_canonical c z : bytes_ok c -> a_parse_int32 c = Some z ->
  a_int64_bytes z = c /\ fits_signed 32 z = true.
Proof.
  unfold a_parse_int32. intros Hok H. destruct (a_check_integer c); [|discriminate].
  destruct (a_parse_int64 c) as [z'|] eqn:E; [|discriminate].
  destruct (fits_signed 32 z') eqn:F; [|discriminate]. injection H as <-.
  split; [now apply a_int64_canonical|exact F].
Qed.
Lemma a_bigint_canonical c z : bytes_ok c -> a_parse_bigint c = Some z -> bigint_content z = c.
Proof.
  unfold a_parse_bigint. rewrite a_check_is_check. intros Hok H.
  destruct (check_asn1_integer c) eqn:Hc; [|discriminate]. injection H as <-. now apply bigint_canonical.
Qed.

(* non-minimal INTEGERs are rejected by every reader of both codecs *)
Lemma nonminimal_integer_rejected b0 b1 l :
  (b0 = 0 /\ b1 < 128) \/ (b0 = 255 /\ 128 <= b1) ->
  check_asn1_integer (b0 :: b1 :: l) = false /\ a_parse_int64 (b0 :: b1 :: l) = None /\
  a_parse_int32 (b0 :: b1 :: l) = None /\ a_parse_bigint (b0 :: b1 :: l) = None.
Proof.
  intro H.
  assert (C : check_asn1_integer (b0 :: b1 :: l) = false).
  { cbn [check_asn1_integer]. destruct H as [[-> H]|[-> H]].
    - rewrite (ltb_true _ _ H). reflexivity.
    - rewrite (leb_true _ _ H). cbn. now rewrite orb_true_r. }
  unfold a_parse_int64, a_parse_int32, a_parse_bigint. rewrite !a_check_is_check, C. auto.
Qed.

(* ------------------------------------------------------------------ BIT STRING *)
Lemma pad_formula (len : nat) pad : pad < 8 ->
  Z.to_N ((8 - (8 * Z.of_nat len - Z.of_N pad) mod 8) mod 8) = pad.
Proof.
  intro H. assert (E : ((8 * Z.of_nat len - Z.of_N pad) mod 8 = (8 - Z.of_N pad) mod 8)%Z).
  { replace (8 * Z.of_nat len - Z.of_N pad)%Z with ((8 - Z.of_N pad) + (Z.of_nat len - 1) * 8)%Z by lia.
    apply Z.mod_add. lia. }
  rewrite E.
  assert (Hp : (0 <= Z.of_N pad < 8)%Z) by lia.
  destruct (Z.eq_dec (Z.of_N pad) 0) as [E0|NE0].
  - rewrite E0. cbn. lia.
  - rewrite (Z.mod_small (8 - Z.of_N pad) 8) by lia.
    rewrite Z.mod_small by lia. lia.
Qed.

Lemma a_bitstring_canonical bs d n : a_parse_bitstring bs = Some (d, n) -> a_bitstring_bytes d n = bs.
Proof.
  destruct bs as [|pad data]; [discriminate|]. cbn [a_parse_bitstring].
  destruct ((7 <? pad) || ((blen (pad :: data) =? 1) && (0 <? pad))) eqn:E; [discriminate|].
  destruct (last (pad :: data) 0 mod 2 ^ pad =? 0); [|discriminate]. intros [= <- <-].
  apply orb_false_iff in E as [E _]. apply N.ltb_ge in E.
  unfold a_bitstring_bytes. f_equal. apply pad_formula. lia.
Qed.

Lemma cb_bitstring_canonical c d n : bitstring_of_content c = Some (d, n) -> a_bitstring_bytes d n = c.
Proof.
  destruct c as [|pad data]; [discriminate|]. cbn [bitstring_of_content].
  destruct (7 <? pad) eqn:E; [discriminate|]. apply N.ltb_ge in E.
  destruct data as [|x t].
  - destruct (pad =? 0) eqn:E0; [|discriminate]. apply N.eqb_eq in E0. subst. intros [= <- <-]. reflexivity.
  - destruct (last (x :: t) 0 mod 2 ^ pad =? 0); [|discriminate]. intros [= <- <-].
    unfold a_bitstring_bytes. f_equal. apply pad_formula. lia.
Qed.

(* non-zero padding bits are rejected *)
Lemma padding_bits_rejected pad data :
  data <> [] -> last data 0 mod 2 ^ pad <> 0 ->
  a_parse_bitstring (pad :: data) = None /\ bitstring_of_content (pad :: data) = None.
Proof.
  intros Hne Hp. split.
  - cbn [a_parse_bitstring]. destruct ((7 <? pad) || _); [reflexivity|].
    replace (last (pad :: data) 0) with (last data 0) by (destruct data; [congruence|reflexivity]).
    now rewrite (eqb_false _ _ Hp).
  - cbn [bitstring_of_content]. destruct (7 <? pad); [reflexivity|].
    destruct data; [congruence|]. now rewrite (eqb_false _ _ Hp).
Qed.
