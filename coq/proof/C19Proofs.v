(* C19 — proofs: strict DER decoding is canonical (encoding/asn1 primitives and cryptobyte readers). *)
From Coq Require Import List NArith ZArith Bool Arith Lia.
From Verif Require Import Harness.
From VerifModel Require Import C21 C19.
From VerifProof Require Import C21Proofs.
Import ListNotations.
Open Scope N_scope.

(* BOOLEAN, both codecs: only 00 and ff are accepted, and they are what the encoders write *)
Lemma a_bool_canonical bs b : a_parse_bool bs = Some b -> bs = [if b then 255 else 0].
Proof.
  destruct bs as [|x [|y t]]; cbn; try discriminate.
  destruct (x =? 0) eqn:E0; [apply N.eqb_eq in E0; intros [= <-]; now subst|].
  destruct (x =? 255) eqn:E1; [apply N.eqb_eq in E1; intros [= <-]; now subst|discriminate].
Qed.

Lemma some_inj {A} (x y : A) : Some x = Some y -> x = y.
Proof. congruence. Qed.

Lemma cb_bool_canonical s b rest : read_bool s = Some (b, rest) -> bytes_ok s ->
  exists c, read_asn1_tag 1 s = Some (c, rest) /\ c = [if b then 255 else 0].
Proof.
  unfold read_bool. destruct (read_asn1_tag 1 s) as [[c r]|]; [|discriminate].
  destruct c as [|x [|y t]]; try discriminate.
  destruct (x =? 0) eqn:E0; [apply N.eqb_eq in E0; intros [= <- <-] _; subst; eauto|].
  destruct (x =? 255) eqn:E1; [apply N.eqb_eq in E1; intros [= <- <-] _; subst; eauto|discriminate].
Qed.

(* ------------------------------------------------------------------ INTEGER *)
Lemma a_check_is_check bs : a_check_integer bs = check_asn1_integer bs.
Proof. reflexivity. Qed.

Lemma checked_nonempty c : check_asn1_integer c = true -> c <> [].
Proof. destruct c; [discriminate|congruence]. Qed.

Lemma checked_int_content c : bytes_ok c -> check_asn1_integer c = true -> int_content c (bigint_of_bytes c).
Proof. intros Hok Hc. repeat split; auto using checked_nonempty. Qed.

(* arbitrary precision, both codecs (parseBigInt / readASN1BigInt decode identically;
   makeBigInt / AddASN1BigInt encode identically) *)
Lemma bigint_canonical c : bytes_ok c -> check_asn1_integer c = true ->
  bigint_content (bigint_of_bytes c) = c.
Proof.
  intros Hok Hc. apply (int_content_unique _ _ (bigint_of_bytes c)).
  - apply int_content_bigint.
  - now apply checked_int_content.
Qed.

Lemma signed_is_bigint c z : bytes_ok c -> check_asn1_integer c = true -> asn1_signed c = Some z ->
  bigint_of_bytes c = z /\ fits_signed 64 z = true.
Proof.
  intros Hok Hc Hs. destruct c as [|b l]; [discriminate|].
  assert (Hl : (length l < 8)%nat).
  { unfold asn1_signed in Hs. destruct (8 <? blen (b :: l)) eqn:E; [discriminate|].
    apply N.ltb_ge in E. rewrite blen_cons in E. unfold blen in E. lia. }
  pose proof (bigint_in_range b l Hok) as R.
  rewrite (asn1_signed_eq b l Hok Hl) in Hs. apply some_inj in Hs.
  split; [exact Hs|]. rewrite Hs in R. clear Hs.
  apply (in_range_mono _ 8) in R; [|lia].
  unfold in_range in R. change (pw 8) with 18446744073709551616%Z in R.
  unfold fits_signed. change (2 ^ (Z.of_N 64 - 1))%Z with 9223372036854775808%Z.
  apply andb_true_iff. split; [apply Z.leb_le|apply Z.ltb_lt]; lia.
Qed.

Lemma cb_int64_canonical c z : bytes_ok c -> check_asn1_integer c = true -> asn1_signed c = Some z ->
  int64_content z = c.
Proof.
  intros Hok Hc Hs. destruct (signed_is_bigint c z Hok Hc Hs) as [Hv F].
  apply (int_content_unique _ _ z); [now apply int_content_int64|].
  rewrite <- Hv. now apply checked_int_content.
Qed.

Lemma cb_uint64_canonical c n : bytes_ok c -> check_asn1_integer c = true -> asn1_unsigned c = Some n ->
  uint64_content n = c.
Proof.
  intros Hok Hc Hs. destruct (asn1_unsigned_eq c n Hok Hs) as [Hv Hn].
  apply (int_content_unique _ _ (Z.of_N n)).
  - apply int_content_uint64. unfold fits_unsigned. apply N.ltb_lt. exact Hn.
  - rewrite <- Hv. now apply checked_int_content.
Qed.

(* encoding/asn1 int64Encoder = cryptobyte addASN1Signed *)
Lemma a_len_pos_spec f z : (0 <= z)%Z -> S (a_len_pos f z) = int_len f z.
Proof.
  revert z; induction f as [|f IH]; intros z Hz; [reflexivity|].
  cbn [a_len_pos int_len].
  replace ((128 <=? z) || (z <? -128))%Z with (127 <? z)%Z.
  2:{ destruct (127 <? z)%Z eqn:C; symmetry.
      - apply Z.ltb_lt in C. apply orb_true_iff. left. apply Z.leb_le. lia.
      - apply Z.ltb_ge in C. apply orb_false_iff. split; [apply Z.leb_gt|apply Z.ltb_ge]; lia. }
  destruct (127 <? z)%Z; [|reflexivity]. f_equal. apply IH. apply Z.shiftr_nonneg. lia.
Qed.
Lemma a_len_neg_spec f z : (z < 0)%Z -> S (a_len_neg f z) = int_len f z.
Proof.
  revert z; induction f as [|f IH]; intros z Hz; [reflexivity|].
  cbn [a_len_neg int_len].
  replace ((128 <=? z) || (z <? -128))%Z with (z <? -128)%Z.
  2:{ destruct (z <? -128)%Z eqn:C; symmetry.
      - apply orb_true_iff. now right.
      - apply orb_false_iff. split; [apply Z.leb_gt; lia|reflexivity]. }
  destruct (z <? -128)%Z; [|reflexivity]. f_equal. apply IH. apply Z.shiftr_neg. lia.
Qed.
Lemma shiftr8_nonneg k z : (0 <= z)%Z -> (0 <= shiftr8 k z)%Z.
Proof. revert z; induction k as [|k IH]; intros z Hz; cbn [shiftr8]; [lia|]. apply IH. apply Z.shiftr_nonneg. lia. Qed.
Lemma a_len_neg_nonneg f z : (0 <= z)%Z -> a_len_neg f z = 0%nat.
Proof. destruct f; [reflexivity|]. intro Hz. cbn. rewrite (proj2 (Z.ltb_ge z (-128))) by lia. reflexivity. Qed.
Lemma a_len_pos_neg f z : (z < 0)%Z -> a_len_pos f z = 0%nat.
Proof. destruct f; [reflexivity|]. intro Hz. cbn. rewrite (proj2 (Z.ltb_ge 127 z)) by lia. reflexivity. Qed.

Lemma a_int64_bytes_eq z : a_int64_bytes z = int64_content z.
Proof.
  unfold a_int64_bytes, int64_content, a_int64_len. f_equal. f_equal. f_equal.
  destruct (Z.neg_nonneg_cases z) as [Hn|Hp].
  - rewrite (a_len_pos_neg 8 z Hn). cbn [shiftr8 plus]. apply a_len_neg_spec. exact Hn.
  - rewrite (a_len_neg_nonneg 8) by (apply shiftr8_nonneg; exact Hp).
    rewrite Nat.add_0_r. apply a_len_pos_spec. exact Hp.
Qed.

Lemma a_int64_canonical c z : bytes_ok c -> a_parse_int64 c = Some z -> a_int64_bytes z = c.
Proof.
  unfold a_parse_int64. change a_check_integer with check_asn1_integer. intros Hok H.
  destruct (check_asn1_integer c) eqn:Hc; [|discriminate].
  rewrite a_int64_bytes_eq. now apply cb_int64_canonical.
Qed.
Lemma a_int32_canonical c z : bytes_ok c -> a_parse_int32 c = Some z ->
  a_int64_bytes z = c /\ fits_signed 32 z = true.
Proof.
  unfold a_parse_int32. intros Hok H. destruct (a_check_integer c); [|discriminate].
  destruct (a_parse_int64 c) as [z'|] eqn:E; [|discriminate].
  destruct (fits_signed 32 z') eqn:F; [|discriminate]. injection H as <-.
  split; [now apply a_int64_canonical|exact F].
Qed.
Lemma a_bigint_canonical c z : bytes_ok c -> a_parse_bigint c = Some z -> bigint_content z = c.
Proof.
  unfold a_parse_bigint. change a_check_integer with check_asn1_integer. intros Hok H.
  destruct (check_asn1_integer c) eqn:Hc; [|discriminate]. injection H as <-. now apply bigint_canonical.
Qed.

(* non-minimal INTEGERs are rejected by every reader of both codecs *)
Lemma nonminimal_integer_rejected b0 b1 l :
  (b0 = 0 /\ b1 < 128) \/ (b0 = 255 /\ 128 <= b1) ->
  check_asn1_integer (b0 :: b1 :: l) = false /\ a_parse_int64 (b0 :: b1 :: l) = None /\
  a_parse_int32 (b0 :: b1 :: l) = None /\ a_parse_bigint (b0 :: b1 :: l) = None.
Proof.
  intro H.
  assert (C : check_asn1_integer (b0 :: b1 :: l) = false).
  { cbn [check_asn1_integer]. destruct H as [[-> H]|[-> H]].
    - rewrite (ltb_true _ _ H). reflexivity.
    - rewrite (leb_true _ _ H). change (255 =? 0) with false. change (255 =? 255) with true. reflexivity. }
  unfold a_parse_int64, a_parse_int32, a_parse_bigint. change a_check_integer with check_asn1_integer. rewrite C. auto.
Qed.

(* ------------------------------------------------------------------ BIT STRING *)
Lemma pad_formula (len : nat) pad : pad < 8 ->
  Z.to_N ((8 - (8 * Z.of_nat len - Z.of_N pad) mod 8) mod 8) = pad.
Proof.
  intro H. assert (E : ((8 * Z.of_nat len - Z.of_N pad) mod 8 = (8 - Z.of_N pad) mod 8)%Z).
  { replace (8 * Z.of_nat len - Z.of_N pad)%Z with ((8 - Z.of_N pad) + (Z.of_nat len - 1) * 8)%Z by lia.
    apply Z.mod_add. lia. }
  rewrite E.
  assert (Hp : (0 <= Z.of_N pad < 8)%Z) by lia.
  destruct (Z.eq_dec (Z.of_N pad) 0) as [E0|NE0].
  - rewrite E0. cbn. lia.
  - rewrite (Z.mod_small (8 - Z.of_N pad) 8) by lia.
    rewrite Z.mod_small by lia. lia.
Qed.

Lemma a_bitstring_canonical bs d n : a_parse_bitstring bs = Some (d, n) -> a_bitstring_bytes d n = bs.
Proof.
  destruct bs as [|pad data]; [discriminate|]. cbn [a_parse_bitstring].
  destruct ((7 <? pad) || ((blen (pad :: data) =? 1) && (0 <? pad))) eqn:E; [discriminate|].
  destruct (last (pad :: data) 0 mod 2 ^ pad =? 0); [|discriminate]. intro H. apply some_inj in H.
  pose proof (f_equal fst H) as Hd. pose proof (f_equal snd H) as Hn. cbn [fst snd] in Hd, Hn. subst d n.
  apply orb_false_iff in E as [E _]. apply N.ltb_ge in E.
  unfold a_bitstring_bytes. f_equal. apply pad_formula. lia.
Qed.

Lemma cb_bitstring_canonical c d n : bitstring_of_content c = Some (d, n) -> a_bitstring_bytes d n = c.
Proof.
  destruct c as [|pad data]; [discriminate|]. cbn [bitstring_of_content].
  destruct (7 <? pad) eqn:E; [discriminate|]. apply N.ltb_ge in E.
  destruct data as [|x t].
  - destruct (pad =? 0) eqn:E0; [|discriminate]. apply N.eqb_eq in E0. subst. intros [= <- <-]. reflexivity.
  - destruct (last (x :: t) 0 mod 2 ^ pad =? 0); [|discriminate]. intro H. apply some_inj in H.
    pose proof (f_equal fst H) as Hd. pose proof (f_equal snd H) as Hn. cbn [fst snd] in Hd, Hn. subst d n.
    unfold a_bitstring_bytes. f_equal. apply pad_formula. lia.
Qed.

(* non-zero padding bits are rejected *)
Lemma padding_bits_rejected pad data :
  data <> [] -> last data 0 mod 2 ^ pad <> 0 ->
  a_parse_bitstring (pad :: data) = None /\ bitstring_of_content (pad :: data) = None.
Proof.
  intros Hne Hp. split.
  - cbn [a_parse_bitstring]. destruct ((7 <? pad) || _); [reflexivity|].
    replace (last (pad :: data) 0) with (last data 0) by (destruct data; [congruence|reflexivity]).
    now rewrite (eqb_false _ _ Hp).
  - cbn [bitstring_of_content]. destruct (7 <? pad); [reflexivity|].
    destruct data; [congruence|]. now rewrite (eqb_false _ _ Hp).
Qed.

(* ------------------------------------------------------------------ base-128 (OID sub-identifiers, high tag numbers) *)
Lemma b128_len_spec5 n : (0 < n < 34359738368)%Z ->
  b128_len 10 n = (if (n <? 128)%Z then 1 else if (n <? 16384)%Z then 2
                   else if (n <? 2097152)%Z then 3 else if (n <? 268435456)%Z then 4 else 5)%nat.
Proof.
  intro H. cbn [b128_len]. rewrite !Z.shiftr_div_pow2 by lia. change (2 ^ 7)%Z with 128%Z.
  rewrite (proj2 (Z.ltb_lt 0 n)) by lia.
  destruct (n <? 128)%Z eqn:C1.
  { apply Z.ltb_lt in C1. rewrite (proj2 (Z.ltb_ge 0 (n / 128))) by dlia. reflexivity. }
  apply Z.ltb_ge in C1. rewrite (proj2 (Z.ltb_lt 0 (n / 128))) by dlia.
  destruct (n <? 16384)%Z eqn:C2.
  { apply Z.ltb_lt in C2. rewrite (proj2 (Z.ltb_ge 0 (n / 128 / 128))) by dlia. reflexivity. }
  apply Z.ltb_ge in C2. rewrite (proj2 (Z.ltb_lt 0 (n / 128 / 128))) by dlia.
  destruct (n <? 2097152)%Z eqn:C3.
  { apply Z.ltb_lt in C3. rewrite (proj2 (Z.ltb_ge 0 (n / 128 / 128 / 128))) by dlia. reflexivity. }
  apply Z.ltb_ge in C3. rewrite (proj2 (Z.ltb_lt 0 (n / 128 / 128 / 128))) by dlia.
  destruct (n <? 268435456)%Z eqn:C4.
  { apply Z.ltb_lt in C4. rewrite (proj2 (Z.ltb_ge 0 (n / 128 / 128 / 128 / 128))) by dlia. reflexivity. }
  apply Z.ltb_ge in C4. rewrite (proj2 (Z.ltb_lt 0 (n / 128 / 128 / 128 / 128))) by dlia.
  rewrite (proj2 (Z.ltb_ge 0 (n / 128 / 128 / 128 / 128 / 128))) by dlia. reflexivity.
Qed.

(* the octets appendBase128Int / addBase128Int write for n, most significant group first *)
Definition b128_form (n : N) : bytes :=
  if n <? 128 then [n]
  else if n <? 16384 then [n / 128 + 128; n mod 128]
  else if n <? 2097152 then [n / 16384 + 128; (n / 128) mod 128 + 128; n mod 128]
  else if n <? 268435456 then [n / 2097152 + 128; (n / 16384) mod 128 + 128; (n / 128) mod 128 + 128; n mod 128]
  else [n / 268435456 + 128; (n / 2097152) mod 128 + 128; (n / 16384) mod 128 + 128; (n / 128) mod 128 + 128; n mod 128].

Lemma base128_bytes_form n : n < 34359738368 -> base128_bytes (Z.of_N n) = b128_form n.
Proof.
  intro H. unfold base128_bytes, b128_form.
  destruct (Z.of_N n =? 0)%Z eqn:C0.
  { apply Z.eqb_eq in C0. assert (n = 0) by lia. subst n. reflexivity. }
  apply Z.eqb_neq in C0. rewrite b128_len_spec5 by lia.
  destruct (n <? 128) eqn:D1; [|destruct (n <? 16384) eqn:D2; [|destruct (n <? 2097152) eqn:D3;
    [|destruct (n <? 268435456) eqn:D4]]];
    rewrite ?N.ltb_lt, ?N.ltb_ge in *.
  - rewrite (proj2 (Z.ltb_lt _ _)) by lia.
    cbn [seq rev app map Nat.eqb Z.of_nat Z.mul]. rewrite Z.shiftr_0_r. f_equal. dlia.
  - rewrite (proj2 (Z.ltb_ge _ 128)), (proj2 (Z.ltb_lt _ 16384)) by lia.
    cbn [seq rev app map Nat.eqb Z.of_nat Pos.of_succ_nat Pos.succ Z.mul Pos.mul Pos.add].
    rewrite !Z.shiftr_div_pow2 by lia. change (2 ^ 0)%Z with 1%Z. change (2 ^ 7)%Z with 128%Z.
    repeat f_equal; dlia.
  - rewrite (proj2 (Z.ltb_ge _ 128)), (proj2 (Z.ltb_ge _ 16384)), (proj2 (Z.ltb_lt _ 2097152)) by lia.
    cbn [seq rev app map Nat.eqb Z.of_nat Pos.of_succ_nat Pos.succ Z.mul Pos.mul Pos.add].
    rewrite !Z.shiftr_div_pow2 by lia. change (2 ^ 0)%Z with 1%Z. change (2 ^ 7)%Z with 128%Z.
    change (2 ^ 14)%Z with 16384%Z.
    repeat f_equal; dlia.
  - rewrite (proj2 (Z.ltb_ge _ 128)), (proj2 (Z.ltb_ge _ 16384)), (proj2 (Z.ltb_ge _ 2097152)),
      (proj2 (Z.ltb_lt _ 268435456)) by lia.
    cbn [seq rev app map Nat.eqb Z.of_nat Pos.of_succ_nat Pos.succ Z.mul Pos.mul Pos.add].
    rewrite !Z.shiftr_div_pow2 by lia. change (2 ^ 0)%Z with 1%Z. change (2 ^ 7)%Z with 128%Z.
    change (2 ^ 14)%Z with 16384%Z. change (2 ^ 21)%Z with 2097152%Z.
    repeat f_equal; dlia.
  - rewrite (proj2 (Z.ltb_ge _ 128)), (proj2 (Z.ltb_ge _ 16384)), (proj2 (Z.ltb_ge _ 2097152)),
      (proj2 (Z.ltb_ge _ 268435456)) by lia.
    cbn [seq rev app map Nat.eqb Z.of_nat Pos.of_succ_nat Pos.succ Z.mul Pos.mul Pos.add].
    rewrite !Z.shiftr_div_pow2 by lia. change (2 ^ 0)%Z with 1%Z. change (2 ^ 7)%Z with 128%Z.
    change (2 ^ 14)%Z with 16384%Z. change (2 ^ 21)%Z with 2097152%Z. change (2 ^ 28)%Z with 268435456%Z.
    repeat f_equal; dlia.
Qed.

Lemma bytes_ok_cons b l : bytes_ok (b :: l) -> b < 256 /\ bytes_ok l.
Proof. intro H. inversion H; auto. Qed.

(* cryptobyte readBase128Int (repaired): what it accepts is the minimal encoding of what it returns *)
Lemma cb_base128_canonical s v rest : read_base128 s = Some (v, rest) -> bytes_ok s ->
  s = b128_form v ++ rest /\ v < 268435456.
Proof.
  unfold read_base128. intros H Hok.
  destruct s as [|b0 s]; [discriminate|]. apply bytes_ok_cons in Hok as [H0 Hok].
  cbn [read_base128_from] in H. change (0 =? 4) with false in H. change (0 =? 0) with true in H. cbn [andb] in H.
  destruct (b0 =? 128) eqn:E0; [discriminate|]. apply N.eqb_neq in E0.
  destruct (b0 <? 128) eqn:L0.
  { apply N.ltb_lt in L0.
    injection H as Hv Hr. rewrite (N.mod_small b0 128) in Hv by lia.
    assert (Ev : v = b0) by lia. clear Hv. subst v rest.
    unfold b128_form. rewrite (ltb_true (b0) 128) by lia.
    split; [|lia]. cbn [app]. repeat f_equal; dlia. }
  apply N.ltb_ge in L0.
  destruct s as [|b1 s]; [discriminate|]. apply bytes_ok_cons in Hok as [H1 Hok].
  cbn [read_base128_from] in H. change (0 + 1 =? 4) with false in H. change (0 + 1 =? 0) with false in H. cbn [andb] in H.
  set (d0 := b0 mod 128) in *. assert (Hd0 : d0 = b0 - 128 /\ 1 <= d0 < 128) by (unfold d0; dlia).
  destruct (b1 <? 128) eqn:L1.
  { apply N.ltb_lt in L1.
    injection H as Hv Hr. rewrite (N.mod_small b1 128) in Hv by lia.
    assert (Ev : v = d0 * 128 + b1) by lia. clear Hv. subst v rest.
    unfold b128_form. rewrite (ltb_false (d0 * 128 + b1) 128), (ltb_true (d0 * 128 + b1) 16384) by lia.
    split; [|lia]. cbn [app]. repeat f_equal; dlia. }
  apply N.ltb_ge in L1.
  destruct s as [|b2 s]; [discriminate|]. apply bytes_ok_cons in Hok as [H2 Hok].
  cbn [read_base128_from] in H. change (0 + 1 + 1 =? 4) with false in H. change (0 + 1 + 1 =? 0) with false in H. cbn [andb] in H.
  set (d1 := b1 mod 128) in *. assert (Hd1 : d1 = b1 - 128 /\ d1 < 128) by (unfold d1; dlia).
  destruct (b2 <? 128) eqn:L2.
  { apply N.ltb_lt in L2.
    injection H as Hv Hr. rewrite (N.mod_small b2 128) in Hv by lia.
    assert (Ev : v = d0 * 16384 + d1 * 128 + b2) by lia. clear Hv. subst v rest.
    unfold b128_form. rewrite (ltb_false (d0 * 16384 + d1 * 128 + b2) 128), (ltb_false (d0 * 16384 + d1 * 128 + b2) 16384), (ltb_true (d0 * 16384 + d1 * 128 + b2) 2097152) by lia.
    split; [|lia]. cbn [app]. repeat f_equal; dlia. }
  apply N.ltb_ge in L2.
  destruct s as [|b3 s]; [discriminate|]. apply bytes_ok_cons in Hok as [H3 Hok].
  cbn [read_base128_from] in H. change (0 + 1 + 1 + 1 =? 4) with false in H. change (0 + 1 + 1 + 1 =? 0) with false in H. cbn [andb] in H.
  set (d2 := b2 mod 128) in *. assert (Hd2 : d2 = b2 - 128 /\ d2 < 128) by (unfold d2; dlia).
  destruct (b3 <? 128) eqn:L3.
  { apply N.ltb_lt in L3.
    injection H as Hv Hr. rewrite (N.mod_small b3 128) in Hv by lia.
    assert (Ev : v = d0 * 2097152 + d1 * 16384 + d2 * 128 + b3) by lia. clear Hv. subst v rest.
    unfold b128_form. rewrite (ltb_false (d0 * 2097152 + d1 * 16384 + d2 * 128 + b3) 128), (ltb_false (d0 * 2097152 + d1 * 16384 + d2 * 128 + b3) 16384), (ltb_false (d0 * 2097152 + d1 * 16384 + d2 * 128 + b3) 2097152), (ltb_true (d0 * 2097152 + d1 * 16384 + d2 * 128 + b3) 268435456) by lia.
    split; [|lia]. cbn [app]. repeat f_equal; dlia. }
  apply N.ltb_ge in L3.
  destruct s as [|b4 s]; [discriminate|]. cbn [read_base128_from] in H.
  change (0 + 1 + 1 + 1 + 1 =? 4) with true in H. discriminate.
Qed.

(* encoding/asn1 parseBase128Int: at most 5 octets, value <= MaxInt32 *)
Lemma a_base128_canonical s v rest : a_base128 s = Some (v, rest) -> bytes_ok s ->
  s = b128_form v ++ rest /\ v <= 2147483647.
Proof.
  unfold a_base128. intros H Hok.
  destruct s as [|b0 s]; [discriminate|]. apply bytes_ok_cons in Hok as [H0 Hok].
  cbn [a_base128_from] in H. change (0 =? 5) with false in H. change (0 =? 0) with true in H. cbn [andb] in H.
  destruct (b0 =? 128) eqn:E0; [discriminate|]. apply N.eqb_neq in E0.
  destruct (b0 <? 128) eqn:L0.
  { apply N.ltb_lt in L0.
    destruct (2147483647 <? _) eqn:M in H; [discriminate|]. apply N.ltb_ge in M.
    injection H as Hv Hr. rewrite (N.mod_small b0 128) in Hv by lia.
    rewrite (N.mod_small b0 128) in M by lia.
    assert (Ev : v = b0) by lia. clear Hv. subst v rest.
    unfold b128_form. rewrite (ltb_true (b0) 128) by lia.
    split; [|lia]. cbn [app]. repeat f_equal; dlia. }
  apply N.ltb_ge in L0.
  destruct s as [|b1 s]; [discriminate|]. apply bytes_ok_cons in Hok as [H1 Hok].
  cbn [a_base128_from] in H. change (0 + 1 =? 5) with false in H. change (0 + 1 =? 0) with false in H. cbn [andb] in H.
  set (d0 := b0 mod 128) in *. assert (Hd0 : d0 = b0 - 128 /\ 1 <= d0 < 128) by (unfold d0; dlia).
  destruct (b1 <? 128) eqn:L1.
  { apply N.ltb_lt in L1.
    destruct (2147483647 <? _) eqn:M in H; [discriminate|]. apply N.ltb_ge in M.
    injection H as Hv Hr. rewrite (N.mod_small b1 128) in Hv by lia.
    rewrite (N.mod_small b1 128) in M by lia.
    assert (Ev : v = d0 * 128 + b1) by lia. clear Hv. subst v rest.
    unfold b128_form. rewrite (ltb_false (d0 * 128 + b1) 128), (ltb_true (d0 * 128 + b1) 16384) by lia.
    split; [|lia]. cbn [app]. repeat f_equal; dlia. }
  apply N.ltb_ge in L1.
  destruct s as [|b2 s]; [discriminate|]. apply bytes_ok_cons in Hok as [H2 Hok].
  cbn [a_base128_from] in H. change (0 + 1 + 1 =? 5) with false in H. change (0 + 1 + 1 =? 0) with false in H. cbn [andb] in H.
  set (d1 := b1 mod 128) in *. assert (Hd1 : d1 = b1 - 128 /\ d1 < 128) by (unfold d1; dlia).
  destruct (b2 <? 128) eqn:L2.
  { apply N.ltb_lt in L2.
    destruct (2147483647 <? _) eqn:M in H; [discriminate|]. apply N.ltb_ge in M.
    injection H as Hv Hr. rewrite (N.mod_small b2 128) in Hv by lia.
    rewrite (N.mod_small b2 128) in M by lia.
    assert (Ev : v = d0 * 16384 + d1 * 128 + b2) by lia. clear Hv. subst v rest.
    unfold b128_form. rewrite (ltb_false (d0 * 16384 + d1 * 128 + b2) 128), (ltb_false (d0 * 16384 + d1 * 128 + b2) 16384), (ltb_true (d0 * 16384 + d1 * 128 + b2) 2097152) by lia.
    split; [|lia]. cbn [app]. repeat f_equal; dlia. }
  apply N.ltb_ge in L2.
  destruct s as [|b3 s]; [discriminate|]. apply bytes_ok_cons in Hok as [H3 Hok].
  cbn [a_base128_from] in H. change (0 + 1 + 1 + 1 =? 5) with false in H. change (0 + 1 + 1 + 1 =? 0) with false in H. cbn [andb] in H.
  set (d2 := b2 mod 128) in *. assert (Hd2 : d2 = b2 - 128 /\ d2 < 128) by (unfold d2; dlia).
  destruct (b3 <? 128) eqn:L3.
  { apply N.ltb_lt in L3.
    destruct (2147483647 <? _) eqn:M in H; [discriminate|]. apply N.ltb_ge in M.
    injection H as Hv Hr. rewrite (N.mod_small b3 128) in Hv by lia.
    rewrite (N.mod_small b3 128) in M by lia.
    assert (Ev : v = d0 * 2097152 + d1 * 16384 + d2 * 128 + b3) by lia. clear Hv. subst v rest.
    unfold b128_form. rewrite (ltb_false (d0 * 2097152 + d1 * 16384 + d2 * 128 + b3) 128), (ltb_false (d0 * 2097152 + d1 * 16384 + d2 * 128 + b3) 16384), (ltb_false (d0 * 2097152 + d1 * 16384 + d2 * 128 + b3) 2097152), (ltb_true (d0 * 2097152 + d1 * 16384 + d2 * 128 + b3) 268435456) by lia.
    split; [|lia]. cbn [app]. repeat f_equal; dlia. }
  apply N.ltb_ge in L3.
  destruct s as [|b4 s]; [discriminate|]. apply bytes_ok_cons in Hok as [H4 Hok].
  cbn [a_base128_from] in H. change (0 + 1 + 1 + 1 + 1 =? 5) with false in H. change (0 + 1 + 1 + 1 + 1 =? 0) with false in H. cbn [andb] in H.
  set (d3 := b3 mod 128) in *. assert (Hd3 : d3 = b3 - 128 /\ d3 < 128) by (unfold d3; dlia).
  destruct (b4 <? 128) eqn:L4.
  { apply N.ltb_lt in L4.
    destruct (2147483647 <? _) eqn:M in H; [discriminate|]. apply N.ltb_ge in M.
    injection H as Hv Hr. rewrite (N.mod_small b4 128) in Hv by lia.
    rewrite (N.mod_small b4 128) in M by lia.
    assert (Ev : v = d0 * 268435456 + d1 * 2097152 + d2 * 16384 + d3 * 128 + b4) by lia. clear Hv. subst v rest.
    unfold b128_form. rewrite (ltb_false (d0 * 268435456 + d1 * 2097152 + d2 * 16384 + d3 * 128 + b4) 128), (ltb_false (d0 * 268435456 + d1 * 2097152 + d2 * 16384 + d3 * 128 + b4) 16384), (ltb_false (d0 * 268435456 + d1 * 2097152 + d2 * 16384 + d3 * 128 + b4) 2097152), (ltb_false (d0 * 268435456 + d1 * 2097152 + d2 * 16384 + d3 * 128 + b4) 268435456) by lia.
    split; [|lia]. cbn [app]. repeat f_equal; dlia. }
  apply N.ltb_ge in L4.
  destruct s as [|b5 s]; [discriminate|]. cbn [a_base128_from] in H.
  change (0 + 1 + 1 + 1 + 1 + 1 =? 5) with true in H. discriminate.
Qed.

(* ------------------------------------------------------------------ OBJECT IDENTIFIER *)
Lemma bytes_ok_app a b : bytes_ok (a ++ b) -> bytes_ok a /\ bytes_ok b.
Proof. intro H. apply Forall_app in H. exact H. Qed.

Lemma read_arcs_canonical fuel : forall s l, read_arcs fuel s = Some l -> bytes_ok s ->
  s = flat_map base128_bytes l /\ Forall (fun z => (0 <= z)%Z) l.
Proof.
  induction fuel as [|f IH]; intros s l H Hok.
  - destruct s; [injection H as <-; split; [reflexivity|constructor]|discriminate].
  - destruct s as [|b t]; [injection H as <-; split; [reflexivity|constructor]|].
    cbn [read_arcs] in H. destruct (read_base128 (b :: t)) as [[v s']|] eqn:E; [|discriminate].
    destruct (read_arcs f s') as [l'|] eqn:E'; [|discriminate]. injection H as <-.
    destruct (cb_base128_canonical _ _ _ E Hok) as [Hs Hv].
    rewrite Hs in Hok. apply bytes_ok_app in Hok as [_ Hok'].
    destruct (IH s' l' E' Hok') as [Hs' Hl'].
    split; [|constructor; [lia|assumption]].
    cbn [flat_map]. rewrite base128_bytes_form by lia. rewrite Hs at 1. now rewrite Hs' at 1.
Qed.

Lemma a_arcs_canonical fuel : forall s l, a_arcs fuel s = Some l -> bytes_ok s ->
  s = flat_map base128_bytes l /\ Forall (fun z => (0 <= z)%Z) l.
Proof.
  induction fuel as [|f IH]; intros s l H Hok.
  - destruct s; [injection H as <-; split; [reflexivity|constructor]|discriminate].
  - destruct s as [|b t]; [injection H as <-; split; [reflexivity|constructor]|].
    cbn [a_arcs] in H. destruct (a_base128 (b :: t)) as [[v s']|] eqn:E; [|discriminate].
    destruct (a_arcs f s') as [l'|] eqn:E'; [|discriminate]. injection H as <-.
    destruct (a_base128_canonical _ _ _ E Hok) as [Hs Hv].
    rewrite Hs in Hok. apply bytes_ok_app in Hok as [_ Hok'].
    destruct (IH s' l' E' Hok') as [Hs' Hl'].
    split; [|constructor; [lia|assumption]].
    cbn [flat_map]. rewrite base128_bytes_form by lia. rewrite Hs at 1. now rewrite Hs' at 1.
Qed.

Lemma forallb_nonneg l : Forall (fun z => (0 <= z)%Z) l -> forallb (fun v => (0 <=? v)%Z) l = true.
Proof. induction 1 as [|z t Hz Ht IH]; [reflexivity|]. cbn. rewrite IH. now rewrite (proj2 (Z.leb_le 0 z) Hz). Qed.

(* the first two arcs packed into one sub-identifier *)
Lemma first_arcs v : v < 34359738368 ->
  let a := if v <? 80 then Z.of_N (v / 40) else 2%Z in
  let b := if v <? 80 then Z.of_N (v mod 40) else Z.of_N (v - 80) in
  (a * 40 + b = Z.of_N v)%Z /\ (0 <= a <= 2)%Z /\ (0 <= b)%Z /\ ((a <= 1)%Z -> (b < 40)%Z).
Proof.
  intro H. cbv zeta. destruct (v <? 80) eqn:C; [apply N.ltb_lt in C|apply N.ltb_ge in C].
  - rewrite N2Z.inj_div, N2Z.inj_mod. change (Z.of_N 40) with 40%Z. dlia.
  - lia.
Qed.

Lemma cb_oid_canonical c arcs : oid_of_content c = Some arcs -> bytes_ok c -> oid_content arcs = Some c.
Proof.
  intros H Hok. unfold oid_of_content in H. destruct c as [|x t]; [discriminate|].
  destruct (read_base128 (x :: t)) as [[v s']|] eqn:E; [|discriminate].
  destruct (read_arcs (length s') s') as [l|] eqn:E'; [|discriminate].
  destruct (cb_base128_canonical _ _ _ E Hok) as [Hs Hv].
  assert (Hok' : bytes_ok s') by (rewrite Hs in Hok; now apply bytes_ok_app in Hok as [_ ?]).
  destruct (read_arcs_canonical _ _ _ E' Hok') as [Hs' Hl].
  destruct (first_arcs v ltac:(lia)) as (Hab & Ha & Hb & Hab40). cbv zeta in *.
  set (a := if v <? 80 then Z.of_N (v / 40) else 2%Z) in *.
  set (b := if v <? 80 then Z.of_N (v mod 40) else Z.of_N (v - 80)) in *.
  assert (Harcs : arcs = a :: b :: l) by (unfold a, b; destruct (v <? 80); congruence).
  subst arcs. unfold oid_content.
  assert (V : is_valid_oid (a :: b :: l) = true).
  { cbn [is_valid_oid forallb]. rewrite (forallb_nonneg l Hl).
    rewrite (proj2 (Z.leb_le 0 a)), (proj2 (Z.leb_le 0 b)) by lia. cbn [andb]. rewrite andb_true_r.
    apply negb_true_iff, orb_false_iff. split; [apply Z.ltb_ge; lia|].
    destruct (a <=? 1)%Z eqn:Ca; [|reflexivity]. apply Z.leb_le in Ca. cbn [andb]. apply Z.leb_gt. auto. }
  rewrite V. f_equal.
  assert (W : wrap64 (a * 40 + b) = Z.of_N v).
  { rewrite Hab. unfold wrap64, two64, two63. rewrite Z.mod_small by lia.
    rewrite (proj2 (Z.ltb_lt _ _)) by lia. reflexivity. }
  rewrite W, base128_bytes_form by lia. rewrite Hs. now rewrite <- Hs'.
Qed.

Lemma a_oid_canonical bs arcs : a_parse_oid bs = Some arcs -> bytes_ok bs -> a_oid_bytes arcs = Some bs.
Proof.
  intros H Hok. unfold a_parse_oid in H. destruct bs as [|x t]; [discriminate|].
  destruct (a_base128 (x :: t)) as [[v s']|] eqn:E; [|discriminate].
  destruct (a_arcs (length s') s') as [l|] eqn:E'; [|discriminate].
  destruct (a_base128_canonical _ _ _ E Hok) as [Hs Hv].
  assert (Hok' : bytes_ok s') by (rewrite Hs in Hok; now apply bytes_ok_app in Hok as [_ ?]).
  destruct (a_arcs_canonical _ _ _ E' Hok') as [Hs' Hl].
  destruct (first_arcs v ltac:(lia)) as (Hab & Ha & Hb & Hab40). cbv zeta in *.
  set (a := if v <? 80 then Z.of_N (v / 40) else 2%Z) in *.
  set (b := if v <? 80 then Z.of_N (v mod 40) else Z.of_N (v - 80)) in *.
  assert (Harcs : arcs = a :: b :: l) by (unfold a, b; destruct (v <? 80); congruence).
  subst arcs. unfold a_oid_bytes.
  assert (V : ((2 <? a) || ((a <? 2) && (40 <=? b)))%Z = false).
  { apply orb_false_iff. split; [apply Z.ltb_ge; lia|].
    destruct (a <? 2)%Z eqn:Ca; [|reflexivity]. apply Z.ltb_lt in Ca. cbn [andb]. apply Z.leb_gt. apply Hab40. lia. }
  rewrite V. f_equal. rewrite Hab, base128_bytes_form by lia. rewrite Hs. now rewrite <- Hs'.
Qed.

(* the defect repaired by e03288a: without the leading-0x80 test the reader accepts
   2a 80 01 as 1.2.1, which re-encodes as 2a 01 *)
Fixpoint old_base128_from (i ret : N) (s : bytes) : option (N * bytes) :=
  match s with
  | [] => None
  | b :: s' =>
      if i =? 4 then None else
      let ret' := ret * 128 + b mod 128 in
      if b <? 128 then Some (ret', s') else old_base128_from (i + 1) ret' s'
  end.
Lemma old_base128_refuted :
  old_base128_from 0 0 [128; 1] = Some (1, []) /\ b128_form 1 = [1] /\
  read_base128 [128; 1] = None /\ oid_of_content [42; 128; 1] = None /\
  oid_of_content [42; 1] = Some [1; 2; 1]%Z.
Proof. repeat split; vm_compute; reflexivity. Qed.

(* a sub-identifier with a leading 0x80 octet is rejected by both codecs *)
Lemma leading_0x80_rejected s : read_base128 (128 :: s) = None /\ a_base128 (128 :: s) = None.
Proof. split; reflexivity. Qed.

(* ------------------------------------------------------------------ tag/length header: cryptobyte readASN1 *)
Lemma asn1_len_octets_long k len : (1 <= k <= 4)%nat -> 128 <= len ->
  256 ^ N.of_nat (k - 1) <= len < 256 ^ N.of_nat k -> len <= 4294967294 ->
  asn1_len_octets len = Some ((128 + N.of_nat k) :: be_n k len).
Proof.
  intros Hk H128 [Hlo Hhi] Hmax. unfold asn1_len_octets.
  rewrite (ltb_false 4294967294 len) by lia.
  destruct k as [|[|[|[|[|k]]]]]; try lia; cbn in Hlo, Hhi.
  - rewrite (ltb_false 16777215 len), (ltb_false 65535 len), (ltb_false 255 len), (ltb_true 127 len) by lia. reflexivity.
  - rewrite (ltb_false 16777215 len), (ltb_false 65535 len), (ltb_true 255 len) by lia. reflexivity.
  - rewrite (ltb_false 16777215 len), (ltb_true 65535 len) by lia. reflexivity.
  - rewrite (ltb_true 16777215 len) by lia. reflexivity.
Qed.

Lemma quad_inj {A B C D} (a a' : A) (b b' : B) (c c' : C) (d d' : D) :
  Some (a, b, c, d) = Some (a', b', c', d') -> a = a' /\ b = b' /\ c = c' /\ d = d'.
Proof. intro H. inversion H. auto. Qed.
Lemma bytes_ok_firstn n l : bytes_ok l -> bytes_ok (firstn n l).
Proof.
  revert l; induction n as [|n IH]; intros l H; [constructor|].
  destruct l as [|x t]; [constructor|]. inversion H; subst. cbn. constructor; auto. apply IH; auto.
Qed.

Lemma cb_header_canonical s tag hl el rest : read_asn1 s = Some (tag, hl, el, rest) -> bytes_ok s ->
  s = el ++ rest /\ h_asn1 tag (Some (skipn (N.to_nat hl) el)) = Some el.
Proof.
  intros H Hok. unfold read_asn1 in H. destruct s as [|t0 [|lb s']]; try discriminate.
  destruct (t0 mod 32 =? 31) eqn:Et; [discriminate|].
  pose proof Hok as Hok0. apply bytes_ok_cons in Hok as [Ht0 Hok]. apply bytes_ok_cons in Hok as [Hlb Hok'].
  destruct (lb <? 128) eqn:Es.
  - (* short form *)
    apply N.ltb_lt in Es.
    destruct (take (lb + 2) (t0 :: lb :: s')) as [[e r]|] eqn:Tk; [|discriminate].
    apply quad_inj in H as (<- & Hhl & <- & <-). subst hl. apply take_spec in Tk as [Hs Hl]. split; [exact Hs|].
    destruct e as [|e0 [|e1 c]]; try (rewrite ?blen_cons, ?blen_nil in Hl; lia).
    cbn [app] in Hs. injection Hs as <- <- Hs'. rewrite !blen_cons in Hl.
    change (N.to_nat 2) with 2%nat. cbn [skipn].
    unfold h_asn1. rewrite Et. unfold asn1_len_octets.
    assert (Hc : blen c = lb) by lia. rewrite Hc.
    rewrite (ltb_false 4294967294 lb), (ltb_false 16777215 lb), (ltb_false 65535 lb), (ltb_false 255 lb), (ltb_false 127 lb) by lia.
    reflexivity.
  - (* long form *)
    apply N.ltb_ge in Es. cbv zeta in H.
    set (lenLen := lb mod 128) in *.
    destruct ((lenLen =? 0) || (4 <? lenLen) || (blen (t0 :: lb :: s') <? 2 + lenLen)) eqn:C1; [discriminate|].
    apply orb_false_iff in C1 as [C1 C3]. apply orb_false_iff in C1 as [C1 C2].
    apply N.eqb_neq in C1. apply N.ltb_ge in C2, C3.
    assert (Hlb' : lb = 128 + lenLen) by (unfold lenLen; dlia).
    cbn [skipn] in H. set (L := firstn (N.to_nat lenLen) s') in *.
    destruct (be_val L <? 128) eqn:C4; [discriminate|]. apply N.ltb_ge in C4.
    destruct (be_val L / 2 ^ (8 * (lenLen - 1)) =? 0) eqn:C5; [discriminate|]. apply N.eqb_neq in C5.
    destruct ((2 + lenLen + be_val L) mod 4294967296 <? be_val L) eqn:C6; [discriminate|]. apply N.ltb_ge in C6.
    destruct (take (2 + lenLen + be_val L) (t0 :: lb :: s')) as [[e r]|] eqn:Tk; [|discriminate].
    apply quad_inj in H as (<- & Hhl & <- & <-). subst hl. apply take_spec in Tk as [Hs Hl]. split; [exact Hs|].
    destruct e as [|e0 [|e1 e']]; try (rewrite ?blen_cons, ?blen_nil in Hl; lia).
    cbn [app] in Hs. injection Hs as <- <- Hs'. rewrite !blen_cons in Hl, C3.
    assert (HlenL : length L = N.to_nat lenLen).
    { unfold L. rewrite firstn_length. unfold blen in C3. lia. }
    assert (HokL : bytes_ok L) by (unfold L; apply bytes_ok_firstn; exact Hok').
    pose proof (be_val_lt L HokL) as Hlt. unfold blen in Hlt. rewrite HlenL, N2Nat.id in Hlt.
    (* e' = L ++ c *)
    assert (He' : e' = L ++ skipn (N.to_nat lenLen) e').
    { unfold L. rewrite Hs'. rewrite firstn_app.
      replace (N.to_nat lenLen - length e')%nat with 0%nat by (unfold blen in Hl; lia).
      rewrite firstn_O, app_nil_r. symmetry. apply firstn_skipn. }
    set (c := skipn (N.to_nat lenLen) e') in *.
    assert (Hc : blen c = be_val L).
    { unfold c, blen. rewrite skipn_length. unfold blen in Hl. lia. }
    replace (N.to_nat (2 + lenLen)) with (S (S (N.to_nat lenLen))) by lia. cbn [skipn]. fold c.
    unfold h_asn1. rewrite Et, Hc.
    assert (Hpow : 2 ^ (8 * (lenLen - 1)) = 256 ^ N.of_nat (N.to_nat lenLen - 1)).
    { rewrite N.pow_mul_r. change (2 ^ 8) with 256. f_equal. lia. }
    rewrite Hpow in C5.
    assert (Hlo : 256 ^ N.of_nat (N.to_nat lenLen - 1) <= be_val L).
    { destruct (N.le_gt_cases (256 ^ N.of_nat (N.to_nat lenLen - 1)) (be_val L)) as [?|G]; [assumption|].
      exfalso. apply C5. now apply N.div_small. }
    assert (Hmax : be_val L <= 4294967294).
    { assert (Hb32 : be_val L < 4294967296).
      { eapply N.lt_le_trans; [exact Hlt|]. change 4294967296 with (256 ^ 4). apply N.pow_le_mono_r; lia. }
      destruct (N.lt_ge_cases (2 + lenLen + be_val L) 4294967296) as [?|G]; [lia|]. exfalso.
      assert ((2 + lenLen + be_val L) mod 4294967296 = 2 + lenLen + be_val L - 4294967296).
      { symmetry. apply N.mod_unique with 1; lia. }
      lia. }
    rewrite (asn1_len_octets_long (N.to_nat lenLen) (be_val L)); try lia.
    rewrite N2Nat.id, <- Hlb'. rewrite <- HlenL, (be_n_be_val L HokL).
    cbn [app]. now rewrite <- He'.
Qed.


(* ------------------------------------------------------------------ tag/length header: encoding/asn1 parseTagAndLength *)
Lemma a_length_loop_spec n : forall acc s len rest,
  a_length_loop n acc s = Some (len, rest) -> bytes_ok s ->
  exists L, s = L ++ rest /\ length L = n /\ bytes_ok L /\ len = acc * 256 ^ N.of_nat n + be_val L.
Proof.
  induction n as [|n IH]; intros acc s len rest H Hok.
  - injection H as <- <-. exists []. repeat split; [constructor|cbn; lia].
  - cbn [a_length_loop] in H. destruct s as [|b s']; [discriminate|].
    destruct (8388608 <=? acc); [discriminate|].
    destruct (acc * 256 + b =? 0); [discriminate|].
    apply bytes_ok_cons in Hok as [Hb Hok].
    destruct (IH _ _ _ _ H Hok) as (L & -> & HL & HokL & ->).
    exists (b :: L). repeat split; [cbn; now rewrite HL|constructor; assumption|].
    rewrite be_val_cons, pow256_succ. unfold blen. rewrite HL. lia.
Qed.

Lemma a_length_loop_bound n : forall acc s len rest,
  a_length_loop (S n) acc s = Some (len, rest) -> 1 <= acc -> acc * 256 ^ N.of_nat n < 8388608.
Proof.
  induction n as [|n IH]; intros acc s len rest H Hacc.
  - cbn [a_length_loop] in H. destruct s as [|b s']; [discriminate|].
    destruct (8388608 <=? acc) eqn:C; [discriminate|]. apply N.leb_gt in C. cbn. lia.
  - remember (S n) as m. cbn [a_length_loop] in H. destruct s as [|b s']; [discriminate|].
    destruct (8388608 <=? acc) eqn:C; [discriminate|]. apply N.leb_gt in C.
    destruct (acc * 256 + b =? 0); [discriminate|]. subst m.
    pose proof (IH _ _ _ _ H ltac:(lia)) as B.
    rewrite pow256_succ. set (p := 256 ^ N.of_nat n) in *. nia.
Qed.

Lemma a_length_length_spec n len : (1 <= n <= 4)%nat -> 256 ^ N.of_nat (n - 1) <= len < 256 ^ N.of_nat n ->
  a_length_length 8 len = n.
Proof.
  intros Hn [Hlo Hhi]. destruct n as [|[|[|[|[|n]]]]]; try lia; cbn in Hlo, Hhi; cbn [a_length_length].
  - rewrite (ltb_false 255 len) by lia. reflexivity.
  - rewrite (ltb_true 255 len) by lia. rewrite (ltb_false 255 (len / 256)) by dlia. reflexivity.
  - rewrite (ltb_true 255 len) by lia. rewrite (ltb_true 255 (len / 256)) by dlia.
    rewrite (ltb_false 255 (len / 256 / 256)) by dlia. reflexivity.
  - rewrite (ltb_true 255 len) by lia. rewrite (ltb_true 255 (len / 256)) by dlia.
    rewrite (ltb_true 255 (len / 256 / 256)) by dlia. rewrite (ltb_false 255 (len / 256 / 256 / 256)) by dlia. reflexivity.
Qed.

(* the long-form length octets parseTagAndLength accepts are the ones appendLength writes *)
Lemma a_long_length_canonical n s len rest : (1 <= n)%nat ->
  a_length_loop n 0 s = Some (len, rest) -> bytes_ok s ->
  s = a_length_bytes len ++ rest /\ a_length_length 8 len = n /\ (n <= 4)%nat.
Proof.
  intros Hn H Hok. destruct n as [|n]; [lia|].
  destruct (a_length_loop_spec _ _ _ _ _ H Hok) as (L & -> & HL & HokL & Hlen).
  rewrite N.mul_0_l, N.add_0_l in Hlen. subst len.
  (* first octet is not zero *)
  destruct L as [|b1 L']; [discriminate|]. cbn [length] in HL. injection HL as HL'.
  cbn [a_length_loop app] in H. change (8388608 <=? 0) with false in H. cbn iota in H.
  rewrite N.mul_0_l, N.add_0_l in H.
  destruct (b1 =? 0) eqn:E1; [discriminate|]. apply N.eqb_neq in E1.
  apply bytes_ok_cons in HokL as [Hb1 HokL'].
  pose proof (be_val_lt L' HokL') as Hlt. unfold blen in Hlt. rewrite HL' in Hlt.
  assert (Hn4 : (n <= 3)%nat).
  { destruct n as [|n']; [lia|].
    pose proof (a_length_loop_bound _ _ _ _ _ H ltac:(lia)) as B.
    destruct n' as [|[|[|n'']]]; try lia. exfalso.
    rewrite !pow256_succ in B. assert (0 < 256 ^ N.of_nat n'') by (apply N.neq_0_lt_0, N.pow_nonzero; lia). nia. }
  assert (Hrange : 256 ^ N.of_nat n <= be_val (b1 :: L') < 256 ^ N.of_nat (S n)).
  { rewrite be_val_cons, pow256_succ. unfold blen. rewrite HL'. set (p := 256 ^ N.of_nat n) in *. nia. }
  assert (Hll : a_length_length 8 (be_val (b1 :: L')) = S n).
  { apply a_length_length_spec; [lia|]. replace (S n - 1)%nat with n by lia. exact Hrange. }
  split; [|split; [exact Hll|lia]].
  unfold a_length_bytes. rewrite Hll.
  replace (S n) with (length (b1 :: L')) by (cbn; now rewrite HL').
  rewrite be_n_be_val by (constructor; assumption). reflexivity.
Qed.

Lemma a_header_canonical s t rest : a_parse_tag_and_length s = Some (t, rest) -> bytes_ok s ->
  s = a_tag_and_length_bytes t ++ rest.
Proof.
  intros H Hok. unfold a_parse_tag_and_length in H. destruct s as [|b s1]; [discriminate|]. cbv zeta in H.
  apply bytes_ok_cons in Hok as [Hb Hok1].
  set (class := b / 64) in *. set (comp := 32 <=? b mod 64) in *. set (tag0 := b mod 32) in *.
  assert (Hid : b = class * 64 + (if comp then 32 else 0) + tag0 /\ tag0 < 32 /\ class < 4).
  { unfold class, comp, tag0. destruct (32 <=? b mod 64) eqn:C; [apply N.leb_le in C|apply N.leb_gt in C]; dlia. }
  (* identifier *)
  assert (Hident : exists tag s2,
     (if tag0 =? 31 then match a_base128 s1 with
                         | Some (t, s2) => if t <? 31 then None else Some (t, s2)
                         | None => None end
      else Some (tag0, s1)) = Some (tag, s2) /\
     b :: s1 = (if 31 <=? tag then (class * 64 + (if comp then 32 else 0) + 31) :: base128_bytes (Z.of_N tag)
                else [class * 64 + (if comp then 32 else 0) + tag]) ++ s2 /\ bytes_ok s2).
  { destruct (tag0 =? 31) eqn:E31.
    - apply N.eqb_eq in E31. destruct (a_base128 s1) as [[tg s2]|] eqn:Eb; [|discriminate].
      destruct (tg <? 31) eqn:Elt; [discriminate|]. apply N.ltb_ge in Elt.
      destruct (a_base128_canonical _ _ _ Eb Hok1) as [Hs1 Hmax].
      exists tg, s2. split; [reflexivity|]. rewrite (leb_true 31 tg Elt). split.
      + rewrite base128_bytes_form by lia. cbn [app]. rewrite <- Hs1. f_equal. lia.
      + rewrite Hs1 in Hok1. now apply bytes_ok_app in Hok1 as [_ ?].
    - apply N.eqb_neq in E31. exists tag0, s1. split; [reflexivity|].
      rewrite (leb_false 31 tag0) by lia. split; [|assumption]. cbn [app]. f_equal. lia. }
  destruct Hident as (tag & s2 & Etag & Hs & Hok2). rewrite Etag in H. rewrite Hs.
  destruct s2 as [|lb s3]; [discriminate|]. apply bytes_ok_cons in Hok2 as [Hlb Hok3].
  destruct (lb <? 128) eqn:Es.
  - apply N.ltb_lt in Es. injection H as <- <-. unfold a_tag_and_length_bytes.
    cbn [t_class t_compound t_tag t_length]. rewrite (leb_false 128 lb) by lia.
    rewrite <- !app_assoc. reflexivity.
  - apply N.ltb_ge in Es. set (numBytes := lb mod 128) in *.
    destruct (numBytes =? 0) eqn:E0; [discriminate|]. apply N.eqb_neq in E0.
    destruct (a_length_loop (N.to_nat numBytes) 0 s3) as [[len s4]|] eqn:El; [|discriminate].
    destruct (len <? 128) eqn:E128; [discriminate|]. apply N.ltb_ge in E128. injection H as <- <-.
    destruct (a_long_length_canonical (N.to_nat numBytes) s3 len s4 ltac:(lia) El Hok3) as (Hs3 & Hll & Hn4).
    unfold a_tag_and_length_bytes. cbn [t_class t_compound t_tag t_length].
    rewrite (leb_true 128 len) by lia. rewrite Hll, N2Nat.id.
    replace (128 + numBytes) with lb by (unfold numBytes; dlia).
    rewrite <- !app_assoc. cbn [app]. rewrite <- Hs3. reflexivity.
Qed.

(* ------------------------------------------------------------------ GeneralizedTime (cryptobyte) *)
Lemma p2_inv a b n : p2 a b = Some n -> a = 48 + n / 10 /\ b = 48 + n mod 10 /\ n < 100.
Proof.
  unfold p2, is_digit. destruct ((48 <=? a) && (a <=? 57) && ((48 <=? b) && (b <=? 57))) eqn:E; [|discriminate].
  apply andb_true_iff in E as [E1 E2]. apply andb_true_iff in E1 as [A1 A2]. apply andb_true_iff in E2 as [B1 B2].
  apply N.leb_le in A1, A2, B1, B2. intros [= <-]. dlia.
Qed.

Lemma zone_canonical z off : zone_of z = Some off -> zone_bytes off = z /\ (-1500 < off < 1500)%Z.
Proof.
  unfold zone_of. destruct z as [|sg [|a [|b [|c [|d [|? ?]]]]]]; try discriminate.
  - destruct (sg =? 90) eqn:E; [|discriminate]. apply N.eqb_eq in E. subst sg.
    intros [= <-]. split; [reflexivity|lia].
  - destruct (p2 a b) as [hh|] eqn:Eh; [|discriminate]. destruct (p2 c d) as [mm|] eqn:Em; [|discriminate].
    destruct ((hh <=? 24) && (mm <=? 59) && negb ((hh =? 0) && (mm =? 0))) eqn:E; [|discriminate].
    apply andb_true_iff in E as [E E3]. apply andb_true_iff in E as [E1 E2].
    apply N.leb_le in E1, E2. apply negb_true_iff in E3.
    assert (Hnz : hh * 60 + mm <> 0).
    { intro Z0. assert (hh = 0) by lia. assert (mm = 0) by lia. subst. discriminate. }
    apply p2_inv in Eh as (-> & -> & Hh). apply p2_inv in Em as (-> & -> & Hm).
    destruct (sg =? 43) eqn:S1; [|destruct (sg =? 45) eqn:S2; [|discriminate]]; intros [= <-].
    + apply N.eqb_eq in S1. subst sg. split; [|lia]. unfold zone_bytes.
      rewrite (proj2 (Z.eqb_neq _ 0)) by lia. rewrite (proj2 (Z.ltb_ge _ 0)) by lia.
      rewrite Z.abs_eq, N2Z.id by lia.
      replace ((hh * 60 + mm) / 60) with hh by dlia. replace ((hh * 60 + mm) mod 60) with mm by dlia.
      reflexivity.
    + apply N.eqb_eq in S2. subst sg. split; [|lia]. unfold zone_bytes.
      rewrite (proj2 (Z.eqb_neq _ 0)) by lia. rewrite (proj2 (Z.ltb_lt _ 0)) by lia.
      rewrite Z.abs_neq, Z.opp_involutive, N2Z.id by lia.
      replace ((hh * 60 + mm) / 60) with hh by dlia. replace ((hh * 60 + mm) mod 60) with mm by dlia.
      reflexivity.
Qed.

Lemma cb_gentime_canonical c t : gtime_of_content c = Some t ->
  gentime_content t = c /\ gentime_year_ok t = true.
Proof.
  unfold gtime_of_content.
  do 14 (destruct c as [|? c]; [discriminate|]).
  repeat match goal with
         | |- context [match p2 ?a ?b with _ => _ end] =>
             let E := fresh "E" in destruct (p2 a b) eqn:E; [apply p2_inv in E as (-> & -> & ?)|discriminate]
         end.
  destruct (zone_of c) as [off|] eqn:Ez; [|discriminate].
  destruct (civil_ok _ _ _ _ _ _) eqn:Ec; [|discriminate]. intros [= <-].
  apply zone_canonical in Ez as [Hz Hoff].
  unfold gentime_content, gentime_year_ok. cbn [gY gMo gD gh gmi gs goff d4 d2 app].
  rewrite N2Z.id. split.
  - match goal with |- context [(?y / 1000)] =>
      match y with ?a * 100 + ?b =>
        assert (E1 : y / 1000 = a / 10) by dlia;
        assert (E2 : (y / 100) mod 10 = a mod 10) by dlia;
        assert (E3 : (y / 10) mod 10 = b / 10) by dlia;
        assert (E4 : y mod 10 = b mod 10) by dlia
      end end.
    rewrite E1, E2, E3, E4, Hz. reflexivity.
  - apply andb_true_iff. split; apply Z.leb_le; lia.
Qed.

(* ------------------------------------------------------------------ indefinite lengths *)
Lemma indefinite_rejected tag s :
  read_asn1 (tag :: 128 :: s) = None /\
  (tag mod 32 <> 31 -> a_parse_tag_and_length (tag :: 128 :: s) = None).
Proof.
  split.
  - unfold read_asn1. destruct (tag mod 32 =? 31); reflexivity.
  - intro Ht. unfold a_parse_tag_and_length. cbv zeta. rewrite (eqb_false _ _ Ht). reflexivity.
Qed.

(* non-vacuity: each decoder accepts something, and the canonical theorems apply to it *)
Lemma c19_nonvacuous :
  read_asn1 [48; 129; 128] = None /\
  (exists el, read_asn1 ([48; 129; 128] ++ nrep 7 128 ++ [9]) = Some (48, 3, el, [9])) /\
  a_parse_tag_and_length [191; 129; 0; 130; 1; 0; 7] =
    Some ({| t_class := 2; t_compound := true; t_tag := 128; t_length := 256 |}, [7]) /\
  a_parse_int64 [255; 127] = Some (-129)%Z /\ asn1_signed [255; 127] = Some (-129)%Z /\
  a_parse_oid [42; 134; 72; 134; 247; 13] = Some [1; 2; 840; 113549]%Z /\
  oid_of_content [42; 134; 72; 134; 247; 13] = Some [1; 2; 840; 113549]%Z /\
  a_parse_bitstring [3; 168] = Some ([168], 5%Z) /\ bitstring_of_content [3; 168] = Some ([168], 5%Z) /\
  gtime_of_content [50;48;50;48;48;50;50;57;49;50;51;52;53;54;43;48;49;51;48] =
    Some {| gY := 2020; gMo := 2; gD := 29; gh := 12; gmi := 34; gs := 56; goff := 90 |}.
Proof. repeat split; try (eexists; vm_compute; reflexivity); vm_compute; reflexivity. Qed.
