(* C33JsonProofs.v — round-trip lemmas for the text leaf codecs and the generic
   round-trip theorem for field lists. *)
From Coq Require Import List NArith ZArith Bool String Ascii Decimal DecimalString DecimalN DecimalPos Lia.
From VerifModel Require Import C33Json.
Import ListNotations.
Local Open Scope string_scope.

(* ---------- finite ranges ---------- *)
Lemma nrange_complete k v : (v < 2 ^ N.of_nat k)%N -> In v (nrange k).
Proof.
  revert v; induction k as [|k IH]; intros v Hv.
  - simpl in *. left. lia.
  - cbn [nrange]. apply in_or_app.
    replace (N.of_nat (S k)) with (N.succ (N.of_nat k)) in Hv by lia.
    rewrite N.pow_succ_r' in Hv.
    destruct (N.ltb_spec v (2 ^ N.of_nat k)) as [Hlt|Hge].
    + left; auto.
    + right. apply in_map_iff. exists (v - 2 ^ N.of_nat k)%N. split; [lia|]. apply IH. lia.
Qed.

Lemma forall_range k (f : N -> bool) :
  forallb f (nrange k) = true -> forall v, (v < 2 ^ N.of_nat k)%N -> f v = true.
Proof. intros H v Hv. rewrite forallb_forall in H. apply H, nrange_complete, Hv. Qed.

Lemma forall_ascii (f : ascii -> bool) :
  forallb (fun n => f (ascii_of_N n)) (nrange 8) = true -> forall c, f c = true.
Proof.
  intros H c. rewrite <- (ascii_N_embedding c).
  apply (forall_range 8 (fun n => f (ascii_of_N n)) H). apply N_ascii_bounded.
Qed.

(* ---------- hex ---------- *)
Definition hex_char_ok (up : bool) (c : ascii) : bool :=
  let n := N_of_ascii c in
  match unhexdigit (hexdigit up (n / 16)), unhexdigit (hexdigit up (n mod 16)) with
  | Some x, Some y => Ascii.eqb (ascii_of_N (16 * x + y)) c
  | _, _ => false
  end.
Lemma hex_char_ok_all up c : hex_char_ok up c = true.
Proof. destruct up; apply forall_ascii; vm_compute; reflexivity. Qed.

Lemma hex_roundtrip up s : hex_dec (hex_enc up s) = Some s.
Proof.
  induction s as [|c r IH]; [reflexivity|].
  cbn [hex_enc hex_dec]. pose proof (hex_char_ok_all up c) as H. unfold hex_char_ok in H.
  destruct (unhexdigit (hexdigit up (N_of_ascii c / 16))) as [x|]; [|discriminate].
  destruct (unhexdigit (hexdigit up (N_of_ascii c mod 16))) as [y|]; [|discriminate].
  rewrite IH. apply Ascii.eqb_eq in H. now rewrite H.
Qed.

(* ---------- base64 ---------- *)
Lemma b64val_char n : (n < 64)%N -> b64val (b64char n) = Some n.
Proof.
  intro H.
  assert (X: forallb (fun n => match b64val (b64char n) with Some m => N.eqb m n | None => false end) (nrange 6) = true)
    by (vm_compute; reflexivity).
  pose proof (forall_range 6 _ X n H) as E. cbv beta in E.
  destruct (b64val (b64char n)) as [m|]; [|discriminate].
  apply N.eqb_eq in E. now subst.
Qed.
Lemma b64char_not_pad n : (n < 64)%N -> is_pad (b64char n) = false.
Proof.
  intro H.
  assert (X: forallb (fun n => negb (is_pad (b64char n))) (nrange 6) = true) by (vm_compute; reflexivity).
  pose proof (forall_range 6 _ X n H) as E. cbv beta in E. now apply negb_true_iff in E.
Qed.

Lemma pair_range (f : N -> N -> bool) ka kb :
  forallb (fun a => forallb (f a) (nrange kb)) (nrange ka) = true ->
  forall a b, (a < 2 ^ N.of_nat ka)%N -> (b < 2 ^ N.of_nat kb)%N -> f a b = true.
Proof.
  intros H a b Ha Hb.
  pose proof (forall_range ka _ H a Ha) as H1. cbv beta in H1.
  exact (forall_range kb _ H1 b Hb).
Qed.

Lemma sx_bounds x y z : (x < 256 -> y < 256 -> z < 256 ->
  sx1 x < 64 /\ sx2 x y < 64 /\ sx3 y z < 64 /\ sx4 z < 64)%N.
Proof.
  intros Hx Hy Hz.
  assert (A: (sx1 x <? 64)%N = true) by (apply (forall_range 8 (fun x => (sx1 x <? 64)%N)); [vm_compute; reflexivity|exact Hx]).
  assert (B: (sx2 x y <? 64)%N = true) by (apply (pair_range (fun x y => (sx2 x y <? 64)%N) 8 8); [vm_compute; reflexivity|exact Hx|exact Hy]).
  assert (C: (sx3 y z <? 64)%N = true) by (apply (pair_range (fun y z => (sx3 y z <? 64)%N) 8 8); [vm_compute; reflexivity|exact Hy|exact Hz]).
  assert (D: (sx4 z <? 64)%N = true) by (apply (forall_range 8 (fun z => (sx4 z <? 64)%N)); [vm_compute; reflexivity|exact Hz]).
  apply N.ltb_lt in A, B, C, D. auto.
Qed.

(* the sextet arithmetic, proved on the two bytes each equation really depends on *)
Lemma by1_ok x y : (x < 256 -> y < 256 -> by1 (sx1 x) (sx2 x y) = x)%N.
Proof.
  intros Hx Hy. apply N.eqb_eq.
  apply (pair_range (fun x y => (by1 (sx1 x) (sx2 x y) =? x)%N) 8 8); [vm_compute; reflexivity|exact Hx|exact Hy].
Qed.
Definition low2 (a : N) (y : N) : N := (a * 16 + y / 16)%N.
Lemma by2_ok_aux a y z : (a < 4 -> y < 256 -> z < 256 -> by2 (low2 a y) (sx3 y z) = y)%N.
Proof.
  intros Ha Hy Hz.
  (* by2 v2 v3 = (v2 mod 16) * 16 + v3 / 4; (a*16 + y/16) mod 16 = y/16 *)
  assert (E1: ((low2 a y) mod 16 = y / 16)%N).
  { apply N.eqb_eq. apply (pair_range (fun a y => ((low2 a y) mod 16 =? y / 16)%N) 2 8); [vm_compute; reflexivity|exact Ha|exact Hy]. }
  unfold by2. rewrite E1. apply N.eqb_eq.
  apply (pair_range (fun y z => ((y / 16) * 16 + sx3 y z / 4 =? y)%N) 8 8); [vm_compute; reflexivity|exact Hy|exact Hz].
Qed.
Lemma by2_ok x y z : (x < 256 -> y < 256 -> z < 256 -> by2 (sx2 x y) (sx3 y z) = y)%N.
Proof.
  intros Hx Hy Hz. change (sx2 x y) with (low2 (x mod 4) y).
  apply by2_ok_aux; auto. apply N.mod_lt. discriminate.
Qed.
Definition low3 (b : N) (z : N) : N := (b * 4 + z / 64)%N.
Lemma by3_ok_aux b z : (b < 16 -> z < 256 -> by3 (low3 b z) (sx4 z) = z)%N.
Proof.
  intros Hb Hz. apply N.eqb_eq.
  apply (pair_range (fun b z => (by3 (low3 b z) (sx4 z) =? z)%N) 4 8); [vm_compute; reflexivity|exact Hb|exact Hz].
Qed.
Lemma by3_ok y z : (y < 256 -> z < 256 -> by3 (sx3 y z) (sx4 z) = z)%N.
Proof.
  intros Hy Hz. change (sx3 y z) with (low3 (y mod 16) z). apply by3_ok_aux; auto.
  apply N.mod_lt. discriminate.
Qed.

Lemma string_ind3 (Pr : string -> Prop) :
  Pr "" -> (forall a, Pr (String a "")) -> (forall a b, Pr (String a (String b ""))) ->
  (forall a b c r, Pr r -> Pr (String a (String b (String c r)))) ->
  forall s, Pr s.
Proof.
  intros H0 H1 H2 H3.
  fix IH 1. intros [|a [|b [|c r]]]; [exact H0|apply H1|apply H2|apply H3, IH].
Qed.

Lemma b64_roundtrip s : b64dec (b64enc s) = Some s.
Proof.
  induction s as [|a|a b|a b c r IH] using string_ind3.
  - reflexivity.
  - pose proof (N_ascii_bounded a) as Ha.
    destruct (sx_bounds (N_of_ascii a) 0 0 Ha) as (B1 & B2 & _); try lia.
    cbn [b64enc b64dec]. rewrite (b64val_char _ B1), (b64val_char _ B2).
    change (is_pad pad) with true. cbn [andb is_empty_s].
    rewrite by1_ok by (auto; lia). now rewrite ascii_N_embedding.
  - pose proof (N_ascii_bounded a) as Ha. pose proof (N_ascii_bounded b) as Hb.
    destruct (sx_bounds (N_of_ascii a) (N_of_ascii b) 0 Ha Hb) as (B1 & B2 & B3 & _); try lia.
    cbn [b64enc b64dec]. rewrite (b64val_char _ B1), (b64val_char _ B2), (b64char_not_pad _ B3), (b64val_char _ B3).
    change (is_pad pad) with true. cbn [is_empty_s].
    rewrite by1_ok, by2_ok by (auto; lia). now rewrite !ascii_N_embedding.
  - pose proof (N_ascii_bounded a) as Ha. pose proof (N_ascii_bounded b) as Hb. pose proof (N_ascii_bounded c) as Hc.
    destruct (sx_bounds (N_of_ascii a) (N_of_ascii b) (N_of_ascii c) Ha Hb Hc) as (B1 & B2 & B3 & B4).
    cbn [b64enc b64dec]. rewrite (b64val_char _ B1), (b64val_char _ B2), (b64char_not_pad _ B3), (b64val_char _ B3),
      (b64char_not_pad _ B4), (b64val_char _ B4), IH.
    rewrite by1_ok, by2_ok, by3_ok by auto. now rewrite !ascii_N_embedding.
Qed.

(* ---------- decimal ---------- *)
Lemma to_uint_nonnil n : N.to_uint n <> Nil.
Proof. destruct n; simpl; [discriminate|apply Unsigned.to_uint_nonnil]. Qed.

Lemma string_of_uint_nonempty d : d <> Nil -> NilEmpty.string_of_uint d <> "".
Proof. destruct d; simpl; congruence. Qed.

Lemma parse_dec_N n : parse_N (dec_of_N n) = Some n.
Proof.
  unfold parse_N, dec_of_N.
  pose proof (string_of_uint_nonempty _ (to_uint_nonnil n)) as Hne.
  destruct (NilEmpty.string_of_uint (N.to_uint n)) as [|c r] eqn:E; [congruence|].
  rewrite <- E, NilEmpty.usu, DecimalN.Unsigned.of_to. reflexivity.
Qed.

Definition is_digit (c : ascii) : bool := let n := N_of_ascii c in ((48 <=? n) && (n <=? 57))%N.
Fixpoint all_chars (f : ascii -> bool) (s : string) : bool :=
  match s with "" => true | String c r => f c && all_chars f r end.
Lemma string_of_uint_digits d : all_chars is_digit (NilEmpty.string_of_uint d) = true.
Proof. induction d; simpl; auto. Qed.
Lemma dec_of_N_digits n : all_chars is_digit (dec_of_N n) = true.
Proof. apply string_of_uint_digits. Qed.

Lemma dec_of_N_head n : exists c r, dec_of_N n = String c r /\ is_digit c = true /\ all_chars is_digit r = true.
Proof.
  pose proof (dec_of_N_digits n) as H.
  pose proof (string_of_uint_nonempty _ (to_uint_nonnil n)) as Hne. fold (dec_of_N n) in Hne.
  destruct (dec_of_N n) as [|c r]; [congruence|]. simpl in H. apply andb_prop in H as [H1 H2]. eauto.
Qed.

Lemma digit_not_sign c : is_digit c = true -> Ascii.eqb c "+" = false /\ Ascii.eqb c "-" = false /\ Ascii.eqb c "." = false /\ Ascii.eqb c "/" = false.
Proof.
  intro H.
  pose (f := fun c => implb (is_digit c) (negb (Ascii.eqb c "+") && negb (Ascii.eqb c "-") && negb (Ascii.eqb c ".") && negb (Ascii.eqb c "/"))).
  assert (X: forallb (fun n => f (ascii_of_N n)) (nrange 8) = true) by (vm_compute; reflexivity).
  pose proof (forall_ascii f X c) as E. unfold f in E. rewrite H in E. simpl in E.
  repeat (apply andb_prop in E as [E ?]). repeat split; now apply negb_true_iff.
Qed.

Lemma parse_int_dec bits z :
  (- 2 ^ (Z.of_N bits - 1) <= z < 2 ^ (Z.of_N bits - 1))%Z -> parse_int bits (dec_of_Z z) = Some z.
Proof.
  intro Hr. unfold parse_int.
  assert (R: forall y, y = z -> ((- 2 ^ (Z.of_N bits - 1) <=? y) && (y <? 2 ^ (Z.of_N bits - 1)))%Z = true).
  { intros y ->. apply andb_true_intro; split; [apply Z.leb_le|apply Z.ltb_lt]; lia. }
  destruct z as [|p|p].
  - simpl dec_of_Z. change (dec_of_N (Z.to_N 0)) with "0". cbn -[Z.pow Z.leb Z.ltb]. now rewrite R.
  - unfold dec_of_Z. destruct (dec_of_N_head (Z.to_N (Z.pos p))) as (c & r & E & Hc & _).
    rewrite E. destruct (digit_not_sign c Hc) as (-> & -> & _). rewrite <- E, parse_dec_N.
    rewrite R; [reflexivity|]. simpl. lia.
  - unfold dec_of_Z. change (Ascii.eqb "-" "+") with false. change (Ascii.eqb "-" "-") with true. cbv iota.
    rewrite parse_dec_N. rewrite R; [reflexivity|]. lia.
Qed.

(* ---------- splitting ---------- *)
Lemma split_no_sep c s : all_chars (fun a => negb (Ascii.eqb a c)) s = true -> split_on c s = [s].
Proof.
  induction s as [|a r IH]; [reflexivity|]. simpl. intro H. apply andb_prop in H as [H1 H2].
  apply negb_true_iff in H1. rewrite H1, (IH H2). reflexivity.
Qed.
Lemma split_app c x rest :
  all_chars (fun a => negb (Ascii.eqb a c)) x = true ->
  split_on c (x ++ String c rest) = x :: split_on c rest.
Proof.
  induction x as [|a r IH]; simpl.
  - intros _. now rewrite Ascii.eqb_refl.
  - intro H. apply andb_prop in H as [H1 H2]. apply negb_true_iff in H1. rewrite H1, (IH H2). reflexivity.
Qed.
Lemma split_join c (l : list string) :
  l <> [] -> Forall (fun x => all_chars (fun a => negb (Ascii.eqb a c)) x = true) l ->
  split_on c (join_with (String c "") l) = l.
Proof.
  induction l as [|x [|y r] IH]; intros Hne HF; [congruence| |].
  - simpl. inversion HF; subst. now apply split_no_sep.
  - inversion HF as [|? ? Hx HF']; subst.
    change (join_with (String c "") (x :: y :: r)) with (x ++ String c "" ++ join_with (String c "") (y :: r)).
    change (String c "" ++ join_with (String c "") (y :: r)) with (String c (join_with (String c "") (y :: r))).
    rewrite split_app by exact Hx. f_equal. apply IH; [discriminate|exact HF'].
Qed.

Lemma all_chars_impl (f g : ascii -> bool) s :
  (forall c, f c = true -> g c = true) -> all_chars f s = true -> all_chars g s = true.
Proof.
  intros Himp. induction s as [|c r IH]; simpl; auto. intro H. apply andb_prop in H as [H1 H2].
  rewrite (Himp _ H1), (IH H2). reflexivity.
Qed.
Lemma digits_no_dot s : all_chars is_digit s = true -> all_chars (fun a => negb (Ascii.eqb a ".")) s = true.
Proof. apply all_chars_impl. intros c H. destruct (digit_not_sign c H) as (_ & _ & -> & _). reflexivity. Qed.
Lemma dec_of_Z_no_dot z : all_chars (fun a => negb (Ascii.eqb a ".")) (dec_of_Z z) = true.
Proof.
  destruct z; unfold dec_of_Z; try (apply digits_no_dot, dec_of_N_digits).
  simpl. apply digits_no_dot, dec_of_N_digits.
Qed.

Lemma mapM_map {A B} (f : A -> option B) (g : B -> A) (l : list B) :
  Forall (fun y => f (g y) = Some y) l -> mapM f (map g l) = Some l.
Proof. induction 1 as [|y r Hy _ IH]; simpl; [reflexivity|]. now rewrite Hy, IH. Qed.

Definition arcs_in (bits : N) (o : list Z) : Prop :=
  Forall (fun z => (- 2 ^ (Z.of_N bits - 1) <= z < 2 ^ (Z.of_N bits - 1))%Z) o.

Lemma oid_roundtrip bits o : o <> [] -> arcs_in bits o -> parse_oid bits (oid_str o) = Some o.
Proof.
  intros Hne Hr. unfold parse_oid, oid_str.
  change "." with (String "."%char "") at 1.
  rewrite split_join.
  - apply mapM_map. eapply Forall_impl; [|exact Hr]. intros z Hz. now apply parse_int_dec.
  - destruct o; [congruence|discriminate].
  - apply Forall_forall. intros x Hx. apply in_map_iff in Hx as (z & <- & _). apply dec_of_Z_no_dot.
Qed.

(* ---------- IPv4 ---------- *)
Lemma parse_octet_dec n : (n < 256)%N -> parse_octet (dec_of_N n) = Some n.
Proof.
  intro H0.
  assert (X: forallb (fun n => match parse_octet (dec_of_N n) with Some m => N.eqb m n | None => false end) (nrange 8) = true)
    by (vm_compute; reflexivity).
  pose proof (forall_range 8 _ X n H0) as H. cbv beta in H.
  destruct (parse_octet (dec_of_N n)) as [m|]; [|discriminate]. apply N.eqb_eq in H. now subst.
Qed.

Lemma bs_sbytes s : bs (sbytes s) = s.
Proof. induction s as [|c r IH]; simpl; [reflexivity|]. now rewrite ascii_N_embedding, IH. Qed.

Lemma ip4_roundtrip ip : String.length ip = 4%nat -> parse_ip4 (ip4_str ip) = Some ip.
Proof.
  destruct ip as [|a [|b [|c [|d [|? ?]]]]]; try discriminate. intros _.
  unfold parse_ip4, ip4_str. change "." with (String "."%char "") at 1.
  rewrite split_join.
  - rewrite mapM_map with (l := sbytes (String a (String b (String c (String d ""))))).
    + cbn [sbytes]. rewrite <- (bs_sbytes (String a (String b (String c (String d ""))))). reflexivity.
    + cbn [sbytes]. repeat constructor; apply parse_octet_dec, N_ascii_bounded.
  - discriminate.
  - apply Forall_forall. intros x Hx. apply in_map_iff in Hx as (z & <- & _). apply digits_no_dot, dec_of_N_digits.
Qed.

(* ---------- object access ---------- *)
Lemma assoc_notin k o : ~ In k (map fst o) -> assoc k o = None.
Proof.
  induction o as [|[k' v] r IH]; simpl; [reflexivity|]. intro H.
  destruct (String.eqb_spec k k') as [->|Hne]; [exfalso; apply H; now left|]. apply IH. tauto.
Qed.

Lemma enc_fields_keys {T U} (fs : fields T U) v : incl (map fst (enc_fields fs v)) (field_keys fs).
Proof.
  induction fs as [|A A' B B' k fk rest IH]; simpl; [apply incl_refl|].
  destruct (emit fk (fst v)); simpl.
  - intros x [<-|Hx]; [now left|right; eapply IH; eauto].
  - intros x Hx. right. eapply IH; eauto.
Qed.

Lemma dec_fields_skip {T U} (fs : fields T U) k j o :
  ~ In k (field_keys fs) -> dec_fields fs ((k, j) :: o) = dec_fields fs o.
Proof.
  induction fs as [|A A' B B' k' fk rest IH]; simpl; [reflexivity|]. intro H.
  cbn [assoc].
  destruct (String.eqb_spec k' k) as [->|Hne]; [exfalso; apply H; now left|].
  rewrite IH by tauto. reflexivity.
Qed.

(* ---------- generic round trip ---------- *)
(* a codec / member kind round-trips on [valid] values: decoding the encoding
   of [a] gives [norm a] *)
Definition codec_rt {A B} (c : codec A B) (valid : A -> Prop) (norm : A -> B) : Prop :=
  forall a, valid a -> enc c a <> JNull /\ dec c (enc c a) = Ok (norm a).
Definition fk_rt {A B} (fk : fkind A B) (valid : A -> Prop) (norm : A -> B) : Prop :=
  forall a, valid a -> absorb fk (emit fk a) = Ok (norm a).

Inductive fields_rt : forall {T U}, fields T U -> (T -> Prop) -> (T -> U) -> Prop :=
| rt_end : fields_rt FEnd (fun _ => True) (fun x => x)
| rt_cons : forall A A' B B' k (fk : fkind A A') (rest : fields B B') va na vb nb,
    fk_rt fk va na -> ~ In k (field_keys rest) -> fields_rt rest vb nb ->
    fields_rt (FCons k fk rest) (fun v => va (fst v) /\ vb (snd v)) (fun v => (na (fst v), nb (snd v))).

Theorem fields_roundtrip {T U} (fs : fields T U) valid norm :
  fields_rt fs valid norm -> forall v, valid v -> dec_fields fs (enc_fields fs v) = Ok (norm v).
Proof.
  induction 1 as [|A A' B B' k fk rest va na vb nb Hfk Hk Hrest IH]; intros v Hv.
  - destruct v. reflexivity.
  - destruct v as [a b]. destruct Hv as [Ha Hb]. cbn [fst snd] in *.
    cbn [enc_fields dec_fields fst snd].
    pose proof (Hfk a Ha) as E. specialize (IH b Hb).
    destruct (emit fk a) as [j|] eqn:Em.
    + cbn [assoc]. rewrite String.eqb_refl. rewrite E. cbn [rbind].
      rewrite dec_fields_skip by exact Hk. rewrite IH. reflexivity.
    + rewrite assoc_notin.
      * rewrite E. cbn [rbind]. rewrite IH. reflexivity.
      * intro Hin. apply Hk. eapply enc_fields_keys; eauto.
Qed.

Lemma obj_rt {T U} (fs : fields T U) valid norm :
  fields_rt fs valid norm -> codec_rt (obj fs) valid norm.
Proof.
  intros H a Ha. split; [discriminate|]. simpl. exact (fields_roundtrip fs valid norm H a Ha).
Qed.

(* ---- member kinds ---- *)
Lemma k_str_rt omit : fk_rt (k_str omit) (fun _ => True) (fun s => s).
Proof. intros s _. simpl. destruct omit, s; reflexivity. Qed.

Lemma k_int_rt omit lo hi : fk_rt (k_int omit lo hi) (fun z => (lo <= z <= hi)%Z) (fun z => z).
Proof.
  intros z Hz. simpl. destruct (omit && (z =? 0)%Z) eqn:E.
  - apply andb_prop in E as [_ E]. apply Z.eqb_eq in E. now subst.
  - simpl. unfold int_in. replace ((lo <=? z)%Z && (z <=? hi)%Z) with true; [reflexivity|].
    symmetry. apply andb_true_intro; split; apply Z.leb_le; lia.
Qed.

Lemma k_bool_rt omit : fk_rt (k_bool omit) (fun _ => True) (fun b => b).
Proof. intros b _. simpl. destruct omit, b; reflexivity. Qed.

Lemma k_bytes_omit_rt : fk_rt k_bytes_omit (fun _ => True) (fun s => s).
Proof.
  intros s _. simpl. destruct (is_empty_s s) eqn:E.
  - destruct s; [reflexivity|discriminate].
  - simpl. now rewrite b64_roundtrip.
Qed.

Lemma k_bytes_null_rt : fk_rt k_bytes_null (fun _ => True) (fun s => s).
Proof. intros [s|] _; simpl; [now rewrite b64_roundtrip|reflexivity]. Qed.

Definition opt_valid {A} (va : A -> Prop) (o : option A) : Prop :=
  match o with Some a => va a | None => True end.

Lemma k_ptr_rt {A B} omit (c : codec A B) va na :
  codec_rt c va na -> fk_rt (k_ptr omit c) (opt_valid va) (option_map na).
Proof.
  intros Hc [a|] Ha; simpl.
  - destruct (Hc a Ha) as [Hnn Hd]. destruct (enc c a) eqn:E; try congruence; simpl; rewrite Hd; reflexivity.
  - destruct omit; reflexivity.
Qed.

Lemma k_val_rt {A B} (c : codec A B) zero empty va na :
  codec_rt c va na -> (forall a, va a -> empty a = true -> na a = zero) ->
  fk_rt (k_val c zero empty) va na.
Proof.
  intros Hc Hz a Ha. simpl. destruct (empty a) eqn:E.
  - simpl. now rewrite (Hz a Ha E).
  - destruct (Hc a Ha) as [_ Hd]. exact Hd.
Qed.

Lemma dec_list_map {A B} (c : codec A B) va na l :
  codec_rt c va na -> Forall va l -> dec_list c (map (enc c) l) = Ok (map na l).
Proof.
  intros Hc. induction 1 as [|a r Ha _ IH]; simpl; [reflexivity|].
  destruct (Hc a Ha) as [_ Hd]. rewrite Hd. simpl. rewrite IH. reflexivity.
Qed.

Lemma k_list_rt {A B} (c : codec A B) va na :
  codec_rt c va na -> fk_rt (k_list c) (Forall va) (map na).
Proof.
  intros Hc l Hl. simpl. destruct l as [|a r]; [reflexivity|].
  cbn [nonnull]. exact (dec_list_map c va na (a :: r) Hc Hl).
Qed.

Lemma c_str_rt : codec_rt c_str (fun _ => True) (fun s => s).
Proof. intros s _. split; [discriminate|reflexivity]. Qed.

(* no member kind can panic: a Panic can only come from the hand-written glue *)
Definition codec_total {A B} (c : codec A B) : Prop := forall j, dec c j <> Panic.
Definition fk_total {A B} (fk : fkind A B) : Prop := forall o, absorb fk o <> Panic.

Inductive fields_total : forall {T U}, fields T U -> Prop :=
| tot_end : fields_total FEnd
| tot_cons : forall A A' B B' k (fk : fkind A A') (rest : fields B B'),
    fk_total fk -> fields_total rest -> fields_total (FCons k fk rest).

Lemma dec_fields_total {T U} (fs : fields T U) : fields_total fs -> forall o, dec_fields fs o <> Panic.
Proof.
  induction 1 as [|A A' B B' k fk rest Hfk _ IH]; intro o; simpl; [discriminate|].
  specialize (Hfk (assoc k o)). specialize (IH o).
  destruct (absorb fk (assoc k o)); simpl; try congruence.
  destruct (dec_fields rest o); simpl; congruence.
Qed.
Lemma obj_total {T U} (fs : fields T U) : fields_total fs -> codec_total (obj fs).
Proof. intros H j. destruct j; simpl; try discriminate; now apply dec_fields_total. Qed.

Lemma of_opt_total {A} (o : option A) : of_opt o <> Panic.
Proof. destruct o; discriminate. Qed.
Lemma rmap_total {A B} (f : A -> B) r : r <> Panic -> rmap f r <> Panic.
Proof. destruct r; simpl; congruence. Qed.
Lemma rbind_total {A B} (r : res A) (f : A -> res B) : r <> Panic -> (forall a, f a <> Panic) -> rbind r f <> Panic.
Proof. destruct r; simpl; auto; congruence. Qed.

Lemma k_str_total omit : fk_total (k_str omit).
Proof. intros [[]|]; simpl; discriminate. Qed.
Lemma k_int_total omit lo hi : fk_total (k_int omit lo hi).
Proof. intros [[]|]; simpl; try discriminate. destruct (int_in lo hi z); discriminate. Qed.
Lemma k_bool_total omit : fk_total (k_bool omit).
Proof. intros [[]|]; simpl; discriminate. Qed.
Lemma bytes_of_jarr_total l : bytes_of_jarr l <> Panic.
Proof.
  induction l as [|j r IH]; simpl; [discriminate|].
  destruct j; simpl; try discriminate.
  - destruct (bytes_of_jarr r); simpl; congruence.
  - destruct (int_in 0 255 z); simpl; try discriminate. destruct (bytes_of_jarr r); simpl; congruence.
Qed.
Lemma k_bytes_omit_total : fk_total k_bytes_omit.
Proof. intros [[]|]; simpl; try discriminate; [apply of_opt_total|apply bytes_of_jarr_total]. Qed.
Lemma k_bytes_null_total : fk_total k_bytes_null.
Proof. intros [[]|]; simpl; try discriminate; apply rmap_total; [apply of_opt_total|apply bytes_of_jarr_total]. Qed.
Lemma k_ptr_total {A B} omit (c : codec A B) : codec_total c -> fk_total (k_ptr omit c).
Proof. intros Hc [[]|]; simpl; try discriminate; apply rmap_total, Hc. Qed.
Lemma k_val_total {A B} (c : codec A B) zero empty : codec_total c -> fk_total (k_val c zero empty).
Proof. intros Hc [j|]; simpl; [apply Hc|discriminate]. Qed.
Lemma dec_list_total {A B} (c : codec A B) : codec_total c -> forall l, dec_list c l <> Panic.
Proof.
  intros Hc. induction l as [|j r IH]; simpl; [discriminate|].
  specialize (Hc j). destruct (dec c j); simpl; try congruence. destruct (dec_list c r); simpl; congruence.
Qed.
Lemma k_list_total {A B} (c : codec A B) : codec_total c -> fk_total (k_list c).
Proof. intros Hc [[]|]; simpl; try discriminate. now apply dec_list_total. Qed.
Lemma c_str_total : codec_total c_str.
Proof. intros []; simpl; discriminate. Qed.

(* ---------- using the generic theorem on a concrete field list ---------- *)
Lemma notin_dec k (l : list string) : existsb (String.eqb k) l = false -> ~ In k l.
Proof.
  intros H Hin. assert (existsb (String.eqb k) l = true); [|congruence].
  apply existsb_exists. exists k. split; [exact Hin|apply String.eqb_refl].
Qed.

Lemma obj_rt_ex {T U} (fs : fields T U) v w :
  (exists valid norm, fields_rt fs valid norm /\ valid v /\ norm v = w) ->
  dec (obj fs) (enc (obj fs) v) = Ok w.
Proof.
  intros (valid & norm & H & Hv & <-). simpl. exact (fields_roundtrip fs valid norm H v Hv).
Qed.

Lemma codec_rt_dec {A B} (c : codec A B) va na a : codec_rt c va na -> va a -> dec c (enc c a) = Ok (na a).
Proof. intros H Ha. exact (proj2 (H a Ha)). Qed.

Create HintDb c33rt.
#[export] Hint Resolve k_str_rt k_int_rt k_bool_rt k_bytes_omit_rt k_bytes_null_rt c_str_rt : c33rt.
#[export] Hint Resolve k_str_total k_int_total k_bool_total k_bytes_omit_total k_bytes_null_total c_str_total : c33rt.

Ltac rt_keys := apply notin_dec; vm_compute; reflexivity.
Ltac rt_fk :=
  first [ apply k_str_rt | apply k_int_rt | apply k_bool_rt | apply k_bytes_omit_rt | apply k_bytes_null_rt
        | eapply k_ptr_rt; solve [eauto with c33rt]
        | eapply k_list_rt; solve [eauto with c33rt]
        | solve [eauto with c33rt] ].
Ltac rt_fields := repeat (eapply rt_cons; [ rt_fk | rt_keys | ]); apply rt_end.
Ltac tot_fk :=
  first [ apply k_str_total | apply k_int_total | apply k_bool_total | apply k_bytes_omit_total | apply k_bytes_null_total
        | apply k_ptr_total; solve [eauto with c33rt]
        | apply k_list_total; solve [eauto with c33rt]
        | apply k_val_total; solve [eauto with c33rt]
        | solve [eauto with c33rt] ].
Ltac tot_fields := repeat (apply tot_cons; [ tot_fk | ]); apply tot_end.
