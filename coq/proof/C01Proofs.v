(* C01Proofs.v — the modelled decoders never panic, never run out of fuel
   (termination), and ask for no more memory than the input is long. *)
From Coq Require Import List NArith ZArith Bool Arith Lia.
From VerifModel Require Import C01Prim C01.
Import ListNotations.

(* a result that is neither a panic nor an exhausted fuel budget *)
Definition fine {A} (r : res A) : Prop := r <> Panic /\ r <> OutOfFuel.

Lemma fine_ok {A} (a : A) : fine (Ok a). Proof. split; discriminate. Qed.
Lemma fine_err {A} : fine (@Err A). Proof. split; discriminate. Qed.
#[export] Hint Resolve fine_ok fine_err : core.

Lemma idx_lt {A} (l : list A) i : i < length l -> exists x, idx l i = Ok x.
Proof.
  intro H. unfold idx. destruct (nth_error l i) eqn:E; [eauto|].
  apply nth_error_None in E. lia.
Qed.
Lemma slice_ok {A} (l : list A) i j : i <= j -> j <= length l -> slice l i j = Ok (firstn (j - i) (skipn i l)).
Proof.
  intros H1 H2. unfold slice.
  replace (Nat.leb i j && Nat.leb j (length l)) with true; [reflexivity|].
  symmetry. apply andb_true_intro. split; apply Nat.leb_le; assumption.
Qed.
Lemma slice_length {A} (l : list A) i j : i <= j -> j <= length l -> length (firstn (j - i) (skipn i l)) = j - i.
Proof. intros. rewrite firstn_length, skipn_length. lia. Qed.

(* ================= encoding/asn1 ================= *)
Lemma base128_spec bs fuel : forall off shifted acc,
  shifted <= 5 -> 6 <= shifted + fuel ->
  fine (base128 bs off shifted acc fuel) /\
  forall v off', base128 bs off shifted acc fuel = Ok (v, off') ->
    off < off' <= length bs /\ (v <= max_int32)%N.
Proof.
  induction fuel as [|f IH]; intros off shifted acc Hs Hf; [lia|].
  cbn [base128].
  destruct (Nat.ltb_spec off (length bs)) as [Hlt|Hge]; [|split; [auto|discriminate]].
  destruct (Nat.eqb_spec shifted 5) as [->|Hne]; [split; [auto|discriminate]|].
  destruct (idx_lt bs off Hlt) as [b ->]. cbn [bind].
  destruct (Nat.eqb shifted 0 && N.eqb b 128); [split; [auto|discriminate]|].
  destruct (N.ltb_spec b 128).
  - destruct (N.ltb_spec max_int32 (acc * 128 + b mod 128)); [split; [auto|discriminate]|].
    split; [auto|]. intros v off' E. inversion E; subst. split; [lia|assumption].
  - destruct (IH (S off) (S shifted) (acc * 128 + b mod 128)%N) as [Hfine Hok]; [lia|lia|].
    split; [exact Hfine|]. intros v off' E. destruct (Hok v off' E). split; [lia|assumption].
Qed.

Theorem parse_base128_total bs off : fine (parse_base128 bs off).
Proof. apply (base128_spec bs 7 off 0 0); lia. Qed.
Lemma parse_base128_bounds bs off v off' :
  parse_base128 bs off = Ok (v, off') -> off < off' <= length bs /\ (v <= max_int32)%N.
Proof. apply (base128_spec bs 7 off 0 0); lia. Qed.

Lemma len_octets_spec bs num : forall off acc,
  off <= length bs ->
  fine (len_octets bs off num acc) /\
  forall l off', len_octets bs off num acc = Ok (l, off') -> off <= off' <= length bs.
Proof.
  induction num as [|n IH]; intros off acc Ho.
  - cbn. split; [auto|]. intros l off' E. inversion E; subst. lia.
  - cbn [len_octets]. destruct (Nat.ltb_spec off (length bs)) as [Hlt|Hge]; [|split; [auto|discriminate]].
    destruct (idx_lt bs off Hlt) as [b Eb]. rewrite Eb. cbn [bind].
    destruct (N.leb_spec 8388608 acc); [split; [auto|discriminate]|].
    destruct (N.eqb_spec (acc * 256 + b) 0); [split; [auto|discriminate]|].
    destruct (IH (S off) (acc * 256 + b)%N) as [Hfine Hok]; [lia|].
    split; [exact Hfine|]. intros l off' E. specialize (Hok l off' E). lia.
Qed.

(* bytes really are bytes *)
Definition wf (bs : bytes) : Prop := Forall (fun b => (b < 256)%N) bs.
Lemma idx_wf bs i b : wf bs -> idx bs i = Ok b -> (b < 256)%N.
Proof.
  unfold idx. intros H E. destruct (nth_error bs i) eqn:En; inversion E; subst.
  apply nth_error_In in En. unfold wf in H. rewrite Forall_forall in H. auto.
Qed.
Lemma len_octets_bound bs num : forall off acc l off',
  wf bs -> (acc < 2 ^ 31)%N -> len_octets bs off num acc = Ok (l, off') -> (l < 2 ^ 31)%N.
Proof.
  induction num as [|n IH]; intros off acc l off' Hw Ha E.
  - cbn in E. inversion E; subst. exact Ha.
  - cbn [len_octets] in E. destruct (Nat.ltb off (length bs)); [|discriminate].
    destruct (idx bs off) as [b| | |] eqn:Eb; try discriminate. cbn [bind] in E.
    destruct (N.leb_spec 8388608 acc); [discriminate|].
    destruct (N.eqb (acc * 256 + b) 0); [discriminate|].
    apply (IH _ _ _ _ Hw) in E; [exact E|]. pose proof (idx_wf _ _ _ Hw Eb).
    change (2 ^ 31)%N with 2147483648%N. lia.
Qed.

Theorem parse_tl_spec perm bs off :
  fine (parse_tl perm bs off) /\
  forall t off', parse_tl perm bs off = Ok (t, off') -> off + 2 <= off' <= length bs.
Proof.
  unfold parse_tl.
  destruct (Nat.ltb_spec off (length bs)) as [Hlt|Hge]; [|split; [auto|discriminate]].
  destruct (idx_lt bs off Hlt) as [b ->]. cbn [bind].
  set (r := if (b mod 32 =? 31)%N then _ else _).
  assert (Hr: fine r /\ forall tg off2, r = Ok (tg, off2) -> off < off2 <= length bs).
  { subst r. destruct (b mod 32 =? 31)%N.
    - pose proof (parse_base128_total bs (S off)) as Hf.
      destruct (parse_base128 bs (S off)) as [[v o]| | |] eqn:E; cbn [bind].
      + destruct (parse_base128_bounds _ _ _ _ E) as [Hb _]. cbn [fst].
        destruct (v <? 31)%N; split; auto; try discriminate.
        intros tg off2 E2. inversion E2; subst. lia.
      + split; [auto|discriminate].
      + destruct Hf; congruence.
      + destruct Hf; congruence.
    - split; [auto|]. intros tg off2 E. inversion E; subst. lia. }
  destruct Hr as [Hfr Hokr]. destruct r as [[tg off2]| | |]; cbn [bind].
  - specialize (Hokr tg off2 eq_refl).
    destruct (Nat.ltb_spec off2 (length bs)) as [Hlt2|]; [|split; [auto|discriminate]].
    destruct (idx_lt bs off2 Hlt2) as [b2 ->]. cbn [bind].
    destruct (b2 <? 128)%N.
    + split; [auto|]. intros t off' E. inversion E; subst. lia.
    + destruct (b2 mod 128 =? 0)%N; [split; [auto|discriminate]|].
      destruct (len_octets_spec bs (N.to_nat (b2 mod 128)) (S off2) 0) as [Hfl Hokl]; [lia|].
      destruct (len_octets bs (S off2) (N.to_nat (b2 mod 128)) 0) as [[l off4]| | |]; cbn [bind].
      * specialize (Hokl l off4 eq_refl).
        destruct (negb perm && (l <? 128)%N); split; auto; try discriminate.
        intros t off' E. inversion E; subst. lia.
      * split; [auto|discriminate].
      * destruct Hfl; congruence.
      * destruct Hfl; congruence.
  - split; [auto|discriminate].
  - destruct Hfr; congruence.
  - destruct Hfr; congruence.
Qed.

Theorem parse_tl_total perm bs off : fine (parse_tl perm bs off).
Proof. apply parse_tl_spec. Qed.

(* the decoded length never makes offset+length overflow a Go int *)
Theorem parse_tl_length_bound perm bs off t off' :
  wf bs -> parse_tl perm bs off = Ok (t, off') -> (t_len t < 2 ^ 31)%N.
Proof.
  intros Hw. unfold parse_tl.
  destruct (Nat.ltb off (length bs)); [|discriminate].
  destruct (idx bs off) as [b| | |]; try discriminate. cbn [bind].
  match goal with |- context [bind ?r _] => destruct r as [[tg off2]| | |] end; cbn [bind]; try discriminate.
  destruct (Nat.ltb off2 (length bs)); [|discriminate].
  destruct (idx bs off2) as [b2| | |] eqn:Eb2; try discriminate. cbn [bind].
  destruct (N.ltb_spec b2 128).
  - intro E. inversion E; subst. cbn. change (2 ^ 31)%N with 2147483648%N. lia.
  - destruct (b2 mod 128 =? 0)%N; [discriminate|].
    destruct (len_octets bs (S off2) (N.to_nat (b2 mod 128)) 0) as [[l off4]| | |] eqn:El; cbn [bind]; try discriminate.
    destruct (negb perm && (l <? 128)%N); [discriminate|].
    intro E. inversion E; subst. cbn. eapply len_octets_bound; [exact Hw| |exact El]. reflexivity.
Qed.

(* SEQUENCE OF: the counting loop terminates and counts at most len/2 elements,
   so reflect.MakeSlice is asked for no more than the input is long *)
Lemma count_elems_spec perm bs fuel : forall off n,
  off <= length bs -> length bs - off < fuel ->
  fine (count_elems perm bs off n fuel) /\
  forall m, count_elems perm bs off n fuel = Ok m -> n <= m /\ 2 * (m - n) <= length bs - off.
Proof.
  induction fuel as [|f IH]; intros off n Ho Hf; [lia|].
  cbn [count_elems].
  destruct (Nat.ltb_spec off (length bs)) as [Hlt|Hge].
  - destruct (parse_tl_spec perm bs off) as [Hfine Hok].
    destruct (parse_tl perm bs off) as [[t off']| | |]; cbn [bind].
    + specialize (Hok t off' eq_refl).
      unfold invalid_length. destruct (N.ltb_spec (N.of_nat (length bs)) (N.of_nat off' + t_len t)); [split; [auto|discriminate]|].
      destruct (IH (off' + N.to_nat (t_len t)) (S n)) as [Hf2 Hok2]; [lia|lia|].
      split; [exact Hf2|]. intros m E. specialize (Hok2 m E). lia.
    + split; [auto|discriminate].
    + destruct Hfine; congruence.
    + destruct Hfine; congruence.
  - split; [auto|]. intros m E. inversion E; subst. lia.
Qed.

Theorem seq_of_count_total perm bs : fine (seq_of_count perm bs).
Proof. apply (count_elems_spec perm bs (S (length bs)) 0 0); lia. Qed.
Theorem seq_of_count_alloc_bound perm bs n : seq_of_count perm bs = Ok n -> 2 * n <= length bs.
Proof.
  intro E. destruct (count_elems_spec perm bs (S (length bs)) 0 0) as [_ H]; [lia|lia|].
  specialize (H n E). lia.
Qed.

(* ================= SCT list ================= *)
Lemma sct_loop_spec fuel : forall scts n,
  length scts < fuel ->
  fine (sct_loop scts n fuel) /\ forall m, sct_loop scts n fuel = Ok m -> n <= m /\ 2 * (m - n) <= length scts.
Proof.
  induction fuel as [|f IH]; intros scts n Hf; [lia|].
  cbn [sct_loop]. destruct scts as [|b0 [|b1 r]].
  - split; [auto|]. intros m E. inversion E; subst. cbn. lia.
  - split; [auto|discriminate].
  - set (L := (N.to_nat (b1 + b0 * 256) + 2)%nat).
    destruct (Nat.leb_spec L (length (b0 :: b1 :: r))) as [Hle|]; [|split; [auto|discriminate]].
    rewrite slice_ok by (unfold L; lia). cbn [bind].
    destruct (deserialize_sct _); [|split; [auto|discriminate]].
    rewrite slice_ok by lia. cbn [bind].
    match goal with |- context [sct_loop ?x _ _] => set (rest := x) end.
    assert (Hrest: length rest = length (b0 :: b1 :: r) - L).
    { subst rest. rewrite firstn_length, skipn_length. lia. }
    destruct (IH rest (S n)) as [Hf2 Hok2]; [unfold L in *; cbn [length] in *; lia|].
    split; [exact Hf2|]. intros m E. specialize (Hok2 m E). unfold L in *. cbn [length] in *. lia.
Qed.

Theorem parse_sct_list_total v : fine (parse_sct_list v).
Proof.
  unfold parse_sct_list. destruct (Nat.ltb_spec (length v) 2); [auto|].
  rewrite slice_ok by lia. cbn [bind].
  apply sct_loop_spec. rewrite firstn_length, skipn_length. lia.
Qed.
Theorem parse_sct_list_count_bound v n : parse_sct_list v = Ok n -> 2 * n <= length v.
Proof.
  unfold parse_sct_list. destruct (Nat.ltb_spec (length v) 2); [discriminate|].
  rewrite slice_ok by lia. cbn [bind]. intro E.
  destruct (sct_loop_spec (S (length v)) (firstn (length v - 2) (skipn 2 v)) 0) as [_ Hs].
  - rewrite firstn_length, skipn_length. lia.
  - specialize (Hs n E). rewrite firstn_length, skipn_length in Hs. lia.
Qed.

(* ================= CRLSet ================= *)
Lemma serial_loop_spec fuel : forall bs remaining count,
  length bs < fuel ->
  fine (serial_loop bs remaining count fuel) /\
  forall bs' c', serial_loop bs remaining count fuel = Ok (bs', c') -> length bs' <= length bs.
Proof.
  induction fuel as [|f IH]; intros bs remaining count Hf; [lia|].
  cbn [serial_loop]. destruct (remaining =? 0)%N.
  - split; [auto|]. intros bs' c' E. inversion E; subst. lia.
  - destruct bs as [|l r]; [split; [auto|discriminate]|].
    destruct (Nat.ltb_spec (length r) (N.to_nat l)); [split; [auto|discriminate]|].
    destruct (IH (skipn (N.to_nat l) r) (remaining - 1)%N (S count)) as [Hf2 Hok2].
    + rewrite skipn_length. cbn [length] in Hf. lia.
    + split; [exact Hf2|]. intros bs' c' E. specialize (Hok2 bs' c' E). rewrite skipn_length in Hok2. cbn [length]. lia.
Qed.
Lemma serial_loop_zero bs count fuel : serial_loop bs 0 count fuel = Ok (bs, count).
Proof. destruct fuel; reflexivity. Qed.

Lemma issuer_loop_total fuel : forall bs count, length bs < fuel -> fine (issuer_loop bs count fuel).
Proof.
  induction fuel as [|f IH]; intros bs count Hf; [lia|].
  cbn [issuer_loop]. destruct bs as [|b bs']; [auto|].
  unfold drop_ok. destruct (Nat.leb_spec 32 (length (b :: bs'))) as [Hle|]; [|auto].
  destruct (skipn 32 (b :: bs')) as [|b0 [|b1 [|b2 [|b3 r]]]] eqn:Es; auto.
  assert (Hr: length r + 36 = length (b :: bs')).
  { pose proof (skipn_length 32 (b :: bs')) as H. rewrite Es in H. cbn [length] in H. cbn [length]. lia. }
  destruct (serial_loop_spec (S (length r)) r (le32 b0 b1 b2 b3) count) as [Hfs Hoks]; [lia|].
  destruct (serial_loop r (le32 b0 b1 b2 b3) count (S (length r))) as [[bs2 c2]| | |]; cbn [bind fst snd].
  - specialize (Hoks bs2 c2 eq_refl). apply IH. lia.
  - auto.
  - destruct Hfs; congruence.
  - destruct Hfs; congruence.
Qed.

Theorem crlset_parse_total b json_ok : fine (crlset_parse b json_ok).
Proof.
  unfold crlset_parse. destruct (Nat.ltb_spec (length b) 2); [auto|].
  destruct (idx_lt b 0) as [lo ->]; [lia|]. destruct (idx_lt b 1) as [hi ->]; [lia|]. cbn [bind].
  rewrite slice_ok by lia. cbn [bind].
  set (c := firstn (length b - 2) (skipn 2 b)).
  destruct (Nat.ltb_spec (length c) (N.to_nat (lo + 256 * hi))); [auto|].
  rewrite slice_ok by lia. cbn [bind]. rewrite slice_ok by lia. cbn [bind].
  destruct json_ok; [|auto]. apply issuer_loop_total. lia.
Qed.

(* ================= SST ================= *)
Lemma read_u32_length bs v r : read_u32 bs = (v, r) -> v <> 0%N -> length r + 4 = length bs.
Proof.
  destruct bs as [|b0 [|b1 [|b2 [|b3 t]]]]; cbn; intros E Hv; inversion E; subst; try congruence.
  cbn. lia.
Qed.
Lemma read_u32_le bs v r : read_u32 bs = (v, r) -> length r <= length bs.
Proof.
  destruct bs as [|b0 [|b1 [|b2 [|b3 t]]]]; cbn; intros E; inversion E; subst; cbn; lia.
Qed.

Lemma sst_loop_spec total fuel : forall bs certs,
  length bs < fuel -> length bs <= total -> Forall (fun c => length c <= total) certs ->
  fine (sst_loop bs certs fuel) /\
  forall out, sst_loop bs certs fuel = Ok out -> Forall (fun c => length c <= total) out.
Proof.
  induction fuel as [|f IH]; intros bs certs Hf Ht Hc; [lia|].
  cbn [sst_loop].
  destruct (read_u32 bs) as [id r1] eqn:E1. destruct (N.eqb_spec id 0) as [|Hid].
  - split; [auto|]. intros out E. inversion E; subst. exact Hc.
  - destruct (read_u32 r1) as [fmt r2] eqn:E2. destruct (read_u32 r2) as [len r3] eqn:E3.
    pose proof (read_u32_length _ _ _ E1 Hid). pose proof (read_u32_le _ _ _ E2). pose proof (read_u32_le _ _ _ E3).
    destruct (id =? 32)%N.
    + destruct (negb (fmt =? 1)%N); [split; [auto|discriminate]|].
      destruct (N.ltb_spec (N.of_nat (length r3)) len); [split; [auto|discriminate]|].
      apply IH.
      * rewrite skipn_length. lia.
      * rewrite skipn_length. lia.
      * apply Forall_app. split; [exact Hc|]. constructor; [|constructor]. rewrite firstn_length. lia.
    + apply IH; [rewrite skipn_length; lia|rewrite skipn_length; lia|exact Hc].
Qed.

Theorem sst_parse_total good b : fine (sst_parse good b).
Proof.
  unfold sst_parse. destruct (read_u32 b) as [version r1] eqn:E.
  destruct r1 as [|m0 [|m1 [|m2 [|m3 r2]]]]; auto.
  destruct ((m0 =? 67)%N && (m1 =? 69)%N && (m2 =? 82)%N && (m3 =? 84)%N && (version =? 0)%N); [|auto].
  destruct (sst_loop_spec (length b) (S (length r2)) r2 []) as [Hf _].
  - lia.
  - pose proof (read_u32_le _ _ _ E). cbn [length] in *. lia.
  - constructor.
  - destruct Hf as [Hp Ho].
    remember (sst_loop r2 [] (S (length r2))) as R. destruct R as [certs| | |]; cbn [bind].
    + destruct (forallb _ _); auto.
    + auto.
    + exfalso. now apply Hp.
    + exfalso. now apply Ho.
Qed.

(* every certificate buffer the SST parser allocates is no longer than the input *)
Theorem sst_alloc_bound (b r2 : bytes) out :
  length r2 <= length b -> sst_loop r2 [] (S (length r2)) = Ok out -> Forall (fun c => length c <= length b) out.
Proof.
  intros Hl E. destruct (sst_loop_spec (length b) (S (length r2)) r2 []) as [_ H]; [lia|exact Hl|constructor|].
  exact (H out E).
Qed.
