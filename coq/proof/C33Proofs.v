(* C33Proofs.v — round-trip theorems for the enumerated types and the key
   parameter types of the C33 model. *)
From Coq Require Import List NArith ZArith Bool String Ascii Lia.
From VerifModel Require Import C33Json C33.
From VerifGen Require Import C33Tables_gen.
From VerifProof Require Import C33JsonProofs.
Import ListNotations.
Local Open Scope string_scope.

Ltac rt_obj :=
  eexists; eexists; split; [rt_fields|]; split; [cbn [fst snd]; repeat split; auto; try lia|reflexivity].

(* ================= enumerated types ================= *)
(* finite enumeration helper: f v = Ok v for every v < 2^bits that satisfies dom *)
Definition rt_ok (dom : Z -> bool) (f : Z -> res Z) (n : N) : bool :=
  let v := Z.of_N n in
  if dom v then match f v with Ok d => Z.eqb d v | _ => false end else true.

Lemma enum_rt (dom : Z -> bool) (f : Z -> res Z) (bits : nat) :
  forallb (rt_ok dom f) (nrange bits) = true ->
  forall v, (0 <= v < 2 ^ Z.of_nat bits)%Z -> dom v = true -> f v = Ok v.
Proof.
  intros H v Hv Hd.
  assert (Hn: (Z.to_N v < 2 ^ N.of_nat bits)%N).
  { apply N2Z.inj_lt. rewrite Z2N.id by lia. rewrite N2Z.inj_pow. rewrite nat_N_Z. simpl. lia. }
  pose proof (forall_range bits _ H _ Hn) as E. unfold rt_ok in E.
  rewrite Z2N.id in E by lia. rewrite Hd in E.
  destruct (f v) as [d| |]; try discriminate. apply Z.eqb_eq in E. now subst.
Qed.

(* value-decoded types: the name is only compared with the name of the decoded
   value, so the round trip holds whatever the table contains *)
Lemma version_roundtrip v : (0 <= v < 2 ^ 16)%Z -> version_of_json (version_to_json v) = Ok v.
Proof.
  intro Hv. unfold version_of_json, version_to_json.
  rewrite (obj_rt_ex version_fields _ (version_name v, (v, tt))).
  - cbn [rbind]. rewrite Z.mod_small by lia. now rewrite String.eqb_refl.
  - unfold version_fields, k_i64. rt_obj; unfold int64_lo, int64_hi; lia.
Qed.

Lemma hnv_roundtrip hi hex nm v : (0 <= v <= hi)%Z -> hnv_of_json hi nm (hnv_to_json hi hex nm v) = Ok v.
Proof.
  intro Hv. unfold hnv_of_json, hnv_to_json.
  rewrite (obj_rt_ex (hnv_fields hi) _ (hex v, (nm v, (v, tt)))).
  - cbn [rbind fst snd]. now rewrite String.eqb_refl.
  - unfold hnv_fields. rt_obj.
Qed.

Lemma cipher_roundtrip v : (0 <= v < 2 ^ 16)%Z -> cipher_of_json (cipher_to_json v) = Ok v.
Proof. intro H. apply hnv_roundtrip. lia. Qed.
Lemma curve_roundtrip v : (0 <= v < 2 ^ 16)%Z -> curve_of_json (curve_to_json v) = Ok v.
Proof. intro H. apply hnv_roundtrip. lia. Qed.
Lemma compression_roundtrip v : (0 <= v < 2 ^ 8)%Z -> compression_of_json (compression_to_json v) = Ok v.
Proof. intro H. apply hnv_roundtrip. lia. Qed.
Lemma point_format_roundtrip v : (0 <= v < 2 ^ 8)%Z -> point_format_of_json (point_format_to_json v) = Ok v.
Proof. intro H. apply hnv_roundtrip. lia. Qed.

Lemma key_usage_roundtrip v : (0 <= v < 2 ^ 32)%Z -> key_usage_of_json (key_usage_to_json v) = Ok v.
Proof.
  intro Hv. unfold key_usage_of_json, key_usage_to_json.
  erewrite (obj_rt_ex ku_fields); cycle 1.
  { unfold ku_fields, k_u32. rt_obj; pose proof (Z.mod_pos_bound v (2^32)); lia. }
  cbn [rbind]. rewrite Z.mod_small by lia. reflexivity.
Qed.

Lemma ecid_roundtrip v : (0 <= v < 2 ^ 16)%Z -> dec c_ecid (enc c_ecid v) = Ok v.
Proof.
  intro Hv. cbn -[Z.leb]. unfold int_in.
  replace ((0 <=? v)%Z && (v <=? 65535)%Z) with true; [reflexivity|].
  symmetry. apply andb_true_intro. split; apply Z.leb_le; lia.
Qed.

(* name-decoded types: finite, against the regenerated tables; these fail to
   build if two code points share a name *)
Lemma sig_code_roundtrip s : (0 <= s < 2 ^ 8)%Z -> code_of_name signature_names (sig_name s) = s.
Proof.
  intro Hs.
  assert (H: (fun v => Ok (code_of_name signature_names (sig_name v))) s = Ok s).
  { apply (enum_rt (fun _ => true) (fun v => Ok (code_of_name signature_names (sig_name v))) 8); [vm_compute; reflexivity|exact Hs|reflexivity]. }
  cbv beta in H. congruence.
Qed.
Lemma hash_code_roundtrip h : (0 <= h < 2 ^ 8)%Z -> code_of_name hash_names (hash_name h) = h.
Proof.
  intro Hs.
  assert (H: (fun v => Ok (code_of_name hash_names (hash_name v))) h = Ok h).
  { apply (enum_rt (fun _ => true) (fun v => Ok (code_of_name hash_names (hash_name v))) 8); [vm_compute; reflexivity|exact Hs|reflexivity]. }
  cbv beta in H. congruence.
Qed.
Lemma sighash_roundtrip s h : (0 <= s < 2 ^ 8)%Z -> (0 <= h < 2 ^ 8)%Z ->
  sighash_of_json (sighash_to_json s h) = Ok (s, h).
Proof.
  intros Hs Hh. unfold sighash_of_json, sighash_to_json.
  rewrite (obj_rt_ex sighash_fields _ (sig_name s, (hash_name h, tt))).
  - cbn [rbind]. now rewrite sig_code_roundtrip, hash_code_roundtrip.
  - unfold sighash_fields. rt_obj.
Qed.

Lemma pubkey_alg_roundtrip v : (0 <= v < pubkey_alg_count)%Z -> pubkey_alg_of_json (pubkey_alg_to_json v) = Ok v.
Proof.
  intro Hv.
  assert (Hc: (pubkey_alg_count <= 2 ^ 5)%Z) by (vm_compute; discriminate).
  apply (enum_rt (fun v => (v <? pubkey_alg_count)%Z) (fun v => pubkey_alg_of_json (pubkey_alg_to_json v)) 5).
  - vm_compute. reflexivity.
  - simpl. lia.
  - apply Z.ltb_lt. lia.
Qed.

Lemma sig_alg_roundtrip v : (1 <= v < sig_alg_count)%Z -> sig_alg_of_json (sig_alg_to_json v) = Ok v.
Proof.
  intro Hv.
  assert (Hc: (sig_alg_count <= 2 ^ 5)%Z) by (vm_compute; discriminate).
  apply (enum_rt (fun v => (1 <=? v)%Z && (v <? sig_alg_count)%Z) (fun v => sig_alg_of_json (sig_alg_to_json v)) 5).
  - vm_compute. reflexivity.
  - simpl. lia.
  - apply andb_true_intro. split; [apply Z.leb_le|apply Z.ltb_lt]; lia.
Qed.
(* the package's own test requires this *)
Lemma sig_alg_unknown_is_an_error : sig_alg_of_json (sig_alg_to_json 0) = Err.
Proof. vm_compute. reflexivity. Qed.

(* ClientAuthType: every Go int, named or not *)
Lemma trim_prefix_app p x : trim_prefix p (p ++ x) = Some x.
Proof. induction p as [|c p IH]; simpl; [reflexivity|]. now rewrite Ascii.eqb_refl. Qed.
Lemma unsnoc_app x c : unsnoc (x ++ String c "") = Some (x, c).
Proof.
  induction x as [|a x IH]; [reflexivity|].
  change (String a x ++ String c "") with (String a (x ++ String c "")).
  cbn [unsnoc]. rewrite IH. destruct (x ++ String c "") eqn:E; [|reflexivity].
  destruct x; discriminate.
Qed.
Definition names_distinct (t : list (Z * string)) : bool :=
  forallb (fun kn => match rlookup t (snd kn) with Some k => Z.eqb k (fst kn) | None => false end) t.
Definition no_prefix (p : string) (t : list (Z * string)) : bool :=
  forallb (fun kn => match trim_prefix p (snd kn) with None => true | Some _ => false end) t.
Lemma lookup_rlookup t v n : names_distinct t = true -> lookupZ t v = Some n -> rlookup t n = Some v.
Proof.
  unfold names_distinct. intros H L.
  assert (In (v, n) t) as Hin.
  { clear H. induction t as [|[k s] r IH]; simpl in L; [discriminate|].
    destruct (Z.eqb_spec k v) as [->|]; [inversion L; now left|right; auto]. }
  rewrite forallb_forall in H. specialize (H _ Hin). simpl in H.
  destruct (rlookup t n) as [k|]; [|discriminate]. apply Z.eqb_eq in H. now subst.
Qed.
Lemma rlookup_in t n k : rlookup t n = Some k -> In (k, n) t.
Proof.
  induction t as [|[k' s] r IH]; simpl; [discriminate|].
  destruct (String.eqb_spec s n) as [->|]; intro H; [inversion H; now left|right; auto].
Qed.

Lemma client_auth_roundtrip v : (- 2 ^ 63 <= v < 2 ^ 63)%Z ->
  client_auth_of_json (client_auth_to_json v) = Ok v.
Proof.
  intro Hv. unfold client_auth_of_json, client_auth_to_json.
  assert (D: names_distinct client_auth_names = true) by (vm_compute; reflexivity).
  assert (NP: no_prefix "ClientAuthType(" client_auth_names = true) by (vm_compute; reflexivity).
  destruct (lookupZ client_auth_names v) as [n|] eqn:L.
  - assert (E: client_auth_name v = n) by (unfold client_auth_name, name_of; now rewrite L).
    rewrite E. now rewrite (lookup_rlookup _ _ _ D L).
  - assert (E: client_auth_name v = "ClientAuthType(" ++ dec_of_Z v ++ ")")
      by (unfold client_auth_name, name_of; now rewrite L).
    rewrite !E.
    destruct (rlookup client_auth_names ("ClientAuthType(" ++ dec_of_Z v ++ ")")) as [k|] eqn:R.
    + apply rlookup_in in R. unfold no_prefix in NP. rewrite forallb_forall in NP. specialize (NP _ R).
      cbn [snd] in NP. rewrite trim_prefix_app in NP. discriminate.
    + rewrite trim_prefix_app. rewrite unsnoc_app. rewrite Ascii.eqb_refl.
      rewrite parse_int_dec by (simpl; lia).
      rewrite E. now rewrite String.eqb_refl.
Qed.

(* ================= key parameters ================= *)
(* a *big.Int is observed as its magnitude bytes: no leading zero byte *)
Definition okmag (s : string) : Prop := strip0 s = s /\ (bits_of s <= int64_hi)%Z.
Definition ookmag (o : option string) : Prop := match o with Some b => okmag b | None => True end.
Definition or_empty (o : option string) : string := match o with Some b => b | None => "" end.

Lemma bits_of_nonneg s : (0 <= bits_of s)%Z.
Proof. unfold bits_of. lia. Qed.

Lemma cparam_rt : codec_rt c_cparam ookmag or_empty.
Proof.
  intros p Hp. split; [discriminate|].
  unfold c_cparam. cbn [enc dec].
  erewrite (obj_rt_ex cparam_fields); cycle 1.
  { unfold cparam_fields, k_i64. rt_obj.
    - destruct p; [pose proof (bits_of_nonneg s)|]; unfold int64_lo; lia.
    - destruct p as [b|]; [exact (proj2 Hp)|unfold int64_hi; lia]. }
  cbn [rbind]. destruct p as [b|]; [exact (f_equal Ok (proj1 Hp))|reflexivity].
Qed.
#[export] Hint Resolve cparam_rt : c33rt.

(* ECPoint: X is always written (a nil X as an empty value, which decodes to 0) *)
Definition ecpoint_ok (p : ecpoint_t) : Prop := ookmag (fst p) /\ ookmag (snd p).
Definition ecpoint_norm (p : ecpoint_t) : ecpoint_t := (Some (or_empty (fst p)), snd p).
Lemma ecpoint_rt : codec_rt c_ecpoint ecpoint_ok ecpoint_norm.
Proof.
  intros [x y] [Hx Hy]. split; [discriminate|]. cbn [fst snd] in *.
  unfold c_ecpoint, ecpoint_enc, ecpoint_dec. cbn [enc dec fst snd].
  erewrite (obj_rt_ex ecpoint_fields); cycle 1.
  { unfold ecpoint_fields. eexists. eexists. split; [rt_fields|]. split.
    - cbn [fst snd opt_valid]. repeat split; auto. destruct y; cbn; auto.
    - reflexivity. }
  cbn [rbind fst snd option_map]. unfold ecpoint_norm. cbn [fst snd]. destruct y; reflexivity.
Qed.
#[export] Hint Resolve ecpoint_rt : c33rt.

(* the point MarshalJSON writes for X25519 made the unrepaired UnmarshalJSON panic *)
Lemma ecpoint_unrepaired_panics :
  ecpoint_dec_unrepaired (ecpoint_enc (Some (bs [5%N]), None)) = Panic.
Proof. vm_compute. reflexivity. Qed.

Definition dh_ok (p : dh_t) : Prop :=
  let '(pr, (g, (sp, (sk, (cp, (ck, (ss, _))))))) := p in
  ookmag pr /\ ookmag g /\ ookmag sp /\ ookmag sk /\ ookmag cp /\ ookmag ck /\ ookmag ss.
(* prime and generator are always written: nil decodes to 0 *)
Definition dh_norm (p : dh_t) : dh_t :=
  let '(pr, (g, rest)) := p in (Some (or_empty pr), (Some (or_empty g), rest)).
Lemma wrap_norm o : option_map or_empty (wrap o) = o.
Proof. destruct o; reflexivity. Qed.
Lemma wrap_ok o : ookmag o -> opt_valid ookmag (wrap o).
Proof. destruct o; simpl; auto. Qed.
Lemma dh_rt : codec_rt c_dh dh_ok dh_norm.
Proof.
  intros [pr [g [sp [sk [cp [ck [ss []]]]]]]] (H1 & H2 & H3 & H4 & H5 & H6 & H7). split; [discriminate|].
  unfold c_dh, dh_enc, dh_dec. cbn [enc dec].
  erewrite (obj_rt_ex dh_fields); cycle 1.
  { unfold dh_fields. eexists. eexists. split; [rt_fields|]. split.
    - cbn [fst snd opt_valid]. repeat split; auto using wrap_ok.
    - reflexivity. }
  cbn [fst snd option_map dh_norm]. now rewrite !wrap_norm.
Qed.

Definition i64 (z : Z) : Prop := (int64_lo <= z <= int64_hi)%Z.
Lemma ecdhpriv_rt : codec_rt c_ecdhpriv (fun p => i64 (fst (snd p))) (fun p => p).
Proof.
  intros [v [l []]] Hl. split; [discriminate|]. unfold c_ecdhpriv.
  erewrite (obj_rt_ex ecdhpriv_fields); [reflexivity|].
  unfold ecdhpriv_fields, k_i64. rt_obj; apply Hl.
Qed.
#[export] Hint Resolve ecdhpriv_rt : c33rt.

Lemma ecid_rt : codec_rt c_ecid (fun v => (0 <= v < 2 ^ 16)%Z) (fun v => v).
Proof. intros v Hv. split; [discriminate|]. now apply ecid_roundtrip. Qed.

Definition oecpoint_ok (o : option ecpoint_t) : Prop := opt_valid ecpoint_ok o.
Definition opriv_ok (o : option ecdhpriv_t) : Prop := opt_valid (fun q : ecdhpriv_t => i64 (fst (snd q))) o.
Definition ecdh_ok (p : ecdh_t) : Prop :=
  let '(c, (sp, (sk, (cp, (ck, _))))) := p in
  (0 <= c < 2 ^ 16)%Z /\ oecpoint_ok sp /\ opriv_ok sk /\ oecpoint_ok cp /\ opriv_ok ck.
Definition ecdh_norm (p : ecdh_t) : ecdh_t :=
  let '(c, (sp, (sk, (cp, (ck, u))))) := p in
  (c, (option_map ecpoint_norm sp, (sk, (option_map ecpoint_norm cp, (ck, u))))).
Lemma option_map_id {A} (o : option A) : option_map (fun p => p) o = o.
Proof. destruct o; reflexivity. Qed.
Lemma ecdh_rt : codec_rt c_ecdh ecdh_ok ecdh_norm.
Proof.
  intros [c [sp [sk [cp [ck []]]]]] (H1 & H2 & H3 & H4 & H5). split; [discriminate|].
  unfold c_ecdh. erewrite (obj_rt_ex ecdh_fields); cycle 1.
  { unfold ecdh_fields. eexists. eexists. split.
    - eapply rt_cons; [eapply k_val_rt; [apply ecid_rt|]|rt_keys|].
      { intros a _ Ha. apply Z.eqb_eq in Ha. now subst. }
      rt_fields.
    - split; [cbn [fst snd]; repeat split; auto; lia|reflexivity]. }
  cbn [fst snd ecdh_norm]. now rewrite !option_map_id.
Qed.

(* RSAPublicKey: a nil key is written as exponent 0 and an empty modulus *)
Definition rsapub_ok (p : rsapub_t) : Prop := match p with Some (_, n) => okmag n | None => True end.
Definition rsapub_norm (p : rsapub_t) : rsapub_t :=
  match p with Some k => Some k | None => Some (0%Z, "") end.
Lemma k_number_rt : fk_rt k_number (fun _ => True) Some.
Proof. intros z _. reflexivity. Qed.
Lemma rsapub_rt : codec_rt c_rsapub rsapub_ok rsapub_norm.
Proof.
  intros p Hp. split; [destruct p as [[]|]; discriminate|].
  unfold c_rsapub, rsapub_enc, rsapub_dec. cbn [enc dec].
  erewrite (obj_rt_ex rsapub_fields); cycle 1.
  { unfold rsapub_fields, k_i64. eexists. eexists. split.
    - eapply rt_cons; [apply k_number_rt|rt_keys|]. rt_fields.
    - split; [|reflexivity]. destruct p as [[e n]|]; cbn [fst snd]; repeat split; auto.
      + pose proof (bits_of_nonneg n). unfold int64_lo. lia.
      + exact (proj2 Hp).
      + unfold int64_lo. lia.
      + unfold int64_hi. lia. }
  destruct p as [[e n]|]; cbn [rbind fst snd].
  - rewrite Z.eqb_refl. now rewrite (proj1 Hp).
  - reflexivity.
Qed.

Lemma rsaclient_rt : codec_rt c_rsaclient (fun p => (0 <= fst p <= 65535)%Z) (fun p => p).
Proof.
  intros [l [v []]] Hl. split; [discriminate|]. unfold c_rsaclient.
  erewrite (obj_rt_ex rsaclient_fields); [reflexivity|].
  unfold rsaclient_fields, k_u16. rt_obj; apply Hl.
Qed.
