(* C33Proofs.v — round-trip theorems for the enumerated types and the key
   parameter types of the C33 model. *)
From Coq Require Import List NArith ZArith Bool String Ascii Lia.
From VerifModel Require Import C33Json C33.
From VerifGen Require Import C33Tables_gen.
From VerifProof Require Import C33JsonProofs.
Import ListNotations.
Local Open Scope string_scope.

Ltac rt_obj :=
  eexists; eexists; split; [rt_fields|]; split; [cbn [fst snd]; repeat split; auto; try lia|reflexivity].

(* ================= enumerated types ================= *)
(* finite enumeration helper: f v = Ok v for every v < 2^bits that satisfies dom *)
Definition rt_ok (dom : Z -> bool) (f : Z -> res Z) (n : N) : bool :=
  let v := Z.of_N n in
  if dom v then match f v with Ok d => Z.eqb d v | _ => false end else true.

Lemma enum_rt (dom : Z -> bool) (f : Z -> res Z) (bits : nat) :
  forallb (rt_ok dom f) (nrange bits) = true ->
  forall v, (0 <= v < 2 ^ Z.of_nat bits)%Z -> dom v = true -> f v = Ok v.
Proof.
  intros H v Hv Hd.
  assert (Hn: (Z.to_N v < 2 ^ N.of_nat bits)%N).
  { apply N2Z.inj_lt. rewrite Z2N.id by lia. rewrite N2Z.inj_pow. rewrite nat_N_Z. simpl. lia. }
  pose proof (forall_range bits _ H _ Hn) as E. unfold rt_ok in E.
  rewrite Z2N.id in E by lia. rewrite Hd in E.
  destruct (f v) as [d| |]; try discriminate. apply Z.eqb_eq in E. now subst.
Qed.

(* value-decoded types: the name is only compared with the name of the decoded
   value, so the round trip holds whatever the table contains *)
Lemma version_roundtrip v : (0 <= v < 2 ^ 16)%Z -> version_of_json (version_to_json v) = Ok v.
Proof.
  intro Hv. unfold version_of_json, version_to_json.
  rewrite (obj_rt_ex version_fields _ (version_name v, (v, tt))).
  - cbn [rbind]. rewrite Z.mod_small by lia. now rewrite String.eqb_refl.
  - unfold version_fields, k_i64. rt_obj; unfold int64_lo, int64_hi; lia.
Qed.

Lemma hnv_roundtrip hi hex nm v : (0 <= v <= hi)%Z -> hnv_of_json hi nm (hnv_to_json hi hex nm v) = Ok v.
Proof.
  intro Hv. unfold hnv_of_json, hnv_to_json.
  rewrite (obj_rt_ex (hnv_fields hi) _ (hex v, (nm v, (v, tt)))).
  - cbn [rbind fst snd]. now rewrite String.eqb_refl.
  - unfold hnv_fields. rt_obj.
Qed.

Lemma cipher_roundtrip v : (0 <= v < 2 ^ 16)%Z -> cipher_of_json (cipher_to_json v) = Ok v.
Proof. intro H. apply hnv_roundtrip. lia. Qed.
Lemma curve_roundtrip v : (0 <= v < 2 ^ 16)%Z -> curve_of_json (curve_to_json v) = Ok v.
Proof. intro H. apply hnv_roundtrip. lia. Qed.
Lemma compression_roundtrip v : (0 <= v < 2 ^ 8)%Z -> compression_of_json (compression_to_json v) = Ok v.
Proof. intro H. apply hnv_roundtrip. lia. Qed.
Lemma point_format_roundtrip v : (0 <= v < 2 ^ 8)%Z -> point_format_of_json (point_format_to_json v) = Ok v.
Proof. intro H. apply hnv_roundtrip. lia. Qed.

Lemma key_usage_roundtrip v : (0 <= v < 2 ^ 32)%Z -> key_usage_of_json (key_usage_to_json v) = Ok v.
Proof.
  intro Hv. unfold key_usage_of_json, key_usage_to_json.
  erewrite (obj_rt_ex ku_fields).
  - cbn [rbind]. rewrite Z.mod_small by lia. reflexivity.
  - unfold ku_fields, k_u32. rt_obj. apply Z.mod_pos_bound. lia. pose proof (Z.mod_pos_bound v (2^32)). lia.
Qed.

Lemma ecid_roundtrip v : (0 <= v < 2 ^ 16)%Z -> dec c_ecid (enc c_ecid v) = Ok v.
Proof.
  intro Hv. cbn -[Z.leb]. unfold int_in.
  replace ((0 <=? v)%Z && (v <=? 65535)%Z) with true; [reflexivity|].
  symmetry. apply andb_true_intro. split; apply Z.leb_le; lia.
Qed.

(* name-decoded types: finite, against the regenerated tables; these fail to
   build if two code points share a name *)
Lemma sig_code_roundtrip s : (0 <= s < 2 ^ 8)%Z -> code_of_name signature_names (sig_name s) = s.
Proof.
  intro Hs.
  assert (H: (fun v => Ok (code_of_name signature_names (sig_name v))) s = Ok s).
  { apply (enum_rt (fun _ => true) _ 8); [vm_compute; reflexivity|exact Hs|reflexivity]. }
  now inversion H.
Qed.
Lemma hash_code_roundtrip h : (0 <= h < 2 ^ 8)%Z -> code_of_name hash_names (hash_name h) = h.
Proof.
  intro Hs.
  assert (H: (fun v => Ok (code_of_name hash_names (hash_name v))) h = Ok h).
  { apply (enum_rt (fun _ => true) _ 8); [vm_compute; reflexivity|exact Hs|reflexivity]. }
  now inversion H.
Qed.
Lemma sighash_roundtrip s h : (0 <= s < 2 ^ 8)%Z -> (0 <= h < 2 ^ 8)%Z ->
  sighash_of_json (sighash_to_json s h) = Ok (s, h).
Proof.
  intros Hs Hh. unfold sighash_of_json, sighash_to_json.
  rewrite (obj_rt_ex sighash_fields _ (sig_name s, (hash_name h, tt))).
  - cbn [rbind]. now rewrite sig_code_roundtrip, hash_code_roundtrip.
  - unfold sighash_fields. rt_obj.
Qed.

Lemma pubkey_alg_roundtrip v : (0 <= v < pubkey_alg_count)%Z -> pubkey_alg_of_json (pubkey_alg_to_json v) = Ok v.
Proof.
  intro Hv.
  assert (Hc: (pubkey_alg_count <= 2 ^ 5)%Z) by (vm_compute; discriminate).
  apply (enum_rt (fun v => (v <? pubkey_alg_count)%Z) (fun v => pubkey_alg_of_json (pubkey_alg_to_json v)) 5).
  - vm_compute. reflexivity.
  - simpl. lia.
  - apply Z.ltb_lt. lia.
Qed.

Lemma sig_alg_roundtrip v : (1 <= v < sig_alg_count)%Z -> sig_alg_of_json (sig_alg_to_json v) = Ok v.
Proof.
  intro Hv.
  assert (Hc: (sig_alg_count <= 2 ^ 5)%Z) by (vm_compute; discriminate).
  apply (enum_rt (fun v => (1 <=? v)%Z && (v <? sig_alg_count)%Z) (fun v => sig_alg_of_json (sig_alg_to_json v)) 5).
  - vm_compute. reflexivity.
  - simpl. lia.
  - apply andb_true_intro. split; [apply Z.leb_le|apply Z.ltb_lt]; lia.
Qed.
(* the package's own test requires this *)
Lemma sig_alg_unknown_is_an_error : sig_alg_of_json (sig_alg_to_json 0) = Err.
Proof. vm_compute. reflexivity. Qed.

(* ClientAuthType: every Go int, named or not *)
Lemma trim_prefix_app p x : trim_prefix p (p ++ x) = Some x.
Proof. induction p as [|c p IH]; simpl; [reflexivity|]. now rewrite Ascii.eqb_refl. Qed.
Lemma unsnoc_app x c : unsnoc (x ++ String c "") = Some (x, c).
Proof.
  induction x as [|a x IH]; [reflexivity|].
  change (String a x ++ String c "") with (String a (x ++ String c "")).
  cbn [unsnoc]. rewrite IH. destruct (x ++ String c "") eqn:E; [|reflexivity].
  destruct x; discriminate.
Qed.
Definition names_distinct (t : list (Z * string)) : bool :=
  forallb (fun kn => match rlookup t (snd kn) with Some k => Z.eqb k (fst kn) | None => false end) t.
Definition no_prefix (p : string) (t : list (Z * string)) : bool :=
  forallb (fun kn => match trim_prefix p (snd kn) with None => true | Some _ => false end) t.
Lemma lookup_rlookup t v n : names_distinct t = true -> lookupZ t v = Some n -> rlookup t n = Some v.
Proof.
  unfold names_distinct. intros H L.
  assert (In (v, n) t) as Hin.
  { clear H. induction t as [|[k s] r IH]; simpl in L; [discriminate|].
    destruct (Z.eqb_spec k v) as [->|]; [inversion L; now left|right; auto]. }
  rewrite forallb_forall in H. specialize (H _ Hin). simpl in H.
  destruct (rlookup t n) as [k|]; [|discriminate]. apply Z.eqb_eq in H. now subst.
Qed.
Lemma rlookup_in t n k : rlookup t n = Some k -> In (k, n) t.
Proof.
  induction t as [|[k' s] r IH]; simpl; [discriminate|].
  destruct (String.eqb_spec s n) as [->|]; intro H; [inversion H; now left|right; auto].
Qed.

Lemma client_auth_roundtrip v : (- 2 ^ 63 <= v < 2 ^ 63)%Z ->
  client_auth_of_json (client_auth_to_json v) = Ok v.
Proof.
  intro Hv. unfold client_auth_of_json, client_auth_to_json.
  assert (D: names_distinct client_auth_names = true) by (vm_compute; reflexivity).
  assert (NP: no_prefix "ClientAuthType(" client_auth_names = true) by (vm_compute; reflexivity).
  unfold client_auth_name at 1, name_of.
  destruct (lookupZ client_auth_names v) as [n|] eqn:L.
  - now rewrite (lookup_rlookup _ _ _ D L).
  - destruct (rlookup client_auth_names ("ClientAuthType(" ++ dec_of_Z v ++ ")")) as [k|] eqn:R.
    + apply rlookup_in in R. unfold no_prefix in NP. rewrite forallb_forall in NP. specialize (NP _ R).
      cbn [snd] in NP. rewrite trim_prefix_app in NP. discriminate.
    + rewrite trim_prefix_app. rewrite unsnoc_app. rewrite Ascii.eqb_refl.
      rewrite parse_int_dec by (simpl; lia).
      unfold client_auth_name, name_of. rewrite L. now rewrite String.eqb_refl.
Qed.

(* ================= key parameters ================= *)
Definition canon (s : string) : Prop := strip0 s = s.
Definition ocanon (o : option string) : Prop := match o with Some b => canon b | None => True end.
Definition or_empty (o : option string) : string := match o with Some b => b | None => "" end.

Lemma cparam_rt : codec_rt c_cparam ocanon or_empty.
Proof.
  intros p Hp. split; [discriminate|].
  unfold c_cparam. cbn [enc dec].
  erewrite (obj_rt_ex cparam_fields).
  - cbn [rbind]. destruct p as [b|]; [exact (f_equal Ok Hp)|reflexivity].
  - unfold cparam_fields, k_i64. rt_obj; destruct p; unfold bits_of, int64_lo, int64_hi; try lia.
    + admit_placeholder.
Abort.
