(* C15 — proofs about the model of the browser revocation sets. *)
From Coq Require Import List NArith ZArith Bool Arith Lia ZifyN ZifyNat ZifyBool.
From Verif Require Import Harness Wire16.
From VerifModel Require Import C15.
Import ListNotations.
Open Scope N_scope.

(* ------------------------------------------------------------------ *)
(* byte-string equality and association lists                          *)
(* ------------------------------------------------------------------ *)
Lemma bytes_eqb_refl b : bytes_eqb b b = true.
Proof. apply list_eqb_refl. apply N.eqb_refl. Qed.

Lemma bytes_eqb_spec a b : reflect (a = b) (bytes_eqb a b).
Proof.
  destruct (bytes_eqb a b) eqn:E; constructor.
  - now apply bytes_eqb_eq.
  - intros ->. now rewrite bytes_eqb_refl in E.
Qed.

Lemma find_app' {A} (p : A -> bool) (a b : list A) :
  find p (a ++ b) = match find p a with Some x => Some x | None => find p b end.
Proof. induction a as [|x a IH]; cbn [app find]; [reflexivity|]. destruct (p x); auto. Qed.

Section AMapProofs.
  Context {V : Type}.

  Lemma alookup_aset (k k' : bytes) (v : V) m :
    alookup k (aset k' v m) = if bytes_eqb k k' then Some v else alookup k m.
  Proof.
    induction m as [|[k2 v2] r IH]; cbn [aset alookup].
    - destruct (bytes_eqb k k'); reflexivity.
    - destruct (bytes_eqb_spec k' k2) as [->|N2]; cbn [alookup].
      + destruct (bytes_eqb k k2); reflexivity.
      + destruct (bytes_eqb_spec k k2) as [->|N3].
        * destruct (bytes_eqb_spec k2 k') as [E|_]; [congruence|reflexivity].
        * exact IH.
  Qed.

  (* m[k] = v for each (k, v) in order: the last assignment to a key wins *)
  Lemma alookup_fold_aset {E} (key : E -> bytes) (val : E -> V) (k : bytes) l : forall m,
    alookup k (fold_left (fun m e => aset (key e) (val e) m) l m) =
    match find (fun e => bytes_eqb k (key e)) (rev l) with
    | Some e => Some (val e)
    | None => alookup k m
    end.
  Proof.
    induction l as [|e l IH]; intro m; cbn [fold_left rev find]; [reflexivity|].
    rewrite IH. rewrite find_app'.
    destruct (find (fun e0 => bytes_eqb k (key e0)) (rev l)); [reflexivity|].
    cbn [find]. rewrite alookup_aset. destruct (bytes_eqb k (key e)); reflexivity.
  Qed.
End AMapProofs.

(* grouping: the list of a key is what was there followed by the added values of that key, in order *)
Lemma alookup_group_add {V} (k k' : bytes) (v : V) m :
  alookup k (group_add k' v m) =
  if bytes_eqb k k'
  then Some (match alookup k' m with Some l => l ++ [v] | None => [v] end)
  else alookup k m.
Proof.
  unfold group_add. destruct (alookup k' m) as [l|] eqn:E; rewrite alookup_aset; reflexivity.
Qed.

Definition values_of {V} (k : bytes) (kvs : list (bytes * V)) : list V :=
  map snd (filter (fun kv => bytes_eqb k (fst kv)) kvs).

Lemma alookup_group_fold {V} (k : bytes) (kvs : list (bytes * V)) : forall m,
  alookup k (fold_left (fun m kv => group_add (fst kv) (snd kv) m) kvs m) =
  match alookup k m, values_of k kvs with
  | Some l, new => Some (l ++ new)
  | None, [] => None
  | None, new => Some new
  end.
Proof.
  induction kvs as [|[k' v] r IH]; intro m; cbn [fold_left].
  - unfold values_of. cbn. destruct (alookup k m); [now rewrite app_nil_r|reflexivity].
  - rewrite IH, alookup_group_add. unfold values_of. cbn [filter fst snd].
    destruct (bytes_eqb_spec k k') as [->|Nk]; cbn [map snd].
    + destruct (alookup k' m) as [l|]; [now rewrite <- app_assoc|reflexivity].
    + reflexivity.
Qed.

(* ------------------------------------------------------------------ *)
(* CRLSet                                                              *)
(* ------------------------------------------------------------------ *)
Definition wf_serial (sb : bytes) : Prop := N.of_nat (length sb) < 256.
Definition wf_issuer (e : bytes * list bytes) : Prop :=
  length (fst e) = 32%nat /\ N.of_nat (length (snd e)) < 4294967296 /\ Forall wf_serial (snd e).

Lemma get_header_encode json hdr h body :
  json hdr = Some h -> N.of_nat (length hdr) < 65536 ->
  get_header json (le_encode 2 (N.of_nat (length hdr)) ++ hdr ++ body) = Some (h, body).
Proof.
  intros Hj Hl. unfold get_header.
  rewrite take_n_app by apply le_encode_length.
  rewrite le_decode_encode_small by (change (pow256 2) with 65536; exact Hl).
  rewrite take_N_app by reflexivity. now rewrite Hj.
Qed.

Lemma parse_serials_encode serials : forall rest acc fuel,
  Forall wf_serial serials -> (length serials <= fuel)%nat ->
  parse_serials fuel (N.of_nat (length serials)) (flat_map encode_serial serials ++ rest) acc =
  Some (rev acc ++ map be_decode serials, rest).
Proof.
  induction serials as [|sb r IH]; intros rest acc fuel Hwf Hf.
  - cbn. destruct fuel; cbn; now rewrite app_nil_r.
  - inversion Hwf as [|? ? Hsb Hr]; subst.
    destruct fuel as [|fuel]; [cbn in Hf; lia|].
    cbn [parse_serials length].
    destruct (N.eqb_spec (N.of_nat (S (length r))) 0) as [Z|_]; [lia|].
    cbn [flat_map encode_serial app]. rewrite <- app_assoc.
    rewrite take_N_app by reflexivity.
    replace (N.of_nat (S (length r)) - 1) with (N.of_nat (length r)) by lia.
    rewrite IH by (auto; cbn in Hf; lia). cbn [rev map]. now rewrite <- app_assoc.
Qed.

Lemma serials_encoding_length serials : (length serials <= length (flat_map encode_serial serials))%nat.
Proof.
  induction serials as [|sb r IH]; cbn [flat_map encode_serial length]; [lia|].
  rewrite app_length. unfold encode_serial in *. cbn [length]. lia.
Qed.

Definition issuer_step (m : list (bytes * list N)) (e : bytes * list bytes) :=
  aset (hex_encode (fst e)) (map be_decode (snd e)) m.

Lemma parse_issuers_encode issuers : forall m fuel,
  Forall wf_issuer issuers -> (length issuers < fuel)%nat ->
  parse_issuers fuel (flat_map encode_issuer issuers) m = Some (fold_left issuer_step issuers m).
Proof.
  induction issuers as [|[hash serials] r IH]; intros m fuel Hwf Hf.
  - destruct fuel; [cbn in Hf; lia|]. reflexivity.
  - inversion Hwf as [|? ? [Hh [Hn Hs]] Hr]; subst. cbn [fst snd] in *.
    destruct fuel as [|fuel]; [lia|].
    cbn [flat_map]. unfold encode_issuer at 1. cbn [fst snd]. rewrite <- !app_assoc.
    cbn [parse_issuers].
    destruct hash as [|x hash]; [discriminate|].
    change ((x :: hash) ++ ?t) with ((x :: hash) ++ t).
    cbn [app]. change (x :: hash ++ ?t) with ((x :: hash) ++ t).
    rewrite take_n_app by exact Hh.
    rewrite take_n_app by apply le_encode_length.
    rewrite le_decode_encode_small by (change (pow256 4) with 4294967296; exact Hn).
    rewrite parse_serials_encode; [| exact Hs |].
    + cbn [rev app]. rewrite IH by (auto; cbn [length] in Hf; lia). reflexivity.
    + rewrite app_length. pose proof (serials_encoding_length serials). lia.
Qed.

Lemma issuers_encoding_length issuers :
  Forall wf_issuer issuers -> (length issuers <= length (flat_map encode_issuer issuers))%nat.
Proof.
  induction 1 as [|e r [Hh _] _ IH]; cbn [flat_map length]; [lia|].
  rewrite app_length.
  assert (1 <= length (encode_issuer e))%nat by (unfold encode_issuer; rewrite app_length; lia).
  lia.
Qed.

(* a well-formed CRLSet parses to the header's fields and to the issuer lists it
   encodes (an issuer listed twice keeps its last list: see crlset_lookup) *)
Lemma crlset_parse_encode json hdr h issuers :
  json hdr = Some h -> N.of_nat (length hdr) < 65536 -> Forall wf_issuer issuers ->
  parse_crlset json (encode_crlset hdr issuers) =
  Some {| cs_sequence := h_sequence h; cs_numparents := h_numparents h; cs_blocked := h_blocked h;
          cs_issuers := fold_left issuer_step issuers [] |}.
Proof.
  intros Hj Hl Hwf. unfold parse_crlset, encode_crlset.
  rewrite (get_header_encode json hdr h _ Hj Hl).
  rewrite parse_issuers_encode; auto.
  pose proof (issuers_encoding_length issuers Hwf). lia.
Qed.

Lemma crlset_lookup issuers k :
  alookup k (fold_left issuer_step issuers []) =
  match find (fun e => bytes_eqb k (hex_encode (fst e))) (rev issuers) with
  | Some e => Some (map be_decode (snd e))
  | None => None
  end.
Proof.
  unfold issuer_step.
  exact (alookup_fold_aset (fun e : bytes * list bytes => hex_encode (fst e))
                           (fun e => map be_decode (snd e)) k issuers []).
Qed.

(* converse of parse-of-encode: whatever google.Parse accepts is the encoding of what it returns *)
Lemma parse_serials_sound fuel : forall n rest acc out rest',
  bytes_ok rest -> parse_serials fuel n rest acc = Some (out, rest') ->
  exists serials, N.of_nat (length serials) = n /\ Forall wf_serial serials /\
                  rest = flat_map encode_serial serials ++ rest' /\ out = rev acc ++ map be_decode serials.
Proof.
  induction fuel as [|fuel IH]; intros n rest acc out rest' Hok H; cbn [parse_serials] in H.
  - destruct (N.eqb_spec n 0) as [->|_]; [|discriminate]. inversion H; subst.
    exists []. cbn. rewrite app_nil_r. auto.
  - destruct (N.eqb_spec n 0) as [->|Hn].
    + inversion H; subst. exists []. cbn. rewrite app_nil_r. auto.
    + destruct rest as [|l r]; [discriminate|].
      inversion Hok as [|? ? Hl Hr]; subst. unfold byte_ok in Hl.
      destruct (take_N l r) as [[sb r']|] eqn:E; [|discriminate].
      apply take_N_some in E as [-> Hlen]. apply bytes_ok_app in Hr as [_ Hr'].
      destruct (IH _ _ _ _ _ Hr' H) as [ss [Hn' [Hwf [-> ->]]]].
      exists (sb :: ss). cbn [length flat_map encode_serial map rev app].
      repeat split.
      * lia.
      * constructor; [unfold wf_serial; lia|exact Hwf].
      * rewrite Hlen. now rewrite <- app_assoc.
      * cbn [rev]. now rewrite <- app_assoc.
Qed.

Lemma parse_issuers_sound fuel : forall rest m m',
  bytes_ok rest -> parse_issuers fuel rest m = Some m' ->
  exists issuers, Forall wf_issuer issuers /\ rest = flat_map encode_issuer issuers /\
                  m' = fold_left issuer_step issuers m.
Proof.
  induction fuel as [|fuel IH]; intros rest m m' Hok H.
  - destruct rest; cbn in H; [|discriminate]. inversion H; subst. exists []. auto.
  - destruct rest as [|x rest0]; [cbn in H; inversion H; subst; exists []; auto|].
    remember (x :: rest0) as rest. cbn [parse_issuers] in H. rewrite Heqrest in H at 1.
    destruct (take_n 32 rest) as [[hash r1]|] eqn:E1; [|discriminate].
    destruct (take_n 4 r1) as [[nb r2]|] eqn:E2; [|discriminate].
    destruct (parse_serials (S (length r2)) (le_decode nb) r2 []) as [[serials r3]|] eqn:E3; [|discriminate].
    apply take_n_some in E1 as [E1 Hh]. apply take_n_some in E2 as [-> Hnb].
    rewrite E1 in Hok. apply bytes_ok_app in Hok as [_ Hok1]. apply bytes_ok_app in Hok1 as [Hoknb Hok2].
    apply parse_serials_sound in E3 as [ss [Hn [Hwf [-> Hser]]]]; [|exact Hok2].
    apply bytes_ok_app in Hok2 as [_ Hok3].
    destruct (IH _ _ _ Hok3 H) as [issuers [Hwi [-> ->]]].
    exists ((hash, ss) :: issuers). split; [|split].
    + constructor; [|exact Hwi]. unfold wf_issuer. cbn [fst snd]. split; [exact Hh|split; [|exact Hwf]].
      pose proof (le_decode_bound nb Hoknb) as Hb. rewrite Hnb in Hb.
      eapply N.le_lt_trans; [apply N.eq_le_incl; exact Hn|exact Hb].
    + rewrite E1. cbn [flat_map]. unfold encode_issuer. cbn [fst snd].
      rewrite Hn, <- Hnb, le_encode_decode by exact Hoknb. now rewrite <- !app_assoc.
    + cbn [fold_left]. unfold issuer_step at 2. cbn [fst snd]. now rewrite Hser.
Qed.

Lemma crlset_parse_sound json input s :
  bytes_ok input -> parse_crlset json input = Some s ->
  exists hdr h issuers,
    json hdr = Some h /\ N.of_nat (length hdr) < 65536 /\ Forall wf_issuer issuers /\
    input = encode_crlset hdr issuers /\
    s = {| cs_sequence := h_sequence h; cs_numparents := h_numparents h; cs_blocked := h_blocked h;
           cs_issuers := fold_left issuer_step issuers [] |}.
Proof.
  intros Hok H. unfold parse_crlset, get_header in H.
  destruct (take_n 2 input) as [[lb c1]|] eqn:E1; [|discriminate].
  destruct (take_N (le_decode lb) c1) as [[hb rest]|] eqn:E2; [|discriminate].
  destruct (json hb) as [h|] eqn:Ej; [|discriminate].
  destruct (parse_issuers (S (length rest)) rest []) as [m|] eqn:E3; [|discriminate].
  inversion H; subst s; clear H.
  apply take_n_some in E1 as [-> Hlb]. apply take_N_some in E2 as [-> Hlen].
  apply bytes_ok_app in Hok as [Hoklb Hok1]. apply bytes_ok_app in Hok1 as [_ Hokr].
  apply parse_issuers_sound in E3 as [issuers [Hwf [-> ->]]]; [|exact Hokr].
  exists hb, h, issuers. repeat split; auto.
  - rewrite Hlen. pose proof (le_decode_bound lb Hoklb) as Hb. rewrite Hlb in Hb. exact Hb.
  - unfold encode_crlset. rewrite Hlen, <- Hlb, le_encode_decode by exact Hoklb. reflexivity.
Qed.

(* Check: exactly the blocked keys and the (issuer, serial) pairs of the parsed set *)
Lemma crlset_check_iff s serial q r :
  check_crlset s serial q = Some r <->
  r = serial /\ (In q (cs_blocked s) \/
                 exists es, alookup q (cs_issuers s) = Some es /\ In serial (map Z.of_N es)).
Proof.
  unfold check_crlset.
  destruct (existsb (bytes_eqb q) (cs_blocked s)) eqn:Eb.
  - apply existsb_exists in Eb as [x [Hin Hx]]. apply bytes_eqb_eq in Hx; subst x.
    split; [intro H; inversion H; auto|]. intros [-> _]; reflexivity.
  - assert (Hnb : ~ In q (cs_blocked s)).
    { intro Hin. assert (existsb (bytes_eqb q) (cs_blocked s) = true).
      { apply existsb_exists. exists q. split; auto. apply bytes_eqb_refl. }
      congruence. }
    destruct (alookup q (cs_issuers s)) as [es|].
    + destruct (find (fun e => Z.eqb (Z.of_N e) serial) es) as [e|] eqn:Ef.
      * apply find_some in Ef as [Hin He]. apply Z.eqb_eq in He.
        split.
        -- intro H; inversion H; subst. split; auto. right. exists es. split; auto. now apply in_map.
        -- intros [-> _]. now rewrite He.
      * split; [discriminate|]. intros [_ [Hb|[es' [E Hin]]]]; [contradiction|].
        inversion E; subst es'. apply in_map_iff in Hin as [e [He Hin]].
        pose proof (find_none _ _ Ef e Hin) as Hn. cbn in Hn. rewrite He, Z.eqb_refl in Hn. discriminate.
    + split; [discriminate|]. intros [_ [Hb|[es' [E _]]]]; [contradiction|discriminate].
Qed.

(* ------------------------------------------------------------------ *)
(* SST                                                                 *)
(* ------------------------------------------------------------------ *)
Definition two32 : N := 4294967296.

Definition wf_sst_entry (e : sst_entry) : Prop :=
  match e with
  | EProp id enc v => id <> 0 /\ id <> 32 /\ id < two32 /\ enc < two32 /\ N.of_nat (length v) < two32
  | ECert b => N.of_nat (length b) < two32
  end.

Definition certs_of (es : list sst_entry) : list bytes :=
  flat_map (fun e => match e with ECert b => [b] | EProp _ _ _ => [] end) es.

Lemma read_le32_encode x rest : x < two32 -> read_le32 (le_encode 4 x ++ rest) = (x, rest).
Proof.
  intro H. unfold read_le32. rewrite take_n_app by apply le_encode_length.
  now rewrite le_decode_encode_small by (change (pow256 4) with two32; exact H).
Qed.

Lemma sst_elements_encode es : forall after acc fuel,
  Forall wf_sst_entry es -> (length es < fuel)%nat ->
  sst_elements fuel (flat_map encode_sst_entry es ++ le_encode 4 0 ++ after) acc =
  Some (rev acc ++ certs_of es).
Proof.
  induction es as [|e r IH]; intros after acc fuel Hwf Hf.
  - destruct fuel as [|fuel]; [lia|]. cbn [flat_map app sst_elements].
    rewrite read_le32_encode by (unfold two32; lia). cbn. now rewrite app_nil_r.
  - inversion Hwf as [|? ? He Hr]; subst.
    destruct fuel as [|fuel]; [lia|]. cbn [flat_map sst_elements].
    destruct e as [id enc v|b]; cbn [encode_sst_entry wf_sst_entry] in *.
    + destruct He as [H0 [H32 [Hid [Henc Hv]]]].
      rewrite <- !app_assoc. rewrite read_le32_encode by exact Hid.
      destruct (N.eqb_spec id 0) as [|_]; [contradiction|].
      rewrite read_le32_encode by exact Henc. rewrite read_le32_encode by exact Hv.
      destruct (N.eqb_spec id 32) as [|_]; [contradiction|].
      rewrite take_N_app by reflexivity.
      rewrite IH by (auto; cbn [length] in Hf; lia). reflexivity.
    + rewrite <- !app_assoc. rewrite read_le32_encode by (unfold two32; lia).
      cbn [N.eqb Pos.eqb].
      rewrite read_le32_encode by (unfold two32; lia). rewrite read_le32_encode by exact He.
      cbn [N.eqb Pos.eqb negb].
      rewrite take_N_app by reflexivity.
      rewrite IH by (auto; cbn [length] in Hf; lia). cbn [rev certs_of flat_map app].
      now rewrite <- app_assoc.
Qed.

Lemma sst_entries_encoding_length es :
  (length es <= length (flat_map encode_sst_entry es))%nat.
Proof.
  induction es as [|e r IH]; cbn [flat_map length]; [lia|].
  rewrite app_length. destruct e; cbn [encode_sst_entry]; rewrite !app_length, !le_encode_length; lia.
Qed.

Lemma sst_blobs_encode es after :
  Forall wf_sst_entry es -> sst_cert_blobs (encode_sst es after) = Some (certs_of es).
Proof.
  intro Hwf. unfold sst_cert_blobs, encode_sst.
  rewrite read_le32_encode by (unfold two32; lia).
  rewrite take_n_app by reflexivity. rewrite bytes_eqb_refl. cbn [negb orb N.eqb].
  rewrite sst_elements_encode; auto.
  rewrite app_length. pose proof (sst_entries_encoding_length es). lia.
Qed.

(* sequential parse-and-group = parse all, then group *)
Fixpoint parse_all (pc : bytes -> option (bytes * Z)) (certs : list bytes) : option (list (bytes * Z)) :=
  match certs with
  | [] => Some []
  | c :: r => match pc c, parse_all pc r with
              | Some kv, Some kvs => Some (kv :: kvs)
              | _, _ => None
              end
  end.

Lemma sst_group_spec pc certs : forall m,
  sst_group pc certs m =
  match parse_all pc certs with
  | Some kvs => Some (fold_left (fun m kv => group_add (fst kv) (snd kv) m) kvs m)
  | None => None
  end.
Proof.
  induction certs as [|c r IH]; intro m; cbn [sst_group parse_all]; [reflexivity|].
  destruct (pc c) as [[k v]|]; [|reflexivity].
  rewrite IH. destruct (parse_all pc r); reflexivity.
Qed.

Lemma sst_parse_encode pc es after :
  Forall wf_sst_entry es ->
  parse_sst pc (encode_sst es after) =
  match parse_all pc (certs_of es) with
  | Some kvs => Some (fold_left (fun m kv => group_add (fst kv) (snd kv) m) kvs [])
  | None => None
  end.
Proof. intro Hwf. unfold parse_sst. rewrite sst_blobs_encode by exact Hwf. apply sst_group_spec. Qed.

Lemma check_listed_iff m issuer serial r :
  check_listed m issuer serial = Some r <->
  r = serial /\ exists es, alookup issuer m = Some es /\ In serial es.
Proof.
  unfold check_listed. destruct (alookup issuer m) as [es|].
  - destruct (find (fun e => Z.eqb e serial) es) as [e|] eqn:Ef.
    + apply find_some in Ef as [Hin He]. apply Z.eqb_eq in He. subst e.
      split; [intro H; inversion H; subst; eauto|]. intros [-> _]; reflexivity.
    + split; [discriminate|]. intros [_ [es' [E Hin]]]. inversion E; subst es'.
      pose proof (find_none _ _ Ef serial Hin) as Hn. cbn in Hn. rewrite Z.eqb_refl in Hn. discriminate.
  - split; [discriminate|]. intros [_ [es' [E _]]]. discriminate.
Qed.

Lemma in_values_of {V} (k : bytes) (kvs : list (bytes * V)) v : In v (values_of k kvs) <-> In (k, v) kvs.
Proof.
  unfold values_of. rewrite in_map_iff. split.
  - intros [[k' v'] [E Hin]]. cbn in E; subst v'. apply filter_In in Hin as [Hin Hk].
    cbn in Hk. apply bytes_eqb_eq in Hk. now subst.
  - intro Hin. exists (k, v). split; auto. apply filter_In. split; auto. cbn. apply bytes_eqb_refl.
Qed.

Lemma grouped_listed_iff {V} (kvs : list (bytes * V)) k v :
  (exists es, alookup k (fold_left (fun m kv => group_add (fst kv) (snd kv) m) kvs []) = Some es /\ In v es)
  <-> In (k, v) kvs.
Proof.
  rewrite alookup_group_fold. cbn [alookup]. rewrite <- in_values_of.
  destruct (values_of k kvs) as [|x l]; split.
  - intros [es [E _]]; discriminate.
  - intros [].
  - intros [es [E Hin]]. now inversion E; subst.
  - intro Hin. eauto.
Qed.

Lemma parse_all_in pc certs kvs kv :
  parse_all pc certs = Some kvs -> (In kv kvs <-> exists c, In c certs /\ pc c = Some kv).
Proof.
  revert kvs. induction certs as [|c r IH]; intros kvs H; cbn [parse_all] in H.
  - inversion H; subst. split; [intros []|intros [c [[] _]]].
  - destruct (pc c) as [kv0|] eqn:Ec; [|discriminate].
    destruct (parse_all pc r) as [kvs0|]; [|discriminate]. inversion H; subst; clear H.
    specialize (IH kvs0 eq_refl). cbn [In]. rewrite IH. split.
    + intros [->|[c' [Hin E]]]; [exists c; auto|exists c'; auto].
    + intros [c' [[->|Hin] E]]; [left; congruence|right; eauto].
Qed.

(* the store revokes exactly the (issuer, serial) pairs of the certificates it contains *)
Lemma sst_revoked_iff pc es after m issuer serial :
  Forall wf_sst_entry es -> parse_sst pc (encode_sst es after) = Some m ->
  (check_listed m issuer serial = Some serial <->
   exists blob, In (ECert blob) es /\ pc blob = Some (issuer, serial)).
Proof.
  intros Hwf H. rewrite sst_parse_encode in H by exact Hwf.
  destruct (parse_all pc (certs_of es)) as [kvs|] eqn:Ea; [|discriminate]. inversion H; subst m; clear H.
  rewrite check_listed_iff. split.
  - intros [_ Hex]. apply grouped_listed_iff in Hex.
    apply (parse_all_in pc _ _ _ Ea) in Hex as [c [Hin E]]. exists c. split; auto.
    unfold certs_of in Hin. apply in_flat_map in Hin as [e [He Hc]].
    destruct e; cbn in Hc; [contradiction|]. destruct Hc as [->|[]]. exact He.
  - intros [blob [Hin E]]. split; auto. apply grouped_listed_iff.
    apply (parse_all_in pc _ _ _ Ea). exists blob. split; auto.
    unfold certs_of. apply in_flat_map. exists (ECert blob). split; auto. now left.
Qed.

(* a certificate entry that does not parse makes the whole store fail (no nil dereference) *)
Lemma sst_bad_cert_fails pc es after blob :
  Forall wf_sst_entry es -> In (ECert blob) es -> pc blob = None ->
  parse_sst pc (encode_sst es after) = None.
Proof.
  intros Hwf Hin E. rewrite sst_parse_encode by exact Hwf.
  assert (Hc : In blob (certs_of es)).
  { unfold certs_of. apply in_flat_map. exists (ECert blob). split; auto. now left. }
  clear Hin Hwf. induction (certs_of es) as [|c r IH]; [contradiction|].
  cbn [parse_all]. destruct Hc as [->|Hc].
  - now rewrite E.
  - destruct (pc c); [|reflexivity]. specialize (IH Hc).
    destruct (parse_all pc r); [discriminate|reflexivity].
Qed.

(* ------------------------------------------------------------------ *)
(* OneCRL                                                              *)
(* ------------------------------------------------------------------ *)
Definition blocked_of (es : list oentry) : list (bytes * bytes) :=
  flat_map (fun e => match e with OBlocked s p => [(s, p)] | OListed _ _ => [] end) es.
Definition listed_of (es : list oentry) : list (bytes * N) :=
  flat_map (fun e => match e with OListed i s => [(i, s)] | OBlocked _ _ => [] end) es.

Lemma onecrl_build_spec es : forall c,
  onecrl_build es c =
  {| oc_blocked := oc_blocked c ++ blocked_of es;
     oc_issuers := fold_left (fun m kv => group_add (fst kv) (snd kv) m) (listed_of es) (oc_issuers c) |}.
Proof.
  induction es as [|e r IH]; intro c; cbn [onecrl_build blocked_of listed_of flat_map fold_left].
  - rewrite app_nil_r. now destruct c.
  - destruct e as [s p|i s]; rewrite IH; cbn [oc_blocked oc_issuers app fold_left fst snd].
    + now rewrite <- app_assoc.
    + reflexivity.
Qed.

Lemma parse_onecrl_spec rs c :
  parse_onecrl rs = Some c <->
  exists es, decode_records rs = Some es /\
             c = {| oc_blocked := blocked_of es;
                    oc_issuers := fold_left (fun m kv => group_add (fst kv) (snd kv) m) (listed_of es) [] |}.
Proof.
  unfold parse_onecrl. destruct (decode_records rs) as [es|]; split.
  - intro H; inversion H; subst. exists es. split; auto. now rewrite onecrl_build_spec.
  - intros [es' [E ->]]. inversion E; subst. now rewrite onecrl_build_spec.
  - discriminate.
  - intros [es' [E _]]; discriminate.
Qed.

(* Check against a parsed document: blocked by (subject, key hash) first, then (issuer, serial) *)
Lemma onecrl_check_key rs c subj kh issuer serial :
  parse_onecrl rs = Some c ->
  (check_onecrl c subj kh issuer serial = OByKey <->
   exists es, decode_records rs = Some es /\ In (OBlocked subj kh) es).
Proof.
  intro H. apply parse_onecrl_spec in H as [es [Ed ->]]. unfold check_onecrl. cbn [oc_blocked oc_issuers].
  destruct (existsb _ (blocked_of es)) eqn:Eb.
  - apply existsb_exists in Eb as [[s p] [Hin Hx]]. cbn in Hx. apply andb_prop in Hx as [H1 H2].
    apply bytes_eqb_eq in H1, H2; subst.
    split; [intros _|reflexivity]. exists es. split; auto.
    unfold blocked_of in Hin. apply in_flat_map in Hin as [e [He Hc]].
    destruct e; cbn in Hc; [|contradiction]. destruct Hc as [E|[]]. now inversion E; subst.
  - split.
    + destruct (alookup issuer _) as [l|]; [|discriminate]. destruct (find _ l); discriminate.
    + intros [es' [E Hin]]. rewrite Ed in E; inversion E; subst es'.
      assert (existsb (fun b => bytes_eqb (fst b) subj && bytes_eqb (snd b) kh) (blocked_of es) = true).
      { apply existsb_exists. exists (subj, kh). split.
        - unfold blocked_of. apply in_flat_map. exists (OBlocked subj kh). split; auto. now left.
        - cbn. now rewrite !bytes_eqb_refl. }
      congruence.
Qed.

Lemma onecrl_check_serial rs c subj kh issuer serial e :
  parse_onecrl rs = Some c ->
  check_onecrl c subj kh issuer serial = OBySerial e ->
  Z.of_N e = serial /\
  exists es, decode_records rs = Some es /\ In (OListed issuer e) es /\ ~ In (OBlocked subj kh) es.
Proof.
  intros H Hc.
  apply parse_onecrl_spec in H as [es [Ed ->]]. unfold check_onecrl in Hc. cbn [oc_blocked oc_issuers] in Hc.
  destruct (existsb _ (blocked_of es)) eqn:Eb; [discriminate|].
  destruct (alookup issuer _) as [l|] eqn:El; [|discriminate].
  destruct (find _ l) as [e'|] eqn:Ef; [|discriminate]. inversion Hc; subst e'.
  apply find_some in Ef as [Hin He]. apply Z.eqb_eq in He. split; auto.
  exists es. split; auto. split.
  - assert (Hl : In (issuer, e) (listed_of es)) by (apply grouped_listed_iff; eauto).
    unfold listed_of in Hl. apply in_flat_map in Hl as [x [Hx Hc']].
    destruct x; cbn in Hc'; [contradiction|]. destruct Hc' as [E|[]]. now inversion E; subst.
  - intro Hb.
    assert (X : existsb (fun b => bytes_eqb (fst b) subj && bytes_eqb (snd b) kh) (blocked_of es) = true).
    { apply existsb_exists. exists (subj, kh). split.
      - unfold blocked_of. apply in_flat_map. exists (OBlocked subj kh). split; auto. now left.
      - cbn. now rewrite !bytes_eqb_refl. }
    congruence.
Qed.

Lemma onecrl_check_listed rs c subj kh issuer e es :
  parse_onecrl rs = Some c -> decode_records rs = Some es ->
  In (OListed issuer e) es -> ~ In (OBlocked subj kh) es ->
  exists e', check_onecrl c subj kh issuer (Z.of_N e) = OBySerial e' /\ e' = e.
Proof.
  intros H Ed Hin Hnb. pose proof (onecrl_check_key rs c subj kh issuer (Z.of_N e) H) as Hk.
  apply parse_onecrl_spec in H as [es' [Ed' ->]]. rewrite Ed in Ed'; inversion Ed'; subst es'.
  unfold check_onecrl in *. cbn [oc_blocked oc_issuers] in *.
  destruct (existsb _ (blocked_of es)).
  - exfalso. apply Hnb. destruct Hk as [Hk _]. destruct (Hk eq_refl) as [es' [E Hb]].
    rewrite Ed in E; inversion E; now subst.
  - assert (Hl : In (issuer, e) (listed_of es)).
    { unfold listed_of. apply in_flat_map. exists (OListed issuer e). split; auto. now left. }
    apply grouped_listed_iff in Hl as [l [El Hil]]. rewrite El.
    destruct (find (fun x => Z.eqb (Z.of_N x) (Z.of_N e)) l) as [e'|] eqn:Ef.
    + apply find_some in Ef as [_ He]. apply Z.eqb_eq in He. exists e'. split; auto. lia.
    + pose proof (find_none _ _ Ef e Hil) as Hn. cbn in Hn. rewrite Z.eqb_refl in Hn. discriminate.
Qed.

(* a record that cannot be decoded makes the document fail *)
Lemma onecrl_bad_record_fails rs r : In r rs -> decode_record r = None -> parse_onecrl rs = None.
Proof.
  intros Hin E. unfold parse_onecrl.
  assert (X : decode_records rs = None).
  { induction rs as [|x rs IH]; [contradiction|]. cbn [decode_records]. destruct Hin as [->|Hin].
    - now rewrite E.
    - rewrite (IH Hin). destruct (decode_record x); reflexivity. }
  now rewrite X.
Qed.

(* ------------------------------------------------------------------ *)
(* non-vacuity                                                         *)
(* ------------------------------------------------------------------ *)
Lemma nonvacuous :
  let hdr := [123; 125] in
  let h := {| h_sequence := 7; h_numparents := 1; h_blocked := [[107]] |} in
  let json := fun b : bytes => if bytes_eqb b hdr then Some h else None in
  let hash := repeat 171 32 in
  let issuers := [(hash, [[1; 2]; []; [0; 3]])] in
  Forall wf_issuer issuers /\
  (exists s, parse_crlset json (encode_crlset hdr issuers) = Some s /\
             alookup (hex_encode hash) (cs_issuers s) = Some [258; 0; 3] /\
             check_crlset s 258 (hex_encode hash) = Some 258%Z /\
             check_crlset s 4 (hex_encode hash) = None /\
             check_crlset s 4 [107] = Some 4%Z) /\
  (let pc := fun b : bytes => match b with [i; s] => Some ([i], Z.of_N s) | _ => None end in
   let es := [EProp 5 1 [9; 9]; ECert [65; 1]; ECert [66; 2]; ECert [65; 3]] in
   Forall wf_sst_entry es /\
   exists m, parse_sst pc (encode_sst es [0; 0; 0; 0; 0; 0; 0; 0]) = Some m /\
             alookup [65] m = Some [1; 3]%Z /\ check_listed m [65] 3 = Some 3%Z /\ check_listed m [66] 3 = None).
Proof.
  cbv zeta. split; [|split].
  - repeat constructor; cbn; unfold wf_serial; cbn; lia.
  - eexists. split; [vm_compute; reflexivity|]. repeat split; vm_compute; reflexivity.
  - split.
    + repeat constructor; cbn; unfold two32; try lia; discriminate.
    + eexists. split; [vm_compute; reflexivity|]. repeat split; vm_compute; reflexivity.
Qed.

Lemma grouped_lookup (kvs : list (bytes * Z)) k :
  alookup k (fold_left (fun m kv => group_add (fst kv) (snd kv) m) kvs []) =
  match values_of k kvs with [] => None | l => Some l end.
Proof. exact (alookup_group_fold k kvs []). Qed.
