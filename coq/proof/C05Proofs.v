(* C05 — proofs about the CSR / CRL / revocation-list model (model/C05.v). *)
From Coq Require Import List NArith ZArith Bool Arith Lia Permutation.
From Verif Require Import Harness DerTree DerPrim.
From VerifGen Require Import C04_gen.
From VerifModel Require Import C04 C05.
From VerifProof Require Import C04Proofs C04Top.
Import ListNotations.
Local Open Scope N_scope.

(* ------------------------------------------------------------------ *)
(* shared pieces                                                        *)
Definition wf_exts (l : list ext) : bool := forallb (fun e => wf_oid (ext_id e)) l.

Lemma wf_exts_Forall l : wf_exts l = true -> Forall (fun e => wf_oid (ext_id e) = true) l.
Proof. unfold wf_exts. rewrite forallb_forall. intros H. now apply Forall_forall. Qed.

Definition spki_shape (bs : bytes) : Prop :=
  exists d alg bits rest, parse_all bs = Some d /\ d = Cons 0 16 (alg :: Prim 0 3 bits :: rest).

Lemma algid_built k req alg ad : signing_alg k req = Some alg -> build_algid alg = Some ad ->
  read_algid ad = Some alg /\ wfb ad = true /\ exists kids, ad = Cons 0 16 kids.
Proof.
  intros Ea Eb.
  destruct (read_build_algid alg ad (signing_alg_wf _ _ _ Ea) (fun p => signing_alg_params_wf _ _ _ p Ea) Eb) as [R W].
  split; [exact R|]. split; [exact W|].
  unfold build_algid in Eb. destruct (d_oid (fst alg)); [|discriminate]. injection Eb as <-. unfold seq. eauto.
Qed.

Lemma expected_sigalg_spec k req alg : signing_alg k req = Some alg -> sigalg_of alg = expected_sigalg k req.
Proof.
  intros E. unfold expected_sigalg. destruct (N.eqb_spec req 0) as [E0|N0].
  - rewrite E0 in E. now apply sigalg_default_roundtrip.
  - now apply sigalg_requested_roundtrip with (k := k).
Qed.

(* ------------------------------------------------------------------ *)
(* certificate requests                                                 *)
Record wf_csr (i : csr_input) : Prop := {
  wc_subject : wf_name (c_subject (ci_t i)) = true;
  wc_spki : spki_shape (ci_spki i);
  wc_ips : forallb ip_len_ok (c_ips (ci_t i)) = true;
  wc_extra : wf_exts (c_extra (ci_t i)) = true;
  (* extra extensions other than subjectAltName (one with that OID replaces the generated SAN) *)
  wc_extra_nosan : oid_in_exts oid_san (c_extra (ci_t i)) = false
}.

Lemma csr_sans_nosan l acc : oid_in_exts oid_san l = false -> csr_sans l acc = Some acc.
Proof.
  revert acc; induction l as [|e l IH]; intros acc H; [reflexivity|].
  unfold oid_in_exts in H. cbn [existsb] in H. apply orb_false_iff in H as [H1 H2].
  cbn [csr_sans]. replace (oid_eqb (ext_id e) oid_san) with false.
  - now apply IH.
  - symmetry. destruct (oid_eqb (ext_id e) oid_san) eqn:E; [|reflexivity].
    apply oid_eqb_eq in E. rewrite E in H1. now rewrite oid_eqb_refl in H1.
Qed.

Lemma wfb_build_san dns emails ips : wfb (build_san dns emails ips) = true.
Proof.
  unfold build_san, seq. cbn [wfb]. cbn. rewrite !forallb_app, !forallb_map. now rewrite !forallb_true.
Qed.

Theorem csr_roundtrip i tbs a sig :
  wf_csr i -> build_csr_tbs i = Some (tbs, a) ->
  let t := ci_t i in
  exists f,
    parse_csr (emit (seq [tbs; a; Prim 0 3 (0 :: sig)])) = Some f /\
    cf_version f = 0%Z /\
    cf_sigalg f = expected_sigalg (ci_key i) (c_sigalg t) /\
    name_rel (c_subject t) (cf_subject f) /\
    cf_exts f = csr_extensions t /\
    cf_dns f = c_dns t /\ cf_emails f = c_emails t /\ cf_ips f = map san_ip (c_ips t).
Proof.
  intros [Wsub (spki & salg & sbits & srest & Hspki & Hshape) Wips Wx Wns] Hb t.
  unfold build_csr_tbs in Hb. fold t in Hb, Wsub, Wips, Wx, Wns.
  destruct (signing_alg (ci_key i) (c_sigalg t)) as [alg|] eqn:Ealg; [|discriminate].
  destruct (build_algid alg) as [ad|] eqn:Ead; [|discriminate].
  destruct (build_name (c_subject t)) as [sub|] eqn:Esub; [|discriminate].
  rewrite Hspki in Hb.
  destruct (build_csr_attrs (csr_extensions t)) as [attrs|] eqn:Eattrs; [|discriminate].
  injection Hb as <- <-.
  destruct (algid_built _ _ _ _ Ealg Ead) as (Ralg & Walg & kids & ->).
  destruct (name_roundtrip _ _ Wsub Esub) as (sub' & Rsub & Psub & Wsubd).
  assert (Wspki : wfb spki = true) by (eapply parse_all_wf; eauto).
  (* the attributes *)
  assert (Wexts : Forall (fun e => wf_oid (ext_id e) = true) (csr_extensions t)).
  { unfold csr_extensions. apply Forall_app. split; [|now apply wf_exts_Forall].
    destruct (_ && _); constructor; [reflexivity|constructor]. }
  assert (Hattrs : read_csr_attrs attrs = Some (csr_extensions t) /\ forallb wfb attrs = true).
  { unfold build_csr_attrs in Eattrs. destruct (csr_extensions t) as [|e0 er] eqn:Ex.
    - injection Eattrs as <-. split; reflexivity.
    - destruct (d_oid oid_extreq) as [o|] eqn:Eo; [|discriminate].
      destruct (omap build_ext (e0 :: er)) as [es|] eqn:Ees; [|discriminate].
      injection Eattrs as <-.
      destruct (read_build_exts _ _ Ees Wexts) as [Res Wes].
      destruct (read_oid_elem_d_oid oid_extreq o eq_refl Eo) as [Ro Wo].
      apply d_oid_inv in Eo as (b & _ & ->). cbn [read_oid_elem] in Ro.
      unfold seq. cbn [read_csr_attrs]. rewrite Ro. rewrite oid_eqb_refl. rewrite Res, app_nil_r.
      split; [reflexivity|]. cbn [forallb wfb]. now rewrite Wes. }
  destruct Hattrs as [Rattrs Wattrs].
  (* the SANs *)
  assert (Hsans : csr_sans (csr_extensions t) ([], [], []) = Some (c_dns t, c_emails t, map san_ip (c_ips t))).
  { unfold csr_extensions. rewrite Wns. cbn [negb]. rewrite andb_true_r.
    destruct (nonempty (c_dns t) || nonempty (c_emails t) || nonempty (c_ips t)) eqn:En.
    - cbn [app csr_sans ext_id fst snd]. change (oid_eqb oid_san oid_san) with true. cbv iota.
      unfold read_san_strict. cbn [ext_val snd]. rewrite parse_all_emit by apply wfb_build_san.
      pose proof (san_roundtrip (c_dns t) (c_emails t) (c_ips t) Wips) as S.
      rewrite via_wf in S by apply wfb_build_san. rewrite S. now apply csr_sans_nosan.
    - cbn [app]. rewrite csr_sans_nosan by exact Wns.
      apply orb_false_iff in En as [En E3]. apply orb_false_iff in En as [E1 E2].
      apply nonempty_false in E1, E2, E3. now rewrite E1, E2, E3. }
  exists (mk_csr_fields 0%Z (sigalg_of alg) sub' (csr_extensions t) (c_dns t) (c_emails t) (map san_ip (c_ips t))).
  split.
  { unfold parse_csr. rewrite parse_all_emit.
    2:{ unfold seq, d_int. cbn [wfb forallb]. cbn [wfb forallb] in Walg. now rewrite Walg, Wsubd, Wspki, Wattrs. }
    subst spki. unfold seq, d_int. cbn [read_csr].
    change (dec_int64 (enc_int 0)) with (Some 0%Z). cbv iota.
    rewrite Ralg, Rsub, Rattrs, Hsans. reflexivity. }
  cbn [cf_version cf_sigalg cf_subject cf_exts cf_dns cf_emails cf_ips].
  repeat split; try reflexivity; try assumption.
  now apply expected_sigalg_spec.
Qed.

(* ------------------------------------------------------------------ *)
(* revoked entries                                                      *)
Definition wf_entry (e : entry) : bool :=
  let '(_, t, exts) := e in valid_civil t && wf_exts exts.

Lemma read_build_entry e d : wf_entry e = true -> build_entry e = Some d ->
  read_entry d = Some e /\ wfb d = true.
Proof.
  destruct e as [[serial t] exts]. cbn [wf_entry build_entry]. intros W.
  apply andb_prop in W as [Wt Wx].
  destruct (build_time t) as [td|] eqn:Et; [|discriminate].
  destruct (omap build_ext exts) as [es|] eqn:Ees; [|discriminate].
  intros E; injection E as <-.
  destruct (read_build_time _ _ Wt Et) as [Rt Wtd].
  destruct (read_build_exts _ _ Ees (wf_exts_Forall _ Wx)) as [Res Wes].
  unfold seq, d_int.
  destruct es as [|e0 er].
  - assert (exts = []) by (destruct exts; [reflexivity|]; cbn in Ees; destruct (build_ext e), (omap build_ext exts); discriminate).
    subst exts. cbn [app read_entry]. rewrite dec_enc_int, Rt. split; [reflexivity|].
    cbn [wfb forallb]. now rewrite Wtd.
  - cbn [app read_entry]. rewrite dec_enc_int, Rt, Res. split; [reflexivity|].
    cbn [wfb forallb] in *. now rewrite Wtd, Wes.
Qed.

Lemma read_build_entries l ds : forallb wf_entry l = true -> omap build_entry l = Some ds ->
  omap read_entry ds = Some l /\ forallb wfb ds = true.
Proof.
  intros W H. apply omap_inv in H. revert W. induction H as [|e d l' ds' He _ IH]; intros W; [split; reflexivity|].
  cbn [forallb] in W. apply andb_prop in W as [W1 W2]. destruct (IH W2) as [I1 I2].
  destruct (read_build_entry _ _ W1 He) as [R Wd]. cbn [omap forallb]. now rewrite R, I1, Wd, I2.
Qed.

Lemma build_time_is_time c d : build_time c = Some d -> is_time d = true.
Proof.
  unfold build_time, enc_time. destruct (_ && _); [intros E; injection E as <-; reflexivity|].
  destruct (9999 <? cy c); [discriminate|]. intros E; injection E as <-. reflexivity.
Qed.

(* ------------------------------------------------------------------ *)
(* legacy CRL                                                           *)
Record wf_crl (i : crl_input) : Prop := {
  wl_issuer : wf_name (l_issuer i) = true;
  wl_now : valid_civil (l_now i) = true;
  wl_expiry : valid_civil (l_expiry i) = true;
  wl_expiry_set : zero_time (l_expiry i) = false;
  wl_revoked : forallb wf_entry (l_revoked i) = true
}.

Definition crl_exts (i : crl_input) : list ext :=
  if nonempty (l_ski i) then [(oid_aki, false, emit (build_aki (l_ski i)))] else [].

Theorem crl_roundtrip i tbs a sig :
  wf_crl i -> build_crl_tbs i = Some (tbs, a) ->
  exists f,
    parse_crl (emit (seq [tbs; a; Prim 0 3 (0 :: sig)])) = Some f /\
    lf_version f = 1%Z /\
    lf_sigalg f = default_sigalg (l_key i) /\
    name_rel (l_issuer i) (lf_issuer f) /\
    lf_this f = l_now i /\ lf_next f = Some (l_expiry i) /\
    lf_revoked f = l_revoked i /\
    lf_exts f = crl_exts i.
Proof.
  intros [Wiss Wnow Wexp Wz Wrev] Hb.
  unfold build_crl_tbs in Hb.
  destruct (signing_alg (l_key i) 0) as [alg|] eqn:Ealg; [|discriminate].
  destruct (build_algid alg) as [ad|] eqn:Ead; [|discriminate].
  destruct (build_name (l_issuer i)) as [iss|] eqn:Eiss; [|discriminate].
  destruct (build_time (l_now i)) as [now|] eqn:Enow; [|discriminate].
  destruct (build_time (l_expiry i)) as [exp|] eqn:Eexp; [|discriminate].
  destruct (omap build_entry (l_revoked i)) as [rs|] eqn:Ers; [|discriminate].
  destruct (build_ext (oid_aki, false, emit (build_aki (l_ski i)))) as [aki|] eqn:Eaki; [|discriminate].
  injection Hb as <- <-.
  destruct (algid_built _ _ _ _ Ealg Ead) as (Ralg & Walg & kids & ->).
  destruct (name_roundtrip _ _ Wiss Eiss) as (iss' & Riss & Piss & Wissd).
  destruct (read_build_time _ _ Wnow Enow) as [Rnow Wnowd].
  destruct (read_build_time _ _ Wexp Eexp) as [Rexp Wexpd].
  destruct (read_build_entries _ _ Wrev Ers) as [Rrs Wrs].
  destruct (read_build_ext _ _ (eq_refl : wf_oid (ext_id (oid_aki, false, emit (build_aki (l_ski i)))) = true) Eaki) as [Raki Waki].
  pose proof (build_time_is_time _ _ Eexp) as Texp.
  exists (mk_crl_fields 1%Z (sigalg_of alg) iss' (l_now i) (Some (l_expiry i)) (l_revoked i) (crl_exts i)).
  split.
  { unfold parse_crl. rewrite parse_all_emit.
    2:{ unfold seq, d_int, opt_time_elem. rewrite Wz. cbn [wfb forallb app] in *.
        rewrite Walg, Wissd, Wnowd, Wexpd, Wrs. destruct (nonempty (l_ski i)); cbn [app forallb wfb]; rewrite ?Waki; reflexivity. }
    unfold seq, d_int, opt_time_elem. rewrite Wz. cbn [app read_crl_tbs].
    change (dec_int64 (enc_int 1)) with (Some 1%Z). cbv iota beta.
    rewrite Texp. rewrite Ralg, Riss, Rnow, Rexp, Rrs.
    unfold crl_exts. destruct (nonempty (l_ski i)); cbn [app omap]; [rewrite Raki|]; reflexivity. }
  cbn [lf_version lf_sigalg lf_issuer lf_this lf_next lf_revoked lf_exts].
  repeat split; try reflexivity; try assumption.
  now apply sigalg_default_roundtrip.
Qed.

(* ------------------------------------------------------------------ *)
(* revocation lists: the cryptobyte-based reader                         *)
Definition wf_exts_cb (l : list ext) : bool := forallb (fun e => wf_oid_cb (ext_id e)) l.
Definition wf_name_cb (n : name) : bool := forallb (forallb (fun a : atv => wf_oid_cb (fst a))) n.

Lemma read_oid_cb o d : wf_oid_cb o = true -> d_oid o = Some d -> exists b, d = Prim 0 6 b /\ dec_oid_cb b = Some o /\ dec_oid b = Some o.
Proof.
  intros W E. apply d_oid_inv in E as (b & Eb & ->). exists b. split; [reflexivity|]. split.
  - now apply dec_enc_oid_cb with (o := o).
  - apply dec_enc_oid with (o := o); [now apply wf_oid_cb_wf|exact Eb].
Qed.

Lemma read_ext_cb_build e d : wf_oid_cb (ext_id e) = true -> build_ext e = Some d ->
  read_ext_cb d = Some e /\ wfb d = true.
Proof.
  unfold build_ext. intros Hw. destruct (d_oid (ext_id e)) as [o|] eqn:Eo; [|discriminate].
  intros E; injection E as <-. destruct (read_oid_cb _ _ Hw Eo) as (b & -> & R & _).
  destruct e as [[id c] v]. cbn [ext_id ext_crit ext_val fst snd] in *.
  destruct c; unfold seq, d_bool, d_octets; cbn [app read_ext_cb enc_bool]; rewrite R; split; reflexivity.
Qed.

Lemma read_exts_cb_build l es : omap build_ext l = Some es -> wf_exts_cb l = true ->
  omap read_ext_cb es = Some l /\ forallb wfb es = true.
Proof.
  intros H. apply omap_inv in H. induction H as [|e d l' es' He _ IH]; intros W; [split; reflexivity|].
  unfold wf_exts_cb in W. cbn [forallb] in W. apply andb_prop in W as [W1 W2]. destruct (IH W2) as [I1 I2].
  destruct (read_ext_cb_build _ _ W1 He) as [R Wd]. cbn [omap forallb]. now rewrite R, I1, Wd, I2.
Qed.

(* names: on what issuance writes the two readers agree *)
Lemma read_atv_cb_build a d : wf_oid_cb (fst a) = true -> build_atv a = Some d -> read_atv_cb d = read_atv d.
Proof.
  unfold build_atv. intros W. destruct (d_oid (fst a)) as [o|] eqn:Eo; [|discriminate].
  intros E; injection E as <-. destruct (read_oid_cb _ _ W Eo) as (b & -> & R1 & R2).
  unfold seq. cbn [read_atv_cb read_atv]. now rewrite R1, R2.
Qed.

Lemma omap_ext {A B} (f g : A -> option B) l : Forall (fun x => f x = g x) l -> omap f l = omap g l.
Proof. induction 1 as [|x l H _ IH]; [reflexivity|]. cbn [omap]. now rewrite H, IH. Qed.

Lemma read_rdn_cb_build r d : forallb (fun a : atv => wf_oid_cb (fst a)) r = true -> build_rdn r = Some d ->
  read_rdn_cb d = read_rdn d.
Proof.
  unfold build_rdn. intros W. destruct (omap build_atv r) as [l|] eqn:El; [|discriminate].
  intros E; injection E as <-. cbn [read_rdn_cb read_rdn]. apply omap_ext.
  apply omap_inv in El.
  assert (Hl : Forall (fun dd => read_atv_cb dd = read_atv dd) l).
  { revert W. induction El as [|a dd r' l' Ha _ IH]; intros W; [constructor|].
    cbn [forallb] in W. apply andb_prop in W as [W1 W2]. constructor; [now apply read_atv_cb_build with (a := a)|now apply IH]. }
  apply Forall_forall. intros x Hx. rewrite Forall_forall in Hl. apply Hl.
  eapply Permutation_in; [apply Permutation_sym, sort_set_perm|exact Hx].
Qed.

Lemma read_name_cb_build n d : wf_name_cb n = true -> build_name n = Some d -> read_name_cb d = read_name d.
Proof.
  unfold build_name, wf_name_cb. intros W. destruct (omap build_rdn n) as [l|] eqn:El; [|discriminate].
  intros E; injection E as <-. unfold seq. cbn [read_name_cb read_name]. apply omap_ext.
  apply omap_inv in El. revert W. induction El as [|r dd n' l' Hr _ IH]; intros W; [constructor|].
  cbn [forallb] in W. apply andb_prop in W as [W1 W2]. constructor; [now apply read_rdn_cb_build with (r := r)|now apply IH].
Qed.

Lemma wf_name_cb_wf n : wf_name_cb n = true -> wf_name n = true.
Proof.
  unfold wf_name_cb, wf_name. intros H. rewrite forallb_forall in *. intros r Hr. specialize (H r Hr).
  rewrite forallb_forall in *. intros a Ha. apply wf_oid_cb_wf. now apply H.
Qed.

(* signature algorithms as the v2 reader maps them (finite: the regenerated table) *)
Definition row_ok2 (k : keykind) (r : row) : bool :=
  match default_alg k with
  | None => true
  | Some (o, p) =>
      if negb (r_pk r =? pubtype k) then true
      else if (r_hash r =? 0) && (match k with KEd => false | _ => true end) then true
      else if r_pss r then
        match parse_all (r_params r) with
        | Some t => (sigalg_of2 (r_oid r, Some t) =? r_algo r) && wf_oid_cb (r_oid r)
        | None => true
        end
      else (sigalg_of2 (r_oid r, p) =? r_algo r) && wf_oid_cb (r_oid r)
  end.

Lemma rows_ok2 : forallb (fun k => forallb (row_ok2 k) sigalg_table) kinds = true.
Proof. vm_compute. reflexivity. Qed.

Lemma default_all2 : forallb (fun k => match signing_alg k 0 with
                                       | Some a => (sigalg_of2 a =? default_sigalg k) && wf_oid_cb (fst a)
                                       | None => false end) kinds = true.
Proof. vm_compute. reflexivity. Qed.

Lemma signing_alg_kind k req alg : signing_alg k req = Some alg -> In k kinds.
Proof.
  unfold signing_alg. destruct (default_alg k) as [a|] eqn:Ed; [|discriminate]. intros _.
  destruct k as [| b |]; [cbn; tauto|eapply kec_kind; eauto|cbn; tauto].
Qed.

Lemma sigalg2_spec k req alg : signing_alg k req = Some alg ->
  sigalg_of2 alg = expected_sigalg k req /\ wf_oid_cb (fst alg) = true.
Proof.
  intros H. pose proof (signing_alg_kind _ _ _ H) as Hk. unfold expected_sigalg.
  destruct (N.eqb_spec req 0) as [E0|N0].
  - subst req. pose proof default_all2 as A. rewrite forallb_forall in A. specialize (A k Hk). rewrite H in A.
    apply andb_prop in A as [A1 A2]. apply N.eqb_eq in A1. now split.
  - unfold signing_alg in H. destruct (default_alg k) as [[o p]|] eqn:Ed; [|discriminate].
    destruct (N.eqb_spec req 0) as [|_]; [contradiction|].
    destruct (find (fun r : row => r_algo r =? req) sigalg_table) as [r|] eqn:F; [|discriminate].
    apply find_some in F as [Hin Ha]. apply N.eqb_eq in Ha.
    pose proof rows_ok2 as A. rewrite forallb_forall in A. specialize (A k Hk).
    rewrite forallb_forall in A. specialize (A r Hin). unfold row_ok2 in A. rewrite Ed in A.
    destruct (negb (r_pk r =? pubtype k)); [discriminate|].
    destruct ((r_hash r =? 0) && _); [discriminate|].
    destruct (r_pss r).
    + destruct (parse_all (r_params r)) as [t|]; [|discriminate].
      injection H as <-. apply andb_prop in A as [A1 A2]. apply N.eqb_eq in A1. cbn [fst]. split; congruence.
    + injection H as <-. apply andb_prop in A as [A1 A2]. apply N.eqb_eq in A1. cbn [fst]. split; congruence.
Qed.

Lemma read_algid_cb_build a d : wf_oid_cb (fst a) = true -> build_algid a = Some d -> read_algid_cb d = read_algid d.
Proof.
  unfold build_algid. intros W. destruct (d_oid (fst a)) as [o|] eqn:Eo; [|discriminate].
  intros E; injection E as <-. destruct (read_oid_cb _ _ W Eo) as (b & -> & R1 & R2).
  unfold seq. cbn [read_algid_cb read_algid]. now rewrite R1, R2.
Qed.

(* ---- reason codes ---- *)
Definition reason_out (r : option Z) : option Z :=
  match r with Some z => if (z =? 0)%Z then None else Some z | None => None end.

Lemma entry_reason_noreason l acc : (forall e, In e l -> oid_eqb (ext_id e) oid_reason = false) ->
  entry_reason l acc = Some acc.
Proof.
  revert acc. induction l as [|e l IH]; intros acc H; [reflexivity|].
  cbn [entry_reason]. rewrite (H e (or_introl eq_refl)). apply IH. intros x Hx. apply H. now right.
Qed.

Lemma entry_reason_app l1 l2 acc :
  entry_reason (l1 ++ l2) acc = match entry_reason l1 acc with Some a => entry_reason l2 a | None => None end.
Proof.
  revert acc. induction l1 as [|e l1 IH]; intros acc; [reflexivity|].
  cbn [app entry_reason]. destruct (oid_eqb (ext_id e) oid_reason); [|apply IH].
  destruct (obind _ dec_enum); [apply IH|reflexivity].
Qed.

(* zero or absent: no reasonCode extension; otherwise exactly the given code,
   whatever reasonCode extensions the caller supplied *)
Theorem reason_code_rule e : let '(_, _, reason, _) := e in
  (-2 ^ 55 < match reason with Some z => z | None => 0 end < 2 ^ 55)%Z ->
  entry_reason (rl_entry_exts e) None = Some (reason_out reason).
Proof.
  destruct e as [[[s t] reason] extra]. intros Hr. unfold rl_entry_exts. rewrite entry_reason_app.
  rewrite entry_reason_noreason.
  2:{ intros x Hx. apply filter_In in Hx as [_ Hx]. now apply negb_true_iff in Hx. }
  destruct reason as [z|]; [|reflexivity]. cbn [reason_out].
  destruct (Z.eqb_spec z 0); [reflexivity|].
  cbn [entry_reason ext_id ext_val fst snd]. change (oid_eqb oid_reason oid_reason) with true. cbv iota.
  rewrite first_elem_emit by reflexivity. cbn [obind d_enum dec_enum].
  assert (L : (length (enc_int z) <= 8)%nat).
  { destruct (Z.ltb_spec z 0).
    - (* negative: at most 8 bytes *)
      unfold enc_int. destruct (Z.eqb_spec z 0); [lia|]. destruct (Z.ltb_spec 0 z); [lia|].
      assert (Hb : (length (be_min (Z.to_N (- z - 1))) <= 7)%nat).
      { unfold be_min. rewrite rev_length. apply le_digits_length; [lia|].
        change (256 ^ N.of_nat 7) with (Z.to_N (2 ^ 56)). lia. }
      rewrite <- (map_length (fun b => 255 - b)) in Hb.
      destruct (map (fun b : N => 255 - b) (be_min (Z.to_N (- z - 1)))) as [|b0 tl]; [simpl; lia|].
      destruct (b0 <? 128); cbn [length] in *; lia.
    - apply enc_int_len_small. lia. }
  rewrite (dec_enc_int64 z L). reflexivity.
Qed.

Theorem user_reason_ext_replaced e :
  let '(_, _, reason, extra) := e in
  filter (fun x => oid_eqb (ext_id x) oid_reason) (rl_entry_exts e) =
  match reason_out reason with
  | Some z => [(oid_reason, false, emit (d_enum z))]
  | None => []
  end.
Proof.
  destruct e as [[[s t] reason] extra]. unfold rl_entry_exts. rewrite filter_app.
  assert (F : filter (fun x => oid_eqb (ext_id x) oid_reason)
                (filter (fun x => negb (oid_eqb (ext_id x) oid_reason)) extra) = []).
  { induction extra as [|x l IH]; [reflexivity|]. cbn [filter].
    destruct (oid_eqb (ext_id x) oid_reason) eqn:E; cbn [negb]; [exact IH|]. cbn [filter]. now rewrite E. }
  rewrite F. destruct reason as [z|]; [|reflexivity]. cbn [reason_out app].
  destruct (z =? 0)%Z; reflexivity.
Qed.

(* ------------------------------------------------------------------ *)
(* revocation lists                                                     *)
Definition expected_pentry (e : rl_entry) : rl_pentry :=
  let '(s, t, r, _) := e in (s, t, reason_out r, rl_entry_exts e).

Definition wf_rl_entry (e : rl_entry) : bool :=
  let '(_, t, r, x) := e in
  valid_civil t && wf_exts_cb x &&
  match r with Some z => (- 2 ^ 55 <? z)%Z && (z <? 2 ^ 55)%Z | None => true end.

Record wf_rl (i : rl_input) : Prop := {
  wr_issuer : wf_name_cb (r_issuer i) = true;
  wr_this : valid_civil (r_this i) = true;
  wr_next : valid_civil (r_next i) = true;
  wr_next_set : zero_time (r_next i) = false;
  wr_revoked : forallb wf_rl_entry (r_revoked i) = true;
  wr_extra : wf_exts_cb (r_extra i) = true;
  (* extra list extensions other than the two the writer generates *)
  wr_extra_other : forallb (fun e => negb (oid_eqb (ext_id e) oid_aki) && negb (oid_eqb (ext_id e) oid_crlnumber)) (r_extra i) = true
}.

Lemma wf_exts_cb_filter p l : wf_exts_cb l = true -> wf_exts_cb (filter p l) = true.
Proof.
  unfold wf_exts_cb. rewrite !forallb_forall. intros H x Hx. apply filter_In in Hx as [Hx _]. now apply H.
Qed.

Lemma wf_exts_cb_wf l : wf_exts_cb l = true -> wf_exts l = true.
Proof.
  unfold wf_exts_cb, wf_exts. rewrite !forallb_forall. intros H x Hx. apply wf_oid_cb_wf. now apply H.
Qed.

Lemma rl_entry_exts_wf e : wf_rl_entry e = true -> wf_exts_cb (rl_entry_exts e) = true.
Proof.
  destruct e as [[[s t] r] x]. cbn [wf_rl_entry]. intros W. apply andb_prop in W as [W _]. apply andb_prop in W as [_ Wx].
  unfold rl_entry_exts, wf_exts_cb. rewrite forallb_app. fold (wf_exts_cb (filter (fun x0 => negb (oid_eqb (ext_id x0) oid_reason)) x)).
  rewrite wf_exts_cb_filter by exact Wx. destruct r as [z|]; [|reflexivity]. destruct (z =? 0)%Z; reflexivity.
Qed.

Lemma read_rl_entry_build e d : wf_rl_entry e = true -> build_entry (rl_to_entry e) = Some d ->
  read_rl_entry d = Some (expected_pentry e) /\ wfb d = true.
Proof.
  intros W. pose proof (rl_entry_exts_wf e W) as Wx. pose proof (reason_code_rule e) as RR.
  destruct e as [[[s t] r] x]. cbn [rl_to_entry build_entry expected_pentry] in *.
  cbn [wf_rl_entry] in W. apply andb_prop in W as [W Wr]. apply andb_prop in W as [Wt _].
  destruct (build_time t) as [td|] eqn:Et; [|discriminate].
  destruct (omap build_ext (rl_entry_exts (s, t, r, x))) as [es|] eqn:Ees; [|discriminate].
  intros E; injection E as <-.
  destruct (read_build_time _ _ Wt Et) as [Rt Wtd].
  destruct (read_exts_cb_build _ _ Ees Wx) as [Res Wes].
  assert (Hr : entry_reason (rl_entry_exts (s, t, r, x)) None = Some (reason_out r)).
  { apply RR. destruct r as [z|]; [|lia]. apply andb_prop in Wr as [A B]. apply Z.ltb_lt in A, B. lia. }
  unfold seq, d_int. destruct es as [|e0 er].
  - assert (Hx : rl_entry_exts (s, t, r, x) = []).
    { destruct (rl_entry_exts (s, t, r, x)) as [|y l]; [reflexivity|].
      cbn in Ees. destruct (build_ext y), (omap build_ext l); discriminate. }
    rewrite Hx in *. cbn [app read_rl_entry]. rewrite dec_enc_int, Rt. cbn [entry_reason] in Hr.
    injection Hr as Hr. rewrite <- Hr. cbn [entry_reason]. split; [reflexivity|]. cbn [wfb forallb]. now rewrite Wtd.
  - cbn [app read_rl_entry]. rewrite dec_enc_int, Rt, Res, Hr. split; [reflexivity|].
    cbn [wfb forallb] in *. now rewrite Wtd, Wes.
Qed.

Lemma read_rl_entries_build l ds : forallb wf_rl_entry l = true -> omap build_entry (map rl_to_entry l) = Some ds ->
  omap read_rl_entry ds = Some (map expected_pentry l) /\ forallb wfb ds = true.
Proof.
  revert ds. induction l as [|e l IH]; intros ds W H.
  - cbn in H. injection H as <-. split; reflexivity.
  - cbn [forallb] in W. apply andb_prop in W as [W1 W2]. cbn [map omap] in H.
    destruct (build_entry (rl_to_entry e)) as [d|] eqn:Ed; [|discriminate].
    destruct (omap build_entry (map rl_to_entry l)) as [ds'|] eqn:El; [|discriminate].
    injection H as <-. destruct (IH ds' W2 eq_refl) as [I1 I2].
    destruct (read_rl_entry_build _ _ W1 Ed) as [R Wd]. cbn [omap map forallb]. now rewrite R, I1, Wd, I2.
Qed.

Lemma rl_list_exts_other l num aki :
  forallb (fun e => negb (oid_eqb (ext_id e) oid_aki) && negb (oid_eqb (ext_id e) oid_crlnumber)) l = true ->
  rl_list_exts l num aki = Some (num, aki).
Proof.
  revert num aki. induction l as [|e l IH]; intros num aki H; [reflexivity|].
  cbn [forallb] in H. apply andb_prop in H as [H1 H2]. apply andb_prop in H1 as [A B].
  apply negb_true_iff in A, B. cbn [rl_list_exts]. rewrite A, B. now apply IH.
Qed.

Definition rl_exts (i : rl_input) : list ext :=
  (oid_aki, false, emit (build_aki (r_issuer_ski i))) :: (oid_crlnumber, false, emit (d_int (r_number i))) :: r_extra i.

Theorem rl_roundtrip i tbs a sig rest :
  wf_rl i -> build_rl_tbs i = Some (tbs, a) ->
  exists f,
    parse_rl (emit (seq [tbs; a; Prim 0 3 (0 :: sig)]) ++ rest) = Some f /\
    rf_sigalg f = expected_sigalg (r_key i) (r_sigalg i) /\
    name_rel (r_issuer i) (rf_issuer f) /\
    rf_this f = r_this i /\ rf_next f = Some (r_next i) /\
    rf_revoked f = map expected_pentry (r_revoked i) /\
    rf_number f = Some (r_number i) /\
    rf_aki f = r_issuer_ski i /\
    rf_exts f = rl_exts i.
Proof.
  intros [Wiss Wthis Wnext Wz Wrev Wx Wxo] Hb.
  unfold build_rl_tbs in Hb.
  destruct (negb (r_issuer_crlsign i)); [discriminate|].
  destruct (negb (nonempty (r_issuer_ski i))); [discriminate|].
  destruct (civil_ltb (r_next i) (r_this i)); [discriminate|].
  destruct (signing_alg (r_key i) (r_sigalg i)) as [alg|] eqn:Ealg; [|discriminate].
  destruct (number_too_long (r_number i)); [discriminate|].
  destruct (build_algid alg) as [ad|] eqn:Ead; [|discriminate].
  destruct (build_name (r_issuer i)) as [iss|] eqn:Eiss; [|discriminate].
  destruct (build_time (r_this i)) as [this|] eqn:Ethis; [|discriminate].
  destruct (build_time (r_next i)) as [next|] eqn:Enext; [|discriminate].
  destruct (omap build_entry (map rl_to_entry (r_revoked i))) as [rs|] eqn:Ers; [|discriminate].
  fold (rl_exts i) in Hb.
  destruct (omap build_ext (rl_exts i)) as [es|] eqn:Ees; [|discriminate].
  injection Hb as <- <-.
  destruct (sigalg2_spec _ _ _ Ealg) as [Salg Walgo].
  destruct (algid_built _ _ _ _ Ealg Ead) as (Ralg & Walg & kids & Eshape).
  pose proof (read_algid_cb_build _ _ Walgo Ead) as Ralg2. rewrite Ralg in Ralg2. subst ad.
  destruct (name_roundtrip _ _ (wf_name_cb_wf _ Wiss) Eiss) as (iss' & Riss & Piss & Wissd).
  pose proof (read_name_cb_build _ _ Wiss Eiss) as Riss2. rewrite Riss in Riss2.
  destruct (read_build_time _ _ Wthis Ethis) as [Rthis Wthisd].
  destruct (read_build_time _ _ Wnext Enext) as [Rnext Wnextd].
  pose proof (build_time_is_time _ _ Enext) as Tnext.
  destruct (read_rl_entries_build _ _ Wrev Ers) as [Rrs Wrs].
  assert (Wexts : wf_exts_cb (rl_exts i) = true).
  { unfold rl_exts, wf_exts_cb. cbn [forallb ext_id fst]. fold (wf_exts_cb (r_extra i)). now rewrite Wx. }
  destruct (read_exts_cb_build _ _ Ees Wexts) as [Res Wes].
  assert (Hlist : rl_list_exts (rl_exts i) None [] = Some (Some (r_number i), r_issuer_ski i)).
  { unfold rl_exts. cbn [rl_list_exts ext_id ext_val fst snd].
    change (oid_eqb oid_aki oid_aki) with true. cbv iota.
    rewrite parse_all_emit by reflexivity. cbn [obind build_aki seq read_aki].
    change (oid_eqb oid_crlnumber oid_aki) with false. change (oid_eqb oid_crlnumber oid_crlnumber) with true. cbv iota.
    rewrite first_elem_emit by reflexivity. unfold d_int. rewrite dec_enc_int. now apply rl_list_exts_other. }
  exists (mk_rl_fields (sigalg_of2 alg) iss' (r_this i) (Some (r_next i)) (map expected_pentry (r_revoked i))
            (Some (r_number i)) (r_issuer_ski i) (rl_exts i)).
  split.
  { unfold parse_rl. rewrite parse_emit.
    2:{ unfold seq, d_int, opt_time_elem. rewrite Wz. cbn [wfb forallb app] in *. rewrite Walg, Wissd, Wthisd, Wnextd.
        destruct rs; cbn [app forallb wfb]; cbn [forallb] in Wrs; rewrite ?Wrs, Wes; reflexivity. }
    unfold seq, d_int, opt_time_elem. rewrite Wz. cbn [app read_rl].
    change (dec_int64 (enc_int 1)) with (Some 1%Z). cbn [option_eqb Z.eqb Pos.eqb negb].
    cbn [raw_bytes]. unfold bytes_eqb. rewrite (list_eqb_refl N.eqb N.eqb_refl). cbn [negb orb].
    rewrite Tnext, Ralg2, Riss2, Rthis, Rnext.
    destruct rs as [|r0 rr].
    - assert (Hnil : r_revoked i = []).
      { destruct (r_revoked i) as [|e l]; [reflexivity|]. cbn in Ers.
        destruct (build_entry (rl_to_entry e)), (omap build_entry (map rl_to_entry l)); discriminate. }
      rewrite Hnil. cbn [app map]. rewrite Res, Hlist. reflexivity.
    - cbn [app]. rewrite Rrs, Res, Hlist. reflexivity. }
  cbn [rf_sigalg rf_issuer rf_this rf_next rf_revoked rf_number rf_aki rf_exts].
  repeat split; try reflexivity; assumption.
Qed.

(* ------------------------------------------------------------------ *)
(* self-verification: the verifier is handed the algorithm the signer used
   (the signature scheme's correctness is the premise)                   *)
Section Sig.
  Variable sign : keykind -> N -> bytes -> bytes.
  Variable verify : keykind -> N -> bytes -> bytes -> bool.
  Hypothesis sign_verify : forall k alg msg, verify k alg msg (sign k alg msg) = true.

  Theorem csr_self_verifies i tbs a sig f :
    wf_csr i -> build_csr_tbs i = Some (tbs, a) ->
    parse_csr (emit (seq [tbs; a; Prim 0 3 (0 :: sig)])) = Some f ->
    verify (ci_key i) (cf_sigalg f) (emit tbs)
           (sign (ci_key i) (expected_sigalg (ci_key i) (c_sigalg (ci_t i))) (emit tbs)) = true.
  Proof.
    intros W E P. destruct (csr_roundtrip i tbs a sig W E) as (f' & P' & _ & Hs & _).
    rewrite P in P'. injection P' as <-. rewrite Hs. apply sign_verify.
  Qed.

  Theorem crl_verifies i tbs a sig f :
    wf_crl i -> build_crl_tbs i = Some (tbs, a) ->
    parse_crl (emit (seq [tbs; a; Prim 0 3 (0 :: sig)])) = Some f ->
    verify (l_key i) (lf_sigalg f) (emit tbs) (sign (l_key i) (default_sigalg (l_key i)) (emit tbs)) = true.
  Proof.
    intros W E P. destruct (crl_roundtrip i tbs a sig W E) as (f' & P' & _ & Hs & _).
    rewrite P in P'. injection P' as <-. rewrite Hs. apply sign_verify.
  Qed.

  Theorem rl_verifies i tbs a sig f :
    wf_rl i -> build_rl_tbs i = Some (tbs, a) ->
    parse_rl (emit (seq [tbs; a; Prim 0 3 (0 :: sig)])) = Some f ->
    verify (r_key i) (rf_sigalg f) (emit tbs)
           (sign (r_key i) (expected_sigalg (r_key i) (r_sigalg i)) (emit tbs)) = true.
  Proof.
    intros W E P. destruct (rl_roundtrip i tbs a sig [] W E) as (f' & P' & Hs & _).
    rewrite app_nil_r in P'. rewrite P in P'. injection P' as <-. rewrite Hs. apply sign_verify.
  Qed.
End Sig.

(* ------------------------------------------------------------------ *)
(* non-vacuity                                                          *)
Definition ex_csr : csr_input :=
  mk_csr_input KEd (spki 7)
    (mk_csr 0 ex_name [[97; 46; 98]] [] [v4_in_v6_prefix ++ [10; 1; 2; 3]] [([1; 2; 3; 4], true, [5; 0])]).

Lemma ex_csr_wf : wf_csr ex_csr.
Proof.
  constructor; try reflexivity. vm_compute. do 4 eexists. split; reflexivity.
Qed.

Definition ex_csr_check : bool :=
  match build_csr_tbs ex_csr with
  | Some (tbs, a) =>
      match parse_csr (emit (seq [tbs; a; Prim 0 3 [0; 1; 2]])) with
      | Some f => list_eqb bytes_eqb (cf_ips f) [[10; 1; 2; 3]] && (length (cf_exts f) =? 2)%nat && existsb ext_crit (cf_exts f)
      | None => false
      end
  | None => false
  end.
Lemma ex_csr_builds : ex_csr_check = true.
Proof. vm_compute. reflexivity. Qed.

Definition ex_rl : rl_input :=
  mk_rl_input KEd 0 ex_name [1; 2; 3; 4] true 5%Z (Build_civil 2026 1 2 3 4 5) (Build_civil 2050 2 2 3 4 5)
    [(2%Z, Build_civil 2025 12 1 0 0 0, Some 1%Z, [([2; 5; 29; 21], false, [10; 1; 5])]);
     (3%Z, Build_civil 2025 12 1 0 0 0, Some 0%Z, []);
     (4%Z, Build_civil 1949 12 1 0 0 0, None, [([2; 5; 29; 24], false, [1])])]
    [([1; 2; 3; 4], true, [0])].

Lemma ex_rl_wf : wf_rl ex_rl.
Proof. constructor; reflexivity. Qed.

Definition ex_rl_check : bool :=
  match build_rl_tbs ex_rl with
  | Some (tbs, a) =>
      match parse_rl (emit (seq [tbs; a; Prim 0 3 [0; 1; 2]])) with
      | Some f =>
          list_eqb (option_eqb Z.eqb) (map (fun e : rl_pentry => snd (fst e)) (rf_revoked f)) [Some 1%Z; None; None] &&
          bytes_eqb (rf_aki f) [1; 2; 3; 4] && option_eqb Z.eqb (rf_number f) (Some 5%Z)
      | None => false
      end
  | None => false
  end.
Lemma ex_rl_builds : ex_rl_check = true.
Proof. vm_compute. reflexivity. Qed.

Definition ex_crl : crl_input :=
  mk_crl_input (KEC 384) ex_name [9; 9] (Build_civil 2026 1 2 3 4 5) (Build_civil 2050 2 2 3 4 5)
    [(2%Z, Build_civil 2025 12 1 0 0 0, []); ((-5)%Z, Build_civil 2051 12 1 0 0 0, [([1; 2; 3], true, [7])])].

Lemma ex_crl_wf : wf_crl ex_crl.
Proof. constructor; reflexivity. Qed.

Definition ex_crl_check : bool :=
  match build_crl_tbs ex_crl with
  | Some (tbs, a) =>
      match parse_crl (emit (seq [tbs; a; Prim 0 3 [0; 1; 2]])) with
      | Some f => (length (lf_revoked f) =? 2)%nat && (lf_sigalg f =? 11) && (length (lf_exts f) =? 1)%nat
      | None => false
      end
  | None => false
  end.
Lemma ex_crl_builds : ex_crl_check = true.
Proof. vm_compute. reflexivity. Qed.
