(* C11 (asynchronous part) — every interleaving of producer and consumer over a
   channel of any capacity >= 1 delivers exactly the produced list, in order,
   and ends with the channel closed. *)
From Coq Require Import List Arith Bool Lia.
From VerifModel Require Import C11Async.
Import ListNotations.

Section Proofs.
  Variable A : Type.
  Notation st := (st A).

  (* executions in which every listed label is enabled (a trace of the LTS) *)
  Inductive trace (cap : nat) : st -> list label -> st -> Prop :=
  | t_nil s : trace cap s [] s
  | t_cons s l s' ls s'' : step cap s l = Some s' -> trace cap s' ls s'' -> trace cap s (l :: ls) s''.

  Definition Inv (items : list A) (cap : nat) (s : st) : Prop :=
    got s ++ buf s ++ todo s = items /\
    length (buf s) <= cap /\
    (closed s = true -> todo s = []) /\
    (fin s = true -> closed s = true /\ buf s = []).

  Lemma step_inv items cap s l s' : Inv items cap s -> step cap s l = Some s' -> Inv items cap s'.
  Proof.
    intros [H1 [H2 [H3 H4]]] Hs. destruct s as [td bf cl gt fn]. simpl in *.
    destruct l; simpl in Hs.
    - destruct td as [|x r]; [discriminate|].
      destruct (Nat.ltb (length bf) cap) eqn:E; [|discriminate]. injection Hs as <-.
      apply Nat.ltb_lt in E. unfold Inv; simpl.
      split; [rewrite <- H1; rewrite <- !app_assoc; reflexivity|].
      split; [rewrite app_length; simpl; lia|].
      split; [intros Hc; specialize (H3 Hc); discriminate|].
      intros Hf; destruct (H4 Hf) as [Hc _]; specialize (H3 Hc); discriminate.
    - destruct td; [|discriminate]. destruct cl; [discriminate|]. injection Hs as <-.
      unfold Inv; simpl.
      split; [exact H1|]. split; [exact H2|]. split; [reflexivity|].
      intros Hf; destruct (H4 Hf); discriminate.
    - destruct fn; [discriminate|]. destruct bf as [|x b]; [discriminate|]. injection Hs as <-.
      unfold Inv; simpl in *.
      split; [rewrite <- H1; rewrite <- !app_assoc; reflexivity|].
      split; [lia|]. split; [exact H3|]. discriminate.
    - destruct fn; [discriminate|]. destruct bf; [|discriminate]. destruct cl; [|discriminate].
      injection Hs as <-. unfold Inv; simpl in *.
      split; [exact H1|]. split; [lia|]. split; [exact H3|]. intros Hx. split; reflexivity.
  Qed.

  Lemma init_inv items cap : Inv items cap (init items).
  Proof. unfold Inv, init; simpl. repeat split; try discriminate; try lia. Qed.

  Lemma trace_inv items cap s ls s' : Inv items cap s -> trace cap s ls s' -> Inv items cap s'.
  Proof. intros HI Ht. induction Ht; [assumption|]. apply IHHt. eapply step_inv; eauto. Qed.

  (* every step taken strictly decreases the measure by one or ... exactly one *)
  Lemma step_measure cap (s : st) l s' : step cap s l = Some s' -> S (measure s') = measure s.
  Proof.
    destruct s as [td bf cl gt fn]. unfold measure. destruct l; simpl; intros Hs.
    - destruct td as [|x r]; [discriminate|]. destruct (Nat.ltb (length bf) cap); [|discriminate].
      inversion Hs; subst; simpl. rewrite app_length. simpl. lia.
    - destruct td; [|discriminate]. destruct cl; [discriminate|]. inversion Hs; subst; simpl. lia.
    - destruct fn; [discriminate|]. destruct bf; [discriminate|]. inversion Hs; subst; simpl. lia.
    - destruct fn; [discriminate|]. destruct bf; [|discriminate]. destruct cl; [|discriminate].
      inversion Hs; subst; simpl. lia.
  Qed.

  Lemma trace_measure cap (s : st) ls s' : trace cap s ls s' -> length ls + measure s' = measure s.
  Proof.
    intros Ht. induction Ht; simpl; [reflexivity|]. apply step_measure in H. lia.
  Qed.

  (* no deadlock: while the consumer has not finished, some goroutine can move *)
  Lemma progress items cap s : 1 <= cap -> Inv items cap s -> fin s = false ->
    exists l s', step cap s l = Some s'.
  Proof.
    intros Hcap [H1 [H2 [H3 H4]]] Hf. destruct s as [td bf cl gt fn]. simpl in *. subst fn.
    destruct bf as [|x b].
    - destruct cl.
      + exists Finish. eexists. simpl. reflexivity.
      + destruct td as [|y r].
        * exists Close. eexists. simpl. reflexivity.
        * exists Send. eexists. simpl. assert (E : Nat.ltb 0 cap = true) by (apply Nat.ltb_lt; lia).
          rewrite E. reflexivity.
    - exists Recv. eexists. simpl. reflexivity.
  Qed.

  (* a state in which nothing is enabled is the final state: everything delivered, channel closed *)
  Lemma stuck_is_final items cap s : 1 <= cap -> Inv items cap s ->
    (forall l, step cap s l = None) ->
    got s = items /\ closed s = true /\ fin s = true /\ buf s = [] /\ todo s = [].
  Proof.
    intros Hcap HI Hstuck. destruct (fin s) eqn:Hf.
    - destruct HI as [H1 [H2 [H3 H4]]]. destruct (H4 Hf) as [Hc Hb]. specialize (H3 Hc).
      rewrite Hb, H3 in H1. simpl in H1. rewrite app_nil_r in H1. tauto.
    - destruct (progress items cap s Hcap HI Hf) as [l [s' Hs]]. rewrite Hstuck in Hs. discriminate.
  Qed.

  Theorem async_delivers_same items cap ls s :
    1 <= cap -> trace cap (init items) ls s ->
    (* safety, at every point of every interleaving *)
    (exists rest, got s ++ rest = items) /\
    (fin s = true -> got s = items /\ closed s = true) /\
    (* bounded: at most 2|items| + 2 steps can ever be taken *)
    length ls <= 2 * length items + 2 /\
    (* liveness: not finished -> some goroutine is enabled; nothing enabled -> finished with everything *)
    (fin s = false -> exists l s', step cap s l = Some s') /\
    ((forall l, step cap s l = None) -> got s = items /\ closed s = true /\ fin s = true).
  Proof.
    intros Hcap Ht. pose proof (trace_inv items cap _ _ _ (init_inv items cap) Ht) as HI.
    pose proof (trace_measure _ _ _ _ Ht) as Hm.
    split; [|split; [|split; [|split]]].
    - destruct HI as [H1 _]. exists (buf s ++ todo s). exact H1.
    - intros Hf. destruct HI as [H1 [H2 [H3 H4]]]. destruct (H4 Hf) as [Hc Hb]. specialize (H3 Hc).
      rewrite Hb, H3 in H1. simpl in H1. rewrite app_nil_r in H1. tauto.
    - unfold measure, init in Hm. simpl in Hm. lia.
    - intros Hf. now apply (progress items cap).
    - intros Hstuck. destruct (stuck_is_final items cap s Hcap HI Hstuck) as [a [b [c _]]]. tauto.
  Qed.

  (* the scheduler form: whatever schedule is run (blocked labels are skipped),
     the result is reachable by a trace, so the statements above apply to it *)
  Lemma exec_trace cap sched : forall s : st, exists ls, trace cap s ls (exec cap s sched).
  Proof.
    induction sched as [|l r IH]; intros s; simpl.
    - exists []. constructor.
    - destruct (step cap s l) eqn:E.
      + destruct (IH s0) as [ls Hl]. exists (l :: ls). econstructor; eauto.
      + apply IH.
  Qed.

  Theorem async_any_schedule (items : list A) cap sched :
    1 <= cap ->
    let s := exec cap (init items) sched in
    (exists rest, got s ++ rest = items) /\
    (fin s = true -> got s = items /\ closed s = true) /\
    (fin s = false -> exists l s', step cap s l = Some s').
  Proof.
    intros Hcap s. destruct (exec_trace cap sched (init items)) as [ls Ht].
    destruct (async_delivers_same items cap ls _ Hcap Ht) as [a [b [_ [d _]]]]. tauto.
  Qed.
End Proofs.
