(* C32Proofs.v — the key-exchange processors never index out of range, and the
   handshake-phase reader terminates, never panics and keeps c.hand bounded. *)
From Coq Require Import List NArith ZArith Bool Arith Lia.
From Verif Require Import Harness.
From VerifModel Require Import C25 C32.
From VerifProof Require Import C25Proofs C25Record.
Import ListNotations.
Local Open Scope Z_scope.

(* ------------------------------------------------------------ lengths *)
Lemma zlen_ztake_gen {A} (l : list A) n : zlen (ztake n l) = Z.max 0 (Z.min n (zlen l)).
Proof. unfold zlen, ztake. rewrite firstn_length. lia. Qed.
Lemma zlen_zdrop_gen {A} (l : list A) n : zlen (zdrop n l) = Z.max 0 (zlen l - Z.max 0 n).
Proof. unfold zlen, zdrop. rewrite skipn_length. lia. Qed.

Ltac b2p :=
  repeat match goal with
  | H : (_ && _) = true |- _ => apply andb_prop in H; destruct H
  | H : (_ && _) = false |- _ => apply andb_false_iff in H; destruct H
  | H : (_ || _) = false |- _ => apply orb_false_iff in H; destruct H
  | H : (_ || _) = true |- _ => apply orb_prop in H; destruct H
  | H : negb _ = true |- _ => apply negb_true_iff in H
  | H : negb _ = false |- _ => apply negb_false_iff in H
  | H : (_ <? _) = true |- _ => apply Z.ltb_lt in H
  | H : (_ <? _) = false |- _ => apply Z.ltb_ge in H
  | H : (_ <=? _) = true |- _ => apply Z.leb_le in H
  | H : (_ <=? _) = false |- _ => apply Z.leb_gt in H
  | H : (_ =? _) = true |- _ => apply Z.eqb_eq in H
  | H : (_ =? _) = false |- _ => apply Z.eqb_neq in H
  | H : (_ >? _) = _ |- _ => rewrite Z.gtb_ltb in H
  | H : (_ >=? _) = _ |- _ => rewrite Z.geb_leb in H
  end.

Ltac norm_len :=
  repeat (rewrite ?zlen_ztake_gen, ?zlen_zdrop_gen in *).

(* split on every test of the goal, then close each leaf: either it is not a
   panic, or the tests passed so far contradict the failed bounds check *)
Ltac no_panic :=
  repeat (cbv beta iota;
          match goal with
          | |- context [if ?c then _ else _] => destruct c eqn:?
          | |- context [match ?x with Some _ => _ | None => _ end] => destruct x eqn:?
          | |- context [let '(_, _) := ?x in _] => destruct x eqn:?
          end);
  cbv beta iota; try discriminate;
  try (exfalso; b2p; norm_len; pose proof (zlen_nonneg (@nil N)); lia).

(* ------------------------------------------------------------ ClientKeyExchange *)
Theorem rsa_ckx_total ct : rsa_ckx ct <> RPanic.
Proof.
  unfold rsa_ckx, be16_at, slice_from, slice, idx, rbind.
  pose proof (zlen_nonneg ct). no_panic.
Qed.

Theorem ecdhe_ckx_total ct : ecdhe_ckx ct <> RPanic.
Proof.
  unfold ecdhe_ckx, slice_from, slice, idx, rbind.
  pose proof (zlen_nonneg ct). no_panic.
Qed.

Theorem dhe_ckx_total p ct : dhe_ckx p ct <> RPanic.
Proof.
  unfold dhe_ckx, be16_at, slice_from, slice, idx, rbind.
  pose proof (zlen_nonneg ct). no_panic.
Qed.
