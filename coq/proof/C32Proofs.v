(* C32Proofs.v — the key-exchange processors never index out of range, and the
   handshake-phase reader terminates, never panics and keeps c.hand bounded. *)
From Coq Require Import List NArith ZArith Bool Arith Lia.
From Verif Require Import Harness.
From VerifModel Require Import C25 C32.
From VerifProof Require Import C25Proofs C25Record.
Import ListNotations.
Local Open Scope Z_scope.

(* ------------------------------------------------------------ lengths *)
Lemma zlen_ztake_gen {A} (l : list A) n : zlen (ztake n l) = Z.max 0 (Z.min n (zlen l)).
Proof. unfold zlen, ztake. rewrite firstn_length. lia. Qed.
Lemma zlen_zdrop_gen {A} (l : list A) n : zlen (zdrop n l) = Z.max 0 (zlen l - Z.max 0 n).
Proof. unfold zlen, zdrop. rewrite skipn_length. lia. Qed.

Ltac b2p :=
  repeat match goal with
  | H : (_ && _) = true |- _ => apply andb_prop in H; destruct H
  | H : (_ && _) = false |- _ => apply andb_false_iff in H; destruct H
  | H : (_ || _) = false |- _ => apply orb_false_iff in H; destruct H
  | H : (_ || _) = true |- _ => apply orb_prop in H; destruct H
  | H : negb _ = true |- _ => apply negb_true_iff in H
  | H : negb _ = false |- _ => apply negb_false_iff in H
  | H : (_ <? _) = true |- _ => apply Z.ltb_lt in H
  | H : (_ <? _) = false |- _ => apply Z.ltb_ge in H
  | H : (_ <=? _) = true |- _ => apply Z.leb_le in H
  | H : (_ <=? _) = false |- _ => apply Z.leb_gt in H
  | H : (_ =? _) = true |- _ => apply Z.eqb_eq in H
  | H : (_ =? _) = false |- _ => apply Z.eqb_neq in H
  | H : (_ >? _) = _ |- _ => rewrite Z.gtb_ltb in H
  | H : (_ >=? _) = _ |- _ => rewrite Z.geb_leb in H
  end.

Ltac norm_len :=
  repeat (rewrite ?zlen_ztake_gen, ?zlen_zdrop_gen in *).

(* split on every test of the goal, then close each leaf: either it is not a
   panic, or the tests passed so far contradict the failed bounds check *)
Ltac no_panic :=
  repeat (cbv beta iota;
          match goal with
          | |- context [if ?c then _ else _] => destruct c eqn:?
          | |- context [match ?x with Some _ => _ | None => _ end] => destruct x eqn:?
          | |- context [let '(_, _) := ?x in _] => destruct x eqn:?
          end);
  cbv beta iota; try discriminate;
  try (exfalso; b2p; norm_len; pose proof (zlen_nonneg (@nil N)); lia).

(* ------------------------------------------------------------ ClientKeyExchange *)
Theorem rsa_ckx_total ct : rsa_ckx ct <> RPanic.
Proof.
  unfold rsa_ckx, be16_at, slice_from, slice, idx, rbind.
  pose proof (zlen_nonneg ct). no_panic.
Qed.

Theorem ecdhe_ckx_total ct : ecdhe_ckx ct <> RPanic.
Proof.
  unfold ecdhe_ckx, slice_from, slice, idx, rbind.
  pose proof (zlen_nonneg ct). no_panic.
Qed.

Theorem dhe_ckx_total p ct : dhe_ckx p ct <> RPanic.
Proof.
  unfold dhe_ckx, be16_at, slice_from, slice, idx, rbind.
  pose proof (zlen_nonneg ct). no_panic.
Qed.

(* ------------------------------------------------------------ ServerKeyExchange *)
Theorem ecdhe_skx_total tls12 is_rsa cert_rsa algs pok key :
  ecdhe_skx tls12 is_rsa cert_rsa algs pok key <> RPanic.
Proof.
  unfold ecdhe_skx, be16_at, slice_from, slice_to, slice, idx, rbind.
  pose proof (zlen_nonneg key). no_panic.
Qed.

Theorem ecdhe_skx_view_total tls12 is_rsa cert_rsa algs pok key :
  ecdhe_skx_view tls12 is_rsa cert_rsa algs pok key <> RPanic.
Proof.
  unfold ecdhe_skx_view.
  pose proof (ecdhe_skx_total tls12 is_rsa cert_rsa algs pok key) as Ht.
  destruct (ecdhe_skx tls12 is_rsa cert_rsa algs pok key) as [o|c|] eqn:E; try discriminate; [|exfalso; apply Ht; reflexivity].
  (* an error after the structural prefix: the curve bytes were readable *)
  unfold ecdhe_skx in E.
  destruct (zlen key <? 4) eqn:L; [discriminate|]. apply Z.ltb_ge in L.
  unfold be16_at, idx, rbind.
  replace ((0 <=? 1) && (1 <? zlen key)) with true by (symmetry; apply andb_true_intro; split; [reflexivity|apply Z.ltb_lt; lia]).
  replace ((0 <=? 1 + 1) && (1 + 1 <? zlen key)) with true by (symmetry; apply andb_true_intro; split; [reflexivity|apply Z.ltb_lt; lia]).
  discriminate.
Qed.

Theorem verify_params_total tls12 sig_type sah sig : verify_params tls12 sig_type sah sig <> RPanic.
Proof.
  unfold verify_params, be16_at, slice_from, slice, idx, rbind.
  pose proof (zlen_nonneg sig). no_panic.
Qed.

Lemma read_u16_bytes_total k : read_u16_bytes k <> RPanic.
Proof.
  unfold read_u16_bytes, be16_at, slice_from, slice_to, slice, idx, rbind.
  pose proof (zlen_nonneg k). no_panic.
Qed.

Lemma read_u16_bytes_len k v r : read_u16_bytes k = ROk (v, r) -> zlen r <= zlen k.
Proof.
  unfold read_u16_bytes, be16_at, slice_from, slice_to, slice, idx, rbind.
  pose proof (zlen_nonneg k).
  repeat (cbv beta iota;
          match goal with
          | |- context [if ?c then _ else _] => destruct c eqn:?
          end); cbv beta iota; try discriminate.
  intro E. injection E as _ <-. norm_len. lia.
Qed.

Theorem dhe_skx_total tls12 sig_type sah skip key : dhe_skx tls12 sig_type sah skip key <> RPanic.
Proof.
  unfold dhe_skx.
  destruct (read_u16_bytes key) as [[p k1]|c|] eqn:E1; try discriminate;
    [|exact (fun _ => read_u16_bytes_total key E1)].
  destruct (read_u16_bytes k1) as [[g k2]|c|] eqn:E2; try discriminate;
    [|exact (fun _ => read_u16_bytes_total k1 E2)].
  destruct (read_u16_bytes k2) as [[y sig]|c|] eqn:E3; try discriminate;
    [|exact (fun _ => read_u16_bytes_total k2 E3)].
  destruct ((unbe y =? 0)%N || (unbe p <=? unbe y)%N); [discriminate|].
  pose proof (read_u16_bytes_len _ _ _ E1). pose proof (read_u16_bytes_len _ _ _ E2).
  pose proof (read_u16_bytes_len _ _ _ E3). pose proof (zlen_nonneg sig).
  unfold slice_to, slice.
  replace ((0 <=? 0) && (0 <=? zlen key - zlen sig) && (zlen key - zlen sig <=? zlen key)) with true.
  - pose proof (verify_params_total tls12 sig_type sah sig) as Hv.
    destruct (verify_params tls12 sig_type sah sig); try discriminate. exfalso; apply Hv; reflexivity.
  - symmetry. repeat (apply andb_true_intro; split); try reflexivity; apply Z.leb_le; lia.
Qed.

(* ------------------------------------------------------------ decrypt does not panic *)
Section Reader.
  Variable stream : Z -> bytes -> bytes.
  Variable cbc_dec : bytes -> bytes -> bytes.
  Variable aopen : bytes -> bytes -> bytes -> option bytes.
  Variable mac : bytes -> bytes.
  Notation dec := (half_decrypt stream cbc_dec aopen mac).
  Notation rroc' := (rroc stream cbc_dec aopen mac).
  Notation fill' := (fill_hand stream cbc_dec aopen mac).
  Notation rxrec := (rx_record32 stream cbc_dec aopen mac).

  (* the only panics of decrypt: a record shorter than its header (never passed
     by the reader) and the sequence-number wrap after 2^64 - 1 records *)
  Theorem decrypt_no_panic st rec :
    5 <= zlen rec -> inc_seq (seqno st) <> None -> dec st rec <> Panic.
  Proof.
    intros Hl Hs. unfold half_decrypt, mac_check.
    replace (zlen rec <? 5) with false by (symmetry; apply Z.ltb_ge; lia).
    destruct (inc_seq (seqno st)) as [s1|] eqn:Es; [|contradiction].
    destruct st as [v k s iv sp]. cbn [knd version seqno civ spos] in *.
    destruct k; cbn [seqno]; rewrite ?Es;
      repeat (cbv beta iota zeta;
              match goal with
              | |- context [if ?c then _ else _] => destruct c eqn:?
              | |- context [match aopen ?a ?b ?c with _ => _ end] => destruct (aopen a b c)
              | |- context [match tls13_inner ?a ?b with _ => _ end] => destruct (tls13_inner a b) as [[? ?]| |] eqn:?
              | |- context [let '(_, _) := ?x in _] => destruct x
              end); cbv beta iota zeta; try discriminate;
      try (exfalso; match goal with H : tls13_inner _ _ = Panic |- _ =>
             unfold tls13_inner in H;
             repeat match type of H with
                    | (if ?c then _ else _) = _ => destruct c
                    | match ?x with _ => _ end = _ => destruct x
                    end; discriminate end).
  Qed.

  (* ---------------------------------------------------------- one readRecordOrCCS *)
  Lemma rx_record32_data c buf typ data st' rest :
    rxrec c buf = RxRec typ data st' rest -> zlen data <= 16384.
  Proof.
    unfold rx_record32, rx_decrypt.
    destruct (zlen buf <? 5); [discriminate|].
    destruct (rx_header32 c buf); [|discriminate].
    destruct (zlen buf <? 5 + z); [discriminate|].
    destruct (dec (rc_st c) (ztake (5 + z) buf)) as [[[[d t] s] cl]| |]; try discriminate.
    unfold max_plaintext. destruct (Z.gtb_spec (zlen d) 16384); [discriminate|].
    intro Hq. injection Hq as _ <- _ _. lia.
  Qed.

  Lemma rroc_spec fuel : forall expect c buf c' rest d,
    0 <= rc_retry c ->
    rroc' fuel expect c buf = RROk c' rest d ->
    0 <= rc_retry c' /\
    zlen (rc_hand c) <= zlen (rc_hand c') <= zlen (rc_hand c) + 16384 /\
    (expect = false ->
       (zlen (rc_hand c) < zlen (rc_hand c') /\ rc_pending c' = false) \/
       (rc_hand c' = rc_hand c /\ rc_pending c' = true)).
  Proof.
    induction fuel as [|f IH]; intros expect c buf c' rest d Hr H; [discriminate|].
    cbn [rroc] in H.
    destruct (rc_pending c); [discriminate|].
    destruct (rxrec c buf) as [typ data st' rest0|e] eqn:Erx; [|discriminate].
    pose proof (rx_record32_data _ _ _ _ _ _ Erx) as Hd.
    pose proof (zlen_nonneg data) as Hd0.
    set (retry1 := if negb (typ =? 21)%N && negb (typ =? 20)%N && (0 <? zlen data) then 0 else rc_retry c) in *.
    assert (Hr1 : 0 <= retry1) by (subst retry1; destruct (negb (typ =? 21)%N && negb (typ =? 20)%N && (0 <? zlen data)); lia).
    assert (Hagain : forall c1 rest1 d1,
               rroc' f expect (with_read c st' (rc_hand c) (retry1 + 1) false) rest0 = RROk c1 rest1 d1 ->
               0 <= rc_retry c1 /\
               zlen (rc_hand c) <= zlen (rc_hand c1) <= zlen (rc_hand c) + 16384 /\
               (expect = false ->
                  (zlen (rc_hand c) < zlen (rc_hand c1) /\ rc_pending c1 = false) \/
                  (rc_hand c1 = rc_hand c /\ rc_pending c1 = true))).
    { intros c1 rest1 d1 H1. apply IH in H1; [exact H1|cbn; lia]. }
    repeat match type of H with
           | (if ?x then _ else _) = _ => destruct x eqn:?
           | match ?x with _ => _ end = _ => destruct x eqn:?
           end; try discriminate;
      try (apply Hagain in H; exact H);
      injection H as <- <- <-; cbn [rc_retry rc_hand rc_pending with_read];
      (split; [exact Hr1|]); rewrite ?zlen_app;
      (split; [try rewrite zlen_cons in *; lia|]); intro He; try (rewrite He in *; discriminate).
    - right. split; reflexivity.
    - left. split; [unfold zlen in *; cbn [length] in *; lia|reflexivity].
  Qed.

  Ltac split_goal :=
    repeat (cbv beta iota zeta;
            match goal with
            | |- context [if ?x then _ else _] => destruct x eqn:?
            | |- context [match ?x with _ => _ end] => destruct x eqn:?
            end); cbv beta iota zeta.

  (* retryReadRecord: at most maxUselessRecords nested calls *)
  Lemma rroc_fuel fuel : forall expect c buf,
    0 <= rc_retry c -> Z.of_nat fuel >= 18 - rc_retry c -> (1 <= fuel)%nat ->
    rroc' fuel expect c buf <> RRFuel.
  Proof.
    induction fuel as [|f IH]; intros expect c buf Hr Hf H1; [lia|].
    cbn [rroc].
    destruct (rc_pending c); [discriminate|].
    destruct (rxrec c buf) as [typ data st' rest0|e]; [|discriminate].
    unfold max_useless.
    destruct (negb (typ =? 21)%N && negb (typ =? 20)%N && (0 <? zlen data)) eqn:Ec.
    - apply andb_prop in Ec as [Ec E3]. apply andb_prop in Ec as [E1 E2].
      apply negb_true_iff in E1, E2. apply Z.ltb_lt in E3. rewrite E1, E2.
      split_goal; try discriminate.
      all: try (rewrite zlen_nil in E3; lia).
    - split_goal; try discriminate;
        (apply IH; cbn [rc_retry with_read]; b2p; lia).
  Qed.

  Lemma rroc_pending f expect c buf : rc_pending c = true -> rroc' (S f) expect c buf = RREnd EndOther.
  Proof. intro H. cbn [rroc]. now rewrite H. Qed.

  (* ---------------------------------------------------------- for c.hand.Len() < need { readRecord() } *)
  Definition hand_cap (c : rconn) (need : Z) : Z := Z.max (zlen (rc_hand c)) (need - 1 + 16384).

  Lemma fill_hand_spec fuel : forall need c buf,
    0 <= rc_retry c -> Z.of_nat fuel >= need - zlen (rc_hand c) + 1 ->
    fill' fuel need c buf <> RRFuel /\
    forall c' rest d, fill' fuel need c buf = RROk c' rest d ->
      0 <= rc_retry c' /\ need <= zlen (rc_hand c') <= hand_cap c need.
  Proof.
    induction fuel as [|f IH]; intros need c buf Hr Hf; cbn [fill_hand]; unfold hand_cap.
    - destruct (Z.geb_spec (zlen (rc_hand c)) need) as [G|G]; [|lia].
      split; [discriminate|]. intros c' rest d H. injection H as <- _ _. split; [exact Hr|lia].
    - destruct (Z.geb_spec (zlen (rc_hand c)) need) as [G|G].
      { split; [discriminate|]. intros c' rest d H. injection H as <- _ _. split; [exact Hr|lia]. }
      pose proof (rroc_fuel 18 false c buf Hr ltac:(lia) ltac:(lia)) as Hnf.
      destruct (rroc' 18 false c buf) as [c1 rest1 d1|e|] eqn:Er; [|split; [discriminate|intros; discriminate]|contradiction].
      destruct (rroc_spec 18 false c buf c1 rest1 d1 Hr Er) as (Hr1 & Hh & Hcase).
      destruct (Hcase eq_refl) as [[Hg Hp]|[He Hp]].
      + destruct (IH need c1 rest1 Hr1 ltac:(lia)) as [I1 I2]. split; [exact I1|].
        intros c' rest d H. destruct (I2 _ _ _ H) as [J1 J2]. split; [exact J1|].
        unfold hand_cap in J2. lia.
      + (* application data was delivered instead: the next readRecord refuses *)
        destruct f as [|f']; [lia|]. cbn [fill_hand].
        rewrite He. destruct (Z.geb_spec (zlen (rc_hand c)) need) as [G'|G']; [lia|].
        change 18%nat with (S 17). rewrite (rroc_pending 17 false c1 rest1 Hp).
        split; [discriminate|intros; discriminate].
  Qed.

  (* ---------------------------------------------------------- the theorems *)
  Theorem rroc_total expect c buf : 0 <= rc_retry c -> rroc' 18 expect c buf <> RRFuel.
  Proof. intro H. apply rroc_fuel; [exact H|lia|lia]. Qed.

  Definition hand_limit := 4 + 65536 + 16384.

  Lemma hs_len_nonneg (h : bytes) :
    0 <= Z.of_N (nth 1 h 0%N) * 65536 + Z.of_N (nth 2 h 0%N) * 256 + Z.of_N (nth 3 h 0%N).
  Proof. lia. Qed.

  Theorem read_handshake_total unm c buf :
    0 <= rc_retry c -> read_handshake stream cbc_dec aopen mac unm c buf <> HFuel.
  Proof.
    intro Hr. unfold read_handshake, max_handshake.
    pose proof (zlen_nonneg (rc_hand c)) as Hh0.
    destruct (fill_hand_spec 5 4 c buf Hr ltac:(lia)) as [F1 S1].
    destruct (fill' 5 4 c buf) as [c1 buf1 d1|e|]; [|discriminate|contradiction].
    destruct (S1 _ _ _ eq_refl) as [Hr1 Hb1].
    set (n := Z.of_N (nth 1 (rc_hand c1) 0%N) * 65536 + Z.of_N (nth 2 (rc_hand c1) 0%N) * 256 +
              Z.of_N (nth 3 (rc_hand c1) 0%N)).
    assert (Hn : 0 <= n) by apply hs_len_nonneg.
    destruct (n >? 65536); [discriminate|].
    destruct (fill_hand_spec (Z.to_nat (4 + n) + 1) (4 + n) c1 buf1 Hr1 ltac:(lia)) as [F2 S2].
    destruct (fill' (Z.to_nat (4 + n) + 1) (4 + n) c1 buf1) as [c2 buf2 d2|e|]; [|discriminate|contradiction].
    split_goal; discriminate.
  Qed.

  (* c.hand never holds more than one maximal message plus one record *)
  Theorem handshake_buffer_bounded unm c buf t raw c' rest :
    0 <= rc_retry c -> zlen (rc_hand c) <= hand_limit ->
    read_handshake stream cbc_dec aopen mac unm c buf = HMsg t raw c' rest ->
    zlen (rc_hand c') <= hand_limit /\ zlen raw <= 4 + 65536 /\ 0 <= rc_retry c'.
  Proof.
    intros Hr Hl. unfold read_handshake, max_handshake, hand_limit in *.
    pose proof (zlen_nonneg (rc_hand c)) as Hh0.
    destruct (fill_hand_spec 5 4 c buf Hr ltac:(lia)) as [F1 S1].
    destruct (fill' 5 4 c buf) as [c1 buf1 d1|e|]; try discriminate.
    destruct (S1 _ _ _ eq_refl) as [Hr1 Hb1]. unfold hand_cap in Hb1.
    set (n := Z.of_N (nth 1 (rc_hand c1) 0%N) * 65536 + Z.of_N (nth 2 (rc_hand c1) 0%N) * 256 +
              Z.of_N (nth 3 (rc_hand c1) 0%N)).
    assert (Hn : 0 <= n) by apply hs_len_nonneg.
    destruct (Z.gtb_spec n 65536) as [G|G]; [discriminate|].
    remember (4 + n) as m eqn:Em.
    destruct (fill_hand_spec (Z.to_nat m + 1) m c1 buf1 Hr1 ltac:(lia)) as [F2 S2].
    destruct (fill' (Z.to_nat m + 1) m c1 buf1) as [c2 buf2 d2|e|]; try discriminate.
    destruct (S2 _ _ _ eq_refl) as [Hr2 Hb2]. unfold hand_cap in Hb2.
    intro H.
    repeat match type of H with
           | (if ?x then _ else _) = _ => destruct x; try discriminate
           end.
    injection H as _ <- <- _. cbn [rc_hand rc_retry with_read].
    rewrite zlen_zdrop_gen, zlen_ztake_gen. lia.
  Qed.

  (* once the transport is closed every read returns: at a record boundary
     io.EOF, inside a record io.ErrUnexpectedEOF *)
  Theorem closed_transport_returns f expect c :
    rc_pending c = false -> rroc' (S f) expect c [] = RREnd EndEOF.
  Proof. intro H. cbn [rroc]. rewrite H. reflexivity. Qed.

  Theorem closed_inside_record f expect c buf :
    rc_pending c = false -> 0 < zlen buf < 5 -> rroc' (S f) expect c buf = RREnd EndUnexpectedEOF.
  Proof.
    intros H Hb. cbn [rroc]. rewrite H. unfold rx_record32.
    replace (zlen buf <? 5) with true by (symmetry; apply Z.ltb_lt; lia).
    destruct buf; [unfold zlen in Hb; cbn in Hb; lia|reflexivity].
  Qed.
End Reader.

(* ------------------------------------------------------------ KeyUpdate handling never locks c.out twice *)
Lemma handle_key_update_free r wf s :
  out_held s = false -> exists s', handle_key_update r wf s = Some s' /\ out_held s' = false.
Proof.
  intro H. unfold handle_key_update, lock_out. rewrite H.
  destruct r; [|eauto]. destruct wf; eexists; split; reflexivity.
Qed.

Lemma post_reads_free acts wf : forall s,
  out_held s = false -> exists s', post_reads acts wf s = Some s' /\ out_held s' = false.
Proof.
  induction acts as [|r rest IH]; intros s H; cbn [post_reads]; [eauto|].
  destruct (handle_key_update_free r wf s H) as (s1 & -> & H1). now apply IH.
Qed.

Theorem post_run_no_deadlock acts wf : post_run acts wf <> PDeadlock.
Proof.
  unfold post_run.
  destruct (post_reads_free acts wf {| out_held := false; out_err := false |} eq_refl) as (s & -> & H).
  unfold lock_out. rewrite H. discriminate.
Qed.
