(* C13Determ.v — the fields of an accepted response are a function of its TBSResponseData
   bytes (model/C13.v). *)
From Coq Require Import List NArith ZArith Bool Arith Lia.
From Verif Require Import Harness DerTree DerPrim.
From VerifGen Require Import C13_gen.
From VerifModel Require Import C13.
From VerifProof Require Import C13Proofs.
Import ListNotations.
Local Open Scope N_scope.

Lemma emit_injective d1 d2 : wfb d1 = true -> wfb d2 = true -> emit d1 = emit d2 -> d1 = d2.
Proof.
  intros H1 H2 E. pose proof (parse_all_emit d1 H1) as P1. rewrite E, (parse_all_emit d2 H2) in P1.
  congruence.
Qed.

Definition tbs_view (tbsn : dv) : option (dv * civil * list wsingle) :=
  match f_struct parse_tbs [tbsn] with ROk t _ => Some t | _ => None end.

Lemma parse_basic_tbs ks pb :
  parse_basic ks = Some pb ->
  exists tbsn r1, ks = tbsn :: r1 /\ pb_tbs_raw pb = emit tbsn /\
                  tbs_view tbsn = Some (pb_rid pb, pb_produced pb, pb_singles pb).
Proof.
  unfold parse_basic, tbs_view. destruct ks as [|tbsn r1]; [discriminate|].
  destruct (f_struct parse_tbs [tbsn]) as [| |[[ridn produced] singles] rest] eqn:Ef; cbn [req]; try discriminate.
  destruct (req (f_struct parse_algid r1)) as [[so r2]|]; [|discriminate].
  destruct (req (u_bitstring r2)) as [[sg r3]|]; [|discriminate].
  destruct (opt_explicit 0 _ [] r3) as [[certs r4]|]; [|discriminate].
  intro H; inversion H; subst pb; clear H. cbn. exists tbsn, r1. repeat split; try reflexivity. unfold tbs_view. now rewrite Ef.
Qed.

Lemma unmarshal_basic_tbs rbytes pb :
  unmarshal_struct parse_basic rbytes = Some pb ->
  exists tbsn, wfb tbsn = true /\ pb_tbs_raw pb = emit tbsn /\
               tbs_view tbsn = Some (pb_rid pb, pb_produced pb, pb_singles pb).
Proof.
  unfold unmarshal_struct. destruct (parse rbytes) as [[d rest]|] eqn:Ep; [|discriminate].
  destruct rest; [|discriminate]. pose proof (parse_wf _ _ _ Ep) as Hw.
  unfold f_struct, u_seq. destruct d as [c t body|c t ks]; [discriminate|].
  destruct ((c =? 0) && (t =? 16)); [|discriminate].
  destruct (parse_basic ks) as [pb'|] eqn:Eb; [|discriminate].
  intro H; inversion H; subst pb'; clear H.
  destruct (parse_basic_tbs _ _ Eb) as (tbsn & r1 & -> & Hraw & Hview).
  exists tbsn. repeat split; auto.
  cbn [wfb forallb] in Hw. apply andb_prop in Hw as [_ Hw]. now apply andb_prop in Hw as [Hw _].
Qed.

(* two accepted inputs (any issuers, any signature oracle) whose TBSResponseData bytes are equal
   yield the same status, serial, times, reason, issuer hash, responder id and extensions *)
Theorem accepted_bytes_determine_fields
        sigok1 pcert1 sigok2 pcert2 bs1 bs2 cert i1 i2 r1 r2 :
  parse_response_for_cert sigok1 pcert1 bs1 cert i1 = Acc r1 ->
  parse_response_for_cert sigok2 pcert2 bs2 cert i2 = Acc r2 ->
  p_tbs r1 = p_tbs r2 ->
  p_status r1 = p_status r2 /\ p_serial r1 = p_serial r2 /\ p_revoked r1 = p_revoked r2 /\
  p_produced r1 = p_produced r2 /\ p_this r1 = p_this r2 /\ p_next r1 = p_next r2 /\
  p_revoked_at r1 = p_revoked_at r2 /\ p_reason r1 = p_reason r2 /\ p_hash r1 = p_hash r2 /\
  p_rname r1 = p_rname r2 /\ p_rkey r1 = p_rkey r2 /\ p_exts r1 = p_exts r2.
Proof.
  intros H1 H2 Et.
  destruct (parse_response_inv _ _ _ _ _ _ H1) as (rb1 & pb1 & _ & Hb1 & Ha1).
  destruct (parse_response_inv _ _ _ _ _ _ H2) as (rb2 & pb2 & _ & Hb2 & Ha2).
  destruct (unmarshal_basic_tbs _ _ Hb1) as (t1 & Hw1 & Hraw1 & Hv1).
  destruct (unmarshal_basic_tbs _ _ Hb2) as (t2 & Hw2 & Hraw2 & Hv2).
  destruct (accept_basic_inv _ _ _ _ _ _ Ha1) as
    (w1 & rn1 & rk1 & e1 & h1 & Hsel1 & _ & Hrid1 & _ & _ & Hh1 & A1 & A2 & A3 & A4 & A5 & A6 & A7 & A8 & A9 & A10 & A11 & A12 & A13 & _).
  destruct (accept_basic_inv _ _ _ _ _ _ Ha2) as
    (w2 & rn2 & rk2 & e2 & h2 & Hsel2 & _ & Hrid2 & _ & _ & Hh2 & B1 & B2 & B3 & B4 & B5 & B6 & B7 & B8 & B9 & B10 & B11 & B12 & B13 & _).
  rewrite A13, B13, Hraw1, Hraw2 in Et.
  apply emit_injective in Et; auto. subst t2.
  rewrite Hv1 in Hv2. injection Hv2 as Er Ep Es.
  rewrite <- Es, Hsel1 in Hsel2. injection Hsel2 as <-.
  rewrite <- Er, Hrid1 in Hrid2. injection Hrid2 as <- <-.
  rewrite Hh1 in Hh2. injection Hh2 as <-.
  rewrite A1, A2, A3, A4, A5, A6, A7, A8, A9, A10, A11, A12, B1, B2, B3, B4, B5, B6, B7, B8, B9, B10, B11, B12.
  repeat split; congruence.
Qed.

Lemma nonvacuous :
  exists der tbs r,
    create_response
      {| tp_status := 1; tp_serial := 77%Z;
         tp_this := {| cy := 2024; cmo := 2; cd := 29; ch := 23; cmi := 59; cs := 59 |};
         tp_next := zero_civil;
         tp_revoked_at := {| cy := 2023; cmo := 7; cd := 1; ch := 0; cmi := 0; cs := 1 |};
         tp_reason := 1%Z; tp_hash := 0; tp_sigalg := 0; tp_exts := []; tp_cert := None |}
      3 [1;2;3] [4;5;6] (Cons 0 16 []) {| cy := 2024; cmo := 3; cd := 1; ch := 0; cmi := 0; cs := 0 |} [9;9]
    = Some (der, tbs) /\
    parse_response (fun _ _ _ _ => true) (fun _ => None) der (Some 1) = Acc r /\
    p_status r = 1 /\ p_serial r = 77%Z /\ p_tbs r = tbs.
Proof.
  eexists; eexists; eexists. split; [vm_compute; reflexivity|].
  split; [vm_compute; reflexivity|]. repeat split; vm_compute; reflexivity.
Qed.
