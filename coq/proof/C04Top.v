(* C04 — the composed statement: what ParseCertificate reports for the
   certificate CreateCertificate builds from a template (model level). *)
From Coq Require Import List NArith ZArith Bool Arith Lia Permutation.
From Verif Require Import Harness DerTree DerPrim.
From VerifGen Require Import C04_gen.
From VerifModel Require Import C04.
From VerifProof Require Import C04Proofs.
Import ListNotations.
Local Open Scope N_scope.

(* ------------------------------------------------------------------ *)
(* the extension loop                                                   *)
Lemma run_exts_app x l1 l2 :
  run_exts x (l1 ++ l2) = match run_exts x l1 with Some x' => run_exts x' l2 | None => None end.
Proof.
  revert x; induction l1 as [|e l1 IH]; intros x; [reflexivity|].
  cbn [app run_exts]. destruct (step_ext x e); [apply IH|reflexivity].
Qed.

Definition cond_upd (p : bool) (u : xstate -> xstate) (x : xstate) : xstate := if p then u x else x.

Lemma cond_upd_proj {T} (pi : xstate -> T) p u x :
  (forall y, pi (u y) = pi y) -> pi (cond_upd p u x) = pi x.
Proof. intros H. unfold cond_upd. destruct p; [apply H|reflexivity]. Qed.

Lemma run_slot t c id crit v a u :
  gen_ext t c id crit v = Some a ->
  (c = true -> forall d, v = Some d -> forall x, step_ext x (id, crit, emit d) = Some (u x)) ->
  forall x, run_exts x a = Some (cond_upd (c && negb (oid_in_exts id (t_extra t))) u x).
Proof.
  unfold gen_ext, cond_upd. intros G H x.
  destruct c; cbn [andb] in *.
  - destruct (negb (oid_in_exts id (t_extra t))).
    + destruct v as [d|]; [|discriminate]. injection G as <-. cbn [run_exts]. now rewrite (H eq_refl d eq_refl).
    + injection G as <-. reflexivity.
  - injection G as <-. reflexivity.
Qed.

(* the ten field-group updates *)
Definition set_ku v x := mk_x v (x_eku x) (x_ueku x) (x_bcvalid x) (x_isca x) (x_mpl x) (x_mplzero x)
  (x_ski x) (x_aki x) (x_ocsp x) (x_issuing x) (x_dns x) (x_emails x) (x_ips x) (x_policies x) (x_nc_crit x) (x_perm x) (x_excl x) (x_crldp x).
Definition set_eku k u x := mk_x (x_ku x) (x_eku x ++ k) (x_ueku x ++ u) (x_bcvalid x) (x_isca x) (x_mpl x) (x_mplzero x)
  (x_ski x) (x_aki x) (x_ocsp x) (x_issuing x) (x_dns x) (x_emails x) (x_ips x) (x_policies x) (x_nc_crit x) (x_perm x) (x_excl x) (x_crldp x).
Definition set_bc ca (m : Z) x := mk_x (x_ku x) (x_eku x) (x_ueku x) true ca m (m =? 0)%Z
  (x_ski x) (x_aki x) (x_ocsp x) (x_issuing x) (x_dns x) (x_emails x) (x_ips x) (x_policies x) (x_nc_crit x) (x_perm x) (x_excl x) (x_crldp x).
Definition set_ski s x := mk_x (x_ku x) (x_eku x) (x_ueku x) (x_bcvalid x) (x_isca x) (x_mpl x) (x_mplzero x)
  s (x_aki x) (x_ocsp x) (x_issuing x) (x_dns x) (x_emails x) (x_ips x) (x_policies x) (x_nc_crit x) (x_perm x) (x_excl x) (x_crldp x).
Definition set_aki s x := mk_x (x_ku x) (x_eku x) (x_ueku x) (x_bcvalid x) (x_isca x) (x_mpl x) (x_mplzero x)
  (x_ski x) s (x_ocsp x) (x_issuing x) (x_dns x) (x_emails x) (x_ips x) (x_policies x) (x_nc_crit x) (x_perm x) (x_excl x) (x_crldp x).
Definition set_aia o i x := mk_x (x_ku x) (x_eku x) (x_ueku x) (x_bcvalid x) (x_isca x) (x_mpl x) (x_mplzero x)
  (x_ski x) (x_aki x) (x_ocsp x ++ o) (x_issuing x ++ i) (x_dns x) (x_emails x) (x_ips x) (x_policies x) (x_nc_crit x) (x_perm x) (x_excl x) (x_crldp x).
Definition set_san d e i x := mk_x (x_ku x) (x_eku x) (x_ueku x) (x_bcvalid x) (x_isca x) (x_mpl x) (x_mplzero x)
  (x_ski x) (x_aki x) (x_ocsp x) (x_issuing x) d e i (x_policies x) (x_nc_crit x) (x_perm x) (x_excl x) (x_crldp x).
Definition set_pol ps x := mk_x (x_ku x) (x_eku x) (x_ueku x) (x_bcvalid x) (x_isca x) (x_mpl x) (x_mplzero x)
  (x_ski x) (x_aki x) (x_ocsp x) (x_issuing x) (x_dns x) (x_emails x) (x_ips x) ps (x_nc_crit x) (x_perm x) (x_excl x) (x_crldp x).
Definition set_nc (c : bool) p e x := mk_x (x_ku x) (x_eku x) (x_ueku x) (x_bcvalid x) (x_isca x) (x_mpl x) (x_mplzero x)
  (x_ski x) (x_aki x) (x_ocsp x) (x_issuing x) (x_dns x) (x_emails x) (x_ips x) (x_policies x) (x_nc_crit x || c)
  (ncset_app (x_perm x) p) (ncset_app (x_excl x) e) (x_crldp x).
Definition set_dp l x := mk_x (x_ku x) (x_eku x) (x_ueku x) (x_bcvalid x) (x_isca x) (x_mpl x) (x_mplzero x)
  (x_ski x) (x_aki x) (x_ocsp x) (x_issuing x) (x_dns x) (x_emails x) (x_ips x) (x_policies x) (x_nc_crit x) (x_perm x) (x_excl x) (x_crldp x ++ l).

Ltac oid_tests :=
  repeat match goal with
         | |- context [oid_eqb ?a ?b] =>
             let r := eval vm_compute in (oid_eqb a b) in change (oid_eqb a b) with r
         end; cbv iota.

Ltac step_known H :=
  intros x; unfold step_ext; cbn [ext_id ext_val ext_crit fst snd]; oid_tests;
  unfold via in H; rewrite H; reflexivity.

Lemma step_ku d ku c : via read_ku d = Some ku -> forall x, step_ext x (oid_ku, c, emit d) = Some (set_ku ku x).
Proof. intros H. step_known H. Qed.
Lemma step_eku d k u c : via read_eku d = Some (k, u) -> forall x, step_ext x (oid_eku, c, emit d) = Some (set_eku k u x).
Proof. intros H. step_known H. Qed.
Lemma step_bc d ca m c : via read_bc d = Some (ca, m) -> forall x, step_ext x (oid_bc, c, emit d) = Some (set_bc ca m x).
Proof. intros H. step_known H. Qed.
Lemma step_ski d s c : via read_ski d = Some s -> forall x, step_ext x (oid_ski, c, emit d) = Some (set_ski s x).
Proof. intros H. step_known H. Qed.
Lemma step_aki d s c : via read_aki d = Some s -> forall x, step_ext x (oid_aki, c, emit d) = Some (set_aki s x).
Proof. intros H. step_known H. Qed.
Lemma step_aia d o i c : via read_aia d = Some (o, i) -> forall x, step_ext x (oid_aia, c, emit d) = Some (set_aia o i x).
Proof. intros H. step_known H. Qed.
Lemma step_san d dn e i c : via read_san d = Some (dn, e, i) -> forall x, step_ext x (oid_san, c, emit d) = Some (set_san dn e i x).
Proof. intros H. step_known H. Qed.
Lemma step_pol d ps c : via read_policies d = Some ps -> forall x, step_ext x (oid_policies, c, emit d) = Some (set_pol ps x).
Proof. intros H. step_known H. Qed.
Lemma step_nc d p e c : via read_nc d = Some (p, e) -> forall x, step_ext x (oid_nc, c, emit d) = Some (set_nc c p e x).
Proof. intros H. step_known H. Qed.
Lemma step_dp d l c : via read_crldp d = Some l -> forall x, step_ext x (oid_crldp, c, emit d) = Some (set_dp l x).
Proof. intros H. step_known H. Qed.

Lemma oid_eqb_neq a b : a <> b -> oid_eqb a b = false.
Proof. intros H. destruct (oid_eqb a b) eqn:E; [apply oid_eqb_eq in E; contradiction|reflexivity]. Qed.

Lemma step_unknown x e : ~ In (ext_id e) known_oids -> step_ext x e = Some x.
Proof.
  intros H. unfold step_ext.
  assert (N : forall o, In o known_oids -> oid_eqb (ext_id e) o = false).
  { intros o Ho. apply oid_eqb_neq. intros E. rewrite E in H. contradiction. }
  rewrite !N by (cbn; tauto). reflexivity.
Qed.

Lemma run_unknown x l : Forall (fun e => ~ In (ext_id e) known_oids) l -> run_exts x l = Some x.
Proof.
  induction 1 as [|e l He _ IH]; [reflexivity|]. cbn [run_exts]. now rewrite step_unknown.
Qed.

(* ------------------------------------------------------------------ *)
(* extensions as DER and back                                           *)
Lemma read_build_ext e d : wf_oid (ext_id e) = true -> build_ext e = Some d ->
  read_ext d = Some e /\ wfb d = true.
Proof.
  unfold build_ext. intros Hw. destruct (d_oid (ext_id e)) as [o|] eqn:Eo; [|discriminate].
  intros E; injection E as <-.
  destruct (read_oid_elem_d_oid _ _ Hw Eo) as [R W]. apply d_oid_inv in Eo as (b & _ & ->).
  cbn [read_oid_elem] in R. destruct e as [[id c] v]. cbn [ext_id ext_crit ext_val fst snd] in *.
  destruct c; unfold seq, d_bool, d_octets; cbn [app read_ext enc_bool]; rewrite R; split; reflexivity.
Qed.

Lemma read_build_exts l es : omap build_ext l = Some es ->
  Forall (fun e => wf_oid (ext_id e) = true) l ->
  omap read_ext es = Some l /\ forallb wfb es = true.
Proof.
  intros H. apply omap_inv in H. induction H as [|e d l' es' He _ IH]; intros Hw; [split; reflexivity|].
  apply Forall_cons_iff in Hw as [Hw1 Hw2]. destruct (IH Hw2) as [I1 I2].
  destruct (read_build_ext _ _ Hw1 He) as [R W]. cbn [omap forallb]. now rewrite R, I1, W, I2.
Qed.

Lemma known_oids_wf : forallb wf_oid known_oids = true.
Proof. reflexivity. Qed.

Lemma table_oids_wf : forallb (fun r => wf_oid (r_oid r)) sigalg_table = true.
Proof. vm_compute. reflexivity. Qed.

Lemma signing_alg_wf k req a : signing_alg k req = Some a -> wf_oid (fst a) = true.
Proof.
  unfold signing_alg. destruct (default_alg k) as [[o p]|] eqn:Ed; [|discriminate].
  assert (Ho : wf_oid o = true).
  { destruct k as [|b|]; cbn in Ed.
    - injection Ed as <- _. reflexivity.
    - destruct ((b =? 224) || (b =? 256)); [injection Ed as <- _; reflexivity|].
      destruct (b =? 384); [injection Ed as <- _; reflexivity|].
      destruct (b =? 521); [injection Ed as <- _; reflexivity|discriminate].
    - injection Ed as <- _. reflexivity. }
  destruct (req =? 0); [intros E; injection E as <-; exact Ho|].
  destruct (find (fun r : row => r_algo r =? req) sigalg_table) as [r|] eqn:F; [|discriminate].
  apply find_some in F as [Hin _].
  pose proof table_oids_wf as T. rewrite forallb_forall in T. specialize (T r Hin).
  destruct (negb _); [discriminate|]. destruct (_ && _); [discriminate|].
  destruct (r_pss r).
  - destruct (parse_all (r_params r)); [|discriminate]. intros E; injection E as <-. exact T.
  - intros E; injection E as <-. exact T.
Qed.

Lemma signing_alg_params_wf k req a p : signing_alg k req = Some a -> snd a = Some p -> wfb p = true.
Proof.
  unfold signing_alg. destruct (default_alg k) as [[o q]|] eqn:Ed; [|discriminate].
  assert (Hq : forall p, q = Some p -> wfb p = true).
  { destruct k as [|b|]; cbn in Ed.
    - injection Ed as _ <-. intros ? E; injection E as <-. reflexivity.
    - destruct ((b =? 224) || (b =? 256)); [injection Ed as _ <-; discriminate|].
      destruct (b =? 384); [injection Ed as _ <-; discriminate|].
      destruct (b =? 521); [injection Ed as _ <-; discriminate|discriminate].
    - injection Ed as _ <-. discriminate. }
  destruct (req =? 0); [intros E; injection E as <-; apply Hq|].
  destruct (find (fun r : row => r_algo r =? req) sigalg_table) as [r|]; [|discriminate].
  destruct (negb _); [discriminate|]. destruct (_ && _); [discriminate|].
  destruct (r_pss r).
  - destruct (parse_all (r_params r)) as [t|] eqn:Et; [|discriminate]. intros E; injection E as <-.
    cbn [snd]. intros E; injection E as <-. eapply parse_all_wf; eauto.
  - intros E; injection E as <-. apply Hq.
Qed.

Lemma read_build_algid a d : wf_oid (fst a) = true -> (forall p, snd a = Some p -> wfb p = true) ->
  build_algid a = Some d -> read_algid d = Some a /\ wfb d = true.
Proof.
  unfold build_algid. intros Hw Hp. destruct (d_oid (fst a)) as [o|] eqn:Eo; [|discriminate].
  intros E; injection E as <-.
  destruct (read_oid_elem_d_oid _ _ Hw Eo) as [R W]. apply d_oid_inv in Eo as (b & _ & ->).
  cbn [read_oid_elem] in R. destruct a as [ao [p|]]; cbn [fst snd] in *; unfold seq; cbn [read_algid]; rewrite R.
  - split; [reflexivity|]. cbn [wfb forallb]. now rewrite (Hp p eq_refl).
  - split; reflexivity.
Qed.

Lemma read_build_time c d : valid_civil c = true -> build_time c = Some d -> read_time d = Some c /\ wfb d = true.
Proof.
  unfold build_time. intros Hv. destruct (enc_time c) as [[tag bs]|] eqn:E; [|discriminate].
  intros H; injection H as <-. cbn [read_time]. split; [now apply dec_enc_time|].
  unfold enc_time in E. destruct (_ && _); [injection E as <- _; reflexivity|].
  destruct (9999 <? cy c); [discriminate|]. injection E as <- _. reflexivity.
Qed.

(* ------------------------------------------------------------------ *)
(* the domain                                                           *)
Record wf_tmpl (t : tmpl) : Prop := {
  wt_subject : wf_name (t_subject t) = true;
  wt_nb : valid_civil (t_nb t) = true;
  wt_na : valid_civil (t_na t) = true;
  wt_ku : t_ku t < 512;
  wt_ueku : forallb wf_oid (t_ueku t) = true;
  wt_ueku_unknown : forall o, In o (t_ueku t) -> eku_of_oid o = None;
  wt_mpl : t_bcvalid t = true -> (-1 <= t_mpl t < 2 ^ 55)%Z;
  wt_ips : forallb ip_len_ok (t_ips t) = true;
  wt_policies : forallb wf_oid (t_policies t) = true;
  wt_perm : wf_ncset (t_perm t) = true;
  wt_excl : wf_ncset (t_excl t) = true;
  wt_extra_oids : forallb (fun e => wf_oid (ext_id e)) (t_extra t) = true;
  (* extra extensions are for other purposes than the ten generated kinds
     (an extra extension with one of those OIDs replaces the generated one:
     extra_overrides) *)
  wt_extra_unknown : Forall (fun e => ~ In (ext_id e) known_oids) (t_extra t)
}.

Record wf_input (i : input) : Prop := {
  wi_t : wf_tmpl (i_t i);
  wi_issuer : wf_name (i_issuer i) = true;
  wi_spki : exists d alg bits rest, parse_all (i_spki i) = Some d /\ d = Cons 0 16 (alg :: Prim 0 3 bits :: rest)
}.

Lemma extras_not_in t id : Forall (fun e => ~ In (ext_id e) known_oids) (t_extra t) -> In id known_oids ->
  oid_in_exts id (t_extra t) = false.
Proof.
  intros H Hid. unfold oid_in_exts. induction H as [|e l He _ IH]; [reflexivity|].
  cbn [existsb]. rewrite IH, orb_false_r. apply oid_eqb_neq. intros E. rewrite E in Hid. contradiction.
Qed.

(* the parser's extension state after the ten generated slots *)
Definition final_x (t : tmpl) (ekus : list N) (ips : list bytes) (p' e' : ncset) : xstate :=
  cond_upd (nonempty (t_crldp t)) (set_dp (t_crldp t))
  (cond_upd (negb (nc_empty (t_perm t)) || negb (nc_empty (t_excl t))) (set_nc (t_nc_crit t) p' e')
  (cond_upd (nonempty (t_policies t)) (set_pol (t_policies t))
  (cond_upd (nonempty (t_dns t) || nonempty (t_emails t) || nonempty (t_ips t)) (set_san (t_dns t) (t_emails t) ips)
  (cond_upd (nonempty (t_ocsp t) || nonempty (t_issuing t)) (set_aia (t_ocsp t) (t_issuing t))
  (cond_upd (nonempty (t_aki t)) (set_aki (t_aki t))
  (cond_upd (nonempty (t_ski t)) (set_ski (t_ski t))
  (cond_upd (t_bcvalid t) (set_bc (t_isca t) (eff_pathlen (t_mpl t) (t_mplzero t)))
  (cond_upd (nonempty (t_eku t) || nonempty (t_ueku t)) (set_eku ekus (t_ueku t))
  (cond_upd (negb (t_ku t =? 0)) (set_ku (t_ku t)) x0))))))))).

Lemma nonempty_false {A} (l : list A) : nonempty l = false -> l = [].
Proof. destruct l; [reflexivity|discriminate]. Qed.

Ltac proj_through := repeat (rewrite cond_upd_proj by (intros; reflexivity)).

Theorem build_extensions_run t l :
  wf_tmpl t ->
  build_extensions t = Some l ->
  exists g p' e',
    l = g ++ t_extra t /\
    Forall (fun e => In (ext_id e) known_oids) g /\
    ncset_rel (t_perm t) p' /\ ncset_rel (t_excl t) e' /\
    run_exts x0 l = Some (final_x t (t_eku t) (map san_ip (t_ips t)) p' e').
Proof.
  intros W. destruct W as [_ _ _ Wku Wue Wueu Wmpl Wips Wpol Wperm Wexcl _ Wunk].
  intros Hb. pose proof (extra_overrides t l Hb) as (g & -> & Hg).
  exists g.
  unfold build_extensions in Hb. destruct (oconcat _) as [g'|] eqn:Eg; [|discriminate].
  injection Hb as Hb. apply app_inv_tail in Hb. subst g'.
  (* name constraints: obtain the parsed sets *)
  assert (Hnc : exists p' e', ncset_rel (t_perm t) p' /\ ncset_rel (t_excl t) e' /\
                forall d, build_nc (t_perm t) (t_excl t) = Some d -> via read_nc d = Some (p', e')).
  { destruct (build_nc (t_perm t) (t_excl t)) as [d|] eqn:En.
    - destruct (nc_roundtrip _ _ _ Wperm Wexcl En) as (p' & e' & R & P & E).
      exists p', e'. split; [exact P|]. split; [exact E|]. intros d' E'. now injection E' as <-.
    - exists {| nc_email := nc_email (t_perm t); nc_dns := nc_dns (t_perm t); nc_dir := nc_dir (t_perm t);
                nc_ip := map norm_ipnet (nc_ip (t_perm t)) |},
             {| nc_email := nc_email (t_excl t); nc_dns := nc_dns (t_excl t); nc_dir := nc_dir (t_excl t);
                nc_ip := map norm_ipnet (nc_ip (t_excl t)) |}.
      assert (Hrefl : forall ns, Forall2 name_rel ns ns).
      { induction ns as [|n ns IH]; constructor; [|exact IH]. induction n; constructor; auto. }
      split; [repeat split; cbn; auto; apply Hrefl|]. split; [repeat split; cbn; auto; apply Hrefl|].
      intros; discriminate. }
  destruct Hnc as (p' & e' & Pp & Pe & Hnc).
  exists p', e'. split; [reflexivity|]. split.
  { apply Forall_forall. intros e He. now apply Hg. }
  split; [exact Pp|]. split; [exact Pe|].
  (* run the ten slots *)
  apply oconcat_cons in Eg as (a0 & b0 & G0 & Eg & ->).
  apply oconcat_cons in Eg as (a1 & b1 & G1 & Eg & ->).
  apply oconcat_cons in Eg as (a2 & b2 & G2 & Eg & ->).
  apply oconcat_cons in Eg as (a3 & b3 & G3 & Eg & ->).
  apply oconcat_cons in Eg as (a4 & b4 & G4 & Eg & ->).
  apply oconcat_cons in Eg as (a5 & b5 & G5 & Eg & ->).
  apply oconcat_cons in Eg as (a6 & b6 & G6 & Eg & ->).
  apply oconcat_cons in Eg as (a7 & b7 & G7 & Eg & ->).
  apply oconcat_cons in Eg as (a8 & b8 & G8 & Eg & ->).
  apply oconcat_cons in Eg as (a9 & b9 & G9 & Eg & ->).
  cbn [oconcat] in Eg. injection Eg as <-.
  assert (Hno : forall id, In id known_oids -> negb (oid_in_exts id (t_extra t)) = true).
  { intros id Hid. now rewrite extras_not_in. }
  rewrite <- !app_assoc.
  (* 0: key usage *)
  rewrite run_exts_app, (run_slot _ _ _ _ _ _ (set_ku (t_ku t)) G0); cbv iota.
  2:{ intros Hc d E. injection E as <-. apply step_ku.
      destruct (N.eq_dec (t_ku t) 0) as [E0|N0]; [rewrite E0; reflexivity|apply ku_roundtrip; lia]. }
  (* 1: extended key usage *)
  rewrite run_exts_app, (run_slot _ _ _ _ _ _ (set_eku (t_eku t) (t_ueku t)) G1); cbv iota.
  2:{ intros Hc d E. apply step_eku. now apply eku_roundtrip. }
  (* 2: basic constraints *)
  destruct (t_bcvalid t) eqn:Ebc.
  - rewrite run_exts_app, (run_slot _ _ _ _ _ _ (set_bc (t_isca t) (eff_pathlen (t_mpl t) (t_mplzero t))) G2); cbv iota.
    2:{ intros Hc d E. injection E as <-. apply step_bc. apply bc_roundtrip. now apply Wmpl. }
    rewrite run_exts_app, (run_slot _ _ _ _ _ _ (set_ski (t_ski t)) G3); cbv iota.
    2:{ intros Hc d E. injection E as <-. apply step_ski, ski_roundtrip. }
    rewrite run_exts_app, (run_slot _ _ _ _ _ _ (set_aki (t_aki t)) G4); cbv iota.
    2:{ intros Hc d E. injection E as <-. apply step_aki, aki_roundtrip. }
    rewrite run_exts_app, (run_slot _ _ _ _ _ _ (set_aia (t_ocsp t) (t_issuing t)) G5); cbv iota.
    2:{ intros Hc d E. apply step_aia. now apply aia_roundtrip. }
    rewrite run_exts_app, (run_slot _ _ _ _ _ _ (set_san (t_dns t) (t_emails t) (map san_ip (t_ips t))) G6); cbv iota.
    2:{ intros Hc d E. injection E as <-. apply step_san. now apply san_roundtrip. }
    rewrite run_exts_app, (run_slot _ _ _ _ _ _ (set_pol (t_policies t)) G7); cbv iota.
    2:{ intros Hc d E. apply step_pol. now apply policies_roundtrip. }
    rewrite run_exts_app, (run_slot _ _ _ _ _ _ (set_nc (t_nc_crit t) p' e') G8); cbv iota.
    2:{ intros Hc d E. apply step_nc. now apply Hnc. }
    rewrite run_exts_app, (run_slot _ _ _ _ _ _ (set_dp (t_crldp t)) G9); cbv iota.
    2:{ intros Hc d E. injection E as <-. apply step_dp, crldp_roundtrip. }
    rewrite run_unknown by exact Wunk.
    unfold final_x. rewrite Ebc. rewrite !Hno by (cbn; tauto). now rewrite !andb_true_r.
  - rewrite run_exts_app, (run_slot _ _ _ _ _ _ (fun x => x) G2) by discriminate. cbv iota.
    rewrite run_exts_app, (run_slot _ _ _ _ _ _ (set_ski (t_ski t)) G3); cbv iota.
    2:{ intros Hc d E. injection E as <-. apply step_ski, ski_roundtrip. }
    rewrite run_exts_app, (run_slot _ _ _ _ _ _ (set_aki (t_aki t)) G4); cbv iota.
    2:{ intros Hc d E. injection E as <-. apply step_aki, aki_roundtrip. }
    rewrite run_exts_app, (run_slot _ _ _ _ _ _ (set_aia (t_ocsp t) (t_issuing t)) G5); cbv iota.
    2:{ intros Hc d E. apply step_aia. now apply aia_roundtrip. }
    rewrite run_exts_app, (run_slot _ _ _ _ _ _ (set_san (t_dns t) (t_emails t) (map san_ip (t_ips t))) G6); cbv iota.
    2:{ intros Hc d E. injection E as <-. apply step_san. now apply san_roundtrip. }
    rewrite run_exts_app, (run_slot _ _ _ _ _ _ (set_pol (t_policies t)) G7); cbv iota.
    2:{ intros Hc d E. apply step_pol. now apply policies_roundtrip. }
    rewrite run_exts_app, (run_slot _ _ _ _ _ _ (set_nc (t_nc_crit t) p' e') G8); cbv iota.
    2:{ intros Hc d E. apply step_nc. now apply Hnc. }
    rewrite run_exts_app, (run_slot _ _ _ _ _ _ (set_dp (t_crldp t)) G9); cbv iota.
    2:{ intros Hc d E. injection E as <-. apply step_dp, crldp_roundtrip. }
    rewrite run_unknown by exact Wunk.
    unfold final_x. rewrite Ebc. rewrite !Hno by (cbn; tauto). cbn [andb cond_upd]. now rewrite !andb_true_r.
Qed.

(* ------------------------------------------------------------------ *)
(* what the parser's state holds after the generated extensions          *)
Section Final.
  Variables (t : tmpl) (ips : list bytes) (p' e' : ncset).
  Let xf := final_x t (t_eku t) ips p' e'.

  (* peel the layers above the owner of a field, open the owner, peel the rest *)
  Ltac owner := unfold xf, final_x; proj_through; unfold cond_upd at 1.
  Ltac projs := cbn [x0 x_ku x_eku x_ueku x_bcvalid x_isca x_mpl x_mplzero x_ski x_aki x_ocsp
                     x_issuing x_dns x_emails x_ips x_policies x_nc_crit x_perm x_excl x_crldp
                     set_ku set_eku set_bc set_ski set_aki set_aia set_san set_pol set_nc set_dp app orb].
  Ltac rest := projs; proj_through; projs.

  Lemma final_ku : x_ku xf = t_ku t.
  Proof.
    owner. destruct (N.eqb_spec (t_ku t) 0) as [E|E]; cbn [negb]; rest; [now rewrite E|reflexivity].
  Qed.

  Lemma final_eku1 : x_eku xf = t_eku t.
  Proof.
    owner. destruct (nonempty (t_eku t) || nonempty (t_ueku t)) eqn:E; rest; [reflexivity|].
    apply orb_false_iff in E as [E1 E2]. apply nonempty_false in E1. now rewrite E1.
  Qed.
  Lemma final_eku2 : x_ueku xf = t_ueku t.
  Proof.
    owner. destruct (nonempty (t_eku t) || nonempty (t_ueku t)) eqn:E; rest; [reflexivity|].
    apply orb_false_iff in E as [E1 E2]. apply nonempty_false in E2. now rewrite E2.
  Qed.

  Lemma final_bcvalid : x_bcvalid xf = t_bcvalid t.
  Proof. owner. destruct (t_bcvalid t); rest; reflexivity. Qed.
  Lemma final_isca : t_bcvalid t = true -> x_isca xf = t_isca t.
  Proof. intros H. owner. rewrite H. rest. reflexivity. Qed.
  Lemma final_mpl : t_bcvalid t = true -> x_mpl xf = eff_pathlen (t_mpl t) (t_mplzero t).
  Proof. intros H. owner. rewrite H. rest. reflexivity. Qed.
  Lemma final_mplzero : t_bcvalid t = true -> x_mplzero xf = (eff_pathlen (t_mpl t) (t_mplzero t) =? 0)%Z.
  Proof. intros H. owner. rewrite H. rest. reflexivity. Qed.

  Lemma final_ski : x_ski xf = t_ski t.
  Proof.
    owner. destruct (nonempty (t_ski t)) eqn:E; rest; [reflexivity|]. apply nonempty_false in E. now rewrite E.
  Qed.

  Lemma final_aki : x_aki xf = t_aki t.
  Proof.
    owner. destruct (nonempty (t_aki t)) eqn:E; rest; [reflexivity|]. apply nonempty_false in E. now rewrite E.
  Qed.

  Lemma final_ocsp : x_ocsp xf = t_ocsp t.
  Proof.
    owner. destruct (nonempty (t_ocsp t) || nonempty (t_issuing t)) eqn:E; rest; [reflexivity|].
    apply orb_false_iff in E as [E1 E2]. apply nonempty_false in E1. now rewrite E1.
  Qed.
  Lemma final_issuing : x_issuing xf = t_issuing t.
  Proof.
    owner. destruct (nonempty (t_ocsp t) || nonempty (t_issuing t)) eqn:E; rest; [reflexivity|].
    apply orb_false_iff in E as [E1 E2]. apply nonempty_false in E2. now rewrite E2.
  Qed.

  Lemma san_absent : nonempty (t_dns t) || nonempty (t_emails t) || nonempty (t_ips t) = false ->
    t_dns t = [] /\ t_emails t = [] /\ t_ips t = [].
  Proof.
    intros E. apply orb_false_iff in E as [E E3]. apply orb_false_iff in E as [E1 E2].
    apply nonempty_false in E1, E2, E3. auto.
  Qed.

  Lemma final_dns : x_dns xf = t_dns t.
  Proof.
    owner. destruct (nonempty (t_dns t) || nonempty (t_emails t) || nonempty (t_ips t)) eqn:E; rest; [reflexivity|].
    apply san_absent in E as (E1 & E2 & E3). now rewrite E1.
  Qed.
  Lemma final_emails : x_emails xf = t_emails t.
  Proof.
    owner. destruct (nonempty (t_dns t) || nonempty (t_emails t) || nonempty (t_ips t)) eqn:E; rest; [reflexivity|].
    apply san_absent in E as (E1 & E2 & E3). now rewrite E2.
  Qed.
  Lemma final_ips : ips = map san_ip (t_ips t) -> x_ips xf = map san_ip (t_ips t).
  Proof.
    intros Hi. owner. destruct (nonempty (t_dns t) || nonempty (t_emails t) || nonempty (t_ips t)) eqn:E; rest; [exact Hi|].
    apply san_absent in E as (E1 & E2 & E3). now rewrite E3.
  Qed.

  Lemma final_policies : x_policies xf = t_policies t.
  Proof.
    owner. destruct (nonempty (t_policies t)) eqn:E; rest; [reflexivity|]. apply nonempty_false in E. now rewrite E.
  Qed.

  Lemma final_crldp : x_crldp xf = t_crldp t.
  Proof.
    owner. destruct (nonempty (t_crldp t)) eqn:E; rest; [reflexivity|]. apply nonempty_false in E. now rewrite E.
  Qed.

  Lemma ncset_app_nil_l s : ncset_app ncset_nil s = s.
  Proof. destruct s; reflexivity. Qed.

  Lemma nc_empty_rel s s' : nc_empty s = true -> ncset_rel s s' -> s' = ncset_nil.
  Proof.
    unfold nc_empty. intros E (H1 & H2 & H3 & H4).
    destruct (nc_email s), (nc_dns s), (nc_dir s), (nc_ip s); try discriminate.
    inversion H3; subst. destruct s'; cbn in *; subst. reflexivity.
  Qed.

  Lemma final_perm : ncset_rel (t_perm t) p' -> ncset_rel (t_excl t) e' -> x_perm xf = p'.
  Proof.
    intros Rp Re. owner. destruct (negb (nc_empty (t_perm t)) || negb (nc_empty (t_excl t))) eqn:E; rest.
    - apply ncset_app_nil_l.
    - apply orb_false_iff in E as [E1 E2]. apply negb_false_iff in E1. now rewrite (nc_empty_rel _ _ E1 Rp).
  Qed.
  Lemma final_excl : ncset_rel (t_perm t) p' -> ncset_rel (t_excl t) e' -> x_excl xf = e'.
  Proof.
    intros Rp Re. owner. destruct (negb (nc_empty (t_perm t)) || negb (nc_empty (t_excl t))) eqn:E; rest.
    - apply ncset_app_nil_l.
    - apply orb_false_iff in E as [E1 E2]. apply negb_false_iff in E2. now rewrite (nc_empty_rel _ _ E2 Re).
  Qed.
  Lemma final_nc_crit : nc_empty (t_perm t) && nc_empty (t_excl t) = false -> x_nc_crit xf = t_nc_crit t.
  Proof.
    intros H. owner. destruct (negb (nc_empty (t_perm t)) || negb (nc_empty (t_excl t))) eqn:E; rest; [reflexivity|].
    apply orb_false_iff in E as [E1 E2]. apply negb_false_iff in E1, E2. rewrite E1, E2 in H. discriminate.
  Qed.
End Final.

(* ------------------------------------------------------------------ *)
(* the certificate as a whole                                           *)
Definition expected_sigalg (k : keykind) (req : N) : N := if req =? 0 then default_sigalg k else req.

Theorem parse_build_fields i tbs a :
  wf_input i -> build_tbs i = Some (tbs, a) ->
  let t := i_t i in
  exists f,
    read_tbs tbs = Some f /\ wfb tbs = true /\ wfb a = true /\
    f_version f = 3%Z /\
    f_serial f = t_serial t /\
    f_sigalg f = expected_sigalg (i_key i) (t_sigalg t) /\
    name_rel (i_issuer i) (f_issuer f) /\ name_rel (t_subject t) (f_subject f) /\
    f_nb f = t_nb t /\ f_na f = t_na t /\
    f_ku f = t_ku t /\ f_eku f = t_eku t /\ f_ueku f = t_ueku t /\
    f_bcvalid f = t_bcvalid t /\
    (t_bcvalid t = true ->
       f_isca f = t_isca t /\ f_mpl f = eff_pathlen (t_mpl t) (t_mplzero t) /\
       f_mplzero f = (eff_pathlen (t_mpl t) (t_mplzero t) =? 0)%Z) /\
    f_ski f = t_ski t /\ f_aki f = t_aki t /\
    f_ocsp f = t_ocsp t /\ f_issuing f = t_issuing t /\
    f_dns f = t_dns t /\ f_emails f = t_emails t /\ f_ips f = map san_ip (t_ips t) /\
    f_policies f = t_policies t /\
    ncset_rel (t_perm t) (f_perm f) /\ ncset_rel (t_excl t) (f_excl f) /\
    (nc_empty (t_perm t) && nc_empty (t_excl t) = false -> f_nc_crit f = t_nc_crit t) /\
    f_crldp f = t_crldp t /\
    exists g, f_exts f = g ++ t_extra t /\ Forall (fun e => In (ext_id e) known_oids) g.
Proof.
  intros [Wt Wiss (spki & salg & sbits & srest & Hspki & Hshape)] Hb t.
  pose proof Wt as Wt'. destruct Wt' as [Wsub Wnb Wna _ _ _ _ _ _ _ _ Wxo Wunk].
  unfold build_tbs in Hb. fold t in Hb.
  destruct (signing_alg (i_key i) (t_sigalg t)) as [alg|] eqn:Ealg; [|discriminate].
  destruct (build_algid alg) as [ad|] eqn:Ead; [|discriminate].
  rewrite Hspki in Hb.
  destruct (build_name (i_issuer i)) as [iss|] eqn:Eiss; [|discriminate].
  destruct (build_name (t_subject t)) as [sub|] eqn:Esub; [|discriminate].
  destruct (build_extensions t) as [exts|] eqn:Eexts; [|discriminate].
  destruct (build_time (t_nb t)) as [nb|] eqn:Enb; [|discriminate].
  destruct (build_time (t_na t)) as [na|] eqn:Ena; [|discriminate].
  destruct (omap build_ext exts) as [es|] eqn:Ees; [|discriminate].
  injection Hb as <- <-.
  (* the pieces *)
  destruct (read_build_algid alg ad (signing_alg_wf _ _ _ Ealg)
              (fun p => signing_alg_params_wf _ _ _ p Ealg) Ead) as [Ralg Walg].
  destruct (name_roundtrip _ _ Wiss Eiss) as (iss' & Riss & Piss & Wissd).
  destruct (name_roundtrip _ _ Wsub Esub) as (sub' & Rsub & Psub & Wsubd).
  destruct (read_build_time _ _ Wnb Enb) as [Rnb Wnbd].
  destruct (read_build_time _ _ Wna Ena) as [Rna Wnad].
  destruct (build_extensions_run t exts Wt Eexts) as (g & p' & e' & -> & Hg & Pp & Pe & Hrun).
  assert (Hwo : Forall (fun e => wf_oid (ext_id e) = true) (g ++ t_extra t)).
  { apply Forall_app. split.
    - eapply Forall_impl; [|exact Hg]. intros e He. pose proof known_oids_wf as K. rewrite forallb_forall in K. now apply K.
    - rewrite forallb_forall in Wxo. now apply Forall_forall. }
  pose proof (read_build_exts _ _ Ees Hwo) as Hes.
  destruct Hes as [Res Wes].
  assert (Wspki : wfb spki = true) by (eapply parse_all_wf; eauto).
  set (xf := final_x t (t_eku t) (map san_ip (t_ips t)) p' e') in *.
  exists (mk_fields 3%Z (t_serial t) (sigalg_of alg) iss' sub' (t_nb t) (t_na t)
            (x_ku xf) (x_eku xf) (x_ueku xf) (x_bcvalid xf) (x_isca xf) (x_mpl xf) (x_mplzero xf)
            (x_ski xf) (x_aki xf) (x_ocsp xf) (x_issuing xf) (x_dns xf) (x_emails xf) (x_ips xf)
            (x_policies xf) (x_nc_crit xf) (x_perm xf) (x_excl xf) (x_crldp xf) (g ++ t_extra t)).
  split.
  { subst spki. unfold seq, d_int. cbn [read_tbs].
    change (dec_int64 (enc_int 2)) with (Some 2%Z). cbv iota beta.
    rewrite dec_enc_int, Ralg, Riss, Rsub. cbn [read_time] in Rnb, Rna. rewrite Rnb, Rna, Res, Hrun. reflexivity. }
  split.
  { unfold seq, d_int. cbn [wfb forallb]. rewrite Walg, Wissd, Wsubd, Wnbd, Wnad, Wspki, Wes. reflexivity. }
  split; [exact Walg|].
  cbn [f_version f_serial f_sigalg f_issuer f_subject f_nb f_na f_ku f_eku f_ueku f_bcvalid f_isca f_mpl f_mplzero
       f_ski f_aki f_ocsp f_issuing f_dns f_emails f_ips f_policies f_nc_crit f_perm f_excl f_crldp f_exts].
  repeat split; try assumption; try reflexivity.
  - unfold expected_sigalg. destruct (N.eqb_spec (t_sigalg t) 0) as [E0|N0].
    + rewrite E0 in Ealg. now apply sigalg_default_roundtrip.
    + now apply sigalg_requested_roundtrip with (k := i_key i).
  - apply final_ku.
  - apply final_eku1.
  - apply final_eku2.
  - apply final_bcvalid.
  - now apply final_isca.
  - now apply final_mpl.
  - now apply final_mplzero.
  - apply final_ski.
  - apply final_aki.
  - apply final_ocsp.
  - apply final_issuing.
  - apply final_dns.
  - apply final_emails.
  - now apply final_ips.
  - apply final_policies.
  - unfold xf. rewrite (final_perm _ _ _ _ Pp Pe). apply Pp.
  - unfold xf. rewrite (final_perm _ _ _ _ Pp Pe). apply Pp.
  - unfold xf. rewrite (final_perm _ _ _ _ Pp Pe). apply Pp.
  - unfold xf. rewrite (final_perm _ _ _ _ Pp Pe). apply Pp.
  - unfold xf. rewrite (final_excl _ _ _ _ Pp Pe). apply Pe.
  - unfold xf. rewrite (final_excl _ _ _ _ Pp Pe). apply Pe.
  - unfold xf. rewrite (final_excl _ _ _ _ Pp Pe). apply Pe.
  - unfold xf. rewrite (final_excl _ _ _ _ Pp Pe). apply Pe.
  - now apply final_nc_crit.
  - apply final_crldp.
  - exists g. split; [reflexivity|exact Hg].
Qed.

Lemma build_tbs_alg_shape i tbs a : build_tbs i = Some (tbs, a) -> exists kids, a = Cons 0 16 kids.
Proof.
  unfold build_tbs.
  destruct (signing_alg (i_key i) (t_sigalg (i_t i))) as [alg|]; [|discriminate].
  destruct (build_algid alg) as [ad|] eqn:Ead; [|discriminate].
  destruct (parse_all (i_spki i)); [|discriminate].
  destruct (build_name (i_issuer i)); [|discriminate].
  destruct (build_name (t_subject (i_t i))); [|discriminate].
  destruct (build_extensions (i_t i)) as [exts|]; [|discriminate].
  destruct (build_time (t_nb (i_t i))); [|discriminate].
  destruct (build_time (t_na (i_t i))); [|discriminate].
  destruct (omap build_ext exts); [|discriminate].
  intros H. assert (a = ad) by congruence. subst a.
  unfold build_algid in Ead. destruct (d_oid (fst alg)); [|discriminate].
  unfold seq in Ead. eexists. symmetry. injection Ead as Ead. exact Ead.
Qed.

(* bytes level: ParseCertificate applied to the DER CreateCertificate returns *)
Theorem parse_cert_of_build i sig der :
  wf_input i -> build_cert i sig = Some der ->
  exists tbs a, build_tbs i = Some (tbs, a) /\ parse_cert der = read_tbs tbs.
Proof.
  intros W. unfold build_cert. destruct (build_tbs i) as [[tbs a]|] eqn:E; [|discriminate].
  intros H. assert (Hd : der = emit (seq [tbs; a; Prim 0 3 (0 :: sig)])) by congruence. clear H. subst der.
  exists tbs, a. split; [reflexivity|].
  destruct (parse_build_fields i tbs a W E) as (f & _ & Wt & Wa & _).
  destruct (build_tbs_alg_shape _ _ _ E) as (kids & ->).
  unfold parse_cert. rewrite parse_all_emit.
  - reflexivity.
  - unfold seq. cbn [wfb forallb] in *. now rewrite Wt, Wa.
Qed.

(* ------------------------------------------------------------------ *)
(* signature: the verifier is handed the algorithm the signer used.  The
   signature primitives themselves are a premise (C03 / C23 are about them). *)
Section Sig.
  Variable sign : keykind -> N -> bytes -> bytes.             (* key, SignatureAlgorithm, message *)
  Variable verify : keykind -> N -> bytes -> bytes -> bool.
  Hypothesis sign_verify : forall k alg msg, verify k alg msg (sign k alg msg) = true.

  Theorem issued_sig_verifies i tbs a f :
    wf_input i -> build_tbs i = Some (tbs, a) -> read_tbs tbs = Some f ->
    verify (i_key i) (f_sigalg f) (emit tbs)
           (sign (i_key i) (expected_sigalg (i_key i) (t_sigalg (i_t i))) (emit tbs)) = true.
  Proof.
    intros W E R. destruct (parse_build_fields i tbs a W E) as (f' & R' & _ & _ & _ & _ & Hs & _).
    rewrite R in R'. injection R' as <-. rewrite Hs. apply sign_verify.
  Qed.
End Sig.

(* ------------------------------------------------------------------ *)
(* non-vacuity: a template with every generated extension, an IPv4 name
   constraint in 16-byte form with a 4-byte mask (defect 20), an unknown extra
   extension, issued under the pool's Ed25519 key *)
Definition ex_name : name := [[([2; 5; 4; 3], [108; 101; 97; 102])]; [([2; 5; 4; 10], [98]); ([2; 5; 4; 10], [97])]].
Definition ex_tmpl : tmpl :=
  mk_tmpl 4660%Z 0 (Build_civil 2026 1 2 3 4 5) (Build_civil 2050 1 2 3 4 5) ex_name 5
    [1] [[1; 2; 3]] true true 0%Z true [1; 2; 3] [4; 5] [[104]] [[105]] [[97; 46; 98]] [[120; 64; 121]]
    [v4_in_v6_prefix ++ [10; 1; 2; 3]] [[2; 5; 29; 32; 0]] true
    (Build_ncset [] [[46; 97]] [ex_name] [(v4_in_v6_prefix ++ [10; 0; 0; 0], [255; 0; 0; 0])]) nc0
    [[99]] [([1; 2; 3; 4], true, [5; 0])].
Definition ex_input : input := mk_input KEd ex_name (spki 7) ex_tmpl.

Lemma ex_wf : wf_input ex_input.
Proof.
  constructor; [constructor|reflexivity|].
  - reflexivity.
  - reflexivity.
  - reflexivity.
  - cbn. lia.
  - reflexivity.
  - intros o [<-|[]]. vm_compute. reflexivity.
  - intros _. cbn. lia.
  - reflexivity.
  - reflexivity.
  - reflexivity.
  - reflexivity.
  - reflexivity.
  - repeat constructor. cbn. intros H. repeat (destruct H as [H|H]; [discriminate|]). exact H.
  - vm_compute. do 4 eexists. split; reflexivity.
Qed.

(* the example builds, parses, and shows the boundary behaviours: IPv4 SAN and
   name-constraint range in 4 bytes, MaxPathLen 0 with MaxPathLenZero, eleven
   extensions (ten generated + one extra).  Stated as a closed boolean so that
   it is checked by evaluation of closed terms only. *)
Definition ex_check : bool :=
  match build_tbs ex_input with
  | Some (tbs, a) =>
      match read_tbs tbs with
      | Some f =>
          list_eqb bytes_eqb (f_ips f) [[10; 1; 2; 3]] &&
          list_eqb ipnet_eqb (nc_ip (f_perm f)) [([10; 0; 0; 0], [255; 0; 0; 0])] &&
          (f_mpl f =? 0)%Z && f_mplzero f && (length (f_exts f) =? 11)%nat
      | None => false
      end
  | None => false
  end.

Lemma ex_builds : ex_check = true.
Proof. vm_compute. reflexivity. Qed.

(* defect 20 as found: appending the mask to the 16-byte form gives a 20-byte
   iPAddress, which the reader refuses *)
Definition old_ip_and_mask (n : ipnet) : bytes := fst n ++ snd n.
Lemma defect20_witness :
  let n := (v4_in_v6_prefix ++ [10; 0; 0; 0], [255; 0; 0; 0]) in
  read_subtrees [subtree (Prim 2 7 (old_ip_and_mask n))] = None /\
  read_subtrees [subtree (Prim 2 7 (ip_and_mask n))] = Some (ncset_add_ip ncset_nil ([10; 0; 0; 0], [255; 0; 0; 0])).
Proof. split; reflexivity. Qed.
