(* C30Proofs — round trip and truncation rejection for the part-1 message kinds
   (instances of the generic WireTLS theorems, plus the hand-mirrored certificateMsg). *)
From Coq Require Import List NArith Bool Arith Lia.
From Verif Require Import Harness WireTLS.
From VerifModel Require Import C30.
Import ListNotations.
Open Scope N_scope.

Lemma fmt_of_ok k has : fmt_ok (fmt_of k has) = true.
Proof. destruct k, has; reflexivity. Qed.

Lemma map_unVB l : map unVB (map VB l) = l.
Proof. induction l as [|x l IH]; simpl; [reflexivity|now rewrite IH]. Qed.

Lemma map_unVN l : map unVN (map VN l) = l.
Proof. induction l as [|x l IH]; simpl; [reflexivity|now rewrite IH]. Qed.

Lemma is_nil_true {A} (l : list A) : is_nil l = true -> l = [].
Proof. destruct l; [reflexivity|discriminate]. Qed.

(* of_val inverts to_val on canonical values *)
Lemma of_to_val m : is_dsl (kind_of m) = true -> canonical m = true ->
  of_val (kind_of m) (has_of m) (to_val m) = m.
Proof.
  intros HK HC. destruct m; simpl in *; try reflexivity; try discriminate.
  - destruct update_requested; reflexivity.
  - destruct has; simpl in *; [reflexivity|]. apply N.eqb_eq in HC. now subst.
  - destruct has; simpl in *.
    + now rewrite map_unVN, map_unVB.
    + apply is_nil_true in HC. subst. now rewrite map_unVB.
  - now rewrite map_unVB.
Qed.

(* ---------- certificateMsg ---------- *)
Lemma certs_loop_enc : forall certs body fuel,
  all_nonempty certs = true -> concat_lp 3 certs = Some body -> (length body <= fuel)%nat ->
  certs_loop fuel body = Some certs.
Proof.
  induction certs as [|c certs IH]; intros body fuel Hne He Hf.
  - simpl in He. inversion He. destruct fuel; reflexivity.
  - simpl in He. destruct (wr_lp 3 c) as [a|] eqn:W; [|discriminate].
    destruct (concat_lp 3 certs) as [b|] eqn:Cb; [|discriminate]. inversion He; subst body.
    simpl in Hne. apply andb_prop in Hne as [Hc Hrest].
    pose proof W as W'. apply wr_lp_some in W' as [_ Ea].
    assert (La : (4 <= length a)%nat).
    { rewrite Ea, app_length, be_enc_length. destruct c; [discriminate|simpl; lia]. }
    destruct fuel as [|k]; [rewrite app_length in Hf; lia|].
    assert (Hk : (length b <= k)%nat) by (rewrite app_length in Hf; lia).
    assert (Hnil : a ++ b <> []) by (destruct a; [simpl in La; lia|discriminate]).
    cbn [certs_loop]. destruct (a ++ b) as [|x0 t0] eqn:Eab; [contradiction|]. rewrite <- Eab.
    replace (blen (a ++ b) <? 4) with false.
    2:{ symmetry. apply N.ltb_ge. rewrite blen_app. unfold blen. lia. }
    rewrite (rd_lp_wr 3 c a b W).
    now rewrite (IH b k Hrest eq_refl Hk).
Qed.

Lemma blen_cons (x : N) l : blen (x :: l) = 1 + blen l.
Proof. unfold blen. cbn [length]. lia. Qed.

Lemma certificate_roundtrip certs e :
  all_nonempty certs = true -> enc_certificate certs = Some e -> dec_certificate e = Some certs.
Proof.
  intros Hne He. unfold enc_certificate in He.
  destruct (concat_lp 3 certs) as [body|] eqn:Cb; [|discriminate].
  destruct (wr_lp 3 body) as [l1|] eqn:W1; [|discriminate].
  destruct (wr_lp 3 l1) as [l2|] eqn:W2; [|discriminate]. inversion He; subst e.
  pose proof W1 as W1'. apply wr_lp_some in W1' as [Hb ->]. apply wr_lp_some in W2 as [_ ->].
  unfold dec_certificate.
  set (h := be_enc 3 (blen (be_enc 3 (blen body) ++ body))).
  replace (blen (11 :: h ++ be_enc 3 (blen body) ++ body) <? 7) with false.
  2:{ symmetry. apply N.ltb_ge. rewrite blen_cons, !blen_app. unfold h. rewrite !blen_be_enc. lia. }
  change (11 :: h ++ be_enc 3 (blen body) ++ body) with ((11 :: h) ++ (be_enc 3 (blen body) ++ body)).
  rewrite rd_bytes_app' by (rewrite blen_cons; unfold h; rewrite blen_be_enc; reflexivity).
  rewrite rd_uint_enc by exact Hb.
  rewrite N.eqb_refl.
  now apply certs_loop_enc.
Qed.

Lemma certificate_no_prefix certs e p q :
  enc_certificate certs = Some e -> e = p ++ q -> q <> [] -> dec_certificate p = None.
Proof.
  intros He E Hq. unfold enc_certificate in He.
  destruct (concat_lp 3 certs) as [body|] eqn:Cb; [|discriminate].
  destruct (wr_lp 3 body) as [l1|] eqn:W1; [|discriminate].
  destruct (wr_lp 3 l1) as [l2|] eqn:W2; [|discriminate]. inversion He; subst e.
  apply wr_lp_some in W1 as [Hb ->]. apply wr_lp_some in W2 as [_ ->].
  assert (Hq0 : blen q <> 0) by (intro Z; apply blen_nil_iff in Z; contradiction).
  unfold dec_certificate.
  destruct (blen p <? 7) eqn:L7; [reflexivity|]. apply N.ltb_ge in L7.
  set (h := be_enc 3 (blen (be_enc 3 (blen body) ++ body))) in *.
  (* p covers the 7 header bytes *)
  change (11 :: h ++ be_enc 3 (blen body) ++ body) with ((11 :: h) ++ (be_enc 3 (blen body) ++ body)) in H0.
  rewrite app_assoc in H0.
  apply app_split in H0 as [[l [Hl [E1 E2]]]|[l [E1 E2]]].
  - exfalso.
    assert (HL : blen ((11 :: h) ++ be_enc 3 (blen body)) = blen p + blen l) by (rewrite E1; apply blen_app).
    rewrite blen_app, blen_cons in HL. unfold h in HL. rewrite !blen_be_enc in HL.
    assert (blen l <> 0) by (intro Z; apply blen_nil_iff in Z; contradiction). lia.
  - subst p. rewrite <- app_assoc.
    rewrite rd_bytes_app' by (rewrite blen_cons; unfold h; rewrite blen_be_enc; reflexivity).
    rewrite rd_uint_enc by exact Hb.
    replace (blen l =? blen body) with false; [reflexivity|].
    symmetry. apply N.eqb_neq. rewrite E2, blen_app. lia.
Qed.

(* ---------- all kinds whose codec is a DSL format ---------- *)
Lemma valid_split m : is_dsl (kind_of m) = true -> valid m = true ->
  wf (fmt_of (kind_of m) (has_of m)) (to_val m) = true /\ canonical m = true.
Proof.
  intros HK Hv. destruct m; try discriminate;
    unfold valid in Hv; apply andb_prop in Hv; exact Hv.
Qed.

Lemma enc_msg_dsl m : is_dsl (kind_of m) = true -> enc_msg m = enc (fmt_of (kind_of m) (has_of m)) (to_val m).
Proof. intros HK. destruct m; try reflexivity; discriminate. Qed.

Lemma dec_msg_dsl k has s : is_dsl k = true -> dec_msg k has s = option_map (of_val k has) (dec_all (fmt_of k has) s).
Proof. intros HK. destruct k; try reflexivity; discriminate. Qed.

Theorem roundtrip_dsl : forall m e, is_dsl (kind_of m) = true ->
  valid m = true -> enc_msg m = Some e -> dec_msg (kind_of m) (has_of m) e = Some m.
Proof.
  intros m e HK Hv He.
  destruct (valid_split m HK Hv) as [Hwf Hc].
  rewrite (enc_msg_dsl m HK) in He.
  pose proof (dec_all_enc _ _ _ (fmt_of_ok _ _) Hwf He) as D.
  rewrite (dec_msg_dsl _ _ _ HK), D. simpl option_map. now rewrite (of_to_val m HK Hc).
Qed.

Theorem no_prefix_dsl : forall m e p q, is_dsl (kind_of m) = true ->
  valid m = true -> enc_msg m = Some e -> e = p ++ q -> q <> [] ->
  dec_msg (kind_of m) (has_of m) p = None.
Proof.
  intros m e p q HK Hv He E Hq.
  destruct (valid_split m HK Hv) as [Hwf Hc].
  rewrite (enc_msg_dsl m HK) in He.
  pose proof (dec_all_strict_prefix _ _ _ p q (fmt_of_ok _ _) Hwf He E Hq) as D.
  now rewrite (dec_msg_dsl _ _ _ HK), D.
Qed.

Theorem roundtrip_cert : forall certs e,
  valid (MCert certs) = true -> enc_msg (MCert certs) = Some e -> dec_msg KCert false e = Some (MCert certs).
Proof. intros certs e Hv He. simpl in *. now rewrite (certificate_roundtrip certs e Hv He). Qed.

Theorem no_prefix_cert : forall certs e p q,
  enc_msg (MCert certs) = Some e -> e = p ++ q -> q <> [] -> dec_msg KCert false p = None.
Proof. intros certs e p q He E Hq. simpl in *. now rewrite (certificate_no_prefix certs e p q He E Hq). Qed.
