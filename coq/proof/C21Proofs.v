(* C21 — proofs about the cryptobyte model (model/C21.v). *)
From Coq Require Import List NArith ZArith Bool Arith Lia.
From Verif Require Import Harness.
From VerifModel Require Import C21.
Import ListNotations.
Open Scope N_scope.

(* ------------------------------------------------------------------ optional readers, tag absent *)
Lemma peek_tag_absent tag s : peek_tag tag s = negb (tag_absent tag (hd_error s)).
Proof. destruct s as [|b s]; cbn; [reflexivity|]. now rewrite negb_involutive. Qed.

Lemma absent_untouched : forall y s a,
  absent_value y (hd_error s) = Some a -> rd y s = Some (a, s).
Proof.
  intros y s a H.
  destruct y; cbn in H; try discriminate;
    cbn [rd]; rewrite ?peek_tag_absent;
    revert H; destruct (tag_absent _ (hd_error s)); cbn; try discriminate; intros [= <-]; reflexivity.
Qed.

(* ------------------------------------------------------------------ bytes: be_n / be_val / take *)
Definition bytes_ok (l : bytes) : Prop := Forall (fun b => b < 256) l.

Lemma blen_app a b : blen (a ++ b) = blen a + blen b.
Proof. unfold blen. rewrite app_length. lia. Qed.
Lemma blen_cons a l : blen (a :: l) = 1 + blen l.
Proof. unfold blen. cbn [length]. lia. Qed.
Lemma blen_nil : blen [] = 0.
Proof. reflexivity. Qed.

Lemma be_n_length k n : length (be_n k n) = k.
Proof. revert n; induction k as [|k IH]; intro n; cbn [be_n]; [reflexivity|]. rewrite app_length, IH. cbn. lia. Qed.
Lemma blen_be_n k n : blen (be_n k n) = N.of_nat k.
Proof. unfold blen. now rewrite be_n_length. Qed.

Lemma be_val_snoc l b : be_val (l ++ [b]) = be_val l * 256 + b.
Proof. unfold be_val. now rewrite fold_left_app. Qed.
Lemma be_val_nil : be_val [] = 0.
Proof. reflexivity. Qed.

Lemma pow256_succ k : 256 ^ N.of_nat (S k) = 256 * 256 ^ N.of_nat k.
Proof. rewrite Nat2N.inj_succ, N.pow_succ_r'. reflexivity. Qed.

Lemma be_val_be_n k n : be_val (be_n k n) = n mod 256 ^ N.of_nat k.
Proof.
  revert n; induction k as [|k IH]; intro n.
  - cbn. now rewrite N.mod_1_r.
  - cbn [be_n]. rewrite be_val_snoc, IH, pow256_succ.
    assert (H256 : 256 <> 0) by lia.
    assert (Hp : 256 ^ N.of_nat k <> 0) by (apply N.pow_nonzero; lia).
    rewrite N.mod_mul_r by assumption. lia.
Qed.

Lemma be_val_be_n_small k n : n < 256 ^ N.of_nat k -> be_val (be_n k n) = n.
Proof. intro H. rewrite be_val_be_n. now apply N.mod_small. Qed.

Lemma be_n_bytes_ok k n : bytes_ok (be_n k n).
Proof.
  revert n; induction k as [|k IH]; intro n; cbn [be_n]; [constructor|].
  apply Forall_app; split; [apply IH|]. constructor; [|constructor]. apply N.mod_lt. lia.
Qed.

(* most significant byte first *)
Lemma be_n_cons k n : be_n (S k) n = (n / 256 ^ N.of_nat k) mod 256 :: be_n k n.
Proof.
  revert n; induction k as [|k IH]; intro n.
  - cbn. now rewrite N.div_1_r.
  - change (be_n (S (S k)) n) with (be_n (S k) (n / 256) ++ [n mod 256]).
    rewrite IH. cbn [app be_n]. f_equal.
    rewrite pow256_succ, N.div_div by (try apply N.pow_nonzero; lia). reflexivity.
Qed.

Lemma be_val_cons b l : be_val (b :: l) = b * 256 ^ blen l + be_val l.
Proof.
  revert b; induction l as [|x l IH] using rev_ind; intro b.
  - cbn. lia.
  - change (b :: l ++ [x]) with ((b :: l) ++ [x]). rewrite !be_val_snoc, IH, blen_app.
    change (blen [x]) with 1. rewrite N.add_1_r, N.pow_succ_r'. lia.
Qed.

Lemma be_val_lt l : bytes_ok l -> be_val l < 256 ^ blen l.
Proof.
  induction 1 as [|b l Hb Hl IH].
  - cbn. lia.
  - rewrite be_val_cons, blen_cons, N.add_1_l, N.pow_succ_r'. nia.
Qed.

Lemma be_n_be_val l : bytes_ok l -> be_n (length l) (be_val l) = l.
Proof.
  induction l as [|x l IH] using rev_ind; intro H; [reflexivity|].
  apply Forall_app in H as [Hl Hx]. inversion Hx as [|? ? Hx' _]; subst.
  rewrite app_length, Nat.add_comm. cbn [length plus be_n].
  rewrite be_val_snoc.
  replace ((be_val l * 256 + x) / 256) with (be_val l).
  2:{ apply N.div_unique with x; lia. }
  replace ((be_val l * 256 + x) mod 256) with x.
  2:{ apply N.mod_unique with (be_val l); lia. }
  now rewrite IH.
Qed.

Lemma take_app a b : take (blen a) (a ++ b) = Some (a, b).
Proof.
  unfold take. rewrite blen_app.
  replace (blen a <=? blen a + blen b) with true by (symmetry; apply N.leb_le; lia).
  unfold blen. rewrite Nat2N.id, firstn_app, skipn_app, Nat.sub_diag, firstn_all, skipn_all. cbn.
  now rewrite app_nil_r.
Qed.
Lemma take_app' n a b : n = blen a -> take n (a ++ b) = Some (a, b).
Proof. intros ->. apply take_app. Qed.

Lemma take_spec n s a b : take n s = Some (a, b) -> s = a ++ b /\ blen a = n.
Proof.
  unfold take. destruct (n <=? blen s) eqn:E; [|discriminate]. intros [= <- <-].
  apply N.leb_le in E. split; [now rewrite firstn_skipn|].
  unfold blen in *. rewrite firstn_length. lia.
Qed.

(* ------------------------------------------------------------------ readASN1 on what AddASN1 wrote *)
Lemma ltb_false a b : b <= a -> (a <? b) = false.
Proof. intro. now apply N.ltb_ge. Qed.
Lemma ltb_true a b : a < b -> (a <? b) = true.
Proof. intro. now apply N.ltb_lt. Qed.
Lemma leb_true a b : a <= b -> (a <=? b) = true.
Proof. intro. now apply N.leb_le. Qed.
Lemma leb_false a b : b < a -> (a <=? b) = false.
Proof. intro. now apply N.leb_gt. Qed.
Lemma eqb_false a b : a <> b -> (a =? b) = false.
Proof. intro. now apply N.eqb_neq. Qed.

Lemma read_asn1_short tag c tail :
  tag mod 32 <> 31 -> blen c < 128 ->
  read_asn1 (tag :: blen c :: c ++ tail) = Some (tag, 2, tag :: blen c :: c, tail).
Proof.
  intros Ht Hc. unfold read_asn1.
  rewrite (eqb_false _ _ Ht), (ltb_true _ _ Hc).
  change (tag :: blen c :: c ++ tail) with ((tag :: blen c :: c) ++ tail).
  rewrite take_app'; [reflexivity|]. rewrite !blen_cons. lia.
Qed.

Lemma read_asn1_long tag k c tail :
  tag mod 32 <> 31 -> (1 <= k <= 4)%nat ->
  128 <= blen c -> 256 ^ N.of_nat (k - 1) <= blen c < 256 ^ N.of_nat k -> blen c < 4294967290 ->
  read_asn1 (tag :: (128 + N.of_nat k) :: be_n k (blen c) ++ c ++ tail)
  = Some (tag, 2 + N.of_nat k, tag :: (128 + N.of_nat k) :: be_n k (blen c) ++ c, tail).
Proof.
  intros Ht Hk H128 [Hlo Hhi] Hmax. unfold read_asn1.
  rewrite (eqb_false _ _ Ht).
  rewrite (ltb_false (128 + N.of_nat k) 128) by lia.
  assert (Hm : (128 + N.of_nat k) mod 128 = N.of_nat k).
  { symmetry. apply N.mod_unique with 1; lia. }
  rewrite Hm. cbv zeta.
  rewrite (eqb_false (N.of_nat k) 0) by lia.
  rewrite (ltb_false 4 (N.of_nat k)) by lia.
  rewrite !blen_cons, !blen_app, blen_be_n.
  rewrite (ltb_false (1 + (1 + (N.of_nat k + (blen c + blen tail)))) (2 + N.of_nat k)) by lia.
  cbn [orb skipn]. rewrite Nat2N.id.
  rewrite firstn_app, be_n_length, Nat.sub_diag, firstn_O, app_nil_r.
  rewrite firstn_all2 by (rewrite be_n_length; lia).
  rewrite be_val_be_n_small by assumption.
  rewrite (ltb_false (blen c) 128) by assumption.
  assert (Hp : 2 ^ (8 * (N.of_nat k - 1)) = 256 ^ N.of_nat (k - 1)).
  { rewrite N.pow_mul_r. change (2 ^ 8) with 256. f_equal. lia. }
  rewrite Hp.
  assert (Hd : blen c / 256 ^ N.of_nat (k - 1) <> 0).
  { intro E. apply N.div_small_iff in E; [lia|]. apply N.pow_nonzero. lia. }
  rewrite (eqb_false _ _ Hd).
  rewrite (N.mod_small (2 + N.of_nat k + blen c)) by lia.
  rewrite (ltb_false (2 + N.of_nat k + blen c) (blen c)) by lia.
  replace (tag :: 128 + N.of_nat k :: be_n k (blen c) ++ c ++ tail)
    with ((tag :: 128 + N.of_nat k :: be_n k (blen c) ++ c) ++ tail)
    by (cbn [app]; now rewrite <- app_assoc).
  rewrite take_app'; [reflexivity|]. rewrite !blen_cons, blen_app, blen_be_n. lia.
Qed.

(* what h_asn1 produces: tag, DER length octets, content *)
Lemma h_asn1_spec tag c el :
  h_asn1 tag (Some c) = Some el ->
  tag mod 32 <> 31 /\ exists p, asn1_len_octets (blen c) = Some p /\ el = tag :: p ++ c.
Proof.
  unfold h_asn1. destruct (tag mod 32 =? 31) eqn:E; [discriminate|]. apply N.eqb_neq in E.
  destruct (asn1_len_octets (blen c)) as [p|]; [|discriminate]. intros [= <-]. eauto.
Qed.

Lemma read_asn1_octets tag c p tail :
  tag mod 32 <> 31 -> asn1_len_octets (blen c) = Some p -> blen c < 4294967290 ->
  read_asn1 (tag :: p ++ c ++ tail) = Some (tag, 1 + blen p, tag :: p ++ c, tail).
Proof.
  intros Ht Hp Hmax. unfold asn1_len_octets in Hp.
  destruct (4294967294 <? blen c) eqn:E0; [discriminate|].
  destruct (16777215 <? blen c) eqn:E1; [|destruct (65535 <? blen c) eqn:E2;
    [|destruct (255 <? blen c) eqn:E3; [|destruct (127 <? blen c) eqn:E4]]];
    injection Hp as <-;
    rewrite ?N.ltb_lt, ?N.ltb_ge in *.
  - apply (read_asn1_long tag 4 c tail); cbn; try lia.
  - apply (read_asn1_long tag 3 c tail); cbn; try lia.
  - apply (read_asn1_long tag 2 c tail); cbn; try lia.
  - apply (read_asn1_long tag 1 c tail); cbn; try lia.
  - cbn [app]. apply read_asn1_short; [assumption|lia].
Qed.

Lemma skipn_blen_app (a b : bytes) : skipn (N.to_nat (blen a)) (a ++ b) = b.
Proof. unfold blen. rewrite Nat2N.id, skipn_app, Nat.sub_diag, skipn_all. reflexivity. Qed.

(* the four readers of an element built by AddASN1 *)
Lemma read_any_asn1_built tag c el tail :
  h_asn1 tag (Some c) = Some el -> blen c < 4294967290 ->
  read_any_asn1 (el ++ tail) = Some (tag, c, tail) /\
  read_any_asn1_element (el ++ tail) = Some (tag, el, tail).
Proof.
  intros H Hmax. apply h_asn1_spec in H as (Ht & p & Hp & ->).
  unfold read_any_asn1, read_any_asn1_element.
  replace ((tag :: p ++ c) ++ tail) with (tag :: p ++ c ++ tail) by (cbn [app]; now rewrite <- app_assoc).
  rewrite (read_asn1_octets tag c p tail Ht Hp Hmax). split; [|reflexivity].
  do 3 f_equal.
  change (tag :: p ++ c) with ((tag :: p) ++ c).
  replace (1 + blen p) with (blen (tag :: p)) by (rewrite blen_cons; lia).
  apply skipn_blen_app.
Qed.

Lemma read_asn1_tag_built tag c el tail :
  h_asn1 tag (Some c) = Some el -> blen c < 4294967290 ->
  read_asn1_tag tag (el ++ tail) = Some (c, tail).
Proof.
  intros H Hmax. unfold read_asn1_tag.
  destruct (read_any_asn1_built tag c el tail H Hmax) as [-> _]. now rewrite N.eqb_refl.
Qed.
Lemma read_asn1_element_tag_built tag c el tail :
  h_asn1 tag (Some c) = Some el -> blen c < 4294967290 ->
  read_asn1_element_tag tag (el ++ tail) = Some (el, tail).
Proof.
  intros H Hmax. unfold read_asn1_element_tag.
  destruct (read_any_asn1_built tag c el tail H Hmax) as [_ ->]. now rewrite N.eqb_refl.
Qed.
Lemma h_asn1_hd tag c el : h_asn1 tag c = Some el -> exists t, el = tag :: t.
Proof.
  unfold h_asn1. destruct (tag mod 32 =? 31); [discriminate|]. destruct c as [c|]; [|discriminate].
  destruct (asn1_len_octets (blen c)); [|discriminate]. intros [= <-]. eauto.
Qed.
Lemma h_asn1_len tag c el : h_asn1 tag (Some c) = Some el -> blen c <= blen el.
Proof.
  intro H. apply h_asn1_spec in H as (_ & p & _ & ->). rewrite blen_cons, blen_app. lia.
Qed.

(* ------------------------------------------------------------------ two's complement: spec *)
Definition pw (k : nat) : Z := (256 ^ Z.of_nat k)%Z.
Lemma pw_pos k : (0 < pw k)%Z.
Proof. unfold pw. apply Z.pow_pos_nonneg; lia. Qed.
Lemma pw_S k : pw (S k) = (256 * pw k)%Z.
Proof. unfold pw. rewrite Nat2Z.inj_succ, Z.pow_succ_r by lia. reflexivity. Qed.
Lemma pw_0 : pw 0 = 1%Z.
Proof. reflexivity. Qed.
Lemma pw_N k : Z.of_N (256 ^ N.of_nat k) = pw k.
Proof. unfold pw. rewrite N2Z.inj_pow, nat_N_Z. reflexivity. Qed.
Lemma pw_blen l : Z.of_N (256 ^ blen l) = pw (length l).
Proof. apply pw_N. Qed.
Lemma pw_mono j k : (j <= k)%nat -> (pw j <= pw k)%Z.
Proof. intro H. unfold pw. apply Z.pow_le_mono_r; lia. Qed.

(* z fits in k bytes of two's complement: -256^k/2 <= z < 256^k/2 *)
Definition in_range (k : nat) (z : Z) : Prop := (- pw k <= 2 * z < pw k)%Z.
Definition minimal (k : nat) (z : Z) : Prop := k = 1%nat \/ ~ in_range (k - 1) z.
(* the k-byte two's complement representation *)
Definition tc (k : nat) (z : Z) : bytes := be_n k (Z.to_N (z mod pw k)).

Lemma in_range_S k z : in_range k z -> in_range (S k) z.
Proof. unfold in_range. rewrite pw_S. pose proof (pw_pos k). lia. Qed.
Lemma in_range_mono j k z : (j <= k)%nat -> in_range j z -> in_range k z.
Proof. induction 1; [auto|]. intro. apply in_range_S. auto. Qed.

Lemma minimal_unique j k z :
  (1 <= j)%nat -> (1 <= k)%nat -> in_range j z -> minimal j z -> in_range k z -> minimal k z -> j = k.
Proof.
  intros Hj Hk Rj Mj Rk Mk.
  destruct (Nat.lt_trichotomy j k) as [L|[E|L]]; [|assumption|].
  - destruct Mk as [->|Mk]; [lia|]. exfalso. apply Mk. apply (in_range_mono j); [lia|assumption].
  - destruct Mj as [->|Mj]; [lia|]. exfalso. apply Mj. apply (in_range_mono k); [lia|assumption].
Qed.

Lemma tc_length k z : length (tc k z) = k.
Proof. apply be_n_length. Qed.
Lemma tc_bytes_ok k z : bytes_ok (tc k z).
Proof. apply be_n_bytes_ok. Qed.

Lemma be_val_tc k z : Z.of_N (be_val (tc k z)) = (z mod pw k)%Z.
Proof.
  unfold tc. pose proof (pw_pos k) as Hp. pose proof (Z.mod_pos_bound z (pw k) Hp) as Hm.
  rewrite be_val_be_n_small; [apply Z2N.id; lia|].
  apply N2Z.inj_lt. rewrite pw_N, Z2N.id; lia.
Qed.

(* first byte of the representation: the top byte of z mod 256^(k+1) *)
Lemma tc_S k z : tc (S k) z = Z.to_N ((z mod pw (S k)) / pw k) :: be_n k (Z.to_N (z mod pw (S k))).
Proof.
  unfold tc. rewrite be_n_cons. f_equal.
  pose proof (pw_pos k) as Hp. pose proof (pw_pos (S k)) as Hp'.
  pose proof (Z.mod_pos_bound z (pw (S k)) Hp') as Hm.
  set (u := (z mod pw (S k))%Z) in *.
  apply N2Z.inj. rewrite N2Z.inj_mod, N2Z.inj_div, pw_N, !Z2N.id; try lia.
  2:{ apply Z.div_pos; lia. }
  apply Z.mod_small. split; [apply Z.div_pos; lia|].
  apply Z.div_lt_upper_bound; [lia|]. rewrite pw_S in Hm. lia.
Qed.

(* ------------------------------------------------------------------ readASN1BigInt as arithmetic *)
Lemma compl_length l : length (compl l) = length l.
Proof. apply map_length. Qed.
Lemma be_val_compl l : bytes_ok l -> be_val (compl l) + be_val l + 1 = 256 ^ blen l.
Proof.
  induction 1 as [|b l Hb Hl IH]; [reflexivity|].
  cbn [compl map]. fold (compl l). rewrite !be_val_cons, blen_cons.
  replace (blen (compl l)) with (blen l) by (unfold blen; now rewrite compl_length).
  rewrite N.add_1_l, N.pow_succ_r'. set (p := 256 ^ blen l) in *.
  assert (E : (255 - b) * p + b * p = 255 * p) by (rewrite <- N.mul_add_distr_r; f_equal; lia).
  lia.
Qed.

Lemma bigint_of_bytes_spec b l : bytes_ok (b :: l) ->
  bigint_of_bytes (b :: l) =
  (Z.of_N (be_val (b :: l)) - (if (128 <=? b)%N then pw (S (length l)) else 0))%Z.
Proof.
  intro Hok. unfold bigint_of_bytes. destruct (128 <=? b); [|lia].
  pose proof (be_val_compl _ Hok) as E. apply (f_equal Z.of_N) in E.
  rewrite pw_blen in E. cbn [length] in E. lia.
Qed.

Lemma hd_ge_128 b l : bytes_ok (b :: l) ->
  (128 <=? b) = (128 * 256 ^ blen l <=? be_val (b :: l)).
Proof.
  intro Hok. inversion Hok as [|? ? Hb Hl]; subst. pose proof (be_val_lt l Hl) as Hv.
  rewrite be_val_cons. set (p := 256 ^ blen l) in *.
  destruct (128 <=? b) eqn:E; symmetry; [apply N.leb_le; apply N.leb_le in E; nia|].
  apply N.leb_gt. apply N.leb_gt in E. nia.
Qed.

(* decoding the k-byte representation of an in-range z gives z back *)
Lemma bigint_of_tc k z : (1 <= k)%nat -> in_range k z -> bigint_of_bytes (tc k z) = z.
Proof.
  intros Hk R. destruct k as [|k]; [lia|]. clear Hk.
  pose proof (tc_bytes_ok (S k) z) as Hok. pose proof (be_val_tc (S k) z) as Hv.
  pose proof (tc_length (S k) z) as Hlen.
  destruct (tc (S k) z) as [|b l] eqn:E; [discriminate|].
  rewrite bigint_of_bytes_spec by assumption. rewrite Hv.
  rewrite (hd_ge_128 b l Hok).
  cbn [length] in Hlen. injection Hlen as Hlen. rewrite Hlen.
  unfold in_range in R. pose proof (pw_pos k) as Hp. rewrite pw_S in *.
  assert (Hpl : Z.of_N (256 ^ blen l) = pw k) by (rewrite pw_blen; now rewrite Hlen).
  destruct (128 * 256 ^ blen l <=? be_val (b :: l)) eqn:C.
  - apply N.leb_le in C. apply N2Z.inj_le in C. rewrite N2Z.inj_mul, Hpl, Hv in C.
    assert (z < 0)%Z.
    { destruct (Z.neg_nonneg_cases z) as [?|Hz]; [assumption|]. rewrite Z.mod_small in C by lia. lia. }
    rewrite <- (Z.mod_unique z (256 * pw k) (-1) (z + 256 * pw k)); lia.
  - apply N.leb_gt in C. apply N2Z.inj_lt in C. rewrite N2Z.inj_mul, Hpl, Hv in C.
    assert (0 <= z)%Z.
    { destruct (Z.neg_nonneg_cases z) as [Hz|?]; [|assumption].
      rewrite <- (Z.mod_unique z (256 * pw k) (-1) (z + 256 * pw k)) in C; lia. }
    rewrite Z.mod_small by lia. lia.
Qed.

(* checkASN1Integer as arithmetic on the unsigned value of the octets *)
Lemma check_spec b0 b1 l : bytes_ok (b0 :: b1 :: l) ->
  check_asn1_integer (b0 :: b1 :: l) =
  negb ((be_val (b0 :: b1 :: l) <? 128 * 256 ^ blen l) || (65408 * 256 ^ blen l <=? be_val (b0 :: b1 :: l))).
Proof.
  intro Hok. inversion Hok as [|? ? H0 Hok1]; subst. inversion Hok1 as [|? ? H1 Hl]; subst.
  pose proof (be_val_lt l Hl) as Hv.
  rewrite (be_val_cons b0), (be_val_cons b1), blen_cons, N.add_1_l, N.pow_succ_r'.
  set (q := 256 ^ blen l) in *. set (v := be_val l) in *.
  cbn [check_asn1_integer]. f_equal.
  assert (Hq : 0 < q) by (unfold q; apply N.neq_0_lt_0, N.pow_nonzero; lia).
  f_equal.
  - destruct (b0 * (256 * q) + (b1 * q + v) <? 128 * q) eqn:C.
    + apply N.ltb_lt in C. assert (b0 = 0) by nia. subst b0. assert (b1 < 128) by nia.
      rewrite N.eqb_refl, ltb_true by assumption. reflexivity.
    + apply N.ltb_ge in C. destruct (b0 =? 0) eqn:E0; [|reflexivity]. apply N.eqb_eq in E0. subst b0.
      cbn [andb]. apply ltb_false. nia.
  - destruct (65408 * q <=? b0 * (256 * q) + (b1 * q + v)) eqn:C.
    + apply N.leb_le in C. assert (b0 = 255) by nia. subst b0. assert (128 <= b1) by nia.
      rewrite N.eqb_refl, leb_true by assumption. reflexivity.
    + apply N.leb_gt in C. destruct (b0 =? 255) eqn:E0; [|reflexivity]. apply N.eqb_eq in E0. subst b0.
      cbn [andb]. apply leb_false. nia.
Qed.

(* any non-empty octet string is the representation of the integer it decodes to *)
Lemma bigint_in_range b l : bytes_ok (b :: l) -> in_range (S (length l)) (bigint_of_bytes (b :: l)).
Proof.
  intro Hok. rewrite bigint_of_bytes_spec by assumption. rewrite (hd_ge_128 b l Hok).
  pose proof (be_val_lt _ Hok) as Hu. apply N2Z.inj_lt in Hu. rewrite pw_blen in Hu. cbn [length] in Hu.
  unfold in_range. rewrite pw_S in *. pose proof (pw_pos (length l)) as Hp.
  destruct (128 * 256 ^ blen l <=? be_val (b :: l)) eqn:C.
  - apply N.leb_le, N2Z.inj_le in C. rewrite N2Z.inj_mul, pw_blen in C. lia.
  - apply N.leb_gt, N2Z.inj_lt in C. rewrite N2Z.inj_mul, pw_blen in C. lia.
Qed.

Lemma bigint_mod b l : bytes_ok (b :: l) ->
  (bigint_of_bytes (b :: l) mod pw (S (length l)))%Z = Z.of_N (be_val (b :: l)).
Proof.
  intro Hok. rewrite bigint_of_bytes_spec by assumption.
  pose proof (be_val_lt _ Hok) as Hu. apply N2Z.inj_lt in Hu. rewrite pw_blen in Hu. cbn [length] in Hu.
  pose proof (pw_pos (S (length l))) as Hp.
  destruct (128 <=? b).
  - symmetry. apply (Z.mod_unique _ _ (-1)); lia.
  - rewrite Z.sub_0_r. apply Z.mod_small. lia.
Qed.

Lemma tc_of_bigint b l : bytes_ok (b :: l) -> tc (S (length l)) (bigint_of_bytes (b :: l)) = b :: l.
Proof.
  intro Hok. unfold tc. rewrite bigint_mod by assumption. rewrite N2Z.id.
  apply (be_n_be_val (b :: l) Hok).
Qed.

Lemma pw_le_N j k : (j <= k)%nat -> 256 ^ N.of_nat j <= 256 ^ N.of_nat k.
Proof. intro. apply N.pow_le_mono_r; lia. Qed.

(* minimality of the representation <-> checkASN1Integer *)
Lemma check_iff_minimal bs : bytes_ok bs -> bs <> [] ->
  (check_asn1_integer bs = true <-> minimal (length bs) (bigint_of_bytes bs)).
Proof.
  intros Hok Hne. destruct bs as [|b0 [|b1 l]]; [congruence| |].
  - cbn. split; [left; reflexivity|reflexivity].
  - rewrite check_spec by assumption.
    rewrite bigint_of_bytes_spec by assumption. rewrite (hd_ge_128 b0 (b1 :: l) Hok).
    pose proof (be_val_lt _ Hok) as Hu. apply N2Z.inj_lt in Hu. rewrite pw_blen in Hu.
    unfold minimal. cbn [length] in *. replace (S (S (length l)) - 1)%nat with (S (length l)) by lia.
    unfold in_range. rewrite blen_cons, N.add_1_l, N.pow_succ_r'.
    set (u := be_val (b0 :: b1 :: l)) in *.
    rewrite !pw_S in *. pose proof (pw_pos (length l)) as Hp.
    assert (Hq : Z.of_N (256 ^ blen l) = pw (length l)) by apply pw_blen.
    set (q := 256 ^ blen l) in *. set (p := pw (length l)) in *.
    split.
    + intro H. right. apply negb_true_iff, orb_false_iff in H as [H1 H2].
      apply N.ltb_ge, N2Z.inj_le in H1. apply N.leb_gt, N2Z.inj_lt in H2.
      rewrite N2Z.inj_mul, Hq in H1, H2.
      destruct (128 * (256 * q) <=? u) eqn:C.
      * apply N.leb_le, N2Z.inj_le in C. rewrite !N2Z.inj_mul, Hq in C. lia.
      * apply N.leb_gt, N2Z.inj_lt in C. rewrite !N2Z.inj_mul, Hq in C. lia.
    + intros [H|H]; [lia|]. apply negb_true_iff, orb_false_iff. split.
      * apply N.ltb_ge. apply N2Z.inj_le. rewrite N2Z.inj_mul, Hq.
        destruct (128 * (256 * q) <=? u) eqn:C.
        -- apply N.leb_le, N2Z.inj_le in C. rewrite !N2Z.inj_mul, Hq in C. lia.
        -- apply N.leb_gt, N2Z.inj_lt in C. rewrite !N2Z.inj_mul, Hq in C. lia.
      * apply N.leb_gt. apply N2Z.inj_lt. rewrite N2Z.inj_mul, Hq.
        destruct (128 * (256 * q) <=? u) eqn:C.
        -- apply N.leb_le, N2Z.inj_le in C. rewrite !N2Z.inj_mul, Hq in C. lia.
        -- apply N.leb_gt, N2Z.inj_lt in C. rewrite !N2Z.inj_mul, Hq in C. lia.
Qed.

Lemma check_tc k z : (1 <= k)%nat -> in_range k z -> minimal k z -> check_asn1_integer (tc k z) = true.
Proof.
  intros Hk R M. pose proof (tc_bytes_ok k z) as Hok. pose proof (tc_length k z) as Hlen.
  assert (Hne : tc k z <> []) by (intro E; rewrite E in Hlen; cbn in Hlen; lia).
  apply (check_iff_minimal _ Hok Hne). rewrite Hlen, (bigint_of_tc k z Hk R). assumption.
Qed.

(* ------------------------------------------------------------------ the 64-bit readers agree with the arbitrary-precision one *)
Lemma pow2_8 k : 2 ^ (8 * N.of_nat k) = 256 ^ N.of_nat k.
Proof. rewrite N.pow_mul_r. reflexivity. Qed.

Lemma lo64_mod x : lo64 x = x mod two64.
Proof. unfold lo64, two64. change 18446744073709551615 with (N.ones 64). apply N.land_ones. Qed.

Lemma asn1_signed_eq b l : bytes_ok (b :: l) -> (length l < 8)%nat ->
  asn1_signed (b :: l) = Some (bigint_of_bytes (b :: l)).
Proof.
  intros Hok Hlen. rewrite bigint_of_bytes_spec by assumption. rewrite (hd_ge_128 b l Hok).
  pose proof (be_val_lt _ Hok) as Hu. unfold asn1_signed. rewrite !lo64_mod.
  rewrite blen_cons in *. set (n := length l) in *.
  assert (Hbl : blen l = N.of_nat n) by reflexivity. rewrite Hbl in *.
  rewrite (ltb_false 8 (1 + N.of_nat n)) by lia.
  set (u := be_val (b :: l)) in *.
  set (sh := 64 - 8 * (1 + N.of_nat n)).
  assert (Hsplit : two64 = 2 ^ sh * 256 ^ (1 + N.of_nat n)).
  { unfold two64, sh. change 18446744073709551616 with (2 ^ 64).
    replace (1 + N.of_nat n) with (N.of_nat (S n)) by lia. rewrite <- pow2_8, <- N.pow_add_r. f_equal. lia. }
  assert (Hs : 0 < 2 ^ sh) by (apply N.neq_0_lt_0, N.pow_nonzero; lia).
  set (S := 2 ^ sh) in *.
  rewrite N.add_1_l, N.pow_succ_r' in *. set (p := 256 ^ N.of_nat n) in *.
  assert (Hp : 0 < p) by (apply N.neq_0_lt_0, N.pow_nonzero; lia).
  assert (Hu64 : u < two64) by nia.
  rewrite (N.mod_small u two64) by assumption.
  assert (Hx : u * S < two64) by nia.
  rewrite (N.mod_small (u * S) two64) by assumption.
  assert (H63 : two63 = S * (128 * p)) by (unfold two63, two64 in *; lia).
  f_equal. rewrite Z.shiftr_div_pow2 by lia.
  assert (HS : (2 ^ Z.of_N sh)%Z = Z.of_N S) by (unfold S; rewrite N2Z.inj_pow; reflexivity).
  rewrite HS. rewrite pw_S. assert (Hpz : pw n = Z.of_N p) by (unfold p; now rewrite pw_N). rewrite Hpz.
  destruct (128 * p <=? u) eqn:C.
  - apply N.leb_le in C. rewrite (ltb_false (u * S) two63) by nia.
    replace (Z.of_N (u * S) - Z.of_N two64)%Z with ((Z.of_N u - 256 * Z.of_N p) * Z.of_N S)%Z by nia.
    apply Z.div_mul. lia.
  - apply N.leb_gt in C. rewrite (ltb_true (u * S) two63) by nia.
    rewrite N2Z.inj_mul, Z.div_mul by lia. lia.
Qed.

Lemma asn1_unsigned_eq bs n : bytes_ok bs -> asn1_unsigned bs = Some n ->
  bigint_of_bytes bs = Z.of_N n /\ n < two64.
Proof.
  intros Hok H. destruct bs as [|b l]; [discriminate|]. cbn [asn1_unsigned] in H.
  destruct ((9 <? blen (b :: l)) || ((blen (b :: l) =? 9) && negb (b =? 0))) eqn:E; [discriminate|].
  destruct (128 <=? b) eqn:E1; [discriminate|]. injection H as <-. rewrite lo64_mod.
  rewrite bigint_of_bytes_spec by assumption. rewrite E1.
  apply orb_false_iff in E as [E2 E3]. apply N.ltb_ge in E2.
  pose proof (be_val_lt _ Hok) as Hu. inversion Hok as [|? ? Hb Hl]; subst.
  pose proof (be_val_lt _ Hl) as Hv.
  assert (Hlt : be_val (b :: l) < two64).
  { rewrite blen_cons in *.
    destruct (blen l =? 8) eqn:E8.
    - apply N.eqb_eq in E8. rewrite E8 in *. change (1 + 8 =? 9) with true in E3. cbn [andb] in E3.
      apply negb_false_iff, N.eqb_eq in E3. subst b. rewrite be_val_cons. rewrite E8.
      change (256 ^ 8) with two64 in Hv. lia.
    - apply N.eqb_neq in E8. assert (Hle : 1 + blen l <= 8) by lia.
      eapply N.lt_le_trans; [exact Hu|]. change two64 with (256 ^ 8). apply N.pow_le_mono_r; lia. }
  split; [|apply N.mod_lt; unfold two64; lia].
  rewrite N.mod_small by assumption. lia.
Qed.

(* ------------------------------------------------------------------ the Builder's integer encoders produce tc k z, k minimal *)
Lemma be_n_mod k n : be_n k (n mod 256 ^ N.of_nat k) = be_n k n.
Proof.
  revert n; induction k as [|k IH]; intro n; [reflexivity|].
  cbn [be_n]. rewrite pow256_succ.
  assert (Hp : 256 ^ N.of_nat k <> 0) by (apply N.pow_nonzero; lia).
  rewrite N.mod_mul_r by lia.
  set (p := 256 ^ N.of_nat k) in *.
  replace ((n mod 256 + 256 * ((n / 256) mod p)) / 256) with ((n / 256) mod p).
  2:{ apply N.div_unique with (n mod 256); [apply N.mod_lt; lia|lia]. }
  replace ((n mod 256 + 256 * ((n / 256) mod p)) mod 256) with (n mod 256).
  2:{ apply N.mod_unique with ((n / 256) mod p); [apply N.mod_lt; lia|lia]. }
  f_equal. unfold p. apply IH.
Qed.

Lemma nth_byte_top z k : nth_byte z k = Z.to_N ((z mod pw (S k)) / pw k).
Proof.
  unfold nth_byte. f_equal. rewrite Z.shiftr_div_pow2 by lia.
  replace (2 ^ (8 * Z.of_nat k))%Z with (pw k) by (unfold pw; rewrite Z.pow_mul_r by lia; reflexivity).
  pose proof (pw_pos k) as Hp. rewrite pw_S, (Z.mul_comm 256), Z.rem_mul_r by lia.
  apply (Z.div_unique _ _ _ (z mod pw k)); [left; apply Z.mod_pos_bound; lia|lia].
Qed.

Lemma nth_bytes_tc z k : map (nth_byte z) (rev (seq 0 k)) = tc k z.
Proof.
  induction k as [|k IH]; [reflexivity|].
  rewrite seq_S, rev_app_distr. cbn [rev app map plus]. rewrite IH, tc_S, nth_byte_top. f_equal.
  unfold tc. rewrite <- (be_n_mod k (Z.to_N (z mod pw (S k)))). f_equal.
  pose proof (pw_pos k) as Hp. pose proof (pw_pos (S k)) as Hp'.
  apply N2Z.inj. rewrite N2Z.inj_mod, pw_N, !Z2N.id by (apply Z.mod_pos_bound; lia).
  rewrite pw_S, (Z.mul_comm 256), Z.rem_mul_r by lia.
  apply (Z.mod_unique _ _ ((z / pw k) mod 256)); [left; apply Z.mod_pos_bound; lia|lia].
Qed.

Lemma in_range_div j z : (1 <= j)%nat -> (in_range (S j) z <-> in_range j (z / 256)).
Proof.
  intro Hj. destruct j as [|j]; [lia|]. unfold in_range. rewrite !pw_S. pose proof (pw_pos j).
  pose proof (Z.div_mod z 256 ltac:(lia)). pose proof (Z.mod_pos_bound z 256 ltac:(lia)). lia.
Qed.

Lemma int_len_spec f z : in_range (S f) z ->
  (1 <= int_len f z <= S f)%nat /\ in_range (int_len f z) z /\ minimal (int_len f z) z.
Proof.
  revert z; induction f as [|f IH]; intros z R.
  - cbn [int_len]. split; [lia|split; [assumption|now left]].
  - cbn [int_len]. destruct ((128 <=? z) || (z <? -128))%Z eqn:C.
    + rewrite Z.shiftr_div_pow2 by lia. change (2 ^ 8)%Z with 256%Z.
      apply (proj1 (in_range_div (S f) z ltac:(lia))) in R. destruct (IH _ R) as (Hk & Rk & Mk).
      set (k := int_len f (z / 256)) in *.
      split; [lia|split].
      * apply (proj2 (in_range_div k z ltac:(lia))). assumption.
      * right. replace (S k - 1)%nat with k by lia.
        destruct k as [|[|k]]; [lia| |].
        -- unfold in_range. change (pw 1) with 256%Z. lia.
        -- destruct Mk as [Mk|Mk]; [lia|]. intro R'. apply Mk.
           replace (S (S k) - 1)%nat with (S k) by lia.
           apply (proj1 (in_range_div (S k) z ltac:(lia))). assumption.
    + apply orb_false_iff in C as [C1 C2]. split; [lia|split; [|now left]].
      unfold in_range. change (pw 1) with 256%Z. lia.
Qed.

Lemma int64_content_tc z : fits_signed 64 z = true ->
  exists k, int64_content z = tc k z /\ (1 <= k <= 8)%nat /\ in_range k z /\ minimal k z.
Proof.
  intro F. unfold fits_signed in F. apply andb_true_iff in F as [F1 F2].
  exists (int_len 7 z).
  assert (R : in_range 8 z).
  { unfold in_range. change (pw 8) with 18446744073709551616%Z.
    change (- 2 ^ (Z.of_N 64 - 1))%Z with (-9223372036854775808)%Z in F1.
    change (2 ^ (Z.of_N 64 - 1))%Z with (9223372036854775808)%Z in F2. lia. }
  destruct (int_len_spec 7 z R) as (Hk & Rk & Mk).
  split; [|auto].
  unfold int64_content.
  (* int_len 8 z = int_len 7 z on this range: the extra unit of fuel is never used *)
  assert (E : forall f y, in_range (S f) y -> int_len (S f) y = int_len f y).
  { induction f as [|f IHf]; intros y Ry.
    - cbn [int_len]. destruct ((128 <=? y) || (y <? -128))%Z eqn:C; [|reflexivity].
      unfold in_range in Ry. change (pw 1) with 256%Z in Ry. lia.
    - cbn [int_len]. destruct ((128 <=? y) || (y <? -128))%Z eqn:C; [|reflexivity].
      f_equal. rewrite Z.shiftr_div_pow2 by lia. change (2 ^ 8)%Z with 256%Z.
      assert (Ry' : in_range (S f) (y / 256)) by (apply (proj1 (in_range_div (S f) y ltac:(lia))); assumption).
      specialize (IHf _ Ry'). cbn [int_len] in IHf.
      exact IHf. }
  rewrite (E 7%nat z R). apply nth_bytes_tc.
Qed.

Lemma int_len_fuel f y : in_range (S f) y -> int_len (S f) y = int_len f y.
Proof.
  revert y; induction f as [|f IHf]; intros y Ry.
  - cbn [int_len]. destruct ((128 <=? y) || (y <? -128))%Z eqn:C; [|reflexivity].
    unfold in_range in Ry. change (pw 1) with 256%Z in Ry. lia.
  - cbn [int_len]. destruct ((128 <=? y) || (y <? -128))%Z eqn:C; [|reflexivity].
    f_equal. rewrite Z.shiftr_div_pow2 by lia. change (2 ^ 8)%Z with 256%Z.
    assert (Ry' : in_range (S f) (y / 256)) by (apply (proj1 (in_range_div (S f) y ltac:(lia))); assumption).
    specialize (IHf _ Ry'). cbn [int_len] in IHf. exact IHf.
Qed.

Lemma uint_len_int_len f n : uint_len f n = int_len f (Z.of_N n).
Proof.
  revert n; induction f as [|f IH]; intro n; [reflexivity|].
  cbn [uint_len int_len].
  replace ((128 <=? Z.of_N n) || (Z.of_N n <? -128))%Z with (128 <=? n).
  2:{ destruct (128 <=? n) eqn:C.
      - apply N.leb_le in C. symmetry. apply orb_true_iff. left. apply Z.leb_le. lia.
      - apply N.leb_gt in C. symmetry. apply orb_false_iff. split; [apply Z.leb_gt|apply Z.ltb_ge]; lia. }
  rewrite IH. rewrite Z.shiftr_div_pow2 by lia. change (2 ^ 8)%Z with 256%Z.
  now rewrite N2Z.inj_div.
Qed.

Lemma uint64_content_tc n : fits_unsigned 64 n = true ->
  exists k, uint64_content n = tc k (Z.of_N n) /\ (1 <= k <= 9)%nat /\
            in_range k (Z.of_N n) /\ minimal k (Z.of_N n).
Proof.
  intro F. unfold fits_unsigned in F. apply N.ltb_lt in F.
  assert (R : in_range 9 (Z.of_N n)).
  { unfold in_range. change (pw 9) with 4722366482869645213696%Z.
    change (2 ^ 64) with 18446744073709551616 in F. lia. }
  exists (int_len 8 (Z.of_N n)).
  destruct (int_len_spec 8 _ R) as (Hk & Rk & Mk).
  split; [|auto].
  unfold uint64_content. rewrite uint_len_int_len, (int_len_fuel 8 _ R). apply nth_bytes_tc.
Qed.

(* ---- big.Int: magnitude bytes ---- *)
Lemma byte_len_bound n : n < 256 ^ N.of_nat (byte_len n).
Proof.
  unfold byte_len. rewrite N2Nat.id. rewrite <- (N.pow_mul_r 2 8).
  eapply N.lt_le_trans; [apply N.size_gt|]. apply N.pow_le_mono_r; [lia|].
  pose proof (N.div_mod (N.size n + 7) 8 ltac:(lia)) as Hdm. pose proof (N.mod_lt (N.size n + 7) 8 ltac:(lia)) as Hml.
  set (q := (N.size n + 7) / 8) in *. set (r := (N.size n + 7) mod 8) in *. lia.
Qed.
Lemma byte_len_low n : 0 < n -> 256 ^ N.of_nat (byte_len n - 1) <= n.
Proof.
  intro Hn. unfold byte_len.
  assert (Hs : N.size n = N.succ (N.log2 n)) by (apply N.size_log2; lia).
  pose proof (N.log2_spec n Hn) as [Hlo _].
  eapply N.le_trans; [|exact Hlo].
  rewrite Nat2N.inj_sub, N2Nat.id. change (N.of_nat 1) with 1.
  rewrite <- (N.pow_mul_r 2 8). apply N.pow_le_mono_r; [lia|].
  pose proof (N.div_mod (N.size n + 7) 8 ltac:(lia)) as Hdm. pose proof (N.mod_lt (N.size n + 7) 8 ltac:(lia)) as Hml.
  set (q := (N.size n + 7) / 8) in *. set (r := (N.size n + 7) mod 8) in *. lia.
Qed.
Lemma byte_len_pos n : 0 < n -> (1 <= byte_len n)%nat.
Proof.
  intro Hn. unfold byte_len.
  assert (Hs : N.size n = N.succ (N.log2 n)) by (apply N.size_log2; lia).
  assert (1 <= (N.size n + 7) / 8).
  { apply N.div_le_lower_bound; lia. }
  lia.
Qed.

Lemma mag_bytes_val n : be_val (mag_bytes n) = n.
Proof. unfold mag_bytes. apply be_val_be_n_small, byte_len_bound. Qed.
Lemma mag_bytes_ok n : bytes_ok (mag_bytes n).
Proof. apply be_n_bytes_ok. Qed.
Lemma mag_bytes_0 : mag_bytes 0 = [].
Proof. reflexivity. Qed.
Lemma mag_bytes_pos n : 0 < n -> exists b l, mag_bytes n = b :: l /\ b <> 0 /\ b < 256.
Proof.
  intro Hn. unfold mag_bytes. pose proof (byte_len_pos n Hn) as Hk.
  pose proof (byte_len_bound n) as Hhi. pose proof (byte_len_low n Hn) as Hlo.
  destruct (byte_len n) as [|k]; [lia|]. rewrite be_n_cons.
  replace (S k - 1)%nat with k in Hlo by lia. rewrite pow256_succ in Hhi.
  set (p := 256 ^ N.of_nat k) in *.
  assert (Hp : 0 < p) by (apply N.neq_0_lt_0, N.pow_nonzero; lia).
  assert (Hq1 : 1 <= n / p) by (apply N.div_le_lower_bound; lia).
  assert (Hq2 : n / p < 256) by (apply N.div_lt_upper_bound; lia).
  eexists _, _. split; [reflexivity|]. rewrite N.mod_small by assumption. split; [lia|assumption].
Qed.

Lemma compl_involutive l : bytes_ok l -> compl (compl l) = l.
Proof.
  induction 1 as [|b l Hb Hl IH]; [reflexivity|]. cbn [compl map]. fold (compl l) (compl (compl l)).
  rewrite IH. f_equal. lia.
Qed.
Lemma compl_ok l : bytes_ok l -> bytes_ok (compl l).
Proof. induction 1 as [|b l Hb Hl IH]; cbn [compl map]; [constructor|]. constructor; [lia|exact IH]. Qed.
Lemma be_val_0_cons l : be_val (0 :: l) = be_val l.
Proof. rewrite be_val_cons. lia. Qed.

Lemma bigint_content_spec z :
  bytes_ok (bigint_content z) /\ bigint_content z <> [] /\
  bigint_of_bytes (bigint_content z) = z /\ check_asn1_integer (bigint_content z) = true.
Proof.
  unfold bigint_content. destruct (z <? 0)%Z eqn:Cneg; [|destruct (z =? 0)%Z eqn:C0].
  - (* negative *)
    apply Z.ltb_lt in Cneg. set (n := Z.to_N (- z - 1)).
    assert (Hn : Z.of_N n = (- z - 1)%Z) by (unfold n; rewrite Z2N.id; lia).
    destruct (N.eq_0_gt_0_cases n) as [E|Hpos].
    + rewrite E, mag_bytes_0. cbn. repeat split; try discriminate.
      * repeat constructor.
      * lia.
    + destruct (mag_bytes_pos n Hpos) as (b & l & Em & Hb0 & Hb).
      pose proof (mag_bytes_ok n) as Hok. pose proof (mag_bytes_val n) as Hv. rewrite Em in *.
      cbn [compl map]. fold (compl l).
      assert (Hcl : bytes_ok (compl l)) by (apply compl_ok; now inversion Hok).
      assert (Hinv : compl (compl l) = l) by (apply compl_involutive; now inversion Hok).
      destruct (255 - b <? 128) eqn:C.
      * apply N.ltb_lt in C. repeat split; try discriminate.
        -- constructor; [lia|]. constructor; [lia|assumption].
        -- unfold bigint_of_bytes. change (128 <=? 255) with true. cbn iota.
           cbn [compl map]. fold (compl (compl l)). rewrite Hinv.
           change (255 - 255) with 0. rewrite be_val_0_cons.
           replace (255 - (255 - b)) with b by lia. rewrite Hv. lia.
        -- cbn [check_asn1_integer]. change (255 =? 0) with false. change (255 =? 255) with true.
           rewrite (leb_false 128 (255 - b)) by lia. reflexivity.
      * apply N.ltb_ge in C. repeat split; try discriminate.
        -- constructor; [lia|assumption].
        -- unfold bigint_of_bytes. rewrite (leb_true 128 (255 - b)) by lia.
           cbn [compl map]. fold (compl (compl l)). rewrite Hinv.
           replace (255 - (255 - b)) with b by lia. rewrite Hv. lia.
        -- destruct (compl l) as [|b1 t] eqn:El; [reflexivity|].
           cbn [check_asn1_integer]. rewrite (eqb_false (255 - b) 0) by lia.
           rewrite (eqb_false (255 - b) 255) by lia. reflexivity.
  - apply Z.eqb_eq in C0. subst z. cbn. repeat split; try discriminate. repeat constructor.
  - (* positive *)
    apply Z.ltb_ge in Cneg. apply Z.eqb_neq in C0. set (n := Z.to_N z).
    assert (Hn : Z.of_N n = z) by (unfold n; rewrite Z2N.id; lia).
    assert (Hpos : 0 < n) by lia.
    destruct (mag_bytes_pos n Hpos) as (b & l & Em & Hb0 & Hb).
    pose proof (mag_bytes_ok n) as Hok. pose proof (mag_bytes_val n) as Hv. rewrite Em in *.
    destruct (128 <=? b) eqn:C.
    + apply N.leb_le in C. repeat split; try discriminate.
      * constructor; [lia|assumption].
      * unfold bigint_of_bytes. change (128 <=? 0) with false. cbn iota. rewrite be_val_0_cons, Hv. exact Hn.
      * cbn [check_asn1_integer]. change (0 =? 0) with true. change (0 =? 255) with false.
        rewrite (ltb_false b 128) by lia. reflexivity.
    + apply N.leb_gt in C. repeat split; try discriminate.
      * assumption.
      * unfold bigint_of_bytes. rewrite (leb_false 128 b) by lia. rewrite Hv. exact Hn.
      * destruct l as [|b1 t]; [reflexivity|].
        cbn [check_asn1_integer]. rewrite (eqb_false b 0) by lia. rewrite (eqb_false b 255) by lia. reflexivity.
Qed.

(* ------------------------------------------------------------------ INTEGER contents: one predicate for the three writers *)
Definition int_content (c : bytes) (z : Z) : Prop :=
  bytes_ok c /\ c <> [] /\ bigint_of_bytes c = z /\ check_asn1_integer c = true.

Lemma int_content_tc k z : (1 <= k)%nat -> in_range k z -> minimal k z -> int_content (tc k z) z.
Proof.
  intros Hk R M. split; [apply tc_bytes_ok|]. split.
  - intro E. pose proof (tc_length k z) as L. rewrite E in L. cbn in L. lia.
  - split; [now apply bigint_of_tc|now apply check_tc].
Qed.
Lemma int_content_int64 z : fits_signed 64 z = true -> int_content (int64_content z) z.
Proof. intro F. destruct (int64_content_tc z F) as (k & -> & Hk & R & M). apply int_content_tc; [lia|auto|auto]. Qed.
Lemma int_content_uint64 n : fits_unsigned 64 n = true -> int_content (uint64_content n) (Z.of_N n).
Proof. intro F. destruct (uint64_content_tc n F) as (k & -> & Hk & R & M). apply int_content_tc; [lia|auto|auto]. Qed.
Lemma int_content_bigint z : int_content (bigint_content z) z.
Proof. apply bigint_content_spec. Qed.

(* canonical: the content is determined by the value (C19 uses this too) *)
Lemma int_content_unique c c' z : int_content c z -> int_content c' z -> c = c'.
Proof.
  intros (Hok & Hne & Hv & Hc) (Hok' & Hne' & Hv' & Hc').
  destruct c as [|b l]; [congruence|]. destruct c' as [|b' l']; [congruence|].
  pose proof (tc_of_bigint b l Hok) as E. pose proof (tc_of_bigint b' l' Hok') as E'.
  rewrite Hv in E. rewrite Hv' in E'.
  assert (K : S (length l) = S (length l')).
  { apply (minimal_unique _ _ z); try lia.
    - rewrite <- Hv. now apply bigint_in_range.
    - rewrite <- Hv at 1. apply (check_iff_minimal (b :: l)); auto.
    - rewrite <- Hv'. now apply bigint_in_range.
    - rewrite <- Hv' at 1. apply (check_iff_minimal (b' :: l')); auto. }
  rewrite <- E, <- E', K. reflexivity.
Qed.

Lemma int_content_len c z k : int_content c z -> (1 <= k)%nat -> in_range k z -> (length c <= k)%nat.
Proof.
  intros (Hok & Hne & Hv & Hc) Hk R.
  apply (check_iff_minimal c Hok Hne) in Hc. rewrite Hv in Hc.
  destruct (le_lt_dec (length c) k) as [|L]; [assumption|]. exfalso.
  destruct Hc as [Hc|Hc]; [lia|]. apply Hc. apply (in_range_mono k); [lia|assumption].
Qed.

Lemma fits_signed_range bits z : bits <= 64 -> fits_signed bits z = true -> in_range 8 z.
Proof.
  intros Hb F. unfold fits_signed in F. apply andb_true_iff in F as [F1 F2].
  apply Z.leb_le in F1. apply Z.ltb_lt in F2.
  assert (Hpw : (2 ^ (Z.of_N bits - 1) <= 2 ^ 63)%Z).
  { destruct (Z.le_gt_cases 0 (Z.of_N bits - 1)).
    - apply Z.pow_le_mono_r; lia.
    - rewrite Z.pow_neg_r by lia. lia. }
  unfold in_range. change (pw 8) with 18446744073709551616%Z. change (2 ^ 63)%Z with 9223372036854775808%Z in Hpw. lia.
Qed.

Lemma asn1_signed_int c z : int_content c z -> in_range 8 z -> asn1_signed c = Some z.
Proof.
  intros H R. pose proof (int_content_len c z 8 H ltac:(lia) R) as L.
  destruct H as (Hok & Hne & Hv & Hc). destruct c as [|b l]; [congruence|].
  rewrite asn1_signed_eq; [now rewrite Hv|assumption|cbn in L; lia].
Qed.

Lemma asn1_unsigned_int c z : int_content c z -> (0 <= z < 18446744073709551616)%Z ->
  asn1_unsigned c = Some (Z.to_N z).
Proof.
  intros H Hz.
  assert (R : in_range 9 z) by (unfold in_range; change (pw 9) with 4722366482869645213696%Z; lia).
  pose proof (int_content_len c z 9 H ltac:(lia) R) as L.
  destruct H as (Hok & Hne & Hv & Hc). destruct c as [|b l]; [congruence|].
  pose proof (bigint_of_bytes_spec b l Hok) as S. rewrite Hv in S.
  pose proof (be_val_lt _ Hok) as Hu. apply N2Z.inj_lt in Hu. rewrite pw_blen in Hu.
  cbn [length] in *.
  destruct (128 <=? b) eqn:C; [lia|]. rewrite Z.sub_0_r in S.
  cbn [asn1_unsigned]. rewrite C. rewrite blen_cons.
  assert (Hl : blen l <= 8) by (unfold blen; lia).
  rewrite (ltb_false 9 (1 + blen l)) by lia.
  assert (Hb9 : ((1 + blen l =? 9) && negb (b =? 0)) = false).
  { destruct (1 + blen l =? 9) eqn:E9; [|reflexivity]. apply N.eqb_eq in E9.
    assert (E8 : blen l = 8) by lia.
    rewrite be_val_cons, E8 in S. change (256 ^ 8) with 18446744073709551616 in S.
    assert (b = 0) by lia. subst b. reflexivity. }
  rewrite Hb9. cbn [orb]. f_equal. rewrite lo64_mod.
  rewrite N.mod_small by (unfold two64; lia). lia.
Qed.

(* ------------------------------------------------------------------ OBJECT IDENTIFIER *)
Ltac dlia := zify; Z.to_euclidean_division_equations; lia.

Lemma b128_len_spec n : (0 < n < 268435456)%Z ->
  b128_len 10 n = (if (n <? 128)%Z then 1 else if (n <? 16384)%Z then 2
                   else if (n <? 2097152)%Z then 3 else 4)%nat.
Proof.
  intro H. cbn [b128_len]. rewrite !Z.shiftr_div_pow2 by lia. change (2 ^ 7)%Z with 128%Z.
  rewrite (proj2 (Z.ltb_lt 0 n)) by lia.
  destruct (n <? 128)%Z eqn:C1.
  { apply Z.ltb_lt in C1. rewrite (proj2 (Z.ltb_ge 0 (n / 128))) by dlia. reflexivity. }
  apply Z.ltb_ge in C1. rewrite (proj2 (Z.ltb_lt 0 (n / 128))) by dlia.
  destruct (n <? 16384)%Z eqn:C2.
  { apply Z.ltb_lt in C2. rewrite (proj2 (Z.ltb_ge 0 (n / 128 / 128))) by dlia. reflexivity. }
  apply Z.ltb_ge in C2. rewrite (proj2 (Z.ltb_lt 0 (n / 128 / 128))) by dlia.
  destruct (n <? 2097152)%Z eqn:C3.
  { apply Z.ltb_lt in C3. rewrite (proj2 (Z.ltb_ge 0 (n / 128 / 128 / 128))) by dlia. reflexivity. }
  apply Z.ltb_ge in C3. rewrite (proj2 (Z.ltb_lt 0 (n / 128 / 128 / 128))) by dlia.
  rewrite (proj2 (Z.ltb_ge 0 (n / 128 / 128 / 128 / 128))) by dlia. reflexivity.
Qed.

Lemma base128_roundtrip n rest : (0 <= n < 268435456)%Z ->
  read_base128 (base128_bytes n ++ rest) = Some (Z.to_N n, rest).
Proof.
  intro H. unfold base128_bytes, read_base128.
  destruct (n =? 0)%Z eqn:C0.
  { apply Z.eqb_eq in C0. subst n. reflexivity. }
  apply Z.eqb_neq in C0. rewrite b128_len_spec by lia.
  destruct (n <? 128)%Z eqn:C1; [|destruct (n <? 16384)%Z eqn:C2; [|destruct (n <? 2097152)%Z eqn:C3]];
    rewrite ?Z.ltb_lt, ?Z.ltb_ge in *;
    cbn [seq rev app map Nat.eqb read_base128_from Z.of_nat Pos.of_succ_nat Pos.succ Z.mul Pos.mul Pos.add];
    rewrite ?Z.shiftr_div_pow2 by lia; change (2 ^ 0)%Z with 1%Z; change (2 ^ 7)%Z with 128%Z;
    change (2 ^ 14)%Z with 16384%Z; change (2 ^ 21)%Z with 2097152%Z.
  - set (a := Z.to_N ((n / 1) mod 128)). assert (Ha : a = Z.to_N n) by (unfold a; f_equal; dlia).
    change (0 =? 4) with false. change (0 =? 0) with true. cbn [andb].
    rewrite (eqb_false a 128) by lia. rewrite (ltb_true a 128) by lia.
    f_equal. f_equal. rewrite N.mod_small by lia. lia.
  - set (a := Z.to_N ((n / 1) mod 128)). set (b := Z.to_N ((n / 128) mod 128)).
    assert (Hab : (Z.of_N a + 128 * Z.of_N b = n)%Z /\ a < 128 /\ 0 < b < 128).
    { unfold a, b. rewrite !Z2N.id by (apply Z.mod_pos_bound; lia). dlia. }
    change (0 =? 4) with false. change (0 =? 0) with true. cbn [andb].
    rewrite (eqb_false (b + 128) 128) by lia. rewrite (ltb_false (b + 128) 128) by lia.
    change (0 + 1 =? 4) with false. change (0 + 1 =? 0) with false. cbn [andb].
    rewrite (ltb_true a 128) by lia.
    f_equal. f_equal.
    replace ((b + 128) mod 128) with b by (apply N.mod_unique with 1; lia).
    rewrite (N.mod_small a) by lia. lia.
  - set (a := Z.to_N ((n / 1) mod 128)). set (b := Z.to_N ((n / 128) mod 128)).
    set (c := Z.to_N ((n / 16384) mod 128)).
    assert (Hab : (Z.of_N a + 128 * Z.of_N b + 16384 * Z.of_N c = n)%Z /\ a < 128 /\ b < 128 /\ 0 < c < 128).
    { unfold a, b, c. rewrite !Z2N.id by (apply Z.mod_pos_bound; lia). dlia. }
    change (0 =? 4) with false. change (0 =? 0) with true. cbn [andb].
    rewrite (eqb_false (c + 128) 128) by lia. rewrite (ltb_false (c + 128) 128) by lia.
    change (0 + 1 =? 4) with false. change (0 + 1 =? 0) with false. cbn [andb].
    rewrite (ltb_false (b + 128) 128) by lia.
    change (0 + 1 + 1 =? 4) with false. change (0 + 1 + 1 =? 0) with false. cbn [andb].
    rewrite (ltb_true a 128) by lia.
    f_equal. f_equal.
    replace ((c + 128) mod 128) with c by (apply N.mod_unique with 1; lia).
    replace ((b + 128) mod 128) with b by (apply N.mod_unique with 1; lia).
    rewrite (N.mod_small a) by lia. lia.
  - set (a := Z.to_N ((n / 1) mod 128)). set (b := Z.to_N ((n / 128) mod 128)).
    set (c := Z.to_N ((n / 16384) mod 128)). set (d := Z.to_N ((n / 2097152) mod 128)).
    assert (Hab : (Z.of_N a + 128 * Z.of_N b + 16384 * Z.of_N c + 2097152 * Z.of_N d = n)%Z
                  /\ a < 128 /\ b < 128 /\ c < 128 /\ 0 < d < 128).
    { unfold a, b, c, d. rewrite !Z2N.id by (apply Z.mod_pos_bound; lia). dlia. }
    change (0 =? 4) with false. change (0 =? 0) with true. cbn [andb].
    rewrite (eqb_false (d + 128) 128) by lia. rewrite (ltb_false (d + 128) 128) by lia.
    change (0 + 1 =? 4) with false. change (0 + 1 =? 0) with false. cbn [andb].
    rewrite (ltb_false (c + 128) 128) by lia.
    change (0 + 1 + 1 =? 4) with false. change (0 + 1 + 1 =? 0) with false. cbn [andb].
    rewrite (ltb_false (b + 128) 128) by lia.
    change (0 + 1 + 1 + 1 =? 4) with false. change (0 + 1 + 1 + 1 =? 0) with false. cbn [andb].
    rewrite (ltb_true a 128) by lia.
    f_equal. f_equal.
    replace ((d + 128) mod 128) with d by (apply N.mod_unique with 1; lia).
    replace ((c + 128) mod 128) with c by (apply N.mod_unique with 1; lia).
    replace ((b + 128) mod 128) with b by (apply N.mod_unique with 1; lia).
    rewrite (N.mod_small a) by lia. lia.
Qed.

Lemma base128_nonempty n : (0 <= n < 268435456)%Z -> base128_bytes n <> [].
Proof.
  intros H E. pose proof (base128_roundtrip n [] H) as R. rewrite E in R. discriminate.
Qed.

Definition arc_ok (z : Z) : Prop := (0 <= z < 268435456)%Z.

Lemma read_arcs_enc rest : Forall arc_ok rest ->
  forall fuel, (length (flat_map base128_bytes rest) <= fuel)%nat ->
  read_arcs fuel (flat_map base128_bytes rest) = Some rest.
Proof.
  induction 1 as [|z t Hz Ht IH]; intros fuel Hf.
  - destruct fuel; reflexivity.
  - cbn [flat_map] in *. pose proof (base128_nonempty z Hz) as Hne.
    destruct (base128_bytes z) as [|x xs] eqn:E; [congruence|].
    destruct fuel as [|f]; [cbn in Hf; lia|].
    cbn [app read_arcs]. change (x :: xs ++ flat_map base128_bytes t) with ((x :: xs) ++ flat_map base128_bytes t).
    rewrite <- E, (base128_roundtrip z _ Hz).
    rewrite IH.
    + f_equal. f_equal. unfold arc_ok in Hz. rewrite Z2N.id; lia.
    + rewrite app_length in Hf. cbn [length] in Hf. lia.
Qed.

Lemma forallb_arc_ok l : forallb (fun v => (0 <=? v)%Z) l = true ->
  forallb (fun z => (z <? 268435456)%Z) l = true -> Forall arc_ok l.
Proof.
  induction l as [|z t IH]; intros H1 H2; [constructor|]. cbn in H1, H2.
  apply andb_true_iff in H1 as [A1 B1]. apply andb_true_iff in H2 as [A2 B2].
  constructor; [unfold arc_ok; lia|auto].
Qed.

Lemma oid_roundtrip arcs c : oid_content arcs = Some c -> arcs_readable arcs = true ->
  oid_of_content c = Some arcs.
Proof.
  unfold oid_content. destruct (is_valid_oid arcs) eqn:V; [|discriminate].
  destruct arcs as [|a [|b rest]]; try discriminate. intros [= <-] Rd.
  cbn [is_valid_oid arcs_readable forallb] in V, Rd.
  apply andb_true_iff in V as [V1 V2]. apply andb_true_iff in V2 as [Va V2]. apply andb_true_iff in V2 as [Vb Vr].
  apply andb_true_iff in Rd as [R1 Rr]. apply negb_true_iff, orb_false_iff in V1 as [V1 V3].
  assert (Hv : (0 <= a * 40 + b < 268435456)%Z) by lia.
  assert (Hw : wrap64 (a * 40 + b) = (a * 40 + b)%Z).
  { unfold wrap64, two64, two63. rewrite Z.mod_small by lia.
    destruct (a * 40 + b <? Z.of_N 9223372036854775808)%Z eqn:C; [reflexivity|]. apply Z.ltb_ge in C. lia. }
  rewrite Hw. pose proof (forallb_arc_ok rest Vr Rr) as Hrest.
  unfold oid_of_content. pose proof (base128_nonempty _ Hv) as Hne.
  destruct (base128_bytes (a * 40 + b)) as [|x xs] eqn:E; [congruence|].
  cbn [app]. change (x :: xs ++ flat_map base128_bytes rest) with ((x :: xs) ++ flat_map base128_bytes rest).
  rewrite <- E, (base128_roundtrip _ _ Hv), (read_arcs_enc rest Hrest) by lia.
  set (v := Z.to_N (a * 40 + b)). assert (Ev : Z.of_N v = (a * 40 + b)%Z) by (unfold v; rewrite Z2N.id; lia).
  destruct (v <? 80) eqn:C.
  - apply N.ltb_lt in C. f_equal.
    assert (Ha : (a = 0 \/ a = 1)%Z).
    { destruct (a <=? 1)%Z eqn:Ca; [lia|]. lia. }
    assert (Hb : (b < 40)%Z) by (destruct (a <=? 1)%Z eqn:Ca; cbn in V3; lia).
    assert (Z.of_N (v / 40) = a /\ Z.of_N (v mod 40) = b) as [-> ->]; [|reflexivity].
    rewrite N2Z.inj_div, N2Z.inj_mod, Ev. change (Z.of_N 40) with 40%Z.
    destruct Ha as [-> | ->]; dlia.
  - apply N.ltb_ge in C. f_equal.
    assert (Ha : a = 2%Z).
    { destruct (a <=? 1)%Z eqn:Ca; cbn in V3; [|lia]. lia. }
    subst a. f_equal. f_equal. lia.
Qed.

(* ------------------------------------------------------------------ GeneralizedTime *)
Lemma is_digit_48 d : d < 10 -> is_digit (48 + d) = true.
Proof. intro H. unfold is_digit. rewrite leb_true, leb_true by lia. reflexivity. Qed.

Lemma p2_digits a b : a < 10 -> b < 10 -> p2 (48 + a) (48 + b) = Some (a * 10 + b).
Proof.
  intros Ha Hb. unfold p2. rewrite !is_digit_48 by assumption. cbn [andb]. f_equal. lia.
Qed.
Lemma p2_d2 n : n < 100 -> p2 (48 + n / 10) (48 + n mod 10) = Some n.
Proof. intro H. rewrite p2_digits by dlia. f_equal. dlia. Qed.
Lemma p2_d4_hi n : n < 10000 -> p2 (48 + n / 1000) (48 + (n / 100) mod 10) = Some (n / 100).
Proof. intro H. rewrite p2_digits by dlia. f_equal. dlia. Qed.
Lemma p2_d4_lo n : p2 (48 + (n / 10) mod 10) (48 + n mod 10) = Some (n mod 100).
Proof. rewrite p2_digits by dlia. f_equal. dlia. Qed.

Lemma zone_roundtrip off : (-1500 < off < 1500)%Z -> zone_of (zone_bytes off) = Some off.
Proof.
  intro H. unfold zone_bytes. destruct (off =? 0)%Z eqn:C0.
  { apply Z.eqb_eq in C0. subst. reflexivity. }
  apply Z.eqb_neq in C0. set (a := Z.to_N (Z.abs off)).
  assert (Ha : 0 < a < 1500) by (unfold a; lia).
  assert (Hza : Z.of_N a = Z.abs off) by (unfold a; rewrite Z2N.id; lia).
  cbn [d2 app zone_of].
  rewrite (p2_d2 (a / 60)) by dlia. rewrite (p2_d2 (a mod 60)) by dlia.
  rewrite (leb_true (a / 60) 24) by dlia. rewrite (leb_true (a mod 60) 59) by dlia.
  assert (Hnz : ((a / 60 =? 0) && (a mod 60 =? 0)) = false).
  { destruct (a / 60 =? 0) eqn:E1; [|reflexivity]. destruct (a mod 60 =? 0) eqn:E2; [|reflexivity].
    apply N.eqb_eq in E1, E2. exfalso. dlia. }
  rewrite Hnz. cbn [andb negb].
  assert (Hsum : a / 60 * 60 + a mod 60 = a) by dlia. rewrite Hsum.
  destruct (off <? 0)%Z eqn:Cn.
  - apply Z.ltb_lt in Cn. change (45 =? 43) with false. change (45 =? 45) with true. cbn iota. f_equal. lia.
  - apply Z.ltb_ge in Cn. change (43 =? 43) with true. cbn iota. f_equal. lia.
Qed.

Lemma gentime_roundtrip t : gtime_ok t = true -> gtime_of_content (gentime_content t) = Some t.
Proof.
  destruct t as [Y Mo D h mi s off]. unfold gtime_ok. cbn [gY gMo gD gh gmi gs goff].
  intro H. apply andb_true_iff in H as [H Hoff]. apply andb_true_iff in H as [HY Hciv].
  apply andb_true_iff in HY as [HY0 HY1]. apply andb_true_iff in Hoff as [Ho1 Ho2].
  apply Z.leb_le in HY0, HY1. apply Z.ltb_lt in Ho1, Ho2.
  set (y := Z.to_N Y) in *. assert (Hy : y < 10000) by (unfold y; lia).
  assert (HyY : Z.of_N y = Y) by (unfold y; rewrite Z2N.id; lia).
  pose proof Hciv as Hciv'. unfold civil_ok in Hciv'.
  repeat (apply andb_true_iff in Hciv' as [Hciv' ?]).
  assert (Hdim : days_in Mo y <= 31).
  { unfold days_in. repeat match goal with |- context [match ?x with _ => _ end] => destruct x end; lia. }
  repeat match goal with H : (_ <=? _) = true |- _ => apply N.leb_le in H
                    | H : (_ <? _) = true |- _ => apply N.ltb_lt in H end.
  unfold gentime_content. cbn [gY gMo gD gh gmi gs goff d4 d2 app gtime_of_content]. fold y.
  rewrite (p2_d4_hi y Hy), (p2_d4_lo y).
  rewrite (p2_d2 Mo), (p2_d2 D), (p2_d2 h), (p2_d2 mi), (p2_d2 s) by lia.
  rewrite zone_roundtrip by lia.
  assert (Hyy : y / 100 * 100 + y mod 100 = y) by dlia. rewrite Hyy, Hciv, HyY. reflexivity.
Qed.

(* ------------------------------------------------------------------ the round trip, reader by reader *)
Definition LIM : N := 4294967290.

(* what "reader y returns a for what writer x wrote" means *)
Definition P_rd (y : r) : Prop := forall x a bx tail,
  build_w x = Some bx -> blen bx < LIM -> expect y x = Some a -> rd y (bx ++ tail) = Some (a, tail).

Lemma peek_built tag c el tail : h_asn1 tag c = Some el -> peek_tag tag (el ++ tail) = true.
Proof. intro H. apply h_asn1_hd in H as [t ->]. cbn. apply N.eqb_refl. Qed.

Lemma lim_content tag c el : h_asn1 tag (Some c) = Some el -> blen el < LIM -> blen c < 4294967290.
Proof. intros H L. apply h_asn1_len in H. unfold LIM in L. lia. Qed.

Lemma int_of_w_built x z bx : int_of_w x = Some z -> build_w x = Some bx ->
  exists c, h_asn1 2 (Some c) = Some bx /\ int_content c z.
Proof.
  destruct x; cbn [int_of_w]; try discriminate.
  - destruct (fits_signed 64 z0) eqn:F; [|discriminate]. intros [= <-] Hb.
    exists (int64_content z0). split; [exact Hb|now apply int_content_int64].
  - destruct (fits_unsigned 64 n) eqn:F; [|discriminate]. intros [= <-] Hb.
    exists (uint64_content n). split; [exact Hb|now apply int_content_uint64].
  - intros [= <-] Hb. exists (bigint_content z0). split; [exact Hb|apply int_content_bigint].
Qed.

Lemma read_int_signed_built tag bits c z bx tail :
  h_asn1 tag (Some c) = Some bx -> blen bx < LIM -> int_content c z ->
  bits <= 64 -> fits_signed bits z = true ->
  read_int_signed tag bits (bx ++ tail) = Some (z, tail).
Proof.
  intros Hb L Hc Hbits F. unfold read_int_signed.
  rewrite (read_asn1_tag_built tag c bx tail Hb (lim_content _ _ _ Hb L)).
  destruct Hc as (Hok & Hne & Hv & Hchk) eqn:E. rewrite Hchk.
  rewrite (asn1_signed_int c z); [now rewrite F| |apply (fits_signed_range bits); assumption].
  repeat split; assumption.
Qed.

Lemma read_int_unsigned_built bits c z bx tail :
  h_asn1 2 (Some c) = Some bx -> blen bx < LIM -> int_content c z ->
  bits <= 64 -> (0 <= z)%Z -> fits_unsigned bits (Z.to_N z) = true ->
  read_int_unsigned bits (bx ++ tail) = Some (z, tail).
Proof.
  intros Hb L Hc Hbits Hz F. unfold read_int_unsigned.
  rewrite (read_asn1_tag_built 2 c bx tail Hb (lim_content _ _ _ Hb L)).
  pose proof Hc as (Hok & Hne & Hv & Hchk). rewrite Hchk.
  unfold fits_unsigned in F. apply N.ltb_lt in F.
  assert (Hp : 2 ^ bits <= 2 ^ 64) by (apply N.pow_le_mono_r; lia).
  change (2 ^ 64) with 18446744073709551616 in Hp.
  rewrite (asn1_unsigned_int c z Hc) by lia.
  unfold fits_unsigned. rewrite (ltb_true _ _ F). rewrite Z2N.id by lia. reflexivity.
Qed.

Lemma read_int_built sg bits c z bx tail a :
  h_asn1 2 (Some c) = Some bx -> blen bx < LIM -> int_content c z ->
  int_reader_value sg bits z = Some a ->
  read_int sg bits (bx ++ tail) = Some (z, tail) /\ a = VZ z.
Proof.
  intros Hb L Hc Hv. unfold int_reader_value in Hv.
  destruct (bits <=? 64) eqn:B; [|discriminate]. apply N.leb_le in B. cbn [negb] in Hv.
  unfold read_int. destruct sg.
  - destruct (fits_signed bits z) eqn:F; [|discriminate]. injection Hv as <-.
    split; [|reflexivity]. now apply (read_int_signed_built 2 bits c z).
  - destruct ((0 <=? z)%Z && fits_unsigned bits (Z.to_N z)) eqn:F; [|discriminate]. injection Hv as <-.
    apply andb_true_iff in F as [F1 F2]. apply Z.leb_le in F1.
    split; [|reflexivity]. now apply (read_int_unsigned_built bits c z).
Qed.

Lemma read_bigint_built c z bx tail :
  h_asn1 2 (Some c) = Some bx -> blen bx < LIM -> int_content c z ->
  read_bigint (bx ++ tail) = Some (z, tail).
Proof.
  intros Hb L (Hok & Hne & Hv & Hchk). unfold read_bigint.
  rewrite (read_asn1_tag_built 2 c bx tail Hb (lim_content _ _ _ Hb L)). now rewrite Hchk, Hv.
Qed.

(* build of a one-element body *)
Lemma build_single x : build [x] = match build_w x with Some b => Some (b ++ []) | None => None end.
Proof. cbn [build]. destruct (build_w x); reflexivity. Qed.

Ltac inv_expect He :=
  match type of He with
  | (if ?c then _ else _) = Some _ => let E := fresh "E" in destruct c eqn:E; [|discriminate He]
  | match ?c with Some _ => _ | None => _ end = Some _ =>
      let E := fresh "E" in destruct c eqn:E; [|discriminate He]
  end.

Lemma P_fixed : P_rd RU8 /\ P_rd RU16 /\ P_rd RU24 /\ P_rd RU32.
Proof.
  repeat split; intros x a bx tail Hb L He; destruct x; cbn [expect] in He; try discriminate;
    injection He as <-; cbn [build_w] in Hb; injection Hb as <-; cbn [rd]; unfold read_uint;
    (rewrite take_app' by reflexivity); unfold be_val; cbn [fold_left ret]; do 3 f_equal; dlia.
Qed.

Lemma P_bytes n : P_rd (RBytes n) /\ P_rd (RSkip n).
Proof.
  split; intros x a bx tail Hb L He; destruct x; cbn [expect] in He; try discriminate;
    inv_expect He; injection He as <-; cbn [build_w] in Hb; injection Hb as <-;
    apply N.eqb_eq in E; subst n; cbn [rd]; rewrite take_app; reflexivity.
Qed.

Lemma P_int sg bits : P_rd (RInt sg bits) /\ P_rd RBigInt.
Proof.
  split; intros x a bx tail Hb L He; cbn [expect] in He;
    destruct (int_of_w x) as [z|] eqn:Ez; try discriminate;
    destruct (int_of_w_built x z bx Ez Hb) as (c & Hc & Ic); cbn [rd].
  - destruct (read_int_built sg bits c z bx tail a Hc L Ic He) as [-> ->]. reflexivity.
  - injection He as <-. rewrite (read_bigint_built c z bx tail Hc L Ic). reflexivity.
Qed.

Lemma P_int64tag tag : P_rd (RInt64Tag tag) /\ P_rd REnum.
Proof.
  split; intros x a bx tail Hb L He; destruct x; cbn [expect] in He; try discriminate;
    inv_expect He; injection He as <-; cbn [build_w] in Hb; cbn [rd].
  - apply andb_true_iff in E as [E1 E2]. apply N.eqb_eq in E1. subst tag.
    rewrite (read_int_signed_built 2 64 _ z bx tail Hb L (int_content_int64 z E2)); [reflexivity|lia|assumption].
  - apply andb_true_iff in E as [E1 E2]. apply N.eqb_eq in E1. subst tag0.
    rewrite (read_int_signed_built tag 64 _ z bx tail Hb L (int_content_int64 z E2)); [reflexivity|lia|assumption].
  - rewrite (read_int_signed_built 10 64 _ z bx tail Hb L (int_content_int64 z E)); [reflexivity|lia|assumption].
Qed.

Lemma read_bool_built b bx tail :
  h_asn1 1 (Some [if b : bool then 255 else 0]) = Some bx -> read_bool (bx ++ tail) = Some (b, tail).
Proof.
  intro Hb. unfold read_bool. rewrite (read_asn1_tag_built 1 _ bx tail Hb) by (cbn; lia).
  destruct b; reflexivity.
Qed.

Lemma P_bool d : P_rd RBool /\ P_rd (ROptBool d).
Proof.
  split; intros x a bx tail Hb L He; destruct x; cbn [expect] in He; try discriminate;
    injection He as <-; cbn [build_w] in Hb; cbn [rd].
  - rewrite (read_bool_built b bx tail Hb). reflexivity.
  - rewrite (peek_built 1 _ bx tail Hb), (read_bool_built b bx tail Hb). reflexivity.
Qed.

Lemma P_strings : P_rd ROctets /\ P_rd RBitString /\ P_rd RBitStringBytes /\ P_rd RNull.
Proof.
  repeat split; intros x a bx tail Hb L He; destruct x; cbn [expect] in He; try discriminate;
    injection He as <-; cbn [build_w] in Hb; cbn [rd].
  - rewrite (read_asn1_tag_built 4 bs bx tail Hb (lim_content _ _ _ Hb L)). reflexivity.
  - unfold read_bitstring. rewrite (read_asn1_tag_built 3 _ bx tail Hb (lim_content _ _ _ Hb L)).
    cbn [bitstring_of_content]. change (7 <? 0) with false. cbn iota.
    destruct bs as [|b0 t]; [reflexivity|].
    rewrite N.pow_0_r, N.mod_1_r. reflexivity.
  - unfold read_bitstring_bytes. rewrite (read_asn1_tag_built 3 _ bx tail Hb (lim_content _ _ _ Hb L)). reflexivity.
  - injection Hb as <-.
    rewrite (read_asn1_tag_built 5 [] [5; 0] tail eq_refl) by (cbn; lia). reflexivity.
Qed.

Lemma P_oid_time : P_rd ROid /\ P_rd RGenTime.
Proof.
  split; intros x a bx tail Hb L He; destruct x; cbn [expect] in He; try discriminate;
    inv_expect He; injection He as <-; cbn [build_w] in Hb; cbn [rd].
  - destruct (oid_content arcs) as [c|] eqn:Ec; [|unfold h_asn1 in Hb; destruct (6 mod 32 =? 31); discriminate].
    unfold read_oid. rewrite (read_asn1_tag_built 6 c bx tail Hb (lim_content _ _ _ Hb L)).
    rewrite (oid_roundtrip arcs c Ec E). reflexivity.
  - destruct (gentime_year_ok t); [|discriminate].
    unfold read_gentime. rewrite (read_asn1_tag_built 24 _ bx tail Hb (lim_content _ _ _ Hb L)).
    rewrite (gentime_roundtrip t E). reflexivity.
Qed.

Definition is_element (x : w) : Prop :=
  match x with WRaw _ | WU8 _ | WU16 _ | WU24 _ | WU32 _ | WLen _ _ => False | _ => True end.

Lemma element_built x bx : is_element x -> build_w x = Some bx ->
  exists T c, h_asn1 T (Some c) = Some bx.
Proof.
  intros He Hb. destruct x; cbn in He; try contradiction; cbn [build_w] in Hb;
    try (eexists _, _; exact Hb).
  - change (h_asn1 tag (build body) = Some bx) in Hb.
    destruct (build body) as [c|]; [eauto|]. unfold h_asn1 in Hb. destruct (tag mod 32 =? 31); discriminate.
  - exists 5, []. rewrite <- Hb. reflexivity.
  - destruct (oid_content arcs) as [c|]; [eauto|]. unfold h_asn1 in Hb. destruct (6 mod 32 =? 31); discriminate.
  - destruct (gentime_year_ok t); [eauto|discriminate].
Qed.

Lemma P_element tag : P_rd (RAsn1Element tag).
Proof.
  intros x a bx tail Hb L He; cbn [expect] in He.
  assert (Hel : is_element x) by (destruct x; try discriminate He; exact I).
  destruct (element_built x bx Hel Hb) as (T & c & Hc).
  pose proof (h_asn1_hd _ _ _ Hc) as [el ->].
  assert (He' : (match build_w x with
                 | Some (t :: el0) => if t =? tag then Some (VBytes (t :: el0)) else None
                 | _ => None end) = Some a) by (destruct x; try contradiction; exact He).
  clear He; rewrite Hb in He'; cbv beta iota in He'; cbn [rd].
  inv_expect He'. injection He' as <-. apply N.eqb_eq in E. subst tag.
  rewrite (read_asn1_element_tag_built T c (T :: el) tail Hc (lim_content _ _ _ Hc L)). reflexivity.
Qed.

Lemma P_any_element : P_rd RAnyAsn1Element.
Proof.
  intros x a bx tail Hb L He; cbn [expect] in He.
  assert (Hel : is_element x) by (destruct x; try discriminate He; exact I).
  destruct (element_built x bx Hel Hb) as (T & c & Hc).
  pose proof (h_asn1_hd _ _ _ Hc) as [el ->].
  assert (He' : (match build_w x with
                 | Some (t :: el0) => Some (VTagged t (t :: el0))
                 | _ => None end) = Some a) by (destruct x; try contradiction; exact He).
  clear He; rewrite Hb in He'; cbv beta iota in He'; cbn [rd].
  injection He' as <-.
  destruct (read_any_asn1_built T c (T :: el) tail Hc (lim_content _ _ _ Hc L)) as [_ ->]. reflexivity.
Qed.

(* WAsn1 tag body: the content is what the body builds *)
Lemma build_w_asn1_inv tag body bx : build_w (WAsn1 tag body) = Some bx ->
  exists c, build body = Some c /\ h_asn1 tag (Some c) = Some bx.
Proof.
  change (build_w (WAsn1 tag body)) with (h_asn1 tag (build body)). intro Hb.
  destruct (build body) as [c|]; [eauto|]. unfold h_asn1 in Hb. destruct (tag mod 32 =? 31); discriminate.
Qed.

Lemma P_any_skip tag : P_rd RAnyAsn1 /\ P_rd (RSkipAsn1 tag) /\ P_rd (ROptAsn1 tag) /\ P_rd (RSkipOpt tag).
Proof.
  repeat split; intros x a bx tail Hb L He; destruct x; cbn [expect] in He; try discriminate; cbn [rd].
  - destruct (build_w_asn1_inv _ _ _ Hb) as (c & Hc & Hh). rewrite Hc in He. injection He as <-.
    destruct (read_any_asn1_built tag0 c bx tail Hh (lim_content _ _ _ Hh L)) as [-> _]. reflexivity.
  - injection He as <-. cbn [build_w] in Hb.
    destruct (read_any_asn1_built 4 bs bx tail Hb (lim_content _ _ _ Hb L)) as [-> _]. reflexivity.
  - inv_expect He. injection He as <-. apply N.eqb_eq in E. subst tag0.
    destruct (build_w_asn1_inv _ _ _ Hb) as (c & Hc & Hh).
    rewrite (read_asn1_tag_built tag c bx tail Hh (lim_content _ _ _ Hh L)). reflexivity.
  - inv_expect He. injection He as <-. apply N.eqb_eq in E. subst tag. cbn [build_w] in Hb.
    rewrite (read_asn1_tag_built 4 bs bx tail Hb (lim_content _ _ _ Hb L)). reflexivity.
  - inv_expect He. apply N.eqb_eq in E. subst tag0.
    destruct (build_w_asn1_inv _ _ _ Hb) as (c & Hc & Hh). rewrite Hc in He. injection He as <-.
    rewrite (peek_built tag _ bx tail Hh).
    rewrite (read_asn1_tag_built tag c bx tail Hh (lim_content _ _ _ Hh L)). reflexivity.
  - inv_expect He. injection He as <-. apply N.eqb_eq in E. subst tag0.
    destruct (build_w_asn1_inv _ _ _ Hb) as (c & Hc & Hh).
    rewrite (peek_built tag _ bx tail Hh).
    rewrite (read_asn1_tag_built tag c bx tail Hh (lim_content _ _ _ Hh L)). reflexivity.
Qed.

Lemma P_opt_values tag sg bits d dz : P_rd (ROptInt tag sg bits d) /\ P_rd (ROptBigInt tag dz) /\ P_rd (ROptOctets tag).
Proof.
  repeat split; intros x a bx tail Hb L He; destruct x; cbn [expect] in He; try discriminate;
    destruct body as [|xi [|? ?]]; try discriminate.
  - inv_expect He. apply N.eqb_eq in E. subst tag0.
    destruct (int_of_w xi) as [z|] eqn:Ez; [|discriminate].
    destruct (int_reader_value sg bits z) as [a0|] eqn:Ev; [|discriminate]. injection He as <-.
    destruct (build_w_asn1_inv _ _ _ Hb) as (c & Hc & Hh). rewrite build_single in Hc.
    destruct (build_w xi) as [bi|] eqn:Ebi; [|discriminate]. injection Hc as <-.
    destruct (int_of_w_built xi z bi Ez Ebi) as (ci & Hci & Ici).
    assert (Li : blen bi < LIM) by (pose proof (lim_content _ _ _ Hh L); rewrite blen_app in *; unfold LIM; cbn in *; lia).
    destruct (read_int_built sg bits ci z bi [] a0 Hci Li Ici Ev) as [Hr ->].
    cbn [rd]. rewrite (peek_built tag _ bx tail Hh).
    rewrite (read_asn1_tag_built tag _ bx tail Hh (lim_content _ _ _ Hh L)). rewrite Hr. reflexivity.
  - inv_expect He. apply N.eqb_eq in E. subst tag0.
    destruct (int_of_w xi) as [z|] eqn:Ez; [|discriminate]. injection He as <-.
    destruct (build_w_asn1_inv _ _ _ Hb) as (c & Hc & Hh). rewrite build_single in Hc.
    destruct (build_w xi) as [bi|] eqn:Ebi; [|discriminate]. injection Hc as <-.
    destruct (int_of_w_built xi z bi Ez Ebi) as (ci & Hci & Ici).
    assert (Li : blen bi < LIM) by (pose proof (lim_content _ _ _ Hh L); rewrite blen_app in *; unfold LIM; cbn in *; lia).
    cbn [rd]. rewrite (peek_built tag _ bx tail Hh).
    rewrite (read_asn1_tag_built tag _ bx tail Hh (lim_content _ _ _ Hh L)).
    rewrite (read_bigint_built ci z bi [] Hci Li Ici). reflexivity.
  - destruct xi; try discriminate. inv_expect He. apply N.eqb_eq in E. subst tag0. injection He as <-.
    destruct (build_w_asn1_inv _ _ _ Hb) as (c & Hc & Hh). rewrite build_single in Hc.
    destruct (build_w (WOctets bs)) as [bi|] eqn:Ebi; [|discriminate]. injection Hc as <-.
    cbn [build_w] in Ebi.
    assert (Li : blen bi < LIM) by (pose proof (lim_content _ _ _ Hh L); rewrite blen_app in *; unfold LIM; cbn in *; lia).
    cbn [rd]. rewrite (peek_built tag _ bx tail Hh).
    rewrite (read_asn1_tag_built tag _ bx tail Hh (lim_content _ _ _ Hh L)).
    rewrite (read_asn1_tag_built 4 bs bi [] Ebi (lim_content _ _ _ Ebi Li)). reflexivity.
  - destruct xi; discriminate.
Qed.

Lemma P_peek tag : P_rd (RPeek tag).
Proof. intros x a bx tail Hb L He. discriminate He. Qed.

(* ------------------------------------------------------------------ programs *)
Lemma build_cons x ws bs : build (x :: ws) = Some bs ->
  exists bx bt, build_w x = Some bx /\ build ws = Some bt /\ bs = bx ++ bt.
Proof.
  cbn [build]. destruct (build_w x) as [bx|]; [|discriminate]. destruct (build ws) as [bt|]; [|discriminate].
  intros [= <-]. eauto.
Qed.

Lemma expects_rds rs : Forall P_rd rs -> forall ws vs bs tail,
  build ws = Some bs -> blen bs < LIM -> expects rs ws tail = Some vs ->
  rds rs (bs ++ tail) = Some (vs, tail).
Proof.
  induction 1 as [|y rt Hy Hrt IH]; intros ws vs bs tail Hb L He.
  - cbn [expects] in He. destruct ws; [|discriminate]. injection He as <-. injection Hb as <-. reflexivity.
  - cbn [expects] in He. cbn [rds].
    destruct (absent_value y (next_byte ws tail)) as [a|] eqn:Ea.
    + destruct (expects rt ws tail) as [l|] eqn:El; [|discriminate]. injection He as <-.
      unfold next_byte in Ea. rewrite Hb in Ea.
      rewrite (absent_untouched y (bs ++ tail) a Ea).
      rewrite (IH ws l bs tail Hb L El). reflexivity.
    + destruct ws as [|x wt]; [discriminate|].
      destruct (expect y x) as [a|] eqn:Ex; [|discriminate].
      destruct (expects rt wt tail) as [l|] eqn:El; [|discriminate]. injection He as <-.
      destruct (build_cons x wt bs Hb) as (bx & bt & Hbx & Hbt & ->).
      rewrite <- app_assoc. rewrite blen_app in L.
      rewrite (Hy x a bx (bt ++ tail) Hbx ltac:(lia) Ex).
      rewrite (IH wt l bt tail Hbt ltac:(lia) El). reflexivity.
Qed.

Lemma h_len_inv k c bx : h_len k (Some c) = Some bx ->
  blen c < 256 ^ N.of_nat k /\ bx = be_n k (blen c) ++ c.
Proof.
  unfold h_len. destruct (blen c <? 256 ^ N.of_nat k) eqn:E; [|discriminate].
  apply N.ltb_lt in E. intros [= <-]. auto.
Qed.

Lemma read_length_prefixed_built k c tail : blen c < 256 ^ N.of_nat k -> blen c < 4294967296 ->
  read_length_prefixed (N.of_nat k) ((be_n k (blen c) ++ c) ++ tail) = Some (c, tail).
Proof.
  intros Hk H32. unfold read_length_prefixed. rewrite <- app_assoc.
  rewrite take_app' by (now rewrite blen_be_n).
  rewrite be_val_be_n_small by assumption. rewrite N.mod_small by assumption. apply take_app.
Qed.

Lemma nested_rds rb wb a c :
  Forall P_rd rb -> build wb = Some c -> blen c < LIM ->
  match rb with
  | [] => Some (VNest [] c)
  | _ => match expects rb wb [] with Some vs => Some (VNest vs []) | None => None end
  end = Some a ->
  match rds rb c with Some (vs, crest) => Some (VNest vs crest) | None => None end = Some a.
Proof.
  intros HP Hc L He. destruct rb as [|y rt].
  - exact He.
  - destruct (expects (y :: rt) wb []) as [vs|] eqn:E; [|discriminate]. injection He as <-.
    pose proof (expects_rds (y :: rt) HP wb vs c [] Hc L E) as R. rewrite app_nil_r in R. now rewrite R.
Qed.

Lemma P_len k body : Forall P_rd body -> P_rd (RLen k body).
Proof.
  intros HP x a bx tail Hb L He. destruct x; try discriminate He.
  change (expect (RLen k body) (WLen k0 body0)) with
    (if Nat.eqb k k0 then
       match body with
       | [] => match build body0 with Some c => Some (VNest [] c) | None => None end
       | _ => match expects body body0 [] with Some vs => Some (VNest vs []) | None => None end
       end else None) in He.
  destruct (Nat.eqb k k0) eqn:Ek; [|discriminate]. apply Nat.eqb_eq in Ek. subst k0.
  change (build_w (WLen k body0)) with (h_len k (build body0)) in Hb.
  destruct (build body0) as [c|] eqn:Hc; [|discriminate].
  apply h_len_inv in Hb as [Hk ->].
  assert (Lc : blen c < LIM) by (rewrite blen_app in L; lia).
  change (rd (RLen k body) ((be_n k (blen c) ++ c) ++ tail)) with
    (match read_length_prefixed (N.of_nat k) ((be_n k (blen c) ++ c) ++ tail) with
     | Some (c0, s') => match rds body c0 with Some (vs, crest) => Some (VNest vs crest, s') | None => None end
     | None => None end).
  rewrite read_length_prefixed_built by (unfold LIM in Lc; lia).
  pose proof (nested_rds body body0 a c HP Hc Lc He) as R.
  destruct (rds body c) as [[vs crest]|]; [|discriminate]. injection R as <-. reflexivity.
Qed.

Lemma P_asn1 tag body : Forall P_rd body -> P_rd (RAsn1 tag body).
Proof.
  intros HP x a bx tail Hb L He.
  change (rd (RAsn1 tag body) (bx ++ tail)) with
    (match read_asn1_tag tag (bx ++ tail) with
     | Some (c0, s') => match rds body c0 with Some (vs, crest) => Some (VNest vs crest, s') | None => None end
     | None => None end).
  destruct x; try discriminate He.
  - change (expect (RAsn1 tag body) (WAsn1 tag0 body0)) with
      (if tag =? tag0 then
         match body with
         | [] => match build body0 with Some c => Some (VNest [] c) | None => None end
         | _ => match expects body body0 [] with Some vs => Some (VNest vs []) | None => None end
         end else None) in He.
    destruct (tag =? tag0) eqn:Et; [|discriminate]. apply N.eqb_eq in Et. subst tag0.
    destruct (build_w_asn1_inv _ _ _ Hb) as (c & Hc & Hh).
    pose proof (lim_content _ _ _ Hh L) as Lc.
    rewrite (read_asn1_tag_built tag c bx tail Hh Lc). rewrite Hc in He.
    pose proof (nested_rds body body0 a c HP Hc Lc He) as R.
    destruct (rds body c) as [[vs crest]|]; [|discriminate]. injection R as <-. reflexivity.
  - cbn [expect] in He. destruct body; [|discriminate]. inv_expect He. injection He as <-.
    apply N.eqb_eq in E. subst tag. injection Hb as <-.
    rewrite (read_asn1_tag_built 5 [] [5; 0] tail eq_refl) by (cbn; lia). reflexivity.
Qed.

(* induction over readers with nested bodies *)
Lemma r_nested_ind (P : r -> Prop) :
  (forall y, match y with RLen _ _ | RAsn1 _ _ => False | _ => True end -> P y) ->
  (forall k body, Forall P body -> P (RLen k body)) ->
  (forall tag body, Forall P body -> P (RAsn1 tag body)) ->
  forall y, P y.
Proof.
  intros Hbase Hlen Hasn1. fix IH 1. intro y.
  destruct y; try (apply Hbase; exact I).
  - apply Hlen. revert body. fix IHl 1. intros [|y' t]; [constructor|].
    constructor; [apply IH|apply IHl].
  - apply Hasn1. revert body. fix IHl 1. intros [|y' t]; [constructor|].
    constructor; [apply IH|apply IHl].
Qed.

Lemma P_rd_all y : P_rd y.
Proof.
  induction y using r_nested_ind.
  - destruct y; try contradiction.
    + apply P_fixed. + apply P_fixed. + apply P_fixed. + apply P_fixed.
    + apply P_bytes. + apply P_bytes.
    + apply P_element.
    + apply (P_any_skip 0). + apply P_any_element.
    + apply P_any_skip.
    + apply P_int. + apply (P_int true 0).
    + apply P_int64tag. + apply (P_int64tag 0).
    + apply (P_bool true). + apply P_oid_time. + apply P_strings. + apply P_strings. + apply P_strings.
    + apply P_oid_time. + apply P_strings.
    + apply P_peek.
    + apply P_any_skip. + apply P_any_skip.
    + apply (P_opt_values tag signed bits dflt 0%Z).
    + apply (P_opt_values tag true 0 0%Z dflt).
    + apply (P_opt_values tag true 0 0%Z 0%Z).
    + apply P_bool.
  - now apply P_len.
  - now apply P_asn1.
Qed.

(* MAIN: every matching read program returns the written values and leaves exactly the tail *)
Theorem read_build : forall rs ws tail bs vs,
  build ws = Some bs -> blen bs < LIM -> expects rs ws tail = Some vs ->
  rds rs (bs ++ tail) = Some (vs, tail).
Proof.
  intros rs ws tail bs vs Hb L He. apply (expects_rds rs) with (ws := ws); auto.
  apply Forall_forall. intros y _. apply P_rd_all.
Qed.

(* ------------------------------------------------------------------ flushChild: the back-patching builder equals the specification builder *)
Lemma upd_app a x b v : upd (length a) v (a ++ x :: b) = a ++ v :: b.
Proof. induction a as [|h a IH]; cbn; [reflexivity|]. now rewrite IH. Qed.

Lemma write_len_spec n : forall a z b l, length z = n ->
  write_len n (length a) l (a ++ z ++ b) = (a ++ be_n n l ++ b, l / 256 ^ N.of_nat n).
Proof.
  induction n as [|i IH]; intros a z b l Hz.
  - destruct z; [|discriminate]. cbn. now rewrite N.div_1_r.
  - destruct (exists_last (l := z)) as (z' & x & ->); [intro E; rewrite E in Hz; discriminate|].
    rewrite app_length in Hz. cbn [length] in Hz. assert (Hz' : length z' = i) by lia.
    cbn [write_len be_n].
    replace (a ++ (z' ++ [x]) ++ b) with ((a ++ z') ++ x :: b) by (rewrite <- !app_assoc; reflexivity).
    replace (length a + i)%nat with (length (a ++ z')) by (rewrite app_length; lia).
    rewrite upd_app.
    replace ((a ++ z') ++ l mod 256 :: b) with (a ++ z' ++ (l mod 256 :: b)) by (now rewrite <- app_assoc).
    rewrite (IH a z' (l mod 256 :: b) (l / 256) Hz').
    f_equal.
    + rewrite <- !app_assoc. reflexivity.
    + rewrite pow256_succ, N.div_div by (try apply N.pow_nonzero; lia). reflexivity.
Qed.

Lemma l_flush_len k res c :
  l_flush false k (length res) ((res ++ repeat 0 k) ++ c) = option_map (app res) (h_len k (Some c)).
Proof.
  unfold l_flush, h_len. rewrite <- app_assoc.
  replace (length (res ++ repeat 0%N k ++ c) - k - length res)%nat with (length c)
    by (rewrite !app_length, repeat_length; lia).
  rewrite (write_len_spec k res (repeat 0 k) c) by apply repeat_length.
  fold (blen c).
  destruct (blen c <? 256 ^ N.of_nat k) eqn:E.
  - apply N.ltb_lt in E. rewrite N.div_small by assumption. reflexivity.
  - apply N.ltb_ge in E. rewrite (eqb_false (blen c / 256 ^ N.of_nat k) 0); [reflexivity|].
    intro D. apply N.div_small_iff in D; [lia|]. apply N.pow_nonzero. lia.
Qed.

(* the long-form case: one reserved byte, content shifted right by k, k length bytes written *)
Lemma l_flush_long res0 c k lenByte :
  (1 <= k)%nat -> blen c < 256 ^ N.of_nat k ->
  write_len k (S (length res0)) (blen c)
    (copy_within (upd (length res0) lenByte ((res0 ++ [0]) ++ c) ++ repeat 0 k)
       (length res0 + 1 + k) (length res0 + 1)) = (res0 ++ lenByte :: be_n k (blen c) ++ c, 0).
Proof.
  intros Hk Hc.
  replace ((res0 ++ [0]) ++ c) with (res0 ++ 0 :: c) by (now rewrite <- app_assoc).
  rewrite upd_app. unfold copy_within.
  set (r := (res0 ++ lenByte :: c) ++ repeat 0 k).
  assert (Hr : r = (res0 ++ [lenByte]) ++ c ++ repeat 0 k).
  { unfold r. rewrite <- !app_assoc. reflexivity. }
  assert (Hlen0 : length (res0 ++ [lenByte]) = (length res0 + 1)%nat) by (rewrite app_length; reflexivity).
  assert (Hskip : skipn (length res0 + 1) r = c ++ repeat 0 k).
  { rewrite Hr, <- Hlen0, skipn_app, Nat.sub_diag, skipn_all. reflexivity. }
  assert (Hfirst : firstn (length res0 + 1 + k) r = (res0 ++ [lenByte]) ++ firstn k (c ++ repeat 0 k)).
  { rewrite Hr, <- Hlen0, firstn_app. replace (length (res0 ++ [lenByte]) + k - length (res0 ++ [lenByte]))%nat with k by lia.
    rewrite firstn_all2 by lia. reflexivity. }
  rewrite Hskip, Hfirst.
  replace (length r - (length res0 + 1 + k))%nat with (length c)
    by (rewrite Hr, !app_length, repeat_length; cbn [length]; lia).
  rewrite (firstn_app (length c) c), Nat.sub_diag, firstn_all, firstn_O, app_nil_r.
  set (G := firstn k (c ++ repeat 0 k)).
  assert (HG : length G = k) by (unfold G; rewrite firstn_length, app_length, repeat_length; lia).
  replace (S (length res0)) with (length (res0 ++ [lenByte])) by (rewrite Hlen0; lia).
  replace (((res0 ++ [lenByte]) ++ G) ++ c) with ((res0 ++ [lenByte]) ++ G ++ c) by (now rewrite <- !app_assoc).
  rewrite (write_len_spec k (res0 ++ [lenByte]) G c (blen c) HG).
  rewrite N.div_small by assumption. f_equal. rewrite <- !app_assoc. reflexivity.
Qed.

Lemma l_flush_asn1 res0 c :
  l_flush true 1 (length res0) ((res0 ++ [0]) ++ c) =
  match asn1_len_octets (blen c) with Some p => Some (res0 ++ p ++ c) | None => None end.
Proof.
  unfold l_flush, asn1_len_octets.
  replace (length ((res0 ++ [0%N]) ++ c) - 1 - length res0)%nat with (length c)
    by (rewrite !app_length; cbn [length]; lia).
  fold (blen c).
  destruct (4294967294 <? blen c) eqn:E0; [reflexivity|]. apply N.ltb_ge in E0.
  destruct (16777215 <? blen c) eqn:E1; [|destruct (65535 <? blen c) eqn:E2;
    [|destruct (255 <? blen c) eqn:E3; [|destruct (127 <? blen c) eqn:E4]]];
    cbn [Nat.sub Nat.eqb];
    rewrite ?N.ltb_lt, ?N.ltb_ge in *.
  - rewrite (l_flush_long res0 c 4 132) by (cbn; lia). reflexivity.
  - rewrite (l_flush_long res0 c 3 131) by (cbn; lia). reflexivity.
  - rewrite (l_flush_long res0 c 2 130) by (cbn; lia). reflexivity.
  - rewrite (l_flush_long res0 c 1 129) by (cbn; lia). reflexivity.
  - cbn [write_len]. replace ((res0 ++ [0]) ++ c) with (res0 ++ 0 :: c) by (now rewrite <- app_assoc).
    rewrite upd_app. reflexivity.
Qed.

Lemma l_asn1_spec tag f oc res :
  (forall r0, f r0 = option_map (app r0) oc) ->
  l_asn1 tag f res = option_map (app res) (h_asn1 tag oc).
Proof.
  intro Hf. unfold l_asn1, h_asn1. destruct (tag mod 32 =? 31); [reflexivity|].
  rewrite Hf. destruct oc as [c|]; [|reflexivity]. cbn [option_map].
  replace (length (res ++ [tag])) with (length (res ++ [tag])) by reflexivity.
  rewrite (l_flush_asn1 (res ++ [tag]) c).
  destruct (asn1_len_octets (blen c)) as [p|]; [|reflexivity]. cbn [option_map].
  rewrite <- app_assoc. reflexivity.
Qed.

Lemma l_add_spec oc r0 : l_add oc r0 = option_map (app r0) oc.
Proof. destruct oc; reflexivity. Qed.

Definition P_lw (x : w) : Prop := forall res, l_w x res = option_map (app res) (build_w x).

Lemma l_build_spec ws : Forall P_lw ws -> forall res, l_build ws res = option_map (app res) (build ws).
Proof.
  induction 1 as [|x t Hx Ht IH]; intro res.
  - cbn. now rewrite app_nil_r.
  - cbn [l_build build]. rewrite (Hx res). destruct (build_w x) as [bx|]; [|reflexivity]. cbn [option_map].
    rewrite IH. destruct (build t) as [bt|]; [|reflexivity]. cbn [option_map]. now rewrite app_assoc.
Qed.

Lemma w_nested_ind (P : w -> Prop) :
  (forall x, match x with WLen _ _ | WAsn1 _ _ => False | _ => True end -> P x) ->
  (forall k body, Forall P body -> P (WLen k body)) ->
  (forall tag body, Forall P body -> P (WAsn1 tag body)) ->
  forall x, P x.
Proof.
  intros Hbase Hlen Hasn1. fix IH 1. intro x.
  destruct x; try (apply Hbase; exact I).
  - apply Hlen. revert body. fix IHl 1. intros [|y' t]; [constructor|].
    constructor; [apply IH|apply IHl].
  - apply Hasn1. revert body. fix IHl 1. intros [|y' t]; [constructor|].
    constructor; [apply IH|apply IHl].
Qed.

Lemma P_lw_all x : P_lw x.
Proof.
  induction x using w_nested_ind.
  - destruct x; try contradiction; intro res; cbn [l_w build_w option_map];
      try reflexivity; try (apply l_asn1_spec; intro r0; apply l_add_spec).
    destruct (gentime_year_ok t); [|reflexivity]. apply l_asn1_spec; intro r0; apply l_add_spec.
  - intro res.
    change (l_w (WLen k body) res) with
      (match l_build body (res ++ repeat 0 k) with
       | Some r2 => l_flush false k (length res) r2 | None => None end).
    change (build_w (WLen k body)) with (h_len k (build body)).
    rewrite (l_build_spec body H). destruct (build body) as [c|]; [|reflexivity]. cbn [option_map].
    apply l_flush_len.
  - intro res.
    change (l_w (WAsn1 tag body) res) with (l_asn1 tag (l_build body) res).
    change (build_w (WAsn1 tag body)) with (h_asn1 tag (build body)).
    apply l_asn1_spec. intro r0. apply (l_build_spec body H).
Qed.

(* the builder that mirrors add / addLengthPrefixed / flushChild on the shared buffer
   produces exactly  buffer ++ specification-level encoding  (and fails exactly when it fails) *)
Theorem l_build_refines : forall ws res, l_build ws res = option_map (app res) (build ws).
Proof.
  intros ws res. apply l_build_spec. apply Forall_forall. intros x _. apply P_lw_all.
Qed.

(* ------------------------------------------------------------------ corollaries used as property theorems *)
(* length prefixes: the prefix holds exactly the length of what the continuation wrote,
   and the Builder fails exactly when that does not fit *)
Lemma length_prefix_correct k body :
  build_w (WLen k body) =
  match build body with
  | Some c => if blen c <? 256 ^ N.of_nat k then Some (be_n k (blen c) ++ c) else None
  | None => None
  end.
Proof. reflexivity. Qed.

Lemma asn1_header_correct tag body :
  build_w (WAsn1 tag body) =
  if tag mod 32 =? 31 then None else
  match build body with
  | Some c => match asn1_len_octets (blen c) with Some p => Some (tag :: p ++ c) | None => None end
  | None => None
  end.
Proof. reflexivity. Qed.

(* optional readers, tag present: they consume exactly the element *)
Lemma optional_present_asn1 tag c el tail :
  h_asn1 tag (Some c) = Some el -> blen c < 4294967290 ->
  rd (ROptAsn1 tag) (el ++ tail) = Some (VOpt true (VBytes c), tail) /\
  rd (RSkipOpt tag) (el ++ tail) = Some (VUnit, tail).
Proof.
  intros H L. cbn [rd]. rewrite (peek_built tag _ el tail H), (read_asn1_tag_built tag c el tail H L). auto.
Qed.

Lemma optional_present_bool b d tail :
  rd (ROptBool d) ([1; 1; if b : bool then 255 else 0] ++ tail) = Some (VOpt true (VBool b), tail).
Proof.
  assert (H : h_asn1 1 (Some [if b then 255 else 0]) = Some [1; 1; if b then 255 else 0]) by reflexivity.
  cbn [rd]. rewrite (peek_built 1 _ _ tail H), (read_bool_built b _ tail H). reflexivity.
Qed.

(* the defect repaired by 46d85f5: the old reader consumed the BOOLEAN through
   ReadOptionalASN1 and then parsed the NEXT element as the BOOLEAN *)
Definition old_read_optional_bool (d : bool) (s : bytes) : option (bool * bytes) :=
  if peek_tag 1 s then
    match read_asn1_tag 1 s with
    | Some (_, s') => read_bool s'
    | None => None
    end
  else Some (d, s).
Lemma old_optional_bool_refuted :
  old_read_optional_bool false [1; 1; 255; 5; 0] = None /\
  old_read_optional_bool false [1; 1; 255; 1; 1; 0] = Some (false, []) /\
  rd (ROptBool false) [1; 1; 255; 5; 0] = Some (VOpt true (VBool true), [5; 0]).
Proof. repeat split; vm_compute; reflexivity. Qed.

(* non-vacuity of the main theorem: a program with nesting, long-form lengths, every
   optional reader present and absent, and trailing bytes *)
Definition demo_ws : list w :=
  [WAsn1 48 [WInt64 (-129); WAsn1 160 [WUint64 255]; WBool true; WOctets (nrep 7 200)];
   WLen 2 [WOid [1; 2; 840; 113549]%Z; WNull]; WBitString [1; 2]; WU24 66000].
Definition demo_rs : list r :=
  [RPeek 48;
   RAsn1 48 [RInt true 16; ROptOctets 161; ROptInt 160 false 8 5%Z; ROptBool false; ROptBool true; ROctets; ROptAsn1 4];
   RLen 2 [ROid; RSkipOpt 6; RNull]; ROptBigInt 160 9%Z; RBitStringBytes; RU24; RPeek 9].
Lemma demo_nonvacuous :
  exists bs vs, build demo_ws = Some bs /\ blen bs < LIM /\ (200 < blen bs) /\
                expects demo_rs demo_ws [9; 9] = Some vs /\ length vs = 7%nat.
Proof. eexists _, _. repeat split; vm_compute; reflexivity. Qed.
