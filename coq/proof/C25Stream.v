(* C25Stream.v — fragmentation, transport segmentation and the stream theorem
   for the record-layer model. *)
From Coq Require Import List NArith ZArith Bool Arith Lia.
From Verif Require Import Harness.
From VerifModel Require Import C25.
From VerifProof Require Import C25Proofs C25Record.
Import ListNotations.
Local Open Scope Z_scope.

(* ============================================================ fragmentation *)
Definition frags (rs : list wrec) : list bytes := map (fun r => fst (fst r)) rs.
Definition wrecs (rs : list wrec) : list bytes := map (fun r => snd (fst r)) rs.
Definition frag_ok (f : bytes) : Prop := 1 <= zlen f <= 16384.

Lemma frags_app a b : frags (a ++ b) = frags a ++ frags b.
Proof. unfold frags. apply map_app. Qed.

Lemma max_payload_le c typ : fst (max_payload_for_write c typ) <= 16384.
Proof.
  unfold max_payload_for_write, max_plaintext.
  repeat match goal with |- context [if ?c then _ else _] => destruct c end; cbn [fst]; lia.
Qed.

Section Fragmentation.
  Variable stream : Z -> bytes -> bytes.
  Variable cbc_enc : bytes -> bytes -> bytes.
  Variable seal : bytes -> bytes -> bytes -> bytes.
  Variable mac : bytes -> bytes.
  Notation wloop := (write_loop stream cbc_enc seal mac).
  Notation cwrite := (conn_write stream cbc_enc seal mac).
  Notation cwrites := (conn_writes stream cbc_enc seal mac).

  Lemma write_loop_fragments fuel : forall c typ data rnd rs c' rnd',
    wloop fuel c typ data rnd = Ok (rs, c', rnd') ->
    concat (frags rs) = data /\ Forall frag_ok (frags rs).
  Proof.
    induction fuel as [|f IH]; intros c typ data rnd rs c' rnd' H;
      destruct data as [|d0 dt]; cbn [write_loop] in H; try discriminate;
      try (injection H as <- _ _; split; [reflexivity|constructor]).
    set (data := d0 :: dt) in *.
    destruct (max_payload_for_write c typ) as [mp pk] eqn:Emp.
    set (m := Z.min (zlen data) mp) in *.
    destruct (m <=? 0) eqn:Em; [discriminate|]. apply Z.leb_gt in Em.
    destruct (half_encrypt stream cbc_enc seal mac (cw_hs c) (rec_header typ (version (cw_hs c)) m)
                (ztake m data) rnd) as [[[rec st'] calls]| |]; try discriminate.
    match type of H with
    | match ?w with _ => _ end = _ => destruct w as [[[rs1 c1] rnd1]| |] eqn:Erec; try discriminate
    end.
    injection H as <- _ _.
    destruct (IH _ _ _ _ _ _ _ Erec) as [I1 I2].
    pose proof (max_payload_le c typ) as Hle. rewrite Emp in Hle. cbn [fst] in Hle.
    cbn [frags map fst snd concat]. fold (frags rs1). split.
    - rewrite I1. apply ztake_zdrop.
    - constructor; [|exact I2]. unfold frag_ok. rewrite zlen_ztake; subst m; lia.
  Qed.

  Lemma conn_write_fragments c b rnd rs c' rnd' :
    cwrite c b rnd = Ok (rs, c', rnd') ->
    concat (frags rs) = b /\ Forall frag_ok (frags rs).
  Proof.
    unfold conn_write. intro H.
    destruct ((1 <? zlen b) && (version (cw_hs c) =? VersionTLS10) && negb (cw_beast_off c) &&
              is_cbc (knd (cw_hs c))).
    - destruct (wloop 1 c 23%N (firstn 1 b) rnd) as [[[r1 c1] rnd1]| |] eqn:E1; try discriminate.
      destruct (wloop (length b) c1 23%N (skipn 1 b) rnd1) as [[[r2 c2] rnd2]| |] eqn:E2; try discriminate.
      injection H as <- _ _.
      destruct (write_loop_fragments _ _ _ _ _ _ _ _ E1) as [A1 A2].
      destruct (write_loop_fragments _ _ _ _ _ _ _ _ E2) as [B1 B2].
      rewrite frags_app, concat_app, A1, B1. split; [apply firstn_skipn|].
      apply Forall_app. now split.
    - now apply write_loop_fragments in H.
  Qed.

  (* every Write sequence: the plaintext fragments, in order, are exactly the
     bytes written, and no record carries more than 2^14 (or fewer than 1) *)
  Theorem conn_writes_fragments ws : forall c rnd rs c' rnd',
    cwrites c ws rnd = Ok (rs, c', rnd') ->
    concat (frags rs) = concat ws /\ Forall frag_ok (frags rs).
  Proof.
    induction ws as [|b ws IH]; intros c rnd rs c' rnd' H; cbn [conn_writes] in H.
    - injection H as <- _ _. split; [reflexivity|constructor].
    - destruct (cwrite c b rnd) as [[[r1 c1] rnd1]| |] eqn:E1; try discriminate.
      destruct (cwrites c1 ws rnd1) as [[[r2 c2] rnd2]| |] eqn:E2; try discriminate.
      injection H as <- _ _.
      destruct (conn_write_fragments _ _ _ _ _ _ E1) as [A1 A2].
      destruct (IH _ _ _ _ _ E2) as [B1 B2].
      rewrite frags_app, concat_app, A1, B1. cbn [concat]. split; [reflexivity|].
      apply Forall_app. now split.
  Qed.
End Fragmentation.

(* ============================================================ segmentation *)
Lemma fill_spec segs : forall raw n raw' segs' ok,
  fill raw segs n = (raw', segs', ok) ->
  raw' ++ concat segs' = raw ++ concat segs /\
  (ok = true -> n <= zlen raw') /\ (ok = false -> segs' = [] /\ zlen raw' < n).
Proof.
  induction segs as [|s r IH]; intros raw n raw' segs' ok H; cbn [fill] in H.
  - destruct (Z.geb_spec (zlen raw) n) as [G|G]; injection H as <- <- <-.
    + split; [reflexivity|]. split; intro; [lia|discriminate].
    + split; [reflexivity|]. split; intro; [discriminate|]. split; [reflexivity|lia].
  - destruct (Z.geb_spec (zlen raw) n) as [G|G].
    + injection H as <- <- <-. split; [reflexivity|]. split; intro; [lia|discriminate].
    + apply IH in H. destruct H as (A & B & C). split; [|now split].
      rewrite A. cbn [concat]. now rewrite app_assoc.
Qed.

Lemma nth_app_front (a b : bytes) i : (i < length a)%nat -> nth i (a ++ b) 0%N = nth i a 0%N.
Proof. intro H. now apply app_nth1. Qed.

Lemma rx_header_app st a b : 5 <= zlen a -> rx_header st (a ++ b) = rx_header st a.
Proof.
  intro H. unfold rx_header. unfold zlen in H.
  rewrite !nth_app_front by lia. reflexivity.
Qed.

Lemma ztake_app_front {A} (a b : list A) n : n <= zlen a -> ztake n (a ++ b) = ztake n a.
Proof.
  intro H. unfold ztake, zlen in *. rewrite firstn_app.
  replace (Z.to_nat n - length a)%nat with 0%nat by lia. cbn. now rewrite app_nil_r.
Qed.
Lemma zdrop_app_front {A} (a b : list A) n : n <= zlen a -> zdrop n (a ++ b) = zdrop n a ++ b.
Proof.
  intro H. unfold zdrop, zlen in *. rewrite skipn_app.
  replace (Z.to_nat n - length a)%nat with 0%nat by lia. reflexivity.
Qed.

Section Segmentation.
  Variable stream : Z -> bytes -> bytes.
  Variable cbc_dec : bytes -> bytes -> bytes.
  Variable aopen : bytes -> bytes -> bytes -> option bytes.
  Variable mac : bytes -> bytes.
  Notation rxrec := (rx_record stream cbc_dec aopen mac).
  Notation rxsegs := (rx_record_segs stream cbc_dec aopen mac).

  Definition step_rel {B1 B2} (R : B1 -> B2 -> Prop) (a : rx_step B1) (b : rx_step B2) : Prop :=
    match a, b with
    | RxEnd e1, RxEnd e2 => e1 = e2
    | RxRec t1 d1 s1 r1, RxRec t2 d2 s2 r2 => t1 = t2 /\ d1 = d2 /\ s1 = s2 /\ R r1 r2
    | _, _ => False
    end.

  Definition seg_rel (b : bytes * list bytes) (flat : bytes) : Prop := fst b ++ concat (snd b) = flat.

  Lemma rx_decrypt_rel {B1 B2} (R : B1 -> B2 -> Prop) st rec r1 r2 :
    R r1 r2 ->
    step_rel R (rx_decrypt stream cbc_dec aopen mac st rec r1) (rx_decrypt stream cbc_dec aopen mac st rec r2).
  Proof.
    intro H. unfold rx_decrypt.
    destruct (half_decrypt stream cbc_dec aopen mac st rec) as [[[[d t] s'] cl]|a|]; cbn; auto.
    destruct (zlen d >? max_plaintext); cbn; auto.
  Qed.

  Lemma rx_segs_flat st b flat : seg_rel b flat -> step_rel seg_rel (rxsegs st b) (rxrec st flat).
  Proof.
    destruct b as [raw segs]. unfold seg_rel. cbn [fst snd]. intros <-.
    unfold rx_record_segs, rx_record. cbn [fst snd].
    destruct (fill raw segs 5) as [[raw1 segs1] ok1] eqn:F1.
    destruct (fill_spec _ _ _ _ _ _ F1) as (A1 & B1 & C1). rewrite <- A1.
    destruct ok1; cbn [negb].
    - specialize (B1 eq_refl). pose proof (zlen_nonneg (concat segs1)).
      replace (zlen (raw1 ++ concat segs1) <? 5) with false
        by (symmetry; apply Z.ltb_ge; rewrite zlen_app; lia).
      rewrite (rx_header_app st raw1 (concat segs1) B1).
      destruct (rx_header st raw1) as [n|]; [|reflexivity].
      destruct (fill raw1 segs1 (5 + n)) as [[raw2 segs2] ok2] eqn:F2.
      destruct (fill_spec _ _ _ _ _ _ F2) as (A2 & B2 & C2). rewrite <- A2.
      destruct ok2; cbn [negb].
      + specialize (B2 eq_refl). pose proof (zlen_nonneg (concat segs2)).
        replace (zlen (raw2 ++ concat segs2) <? 5 + n) with false
          by (symmetry; apply Z.ltb_ge; rewrite zlen_app; lia).
        rewrite (ztake_app_front raw2 _ _ B2), (zdrop_app_front raw2 _ _ B2).
        apply rx_decrypt_rel. reflexivity.
      + destruct (C2 eq_refl) as [-> L2]. cbn [concat]. rewrite app_nil_r.
        replace (zlen raw2 <? 5 + n) with true by (symmetry; apply Z.ltb_lt; lia).
        reflexivity.
    - destruct (C1 eq_refl) as [-> L1]. cbn [concat]. rewrite app_nil_r.
      replace (zlen raw1 <? 5) with true by (symmetry; apply Z.ltb_lt; lia).
      reflexivity.
  Qed.

  Lemma read_loop_sim {B1 B2} (R : B1 -> B2 -> Prop) step1 step2 :
    (forall st b1 b2, R b1 b2 -> step_rel R (step1 st b1) (step2 st b2)) ->
    forall fuel st retry b1 b2, R b1 b2 ->
      read_loop step1 fuel st retry b1 = read_loop step2 fuel st retry b2.
  Proof.
    intros Hstep. induction fuel as [|f IH]; intros st retry b1 b2 HR; [reflexivity|].
    cbn [read_loop]. specialize (Hstep st b1 b2 HR).
    destruct (step1 st b1) as [t1 d1 s1 r1|e1], (step2 st b2) as [t2 d2 s2 r2|e2];
      cbn [step_rel] in Hstep; try contradiction; [|now subst].
    destruct Hstep as (-> & -> & -> & HR').
    rewrite !(IH _ _ r1 r2 HR'). reflexivity.
  Qed.

  (* the reader's result does not depend on how the transport cuts the byte stream *)
  Theorem read_segmentation_independent fuel st retry raw segs :
    read_app_segs stream cbc_dec aopen mac fuel st retry raw segs =
    read_app stream cbc_dec aopen mac fuel st retry (raw ++ concat segs).
  Proof.
    unfold read_app_segs, read_app.
    apply (read_loop_sim seg_rel); [intros; now apply rx_segs_flat | reflexivity].
  Qed.
End Segmentation.

(* ============================================================ the stream theorem *)
Lemma be16_decode n : 0 <= n < 65536 ->
  Z.of_N (byteZ (n / 256)) * 256 + Z.of_N (byteZ n) = n.
Proof.
  intro H. unfold byteZ.
  rewrite !Z2N.id by (apply Z.mod_pos_bound; lia).
  rewrite (Z.mod_small (n / 256) 256).
  - pose proof (Z.div_mod n 256 ltac:(lia)). lia.
  - split; [apply Z.div_pos; lia|]. apply Z.div_lt_upper_bound; lia.
Qed.

Definition supported_version (v : Z) : Prop :=
  v = VersionTLS10 \/ v = VersionTLS11 \/ v = VersionTLS12 \/ v = VersionTLS13.

(* the record fits the limits the reader enforces (maxCiphertext, and
   maxCiphertextTLS13 in TLS 1.3) *)
Definition wf_limits (st : hstate) : Prop :=
  match knd st with
  | KStream ms => ms <= 2048
  | KAead e ovh => e + ovh <= 2048 /\ (version st = VersionTLS13 -> ovh <= 255)
  | _ => True
  end.

Section StreamLaws.
  Variable stream : Z -> bytes -> bytes.
  Variable cbc_enc cbc_dec : bytes -> bytes -> bytes.
  Variable seal : bytes -> bytes -> bytes -> bytes.
  Variable aopen : bytes -> bytes -> bytes -> option bytes.
  Variable mac : bytes -> bytes.
  Variables BS MS OVH : Z.

  Hypothesis stream_app : forall pos a b, stream pos (a ++ b) = stream pos a ++ stream (pos + zlen a) b.
  Hypothesis stream_inv : forall pos x, stream pos (stream pos x) = x.
  Hypothesis stream_len : forall pos x, zlen (stream pos x) = zlen x.
  Hypothesis cbc_len : forall iv x, zlen (cbc_enc iv x) = zlen x.
  Hypothesis cbc_dec_enc : forall iv x, zlen x mod BS = 0 -> cbc_dec iv (cbc_enc iv x) = x.
  Hypothesis seal_len : forall n ad p, zlen (seal n ad p) = zlen p + OVH.
  Hypothesis open_seal : forall n ad p, aopen n ad (seal n ad p) = Some p.
  Hypothesis mac_len : forall x, zlen (mac x) = MS.
  Hypothesis mac_wf : forall x, wf_bytes (mac x).

  Notation enc := (half_encrypt stream cbc_enc seal mac).
  Notation dec := (half_decrypt stream cbc_dec aopen mac).
  Notation rxrec := (rx_record stream cbc_dec aopen mac).
  Notation wfst := (wf_state BS MS OVH).

  Lemma enc_len_bound st m : wfst st -> wf_limits st -> 1 <= m <= 16384 ->
    0 <= enc_len st m - 5 <= 18432 /\ (version st = VersionTLS13 -> enc_len st m - 5 <= 16640).
  Proof.
    unfold wf_state, wf_limits, enc_len, explicit_nonce_len. intros Hst Hl Hm.
    destruct (knd st) as [|ms|bs ms|e ovh]; [contradiction| | |].
    - destruct Hst as (-> & H1 & H2). split; [lia|]. intro; contradiction.
    - destruct Hst as (-> & -> & H1 & H2 & H3).
      pose proof (Z.mod_pos_bound (m + MS) BS ltac:(lia)).
      split; [|intro; contradiction]. destruct (version st >=? VersionTLS11); lia.
    - destruct Hst as (-> & H1 & H2 & H3 & H4). destruct Hl as [L1 L2].
      destruct (Z.eqb_spec (version st) VersionTLS13) as [E|E].
      + specialize (H4 E). specialize (L2 E). split; [lia|]. intro. lia.
      + split; [lia|]. intro; contradiction.
  Qed.

  Lemma rx_record_genuine st frag rnd rec st1 calls rest :
    wfst st -> wf_limits st -> supported_version (version st) ->
    frag_ok frag -> wf_bytes frag ->
    enc st (rec_header 23%N (version st) (zlen frag)) frag rnd = Ok (rec, st1, calls) ->
    rxrec st (rec ++ rest) = RxRec 23%N frag st1 rest.
  Proof.
    intros Hst Hlim Hv Hf Hwf He. unfold frag_ok in Hf.
    set (hdr := rec_header 23%N (version st) (zlen frag)) in *.
    assert (Hh : length hdr = 5%nat) by reflexivity.
    assert (Hhd : wf_header st hdr frag).
    { unfold wf_header. split; [exact Hh|]. split; [reflexivity|]. split; [lia|]. split; [exact Hwf|]. intros _. discriminate. }
    destruct (enc_shape stream cbc_enc seal mac BS MS OVH stream_len cbc_len seal_len mac_len _ _ _ _ _ _ _ Hst Hh He)
      as (body & Hrec & Hbody & Hoh).
    assert (Hout : outer_hdr st hdr = hdr).
    { unfold outer_hdr. destruct (version st =? VersionTLS13); reflexivity. }
    rewrite Hout in Hrec. clear Hoh Hout.
    destruct (enc_len_bound st (zlen frag) Hst Hlim Hf) as [Hb1 Hb2].
    set (n := enc_len st (zlen frag) - 5) in *.
    assert (Hzr : zlen rec = 5 + n).
    { rewrite Hrec, zlen_app. unfold zlen at 1. rewrite (set_len_length _ _ Hh). lia. }
    unfold rx_record.
    pose proof (zlen_nonneg rest) as Hr0.
    replace (zlen (rec ++ rest) <? 5) with false by (symmetry; apply Z.ltb_ge; rewrite zlen_app; lia).
    rewrite rx_header_app by lia.
    assert (Hhdr : rx_header st rec = Some n).
    { rewrite Hrec. unfold rx_header, set_len, hdr, rec_header. rewrite Hbody. fold n.
      cbn [firstn app nth be16].
      rewrite (be16_decode n) by lia.
      assert (Hwv : Z.of_N (byteZ (wire_version (version st) / 256)) * 256 +
                    Z.of_N (byteZ (wire_version (version st))) = wire_version (version st)).
      { apply be16_decode. destruct Hv as [->|[->|[->| ->]]]; vm_compute; split; congruence. }
      rewrite Hwv. unfold max_ciphertext, max_ciphertext13.
      destruct (Z.eqb_spec (version st) VersionTLS13) as [E|E]; cbn [negb andb].
      - specialize (Hb2 E).
        replace (n >? 16640) with false by (symmetry; rewrite Z.gtb_ltb; apply Z.ltb_ge; lia).
        replace (n >? 18432) with false by (symmetry; rewrite Z.gtb_ltb; apply Z.ltb_ge; lia).
        reflexivity.
      - replace (wire_version (version st) =? version st) with true.
        + replace (n >? 18432) with false by (symmetry; rewrite Z.gtb_ltb; apply Z.ltb_ge; lia).
          reflexivity.
        + symmetry. apply Z.eqb_eq. destruct Hv as [Hv|[Hv|[Hv|Hv]]]; try contradiction; rewrite Hv; reflexivity. }
    rewrite Hhdr.
    replace (zlen (rec ++ rest) <? 5 + n) with false by (symmetry; apply Z.ltb_ge; rewrite zlen_app; lia).
    rewrite <- Hzr, ztake_app_exact, zdrop_app_exact.
    unfold rx_decrypt.
    destruct (decrypt_encrypt stream cbc_enc cbc_dec seal aopen mac BS MS OVH
                stream_app stream_inv stream_len cbc_len cbc_dec_enc seal_len open_seal mac_len mac_wf
                _ _ _ _ _ _ _ Hst Hhd He) as [calls' Hd].
    rewrite Hd. unfold max_plaintext.
    replace (zlen frag >? 16384) with false by (symmetry; rewrite Z.gtb_ltb; apply Z.ltb_ge; lia).
    reflexivity.
  Qed.

  (* the records of a write sequence: each one is the encryption of its fragment
     under the state the previous one left *)
  Inductive chain : hstate -> list wrec -> hstate -> Prop :=
  | chain_nil st : chain st [] st
  | chain_cons st frag rec calls rnd st1 rs st2 :
      frag_ok frag ->
      enc st (rec_header 23%N (version st) (zlen frag)) frag rnd = Ok (rec, st1, calls) ->
      chain st1 rs st2 -> chain st ((frag, rec, calls) :: rs) st2.

  Lemma chain_app a r1 b : chain a r1 b -> forall r2 c, chain b r2 c -> chain a (r1 ++ r2) c.
  Proof.
    induction 1 as [|st frag rec calls rnd st1 rs st2 Hf He Hc IH]; intros r2 c H2; [exact H2|].
    cbn [app]. econstructor; eauto.
  Qed.

  Notation wloop := (write_loop stream cbc_enc seal mac).
  Notation cwrite := (conn_write stream cbc_enc seal mac).
  Notation cwrites := (conn_writes stream cbc_enc seal mac).

  Lemma write_loop_chain fuel : forall c data rnd rs c' rnd',
    wloop fuel c 23%N data rnd = Ok (rs, c', rnd') -> chain (cw_hs c) rs (cw_hs c').
  Proof.
    induction fuel as [|f IH]; intros c data rnd rs c' rnd' H;
      destruct data as [|d0 dt]; cbn [write_loop] in H; try discriminate;
      try (injection H as <- <- _; constructor).
    set (data := d0 :: dt) in *.
    destruct (max_payload_for_write c 23%N) as [mp pk] eqn:Emp.
    set (m := Z.min (zlen data) mp) in *.
    destruct (m <=? 0) eqn:Em; [discriminate|]. apply Z.leb_gt in Em.
    pose proof (max_payload_le c 23%N) as Hle. rewrite Emp in Hle. cbn [fst] in Hle.
    assert (Hzm : zlen (ztake m data) = m) by (apply zlen_ztake; subst m; lia).
    destruct (enc (cw_hs c) (rec_header 23%N (version (cw_hs c)) m) (ztake m data) rnd)
      as [[[rec st'] calls]| |] eqn:Ee; try discriminate.
    match type of H with
    | match ?w with _ => _ end = _ => destruct w as [[[rs1 c1] rnd1]| |] eqn:Erec; try discriminate
    end.
    injection H as <- <- _.
    apply IH in Erec. cbn [cw_hs] in Erec.
    econstructor; [| |exact Erec].
    - unfold frag_ok. lia.
    - rewrite Hzm. exact Ee.
  Qed.

  Lemma conn_write_chain c b rnd rs c' rnd' :
    cwrite c b rnd = Ok (rs, c', rnd') -> chain (cw_hs c) rs (cw_hs c').
  Proof.
    unfold conn_write. intro H.
    destruct ((1 <? zlen b) && (version (cw_hs c) =? VersionTLS10) && negb (cw_beast_off c) &&
              is_cbc (knd (cw_hs c))).
    - destruct (wloop 1 c 23%N (firstn 1 b) rnd) as [[[r1 c1] rnd1]| |] eqn:E1; try discriminate.
      destruct (wloop (length b) c1 23%N (skipn 1 b) rnd1) as [[[r2 c2] rnd2]| |] eqn:E2; try discriminate.
      injection H as <- <- _.
      eapply chain_app; eapply write_loop_chain; eauto.
    - eapply write_loop_chain; eauto.
  Qed.

  Lemma conn_writes_chain ws : forall c rnd rs c' rnd',
    cwrites c ws rnd = Ok (rs, c', rnd') -> chain (cw_hs c) rs (cw_hs c').
  Proof.
    induction ws as [|b ws IH]; intros c rnd rs c' rnd' H; cbn [conn_writes] in H.
    - injection H as <- <- _. constructor.
    - destruct (cwrite c b rnd) as [[[r1 c1] rnd1]| |] eqn:E1; try discriminate.
      destruct (cwrites c1 ws rnd1) as [[[r2 c2] rnd2]| |] eqn:E2; try discriminate.
      injection H as <- <- _.
      eapply chain_app; [eapply conn_write_chain; eauto | eapply IH; eauto].
  Qed.

  Lemma wf_same st st1 : knd st1 = knd st -> version st1 = version st ->
    wfst st -> wf_limits st -> supported_version (version st) ->
    wfst st1 /\ wf_limits st1 /\ supported_version (version st1).
  Proof. unfold wf_state, wf_limits. intros -> ->. tauto. Qed.

  Lemma wfst_not_null st : wfst st -> knd st <> KNull.
  Proof. unfold wf_state. intros H E. rewrite E in H. exact H. Qed.

  (* a reader in the writer's initial state gets every fragment back, in order,
     and then a clean end of stream *)
  Lemma read_chain st rs st2 : chain st rs st2 ->
    wfst st -> wf_limits st -> supported_version (version st) -> Forall wf_bytes (frags rs) ->
    forall fuel retry, (length rs < fuel)%nat ->
      read_app stream cbc_dec aopen mac fuel st retry (concat (wrecs rs)) = (concat (frags rs), EndEOF).
  Proof.
    induction 1 as [|st frag rec calls rnd st1 rs st2 Hf He Hc IH]; intros Hst Hlim Hv Hwf fuel retry Hfuel.
    - destruct fuel; [cbn in Hfuel; lia|]. reflexivity.
    - destruct fuel as [|f]; [cbn in Hfuel; lia|]. cbn [length] in Hfuel.
      cbn [frags wrecs map fst snd concat] in *. fold (frags rs) in *. fold (wrecs rs).
      inversion Hwf as [|? ? Hwf1 Hwf2]; subst.
      unfold read_app. cbn [read_loop].
      rewrite (rx_record_genuine st frag rnd rec st1 calls _ Hst Hlim Hv Hf Hwf1 He).
      destruct (encrypt_seq stream cbc_enc seal mac _ _ _ _ _ _ _ (wfst_not_null _ Hst) He) as (_ & Hk & Hvv).
      destruct (wf_same st st1 Hk Hvv Hst Hlim Hv) as (Hst1 & Hlim1 & Hv1).
      pose proof (wfst_not_null _ Hst1) as Hnn.
      destruct (knd st1) eqn:Ek1; [contradiction| | |];
        (cbn [andb N.eqb Pos.eqb negb];
         unfold frag_ok in Hf;
         replace (0 <? zlen frag) with true by (symmetry; apply Z.ltb_lt; lia);
         destruct frag as [|f0 fr]; [rewrite zlen_nil in Hf; lia|];
         fold (read_app stream cbc_dec aopen mac f st1 0 (concat (wrecs rs)));
         rewrite (IH Hst1 Hlim1 Hv1 Hwf2 f 0 ltac:(lia)); reflexivity).
  Qed.

  Lemma wf_concat l : wf_bytes (concat l) -> Forall wf_bytes l.
  Proof.
    induction l as [|a l IH]; cbn [concat]; intro H; [constructor|].
    unfold wf_bytes in H. apply Forall_app in H as [H1 H2]. constructor; [exact H1|now apply IH].
  Qed.

  (* C25, first half: whatever the sizes of the Writes and however the
     transport cuts the wire into segments, the reader (started in the
     writer's state) returns exactly the bytes written, then a clean EOF *)
  Theorem stream_intact c ws rnd rs c' rnd' segs fuel retry :
    wfst (cw_hs c) -> wf_limits (cw_hs c) -> supported_version (version (cw_hs c)) ->
    wf_bytes (concat ws) ->
    cwrites c ws rnd = Ok (rs, c', rnd') ->
    concat segs = concat (wrecs rs) -> (length rs < fuel)%nat ->
    read_app_segs stream cbc_dec aopen mac fuel (cw_hs c) retry [] segs = (concat ws, EndEOF).
  Proof.
    intros Hst Hlim Hv Hwf Hw Hsegs Hfuel.
    rewrite read_segmentation_independent. cbn [app]. rewrite Hsegs.
    destruct (conn_writes_fragments stream cbc_enc seal mac ws _ _ _ _ _ Hw) as [Hcat _].
    rewrite <- Hcat in *.
    apply (read_chain _ _ _ (conn_writes_chain ws _ _ _ _ _ Hw) Hst Hlim Hv (wf_concat _ Hwf) fuel retry Hfuel).
  Qed.
End StreamLaws.

(* ============================================================ non-vacuity *)
(* the laws are satisfiable: trivial primitives with block size 16, a 20-byte
   MAC and a 16-byte AEAD overhead *)
Definition id_stream (pos : Z) (x : bytes) : bytes := x.
Definition id_cbc (iv x : bytes) : bytes := x.
Definition pad_seal (n ad p : bytes) : bytes := p ++ repeat 0%N 16.
Definition pad_open (n ad c : bytes) : option bytes := Some (ztake (zlen c - 16) c).
Definition zero_mac (x : bytes) : bytes := repeat 0%N 20.

Lemma laws_satisfiable :
  (forall pos a b, id_stream pos (a ++ b) = id_stream pos a ++ id_stream (pos + zlen a) b) /\
  (forall pos x, id_stream pos (id_stream pos x) = x) /\
  (forall pos x, zlen (id_stream pos x) = zlen x) /\
  (forall iv x, zlen (id_cbc iv x) = zlen x) /\
  (forall iv x, zlen x mod 16 = 0 -> id_cbc iv (id_cbc iv x) = x) /\
  (forall n ad p, zlen (pad_seal n ad p) = zlen p + 16) /\
  (forall n ad p, pad_open n ad (pad_seal n ad p) = Some p) /\
  (forall x, zlen (zero_mac x) = 20) /\
  (forall x, wf_bytes (zero_mac x)).
Proof.
  repeat split; try reflexivity.
  - intros. unfold pad_seal. rewrite zlen_app. reflexivity.
  - intros. unfold pad_open, pad_seal. rewrite zlen_app.
    replace (zlen p + zlen (repeat 0%N 16) - 16) with (zlen p) by (cbn; lia).
    now rewrite ztake_app_exact.
  - intros. apply wf_repeat. lia.
Qed.

(* and the hypotheses of the stream theorem are met by a concrete run *)
Definition nv_state : hstate :=
  {| version := VersionTLS12; knd := KAead 8 16; seqno := 0%N; civ := []; spos := 0 |}.
Definition nv_conn : conn_w :=
  {| cw_hs := nv_state; cw_bytes := 0; cw_pkts := 0; cw_dyn_off := false; cw_beast_off := false |}.
Definition nv_writes : list bytes := [[104; 105]; []; [33; 10; 0; 255]]%N.

Lemma stream_nonvacuous :
  wf_state 16 20 16 nv_state /\ wf_limits nv_state /\ supported_version (version nv_state) /\
  wf_bytes (concat nv_writes) /\
  exists rs c' rnd',
    conn_writes id_stream id_cbc pad_seal zero_mac nv_conn nv_writes [] = Ok (rs, c', rnd') /\
    length rs = 2%nat /\
    read_app_segs id_stream id_cbc pad_open zero_mac 3 nv_state 0 []
      (map (fun b => [b]) (concat (wrecs rs))) = (concat nv_writes, EndEOF).
Proof.
  split; [cbn; repeat split; try lia; intro H; discriminate H|].
  split; [cbn; split; [lia|intro H; discriminate H]|].
  split; [right; right; left; reflexivity|].
  split; [repeat constructor|].
  eexists _, _, _. split; [vm_compute; reflexivity|]. split; vm_compute; reflexivity.
Qed.
