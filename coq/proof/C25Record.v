(* C25Record.v — decrypt o encrypt = id for every cipher kind of the record-layer
   model, over abstract primitives with named laws. *)
From Coq Require Import List NArith ZArith Bool Arith Lia.
From Verif Require Import Harness.
From VerifModel Require Import C25.
From VerifProof Require Import C25Proofs.
Import ListNotations.
Local Open Scope Z_scope.

(* ------------------------------------------------------------ list facts *)
Lemma zlen_app {A} (a b : list A) : zlen (a ++ b) = zlen a + zlen b.
Proof. unfold zlen. rewrite app_length. lia. Qed.
Lemma zlen_nonneg {A} (a : list A) : 0 <= zlen a.
Proof. unfold zlen. lia. Qed.
Lemma zlen_nil {A} : zlen (@nil A) = 0.
Proof. reflexivity. Qed.
Lemma zlen_cons {A} (x : A) l : zlen (x :: l) = 1 + zlen l.
Proof. unfold zlen. cbn [length]. lia. Qed.
Lemma zlen_repeat {A} (x : A) n : zlen (repeat x n) = Z.of_nat n.
Proof. unfold zlen. now rewrite repeat_length. Qed.

Lemma ztake_app_exact {A} (a b : list A) : ztake (zlen a) (a ++ b) = a.
Proof.
  unfold ztake, zlen. rewrite Nat2Z.id. rewrite firstn_app, Nat.sub_diag, firstn_all.
  cbn. now rewrite app_nil_r.
Qed.
Lemma zdrop_app_exact {A} (a b : list A) : zdrop (zlen a) (a ++ b) = b.
Proof.
  unfold zdrop, zlen. rewrite Nat2Z.id. rewrite skipn_app, Nat.sub_diag, skipn_all. reflexivity.
Qed.
Lemma ztake_all {A} (a : list A) n : zlen a <= n -> ztake n a = a.
Proof. unfold ztake, zlen. intro H. apply firstn_all2. lia. Qed.
Lemma ztake_0 {A} (a : list A) n : n <= 0 -> ztake n a = [].
Proof. unfold ztake. intro H. replace (Z.to_nat n) with 0%nat by lia. reflexivity. Qed.
Lemma zdrop_0 {A} (a : list A) n : n <= 0 -> zdrop n a = a.
Proof. unfold zdrop. intro H. replace (Z.to_nat n) with 0%nat by lia. reflexivity. Qed.
Lemma zlen_ztake {A} (a : list A) n : 0 <= n <= zlen a -> zlen (ztake n a) = n.
Proof. unfold ztake, zlen. intro H. rewrite firstn_length. lia. Qed.
Lemma ztake_zdrop {A} (a : list A) n : ztake n a ++ zdrop n a = a.
Proof. unfold ztake, zdrop. apply firstn_skipn. Qed.

Lemma firstn_app_exact {A} (a b : list A) n : length a = n -> firstn n (a ++ b) = a.
Proof. intros <-. rewrite firstn_app, Nat.sub_diag, firstn_all. cbn. now rewrite app_nil_r. Qed.
Lemma skipn_app_exact {A} (a b : list A) n : length a = n -> skipn n (a ++ b) = b.
Proof. intros <-. rewrite skipn_app, Nat.sub_diag, skipn_all. reflexivity. Qed.

Lemma bytes_eqb_refl a : bytes_eqb a a = true.
Proof. apply list_eqb_refl. apply N.eqb_refl. Qed.

(* ------------------------------------------------------------ headers *)
Lemma set_len_length hdr n : length hdr = 5%nat -> length (set_len hdr n) = 5%nat.
Proof. intro H. unfold set_len, be16. rewrite app_length, firstn_length, H. reflexivity. Qed.

Lemma set_len_idem hdr a b : length hdr = 5%nat -> set_len (set_len hdr a) b = set_len hdr b.
Proof.
  intro H. unfold set_len at 1 3. f_equal. unfold set_len.
  apply firstn_app_exact. rewrite firstn_length, H. reflexivity.
Qed.

Lemma set_len_self hdr n : length hdr = 5%nat -> skipn 3 hdr = be16 n -> set_len hdr n = hdr.
Proof. intros H E. unfold set_len. rewrite <- E. apply firstn_skipn. Qed.

Lemma hd0_set_len hdr n : length hdr = 5%nat -> hd0 (set_len hdr n) = hd0 hdr.
Proof.
  intro H. destruct hdr as [|a [|b [|c [|d [|e [|]]]]]]; try discriminate. reflexivity.
Qed.

Lemma firstn3_set_len hdr n : length hdr = 5%nat -> firstn 3 (set_len hdr n) = firstn 3 hdr.
Proof.
  intro H. unfold set_len. apply firstn_app_exact. rewrite firstn_length, H. reflexivity.
Qed.

(* what a record built by [finish] looks like to the receiver *)
Lemma set_rec_len_app hdr body : length hdr = 5%nat ->
  set_rec_len (hdr ++ body) = set_len hdr (zlen body) ++ body.
Proof.
  intro H. unfold set_rec_len.
  rewrite (firstn_app_exact hdr body 5 H), (skipn_app_exact hdr body 5 H).
  rewrite zlen_app. unfold zlen at 1. rewrite H.
  replace (Z.of_nat 5 + zlen body - 5) with (zlen body) by lia. reflexivity.
Qed.

Section View.
  Variables (hdr body : bytes) (n : Z).
  Hypothesis Hh : length hdr = 5%nat.
  Let rec := set_len hdr n ++ body.
  Lemma view_len : (zlen rec <? 5) = false.
  Proof.
    subst rec. rewrite zlen_app. unfold zlen at 1. rewrite (set_len_length hdr n Hh).
    pose proof (zlen_nonneg body). apply Z.ltb_ge. lia.
  Qed.
  Lemma view_hdr : firstn 5 rec = set_len hdr n.
  Proof. subst rec. apply firstn_app_exact. now apply set_len_length. Qed.
  Lemma view_body : skipn 5 rec = body.
  Proof. subst rec. apply skipn_app_exact. now apply set_len_length. Qed.
  Lemma view_typ : hd0 rec = hd0 hdr.
  Proof.
    subst rec. destruct hdr as [|a [|b [|c [|d [|e [|]]]]]]; try discriminate. reflexivity.
  Qed.
End View.

(* ------------------------------------------------------------ arithmetic *)
Lemma pad_total plen bs : 0 < bs -> (plen + (bs - plen mod bs)) mod bs = 0.
Proof.
  intro H. rewrite (Z.div_mod plen bs) at 1 by lia.
  replace (bs * (plen / bs) + plen mod bs + (bs - plen mod bs)) with ((plen / bs + 1) * bs) by ring.
  apply Z.mod_mul. lia.
Qed.

Lemma round_up_least a bs k : 0 < bs -> 0 <= a -> k mod bs = 0 -> a <= k ->
  a + (bs - a mod bs) mod bs <= k.
Proof.
  intros Hb Ha Hk Hak.
  pose proof (Z.mod_pos_bound a bs Hb) as Hr.
  destruct (Z.eq_dec (a mod bs) 0) as [E|E].
  - rewrite E, Z.sub_0_r, Z.mod_same by lia. lia.
  - rewrite (Z.mod_small (bs - a mod bs) bs) by lia.
    apply Z.mod_divide in Hk; [|lia]. destruct Hk as [q Hq]. subst k.
    pose proof (Z.div_mod a bs ltac:(lia)) as Hd.
    assert (a / bs < q) by nia. nia.
Qed.

(* ------------------------------------------------------------ sequence bytes *)
Lemma be_n_length k : forall s, length (be_n k s) = k.
Proof. induction k as [|k IH]; intro s; cbn [be_n]; [reflexivity|]. rewrite app_length, IH. cbn. lia. Qed.
Lemma seq8_length s : length (seq8 s) = 8%nat.
Proof. apply be_n_length. Qed.
Lemma zlen_seq8 s : zlen (seq8 s) = 8.
Proof. unfold zlen. now rewrite seq8_length. Qed.

Lemma scan13_app_nonzero payload t : t <> 0%N -> scan13 (rev (payload ++ [t])) = Some (t, rev payload).
Proof.
  intro H. rewrite rev_app_distr. cbn [rev app scan13].
  destruct (N.eqb_spec t 0); [contradiction|reflexivity].
Qed.

Lemma tls13_inner_ok payload t : t <> 0%N -> zlen payload <= 16384 ->
  tls13_inner (payload ++ [t]) 23%N = Ok (payload, t).
Proof.
  intros Ht Hl. unfold tls13_inner. cbn [N.eqb Pos.eqb negb].
  rewrite zlen_app, zlen_cons, zlen_nil. unfold max_plaintext.
  replace (zlen payload + (1 + 0) >? 16384 + 1) with false by (symmetry; rewrite Z.gtb_ltb; apply Z.ltb_ge; lia).
  rewrite (scan13_app_nonzero payload t Ht), rev_involutive.
  destruct payload; reflexivity.
Qed.

(* ------------------------------------------------------------ CBC padding *)
Lemma rev_repeat {A} (x : A) n : rev (repeat x n) = repeat x n.
Proof.
  induction n as [|n IH]; [reflexivity|]. cbn [repeat rev]. rewrite IH.
  clear IH. induction n as [|n IH]; [reflexivity|]. cbn [repeat app]. now rewrite IH.
Qed.

Lemma forallb_repeat p n : forallb (N.eqb p) (repeat p n) = true.
Proof. induction n; cbn; [reflexivity|]. now rewrite N.eqb_refl. Qed.

Lemma wf_app a b : wf_bytes a -> wf_bytes b -> wf_bytes (a ++ b).
Proof. unfold wf_bytes. intros. apply Forall_app. now split. Qed.

Lemma wf_repeat x n : (x < 256)%N -> wf_bytes (repeat x n).
Proof. intro H. unfold wf_bytes. induction n; cbn; constructor; auto. Qed.

Lemma byteZ_small k : 0 <= k < 256 -> byteZ k = Z.to_N k.
Proof. intro H. unfold byteZ. now rewrite Z.mod_small. Qed.

Lemma extract_padding_padded body k :
  wf_bytes body -> 1 <= k <= 256 -> zlen body + k < 2147483648 ->
  extract_padding (body ++ repeat (byteZ (k - 1)) (Z.to_nat k)) = (Z.to_N k, 255%N).
Proof.
  intros Hwf Hk Hlen.
  rewrite (byteZ_small (k - 1)) by lia.
  set (p := Z.to_N (k - 1)). set (K := Z.to_nat k).
  assert (Hp : (p < 256)%N) by (subst p; lia).
  rewrite extract_padding_spec.
  - unfold extract_padding_ref. rewrite rev_app_distr, rev_repeat.
    assert (HK : K = S (Z.to_nat (k - 1))) by (subst K; lia).
    rewrite HK at 1. cbn [repeat app].
    unfold padding_ok.
    replace (N.to_nat p + 1)%nat with K by (subst p K; lia).
    rewrite rev_app_distr, rev_repeat.
    rewrite (firstn_app_exact (repeat p K) (rev body) K) by apply repeat_length.
    rewrite forallb_repeat, app_length, repeat_length.
    replace (K <=? length body + K)%nat with true by (symmetry; apply Nat.leb_le; lia).
    cbn [andb]. f_equal. subst p. lia.
  - apply wf_app; [exact Hwf | now apply wf_repeat].
  - rewrite app_length, repeat_length. unfold zlen in Hlen. subst K. lia.
Qed.

(* ------------------------------------------------------------ the laws *)
Local Opaque set_len set_rec_len seq8 be16 firstn skipn.
Section Laws.
  Variable stream : Z -> bytes -> bytes.
  Variable cbc_enc cbc_dec : bytes -> bytes -> bytes.
  Variable seal : bytes -> bytes -> bytes -> bytes.
  Variable aopen : bytes -> bytes -> bytes -> option bytes.
  Variable mac : bytes -> bytes.
  Variables BS MS OVH : Z.

  Hypothesis stream_app : forall pos a b, stream pos (a ++ b) = stream pos a ++ stream (pos + zlen a) b.
  Hypothesis stream_inv : forall pos x, stream pos (stream pos x) = x.
  Hypothesis stream_len : forall pos x, zlen (stream pos x) = zlen x.
  Hypothesis cbc_len : forall iv x, zlen (cbc_enc iv x) = zlen x.
  Hypothesis cbc_dec_enc : forall iv x, zlen x mod BS = 0 -> cbc_dec iv (cbc_enc iv x) = x.
  Hypothesis seal_len : forall n ad p, zlen (seal n ad p) = zlen p + OVH.
  Hypothesis open_seal : forall n ad p, aopen n ad (seal n ad p) = Some p.
  Hypothesis mac_len : forall x, zlen (mac x) = MS.
  Hypothesis mac_wf : forall x, wf_bytes (mac x).

  Notation enc := (half_encrypt stream cbc_enc seal mac).
  Notation dec := (half_decrypt stream cbc_dec aopen mac).

  Lemma mac_check_ok st s hdr payload padding n padl :
    seqno st = s ->
    length hdr = 5%nat -> skipn 3 hdr = be16 (zlen payload) -> zlen padding = padl -> 0 <= MS ->
    mac_check mac st (set_len hdr n)
              (payload ++ mac (seq8 s ++ hdr ++ payload) ++ padding) MS padl 255%N
    = Ok (payload, [CMac (seq8 s ++ hdr ++ payload); CMacExtra padding]).
  Proof.
    intros Hs Hh Hl Hp HMS. unfold mac_check. cbv zeta. rewrite Hs.
    set (m := mac (seq8 s ++ hdr ++ payload)).
    assert (Hm : zlen m = MS) by apply mac_len.
    pose proof (zlen_nonneg payload) as Hp0. pose proof (zlen_nonneg padding) as Hq0.
    rewrite !zlen_app, Hm, Hp.
    replace (zlen payload + (MS + padl) <? MS) with false by (symmetry; apply Z.ltb_ge; lia).
    replace (zlen payload + (MS + padl) - MS - padl) with (zlen payload) by lia.
    replace (zlen payload <? 0) with false by (symmetry; apply Z.ltb_ge; lia).
    cbv beta iota.
    rewrite set_len_idem by exact Hh. rewrite (set_len_self hdr _ Hh Hl).
    rewrite ztake_app_exact. rewrite (zdrop_app_exact payload (m ++ padding)).
    rewrite <- Hm at 1. rewrite ztake_app_exact.
    fold m. rewrite bytes_eqb_refl. cbn [andb N.eqb Pos.eqb].
    replace (zlen payload + MS) with (zlen (payload ++ m)) by (rewrite zlen_app; lia).
    rewrite (app_assoc payload m padding), zdrop_app_exact. reflexivity.
  Qed.

  Lemma mac_check_ok_nopad st s hdr payload n :
    seqno st = s ->
    length hdr = 5%nat -> skipn 3 hdr = be16 (zlen payload) -> 0 <= MS ->
    mac_check mac st (set_len hdr n) (payload ++ mac (seq8 s ++ hdr ++ payload)) MS 0 255%N
    = Ok (payload, [CMac (seq8 s ++ hdr ++ payload); CMacExtra []]).
  Proof.
    intros. rewrite <- (app_nil_r (mac _)) at 1.
    now apply mac_check_ok.
  Qed.

  Lemma dec_enc_stream st hdr payload rnd rec st' calls ms :
    knd st = KStream ms -> ms = MS -> 0 <= MS -> version st <> VersionTLS13 ->
    length hdr = 5%nat -> skipn 3 hdr = be16 (zlen payload) ->
    enc st hdr payload rnd = Ok (rec, st', calls) ->
    exists calls', dec st rec = Ok (payload, hd0 hdr, st', calls').
  Proof.
    intros Hk -> HMS Hv Hh Hl He.
    destruct st as [v k s iv sp]. cbn in Hk, Hv. subst k.
    unfold half_encrypt, explicit_nonce_len, finish in He.
    cbn [knd version seqno civ spos is_cbc] in He.
    change (0 <? 0) with false in He. cbn [andb] in He.
    destruct (inc_seq s) as [s1|] eqn:Es; [|discriminate].
    injection He as Hrec Hst Hcalls. subst rec st' calls.
    cbn [app]. rewrite (set_rec_len_app _ _ Hh).
    unfold half_decrypt.
    rewrite (view_len _ _ _ Hh), (view_hdr _ _ _ Hh), (view_body _ _ _ Hh), (view_typ _ _ _ Hh).
    cbn [knd version seqno civ spos].
    replace (v =? VersionTLS13) with false by (symmetry; apply Z.eqb_neq; exact Hv).
    cbn [andb].
    rewrite <- stream_app, stream_inv.
    rewrite (mac_check_ok_nopad {| version := v; knd := KStream MS; seqno := s; civ := iv; spos := sp |}
               s hdr payload _ eq_refl Hh Hl HMS).
    cbn [seqno]. rewrite Es.
    eexists. unfold with_seq. cbn [version knd seqno civ spos].
    rewrite stream_len, !zlen_app, mac_len.
    replace (sp + (zlen payload + MS)) with (sp + zlen payload + MS) by lia.
    reflexivity.
  Qed.

  Lemma dec_enc_aead st hdr payload rnd rec st' calls e ovh :
    knd st = KAead e ovh -> ovh = OVH -> 0 <= OVH -> 0 <= e -> (e <= 8 \/ 16 <= e) ->
    (version st = VersionTLS13 -> e = 0 /\ hd0 hdr <> 0%N) ->
    length hdr = 5%nat -> skipn 3 hdr = be16 (zlen payload) -> zlen payload <= 16384 ->
    enc st hdr payload rnd = Ok (rec, st', calls) ->
    exists calls', dec st rec = Ok (payload, hd0 hdr, st', calls').
  Proof.
    intros Hk -> HO He0 Hrange H13 Hh Hl Hmax He.
    destruct st as [v k s iv sp]. cbn in Hk, H13. subst k.
    unfold half_encrypt, explicit_nonce_len, finish in He.
    cbn [knd version seqno civ spos is_cbc orb] in He.
    set (from_rand := (0 <? e) && (16 <=? e)) in He.
    destruct (from_rand && (zlen rnd <? e)) eqn:Efr; [discriminate|].
    set (en := if 0 <? e then _ else _) in He.
    assert (Hen : zlen en = e).
    { subst en. destruct (Z.ltb_spec 0 e) as [L|L]; [|rewrite zlen_nil; lia].
      destruct from_rand eqn:Ef.
      - cbn [andb] in Efr. apply Z.ltb_ge in Efr. apply zlen_ztake. lia.
      - subst from_rand. apply andb_false_iff in Ef as [Ef|Ef]; [first [discriminate | apply Z.ltb_ge in Ef; lia]|].
        apply Z.leb_gt in Ef. apply zlen_ztake. rewrite zlen_seq8. lia. }
    clearbody en. clear Efr. clearbody from_rand.
    pose proof (zlen_nonneg payload) as Hp0.
    destruct (Z.eqb_spec v VersionTLS13) as [E13|N13].
    - (* TLS 1.3 *)
      cbv beta iota zeta in He.
      destruct (H13 E13) as [-> Ht]. subst v.
      assert (en = []) by (destruct en; [reflexivity|rewrite zlen_cons in Hen; pose proof (zlen_nonneg en); lia]).
      subst en. clear Hen.
      destruct (inc_seq s) as [s1|] eqn:Es; [|discriminate].
      injection He as Hrec Hst Hcalls. subst rec st' calls.
      try rewrite app_nil_l.
      set (h23 := 23%N :: skipn 1 hdr).
      assert (Hh23 : length h23 = 5%nat) by (subst h23; cbn [length]; rewrite skipn_length, Hh; reflexivity).
      set (n := zlen payload + 1 + OVH).
      set (hdr' := set_len h23 n).
      assert (Hh' : length hdr' = 5%nat) by (now apply set_len_length).
      rewrite (set_rec_len_app _ _ Hh').
      assert (Hs : zlen (seal (seq8 s) hdr' (payload ++ [hd0 hdr])) = n).
      { rewrite seal_len, zlen_app, zlen_cons, zlen_nil. subst n. lia. }
      rewrite Hs. subst hdr'. rewrite set_len_idem by exact Hh23.
      unfold half_decrypt.
      rewrite (view_len _ _ _ Hh23), (view_hdr _ _ _ Hh23), (view_body _ _ _ Hh23), (view_typ _ _ _ Hh23).
      cbn [knd version seqno civ spos explicit_nonce_len].
      replace (hd0 h23) with 23%N by reflexivity.
      replace (VersionTLS13 =? VersionTLS13) with true by reflexivity.
      cbn [N.eqb Pos.eqb andb].
      rewrite Hs.
      replace (n <? 0) with false by (symmetry; apply Z.ltb_ge; subst n; lia).
      rewrite (ztake_0 _ 0) by lia. rewrite (zdrop_0 _ 0) by lia.
      rewrite open_seal.
      rewrite (tls13_inner_ok payload (hd0 hdr) Ht Hmax).
      rewrite Es. eexists. reflexivity.
    - (* TLS 1.0 - 1.2 *)
      cbv beta iota zeta in He.
      destruct (inc_seq s) as [s1|] eqn:Es; [|discriminate].
      injection He as Hrec Hst Hcalls. subst rec st' calls.
      set (nonce := match en with [] => seq8 s | _ :: _ => en end).
      set (sealed := seal nonce (seq8 s ++ hdr) payload).
      assert (Hs : zlen sealed = zlen payload + OVH) by apply seal_len.
      rewrite (set_rec_len_app _ _ Hh).
      unfold half_decrypt.
      rewrite (view_len _ _ _ Hh), (view_hdr _ _ _ Hh), (view_body _ _ _ Hh), (view_typ _ _ _ Hh).
      cbn [knd version seqno civ spos explicit_nonce_len].
      replace (v =? VersionTLS13) with false by (symmetry; now apply Z.eqb_neq).
      cbn [andb].
      rewrite zlen_app, Hen, Hs.
      replace (e + (zlen payload + OVH) <? e) with false by (symmetry; apply Z.ltb_ge; lia).
      replace (ztake e (en ++ sealed)) with en by (rewrite <- Hen; symmetry; apply ztake_app_exact).
      replace (zdrop e (en ++ sealed)) with sealed by (rewrite <- Hen; symmetry; apply zdrop_app_exact).
      rewrite (firstn3_set_len _ _ Hh), Hs.
      replace (zlen payload + OVH - OVH) with (zlen payload) by lia.
      rewrite <- Hl, firstn_skipn.
      replace (match en with [] => seq8 s | n :: l => n :: l end) with nonce by (subst nonce; now destruct en).
      fold sealed. subst sealed. rewrite open_seal.
      rewrite Es. eexists. reflexivity.
  Qed.

  Lemma dec_enc_cbc st hdr payload rnd rec st' calls bs ms :
    knd st = KCbc bs ms -> bs = BS -> ms = MS -> 0 < BS <= 256 -> 0 <= MS <= 1024 ->
    version st <> VersionTLS13 ->
    length hdr = 5%nat -> wf_bytes payload ->
    skipn 3 hdr = be16 (zlen payload) -> zlen payload <= 16384 ->
    enc st hdr payload rnd = Ok (rec, st', calls) ->
    exists calls', dec st rec = Ok (payload, hd0 hdr, st', calls').
  Proof.
    intros Hk -> -> HBS HMS Hv Hh Hwf Hl Hmax He.
    destruct st as [v k s iv0 sp]. cbn in Hk, Hv. subst k.
    unfold half_encrypt, explicit_nonce_len, finish in He.
    cbn [knd version seqno civ spos is_cbc orb] in He.
    set (e := if v >=? VersionTLS11 then BS else 0) in *.
    rewrite !andb_true_r in He.
    destruct ((0 <? e) && (zlen rnd <? e)) eqn:Efr; [discriminate|].
    set (en := if 0 <? e then _ else _) in He.
    assert (Hen : zlen en = e /\ (e = 0 \/ e = BS)).
    { subst en e. destruct (v >=? VersionTLS11).
      - replace (0 <? BS) with true in * by (symmetry; apply Z.ltb_lt; lia).
        cbn [andb] in Efr. apply Z.ltb_ge in Efr. split; [apply zlen_ztake; lia | now right].
      - cbn. split; [reflexivity | now left]. }
    destruct Hen as [Hen He01]. clearbody en. clear Efr.
    pose proof (zlen_nonneg payload) as Hp0.
    set (x := seq8 s ++ hdr ++ payload) in *.
    set (m := mac x) in *.
    assert (Hm : zlen m = MS) by apply mac_len.
    rewrite Hm in He.
    set (plen := zlen payload + MS) in *.
    set (padl := BS - plen mod BS) in *.
    assert (Hpadl : 1 <= padl <= BS).
    { subst padl. pose proof (Z.mod_pos_bound plen BS ltac:(lia)). lia. }
    set (padding := repeat (byteZ (padl - 1)) (Z.to_nat padl)) in *.
    assert (Hpad : zlen padding = padl) by (subst padding; rewrite zlen_repeat; lia).
    set (dst := payload ++ m ++ padding) in *.
    assert (Hdst : zlen dst = plen + padl).
    { subst dst. rewrite !zlen_app, Hm, Hpad. subst plen. lia. }
    assert (Hmod : zlen dst mod BS = 0) by (rewrite Hdst; subst padl; apply pad_total; lia).
    set (iv := match en with [] => iv0 | _ :: _ => en end) in *.
    set (ct := cbc_enc iv dst) in *.
    assert (Hct : zlen ct = zlen dst) by apply cbc_len.
    destruct (inc_seq s) as [s1|] eqn:Es; [|discriminate].
    injection He as Hrec Hst Hcalls. subst rec st' calls.
    rewrite (set_rec_len_app _ _ Hh).
    unfold half_decrypt.
    rewrite (view_len _ _ _ Hh), (view_hdr _ _ _ Hh), (view_body _ _ _ Hh), (view_typ _ _ _ Hh).
    cbn [knd version seqno civ spos explicit_nonce_len].
    replace (v =? VersionTLS13) with false by (symmetry; now apply Z.eqb_neq).
    cbn [andb]. fold e.
    (* the length checks *)
    rewrite zlen_app, Hen, Hct.
    assert (Hm2 : (e + zlen dst) mod BS = 0).
    { destruct He01 as [->| ->]; [exact Hmod|].
      replace (BS + zlen dst) with (zlen dst + 1 * BS) by ring. rewrite Z.mod_add by lia. exact Hmod. }
    rewrite Hm2. cbn [Z.eqb negb orb].
    assert (Hmin : e + (MS + 1 + (BS - (MS + 1) mod BS) mod BS) <= e + zlen dst).
    { apply Z.add_le_mono_l. apply round_up_least; subst plen; lia. }
    replace (e + zlen dst <? e + (MS + 1 + (BS - (MS + 1) mod BS) mod BS)) with false
      by (symmetry; apply Z.ltb_ge; exact Hmin).
    (* the IV and the body *)
    assert (Hiv : (if 0 <? e then ztake e (en ++ ct) else iv0) = iv).
    { subst iv. destruct (Z.ltb_spec 0 e) as [L|L].
      - rewrite <- Hen, ztake_app_exact. destruct en; [rewrite zlen_nil in Hen; lia|reflexivity].
      - destruct en; [reflexivity|]. rewrite zlen_cons in Hen. pose proof (zlen_nonneg en). lia. }
    assert (Hbody : (if 0 <? e then zdrop e (en ++ ct) else en ++ ct) = ct).
    { destruct (Z.ltb_spec 0 e) as [L|L].
      - now rewrite <- Hen, zdrop_app_exact.
      - destruct en; [reflexivity|]. rewrite zlen_cons in Hen. pose proof (zlen_nonneg en). lia. }
    rewrite Hiv, Hbody.
    subst ct. rewrite (cbc_dec_enc iv dst Hmod).
    assert (Hep : extract_padding dst = (Z.to_N padl, 255%N)).
    { subst dst padding. rewrite app_assoc. apply extract_padding_padded.
      - apply wf_app; [exact Hwf | apply mac_wf].
      - lia.
      - rewrite zlen_app, Hm. lia. }
    rewrite Hep.
    replace (Z.of_N (Z.to_N padl)) with padl by lia.
    subst dst m x.
    rewrite (mac_check_ok {| version := v; knd := KCbc BS MS; seqno := s; civ := iv0; spos := sp |}
               s hdr payload padding _ padl eq_refl Hh Hl Hpad ltac:(lia)).
    cbn [seqno]. rewrite Es. eexists. reflexivity.
  Qed.

  (* the cipher kinds the theorem covers: the parameters of the state are those
     of the primitives; TLS 1.3 uses an AEAD without explicit nonce *)
  Definition wf_state (st : hstate) : Prop :=
    match knd st with
    | KNull => False
    | KStream ms => ms = MS /\ 0 <= MS /\ version st <> VersionTLS13
    | KCbc bs ms => bs = BS /\ ms = MS /\ 0 < BS <= 256 /\ 0 <= MS <= 1024 /\ version st <> VersionTLS13
    | KAead e ovh => ovh = OVH /\ 0 <= OVH /\ 0 <= e /\ (e <= 8 \/ 16 <= e) /\
                     (version st = VersionTLS13 -> e = 0)
    end.

  (* a record header as writeRecordLocked builds it for this payload *)
  Definition wf_header (st : hstate) (hdr payload : bytes) : Prop :=
    length hdr = 5%nat /\ skipn 3 hdr = be16 (zlen payload) /\ zlen payload <= 16384 /\
    wf_bytes payload /\ (version st = VersionTLS13 -> hd0 hdr <> 0%N).

  Theorem decrypt_encrypt st hdr payload rnd rec st' calls :
    wf_state st -> wf_header st hdr payload ->
    enc st hdr payload rnd = Ok (rec, st', calls) ->
    exists calls', dec st rec = Ok (payload, hd0 hdr, st', calls').
  Proof.
    intros Hst (Hh & Hl & Hmax & Hwf & H13) He. unfold wf_state in Hst.
    destruct (knd st) as [|ms|bs ms|e ovh] eqn:Hk; [contradiction| | |].
    - destruct Hst as (H1 & H2 & H3). eapply dec_enc_stream; eauto.
    - destruct Hst as (H1 & H2 & H3 & H4 & H5). eapply dec_enc_cbc; eauto.
    - destruct Hst as (H1 & H2 & H3 & H4 & H5). eapply dec_enc_aead; eauto.
  Qed.

  (* both sequence numbers advance by exactly one *)
  Lemma encrypt_seq st hdr payload rnd rec st' calls :
    knd st <> KNull ->
    enc st hdr payload rnd = Ok (rec, st', calls) ->
    inc_seq (seqno st) = Some (seqno st') /\ knd st' = knd st /\ version st' = version st.
  Proof.
    intros Hk He. unfold half_encrypt, finish in He.
    destruct (knd st) as [|ms|bs ms|e ovh] eqn:Ek; [contradiction| | |];
      repeat match type of He with
             | (if ?c then _ else _) = _ => destruct c
             | match inc_seq ?s with _ => _ end = _ => destruct (inc_seq s) eqn:?
             end; try discriminate;
      injection He as _ <- _; cbn [seqno knd version with_seq]; auto.
  Qed.

  (* shape and length of what encrypt puts on the wire *)
  Definition outer_hdr (st : hstate) (hdr : bytes) : bytes :=
    if version st =? VersionTLS13 then 23%N :: skipn 1 hdr else hdr.

  Lemma enc_shape st hdr payload rnd rec st' calls :
    wf_state st -> length hdr = 5%nat ->
    enc st hdr payload rnd = Ok (rec, st', calls) ->
    exists body, rec = set_len (outer_hdr st hdr) (zlen body) ++ body /\
                 zlen body = enc_len st (zlen payload) - 5 /\
                 length (outer_hdr st hdr) = 5%nat.
  Proof.
    intros Hst Hh He. unfold wf_state in Hst.
    assert (Hoh : length (outer_hdr st hdr) = 5%nat).
    { unfold outer_hdr. destruct (version st =? VersionTLS13); [|exact Hh].
      cbn [length]. rewrite skipn_length, Hh. reflexivity. }
    destruct st as [v k s iv0 sp]. cbn [knd version] in Hst.
    unfold outer_hdr, enc_len in *. cbn [knd version] in *.
    unfold half_encrypt, explicit_nonce_len, finish in He.
    cbn [knd version seqno civ spos] in He.
    destruct k as [|ms|bs ms|e ovh]; [contradiction| | |].
    - (* stream *)
      destruct Hst as (-> & HMS & Hv).
      replace (v =? VersionTLS13) with false in * by (symmetry; now apply Z.eqb_neq).
      cbn [is_cbc orb] in He. change (0 <? 0) with false in He. cbn [andb] in He.
      destruct (inc_seq s) as [s1|]; [|discriminate].
      injection He as Hrec _ _. subst rec. cbn [app].
      rewrite (set_rec_len_app _ _ Hh). eexists. split; [reflexivity|]. split; [|exact Hh].
      rewrite zlen_app, !stream_len, mac_len. lia.
    - (* CBC *)
      destruct Hst as (-> & -> & HBS & HMS & Hv).
      replace (v =? VersionTLS13) with false in * by (symmetry; now apply Z.eqb_neq).
      cbn [is_cbc orb] in He.
      set (e := if v >=? VersionTLS11 then BS else 0) in *.
      rewrite !andb_true_r in He.
      destruct ((0 <? e) && (zlen rnd <? e)) eqn:Efr; [discriminate|].
      set (en := if 0 <? e then _ else _) in He.
      assert (Hen : zlen en = e).
      { subst en e. destruct (v >=? VersionTLS11).
        - replace (0 <? BS) with true in * by (symmetry; apply Z.ltb_lt; lia).
          cbn [andb] in Efr. apply Z.ltb_ge in Efr. apply zlen_ztake; lia.
        - reflexivity. }
      clearbody en.
      destruct (inc_seq s) as [s1|]; [|discriminate].
      injection He as Hrec _ _. subst rec.
      rewrite (set_rec_len_app _ _ Hh). eexists. split; [reflexivity|]. split; [|exact Hh].
      rewrite zlen_app, cbc_len, !zlen_app, mac_len, zlen_repeat, Hen.
      unfold explicit_nonce_len. cbn [knd version]. fold e.
      pose proof (Z.mod_pos_bound (zlen payload + MS) BS ltac:(lia)). lia.
    - (* AEAD *)
      destruct Hst as (-> & HO & He0 & Hrange & H13).
      cbn [is_cbc orb] in He.
      set (from_rand := (0 <? e) && (16 <=? e)) in He.
      destruct (from_rand && (zlen rnd <? e)) eqn:Efr; [discriminate|].
      set (en := if 0 <? e then _ else _) in He.
      assert (Hen : zlen en = e).
      { subst en. destruct (Z.ltb_spec 0 e) as [L|L]; [|rewrite zlen_nil; lia].
        destruct from_rand eqn:Ef.
        - cbn [andb] in Efr. apply Z.ltb_ge in Efr. apply zlen_ztake. lia.
        - subst from_rand. apply andb_false_iff in Ef as [Ef|Ef]; [first [discriminate | apply Z.ltb_ge in Ef; lia]|].
          apply Z.leb_gt in Ef. apply zlen_ztake. rewrite zlen_seq8. lia. }
      clearbody en. clear Efr. clearbody from_rand.
      destruct (v =? VersionTLS13) eqn:E13; cbv beta iota zeta in He;
        (destruct (inc_seq s) as [s1|]; [|discriminate]); injection He as Hrec _ _; subst rec.
      + set (h23 := 23%N :: skipn 1 hdr) in *.
        rewrite (set_rec_len_app _ _ (set_len_length _ _ Hoh)).
        rewrite set_len_idem by exact Hoh.
        eexists. split; [reflexivity|]. split; [|exact Hoh].
        rewrite seal_len, !zlen_app, Hen, zlen_cons, zlen_nil. lia.
      + rewrite (set_rec_len_app _ _ Hh). eexists. split; [reflexivity|]. split; [|exact Hh].
        rewrite zlen_app, seal_len, Hen. lia.
  Qed.
End Laws.
