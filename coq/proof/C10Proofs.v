(* C10 — proofs about the graph model (model/C10.v).

   GInv is the invariant of every graph reachable from the empty graph by
   AddCert / AddRoot.  It is stated on the "views" of the edges (certificate,
   issuer, child), which AddRoot does not change. *)
From Coq Require Import List NArith ZArith Bool Arith Lia Permutation.
From Verif Require Import Harness AbsCertG.
From VerifModel Require Import C10.
Import ListNotations.

(* ------------------------------------------------------------------ views *)
Definition view := (cert * option node * node)%type.
Definition v_cert (v : view) : cert := fst (fst v).
Definition v_iss (v : view) : option node := snd (fst v).
Definition v_child (v : view) : node := snd v.
Definition v_fp (v : view) : N := c_fp (v_cert v).
Definition eview (e : edge) : view := (e_cert e, e_iss e, e_child e).
Definition views (g : graph) : list view := map eview (g_edges g).

Definition ctrip (v : view) (p : node) : trip := (p, v_child v, v_fp v).
Definition ptrip (v : view) (p : node) : trip := (v_child v, p, v_fp v).
Definition vmiss (v : view) : miss := (c_iss (v_cert v), v_fp v).

Definition AdjInv (mk : view -> node -> trip) (l : list trip) (vs : list view) : Prop :=
  (forall t, In t l <-> exists v p, In v vs /\ v_iss v = Some p /\ t = mk v p) /\ NoDup (map snd l).

Definition MissInv (l : list miss) (vs : list view) : Prop :=
  (forall m, In m l <-> exists v, In v vs /\ v_iss v = None /\ m = vmiss v) /\ NoDup (map snd l).

Record GInv (g : graph) : Prop := mkGInv {
  i_nodes : NoDup (g_nodes g);
  i_fps : NoDup (map v_fp (views g));
  i_child : forall v, In v (views g) -> v_child v = node_of (v_cert v) /\ In (v_child v) (g_nodes g);
  i_src : forall n, In n (g_nodes g) -> exists v, In v (views g) /\ v_child v = n;
  i_iss : forall v, In v (views g) -> v_iss v = find (issues (v_cert v)) (g_nodes g);
  i_missing : MissInv (g_missing g) (views g);
  i_children : AdjInv ctrip (g_children g) (views g);
  i_parents : AdjInv ptrip (g_parents g) (views g)
}.

(* ------------------------------------------------------------------ small facts *)
Lemma trip_eqb_eq a b : trip_eqb a b = true <-> a = b.
Proof.
  destruct a as [[a1 a2] a3], b as [[b1 b2] b3]. unfold trip_eqb; simpl.
  rewrite !andb_true_iff, !node_eqb_eq, N.eqb_eq. split.
  - intros [[-> ->] ->]; reflexivity.
  - intros E; inversion E; auto.
Qed.

Lemma miss_eqb_eq a b : miss_eqb a b = true <-> a = b.
Proof.
  destruct a as [a1 a2], b as [b1 b2]. unfold miss_eqb; simpl.
  rewrite andb_true_iff, !N.eqb_eq. split; [intros [-> ->]; reflexivity | intros E; inversion E; auto].
Qed.

Lemma existsb_false_notin {A} (eqb : A -> A -> bool) (x : A) l :
  (forall a b, eqb a b = true <-> a = b) -> ~ In x l -> existsb (eqb x) l = false.
Proof.
  intros Heq Hn. destruct (existsb (eqb x) l) eqn:E; [|reflexivity].
  apply existsb_exists in E as [y [Hy Exy]]. apply Heq in Exy. subst. contradiction.
Qed.

Lemma add_all_panics_nodup {A} (eqb : A -> A -> bool) :
  (forall a b, eqb a b = true <-> a = b) ->
  forall new old, NoDup (old ++ new) -> add_all_panics eqb new old = false.
Proof.
  intros Heq new. induction new as [|x r IH]; intros old Hnd; simpl; [reflexivity|].
  apply orb_false_iff. split.
  - apply existsb_false_notin; [assumption|].
    apply NoDup_remove_2 in Hnd. intros Hin. apply Hnd. apply in_or_app. now left.
  - apply IH. rewrite <- app_assoc. exact Hnd.
Qed.

Lemma NoDup_map_snd_NoDup {A B} (l : list (A * B)) : NoDup (map snd l) -> NoDup l.
Proof.
  induction l as [|x l IH]; simpl; intros H; [constructor|].
  inversion H as [|y l' Hn Hd]; subst. constructor; [|auto].
  intros Hin. apply Hn. now apply in_map.
Qed.

Lemma has_fp_false f es : has_fp f es = false <-> ~ In f (map e_fp es).
Proof.
  unfold has_fp. split.
  - intros H Hin. apply in_map_iff in Hin as [e [Ef He]].
    assert (X : existsb (fun e => N.eqb (e_fp e) f) es = true).
    { apply existsb_exists. exists e. split; [assumption|]. now apply N.eqb_eq. }
    congruence.
  - intros H. destruct (existsb _ es) eqn:E; [|reflexivity].
    apply existsb_exists in E as [e [He Ef]]. apply N.eqb_eq in Ef. exfalso. apply H.
    apply in_map_iff. now exists e.
Qed.

Lemma has_fp_true f es : has_fp f es = true <-> In f (map e_fp es).
Proof.
  destruct (has_fp f es) eqn:E.
  - split; [|reflexivity]. intros _.
    unfold has_fp in E. apply existsb_exists in E as [e [He Ef]]. apply N.eqb_eq in Ef.
    apply in_map_iff. now exists e.
  - apply has_fp_false in E. split; [discriminate | intros; contradiction].
Qed.

Lemma map_vfp_views g : map v_fp (views g) = map e_fp (g_edges g).
Proof. unfold views. rewrite map_map. reflexivity. Qed.

Lemma find_edge_nodup es e :
  NoDup (map e_fp es) -> In e es -> find_edge (e_fp e) es = Some e.
Proof.
  unfold find_edge. induction es as [|x es IH]; simpl; intros Hnd Hin; [contradiction|].
  inversion Hnd as [|y l Hn Hd]; subst.
  destruct Hin as [-> | Hin].
  - now rewrite N.eqb_refl.
  - destruct (N.eqb (e_fp x) (e_fp e)) eqn:E.
    + apply N.eqb_eq in E. exfalso. apply Hn. rewrite E. now apply in_map.
    + now apply IH.
Qed.

Lemma find_app {A} (f : A -> bool) l x :
  find f (l ++ [x]) = match find f l with Some y => Some y | None => if f x then Some x else None end.
Proof. induction l as [|y l IH]; simpl; [reflexivity|]. destruct (f y); [reflexivity | exact IH]. Qed.

Lemma find_some_in {A} (f : A -> bool) l x : find f l = Some x -> In x l /\ f x = true.
Proof. apply find_some. Qed.

Lemma GInv_empty : GInv empty_graph.
Proof.
  constructor; simpl; try constructor; try (intros; contradiction).
  - intros m; split; [intros [] | intros [v [[] _]]].
  - constructor.
  - intros t; split; [intros [] | intros [v [p [[] _]]]].
  - constructor.
  - intros t; split; [intros [] | intros [v [p [[] _]]]].
  - constructor.
Qed.

(* ------------------------------------------------------------------ AddCert, first half:
   new edge, find-or-create node, first verifying candidate, else park in missing *)
Definition phase1 (g : graph) (c : cert) (nodes1 : list node) : graph :=
  let nd := node_of c in
  let iss := find (issues c) nodes1 in
  mkGraph nodes1 (g_edges g ++ [mkEdge c iss nd false])
    (match iss with Some _ => g_missing g | None => g_missing g ++ [(c_iss c, c_fp c)] end)
    (match iss with Some p => g_children g ++ [(p, nd, c_fp c)] | None => g_children g end)
    (match iss with Some p => g_parents g ++ [(nd, p, c_fp c)] | None => g_parents g end)
    (g_roots g).

Definition panic1 (g : graph) (c : cert) (nodes1 : list node) : bool :=
  let nd := node_of c in
  match find (issues c) nodes1 with
  | Some p => existsb (trip_eqb (p, nd, c_fp c)) (g_children g) || existsb (trip_eqb (nd, p, c_fp c)) (g_parents g)
  | None => existsb (miss_eqb (c_iss c, c_fp c)) (g_missing g)
  end.

(* invariant between the two halves: issuers are right either for the old node
   list or for the new one *)
Record PInv (old : list node) (g : graph) : Prop := mkPInv {
  p_nodes : NoDup (g_nodes g);
  p_fps : NoDup (map v_fp (views g));
  p_child : forall v, In v (views g) -> v_child v = node_of (v_cert v) /\ In (v_child v) (g_nodes g);
  p_src : forall n, In n (g_nodes g) -> exists v, In v (views g) /\ v_child v = n;
  p_iss : forall v, In v (views g) ->
            v_iss v = find (issues (v_cert v)) old \/ v_iss v = find (issues (v_cert v)) (g_nodes g);
  p_missing : MissInv (g_missing g) (views g);
  p_children : AdjInv ctrip (g_children g) (views g);
  p_parents : AdjInv ptrip (g_parents g) (views g)
}.

Lemma NoDup_snoc {A} (l : list A) x : NoDup l -> ~ In x l -> NoDup (l ++ [x]).
Proof.
  intros Hl Hx. induction l as [|y l IH]; simpl.
  - constructor; [intros [] | constructor].
  - inversion Hl as [|z l' Hn Hd]; subst. constructor.
    + intros Hin. apply in_app_or in Hin as [Hin | [-> | []]]; [contradiction|].
      apply Hx. now left.
    + apply IH; [assumption|]. intros Hin. apply Hx. now right.
Qed.

Lemma views_snoc g es e : g_edges g = es ++ [e] -> views g = map eview es ++ [eview e].
Proof. intros H. unfold views. rewrite H, map_app. reflexivity. Qed.

Lemma adj_snoc_some mk l vs v p :
  (forall v p, snd (mk v p) = v_fp v) ->
  AdjInv mk l vs -> v_iss v = Some p -> ~ In (v_fp v) (map v_fp vs) ->
  AdjInv mk (l ++ [mk v p]) (vs ++ [v]).
Proof.
  intros Hsnd [Hiff Hnd] Hv Hfresh. split.
  - intros t. rewrite in_app_iff, Hiff. split.
    + intros [[v' [p' [Hin [Hi Ht]]]] | [<- | []]].
      * exists v', p'. split; [apply in_or_app; now left | now split].
      * exists v, p. split; [apply in_or_app; right; now left | now split].
    + intros [v' [p' [Hin [Hi Ht]]]]. apply in_app_or in Hin as [Hin | [<- | []]].
      * left. exists v', p'. now repeat split.
      * right. left. rewrite Hv in Hi. inversion Hi; subst. reflexivity.
  - rewrite map_app. simpl. apply NoDup_snoc; [assumption|].
    rewrite Hsnd. intros Hin. apply Hfresh.
    apply in_map_iff in Hin as [t [Ht Hin]]. apply Hiff in Hin as [v' [p' [Hin' [_ ->]]]].
    rewrite Hsnd in Ht. rewrite <- Ht. now apply in_map.
Qed.

Lemma adj_snoc_none mk l vs v :
  AdjInv mk l vs -> v_iss v = None -> AdjInv mk l (vs ++ [v]).
Proof.
  intros [Hiff Hnd] Hv. split; [|assumption].
  intros t. rewrite Hiff. split.
  - intros [v' [p' [Hin [Hi Ht]]]]. exists v', p'. split; [apply in_or_app; now left | now split].
  - intros [v' [p' [Hin [Hi Ht]]]]. apply in_app_or in Hin as [Hin | [<- | []]].
    + exists v', p'. now repeat split.
    + congruence.
Qed.

Lemma miss_snoc_none l vs v :
  MissInv l vs -> v_iss v = None -> ~ In (v_fp v) (map v_fp vs) ->
  MissInv (l ++ [vmiss v]) (vs ++ [v]).
Proof.
  intros [Hiff Hnd] Hv Hfresh. split.
  - intros m. rewrite in_app_iff, Hiff. split.
    + intros [[v' [Hin [Hi Hm]]] | [<- | []]].
      * exists v'. split; [apply in_or_app; now left | now split].
      * exists v. split; [apply in_or_app; right; now left | now split].
    + intros [v' [Hin [Hi Hm]]]. apply in_app_or in Hin as [Hin | [<- | []]].
      * left. exists v'. now repeat split.
      * right. left. now symmetry.
  - rewrite map_app. simpl. apply NoDup_snoc; [assumption|].
    intros Hin. apply Hfresh.
    apply in_map_iff in Hin as [m [Hm Hin]]. apply Hiff in Hin as [v' [Hin' [_ ->]]].
    simpl in Hm. rewrite <- Hm. now apply in_map.
Qed.

Lemma miss_snoc_some l vs v p :
  MissInv l vs -> v_iss v = Some p -> MissInv l (vs ++ [v]).
Proof.
  intros [Hiff Hnd] Hv. split; [|assumption].
  intros m. rewrite Hiff. split.
  - intros [v' [Hin [Hi Hm]]]. exists v'. split; [apply in_or_app; now left | now split].
  - intros [v' [Hin [Hi Hm]]]. apply in_app_or in Hin as [Hin | [<- | []]].
    + exists v'. now repeat split.
    + congruence.
Qed.

Lemma phase1_pinv g c nodes1 :
  GInv g -> has_fp (c_fp c) (g_edges g) = false ->
  NoDup nodes1 -> incl (g_nodes g) nodes1 -> In (node_of c) nodes1 ->
  (forall n, In n nodes1 -> In n (g_nodes g) \/ n = node_of c) ->
  PInv (g_nodes g) (phase1 g c nodes1) /\ panic1 g c nodes1 = false.
Proof.
  intros G Hfp Hnd1 Hincl Hnd Hcases.
  assert (Hfresh : ~ In (c_fp c) (map v_fp (views g))).
  { rewrite map_vfp_views. now apply has_fp_false. }
  set (iss := find (issues c) nodes1).
  set (vnew := (c, iss, node_of c) : view).
  assert (Hviews : views (phase1 g c nodes1) = views g ++ [vnew]).
  { unfold views, phase1. simpl. rewrite map_app. reflexivity. }
  split.
  - constructor; rewrite ?Hviews.
    + exact Hnd1.
    + rewrite map_app. simpl. apply NoDup_snoc; [apply (i_fps g G) | exact Hfresh].
    + intros v Hin. apply in_app_or in Hin as [Hin | [<- | []]].
      * destruct (i_child g G v Hin) as [H1 H2]. split; [assumption | now apply Hincl].
      * split; [reflexivity | exact Hnd].
    + intros n Hin. destruct (Hcases n Hin) as [Hold | ->].
      * destruct (i_src g G n Hold) as [v [Hv Hc]]. exists v. split; [apply in_or_app; now left | assumption].
      * exists vnew. split; [apply in_or_app; right; now left | reflexivity].
    + intros v Hin. apply in_app_or in Hin as [Hin | [<- | []]].
      * left. apply (i_iss g G v Hin).
      * right. reflexivity.
    + unfold phase1; simpl. fold iss. destruct iss as [p|] eqn:Ei.
      * apply miss_snoc_some with (p := p); [apply (i_missing g G) | reflexivity].
      * apply (miss_snoc_none (g_missing g) (views g) vnew); [apply (i_missing g G) | reflexivity | exact Hfresh].
    + unfold phase1; simpl. fold iss. destruct iss as [p|] eqn:Ei.
      * apply (adj_snoc_some ctrip (g_children g) (views g) vnew p); [reflexivity | apply (i_children g G) | reflexivity | exact Hfresh].
      * apply adj_snoc_none; [apply (i_children g G) | reflexivity].
    + unfold phase1; simpl. fold iss. destruct iss as [p|] eqn:Ei.
      * apply (adj_snoc_some ptrip (g_parents g) (views g) vnew p); [reflexivity | apply (i_parents g G) | reflexivity | exact Hfresh].
      * apply adj_snoc_none; [apply (i_parents g G) | reflexivity].
  - unfold panic1. fold iss. destruct iss as [p|].
    + apply orb_false_iff. split.
      * apply existsb_false_notin; [apply trip_eqb_eq|]. intros Hin.
        apply (proj1 (i_children g G)) in Hin as [v [p' [Hv [_ Ht]]]].
        apply Hfresh. apply (f_equal snd) in Ht. simpl in Ht. rewrite Ht. now apply (in_map v_fp).
      * apply existsb_false_notin; [apply trip_eqb_eq|]. intros Hin.
        apply (proj1 (i_parents g G)) in Hin as [v [p' [Hv [_ Ht]]]].
        apply Hfresh. apply (f_equal snd) in Ht. simpl in Ht. rewrite Ht. now apply (in_map v_fp).
    + apply existsb_false_notin; [apply miss_eqb_eq|]. intros Hin.
      apply (proj1 (i_missing g G)) in Hin as [v [Hv [_ Ht]]].
      apply Hfresh. apply (f_equal snd) in Ht. simpl in Ht. rewrite Ht. now apply (in_map v_fp).
Qed.

(* ------------------------------------------------------------------ AddCert, second half:
   the node is new; fix up the edges parked under its name that it verifies *)
Definition fixed_fps (g1 : graph) (nd : node) : list N :=
  map snd (filter (fixable nd (g_edges g1)) (filter (fun m => N.eqb (fst m) (fst nd)) (g_missing g1))).

Definition phase2 (g1 : graph) (nd : node) : graph :=
  let fixed := fixed_fps g1 nd in
  mkGraph (g_nodes g1)
    (map (fun ce => if memN (e_fp ce) fixed then set_iss ce nd else ce) (g_edges g1))
    (filter (fun m => negb (N.eqb (fst m) (fst nd) && memN (snd m) fixed)) (g_missing g1))
    (g_children g1 ++ map (fun f => (nd, child_of (g_edges g1) f, f)) fixed)
    (g_parents g1 ++ map (fun f => (child_of (g_edges g1) f, nd, f)) fixed)
    (g_roots g1).

Definition panic2 (g1 : graph) (nd : node) : bool :=
  let fixed := fixed_fps g1 nd in
  add_all_panics trip_eqb (map (fun f => (nd, child_of (g_edges g1) f, f)) fixed) (g_children g1) ||
  add_all_panics trip_eqb (map (fun f => (child_of (g_edges g1) f, nd, f)) fixed) (g_parents g1).

Lemma view_fp_inj vs v v' :
  NoDup (map v_fp vs) -> In v vs -> In v' vs -> v_fp v = v_fp v' -> v = v'.
Proof.
  induction vs as [|x vs IH]; simpl; intros Hnd Hv Hv' E; [contradiction|].
  inversion Hnd as [|y l Hn Hd]; subst.
  destruct Hv as [-> | Hv], Hv' as [-> | Hv'].
  - reflexivity.
  - exfalso. apply Hn. rewrite E. now apply in_map.
  - exfalso. apply Hn. rewrite <- E. now apply in_map.
  - now apply IH.
Qed.

Lemma NoDup_map_filter {A B} (f : A -> B) (p : A -> bool) l : NoDup (map f l) -> NoDup (map f (filter p l)).
Proof.
  induction l as [|x l IH]; simpl; intros H; [constructor|].
  inversion H as [|y l' Hn Hd]; subst.
  destruct (p x); simpl; [constructor|]; auto.
  intros Hin. apply Hn. apply in_map_iff in Hin as [z [Ez Hz]]. apply filter_In in Hz as [Hz _].
  rewrite <- Ez. now apply in_map.
Qed.

Lemma NoDup_app_intro {A} (l1 l2 : list A) :
  NoDup l1 -> NoDup l2 -> (forall x, In x l1 -> In x l2 -> False) -> NoDup (l1 ++ l2).
Proof.
  induction l1 as [|x l1 IH]; simpl; intros H1 H2 Hd; [assumption|].
  inversion H1 as [|y l Hn Hnd]; subst. constructor.
  - intros Hin. apply in_app_or in Hin as [Hin | Hin]; [contradiction|]. apply (Hd x); [now left | assumption].
  - apply IH; [assumption | assumption |]. intros z Hz1 Hz2. apply (Hd z); [now right | assumption].
Qed.

Section Phase2.
  Variable old : list node.
  Variable g1 : graph.
  Variable nd : node.
  Hypothesis P : PInv old g1.
  Hypothesis Hnodes : g_nodes g1 = old ++ [nd].

  Let vs := views g1.
  Let fixed := fixed_fps g1 nd.
  Definition FV (v : view) : view :=
    if memN (v_fp v) (fixed_fps g1 nd) then (v_cert v, Some nd, v_child v) else v.

  Lemma edge_of_view v : In v vs -> exists e, In e (g_edges g1) /\ eview e = v.
  Proof. unfold vs, views. intros H. apply in_map_iff in H as [e [E H]]. now exists e. Qed.

  Lemma find_edge_view e : In e (g_edges g1) -> find_edge (e_fp e) (g_edges g1) = Some e.
  Proof.
    intros H. apply find_edge_nodup; [|assumption]. rewrite <- map_vfp_views. apply (p_fps _ _ P).
  Qed.

  Lemma fixed_char v : In v vs ->
    (memN (v_fp v) fixed = true <-> v_iss v = None /\ issues (v_cert v) nd = true).
  Proof.
    intros Hv. destruct (edge_of_view v Hv) as [e [He Ev]].
    rewrite memN_In. unfold fixed, fixed_fps. rewrite in_map_iff. split.
    - intros [m [Em Hm]]. apply filter_In in Hm as [Hm Hfix]. apply filter_In in Hm as [Hm Hname].
      apply (proj1 (p_missing _ _ P)) in Hm as [v' [Hv' [Hi' ->]]].
      simpl in Em, Hname. assert (v' = v) as -> by (apply (view_fp_inj vs); auto; apply (p_fps _ _ P)).
      split; [assumption|].
      unfold fixable in Hfix. simpl in Hfix.
      replace (v_fp v) with (e_fp e) in Hfix by (rewrite <- Ev; reflexivity).
      rewrite (find_edge_view e He) in Hfix.
      apply issues_spec. apply N.eqb_eq in Hname. split; [now symmetry|].
      rewrite <- Ev. exact Hfix.
    - intros [Hi Hiss]. exists (vmiss v). split; [reflexivity|].
      apply issues_spec in Hiss as [Hn Hver].
      apply filter_In. split.
      + apply filter_In. split.
        * apply (proj1 (p_missing _ _ P)). now exists v.
        * simpl. apply N.eqb_eq. now symmetry.
      + unfold fixable. simpl.
        replace (v_fp v) with (e_fp e) by (rewrite <- Ev; reflexivity).
        rewrite (find_edge_view e He). rewrite <- Ev in Hver. exact Hver.
  Qed.

  Lemma fixed_has_view f : In f fixed -> exists v, In v vs /\ v_fp v = f /\ memN (v_fp v) fixed = true.
  Proof.
    intros Hf. assert (Hf' := Hf). unfold fixed, fixed_fps in Hf. apply in_map_iff in Hf as [m [Em Hm]].
    apply filter_In in Hm as [Hm _]. apply filter_In in Hm as [Hm _].
    apply (proj1 (p_missing _ _ P)) in Hm as [v [Hv [_ ->]]]. simpl in Em.
    exists v. split; [assumption|]. split; [assumption|]. apply memN_In. now rewrite Em.
  Qed.

  Lemma fixed_nodup : NoDup fixed.
  Proof.
    unfold fixed, fixed_fps. apply NoDup_map_filter. apply NoDup_map_filter. apply (proj2 (p_missing _ _ P)).
  Qed.

  Lemma child_of_view v : In v vs -> child_of (g_edges g1) (v_fp v) = v_child v.
  Proof.
    intros Hv. destruct (edge_of_view v Hv) as [e [He Ev]].
    unfold child_of. replace (v_fp v) with (e_fp e) by (rewrite <- Ev; reflexivity).
    rewrite (find_edge_view e He). now rewrite <- Ev.
  Qed.

  Lemma views_phase2 : views (phase2 g1 nd) = map FV vs.
  Proof.
    unfold views, phase2, vs, views. simpl. rewrite !map_map. apply map_ext.
    intros e. unfold FV. replace (v_fp (eview e)) with (e_fp e) by reflexivity.
    destruct (memN (e_fp e) (fixed_fps g1 nd)); reflexivity.
  Qed.

  Lemma FV_fp v : v_fp (FV v) = v_fp v.
  Proof. unfold FV. destruct (memN _ _); reflexivity. Qed.
  Lemma FV_cert v : v_cert (FV v) = v_cert v.
  Proof. unfold FV. destruct (memN _ _); reflexivity. Qed.
  Lemma FV_child v : v_child (FV v) = v_child v.
  Proof. unfold FV. destruct (memN _ _); reflexivity. Qed.

  Lemma FV_iss v : In v vs -> v_iss (FV v) = find (issues (v_cert v)) (old ++ [nd]).
  Proof.
    intros Hv. rewrite find_app. unfold FV. fold fixed.
    destruct (memN (v_fp v) fixed) eqn:Em.
    - apply (fixed_char v Hv) in Em as [Hi Hiss].
      destruct (p_iss _ _ P v Hv) as [Ho | Hn].
      + rewrite <- Ho, Hi, Hiss. reflexivity.
      + rewrite Hnodes, find_app in Hn. rewrite Hi in Hn.
        destruct (find (issues (v_cert v)) old); [discriminate|]. rewrite Hiss in *. discriminate.
    - assert (Hnot : ~ (v_iss v = None /\ issues (v_cert v) nd = true)).
      { intros H. apply (fixed_char v Hv) in H. congruence. }
      destruct (p_iss _ _ P v Hv) as [Ho | Hn].
      + rewrite <- Ho. destruct (v_iss v) eqn:Ei; [reflexivity|].
        destruct (issues (v_cert v) nd) eqn:Eiss; [exfalso; apply Hnot; now split | reflexivity].
      + rewrite Hnodes, find_app in Hn. exact Hn.
  Qed.

  Lemma adj_phase2 (mkf : node -> node -> N -> trip) l :
    (forall p c f, snd (mkf p c f) = f) ->
    AdjInv (fun v p => mkf p (v_child v) (v_fp v)) l vs ->
    AdjInv (fun v p => mkf p (v_child v) (v_fp v))
           (l ++ map (fun f => mkf nd (child_of (g_edges g1) f) f) fixed) (map FV vs).
  Proof.
    intros Hsnd [Hiff Hnd]. split.
    - intros t. rewrite in_app_iff, Hiff, in_map_iff. split.
      + intros [[v [p [Hv [Hi Ht]]]] | [f [Et Hf]]].
        * exists v, p. split; [|now split].
          replace v with (FV v) at 1; [now apply in_map|].
          unfold FV. fold fixed. destruct (memN (v_fp v) fixed) eqn:Em; [|reflexivity].
          apply (fixed_char v Hv) in Em as [Hn _]. congruence.
        * destruct (fixed_has_view f Hf) as [v [Hv [Ef Em]]].
          exists (FV v), nd. split; [now apply in_map|].
          rewrite FV_child, FV_fp. unfold FV. fold fixed. rewrite Em. split; [reflexivity|].
          rewrite <- Et, <- Ef. now rewrite child_of_view.
      + intros [v' [p [Hv' [Hi Ht]]]]. apply in_map_iff in Hv' as [v [<- Hv]].
        rewrite FV_child, FV_fp in Ht.
        unfold FV in Hi. fold fixed in Hi. destruct (memN (v_fp v) fixed) eqn:Em.
        * right. exists (v_fp v). simpl in Hi. inversion Hi; subst p.
          split; [now rewrite child_of_view | now apply memN_In].
        * left. exists v, p. now repeat split.
    - rewrite map_app, map_map.
      rewrite (map_ext (fun f => snd (mkf nd (child_of (g_edges g1) f) f)) (fun f => f)) by (intros; apply Hsnd).
      rewrite map_id. apply NoDup_app_intro; [assumption | apply fixed_nodup |].
      intros f H1 H2. apply in_map_iff in H1 as [t [Et Ht]]. apply Hiff in Ht as [v [p [Hv [Hi ->]]]].
      rewrite Hsnd in Et. destruct (fixed_has_view f H2) as [v2 [Hv2 [Ef Em]]].
      assert (v2 = v) as -> by (apply (view_fp_inj vs); auto; [apply (p_fps _ _ P) | congruence]).
      apply (fixed_char v Hv) in Em as [Hn _]. congruence.
  Qed.

  Lemma phase2_ginv : GInv (phase2 g1 nd) /\ panic2 g1 nd = false.
  Proof.
    assert (Hc : AdjInv ctrip (g_children (phase2 g1 nd)) (map FV vs)).
    { apply (adj_phase2 (fun p c f => (p, c, f))); [reflexivity | apply (p_children _ _ P)]. }
    assert (Hp : AdjInv ptrip (g_parents (phase2 g1 nd)) (map FV vs)).
    { apply (adj_phase2 (fun p c f => (c, p, f))); [reflexivity | apply (p_parents _ _ P)]. }
    split.
    - constructor; rewrite ?views_phase2.
      + apply (p_nodes _ _ P).
      + rewrite map_map. rewrite (map_ext _ v_fp) by apply FV_fp. apply (p_fps _ _ P).
      + intros v' Hv'. apply in_map_iff in Hv' as [v [<- Hv]]. rewrite FV_child, FV_cert.
        apply (p_child _ _ P v Hv).
      + intros n Hn. destruct (p_src _ _ P n Hn) as [v [Hv Hcn]].
        exists (FV v). split; [now apply in_map | now rewrite FV_child].
      + intros v' Hv'. apply in_map_iff in Hv' as [v [<- Hv]]. rewrite FV_cert.
        simpl. rewrite Hnodes. now apply FV_iss.
      + split.
        * intros m. unfold phase2; simpl. rewrite filter_In. fold fixed. split.
          -- intros [Hm Hc']. apply (proj1 (p_missing _ _ P)) in Hm as [v [Hv [Hi ->]]].
             exists v. split; [|now split].
             replace v with (FV v) at 1; [now apply in_map|].
             unfold FV. fold fixed. destruct (memN (v_fp v) fixed) eqn:Em; [|reflexivity].
             exfalso. simpl in Hc'. rewrite Em in Hc'.
             apply (fixed_char v Hv) in Em as [_ Hiss]. apply issues_spec in Hiss as [Hn _].
             rewrite <- Hn, N.eqb_refl in Hc'. discriminate.
          -- intros [v' [Hv' [Hi ->]]]. apply in_map_iff in Hv' as [v [<- Hv]].
             unfold FV in Hi |- *. fold fixed in Hi |- *. destruct (memN (v_fp v) fixed) eqn:Em; [discriminate|].
             split.
             ++ apply (proj1 (p_missing _ _ P)). now exists v.
             ++ simpl. rewrite Em. now rewrite andb_false_r.
        * unfold phase2; simpl. apply NoDup_map_filter. apply (proj2 (p_missing _ _ P)).
      + exact Hc.
      + exact Hp.
    - unfold panic2. apply orb_false_iff. split.
      + apply add_all_panics_nodup; [apply trip_eqb_eq|]. apply NoDup_map_snd_NoDup. apply (proj2 Hc).
      + apply add_all_panics_nodup; [apply trip_eqb_eq|]. apply NoDup_map_snd_NoDup. apply (proj2 Hp).
  Qed.
End Phase2.

(* ------------------------------------------------------------------ AddCert / AddRoot keep the invariant and never panic *)
Lemma add_cert_split g c :
  add_cert g c =
  if has_fp (c_fp c) (g_edges g) then (g, false)
  else if mem_node (node_of c) (g_nodes g)
       then (phase1 g c (g_nodes g), panic1 g c (g_nodes g))
       else (phase2 (phase1 g c (g_nodes g ++ [node_of c])) (node_of c),
             panic1 g c (g_nodes g ++ [node_of c]) || panic2 (phase1 g c (g_nodes g ++ [node_of c])) (node_of c)).
Proof.
  unfold add_cert. destruct (has_fp (c_fp c) (g_edges g)); [reflexivity|].
  destruct (mem_node (node_of c) (g_nodes g)) eqn:Em; simpl negb; cbv iota.
  - unfold phase1, panic1. destruct (find (issues c) (g_nodes g)); reflexivity.
  - unfold phase2, panic2, phase1, panic1, fixed_fps. simpl.
    destruct (find (issues c) (g_nodes g ++ [node_of c])); simpl; rewrite <- ?orb_assoc; reflexivity.
Qed.

Lemma add_cert_inv g c : GInv g -> GInv (fst (add_cert g c)) /\ snd (add_cert g c) = false.
Proof.
  intros G. rewrite add_cert_split.
  destruct (has_fp (c_fp c) (g_edges g)) eqn:Hfp; [now split|].
  destruct (mem_node (node_of c) (g_nodes g)) eqn:Em; simpl.
  - apply mem_node_In in Em.
    destruct (phase1_pinv g c (g_nodes g) G Hfp (i_nodes g G) (incl_refl _) Em) as [P Hp].
    { intros n Hn. now left. }
    split; [|assumption].
    constructor; try apply P.
    intros v Hv. destruct (p_iss _ _ P v Hv) as [H | H]; exact H.
  - apply mem_node_false in Em.
    destruct (phase1_pinv g c (g_nodes g ++ [node_of c]) G Hfp) as [P Hp].
    + apply NoDup_snoc; [apply (i_nodes g G) | assumption].
    + intros n Hn. apply in_or_app. now left.
    + apply in_or_app. right. now left.
    + intros n Hn. apply in_app_or in Hn as [Hn | [<- | []]]; [now left | now right].
    + destruct (phase2_ginv (g_nodes g) _ (node_of c) P eq_refl) as [G2 Hp2].
      split; [assumption|]. now rewrite Hp, Hp2.
Qed.

Lemma views_set_root (es : list edge) f :
  map eview (map (fun e => if N.eqb (e_fp e) f then set_root e else e) es) = map eview es.
Proof.
  rewrite map_map. apply map_ext. intros e. destruct (N.eqb (e_fp e) f); reflexivity.
Qed.

Lemma fp_set_root (es : list edge) f :
  map e_fp (map (fun e => if N.eqb (e_fp e) f then set_root e else e) es) = map e_fp es.
Proof.
  rewrite map_map. apply map_ext. intros e. destruct (N.eqb (e_fp e) f); reflexivity.
Qed.

Lemma add_cert_has_fp g c : has_fp (c_fp c) (g_edges (fst (add_cert g c))) = true.
Proof.
  rewrite add_cert_split.
  destruct (has_fp (c_fp c) (g_edges g)) eqn:Hfp; [exact Hfp|].
  apply has_fp_true.
  destruct (mem_node (node_of c) (g_nodes g)); simpl.
  - rewrite map_app. apply in_or_app. right. now left.
  - rewrite map_map.
    rewrite (map_ext _ e_fp).
    + rewrite map_app. apply in_or_app. right. now left.
    + intros e. destruct (memN _ _); reflexivity.
Qed.

Lemma add_root_inv g c : GInv g -> GInv (fst (add_root g c)) /\ snd (add_root g c) = false.
Proof.
  intros G. unfold add_root.
  pose proof (add_cert_inv g c G) as [G1 Hp]. pose proof (add_cert_has_fp g c) as Hh.
  destruct (add_cert g c) as [g1 p]. simpl in *. subst p. rewrite Hh. split; [|reflexivity].
  destruct G1 as [a b c0 d e f h i].
  constructor; unfold views in *; simpl; rewrite ?views_set_root; assumption.
Qed.

Lemma step_inv g o : GInv g -> GInv (fst (step g o)) /\ snd (step g o) = false.
Proof. destruct o; simpl; [apply add_cert_inv | apply add_root_inv]. Qed.

(* the state after a sequence of operations, ignoring the panic flag (which is never set) *)
Definition state_after (g : graph) (ops : list op) : graph := fold_left (fun g o => fst (step g o)) ops g.

Lemma state_after_inv ops : forall g, GInv g -> GInv (state_after g ops).
Proof.
  induction ops as [|o ops IH]; intros g G; simpl; [assumption|].
  apply IH. apply (step_inv g o G).
Qed.

Lemma run_never_panics ops : forall g, GInv g -> run g ops = Some (state_after g ops).
Proof.
  induction ops as [|o ops IH]; intros g G; simpl; [reflexivity|].
  destruct (step_inv g o G) as [G' Hp]. destruct (step g o) as [g' p]. simpl in *. subst p.
  now apply IH.
Qed.

(* ------------------------------------------------------------------ the graph in terms of the history *)
Definition certs (ops : list op) : list cert := map op_cert ops.
Definition rooted (ops : list op) (f : N) : Prop := exists c, In (AddRoot c) ops /\ c_fp c = f.
Definition fp_inj (cs : list cert) : Prop :=
  forall c c', In c cs -> In c' cs -> c_fp c = c_fp c' -> c = c'.

Definition crview (e : edge) : cert * bool := (e_cert e, e_root e).
Definition crs (g : graph) : list (cert * bool) := map crview (g_edges g).

Lemma crs_add_cert g c :
  crs (fst (add_cert g c)) = if has_fp (c_fp c) (g_edges g) then crs g else crs g ++ [(c, false)].
Proof.
  rewrite add_cert_split. destruct (has_fp (c_fp c) (g_edges g)); [reflexivity|].
  destruct (mem_node (node_of c) (g_nodes g)); unfold crs; simpl.
  - rewrite map_app. reflexivity.
  - rewrite map_map. rewrite (map_ext _ crview).
    + rewrite map_app. reflexivity.
    + intros e. destruct (memN _ _); reflexivity.
Qed.

Definition mark (f : N) (cr : cert * bool) : cert * bool :=
  if N.eqb (c_fp (fst cr)) f then (fst cr, true) else cr.

Lemma crs_add_root g c : crs (fst (add_root g c)) = map (mark (c_fp c)) (crs (fst (add_cert g c))).
Proof.
  unfold add_root. destruct (add_cert g c) as [g1 p]. unfold crs. simpl. rewrite !map_map.
  apply map_ext. intros e. unfold mark, crview. simpl. unfold e_fp. destruct (N.eqb _ _); reflexivity.
Qed.

Lemma has_fp_crs f g : has_fp f (g_edges g) = true <-> exists c r, In (c, r) (crs g) /\ c_fp c = f.
Proof.
  rewrite has_fp_true, in_map_iff. split.
  - intros [e [Ef He]]. exists (e_cert e), (e_root e). split; [|exact Ef].
    unfold crs. apply in_map_iff. now exists e.
  - intros [c [r [Hin Ef]]]. unfold crs in Hin. apply in_map_iff in Hin as [e [Ee He]].
    exists e. split; [|assumption]. inversion Ee; subst. reflexivity.
Qed.

Record HInv (ops : list op) (g : graph) : Prop := mkHInv {
  h_in : forall c r, In (c, r) (crs g) -> In c (certs ops);
  h_all : forall c', In c' (certs ops) -> exists c r, In (c, r) (crs g) /\ c_fp c = c_fp c';
  h_root : forall c r, In (c, r) (crs g) -> (r = true <-> rooted ops (c_fp c))
}.

Lemma certs_snoc ops o : certs (ops ++ [o]) = certs ops ++ [op_cert o].
Proof. unfold certs. now rewrite map_app. Qed.

Lemma rooted_snoc_cert ops c f : rooted (ops ++ [AddCert c]) f <-> rooted ops f.
Proof.
  unfold rooted. split; intros [c' [Hin E]]; exists c'; (split; [|assumption]).
  - apply in_app_or in Hin as [Hin | [Hin | []]]; [assumption | discriminate].
  - apply in_or_app. now left.
Qed.

Lemma rooted_snoc_root ops c f : rooted (ops ++ [AddRoot c]) f <-> rooted ops f \/ c_fp c = f.
Proof.
  unfold rooted. split.
  - intros [c' [Hin E]]. apply in_app_or in Hin as [Hin | [Hin | []]].
    + left. now exists c'.
    + right. inversion Hin; subst. reflexivity.
  - intros [[c' [Hin E]] | E].
    + exists c'. split; [apply in_or_app; now left | assumption].
    + exists c. split; [apply in_or_app; right; now left | assumption].
Qed.

Lemma hinv_add_cert ops g c : HInv ops g -> HInv (ops ++ [AddCert c]) (fst (add_cert g c)).
Proof.
  intros [H1 H2 H3]. constructor; rewrite crs_add_cert; rewrite ?certs_snoc.
  - intros c1 r Hin. apply in_or_app.
    destruct (has_fp (c_fp c) (g_edges g)).
    + left. now apply (H1 c1 r).
    + apply in_app_or in Hin as [Hin | [Hin | []]]; [left; now apply (H1 c1 r) | right; left].
      now inversion Hin.
  - intros c' Hin. destruct (has_fp (c_fp c) (g_edges g)) eqn:Hfp.
    + apply in_app_or in Hin as [Hin | [<- | []]]; [now apply H2|].
      apply has_fp_crs in Hfp. exact Hfp.
    + apply in_app_or in Hin as [Hin | [<- | []]].
      * destruct (H2 c' Hin) as [c1 [r [Hc1 E]]]. exists c1, r. split; [apply in_or_app; now left | assumption].
      * exists c, false. split; [apply in_or_app; right; now left | reflexivity].
  - intros c1 r Hin. rewrite rooted_snoc_cert.
    destruct (has_fp (c_fp c) (g_edges g)) eqn:Hfp; [now apply H3|].
    apply in_app_or in Hin as [Hin | [Hin | []]]; [now apply H3|].
    inversion Hin; subst c1 r. split; [discriminate|].
    intros [c' [Hroot E]]. exfalso.
    assert (Hc' : In c' (certs ops)) by (apply in_map_iff; now exists (AddRoot c')).
    destruct (H2 c' Hc') as [c2 [r2 [Hc2 E2]]].
    assert (X : has_fp (c_fp c) (g_edges g) = true) by (apply has_fp_crs; exists c2, r2; split; congruence).
    congruence.
Qed.

Lemma hinv_add_root ops g c : HInv ops g -> HInv (ops ++ [AddRoot c]) (fst (add_root g c)).
Proof.
  intros H. apply (hinv_add_cert ops g c) in H. destruct H as [H1 H2 H3].
  pose proof (crs_add_root g c) as Hcr. set (l := crs (fst (add_cert g c))) in *.
  assert (Hmark : forall c1 r1, In (c1, r1) (map (mark (c_fp c)) l) ->
            exists r0, In (c1, r0) l /\ r1 = (r0 || N.eqb (c_fp c1) (c_fp c))).
  { intros c1 r1 Hin. apply in_map_iff in Hin as [[c0 r0] [E Hin]]. unfold mark in E. simpl in E.
    destruct (N.eqb (c_fp c0) (c_fp c)) eqn:Ef; inversion E; subst.
    - exists r0. split; [assumption|]. rewrite Ef. now rewrite orb_true_r.
    - exists r1. split; [assumption|]. rewrite Ef. now rewrite orb_false_r. }
  constructor; rewrite Hcr.
  - intros c1 r1 Hin. destruct (Hmark c1 r1 Hin) as [r0 [Hin0 _]].
    unfold certs. rewrite map_app. simpl. specialize (H1 c1 r0 Hin0).
    unfold certs in H1. rewrite map_app in H1. exact H1.
  - intros c' Hin. unfold certs in Hin. rewrite map_app in Hin. simpl in Hin.
    destruct (H2 c') as [c1 [r [Hc1 E]]].
    { unfold certs. rewrite map_app. exact Hin. }
    exists c1. exists (snd (mark (c_fp c) (c1, r))). split; [|assumption].
    apply in_map_iff. exists (c1, r). split; [|assumption].
    unfold mark. simpl. destruct (N.eqb _ _); reflexivity.
  - intros c1 r1 Hin. destruct (Hmark c1 r1 Hin) as [r0 [Hin0 ->]].
    rewrite rooted_snoc_root. rewrite orb_true_iff, N.eqb_eq.
    specialize (H3 c1 r0 Hin0). rewrite rooted_snoc_cert in H3. rewrite H3.
    split; intros [X | X]; auto.
Qed.

Lemma state_after_snoc g ops o : state_after g (ops ++ [o]) = fst (step (state_after g ops) o).
Proof. unfold state_after. now rewrite fold_left_app. Qed.

Lemma hinv_history ops : HInv ops (state_after empty_graph ops).
Proof.
  induction ops as [|o ops IH] using rev_ind.
  - constructor; simpl; try (intros; contradiction).
  - rewrite state_after_snoc. destruct o; simpl; [now apply hinv_add_cert | now apply hinv_add_root].
Qed.

Lemma ginv_history ops : GInv (state_after empty_graph ops).
Proof. apply state_after_inv. apply GInv_empty. Qed.

(* ------------------------------------------------------------------ rootEdges: the root certificates issued to each node *)
Definition rview (e : edge) : node * N * bool := (e_child e, e_fp e, e_root e).
Definition RInv (g : graph) : Prop :=
  (forall n f, In (n, f) (g_roots g) <-> In (n, f, true) (map rview (g_edges g))) /\
  NoDup (map snd (g_roots g)).

Lemma RInv_empty : RInv empty_graph.
Proof. split; simpl; [intros; tauto | constructor]. Qed.

Lemma rviews_add_cert g c :
  map rview (g_edges (fst (add_cert g c))) =
  if has_fp (c_fp c) (g_edges g) then map rview (g_edges g)
  else map rview (g_edges g) ++ [(node_of c, c_fp c, false)].
Proof.
  rewrite add_cert_split. destruct (has_fp (c_fp c) (g_edges g)); [reflexivity|].
  destruct (mem_node (node_of c) (g_nodes g)); simpl.
  - rewrite map_app. reflexivity.
  - rewrite map_map. rewrite (map_ext _ rview).
    + rewrite map_app. reflexivity.
    + intros e. destruct (memN _ _); reflexivity.
Qed.

Lemma roots_add_cert g c : g_roots (fst (add_cert g c)) = g_roots g.
Proof.
  rewrite add_cert_split. destruct (has_fp (c_fp c) (g_edges g)); [reflexivity|].
  destruct (mem_node (node_of c) (g_nodes g)); reflexivity.
Qed.

Lemma rinv_add_cert g c : RInv g -> RInv (fst (add_cert g c)).
Proof.
  intros [Hiff Hnd]. split; rewrite roots_add_cert; [|assumption].
  intros n f. rewrite Hiff, rviews_add_cert. destruct (has_fp (c_fp c) (g_edges g)); [tauto|].
  rewrite in_app_iff. split; [now left|]. intros [H | [H | []]]; [assumption | discriminate].
Qed.

Lemma rt_eqb_eq a b : rt_eqb a b = true <-> a = b.
Proof.
  destruct a as [a1 a2], b as [b1 b2]. unfold rt_eqb; simpl.
  rewrite andb_true_iff, node_eqb_eq, N.eqb_eq. split; [intros [-> ->]; reflexivity | intros E; inversion E; auto].
Qed.

Lemma rinv_add_root g c : GInv g -> RInv g -> RInv (fst (add_root g c)).
Proof.
  intros G R. pose proof (add_cert_inv g c G) as [G1 _]. pose proof (rinv_add_cert g c R) as [Hiff Hnd].
  pose proof (add_cert_has_fp g c) as Hh.
  unfold add_root. destruct (add_cert g c) as [g1 p]. simpl in *.
  apply has_fp_true in Hh. apply in_map_iff in Hh as [ef [Eff Hef]].
  assert (Hfps : NoDup (map e_fp (g_edges g1))) by (rewrite <- map_vfp_views; apply (i_fps g1 G1)).
  assert (Hchild : child_of (g_edges g1) (c_fp c) = e_child ef).
  { unfold child_of. rewrite <- Eff. now rewrite (find_edge_nodup _ _ Hfps Hef). }
  assert (Huniq : forall e, In e (g_edges g1) -> e_fp e = c_fp c -> e = ef).
  { intros e He Ee. assert (X : find_edge (e_fp e) (g_edges g1) = Some e) by now apply find_edge_nodup.
    rewrite Ee, <- Eff, (find_edge_nodup _ _ Hfps Hef) in X. congruence. }
  rewrite Hchild. set (entry := (e_child ef, c_fp c)).
  assert (Hmark : forall n f, In (n, f, true) (map rview (map (fun e => if N.eqb (e_fp e) (c_fp c) then set_root e else e) (g_edges g1)))
                  <-> In (n, f) (g_roots g1) \/ (n, f) = entry).
  { intros n f. rewrite map_map, in_map_iff. split.
    - intros [e [Ev He]]. destruct (N.eqb (e_fp e) (c_fp c)) eqn:Ee.
      + apply N.eqb_eq in Ee. right. rewrite (Huniq e He Ee) in Ev. unfold rview in Ev. simpl in Ev.
        inversion Ev; subst. unfold entry. f_equal. exact Eff.
      + left. apply Hiff. apply in_map_iff. now exists e.
    - intros [H | H].
      + apply Hiff in H. apply in_map_iff in H as [e [Ev He]]. exists e. split; [|assumption].
        destruct (N.eqb (e_fp e) (c_fp c)); [|assumption]. unfold rview in *. simpl in *. inversion Ev; subst. reflexivity.
      + exists ef. split; [|assumption]. rewrite Eff, N.eqb_refl. unfold rview, entry in *. simpl. inversion H; subst.
        f_equal. f_equal. exact Eff. }
  destruct (existsb (rt_eqb entry) (g_roots g1)) eqn:Ex; cbv iota; unfold RInv; cbn [fst g_roots g_edges]; split.
  - intros n f. rewrite Hmark. split; [now left|]. intros [H | H]; [assumption|].
    apply existsb_exists in Ex as [y [Hy Ey]]. apply rt_eqb_eq in Ey. subst y. now rewrite H.
  - assumption.
  - intros n f. rewrite Hmark, in_app_iff. simpl. split.
    + intros [H | [H | []]]; [now left | right; now symmetry].
    + intros [H | H]; [now left | right; left; now symmetry].
  - rewrite map_app. simpl. apply NoDup_snoc; [assumption|].
    intros Hin. apply in_map_iff in Hin as [[n' f'] [Ef' Hin]]. simpl in Ef'. subst f'.
    assert (X : In (n', c_fp c, true) (map rview (g_edges g1))) by now apply Hiff.
    apply in_map_iff in X as [e [Ev He]]. unfold rview in Ev. inversion Ev as [[E1 E2 E3]].
    rewrite (Huniq e He E2) in E1. subst n'.
    assert (Y : existsb (rt_eqb entry) (g_roots g1) = true).
    { apply existsb_exists. exists entry. split; [exact Hin | now apply rt_eqb_eq]. }
    congruence.
Qed.

Lemma rinv_step g o : GInv g -> RInv g -> RInv (fst (step g o)).
Proof. destruct o; simpl; intros G R; [now apply rinv_add_cert | now apply rinv_add_root]. Qed.

Lemma rinv_state_after ops : forall g, GInv g -> RInv g -> RInv (state_after g ops).
Proof.
  induction ops as [|o ops IH]; intros g G R; simpl; [assumption|].
  apply IH; [apply (step_inv g o G) | now apply rinv_step].
Qed.

Lemma rinv_history ops : RInv (state_after empty_graph ops).
Proof. apply rinv_state_after; [apply GInv_empty | apply RInv_empty]. Qed.

(* rootEdges = the root edges, under their child node *)
Lemma rinv_roots_exact g : RInv g ->
  NoDup (g_roots g) /\
  forall n f, In (n, f) (g_roots g) <-> exists e, In e (g_edges g) /\ e_root e = true /\ e_child e = n /\ e_fp e = f.
Proof.
  intros [Hiff Hnd]. split; [now apply NoDup_map_snd_NoDup|].
  intros n f. rewrite Hiff, in_map_iff. split.
  - intros [e [Ev He]]. unfold rview in Ev. inversion Ev; subst. now exists e.
  - intros [e [He [Hr [Hc Hf]]]]. exists e. split; [|assumption]. unfold rview. now rewrite Hr, Hc, Hf.
Qed.

(* ------------------------------------------------------------------ statements on edges *)
Lemma in_views g e : In e (g_edges g) -> In (eview e) (views g).
Proof. intros H. unfold views. now apply in_map. Qed.

Lemma in_crs g e : In e (g_edges g) -> In (e_cert e, e_root e) (crs g).
Proof. intros H. unfold crs. apply in_map_iff. now exists e. Qed.

Definition is_issuer_of (c : cert) (n : node) : Prop := fst n = c_iss c /\ verifies n c = true.

Lemma ginv_issuer_sound g : GInv g -> forall e n, In e (g_edges g) -> e_iss e = Some n ->
  In n (g_nodes g) /\ is_issuer_of (e_cert e) n.
Proof.
  intros G e n He Hi. pose proof (i_iss g G _ (in_views g e He)) as H. simpl in H.
  unfold v_iss, v_cert in H. simpl in H. rewrite Hi in H. symmetry in H.
  apply find_some in H as [Hin Hiss]. split; [assumption|]. now apply issues_spec.
Qed.

Lemma ginv_issuer_none_iff g : GInv g -> forall e, In e (g_edges g) ->
  (e_iss e = None <-> ~ exists n, In n (g_nodes g) /\ is_issuer_of (e_cert e) n).
Proof.
  intros G e He. pose proof (i_iss g G _ (in_views g e He)) as H.
  unfold v_iss, v_cert in H. simpl in H. rewrite H. split.
  - intros Hn [n [Hin Hiss]]. apply (find_none _ _ Hn) in Hin. apply issues_spec in Hiss. congruence.
  - intros Hno. destruct (find (issues (e_cert e)) (g_nodes g)) eqn:Ef; [|reflexivity].
    exfalso. apply Hno. apply find_some in Ef as [Hin Hiss]. exists n. split; [assumption|]. now apply issues_spec.
Qed.

Lemma ginv_missing_exact g : GInv g ->
  NoDup (g_missing g) /\
  forall m, In m (g_missing g) <-> exists e, In e (g_edges g) /\ e_iss e = None /\ m = (c_iss (e_cert e), e_fp e).
Proof.
  intros G. destruct (i_missing g G) as [Hiff Hnd]. split; [now apply NoDup_map_snd_NoDup|].
  intros m. rewrite Hiff. split.
  - intros [v [Hv [Hi Hm]]]. unfold views in Hv. apply in_map_iff in Hv as [e [<- He]]. now exists e.
  - intros [e [He [Hi Hm]]]. exists (eview e). split; [now apply in_views | now split].
Qed.

Lemma ginv_adjacency g : GInv g ->
  NoDup (g_children g) /\ NoDup (g_parents g) /\
  (forall t, In t (g_children g) <-> exists e p, In e (g_edges g) /\ e_iss e = Some p /\ t = (p, e_child e, e_fp e)) /\
  (forall t, In t (g_parents g) <-> exists e p, In e (g_edges g) /\ e_iss e = Some p /\ t = (e_child e, p, e_fp e)).
Proof.
  intros G. destruct (i_children g G) as [Hc Hcn]. destruct (i_parents g G) as [Hp Hpn].
  split; [now apply NoDup_map_snd_NoDup|]. split; [now apply NoDup_map_snd_NoDup|]. split.
  - intros t. rewrite Hc. split.
    + intros [v [p [Hv [Hi Ht]]]]. unfold views in Hv. apply in_map_iff in Hv as [e [<- He]]. now exists e, p.
    + intros [e [p [He [Hi Ht]]]]. exists (eview e), p. split; [now apply in_views | now split].
  - intros t. rewrite Hp. split.
    + intros [v [p [Hv [Hi Ht]]]]. unfold views in Hv. apply in_map_iff in Hv as [e [<- He]]. now exists e, p.
    + intros [e [p [He [Hi Ht]]]]. exists (eview e), p. split; [now apply in_views | now split].
Qed.

Section History.
  Variable ops : list op.
  Let g := state_after empty_graph ops.
  Let G : GInv g := ginv_history ops.
  Let H : HInv ops g := hinv_history ops.

  Lemma hist_never_panics : run empty_graph ops = Some g.
  Proof. apply run_never_panics. apply GInv_empty. Qed.

  Lemma hist_edge_cert e : In e (g_edges g) -> In (e_cert e) (certs ops).
  Proof. intros He. apply (h_in _ _ H _ _ (in_crs g e He)). Qed.

  Lemma hist_cert_edge : fp_inj (certs ops) -> forall c, In c (certs ops) -> exists e, In e (g_edges g) /\ e_cert e = c.
  Proof.
    intros Hinj c Hc. destruct (h_all _ _ H c Hc) as [c1 [r [Hin E]]].
    unfold crs in Hin. apply in_map_iff in Hin as [e [Ee He]]. inversion Ee; subst.
    exists e. split; [assumption|]. apply Hinj; [now apply hist_edge_cert | assumption | assumption].
  Qed.

  Lemma hist_nodes : NoDup (g_nodes g) /\
    (forall n, In n (g_nodes g) -> exists c, In c (certs ops) /\ node_of c = n) /\
    (fp_inj (certs ops) -> forall c, In c (certs ops) -> In (node_of c) (g_nodes g)).
  Proof.
    split; [apply (i_nodes g G)|]. split.
    - intros n Hn. destruct (i_src g G n Hn) as [v [Hv Hc]].
      unfold views in Hv. apply in_map_iff in Hv as [e [<- He]].
      exists (e_cert e). split; [now apply hist_edge_cert|].
      destruct (i_child g G _ (in_views g e He)) as [Hch _]. unfold v_child, v_cert, eview in *. simpl in *. congruence.
    - intros Hinj c Hc. destruct (hist_cert_edge Hinj c Hc) as [e [He <-]].
      destruct (i_child g G _ (in_views g e He)) as [Hch Hin].
      unfold v_child, v_cert, eview in *. simpl in *. now rewrite <- Hch.
  Qed.

  Lemma hist_edges : NoDup (map e_fp (g_edges g)) /\
    (forall e, In e (g_edges g) -> In (e_cert e) (certs ops)) /\
    (fp_inj (certs ops) -> forall c, In c (certs ops) -> exists e, In e (g_edges g) /\ e_cert e = c).
  Proof.
    split; [rewrite <- map_vfp_views; apply (i_fps g G)|]. split; [apply hist_edge_cert | apply hist_cert_edge].
  Qed.

  Lemma hist_roots e : In e (g_edges g) -> (e_root e = true <-> rooted ops (e_fp e)).
  Proof. intros He. apply (h_root _ _ H _ _ (in_crs g e He)). Qed.

  Lemma hist_child e : In e (g_edges g) -> e_child e = node_of (e_cert e) /\ In (e_child e) (g_nodes g).
  Proof. intros He. apply (i_child g G _ (in_views g e He)). Qed.

  Lemma hist_issuer_first e : In e (g_edges g) -> e_iss e = find (issues (e_cert e)) (g_nodes g).
  Proof. intros He. apply (i_iss g G _ (in_views g e He)). Qed.
End History.

(* ------------------------------------------------------------------ order independence *)
Definition unique_issuer (ns : list node) (c : cert) : Prop :=
  forall n n', In n ns -> In n' ns -> issues c n = true -> issues c n' = true -> n = n'.

Lemma find_set_indep (c : cert) (l l' : list node) :
  (forall n, In n l <-> In n l') -> unique_issuer l c -> find (issues c) l = find (issues c) l'.
Proof.
  intros Hsame Huniq.
  destruct (find (issues c) l) eqn:E1, (find (issues c) l') eqn:E2; try reflexivity.
  - apply find_some in E1 as [H1 I1]. apply find_some in E2 as [H2 I2].
    f_equal. apply Huniq; auto. now apply Hsame.
  - apply find_some in E1 as [H1 I1]. apply Hsame in H1. apply (find_none _ _ E2) in H1. congruence.
  - apply find_some in E2 as [H2 I2]. apply Hsame in H2. apply (find_none _ _ E1) in H2. congruence.
Qed.

Lemma rooted_perm ops ops' f : Permutation ops ops' -> rooted ops f -> rooted ops' f.
Proof. intros Hp [c [Hin E]]. exists c. split; [now apply (Permutation_in _ Hp) | assumption]. Qed.

Lemma certs_perm ops ops' : Permutation ops ops' -> Permutation (certs ops) (certs ops').
Proof. intros Hp. unfold certs. now apply Permutation_map. Qed.

Lemma fp_inj_perm cs cs' : Permutation cs cs' -> fp_inj cs -> fp_inj cs'.
Proof.
  intros Hp Hi c c' Hc Hc' E. apply Hi; auto; apply (Permutation_in _ (Permutation_sym Hp)); assumption.
Qed.

Lemma order_independent ops ops' :
  Permutation ops ops' -> fp_inj (certs ops) ->
  let g := state_after empty_graph ops in
  let g' := state_after empty_graph ops' in
  (forall n, In n (g_nodes g) <-> In n (g_nodes g')) /\
  (forall c r, (exists e, In e (g_edges g) /\ e_cert e = c /\ e_root e = r) <->
               (exists e', In e' (g_edges g') /\ e_cert e' = c /\ e_root e' = r)) /\
  (forall e e', In e (g_edges g) -> In e' (g_edges g') -> e_cert e = e_cert e' ->
     e_child e = e_child e' /\
     (unique_issuer (g_nodes g) (e_cert e) -> e_iss e = e_iss e')).
Proof.
  intros Hp Hinj g g'.
  assert (Hinj' : fp_inj (certs ops')) by (apply (fp_inj_perm (certs ops)); [now apply certs_perm | assumption]).
  assert (Hnodes : forall n, In n (g_nodes g) <-> In n (g_nodes g')).
  { intros n. destruct (hist_nodes ops) as [_ [A1 B1]]. destruct (hist_nodes ops') as [_ [A2 B2]].
    split; intros Hn.
    - destruct (A1 n Hn) as [c [Hc <-]]. apply (B2 Hinj'). apply (Permutation_in _ (certs_perm _ _ Hp) Hc).
    - destruct (A2 n Hn) as [c [Hc <-]]. apply (B1 Hinj). apply (Permutation_in _ (Permutation_sym (certs_perm _ _ Hp)) Hc). }
  assert (Hhalf : forall o o', Permutation o o' -> fp_inj (certs o') ->
            forall c r, (exists e, In e (g_edges (state_after empty_graph o)) /\ e_cert e = c /\ e_root e = r) ->
                        exists e', In e' (g_edges (state_after empty_graph o')) /\ e_cert e' = c /\ e_root e' = r).
  { intros o o' Hpo Hio c r [e [He [Ec Er]]].
    assert (Hc : In c (certs o')).
    { apply (Permutation_in _ (certs_perm _ _ Hpo)). rewrite <- Ec. now apply hist_edge_cert. }
    destruct (hist_cert_edge o' Hio c Hc) as [e' [He' Ec']]. exists e'. split; [assumption|]. split; [assumption|].
    pose proof (hist_roots o e He) as R1. pose proof (hist_roots o' e' He') as R2.
    assert (Ef : e_fp e = e_fp e') by (unfold e_fp; congruence).
    rewrite <- Er. apply Bool.eq_true_iff_eq. rewrite R1, R2, Ef. split.
    - apply rooted_perm. now apply Permutation_sym.
    - now apply rooted_perm. }
  split; [exact Hnodes|]. split.
  - intros c r. split; [apply Hhalf; assumption | apply Hhalf; [now apply Permutation_sym | assumption]].
  - intros e e' He He' Ec. split.
    + destruct (hist_child ops e He) as [C1 _]. destruct (hist_child ops' e' He') as [C2 _]. congruence.
    + intros Hu. rewrite (hist_issuer_first ops e He), (hist_issuer_first ops' e' He'). rewrite <- Ec.
      now apply find_set_indep.
Qed.

(* ------------------------------------------------------------------ concrete instances *)
Lemma fixup_example :
  let r := mkCert 0 0 0 0 true true (-1) 0 9 [0%N] in
  let i := mkCert 1 1 0 1 true true (-1) 0 9 [0%N] in
  let g1 := state_after empty_graph [AddCert i] in
  let g2 := state_after empty_graph [AddCert i; AddRoot r] in
  g_missing g1 = [(0, 1)]%N /\ map e_iss (g_edges g1) = [None] /\
  g_missing g2 = [] /\ map e_iss (g_edges g2) = [Some (0, 0); Some (0, 0)]%N /\
  g_parents g2 = [((0, 0), (0, 0), 0); ((1, 1), (0, 0), 1)]%N /\
  map e_root (g_edges g2) = [false; true].
Proof. vm_compute. repeat split. Qed.

Lemma ambiguous_example :
  let a := mkCert 0 0 0 0 true true (-1) 0 9 [0%N] in
  let b := mkCert 1 0 0 1 true true (-1) 0 9 [1%N] in
  let x := mkCert 2 2 0 2 false false 0 0 9 [0; 1]%N in
  map e_iss (filter (fun e => N.eqb (e_fp e) 2) (g_edges (state_after empty_graph [AddCert a; AddCert b; AddCert x])))
    = [Some (0, 0)]%N /\
  map e_iss (filter (fun e => N.eqb (e_fp e) 2) (g_edges (state_after empty_graph [AddCert b; AddCert a; AddCert x])))
    = [Some (0, 1)]%N.
Proof. vm_compute. split; reflexivity. Qed.
