(* C12 — proofs about the Verifier result model (model/C12.v). *)
From Coq Require Import List NArith ZArith Bool Arith Lia Permutation.
From Verif Require Import Harness AbsCertG.
From VerifModel Require Import C10 C11 C12.
From VerifProof Require Import C10Proofs C11Proofs.
Import ListNotations.
Local Open Scope Z_scope.

(* ------------------------------------------------------------------ chain windows *)
Lemma fold_lower_lt rest : forall init t,
  fold_left (fun lo c => if lo <? c_nb c then c_nb c else lo) rest init < t <->
  init < t /\ forall c, In c rest -> c_nb c < t.
Proof.
  induction rest as [|x r IH]; intros init t; simpl.
  - split; [intros H; split; [assumption | intros c []] | tauto].
  - rewrite IH. destruct (init <? c_nb x) eqn:E; [apply Z.ltb_lt in E | apply Z.ltb_ge in E]; split.
    + intros [H1 H2]. split; [lia|]. intros c [<- | Hc]; auto.
    + intros [H1 H2]. split; [apply H2; now left | intros c Hc; apply H2; now right].
    + intros [H1 H2]. split; [assumption|]. intros c [<- | Hc]; [lia | auto].
    + intros [H1 H2]. split; [assumption | intros c Hc; apply H2; now right].
Qed.

Lemma fold_upper_gt rest : forall init t,
  t < fold_left (fun hi c => if c_na c <? hi then c_na c else hi) rest init <->
  t < init /\ forall c, In c rest -> t < c_na c.
Proof.
  induction rest as [|x r IH]; intros init t; simpl.
  - split; [intros H; split; [assumption | intros c []] | tauto].
  - rewrite IH. destruct (c_na x <? init) eqn:E; [apply Z.ltb_lt in E | apply Z.ltb_ge in E]; split.
    + intros [H1 H2]. split; [lia|]. intros c [<- | Hc]; auto.
    + intros [H1 H2]. split; [apply H2; now left | intros c Hc; apply H2; now right].
    + intros [H1 H2]. split; [assumption|]. intros c [<- | Hc]; [lia | auto].
    + intros [H1 H2]. split; [assumption | intros c Hc; apply H2; now right].
Qed.

(* the two tests of FilterByDate on a non-empty chain *)
Definition validb (now : Z) (ch : chain) : bool :=
  match ch with
  | [] => false
  | leaf :: rest => (lower_bound leaf rest <? now) && (now <? upper_bound leaf rest)
  end.
Definition wasb (ch : chain) : bool :=
  match ch with
  | [] => false
  | leaf :: rest => lower_bound leaf rest <? upper_bound leaf rest
  end.
Definition nonempty (ch : chain) : bool := match ch with [] => false | _ => true end.

(* valid at [now] = every certificate of the chain is valid at [now] *)
Lemma validb_spec now ch : validb now ch = true <-> ch <> [] /\ forall c, In c ch -> c_nb c < now < c_na c.
Proof.
  destruct ch as [|leaf rest]; simpl.
  - split; [discriminate | intros [H _]; congruence].
  - rewrite andb_true_iff, !Z.ltb_lt. unfold lower_bound, upper_bound.
    rewrite fold_lower_lt, fold_upper_gt. split.
    + intros [[H1 H2] [H3 H4]]. split; [discriminate|]. intros c [<- | Hc]; [lia|].
      split; [now apply H2 | now apply H4].
    + intros [_ H]. repeat split.
      * apply (H leaf). now left.
      * intros c Hc. apply (H c). now right.
      * apply (H leaf). now left.
      * intros c Hc. apply (H c). now right.
Qed.

(* was valid at some instant = every NotBefore is before every NotAfter *)
Lemma wasb_spec ch : wasb ch = true <-> ch <> [] /\ forall a b, In a ch -> In b ch -> c_nb a < c_na b.
Proof.
  destruct ch as [|leaf rest]; simpl.
  - split; [discriminate | intros [H _]; congruence].
  - rewrite Z.ltb_lt. unfold lower_bound at 1. rewrite fold_lower_lt. split.
    + intros [H1 H2]. split; [discriminate|]. intros a b Ha Hb.
      assert (Ha' : c_nb a < upper_bound leaf rest) by (destruct Ha as [<- | Ha]; auto).
      unfold upper_bound in Ha'. apply fold_upper_gt in Ha' as [H3 H4].
      destruct Hb as [<- | Hb]; auto.
    + intros [_ H]. split.
      * unfold upper_bound. apply fold_upper_gt. split; [apply H; now left | intros c Hc; apply H; [now left | now right]].
      * intros c Hc. unfold upper_bound. apply fold_upper_gt.
        split; [apply H; [now right | now left] | intros d Hd; apply H; now right].
Qed.

Lemma valid_was now ch : validb now ch = true -> wasb ch = true.
Proof.
  destruct ch as [|leaf rest]; simpl; [discriminate|].
  rewrite andb_true_iff, !Z.ltb_lt. lia.
Qed.

(* ------------------------------------------------------------------ FilterByDate *)
Definition cls_cur (now : Z) (ch : chain) : bool := validb now ch.
Definition cls_exp (now : Z) (ch : chain) : bool := nonempty ch && negb (validb now ch) && wasb ch.
Definition cls_nev (now : Z) (ch : chain) : bool := nonempty ch && negb (validb now ch) && negb (wasb ch).

(* FilterByDate never reaches its panic and is three order-preserving filters *)
Lemma filter_by_date_spec chains now :
  filter_by_date chains now =
  Some (filter (cls_cur now) chains, filter (cls_exp now) chains, filter (cls_nev now) chains).
Proof.
  induction chains as [|ch r IH]; simpl; [reflexivity|].
  rewrite IH. destruct ch as [|leaf rest]; [reflexivity|].
  unfold cls_cur, cls_exp, cls_nev. simpl nonempty. cbn [andb].
  pose proof (valid_was now (leaf :: rest)) as Hvw.
  change ((lower_bound leaf rest <? now) && (now <? upper_bound leaf rest)) with (validb now (leaf :: rest)).
  change (lower_bound leaf rest <? upper_bound leaf rest) with (wasb (leaf :: rest)).
  destruct (validb now (leaf :: rest)) eqn:Ev.
  - rewrite (Hvw eq_refl). reflexivity.
  - destruct (wasb (leaf :: rest)); reflexivity.
Qed.

Lemma partition3 {A} (p1 p2 p3 : A -> bool) (l : list A) :
  (forall x, In x l -> (p1 x = true /\ p2 x = false /\ p3 x = false) \/
                       (p1 x = false /\ p2 x = true /\ p3 x = false) \/
                       (p1 x = false /\ p2 x = false /\ p3 x = true)) ->
  Permutation (filter p1 l ++ filter p2 l ++ filter p3 l) l.
Proof.
  induction l as [|x l IH]; intros H; simpl; [constructor|].
  assert (IH' : Permutation (filter p1 l ++ filter p2 l ++ filter p3 l) l) by (apply IH; intros y Hy; apply H; now right).
  destruct (H x (or_introl eq_refl)) as [[-> [-> ->]] | [[-> [-> ->]] | [-> [-> ->]]]].
  - simpl. now constructor.
  - simpl. apply Permutation_sym. apply Permutation_cons_app. now apply Permutation_sym.
  - rewrite app_assoc. apply Permutation_sym. apply Permutation_cons_app. rewrite <- app_assoc. now apply Permutation_sym.
Qed.

Lemma classes_exclusive now ch : ch <> [] ->
  (cls_cur now ch = true /\ cls_exp now ch = false /\ cls_nev now ch = false) \/
  (cls_cur now ch = false /\ cls_exp now ch = true /\ cls_nev now ch = false) \/
  (cls_cur now ch = false /\ cls_exp now ch = false /\ cls_nev now ch = true).
Proof.
  intros Hne. unfold cls_cur, cls_exp, cls_nev. destruct ch as [|leaf rest]; [congruence|]. simpl nonempty.
  destruct (validb now (leaf :: rest)), (wasb (leaf :: rest)); simpl; tauto.
Qed.

Lemma filter_perm {A} (p : A -> bool) l l' : Permutation l l' -> Permutation (filter p l) (filter p l').
Proof.
  intros H. induction H; simpl.
  - constructor.
  - destruct (p x); [now constructor | assumption].
  - destruct (p x), (p y); first [apply perm_swap | apply Permutation_refl].
  - eapply Permutation_trans; eauto.
Qed.

(* ------------------------------------------------------------------ parentsFromChains *)
Definition second (ch : chain) : option cert := match ch with _ :: p :: _ => Some p | _ => None end.

Lemma parents_sound chains p : In p (parents_from_chains chains) -> exists ch, In ch chains /\ second ch = Some p.
Proof.
  induction chains as [|ch r IH]; simpl; [intros []|].
  destruct ch as [|a [|q rest]]; try (intros H; destruct (IH H) as [ch' [Hc Hs]]; exists ch'; split; [now right | assumption]).
  destruct (existsb (fun q0 => N.eqb (c_fp q0) (c_fp q)) (parents_from_chains r)).
  - intros H; destruct (IH H) as [ch' [Hc Hs]]; exists ch'; split; [now right | assumption].
  - intros [-> | H].
    + exists (a :: p :: rest). split; [now left | reflexivity].
    + destruct (IH H) as [ch' [Hc Hs]]; exists ch'; split; [now right | assumption].
Qed.

Lemma parents_complete chains ch p : In ch chains -> second ch = Some p ->
  exists q, In q (parents_from_chains chains) /\ c_fp q = c_fp p.
Proof.
  induction chains as [|x r IH]; simpl; [intros []|]. intros [-> | Hin] Hs.
  - destruct ch as [|a [|q rest]]; try discriminate. simpl in Hs. inversion Hs; subst q.
    destruct (existsb (fun q0 => N.eqb (c_fp q0) (c_fp p)) (parents_from_chains r)) eqn:E.
    + apply existsb_exists in E as [q [Hq Ef]]. apply N.eqb_eq in Ef. now exists q.
    + exists p. split; [now left | reflexivity].
  - destruct (IH Hin Hs) as [q [Hq Ef]].
    destruct x as [|a [|q' rest]]; try (exists q; now split).
    destruct (existsb _ (parents_from_chains r)); exists q; split; auto. now right.
Qed.

Lemma parents_nodup chains : NoDup (map c_fp (parents_from_chains chains)).
Proof.
  induction chains as [|x r IH]; simpl; [constructor|].
  destruct x as [|a [|q rest]]; try assumption.
  destruct (existsb (fun q0 => N.eqb (c_fp q0) (c_fp q)) (parents_from_chains r)) eqn:E; [assumption|].
  simpl. constructor; [|assumption]. intros Hin. apply in_map_iff in Hin as [q0 [Ef Hq0]].
  assert (X : existsb (fun q1 => N.eqb (c_fp q1) (c_fp q)) (parents_from_chains r) = true).
  { apply existsb_exists. exists q0. split; [assumption | now apply N.eqb_eq]. }
  congruence.
Qed.

(* ------------------------------------------------------------------ the result *)
Definition relevant (r : vres) : list chain := if r_expired r then r_vae r else r_current r.

Lemma verify_unfold g c t name onecrl crlset :
  let all := walk g c in
  let cur := filter (cls_cur t) all in
  let ex := filter (cls_exp t) all in
  let nev := filter (cls_nev t) all in
  let vae := filter (cls_cur (c_na c - 1)) (cur ++ ex ++ nev) in
  let expired := negb (time_in_validity c t) in
  let parents := if expired then parents_from_chains vae else parents_from_chains cur in
  verify g c t name onecrl crlset =
  Some (mkRes expired cur ex nev vae parents
          (if match onecrl with Some true => true | _ => false end then true
           else match crlset with Some ks => existsb (fun p => memN (c_key p) ks) parents | None => false end)
          (if is_root g c then 3%N
           else if c_ca c && negb (Nat.eqb (length parents) 0) then 2%N
           else if negb (Nat.eqb (length parents) 0) then 1%N else 0%N)
          (match name with Some ok => negb ok | None => false end)).
Proof.
  intros. unfold verify. rewrite filter_by_date_spec. fold all cur ex nev.
  rewrite filter_by_date_spec. reflexivity.
Qed.

Lemma verify_total g c t name onecrl crlset : exists r, verify g c t name onecrl crlset = Some r.
Proof. eexists. apply verify_unfold. Qed.

Section Result.
  Variable g : graph.
  Hypothesis G : GInv g.
  Hypothesis R : RInv g.
  Variables (c : cert) (t : Z) (name : option bool) (onecrl : option bool) (crlset : option (list N)) (r : vres).
  Hypothesis Hr : verify g c t name onecrl crlset = Some r.

  Lemma walk_nonempty ch : In ch (walk g c) -> ch <> [].
  Proof. intros H. apply (walk_length_bound g G R c) in H. destruct ch; simpl in H; [lia | discriminate]. Qed.

  Lemma res_fields :
    r_current r = filter (cls_cur t) (walk g c) /\
    r_expiredc r = filter (cls_exp t) (walk g c) /\
    r_never r = filter (cls_nev t) (walk g c) /\
    r_vae r = filter (cls_cur (c_na c - 1)) (r_current r ++ r_expiredc r ++ r_never r) /\
    r_expired r = negb (time_in_validity c t) /\
    r_parents r = parents_from_chains (relevant r).
  Proof.
    rewrite verify_unfold in Hr. inversion Hr; subst r; clear Hr. unfold relevant. simpl.
    repeat split. destruct (negb (time_in_validity c t)); reflexivity.
  Qed.

  (* current, expired and never-valid chains partition the walked chains *)
  Lemma result_partitions_walk :
    Permutation (r_current r ++ r_expiredc r ++ r_never r) (walk g c).
  Proof.
    destruct res_fields as [-> [-> [-> _]]]. apply partition3.
    intros ch Hch. apply classes_exclusive. now apply walk_nonempty.
  Qed.

  Lemma current_iff ch : In ch (r_current r) <-> In ch (walk g c) /\ forall x, In x ch -> c_nb x < t < c_na x.
  Proof.
    destruct res_fields as [-> _]. rewrite filter_In. unfold cls_cur. rewrite validb_spec. split.
    - intros [H [_ H2]]. now split.
    - intros [H H2]. split; [assumption|]. split; [now apply walk_nonempty | assumption].
  Qed.

  Lemma expired_iff ch : In ch (r_expiredc r) <->
    In ch (walk g c) /\ ~ (forall x, In x ch -> c_nb x < t < c_na x) /\
    (forall a b, In a ch -> In b ch -> c_nb a < c_na b).
  Proof.
    destruct res_fields as [_ [-> _]]. rewrite filter_In. unfold cls_exp.
    rewrite !andb_true_iff, negb_true_iff. split.
    - intros [H [[Hn Hv] Hw]]. split; [assumption|]. split.
      + intros Hall. assert (X : validb t ch = true) by (apply validb_spec; split; [now apply walk_nonempty | assumption]). congruence.
      + apply wasb_spec in Hw. apply Hw.
    - intros [H [Hnv Hw]]. pose proof (walk_nonempty ch H) as Hne. split; [assumption|]. split; [split|].
      + destruct ch; [congruence | reflexivity].
      + destruct (validb t ch) eqn:E; [|reflexivity]. apply validb_spec in E as [_ E]. contradiction.
      + apply wasb_spec. now split.
  Qed.

  Lemma never_iff ch : In ch (r_never r) <->
    In ch (walk g c) /\ ~ (forall a b, In a ch -> In b ch -> c_nb a < c_na b).
  Proof.
    destruct res_fields as [_ [_ [-> _]]]. rewrite filter_In. unfold cls_nev.
    rewrite !andb_true_iff, !negb_true_iff. split.
    - intros [H [[Hn Hv] Hw]]. split; [assumption|]. intros Hall.
      assert (X : wasb ch = true) by (apply wasb_spec; split; [now apply walk_nonempty | assumption]). congruence.
    - intros [H Hnw]. pose proof (walk_nonempty ch H) as Hne. split; [assumption|]. split; [split|].
      + destruct ch; [congruence | reflexivity].
      + destruct (validb t ch) eqn:E; [|reflexivity]. apply valid_was in E. apply wasb_spec in E as [_ E]. contradiction.
      + destruct (wasb ch) eqn:E; [|reflexivity]. apply wasb_spec in E as [_ E]. contradiction.
  Qed.

  (* valid-at-expiration chains = the walked chains valid one second before the certificate's NotAfter *)
  Lemma valid_at_expiry_iff ch : In ch (r_vae r) <->
    In ch (walk g c) /\ forall x, In x ch -> c_nb x < c_na c - 1 < c_na x.
  Proof.
    destruct res_fields as [_ [_ [_ [-> _]]]]. rewrite filter_In. unfold cls_cur. rewrite validb_spec.
    pose proof result_partitions_walk as Hp. split.
    - intros [H [_ H2]]. split; [|assumption]. now apply (Permutation_in _ Hp).
    - intros [H H2]. split; [now apply (Permutation_in _ (Permutation_sym Hp))|]. split; [now apply walk_nonempty | assumption].
  Qed.

  Lemma valid_at_expiry_is_current_at_expiry r' :
    verify g c (c_na c - 1) name onecrl crlset = Some r' -> Permutation (r_vae r) (r_current r').
  Proof.
    intros Hr'. rewrite verify_unfold in Hr'. inversion Hr'; subst r'; clear Hr'. simpl.
    destruct res_fields as [_ [_ [_ [-> _]]]]. apply filter_perm. apply result_partitions_walk.
  Qed.

  Lemma expired_flag : r_expired r = true <-> ~ (c_nb c < t < c_na c).
  Proof.
    destruct res_fields as [_ [_ [_ [_ [-> _]]]]]. unfold time_in_validity.
    rewrite negb_true_iff, andb_false_iff, !Z.ltb_ge. lia.
  Qed.

  (* parents = the distinct second certificates of the relevant chains *)
  Lemma parents_are_second_certs :
    NoDup (map c_fp (r_parents r)) /\
    (forall p, In p (r_parents r) -> exists ch, In ch (relevant r) /\ second ch = Some p) /\
    (forall ch p, In ch (relevant r) -> second ch = Some p -> exists q, In q (r_parents r) /\ c_fp q = c_fp p).
  Proof.
    destruct res_fields as [_ [_ [_ [_ [_ ->]]]]]. split; [apply parents_nodup|]. split.
    - apply parents_sound.
    - apply parents_complete.
  Qed.

  Lemma relevant_in_walk ch : In ch (relevant r) -> In ch (walk g c).
  Proof.
    unfold relevant. destruct (r_expired r); intros H; [apply valid_at_expiry_iff in H | apply current_iff in H]; tauto.
  Qed.

  (* every parent is a certificate for the issuer node of the start edge, so all parents share (subject, key) *)
  Lemma parents_same_node p : In p (r_parents r) -> e_iss (start_edge g c) = Some (node_of p).
  Proof.
    intros Hp. destruct parents_are_second_certs as [_ [Hs _]]. destruct (Hs p Hp) as [ch [Hch Hsec]].
    apply relevant_in_walk in Hch. apply (walk_sound g G R c) in Hch as [path [[suf [-> Hn]] ->]].
    destruct suf as [|e suf]; [discriminate|]. simpl in Hsec. inversion Hsec; subst p.
    simpl in Hn. destruct Hn as [[_ [He [Hi _]]] _]. rewrite Hi. f_equal. now apply (edge_wf g G).
  Qed.

  Lemma type_rule :
    r_type r = (if is_root g c then 3
                else if c_ca c && negb (Nat.eqb (length (r_parents r)) 0) then 2
                else if negb (Nat.eqb (length (r_parents r)) 0) then 1 else 0)%N.
  Proof. rewrite verify_unfold in Hr. inversion Hr; subst r. reflexivity. Qed.

  Lemma name_error_rule : r_name_error r = true <-> name = Some false.
  Proof.
    rewrite verify_unfold in Hr. inversion Hr; subst r. simpl.
    destruct name as [[|]|]; simpl; split; intros; congruence.
  Qed.

  Lemma in_revocation_set_iff :
    r_inrev r = true <->
    onecrl = Some true \/ exists ks p, crlset = Some ks /\ In p (r_parents r) /\ In (c_key p) ks.
  Proof.
    rewrite verify_unfold in Hr. inversion Hr; subst r; clear Hr. simpl.
    destruct onecrl as [[|]|]; simpl.
    - split; [now left | reflexivity].
    - destruct crlset as [ks|].
      + rewrite existsb_exists. split.
        * intros [p [Hp Hk]]. right. exists ks, p. apply memN_In in Hk. tauto.
        * intros [H | [ks' [p [E [Hp Hk]]]]]; [discriminate|]. inversion E; subst ks'.
          exists p. split; [assumption | now apply memN_In].
      + split; [discriminate|]. intros [H | [ks' [p [E _]]]]; discriminate.
    - destruct crlset as [ks|].
      + rewrite existsb_exists. split.
        * intros [p [Hp Hk]]. right. exists ks, p. apply memN_In in Hk. tauto.
        * intros [H | [ks' [p [E [Hp Hk]]]]]; [discriminate|]. inversion E; subst ks'.
          exists p. split; [assumption | now apply memN_In].
      + split; [discriminate|]. intros [H | [ks' [p [E _]]]]; discriminate.
  Qed.

  (* an expired certificate has no current chain (when the chain's first certificate is the certificate verified) *)
  Lemma expired_no_current : e_cert (start_edge g c) = c -> r_expired r = true -> r_current r = [].
  Proof.
    intros Hstart He. apply expired_flag in He.
    destruct (r_current r) as [|ch l] eqn:E; [reflexivity|]. exfalso. apply He.
    assert (Hin : In ch (r_current r)) by (rewrite E; now left).
    apply current_iff in Hin as [Hw Hall]. apply Hall.
    apply (walk_sound g G R c) in Hw as [path [[suf [-> _]] ->]]. simpl. left. exact Hstart.
  Qed.
End Result.
