(* C33ProofsX.v — round-trip theorems for the pkix / x509 / CT types and the
   totality theorem (no Unmarshal of the repaired model can panic). *)
From Coq Require Import List NArith ZArith Bool String Ascii Lia.
From VerifModel Require Import C33Json C33.
From VerifGen Require Import C33Tables_gen.
From VerifProof Require Import C33JsonProofs C33Proofs.
Import ListNotations.
Local Open Scope string_scope.

Lemma Forall_true {A} (l : list A) : Forall (fun _ => True) l.
Proof. induction l; constructor; auto. Qed.
#[export] Hint Resolve Forall_true : core.

(* ---------- dot notation ---------- *)
Lemma dec_of_N_nonempty n : is_empty_s (dec_of_N n) = false.
Proof. destruct (dec_of_N_head n) as (c & r & -> & _). reflexivity. Qed.
Lemma dec_of_Z_nonempty z : is_empty_s (dec_of_Z z) = false.
Proof. destruct z; unfold dec_of_Z; try apply dec_of_N_nonempty. reflexivity. Qed.
Lemma is_empty_app a b : is_empty_s a = false -> is_empty_s (a ++ b) = false.
Proof. destruct a; [discriminate|reflexivity]. Qed.
Lemma join_nonempty sep l : l <> [] -> Forall (fun x => is_empty_s x = false) l -> is_empty_s (join_with sep l) = false.
Proof.
  destruct l as [|x [|y r]]; [congruence| |]; intros _ H; inversion H; subst; simpl; auto.
  now apply is_empty_app.
Qed.
Lemma oid_str_nonempty o : o <> [] -> is_empty_s (oid_str o) = false.
Proof.
  intro H. unfold oid_str. apply join_nonempty; [destruct o; [congruence|discriminate]|].
  apply Forall_forall. intros x Hx. apply in_map_iff in Hx as (z & <- & _). apply dec_of_Z_nonempty.
Qed.

Definition arcs64 (o : oid_t) : Prop := arcs_in 64 o.
Definition arcs32 (o : oid_t) : Prop := arcs_in 32 o.
Definition nonneg (o : oid_t) : Prop := Forall (fun z => (0 <= z)%Z) o.

Lemma auxoid_rt : codec_rt c_auxoid (fun o => o <> [] /\ arcs64 o /\ nonneg o) (fun o => o).
Proof.
  intros o (Hne & Ha & Hn). split; [discriminate|]. simpl.
  rewrite (oid_roundtrip 64 o Hne Ha).
  replace (forallb (fun z => (0 <=? z)%Z) o) with true; [reflexivity|].
  symmetry. apply forallb_forall. intros z Hz. unfold nonneg in Hn. rewrite Forall_forall in Hn. apply Z.leb_le. auto.
Qed.

Lemma atv_rt : codec_rt c_atv (fun a => arcs64 (fst a)) (fun a => (fst a, or_empty (snd a))).
Proof.
  intros [o v] Ha. split; [discriminate|]. cbn [fst snd] in *. unfold c_atv. cbn [enc dec fst snd].
  erewrite (obj_rt_ex atv_fields); cycle 1.
  { unfold atv_fields. rt_obj. }
  cbn [rbind fst snd].
  destruct o as [|z r].
  - reflexivity.
  - rewrite oid_str_nonempty by discriminate. unfold parse_oid_res.
    rewrite (oid_roundtrip 64 (z :: r)); [reflexivity|discriminate|exact Ha].
Qed.

Lemma othername_rt : codec_rt c_othername (fun a => fst a <> [] /\ arcs64 (fst a)) (fun a => a).
Proof.
  intros [o v] [Hne Ha]. split; [discriminate|]. cbn [fst snd] in *. unfold c_othername. cbn [enc dec fst snd].
  erewrite (obj_rt_ex othername_fields); cycle 1.
  { unfold othername_fields. rt_obj. }
  cbn [rbind fst snd]. rewrite oid_str_nonempty by exact Hne. unfold parse_oid_res.
  rewrite (oid_roundtrip 64 o Hne Ha). reflexivity.
Qed.
#[export] Hint Resolve othername_rt : c33rt.

Lemma edi_rt : codec_rt c_edi (fun _ => True) (fun e => e).
Proof.
  intros [a [p []]] _. split; [discriminate|]. unfold c_edi.
  erewrite (obj_rt_ex edi_fields); [reflexivity|]. unfold edi_fields. rt_obj.
Qed.
#[export] Hint Resolve edi_rt : c33rt.

Lemma ext_rt : codec_rt c_ext (fun e => fst e <> [] /\ arcs64 (fst e)) (fun e => e).
Proof.
  intros [o [c v]] [Hne Ha]. split; [discriminate|]. cbn [fst snd] in *. unfold c_ext. cbn [enc dec].
  erewrite (obj_rt_ex ext_fields); cycle 1.
  { unfold ext_fields. rt_obj. }
  cbn [rbind fst snd]. unfold parse_oid_res. rewrite (oid_roundtrip 64 o Hne Ha). reflexivity.
Qed.

(* ---------- names ---------- *)
Definition name_norm (attrs : list attr) : name_dec := name_of_aux (name_aux attrs).
Lemma name_rt : codec_rt c_name (fun _ => True) name_norm.
Proof.
  intros attrs _. split; [discriminate|]. unfold c_name, name_enc, name_decode. cbn [enc dec].
  erewrite (obj_rt_ex name_fields); cycle 1.
  { unfold name_fields, ls. eexists. eexists. split; [rt_fields|]. split; [|reflexivity].
    cbn [fst snd name_aux]. repeat split; auto. }
  cbn [rmap rbind fst snd name_aux]. rewrite !map_id. reflexivity.
Qed.
#[export] Hint Resolve name_rt : c33rt.

(* what the decoded name contains: every list member is the list of the values
   of that attribute type, in the order of the RDN sequence *)
Lemma name_members attrs :
  let n := name_norm attrs in
  n_country n = bucket o_country attrs /\ n_org n = bucket o_org attrs /\ n_ou n = bucket o_ou attrs
  /\ n_locality n = bucket o_locality attrs /\ n_province n = bucket o_province attrs
  /\ n_street n = bucket o_street attrs /\ n_postal n = bucket o_postal attrs /\ n_dc n = bucket o_dc attrs
  /\ n_email n = bucket o_email attrs /\ n_given n = bucket o_given attrs /\ n_surname n = bucket o_surname attrs
  /\ n_orgids n = bucket o_orgid attrs /\ n_jc n = bucket o_jc attrs /\ n_jl n = bucket o_jl attrs
  /\ n_jp n = bucket o_jp attrs
  /\ n_cn n = hd_s (bucket o_cn attrs) /\ n_serial n = hd_s (bucket o_serial attrs).
Proof. cbv zeta. unfold name_norm, name_of_aux, name_aux. cbn. repeat split. Qed.

(* ---------- general names ---------- *)
Lemma all_chars_app f a b : all_chars f a = true -> all_chars f b = true -> all_chars f (a ++ b) = true.
Proof. induction a as [|c a IH]; simpl; auto. intros H Hb. apply andb_prop in H as [H1 H2]. rewrite H1. simpl. auto. Qed.
Lemma all_chars_join f sep l :
  all_chars f sep = true -> Forall (fun x => all_chars f x = true) l -> all_chars f (join_with sep l) = true.
Proof.
  intros Hs. induction l as [|x [|y r] IH]; intro H; [reflexivity| |].
  - inversion H; subst. assumption.
  - inversion H as [|? ? Hx Hr]; subst.
    change (join_with sep (x :: y :: r)) with (x ++ sep ++ join_with sep (y :: r)).
    apply all_chars_app; [exact Hx|]. apply all_chars_app; [exact Hs|]. apply IH. exact Hr.
Qed.
Lemma digits_no_slash s : all_chars is_digit s = true -> all_chars (fun a => negb (Ascii.eqb a "/")) s = true.
Proof. apply all_chars_impl. intros c H. destruct (digit_not_sign c H) as (_ & _ & _ & ->). reflexivity. Qed.
Lemma ip4_str_no_slash ip : all_chars (fun a => negb (Ascii.eqb a "/")) (ip4_str ip) = true.
Proof.
  unfold ip4_str. apply all_chars_join; [reflexivity|].
  apply Forall_forall. intros x Hx. apply in_map_iff in Hx as (z & <- & _). apply digits_no_slash, dec_of_N_digits.
Qed.
Lemma ip4_str_nonempty ip : String.length ip = 4%nat -> is_empty_s (ip4_str ip) = false.
Proof.
  destruct ip as [|a [|b [|c [|d [|? ?]]]]]; try discriminate. intros _.
  unfold ip4_str. apply join_nonempty; [discriminate|].
  apply Forall_forall. intros x Hx. apply in_map_iff in Hx as (z & <- & _). apply dec_of_N_nonempty.
Qed.

Definition ip4 (s : string) : Prop := String.length s = 4%nat.
Lemma ip_rt : codec_rt c_ip ip4 (fun s => s).
Proof.
  intros ip H. split; [discriminate|]. simpl. rewrite (ip4_str_nonempty ip H). now rewrite (ip4_roundtrip ip H).
Qed.
#[export] Hint Resolve ip_rt : c33rt.

Definition oid32 (o : oid_t) : Prop := o <> [] /\ arcs32 o.
Lemma mapR_oids l : Forall oid32 l -> mapR (parse_oid_res 32) (map oid_str l) = Ok l.
Proof.
  induction 1 as [|o r [Hne Ha] _ IH]; [reflexivity|].
  cbn [map mapR]. unfold parse_oid_res at 1. rewrite (oid_roundtrip 32 o Hne Ha). cbn [of_opt rbind].
  rewrite IH. reflexivity.
Qed.

Definition other_ok (a : oid_t * string) : Prop := fst a <> [] /\ arcs64 (fst a).
Definition gn_ok (g : gn_t) : Prop :=
  let '(dn, (dns, (edi, (em, (ip, (ot, (reg, (uri, _)))))))) := g in
  Forall ip4 ip /\ Forall other_ok ot /\ Forall oid32 reg.
Definition gn_norm (g : gn_t) : gn_dec_t :=
  let '(dn, (dns, (edi, (em, (ip, (ot, (reg, (uri, u)))))))) := g in
  (map name_norm dn, (dns, (edi, (em, (ip, (ot, (reg, (uri, u)))))))).
Lemma gn_rt : codec_rt c_gn gn_ok gn_norm.
Proof.
  intros [dn [dns [edi [em [ip [ot [reg [uri []]]]]]]]] (Hip & Hot & Hreg). split; [discriminate|].
  unfold c_gn, gn_enc, gn_decode. cbn [enc dec].
  erewrite (obj_rt_ex gn_fields); cycle 1.
  { unfold gn_fields, ls. eexists. eexists. split; [rt_fields|]. split; [|reflexivity].
    cbn [fst snd]. repeat split; auto. }
  cbn [rbind fst snd]. rewrite !map_id. rewrite (mapR_oids reg Hreg). reflexivity.
Qed.

(* ---------- IPv4 subtrees ---------- *)
Lemma parse_N_dec_Z n : (0 <= n)%Z -> parse_N (dec_of_Z n) = Some (Z.to_N n).
Proof. intro H. destruct n; try lia; unfold dec_of_Z; apply parse_dec_N. Qed.
Lemma dec_of_Z_no_slash n : (0 <= n)%Z -> all_chars (fun a => negb (Ascii.eqb a "/")) (dec_of_Z n) = true.
Proof. intro H. destruct n; try lia; unfold dec_of_Z; apply digits_no_slash, dec_of_N_digits. Qed.

Definition subip_ok (g : subtree_ip_t) : Prop := ip4 (fst g) /\ (0 <= snd g <= 32)%Z.
Lemma subip_rt : codec_rt c_subip subip_ok (fun g => g).
Proof.
  intros [ip n] [Hip Hn]. cbn [fst snd] in *. split; [discriminate|].
  unfold c_subip, subip_enc, subip_dec. cbn [enc dec].
  erewrite (obj_rt_ex subip_fields); cycle 1.
  { unfold subip_fields. rt_obj. }
  cbn [rbind fst snd].
  change (ip4_str ip ++ "/" ++ dec_of_Z n) with (ip4_str ip ++ String "/"%char (dec_of_Z n)).
  rewrite split_app by apply ip4_str_no_slash.
  rewrite split_no_sep by (apply dec_of_Z_no_slash; lia).
  rewrite (ip4_roundtrip ip Hip). rewrite parse_N_dec_Z by lia.
  replace (Z.to_N n <=? 32)%N with true by (symmetry; apply N.leb_le; lia).
  rewrite Z2N.id by lia. reflexivity.
Qed.
#[export] Hint Resolve subip_rt : c33rt.

(* ---------- name constraints ---------- *)
Definition half_ok {N} (h : nc_half N) : Prop :=
  let '(d, (e, (u, (i, (n, (x, r)))))) := h in Forall subip_ok i /\ Forall oid32 r.
Definition half_norm (h : nc_half (list attr)) : nc_half name_dec :=
  let '(d, (e, (u, (i, (n, (x, r)))))) := h in (d, (e, (u, (i, (map name_norm n, (x, r)))))).
Definition nc_ok (c : nc_t) : Prop := half_ok (fst (snd c)) /\ half_ok (snd (snd c)).
Definition nc_norm (c : nc_t) : nc_dec_t := (fst c, (half_norm (fst (snd c)), half_norm (snd (snd c)))).
Lemma nc_rt : codec_rt c_nc nc_ok nc_norm.
Proof.
  intros [crit [[pd [pe [pu [pi [pn [px pr]]]]]] [ed [ee [eu [ei [en [ex er]]]]]]]] [[Hpi Hpr] [Hei Her]].
  split; [discriminate|]. unfold c_nc, nc_enc, nc_decode. cbn [enc dec].
  erewrite (obj_rt_ex nc_fields); cycle 1.
  { unfold nc_fields, half_fields, ls. eexists. eexists. split; [rt_fields|]. split; [|reflexivity].
    cbn [fst snd]. repeat split; auto. }
  cbn [rbind fst snd]. rewrite !map_id. rewrite (mapR_oids pr Hpr). cbn [rbind].
  rewrite (mapR_oids er Her). reflexivity.
Qed.

(* ---------- fingerprints and CT ---------- *)
Lemma fingerprint_rt : codec_rt c_fingerprint (fun _ => True) (fun f => f).
Proof. intros f _. split; [discriminate|]. simpl. now rewrite hex_roundtrip. Qed.

Lemma take_s_all s : take_s (String.length s) s = Some s.
Proof. induction s as [|c r IH]; simpl; [reflexivity|]. now rewrite IH. Qed.

Definition ds_ok (d : ds_t) : Prop :=
  (0 <= fst d < 256)%Z /\ (0 <= fst (snd d) < 256)%Z /\ (slen (snd (snd d)) <= 65535)%N.
Lemma ds_rt d : ds_ok d -> exists j, ds_marshal d = Ok j /\ ds_unmarshal j = Ok d.
Proof.
  destruct d as [h [s sg]]. intros (Hh & Hs & Hl). cbn [fst snd] in *.
  unfold ds_marshal. cbn [snd].
  replace (65535 <? slen sg)%N with false by (symmetry; apply N.ltb_ge; exact Hl).
  eexists. split; [reflexivity|].
  unfold ds_unmarshal. rewrite b64_roundtrip. unfold ds_bytes.
  change (bs [Z.to_N h; Z.to_N s; (slen sg / 256)%N; (slen sg mod 256)%N] ++ sg)
    with (String (ascii_of_N (Z.to_N h)) (String (ascii_of_N (Z.to_N s))
          (String (ascii_of_N (slen sg / 256)) (String (ascii_of_N (slen sg mod 256)) sg)))).
  cbn [ds_parse].
  rewrite !N_ascii_embedding; try lia.
  - replace (slen sg / 256 * 256 + slen sg mod 256)%N with (slen sg).
    + unfold slen. rewrite Nat2N.id. rewrite take_s_all. rewrite !Z2N.id by lia. reflexivity.
    + rewrite N.mul_comm. apply N.div_mod. discriminate.
  - apply N.mod_lt. discriminate.
  - apply N.div_lt_upper_bound; [discriminate|]. lia.
Qed.
Lemma ds_too_long d : (65535 < slen (snd (snd d)))%N -> ds_marshal d = Err.
Proof. intro H. unfold ds_marshal. now replace (65535 <? slen (snd (snd d)))%N with true by (symmetry; apply N.ltb_lt; exact H). Qed.

Lemma sha256_rt h : String.length h = 32%nat -> sha256_unmarshal (sha256_marshal h) = Ok h.
Proof. intro H. unfold sha256_unmarshal, sha256_marshal. rewrite b64_roundtrip, H. reflexivity. Qed.

(* ================= totality: no Unmarshal of the model can panic ================= *)
Ltac tot_obj := apply obj_total; tot_fields.

Lemma auxoid_total : codec_total c_auxoid.
Proof.
  intros []; simpl; try discriminate. destruct (parse_oid 64 s); [|discriminate].
  destruct (forallb _ l); discriminate.
Qed.
#[export] Hint Resolve auxoid_total : c33rt.
Lemma cparam_total : codec_total c_cparam.
Proof.
  intro j. unfold c_cparam. cbn [dec]. apply rbind_total.
  - apply (obj_total cparam_fields). unfold cparam_fields, k_i64. tot_fields.
  - intros [? ?]. discriminate.
Qed.
#[export] Hint Resolve cparam_total : c33rt.
Lemma ecpoint_total : codec_total c_ecpoint.
Proof.
  intro j. unfold c_ecpoint, ecpoint_dec. cbn [dec]. apply rbind_total.
  - apply (obj_total ecpoint_fields). unfold ecpoint_fields. tot_fields.
  - intros [? [? ?]]. discriminate.
Qed.
#[export] Hint Resolve ecpoint_total : c33rt.
Lemma ecdhpriv_total : codec_total c_ecdhpriv.
Proof. unfold c_ecdhpriv, ecdhpriv_fields, k_i64. tot_obj. Qed.
#[export] Hint Resolve ecdhpriv_total : c33rt.
Lemma ecid_total : codec_total c_ecid.
Proof.
  intro j. unfold c_ecid. cbn [dec]. apply rbind_total.
  - apply (obj_total ecid_dec_fields). unfold ecid_dec_fields, k_u16. tot_fields.
  - intros [? ?]. discriminate.
Qed.
#[export] Hint Resolve ecid_total : c33rt.
Lemma name_total : codec_total c_name.
Proof.
  intro j. unfold c_name, name_decode. cbn [dec]. apply rmap_total.
  apply (obj_total name_fields). unfold name_fields, ls. tot_fields.
Qed.
#[export] Hint Resolve name_total : c33rt.
Lemma edi_total : codec_total c_edi.
Proof. unfold c_edi, edi_fields. tot_obj. Qed.
#[export] Hint Resolve edi_total : c33rt.
Lemma ip_total : codec_total c_ip.
Proof. intros []; simpl; try discriminate. destruct (is_empty_s s); [discriminate|apply of_opt_total]. Qed.
#[export] Hint Resolve ip_total : c33rt.
Lemma parse_oid_res_total bits s : parse_oid_res bits s <> Panic.
Proof. apply of_opt_total. Qed.
Lemma othername_total : codec_total c_othername.
Proof.
  intro j. unfold c_othername. cbn [dec]. apply rbind_total.
  - apply (obj_total othername_fields). unfold othername_fields. tot_fields.
  - intros [id [v ?]]. destruct (is_empty_s id); [discriminate|].
    apply rbind_total; [apply parse_oid_res_total|discriminate].
Qed.
#[export] Hint Resolve othername_total : c33rt.
Lemma subip_total : codec_total c_subip.
Proof.
  intro j. unfold c_subip, subip_dec. cbn [dec]. apply rbind_total.
  - apply (obj_total subip_fields). unfold subip_fields. tot_fields.
  - intros [cidr ?]. destruct (split_on "/" cidr) as [|a [|m [|? ?]]]; try discriminate.
    destruct (parse_ip4 a), (parse_N m); try discriminate. destruct (n <=? 32)%N; discriminate.
Qed.
#[export] Hint Resolve subip_total : c33rt.
Lemma mapR_total {A B} (f : A -> res B) l : (forall a, f a <> Panic) -> mapR f l <> Panic.
Proof.
  intro Hf. induction l as [|x r IH]; simpl; [discriminate|].
  specialize (Hf x). destruct (f x); simpl; try congruence. destruct (mapR f r); simpl; congruence.
Qed.

Lemma version_total j : version_of_json j <> Panic.
Proof.
  unfold version_of_json. apply rbind_total.
  - apply (obj_total version_fields). unfold version_fields, k_i64. tot_fields.
  - intros [n [v ?]]. destruct (String.eqb _ n); discriminate.
Qed.
Lemma hnv_total hi nm j : hnv_of_json hi nm j <> Panic.
Proof.
  unfold hnv_of_json. apply rbind_total.
  - apply (obj_total (hnv_fields hi)). unfold hnv_fields. tot_fields.
  - intros [? [n [v ?]]]. destruct (String.eqb _ n); discriminate.
Qed.
Lemma sighash_total j : sighash_of_json j <> Panic.
Proof.
  unfold sighash_of_json. apply rbind_total.
  - apply (obj_total sighash_fields). unfold sighash_fields. tot_fields.
  - intros [? [? ?]]. discriminate.
Qed.
Lemma client_auth_total j : client_auth_of_json j <> Panic.
Proof.
  unfold client_auth_of_json. destruct j; try discriminate.
  destruct (rlookup client_auth_names s); [discriminate|].
  destruct (trim_prefix _ s) as [r|]; [|discriminate].
  destruct (unsnoc r) as [[body l]|]; [|discriminate].
  destruct (Ascii.eqb l ")"); [|discriminate].
  destruct (parse_int 64 body) as [n|]; [|discriminate].
  destruct (String.eqb _ s); discriminate.
Qed.
Lemma key_usage_total j : key_usage_of_json j <> Panic.
Proof.
  unfold key_usage_of_json. apply rbind_total.
  - apply (obj_total ku_fields). unfold ku_fields, k_u32. tot_fields.
  - intros [? [? [? [? [? [? [? [? [? [? ?]]]]]]]]]]. discriminate.
Qed.
Lemma pubkey_alg_total j : pubkey_alg_of_json j <> Panic.
Proof.
  unfold pubkey_alg_of_json. apply rbind_total.
  - apply (obj_total pubkey_fields). unfold pubkey_fields. tot_fields.
  - intros [? ?]. discriminate.
Qed.
Lemma sig_alg_total j : sig_alg_of_json j <> Panic.
Proof.
  unfold sig_alg_of_json. apply rbind_total.
  - apply (obj_total sigalg_fields). unfold sigalg_fields. tot_fields.
  - intros [? [o ?]]. destruct (oid_eqb o pss_oid); discriminate.
Qed.

Theorem of_json_total t j : of_json t j <> Panic.
Proof.
  destruct t; cbn [of_json]; apply rmap_total;
    try apply version_total; try apply hnv_total; try apply sighash_total; try apply client_auth_total;
    try apply key_usage_total; try apply pubkey_alg_total; try apply sig_alg_total;
    try apply ecid_total; try apply cparam_total; try apply ecpoint_total; try apply ecdhpriv_total;
    try apply auxoid_total; try apply othername_total; try apply edi_total; try apply name_total;
    try apply subip_total.
  - (* DH *) unfold c_dh, dh_dec. cbn [dec]. apply (obj_total dh_fields). unfold dh_fields. tot_fields.
  - (* ECDH *) unfold c_ecdh. apply (obj_total ecdh_fields). unfold ecdh_fields. tot_fields.
  - (* RSAPub *) unfold c_rsapub, rsapub_dec. cbn [dec]. apply rbind_total.
    + apply (obj_total rsapub_fields). unfold rsapub_fields, k_i64.
      apply tot_cons; [intros [[]|]; simpl; try discriminate; destruct (json_int_lit s); discriminate|]. tot_fields.
    + intros [[e|] [m [l ?]]]; [|discriminate]. destruct (Z.eqb _ l); discriminate.
  - (* RSAClient *) unfold c_rsaclient. apply (obj_total rsaclient_fields). unfold rsaclient_fields, k_u16. tot_fields.
  - (* ATV *) unfold c_atv. cbn [dec]. apply rbind_total.
    + apply (obj_total atv_fields). unfold atv_fields. tot_fields.
    + intros [ty [v ?]]. destruct (is_empty_s ty); [discriminate|].
      apply rbind_total; [apply parse_oid_res_total|discriminate].
  - (* Ext *) unfold c_ext. cbn [dec]. apply rbind_total.
    + apply (obj_total ext_fields). unfold ext_fields. tot_fields.
    + intros [id [c [v ?]]]. apply rbind_total; [apply parse_oid_res_total|discriminate].
  - (* GN *) unfold c_gn, gn_decode. cbn [dec]. apply rbind_total.
    + apply (obj_total gn_fields). unfold gn_fields, ls. tot_fields.
    + intros [? [? [? [? [? [? [reg [? ?]]]]]]]]. apply rbind_total; [apply mapR_total, parse_oid_res_total|discriminate].
  - (* NC *) unfold c_nc, nc_decode. cbn [dec]. apply rbind_total.
    + apply (obj_total nc_fields). unfold nc_fields, half_fields, ls. tot_fields.
    + intros [? [? [? [? [? [? [? [pr [? [? [? [? [? [? [er ?]]]]]]]]]]]]]]].
      apply rbind_total; [apply mapR_total, parse_oid_res_total|]. intro.
      apply rbind_total; [apply mapR_total, parse_oid_res_total|discriminate].
  - (* Fingerprint *) intro H. destruct j; simpl in H; try discriminate. destruct (hex_dec s); discriminate.
  - (* DS *) unfold ds_unmarshal. destruct j; try discriminate. destruct (b64dec s) as [raw|]; [|discriminate].
    unfold ds_parse. destruct raw as [|a [|b [|c [|d r]]]]; try discriminate.
    destruct (take_s _ r); discriminate.
  - (* SHA256 *) unfold sha256_unmarshal. destruct j; try discriminate. destruct (b64dec s) as [raw|]; [|discriminate].
    destruct (Nat.eqb _ 32); discriminate.
Qed.
