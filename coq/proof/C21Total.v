(* C21 — the canonical read program of every well-formed write program matches it:
   the hypothesis [expects ... = Some vs] of the main theorem is met on the whole
   domain [wf_w] (values inside the readable ranges), so reading back always succeeds. *)
From Coq Require Import List NArith ZArith Bool Arith Lia.
From Verif Require Import Harness.
From VerifModel Require Import C21.
From VerifProof Require Import C21Proofs.
Import ListNotations.
Open Scope N_scope.

(* the readable domain: 64-bit integers in range, OID arcs below 2^28, civil times *)
Fixpoint wf_w (x : w) : bool :=
  match x with
  | WInt64 z | WEnum z | WInt64Tag z _ => fits_signed 64 z
  | WUint64 n => fits_unsigned 64 n
  | WOid a => arcs_readable a
  | WGenTime t => gtime_ok t
  | WLen _ body | WAsn1 _ body => forallb wf_w body
  | _ => true
  end.

Lemma reader_of_not_absent x nb : absent_value (reader_of x) nb = None.
Proof. destruct x; reflexivity. Qed.

Definition P_can (x : w) : Prop := wf_w x = true -> exists a, expect (reader_of x) x = Some a.

Lemma expects_canonical ws : Forall P_can ws -> forallb wf_w ws = true ->
  forall tail, exists vs, expects (map reader_of ws) ws tail = Some vs.
Proof.
  induction 1 as [|x t Hx Ht IH]; intros Hwf tail.
  - exists []. reflexivity.
  - cbn [forallb] in Hwf. apply andb_true_iff in Hwf as [Hwx Hwt].
    destruct (Hx Hwx) as [a Ha]. destruct (IH Hwt tail) as [vs Hvs].
    exists (a :: vs). cbn [map expects]. rewrite reader_of_not_absent, Ha, Hvs. reflexivity.
Qed.

Lemma P_can_all x : P_can x.
Proof.
  induction x using w_nested_ind.
  - destruct x; try contradiction; intro Hwf; cbn [wf_w] in Hwf; cbn [reader_of expect int_of_w];
      try (eexists; reflexivity).
    + rewrite N.eqb_refl. eexists; reflexivity.
    + rewrite Hwf. unfold int_reader_value. change (negb (64 <=? 64)) with false. cbn iota.
      rewrite Hwf. eexists; reflexivity.
    + rewrite N.eqb_refl, Hwf. eexists; reflexivity.
    + rewrite Hwf. eexists; reflexivity.
    + rewrite Hwf. unfold int_reader_value. change (negb (64 <=? 64)) with false. cbn iota.
      rewrite (proj2 (Z.leb_le 0 (Z.of_N n))) by lia. rewrite N2Z.id, Hwf. eexists; reflexivity.
    + rewrite Hwf. eexists; reflexivity.
    + rewrite Hwf. eexists; reflexivity.
  - intro Hwf. cbn [wf_w] in Hwf.
    change (expect (reader_of (WLen k body)) (WLen k body)) with
      (if Nat.eqb k k then
         match map reader_of body with
         | [] => match build body with Some c => Some (VNest [] c) | None => None end
         | _ => match expects (map reader_of body) body [] with Some vs => Some (VNest vs []) | None => None end
         end else None).
    rewrite Nat.eqb_refl. destruct body as [|y t].
    + eexists; reflexivity.
    + destruct (expects_canonical (y :: t) H Hwf []) as [vs Hvs].
      cbn [map] in *. rewrite Hvs. eexists; reflexivity.
  - intro Hwf. cbn [wf_w] in Hwf.
    change (expect (reader_of (WAsn1 tag body)) (WAsn1 tag body)) with
      (if tag =? tag then
         match map reader_of body with
         | [] => match build body with Some c => Some (VNest [] c) | None => None end
         | _ => match expects (map reader_of body) body [] with Some vs => Some (VNest vs []) | None => None end
         end else None).
    rewrite N.eqb_refl. destruct body as [|y t].
    + eexists; reflexivity.
    + destruct (expects_canonical (y :: t) H Hwf []) as [vs Hvs].
      cbn [map] in *. rewrite Hvs. eexists; reflexivity.
Qed.

(* every well-formed program the Builder accepts is read back by its canonical read
   program: the reads succeed, return [vs] (the written values, by definition of
   [expects]) and leave exactly the trailing bytes *)
Theorem canonical_read_back : forall ws bs tail,
  forallb wf_w ws = true -> build ws = Some bs -> blen bs < LIM ->
  exists vs, expects (map reader_of ws) ws tail = Some vs /\
             rds (map reader_of ws) (bs ++ tail) = Some (vs, tail).
Proof.
  intros ws bs tail Hwf Hb L.
  destruct (expects_canonical ws (proj2 (Forall_forall _ _) (fun x _ => P_can_all x)) Hwf tail) as [vs Hvs].
  exists vs. split; [exact Hvs|]. now apply (read_build _ ws).
Qed.
