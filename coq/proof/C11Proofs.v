(* C11 — proofs about the walk model (model/C11.v) over graphs satisfying the
   C10 invariant GInv. *)
From Coq Require Import List NArith ZArith Bool Arith Lia.
From Verif Require Import Harness AbsCertG.
From VerifModel Require Import C10 C11.
From VerifProof Require Import C10Proofs.
Import ListNotations.

(* ------------------------------------------------------------------ paths *)
(* every edge of a chain prefix has the node of its certificate as child *)
Definition WF (pre : list edge) : Prop := forall e, In e pre -> e_child e = node_of (e_cert e).

(* [e] may follow the prefix [pre] whose last edge is [l]: the property's reading *)
Definition nlink (g : graph) (pre : list edge) (l e : edge) : Prop :=
  e_root l = false /\ In e (g_edges g) /\ e_iss l = Some (e_child e) /\
  ~ In (e_child e) (map e_child pre) /\ length pre < max_intermediate /\
  can_add (e_cert e) (e_root e) (map e_cert pre) = true.

(* what continueWalking additionally demands of a non-root [e]: its own issuer is a node not yet in the chain *)
Definition gextra (pre : list edge) (e : edge) : Prop :=
  exists t, e_iss e = Some t /\ ~ In t (map e_child pre).

Fixpoint nlinks (g : graph) (pre : list edge) (l : edge) (suf : list edge) : Prop :=
  match suf with
  | [] => e_root l = true
  | e :: r => nlink g pre l e /\ nlinks g (pre ++ [e]) e r
  end.

Fixpoint glinks (g : graph) (pre : list edge) (l : edge) (suf : list edge) : Prop :=
  match suf with
  | [] => e_root l = true
  | e :: r => (nlink g pre l e /\ (e_root e = false -> gextra pre e)) /\ glinks g (pre ++ [e]) e r
  end.

Lemma in_chain_spec pre n : WF pre ->
  (in_chain n (map e_cert pre) = true <-> In n (map e_child pre)).
Proof.
  intros Hwf. unfold in_chain. rewrite existsb_exists. split.
  - intros [c [Hc E]]. apply node_eqb_eq in E. apply in_map_iff in Hc as [e [<- He]].
    apply in_map_iff. exists e. split; [|assumption]. rewrite (Hwf e He). now symmetry.
  - intros Hin. apply in_map_iff in Hin as [e [<- He]]. exists (e_cert e). split; [now apply in_map|].
    apply node_eqb_eq. now apply Hwf.
Qed.

Lemma in_chain_false pre n : WF pre ->
  (in_chain n (map e_cert pre) = false <-> ~ In n (map e_child pre)).
Proof.
  intros Hwf. rewrite <- (in_chain_spec pre n Hwf). destruct (in_chain n (map e_cert pre)); split; intros H; try congruence; try reflexivity.
Qed.

Lemma find_edge_some f es e : find_edge f es = Some e -> In e es /\ e_fp e = f.
Proof. unfold find_edge. intros H. apply find_some in H as [H1 H2]. apply N.eqb_eq in H2. now split. Qed.

Section Walk.
  Variable g : graph.
  Hypothesis G : GInv g.
  Hypothesis R : RInv g.

  Lemma edge_wf e : In e (g_edges g) -> e_child e = node_of (e_cert e).
  Proof. intros He. apply (i_child g G _ (in_views g e He)). Qed.

  Lemma find_edge_in e : In e (g_edges g) -> find_edge (e_fp e) (g_edges g) = Some e.
  Proof. intros He. apply find_edge_nodup; [|assumption]. rewrite <- map_vfp_views. apply (i_fps g G). Qed.

  Lemma parents_spec n tgt f :
    In (n, tgt, f) (g_parents g) <->
    exists e, In e (g_edges g) /\ e_iss e = Some tgt /\ e_child e = n /\ e_fp e = f.
  Proof.
    destruct (ginv_adjacency g G) as [_ [_ [_ Hp]]]. rewrite Hp. split.
    - intros [e [p [He [Hi Ht]]]]. injection Ht as E1 E2 E3. subst. now exists e.
    - intros [e [He [Hi [Hc Hf]]]]. exists e, tgt. subst. now repeat split.
  Qed.

  Lemma roots_spec n f :
    In (n, f) (g_roots g) <-> exists e, In e (g_edges g) /\ e_root e = true /\ e_child e = n /\ e_fp e = f.
  Proof. apply (proj2 (rinv_roots_exact g R)). Qed.

  Lemma cw_spec : forall fuel pre l ch,
    WF pre -> length pre <= max_intermediate -> S max_intermediate <= length pre + fuel ->
    (In ch (cw fuel g (e_iss l) (map e_cert pre) l) <->
     exists suf, glinks g pre l suf /\ ch = map e_cert (pre ++ suf)).
  Proof.
    induction fuel as [|f IH]; intros pre l ch Hwf Hlen Hfuel.
    - unfold max_intermediate in *. lia.
    - cbn [cw]. destruct (e_root l) eqn:Hroot.
      + split.
        * intros [<- | []]. exists []. split; [exact Hroot | now rewrite app_nil_r].
        * intros [suf [Hg ->]]. destruct suf as [|e r].
          -- left. now rewrite app_nil_r.
          -- simpl in Hg. destruct Hg as [[[Hr _] _] _]. congruence.
      + destruct (e_iss l) as [n|] eqn:Hcur.
        2:{ split; [intros [] |]. intros [suf [Hg ->]]. destruct suf as [|e r]; simpl in Hg; [congruence|].
            destruct Hg as [[[_ [_ [Hi _]]] _] _]. congruence. }
        destruct (in_chain n (map e_cert pre)) eqn:Hinch.
        { split; [intros [] |]. intros [suf [Hg ->]]. destruct suf as [|e r]; simpl in Hg; [congruence|].
          destruct Hg as [[[_ [_ [Hi [Hnot _]]]] _] _]. rewrite Hcur in Hi. inversion Hi; subst n.
          apply (in_chain_spec pre _ Hwf) in Hinch. contradiction. }
        rewrite map_length.
        destruct (Nat.leb max_intermediate (length pre)) eqn:Hmax.
        { split; [intros [] |]. intros [suf [Hg ->]]. destruct suf as [|e r]; simpl in Hg; [congruence|].
          destruct Hg as [[[_ [_ [_ [_ [Hl _]]]]] _] _]. apply Nat.leb_le in Hmax. lia. }
        apply Nat.leb_gt in Hmax.
        assert (Hwf' : forall e, In e (g_edges g) -> WF (pre ++ [e])).
        { intros e He x Hx. apply in_app_or in Hx as [Hx | [<- | []]]; [now apply Hwf | now apply edge_wf]. }
        assert (Hl1 : forall e : edge, length (pre ++ [e]) <= max_intermediate) by (intros; rewrite app_length; simpl; lia).
        assert (Hl2 : forall e : edge, S max_intermediate <= length (pre ++ [e]) + f) by (intros; rewrite app_length; simpl; lia).
        assert (Hmap : forall e, map e_cert pre ++ [e_cert e] = map e_cert (pre ++ [e])) by (intros; now rewrite map_app).
        rewrite in_app_iff, !in_flat_map. split.
        * intros [[[c0 fp] [Ht Hin]] | [[[c0 tgt] fp] [Ht Hin]]].
          -- (* a root edge of the current node *)
             destruct (node_eqb c0 n) eqn:Ec; simpl in Hin; [|contradiction].
             apply node_eqb_eq in Ec. subst c0.
             apply roots_spec in Ht as [e [He [Hre [Hce Hfe]]]].
             rewrite <- Hfe, (find_edge_in e He) in Hin.
             destruct (can_add (e_cert e) true (map e_cert pre)) eqn:Hca; [|contradiction].
             rewrite Hmap in Hin. apply IH in Hin; auto.
             destruct Hin as [suf [Hg ->]]. exists (e :: suf). split; [|now rewrite <- app_assoc].
             simpl. split; [|exact Hg]. split.
             ++ unfold nlink. rewrite Hce, Hre. repeat split; auto.
                apply (in_chain_false pre n Hwf). exact Hinch.
             ++ intros Hf. congruence.
          -- (* a non-root edge from the parents sets *)
             destruct (node_eqb c0 n) eqn:Ec; simpl in Hin; [|contradiction].
             apply node_eqb_eq in Ec. subst c0.
             apply parents_spec in Ht as [e [He [Hie [Hce Hfe]]]].
             assert (Htn : In tgt (g_nodes g)) by (apply (ginv_issuer_sound g G e tgt He Hie)).
             apply mem_node_In in Htn. rewrite Htn in Hin. simpl in Hin.
             destruct (in_chain tgt (map e_cert pre)) eqn:Htc; [contradiction|].
             rewrite <- Hfe, (find_edge_in e He) in Hin.
             destruct (e_root e) eqn:Hre; [contradiction|].
             destruct (can_add (e_cert e) false (map e_cert pre)) eqn:Hca; [|contradiction].
             rewrite Hmap in Hin. apply IH in Hin; auto.
             destruct Hin as [suf [Hg ->]]. exists (e :: suf). split; [|now rewrite <- app_assoc].
             simpl. split; [|exact Hg]. split.
             ++ unfold nlink. rewrite Hce, Hre. repeat split; auto.
                apply (in_chain_false pre n Hwf). exact Hinch.
             ++ intros _. exists tgt. split; [assumption|]. now apply (in_chain_false pre tgt Hwf).
        * intros [suf [Hg ->]]. destruct suf as [|e r]; simpl in Hg; [congruence|].
          destruct Hg as [[[_ [He [Hi [Hnot [Hl Hca]]]]] Hext] Hrest].
          rewrite Hcur in Hi. inversion Hi as [Hn].
          assert (Hrec : In (map e_cert (pre ++ e :: r)) (cw f g (e_iss e) (map e_cert pre ++ [e_cert e]) e)).
          { rewrite Hmap. apply IH; auto. exists r. split; [assumption|]. now rewrite <- app_assoc. }
          destruct (e_root e) eqn:Hre.
          -- left. exists (n, e_fp e). split.
             ++ apply roots_spec. exists e. repeat split; auto.
             ++ cbv beta iota.
                replace (node_eqb n (e_child e)) with true by (symmetry; apply node_eqb_eq; congruence).
                cbn [negb]. rewrite (find_edge_in e He), Hca. exact Hrec.
          -- right. destruct (Hext eq_refl) as [tgt [Hie Htn]].
             exists (n, tgt, e_fp e). split.
             ++ apply parents_spec. exists e. repeat split; auto.
             ++ cbv beta iota.
                replace (node_eqb n (e_child e)) with true by (symmetry; apply node_eqb_eq; congruence).
                cbn [negb].
                assert (Hin_t : in_chain tgt (map e_cert pre) = false) by (now apply (in_chain_false pre tgt Hwf)).
                rewrite Hin_t, andb_false_r. rewrite (find_edge_in e He), Hre, Hca. exact Hrec.
  Qed.
End Walk.

(* ------------------------------------------------------------------ consequences of a permitted path *)
Lemma glinks_nlinks g : forall suf pre l, glinks g pre l suf -> nlinks g pre l suf.
Proof.
  induction suf as [|e r IH]; intros pre l H; simpl in *; [assumption|].
  destruct H as [[Hn _] Hr]. split; [assumption | now apply IH].
Qed.

(* conversely: the issuer of a non-root edge of a permitted path is the child of the next edge, hence new *)
Lemma nlinks_glinks g : forall suf pre l, nlinks g pre l suf -> glinks g pre l suf.
Proof.
  induction suf as [|e r IH]; intros pre l H; simpl in *; [assumption|].
  destruct H as [Hn Hrest]. split.
  - split; [assumption|]. intros Hre. destruct r as [|e2 r']; [simpl in Hrest; congruence|].
    simpl in Hrest. destruct Hrest as [[_ [_ [Hi [Hnot _]]]] _].
    exists (e_child e2). split; [assumption|]. intros Hin. apply Hnot. rewrite map_app. apply in_or_app. now left.
  - now apply IH.
Qed.

Lemma nlinks_length g : forall suf pre l, nlinks g pre l suf -> length pre <= max_intermediate ->
  length (pre ++ suf) <= max_intermediate.
Proof.
  induction suf as [|e r IH]; intros pre l H Hl; simpl in *; [now rewrite app_nil_r|].
  destruct H as [[_ [_ [_ [_ [Hlt _]]]]] Hr].
  replace (pre ++ e :: r) with ((pre ++ [e]) ++ r) by (now rewrite <- app_assoc).
  apply (IH _ e Hr). rewrite app_length. simpl. lia.
Qed.

Lemma nlinks_nodup g : forall suf pre l, nlinks g pre l suf -> NoDup (map e_child pre) ->
  NoDup (map e_child (pre ++ suf)).
Proof.
  induction suf as [|e r IH]; intros pre l H Hnd; simpl in *; [now rewrite app_nil_r|].
  destruct H as [[_ [_ [_ [Hnot _]]]] Hr].
  replace (pre ++ e :: r) with ((pre ++ [e]) ++ r) by (now rewrite <- app_assoc).
  apply (IH _ e Hr). rewrite map_app. simpl. now apply NoDup_snoc.
Qed.

(* exactly the last edge is a root *)
Lemma nlinks_roots g : forall suf pre l, nlinks g pre l suf ->
  forall s1 x s2, l :: suf = s1 ++ x :: s2 -> (e_root x = true <-> s2 = []).
Proof.
  induction suf as [|e r IH]; intros pre l H s1 x s2 E; simpl in H.
  - destruct s1 as [|y s1]; simpl in E.
    + inversion E; subst. tauto.
    + inversion E. destruct s1; discriminate.
  - destruct H as [[Hroot _] Hr]. destruct s1 as [|y s1]; simpl in E.
    + inversion E; subst. split; [congruence | discriminate].
    + inversion E; subst. apply (IH _ _ Hr s1 x s2). assumption.
Qed.

(* consecutive edges: the next edge is an edge of the graph into the issuer node of the previous one *)
Lemma nlinks_adjacent g : forall suf pre l, nlinks g pre l suf ->
  forall s1 a b s2, l :: suf = s1 ++ a :: b :: s2 -> In b (g_edges g) /\ e_iss a = Some (e_child b).
Proof.
  induction suf as [|e r IH]; intros pre l H s1 a b s2 E; simpl in H.
  - destruct s1 as [|y s1]; simpl in E; inversion E. destruct s1; discriminate.
  - destruct H as [[_ [He [Hi _]]] Hr]. destruct s1 as [|y s1]; simpl in E.
    + inversion E; subst. now split.
    + inversion E; subst. apply (IH _ _ Hr s1 a b s2). assumption.
Qed.

(* every edge after the start is admitted by canAddToChain for the chain below it *)
Lemma nlinks_admissible g : forall suf pre l, nlinks g pre l suf ->
  forall s1 x s2, suf = s1 ++ x :: s2 ->
    can_add (e_cert x) (e_root x) (map e_cert (pre ++ s1)) = true /\ length (pre ++ s1) < max_intermediate.
Proof.
  induction suf as [|e r IH]; intros pre l H s1 x s2 E; simpl in H.
  - destruct s1; discriminate.
  - destruct H as [[_ [_ [_ [_ [Hl Hca]]]]] Hr]. destruct s1 as [|y s1]; simpl in E.
    + inversion E; subst. rewrite app_nil_r. now split.
    + inversion E; subst.
      replace (pre ++ y :: s1) with ((pre ++ [y]) ++ s1) by (now rewrite <- app_assoc).
      apply (IH _ _ Hr s1 x s2). reflexivity.
Qed.

Lemma nlinks_in_edges g : forall suf pre l, nlinks g pre l suf -> forall e, In e suf -> In e (g_edges g).
Proof.
  induction suf as [|x r IH]; intros pre l H e He; simpl in *; [contradiction|].
  destruct H as [[_ [Hx _]] Hr]. destruct He as [<- | He]; [assumption|]. now apply (IH _ _ Hr).
Qed.

Lemma can_add_spec c r ch : can_add c r ch = true <->
  (r = false -> c_bcv c = true /\ c_ca c = true) /\
  (c_bcv c = true -> (0 <= c_mpl c)%Z -> (Z.of_nat (length ch) - 1 <= c_mpl c)%Z).
Proof.
  unfold can_add. destruct r, (c_bcv c), (c_ca c); simpl;
    try (destruct (0 <=? c_mpl c)%Z eqn:E1; destruct (c_mpl c <? Z.of_nat (length ch) - 1)%Z eqn:E2; simpl);
    try apply Z.leb_le in E1; try apply Z.leb_gt in E1; try apply Z.ltb_lt in E2; try apply Z.ltb_ge in E2;
    split; intros H; try discriminate; try reflexivity;
    try (split; [intros; try discriminate; auto | intros; try discriminate; lia]);
    try (destruct H as [H1 H2]; try (specialize (H1 eq_refl); destruct H1; discriminate);
         try (specialize (H2 eq_refl); lia)).
Qed.

(* ------------------------------------------------------------------ the walk *)
Section Top.
  Variable g : graph.
  Hypothesis G : GInv g.
  Hypothesis R : RInv g.
  Variable c : cert.
  Let s := start_edge g c.

  Lemma start_wf : WF [s].
  Proof.
    intros e [<- | []]. unfold s, start_edge. destruct (find_edge (c_fp c) (g_edges g)) eqn:E.
    - apply find_edge_some in E as [He _]. now apply (edge_wf g G).
    - reflexivity.
  Qed.

  Lemma start_fp : c_fp (e_cert s) = c_fp c.
  Proof.
    unfold s, start_edge. destruct (find_edge (c_fp c) (g_edges g)) eqn:E; [|reflexivity].
    apply find_edge_some in E as [_ E]. exact E.
  Qed.

  (* the start edge's issuer, if any, is a node with the issuer name whose key verifies the start certificate *)
  Lemma start_issuer_sound n : e_iss s = Some n -> In n (g_nodes g) /\ is_issuer_of (e_cert s) n.
  Proof.
    unfold s, start_edge. destruct (find_edge (c_fp c) (g_edges g)) eqn:E.
    - apply find_edge_some in E as [He _]. intros Hi. now apply (ginv_issuer_sound g G e n).
    - simpl. intros Hi. apply find_some in Hi as [Hin Hiss]. split; [assumption|]. now apply issues_spec.
  Qed.

  Definition permitted (p : list edge) : Prop := exists suf, p = s :: suf /\ nlinks g [s] s suf.

  Lemma walk_spec ch : In ch (walk g c) <-> exists suf, glinks g [s] s suf /\ ch = map e_cert (s :: suf).
  Proof.
    unfold walk. fold s. change [e_cert s] with (map e_cert [s]).
    apply (cw_spec g G R (S max_intermediate) [s] s ch start_wf); simpl; unfold max_intermediate; lia.
  Qed.

  Lemma walk_sound ch : In ch (walk g c) -> exists p, permitted p /\ ch = map e_cert p.
  Proof.
    intros H. apply walk_spec in H as [suf [Hg ->]]. exists (s :: suf). split; [|reflexivity].
    exists suf. split; [reflexivity | now apply glinks_nlinks].
  Qed.

  Lemma walk_complete p : permitted p -> In (map e_cert p) (walk g c).
  Proof.
    intros [suf [-> Hn]]. apply walk_spec. exists suf. split; [|reflexivity].
    now apply nlinks_glinks.
  Qed.

  Lemma walk_length_bound ch : In ch (walk g c) -> 1 <= length ch <= max_intermediate.
  Proof.
    intros H. apply walk_sound in H as [p [[suf [-> Hn]] ->]]. rewrite map_length. split; [simpl; lia|].
    apply (nlinks_length g suf [s] s Hn). simpl. unfold max_intermediate. lia.
  Qed.

  Lemma permitted_wf p : permitted p -> WF p.
  Proof.
    intros [suf [-> Hn]] e [<- | He]; [apply start_wf; now left|].
    apply (edge_wf g G). now apply (nlinks_in_edges g suf [s] s Hn).
  Qed.

  (* chain-level soundness: what the property says about a returned chain *)
  Lemma walk_chain_properties ch : In ch (walk g c) ->
    (exists c0 rest, ch = c0 :: rest /\ c_fp c0 = c_fp c) /\
    NoDup (map node_of ch) /\
    (forall s1 a b s2, ch = s1 ++ a :: b :: s2 ->
       c_subj b = c_iss a /\ verifies (node_of b) a = true /\ has_fp (c_fp b) (g_edges g) = true) /\
    (forall s1 x s2, ch = s1 ++ x :: s2 -> s1 <> [] ->
       (s2 <> [] -> c_bcv x = true /\ c_ca x = true) /\
       (c_bcv x = true -> (0 <= c_mpl x)%Z -> (Z.of_nat (length s1) - 1 <= c_mpl x)%Z)).
  Proof.
    intros H. apply walk_sound in H as [p [Hp ->]]. pose proof (permitted_wf p Hp) as Hwf.
    destruct Hp as [suf [-> Hn]]. split; [|split; [|split]].
    - exists (e_cert s), (map e_cert suf). split; [reflexivity | apply start_fp].
    - rewrite map_map. rewrite (map_ext_in _ e_child).
      + apply (nlinks_nodup g suf [s] s Hn). simpl. constructor; [intros [] | constructor].
      + intros e He. symmetry. now apply Hwf.
    - intros s1 a b s2 E.
      apply map_eq_app in E as [p1 [p2 [Ep [E1 E2]]]].
      destruct p2 as [|ea p2]; [discriminate|]. destruct p2 as [|eb p2]; [discriminate|].
      simpl in E2. inversion E2; subst a b.
      destruct (nlinks_adjacent g suf [s] s Hn p1 ea eb p2 Ep) as [Heb Hi].
      assert (Hsound : In (e_child eb) (g_nodes g) /\ is_issuer_of (e_cert ea) (e_child eb)).
      { destruct p1 as [|y p1]; simpl in Ep; injection Ep as Ey Esuf.
        - subst ea. now apply start_issuer_sound.
        - assert (Hea : In ea (g_edges g)).
          { apply (nlinks_in_edges g _ [s] s Hn). rewrite Esuf. apply in_or_app. right. now left. }
          now apply (ginv_issuer_sound g G ea). }
      destruct Hsound as [_ [Hname Hver]].
      rewrite (edge_wf g G eb Heb) in Hname, Hver. split; [exact Hname|]. split; [exact Hver|].
      apply has_fp_true. now apply (in_map e_fp).
    - intros s1 x s2 E Hne.
      apply map_eq_app in E as [p1 [p2 [Ep [E1 E2]]]].
      destruct p2 as [|ex p2]; [discriminate|]. simpl in E2. inversion E2; subst x s2.
      destruct p1 as [|y p1]; [simpl in E1; subst s1; contradiction|].
      simpl in Ep. inversion Ep; subst y.
      destruct (nlinks_admissible g suf [s] s Hn p1 ex p2 H1) as [Hca _].
      apply can_add_spec in Hca as [Hca1 Hca2]. split.
      + intros Hs2. apply Hca1.
        destruct (e_root ex) eqn:Er; [|reflexivity]. exfalso.
        apply (nlinks_roots g suf [s] s Hn (s :: p1) ex p2) in Er; [|simpl; congruence].
        subst p2. now apply Hs2.
      + rewrite map_length in Hca2. rewrite <- E1. rewrite map_length. simpl app in Hca2. exact Hca2.
  Qed.

  (* only the last certificate of a returned chain is a root edge *)
  Lemma walk_root_last ch : In ch (walk g c) ->
    exists p, ch = map e_cert p /\ forall s1 x s2, p = s1 ++ x :: s2 -> (e_root x = true <-> s2 = []).
  Proof.
    intros H. apply walk_sound in H as [p [[suf [-> Hn]] ->]]. exists (s :: suf). split; [reflexivity|].
    apply (nlinks_roots g suf [s] s Hn).
  Qed.
End Top.

(* ------------------------------------------------------------------ no chain is returned twice *)
Lemma cw_prefix g : forall fuel cur sofar last ch,
  In ch (cw fuel g cur sofar last) -> exists r, ch = sofar ++ r.
Proof.
  induction fuel as [|f IH]; intros cur sofar last ch H; [contradiction|].
  cbn [cw] in H. destruct (e_root last).
  - destruct H as [<- | []]. exists []. now rewrite app_nil_r.
  - destruct cur as [n|]; [|contradiction].
    destruct (in_chain n sofar); [contradiction|].
    destruct (Nat.leb max_intermediate (length sofar)); [contradiction|].
    apply in_app_or in H as [H | H].
    + apply in_flat_map in H as [[c0 fp] [_ H]].
      destruct (negb (node_eqb c0 n)); [contradiction|].
      destruct (find_edge fp (g_edges g)) as [e|]; [|contradiction].
      destruct (can_add (e_cert e) true sofar); [|contradiction].
      apply IH in H as [r ->]. exists ([e_cert e] ++ r). now rewrite app_assoc.
    + apply in_flat_map in H as [[[c0 tgt] fp] [_ H]].
      destruct (negb (node_eqb c0 n)); [contradiction|].
      destruct (mem_node tgt (g_nodes g) && in_chain tgt sofar); [contradiction|].
      destruct (find_edge fp (g_edges g)) as [e|]; [|contradiction].
      destruct (e_root e); [contradiction|].
      destruct (can_add (e_cert e) false sofar); [|contradiction].
      apply IH in H as [r ->]. exists ([e_cert e] ++ r). now rewrite app_assoc.
Qed.

Lemma NoDup_flat_map {A B} (f : A -> list B) (l : list A) :
  NoDup l -> (forall x, In x l -> NoDup (f x)) ->
  (forall x y z, In x l -> In y l -> x <> y -> In z (f x) -> In z (f y) -> False) ->
  NoDup (flat_map f l).
Proof.
  induction l as [|a l IH]; intros Hnd Hf Hdis; simpl; [constructor|].
  inversion Hnd as [|a' l' Hn Hd]; subst.
  apply NoDup_app_intro.
  - apply Hf. now left.
  - apply IH; [assumption | intros x Hx; apply Hf; now right |].
    intros x y z Hx Hy. apply Hdis; now right.
  - intros z Hz1 Hz2. apply in_flat_map in Hz2 as [y [Hy Hz2]].
    apply (Hdis a y z); [now left | now right | | assumption | assumption].
    intros ->. contradiction.
Qed.

Lemma NoDup_map_inj_on {A B} (f : A -> B) (l : list A) x y :
  NoDup (map f l) -> In x l -> In y l -> f x = f y -> x = y.
Proof.
  induction l as [|a l IH]; simpl; intros Hnd Hx Hy E; [contradiction|].
  inversion Hnd as [|a' l' Hn Hd]; subst.
  destruct Hx as [-> | Hx], Hy as [-> | Hy].
  - reflexivity.
  - exfalso. apply Hn. rewrite E. now apply in_map.
  - exfalso. apply Hn. rewrite <- E. now apply in_map.
  - now apply IH.
Qed.

(* the chains found through one entry of rootEdges / one entry of a parents set *)
Definition via_root (g : graph) (f : nat) (n : node) (sofar : list cert) (x : node * N) : list (list cert) :=
  let '(ch, fp) := x in
  if negb (node_eqb ch n) then [] else
  match find_edge fp (g_edges g) with
  | None => []
  | Some e => if can_add (e_cert e) true sofar then cw f g (e_iss e) (sofar ++ [e_cert e]) e else []
  end.
Definition via_parent (g : graph) (f : nat) (n : node) (sofar : list cert) (t : trip) : list (list cert) :=
  let '(ch, tgt, fp) := t in
  if negb (node_eqb ch n) then [] else
  if mem_node tgt (g_nodes g) && in_chain tgt sofar then [] else
  match find_edge fp (g_edges g) with
  | None => []
  | Some e => if e_root e then [] else
              if can_add (e_cert e) false sofar then cw f g (e_iss e) (sofar ++ [e_cert e]) e else []
  end.

(* a chain found through an entry with fingerprint fp continues [sofar] with the certificate of that edge *)
Lemma via_root_next g f n sofar x z : In z (via_root g f n sofar x) ->
  exists e r, find_edge (snd x) (g_edges g) = Some e /\ z = sofar ++ e_cert e :: r.
Proof.
  destruct x as [c0 fp]. simpl. destruct (negb (node_eqb c0 n)); [intros []|].
  destruct (find_edge fp (g_edges g)) as [e|] eqn:E; [|intros []].
  destruct (can_add (e_cert e) true sofar); [|intros []].
  intros H. apply cw_prefix in H as [r ->]. exists e, r. split; [reflexivity | now rewrite <- app_assoc].
Qed.

Lemma via_parent_next g f n sofar t z : In z (via_parent g f n sofar t) ->
  exists e r, find_edge (snd t) (g_edges g) = Some e /\ e_root e = false /\ z = sofar ++ e_cert e :: r.
Proof.
  destruct t as [[c0 tgt] fp]. simpl. destruct (negb (node_eqb c0 n)); [intros []|].
  destruct (mem_node tgt (g_nodes g) && in_chain tgt sofar); [intros []|].
  destruct (find_edge fp (g_edges g)) as [e|] eqn:E; [|intros []].
  destruct (e_root e) eqn:Er; [intros []|].
  destruct (can_add (e_cert e) false sofar); [|intros []].
  intros H. apply cw_prefix in H as [r ->]. exists e, r. split; [reflexivity|]. split; [assumption | now rewrite <- app_assoc].
Qed.

Lemma next_cert_eq (sofar : list cert) c1 r1 c2 r2 : sofar ++ c1 :: r1 = sofar ++ c2 :: r2 -> c1 = c2.
Proof. intros E. apply app_inv_head in E. now inversion E. Qed.

Lemma cw_nodup g : RInv g -> NoDup (map e_fp (g_edges g)) -> NoDup (map snd (g_parents g)) ->
  forall fuel cur sofar last, NoDup (cw fuel g cur sofar last).
Proof.
  intros R Hfps Hp. induction fuel as [|f IH]; intros cur sofar last; [constructor|].
  cbn [cw]. destruct (e_root last); [constructor; [intros [] | constructor]|].
  destruct cur as [n|]; [|constructor].
  destruct (in_chain n sofar); [constructor|].
  destruct (Nat.leb max_intermediate (length sofar)); [constructor|].
  change (NoDup (flat_map (via_root g f n sofar) (g_roots g) ++ flat_map (via_parent g f n sofar) (g_parents g))).
  apply NoDup_app_intro.
  - apply NoDup_flat_map.
    + apply NoDup_map_snd_NoDup. apply (proj2 R).
    + intros [c0 fp] _. simpl. destruct (negb (node_eqb c0 n)); [constructor|].
      destruct (find_edge fp (g_edges g)) as [e|]; [|constructor].
      destruct (can_add (e_cert e) true sofar); [apply IH | constructor].
    + intros x y z Hx Hy Hne Hz1 Hz2. apply Hne. apply (NoDup_map_inj_on snd (g_roots g)); auto; [apply (proj2 R)|].
      apply via_root_next in Hz1 as [e1 [r1 [E1 ->]]]. apply via_root_next in Hz2 as [e2 [r2 [E2 Ez]]].
      apply next_cert_eq in Ez. apply find_edge_some in E1 as [_ <-]. apply find_edge_some in E2 as [_ <-].
      unfold e_fp. now rewrite Ez.
  - apply NoDup_flat_map.
    + now apply NoDup_map_snd_NoDup.
    + intros [[c0 tgt] fp] _. simpl. destruct (negb (node_eqb c0 n)); [constructor|].
      destruct (mem_node tgt (g_nodes g) && in_chain tgt sofar); [constructor|].
      destruct (find_edge fp (g_edges g)) as [e|]; [|constructor].
      destruct (e_root e); [constructor|].
      destruct (can_add (e_cert e) false sofar); [apply IH | constructor].
    + intros x y z Hx Hy Hne Hz1 Hz2. apply Hne. apply (NoDup_map_inj_on snd (g_parents g)); auto.
      apply via_parent_next in Hz1 as [e1 [r1 [E1 [_ ->]]]]. apply via_parent_next in Hz2 as [e2 [r2 [E2 [_ Ez]]]].
      apply next_cert_eq in Ez. apply find_edge_some in E1 as [_ <-]. apply find_edge_some in E2 as [_ <-].
      unfold e_fp. now rewrite Ez.
  - (* a chain through rootEdges continues with a root edge, one through parents with a non-root edge *)
    intros z Hz1 Hz2. apply in_flat_map in Hz1 as [x [Hx Hz1]]. apply in_flat_map in Hz2 as [t [Ht Hz2]].
    apply via_root_next in Hz1 as [e1 [r1 [E1 ->]]]. apply via_parent_next in Hz2 as [e2 [r2 [E2 [Hr2 Ez]]]].
    apply next_cert_eq in Ez.
    destruct x as [n1 f1]. simpl in E1.
    apply (proj1 R) in Hx. apply in_map_iff in Hx as [e [Ev He]]. unfold rview in Ev. inversion Ev as [[Ec Ef Er]].
    (* e is the edge with fingerprint f1, so it is e1 *)
    pose proof (find_edge_nodup _ _ Hfps He) as Xe. rewrite Ef, E1 in Xe. inversion Xe; subst e1.
    (* e2 has the same certificate, hence the same fingerprint, hence is e *)
    pose proof (find_edge_some _ _ _ E2) as [He2 Ef2].
    pose proof (find_edge_nodup _ _ Hfps He2) as X2.
    assert (Hsame : e_fp e2 = e_fp e) by (unfold e_fp; now rewrite Ez).
    rewrite Hsame, (find_edge_nodup _ _ Hfps He) in X2. inversion X2; subst e2. congruence.
Qed.

Lemma walk_nodup g c : GInv g -> RInv g -> NoDup (walk g c).
Proof.
  intros G R. unfold walk. apply cw_nodup; [assumption | | apply (proj2 (i_parents g G))].
  rewrite <- map_vfp_views. apply (i_fps g G).
Qed.

(* ------------------------------------------------------------------ concrete instances *)
(* before repair the walk missed permitted paths ending at a root certificate whose own issuer is
   not in the graph, or occurs earlier in the chain; the repaired walk returns them *)
Lemma root_with_unknown_issuer_example :
  let r := mkCert 0 1 9 1 true true (-1) 0 9 [] in
  let l := mkCert 1 3 1 4 false false 0 0 9 [1%N] in
  let g := state_after empty_graph [AddRoot r; AddCert l] in
  walk g l = [[l; r]].
Proof. vm_compute. reflexivity. Qed.

Lemma root_with_issuer_in_chain_example :
  let ab := mkCert 0 1 2 1 true true (-1) 0 9 [2%N] in     (* subject 1, issued by 2 *)
  let ba := mkCert 1 2 1 2 true true (-1) 0 9 [1%N] in     (* subject 2, issued by 1; trust anchor *)
  let g := state_after empty_graph [AddCert ab; AddRoot ba] in
  walk g ab = [[ab; ba]].
Proof. vm_compute. reflexivity. Qed.

(* before repair f1334b8 the walk from a self-signed non-root S cross-signed by a root returned
   [S, S', R]; the repaired model returns nothing from S and only [leaf, S', R] from a leaf under S *)
Lemma selfsigned_cross_example :
  let s  := mkCert 0 1 1 1 true true (-1) 0 9 [1%N] in
  let r  := mkCert 1 0 0 0 true true (-1) 0 9 [0%N] in
  let s' := mkCert 2 1 0 1 true true (-1) 0 9 [0%N] in
  let l  := mkCert 3 3 1 4 false false 0 0 9 [1%N] in
  let g := state_after empty_graph [AddCert s; AddRoot r; AddCert s'; AddCert l] in
  walk g s = [] /\ walk g l = [[l; s'; r]].
Proof. vm_compute. split; reflexivity. Qed.
