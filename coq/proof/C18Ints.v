(* C18Ints — INTEGER bodies: the decoder's parseInt64 / parseInt32 / parseBigInt
   invert the encoder's int64Encoder and makeBigInt, and the encodings pass
   the strict minimality check. *)
From Coq Require Import List NArith ZArith Bool Arith Lia.
From Verif Require Import Harness.
From VerifModel Require Import C20 C18.
Import ListNotations.
Open Scope Z_scope.

Ltac Zify.zify_post_hook ::= Z.div_mod_to_equations.

(* ------------------------------------------------------------------ big-endian values *)

Definition step (a : Z) (b : N) : Z := a * 256 + Z.of_N b.

Lemma fold_step_acc : forall bs a,
  fold_left step bs a = a * 256 ^ Z.of_nat (length bs) + fold_left step bs 0.
Proof.
  induction bs as [|b bs IH]; intros a; cbn [fold_left length].
  - change (256 ^ Z.of_nat 0) with 1. lia.
  - rewrite IH. rewrite (IH (step 0 b)). unfold step.
    rewrite Nat2Z.inj_succ, Z.pow_succ_r by lia. lia.
Qed.

Lemma bu_cons b bs : be_unsigned (b :: bs) = Z.of_N b * 256 ^ Z.of_nat (length bs) + be_unsigned bs.
Proof.
  unfold be_unsigned. change (fun (a : Z) (b0 : N) => a * 256 + Z.of_N b0) with step.
  cbn [fold_left]. rewrite fold_step_acc. unfold step. lia.
Qed.

Lemma bu_nil : be_unsigned [] = 0.
Proof. reflexivity. Qed.

Lemma bu_app l1 l2 : be_unsigned (l1 ++ l2) = be_unsigned l1 * 256 ^ Z.of_nat (length l2) + be_unsigned l2.
Proof.
  induction l1 as [|b l1 IH]; cbn [app].
  - rewrite bu_nil. lia.
  - rewrite !bu_cons, IH, app_length, Nat2Z.inj_add, Z.pow_add_r by lia. lia.
Qed.

Lemma pow256_pos n : 0 < 256 ^ Z.of_nat n.
Proof. apply Z.pow_pos_nonneg; lia. Qed.

Lemma bu_bound bs : Forall (fun b => (b < 256)%N) bs -> 0 <= be_unsigned bs < 256 ^ Z.of_nat (length bs).
Proof.
  induction 1 as [|b bs Hb Hbs IH]; cbn [length].
  - rewrite bu_nil. change (256 ^ Z.of_nat 0) with 1. lia.
  - rewrite bu_cons, Nat2Z.inj_succ, Z.pow_succ_r by lia.
    pose proof (pow256_pos (length bs)). nia.
Qed.

(* ------------------------------------------------------------------ int64Encoder *)

Lemma int_bytes_n_length n z : length (int_bytes_n n z) = n.
Proof. induction n; simpl; auto. Qed.

Lemma pow2_8 n : 2 ^ (8 * Z.of_nat n) = 256 ^ Z.of_nat n.
Proof. rewrite Z.pow_mul_r by lia. reflexivity. Qed.

Lemma bu_int_bytes : forall n z, be_unsigned (int_bytes_n n z) = z mod 256 ^ Z.of_nat n.
Proof.
  induction n as [|n IH]; intros z.
  - simpl. rewrite bu_nil. now rewrite Z.mod_1_r.
  - cbn [int_bytes_n]. rewrite bu_cons, int_bytes_n_length, IH, pow2_8.
    pose proof (pow256_pos n) as Hp.
    rewrite Z2N.id by (apply Z.mod_pos_bound; lia).
    rewrite Nat2Z.inj_succ, Z.pow_succ_r by lia.
    rewrite (Z.mul_comm 256). rewrite Z.rem_mul_r by lia. lia.
Qed.

(* two's complement: n bytes hold exactly the values of [-2^(8n-1), 2^(8n-1)) *)
Lemma tc_roundtrip : forall n z, (1 <= n)%nat ->
  - (128 * 256 ^ Z.of_nat (n - 1)) <= z < 128 * 256 ^ Z.of_nat (n - 1) ->
  be_signed (int_bytes_n n z) = z.
Proof.
  intros n z Hn Hz. destruct n as [|n]; [lia|].
  replace (S n - 1)%nat with n in Hz by lia.
  pose proof (pow256_pos n) as Hp.
  pose proof (bu_int_bytes (S n) z) as Hbu.
  cbn [int_bytes_n] in Hbu |- *. rewrite pow2_8 in Hbu |- *.
  set (b0 := Z.to_N ((z / 256 ^ Z.of_nat n) mod 256)) in *.
  unfold be_signed. rewrite Hbu. cbn [length]. rewrite int_bytes_n_length.
  rewrite pow2_8. rewrite Nat2Z.inj_succ, Z.pow_succ_r by lia.
  assert (Hq : -128 <= z / 256 ^ Z.of_nat n < 128).
  { split; [apply Z.div_le_lower_bound; lia | apply Z.div_lt_upper_bound; lia]. }
  assert (Hb0 : Z.of_N b0 = (z / 256 ^ Z.of_nat n) mod 256).
  { subst b0. rewrite Z2N.id; [reflexivity | apply Z.mod_pos_bound; lia]. }
  destruct (128 <=? b0)%N eqn:E.
  - apply N.leb_le in E.
    assert (z < 0).
    { destruct (Z_lt_dec z 0); [assumption|]. exfalso.
      assert (0 <= z / 256 ^ Z.of_nat n) by (apply Z.div_pos; lia).
      rewrite Z.mod_small in Hb0 by lia. lia. }
    rewrite <- (Z.mod_add z 1) by lia. rewrite Z.mod_small; lia.
  - apply N.leb_gt in E.
    assert (0 <= z).
    { destruct (Z_lt_dec z 0); [|lia]. exfalso.
      assert (z / 256 ^ Z.of_nat n < 0) by (apply Z.div_lt_upper_bound; lia).
      assert ((z / 256 ^ Z.of_nat n) mod 256 = z / 256 ^ Z.of_nat n + 256).
      { rewrite <- (Z.mod_add _ 1) by lia. rewrite Z.mod_small; lia. }
      lia. }
    rewrite Z.mod_small; lia.
Qed.

(* the strict minimality check accepts an encoding that is not one byte too long *)
Lemma tc_minimal : forall n z, (2 <= n)%nat ->
  - (128 * 256 ^ Z.of_nat (n - 1)) <= z < 128 * 256 ^ Z.of_nat (n - 1) ->
  ~ (- (128 * 256 ^ Z.of_nat (n - 2)) <= z < 128 * 256 ^ Z.of_nat (n - 2)) ->
  check_integer false (int_bytes_n n z) = true.
Proof.
  intros n z Hn Hz Hmin. destruct n as [|[|n]]; try lia.
  replace (S (S n) - 1)%nat with (S n) in Hz by lia.
  replace (S (S n) - 2)%nat with n in Hmin by lia.
  pose proof (pow256_pos n) as Hp.
  rewrite Nat2Z.inj_succ, Z.pow_succ_r in Hz by lia.
  cbn [int_bytes_n check_integer]. rewrite !pow2_8.
  rewrite Nat2Z.inj_succ, Z.pow_succ_r by lia.
  set (P := 256 ^ Z.of_nat n) in *.
  set (w := z / P).
  assert (Hw : z / (256 * P) = w / 256) by (subst w; rewrite (Z.mul_comm 256), Z.div_div by lia; reflexivity).
  rewrite Hw.
  assert (Hwr : -32768 <= w < 32768).
  { subst w. split; [apply Z.div_le_lower_bound; lia | apply Z.div_lt_upper_bound; lia]. }
  assert (Hwm : w < -128 \/ 128 <= w).
  { destruct (Z_lt_dec w (-128)); [now left|]. destruct (Z_le_dec 128 w); [now right|]. exfalso. apply Hmin.
    subst w. split.
    - assert (-128 <= z / P) by lia.
      pose proof (Z.mul_div_le z P ltac:(lia)). nia.
    - assert (z / P < 128) by lia.
      pose proof (Z.mod_pos_bound z P ltac:(lia)). pose proof (Z.div_mod z P ltac:(lia)). nia. }
  set (b0 := Z.to_N ((w / 256) mod 256)). set (b1 := Z.to_N (w mod 256)).
  assert (H0 : Z.of_N b0 = (w / 256) mod 256) by (subst b0; rewrite Z2N.id; [reflexivity | apply Z.mod_pos_bound; lia]).
  assert (H1 : Z.of_N b1 = w mod 256) by (subst b1; rewrite Z2N.id; [reflexivity | apply Z.mod_pos_bound; lia]).
  apply negb_true_iff. apply orb_false_iff. split; apply andb_false_iff.
  - destruct (b0 =? 0)%N eqn:E0; [right|now left]. apply N.eqb_eq in E0. apply N.ltb_ge. lia.
  - destruct (b0 =? 255)%N eqn:E0; [right|now left]. apply N.eqb_eq in E0. apply N.leb_gt. lia.
Qed.

(* int64Encoder.Len: the least n whose range holds z *)
Definition in_range (n : nat) (z : Z) : Prop := - (128 * 256 ^ Z.of_nat (n - 1)) <= z < 128 * 256 ^ Z.of_nat (n - 1).

Lemma int_len_spec : forall z, -9223372036854775808 <= z <= 9223372036854775807 ->
  (1 <= int_len z <= 8)%nat /\ in_range (int_len z) z /\ ((2 <= int_len z)%nat -> ~ in_range (int_len z - 1) z).
Proof.
  intros z Hz. unfold int_len, in_range.
  destruct (0 <=? z) eqn:Es; [apply Z.leb_le in Es | apply Z.leb_gt in Es].
  - cbn [int_len_pos].
    repeat match goal with
           | |- context [if ?c then _ else _] => let E := fresh "E" in destruct c eqn:E;
                 [apply Z.ltb_lt in E | apply Z.ltb_ge in E]
           end; cbn [Nat.sub Z.of_nat Pos.of_succ_nat Pos.succ Z.pow Z.pow_pos Pos.iter Z.mul Pos.mul]; lia.
  - cbn [int_len_neg].
    repeat match goal with
           | |- context [if ?c then _ else _] => let E := fresh "E" in destruct c eqn:E;
                 [apply Z.ltb_lt in E | apply Z.ltb_ge in E]
           end; cbn [Nat.sub Z.of_nat Pos.of_succ_nat Pos.succ Z.pow Z.pow_pos Pos.iter Z.mul Pos.mul]; lia.
Qed.

Theorem int64_roundtrip : forall z, -9223372036854775808 <= z <= 9223372036854775807 ->
  parse_int64 false (int_bytes z) = Some z.
Proof.
  intros z Hz. destruct (int_len_spec z Hz) as (Hn & Hr & Hm).
  unfold parse_int64, int_bytes.
  assert (Hc : check_integer false (int_bytes_n (int_len z) z) = true).
  { destruct (int_len z) as [|[|n]] eqn:En; try lia; [reflexivity|].
    apply tc_minimal; [lia|exact Hr|]. replace (S (S n) - 2)%nat with (S (S n) - 1 - 1)%nat by lia. apply Hm. lia. }
  rewrite Hc, int_bytes_n_length.
  assert (E8 : (8 <? int_len z)%nat = false) by (apply Nat.ltb_ge; lia). rewrite E8.
  now rewrite tc_roundtrip by (try lia; exact Hr).
Qed.

Theorem int32_roundtrip : forall z, -2147483648 <= z <= 2147483647 ->
  parse_int32 false (int_bytes z) = Some z.
Proof.
  intros z Hz. unfold parse_int32.
  assert (H64 : parse_int64 false (int_bytes z) = Some z) by (apply int64_roundtrip; lia).
  assert (Hc : check_integer false (int_bytes z) = true).
  { unfold parse_int64 in H64. destruct (check_integer false (int_bytes z)); [reflexivity|discriminate]. }
  rewrite Hc, H64.
  assert (E : ((-2147483648 <=? z) && (z <=? 2147483647)) = true).
  { apply andb_true_iff. split; apply Z.leb_le; lia. }
  now rewrite E.
Qed.

(* ------------------------------------------------------------------ makeBigInt *)

Lemma nat_bytes_spec : forall f n, (n < 256 ^ N.of_nat f)%N ->
  Forall (fun b => (b < 256)%N) (nat_bytes f n)
  /\ be_unsigned (nat_bytes f n) = Z.of_N n
  /\ (n <> 0%N -> exists b r, nat_bytes f n = b :: r /\ b <> 0%N).
Proof.
  induction f as [|f IH]; intros n Hn.
  - simpl in Hn. assert (n = 0%N) by lia. subst. simpl. repeat split; auto. intros; congruence.
  - cbn [nat_bytes]. destruct (n =? 0)%N eqn:E0.
    + apply N.eqb_eq in E0. subst. repeat split; auto. intros; congruence.
    + apply N.eqb_neq in E0.
      assert (Hq : (n / 256 < 256 ^ N.of_nat f)%N).
      { rewrite Nat2N.inj_succ, N.pow_succ_r' in Hn. apply N.div_lt_upper_bound; lia. }
      destruct (IH _ Hq) as (Hall & Hval & Hlead).
      assert (Hm : (n mod 256 < 256)%N) by (apply N.mod_lt; lia).
      repeat split.
      * apply Forall_app. split; [assumption|]. constructor; [assumption|constructor].
      * rewrite bu_app, Hval. cbn [length]. rewrite bu_cons, bu_nil. cbn [length].
        change (256 ^ Z.of_nat 1) with 256. change (256 ^ Z.of_nat 0) with 1.
        pose proof (N.div_mod n 256 ltac:(lia)). lia.
      * intros _. destruct (N.eq_dec (n / 256) 0) as [Ez|Ez].
        -- assert (nat_bytes f (n / 256) = []) by (rewrite Ez; destruct f; reflexivity).
           rewrite H. exists (n mod 256)%N, []. split; [reflexivity|].
           apply N.div_small_iff in Ez; [|lia]. rewrite N.mod_small by lia. assumption.
        -- destruct (Hlead Ez) as (b & r & Hbr & Hb). rewrite Hbr. exists b, (r ++ [(n mod 256)%N]). split; [reflexivity|assumption].
Qed.

Lemma big_bytes_spec n :
  Forall (fun b => (b < 256)%N) (big_bytes n)
  /\ be_unsigned (big_bytes n) = Z.of_N n
  /\ (n <> 0%N -> exists b r, big_bytes n = b :: r /\ b <> 0%N).
Proof.
  apply nat_bytes_spec.
  pose proof (N.size_gt n) as Hs.
  eapply N.lt_le_trans; [exact Hs|].
  rewrite N2Nat.id || idtac.
  replace (N.of_nat (S (N.to_nat (N.size n)))) with (N.succ (N.size n)) by lia.
  transitivity (2 ^ N.succ (N.size n))%N.
  - apply N.pow_le_mono_r; lia.
  - apply N.pow_le_mono_l. lia.
Qed.

Lemma bu_complement : forall bs, Forall (fun b => (b < 256)%N) bs ->
  be_unsigned (map (fun b => (255 - b)%N) bs) = 256 ^ Z.of_nat (length bs) - 1 - be_unsigned bs.
Proof.
  induction 1 as [|b bs Hb Hbs IH]; cbn [map length].
  - rewrite bu_nil. reflexivity.
  - rewrite !bu_cons, map_length, IH, Nat2Z.inj_succ, Z.pow_succ_r by lia.
    pose proof (pow256_pos (length bs)). rewrite N2Z.inj_sub by lia. nia.
Qed.

Lemma be_signed_cons b bs :
  be_signed (b :: bs) = if (128 <=? b)%N then be_unsigned (b :: bs) - 256 ^ Z.of_nat (S (length bs)) else be_unsigned (b :: bs).
Proof. unfold be_signed. cbn [length]. now rewrite pow2_8. Qed.

Lemma big_bytes_0 : big_bytes 0 = [].
Proof. reflexivity. Qed.

Lemma check_integer_lead b r : (b <> 0)%N -> (b <> 255)%N -> check_integer false (b :: r) = true.
Proof.
  intros H0 H255. destruct r as [|b1 r]; [reflexivity|]. cbn [check_integer].
  apply negb_true_iff. apply orb_false_iff. split; apply andb_false_iff; left; now apply N.eqb_neq.
Qed.

Theorem bigint_roundtrip : forall z, parse_bigint false (make_bigint z) = Some z.
Proof.
  intros z. unfold parse_bigint, make_bigint.
  destruct (z <? 0) eqn:Eneg; [apply Z.ltb_lt in Eneg|apply Z.ltb_ge in Eneg].
  - (* negative: complement of |z|-1 *)
    set (m := Z.to_N (- z - 1)).
    assert (Hm : Z.of_N m = - z - 1) by (subst m; rewrite Z2N.id; lia).
    destruct (big_bytes_spec m) as (Hall & Hval & Hlead).
    destruct (big_bytes m) as [|t r] eqn:Ebb.
    + cbn [map]. rewrite bu_nil in Hval. assert (z = -1) by lia. subst z. reflexivity.
    + assert (Ht : (t <> 0)%N).
      { destruct (N.eq_dec m 0) as [Ez|Ez].
        - rewrite Ez, big_bytes_0 in Ebb. discriminate.
        - destruct (Hlead Ez) as (b & r' & Hbr & Hb). now inversion Hbr; subst. }
      inversion_clear Hall as [|? ? Ht256 Hr].
      pose proof (bu_complement _ Hr) as Hcr.
      pose proof (pow256_pos (length r)) as Hp.
      rewrite bu_cons in Hval.
      cbn [map].
      assert (Hlen : length (map (fun b => (255 - b)%N) r) = length r) by apply map_length.
      set (r' := map (fun b => (255 - b)%N) r) in *.
      assert (Hsub : Z.of_N (255 - t) = 255 - Z.of_N t) by (rewrite N2Z.inj_sub by lia; reflexivity).
      destruct (255 - t <? 128)%N eqn:E; [apply N.ltb_lt in E | apply N.ltb_ge in E].
      * assert (Hck : check_integer false (255%N :: (255 - t)%N :: r') = true).
        { cbn [check_integer]. apply negb_true_iff. apply orb_false_iff. split; apply andb_false_iff.
          - now left.
          - right. now apply N.leb_gt. }
        rewrite Hck. f_equal.
        rewrite be_signed_cons. change (128 <=? 255)%N with true. cbv iota.
        rewrite !bu_cons. cbn [length]. rewrite Hlen, Hcr, Hsub.
        rewrite !Nat2Z.inj_succ, !Z.pow_succ_r by lia. change (Z.of_N 255) with 255. lia.
      * assert (Hck : check_integer false ((255 - t)%N :: r') = true) by (apply check_integer_lead; lia).
        rewrite Hck. f_equal.
        rewrite be_signed_cons.
        assert (E' : (128 <=? 255 - t)%N = true) by now apply N.leb_le. rewrite E'.
        rewrite bu_cons, Hlen, Hcr, Hsub.
        rewrite Nat2Z.inj_succ, Z.pow_succ_r by lia. lia.
  - destruct (z =? 0) eqn:Ez; [apply Z.eqb_eq in Ez; subst; reflexivity | apply Z.eqb_neq in Ez].
    set (m := Z.to_N z).
    assert (Hm : Z.of_N m = z) by (subst m; rewrite Z2N.id; lia).
    assert (Hmz : m <> 0%N) by lia.
    destruct (big_bytes_spec m) as (Hall & Hval & Hlead).
    destruct (Hlead Hmz) as (t & r & Hbr & Ht). rewrite Hbr in *.
    inversion_clear Hall as [|? ? Ht256 Hr].
    destruct (128 <=? t)%N eqn:E; [apply N.leb_le in E | apply N.leb_gt in E].
    + assert (Hck : check_integer false (0%N :: t :: r) = true).
      { cbn [check_integer]. apply negb_true_iff. apply orb_false_iff. split; apply andb_false_iff.
        - right. now apply N.ltb_ge.
        - now left. }
      rewrite Hck. f_equal. rewrite be_signed_cons. change (128 <=? 0)%N with false. cbv iota.
      rewrite bu_cons. change (Z.of_N 0) with 0. lia.
    + assert (Hck : check_integer false (t :: r) = true) by (apply check_integer_lead; lia).
      rewrite Hck. f_equal. rewrite be_signed_cons.
      assert (E' : (128 <=? t)%N = false) by now apply N.leb_gt. rewrite E'. lia.
Qed.
