(* C02Proofs.v — totality of the policies JSON view, canonicity of the name list,
   safety of the parsed-key -> verification dispatch. *)
From Coq Require Import String Ascii.
From Coq Require Import List NArith ZArith Bool Lia Permutation Sorting.Sorted.
From VerifModel Require Import C01Prim C02.
Import ListNotations.

(* ================= (1) certificate policies ================= *)
Definition jpolicy_spec (p : policy) : jpolicy := (p_id p, p_cps p, notices_repaired (p_notices p)).

Lemma idx_map_app {A B} (f : A -> B) pre x rest :
  idx (map f (pre ++ x :: rest)) (length pre) = Ok (f x).
Proof.
  unfold idx. rewrite map_app. rewrite nth_error_app2 by (rewrite map_length; lia).
  rewrite map_length, Nat.sub_diag. reflexivity.
Qed.

Lemma policies_json_from_repaired pre rest :
  policies_json_from true (policies_parse (pre ++ rest)) (map p_id rest) (length pre) = Ok (map jpolicy_spec rest).
Proof.
  revert pre. induction rest as [|p rest IH]; intro pre; [reflexivity|].
  cbn [map policies_json_from]. unfold policies_parse at 1 2. cbn [a_cps a_notices].
  rewrite (idx_map_app p_cps pre p rest). cbn [bind].
  rewrite (idx_map_app p_notices pre p rest). cbn [bind].
  specialize (IH (pre ++ [p])). rewrite <- app_assoc in IH. cbn [app] in IH.
  rewrite app_length in IH. cbn [length] in IH. rewrite Nat.add_1_r in IH.
  rewrite IH. reflexivity.
Qed.

(* the repaired MarshalJSON never panics, for any policies a certificate can contain,
   and each emitted notice carries the reference of its own user notice *)
Theorem policies_json_total ps :
  policies_json true (policies_parse ps) = Ok (map jpolicy_spec ps).
Proof.
  unfold policies_json. change (a_ids (policies_parse ps)) with (map p_id ps).
  exact (policies_json_from_repaired [] ps).
Qed.

(* the code before the repair *)
Lemma idx_ok {A} (l : list A) i : i < length l -> exists x, idx l i = Ok x.
Proof.
  intro H. unfold idx. destruct (nth_error l i) eqn:E; [eauto|].
  apply nth_error_None in E. lia.
Qed.
Lemma idx_panic {A} (l : list A) i : length l <= i -> idx l i = Panic.
Proof. intro H. unfold idx. now rewrite (proj2 (nth_error_None l i) H). Qed.

Lemma unrepaired_no_refs texts nums i : exists r, notices_unrepaired texts [] nums i = Ok r.
Proof.
  revert i. induction texts as [|t rest IH]; intro i; [eexists; reflexivity|].
  cbn [notices_unrepaired bind]. destruct (IH (S i)) as [r ->]. eexists. reflexivity.
Qed.
Lemma unrepaired_enough_refs texts orgs nums i :
  length nums = length orgs -> i + length texts <= length orgs ->
  exists r, notices_unrepaired texts orgs nums i = Ok r.
Proof.
  intro Hn. revert i. induction texts as [|t rest IH]; intros i Hi; [eexists; reflexivity|].
  cbn [length] in Hi. cbn [notices_unrepaired].
  destruct orgs as [|o0 orgs']; [cbn [length] in Hi; lia|].
  destruct (idx_ok (o0 :: orgs') i) as [o ->]; [lia|].
  destruct (idx_ok nums i) as [k ->]; [lia|]. cbn [bind].
  destruct (IH (S i)) as [r ->]; [lia|]. eexists. reflexivity.
Qed.
Lemma unrepaired_too_few_refs texts orgs nums i :
  orgs <> [] -> length nums = length orgs -> i <= length orgs -> length orgs < i + length texts ->
  notices_unrepaired texts orgs nums i = Panic.
Proof.
  intros Hne Hn. revert i. induction texts as [|t rest IH]; intros i Hle Hi; [cbn [length] in Hi; lia|].
  cbn [length] in Hi. cbn [notices_unrepaired].
  destruct orgs as [|o0 orgs']; [congruence|].
  destruct (Nat.eq_dec i (length (o0 :: orgs'))) as [->|Hlt].
  - rewrite idx_panic by lia. reflexivity.
  - destruct (idx_ok (o0 :: orgs') i) as [o ->]; [lia|].
    destruct (idx_ok nums i) as [k ->]; [lia|]. cbn [bind].
    rewrite IH by lia. reflexivity.
Qed.

Lemma orgs_nums_length ns : length (nums_of ns) = length (orgs_of ns).
Proof.
  induction ns as [|n r IH]; [reflexivity|]. unfold nums_of, orgs_of in *. cbn [flat_map].
  destruct (n_ref n) as [[o k]|]; cbn; rewrite ?app_length; cbn; lia.
Qed.

(* exactly when the unrepaired code panicked on a certificate with one policy:
   some, but not all, of the notices with an explicit text ... more precisely
   0 < #references < #explicit texts *)
Theorem policies_json_unrepaired_panics_iff p :
  policies_json false (policies_parse [p]) = Panic <->
  0 < length (orgs_of (p_notices p)) < length (texts_of (p_notices p)).
Proof.
  unfold policies_json, policies_parse. cbn [a_ids map policies_json_from a_cps a_texts a_orgs a_nums idx nth_error bind].
  set (t := texts_of (p_notices p)). set (o := orgs_of (p_notices p)). set (k := nums_of (p_notices p)).
  assert (Hk: length k = length o) by apply orgs_nums_length.
  destruct o as [|o0 o'] eqn:Eo.
  - destruct (unrepaired_no_refs t k 0) as [r ->]. cbn. split; [discriminate|lia].
  - destruct (Nat.le_gt_cases (length t) (length (o0 :: o'))) as [Hle|Hgt].
    + destruct (unrepaired_enough_refs t (o0 :: o') k 0 Hk) as [r ->]; [lia|]. cbn. split; [discriminate|cbn in *; lia].
    + rewrite unrepaired_too_few_refs; [|discriminate|exact Hk|lia|lia]. cbn. split; [cbn in *; lia|reflexivity].
Qed.

(* the reproduced input: two explicit texts, one notice reference *)
Lemma policies_json_unrepaired_witness :
  policies_json false (policies_parse
    [{| p_id := 1; p_cps := []; p_notices := [{| n_text := Some 1%N; n_ref := None |};
                                               {| n_text := Some 2%N; n_ref := Some (7%N, [1%N]) |}] |}]) = Panic.
Proof. reflexivity. Qed.

(* ================= (2) purgeNameDuplicates ================= *)
Definition le (a b : string) : Prop := lex_leb a b = true.

Lemma N_of_ascii_inj x y : N_of_ascii x = N_of_ascii y -> x = y.
Proof. intro H. rewrite <- (ascii_N_embedding x), <- (ascii_N_embedding y). now rewrite H. Qed.

Lemma lex_refl a : le a a.
Proof. unfold le. induction a as [|x a IH]; [reflexivity|]. cbn. now rewrite N.ltb_irrefl. Qed.
Lemma lex_total a b : le a b \/ le b a.
Proof.
  unfold le. revert b. induction a as [|x a IH]; intros [|y b]; cbn; auto.
  destruct (N.ltb_spec (N_of_ascii x) (N_of_ascii y)); [auto|].
  destruct (N.ltb_spec (N_of_ascii y) (N_of_ascii x)); [auto|]. apply IH.
Qed.
Lemma lex_antisym a b : le a b -> le b a -> a = b.
Proof.
  unfold le. revert b. induction a as [|x a IH]; intros [|y b]; cbn; try discriminate; auto.
  destruct (N.ltb_spec (N_of_ascii x) (N_of_ascii y)) as [H1|H1];
    destruct (N.ltb_spec (N_of_ascii y) (N_of_ascii x)) as [H2|H2]; try discriminate; try lia.
  intros Ha Hb. assert (x = y) by (apply N_of_ascii_inj; lia). subst. f_equal. now apply IH.
Qed.
Lemma lex_trans a b c : le a b -> le b c -> le a c.
Proof.
  unfold le. revert b c. induction a as [|x a IH]; intros [|y b] [|z c]; cbn; try discriminate; auto.
  destruct (N.ltb_spec (N_of_ascii x) (N_of_ascii y)) as [H1|H1].
  - intros _. destruct (N.ltb_spec (N_of_ascii y) (N_of_ascii z)) as [H2|H2].
    + intros _. replace (N_of_ascii x <? N_of_ascii z)%N with true; [reflexivity|]. symmetry. apply N.ltb_lt. lia.
    + destruct (N.ltb_spec (N_of_ascii z) (N_of_ascii y)); [discriminate|]. intros _.
      replace (N_of_ascii x <? N_of_ascii z)%N with true; [reflexivity|]. symmetry. apply N.ltb_lt. lia.
  - destruct (N.ltb_spec (N_of_ascii y) (N_of_ascii x)) as [H2|H2]; [discriminate|]. intro Hab.
    destruct (N.ltb_spec (N_of_ascii y) (N_of_ascii z)) as [H3|H3].
    + intros _. replace (N_of_ascii x <? N_of_ascii z)%N with true; [reflexivity|]. symmetry. apply N.ltb_lt. lia.
    + destruct (N.ltb_spec (N_of_ascii z) (N_of_ascii y)) as [H4|H4]; [discriminate|]. intro Hbc.
      replace (N_of_ascii x <? N_of_ascii z)%N with false by (symmetry; apply N.ltb_ge; lia).
      replace (N_of_ascii z <? N_of_ascii x)%N with false by (symmetry; apply N.ltb_ge; lia).
      eapply IH; eauto.
Qed.

Lemma insert_perm x l : Permutation (insert x l) (x :: l).
Proof.
  induction l as [|y r IH]; cbn; [reflexivity|]. destruct (lex_leb x y); [reflexivity|].
  rewrite IH. apply perm_swap.
Qed.
Lemma sort_perm l : Permutation (sort_strings l) l.
Proof. induction l as [|x r IH]; cbn; [reflexivity|]. rewrite insert_perm. now constructor. Qed.

Lemma insert_sorted x l : StronglySorted le l -> StronglySorted le (insert x l).
Proof.
  induction 1 as [|y r Hr IH Hy]; cbn; [repeat constructor|].
  destruct (lex_leb x y) eqn:E.
  - constructor; [constructor; assumption|]. constructor; [exact E|].
    rewrite Forall_forall in *. intros z Hz. eapply lex_trans; [exact E|auto].
  - constructor; [exact IH|]. rewrite Forall_forall in *. intros z Hz.
    apply (Permutation_in _ (insert_perm x r)) in Hz. destruct Hz as [<-|Hz]; [|auto].
    destruct (lex_total x y) as [H|H]; [unfold le in H; congruence|exact H].
Qed.
Lemma sort_sorted l : StronglySorted le (sort_strings l).
Proof. induction l as [|x r IH]; cbn; [constructor|]. now apply insert_sorted. Qed.

(* a sorted list is determined by its elements *)
Lemma sorted_perm_eq l l' : StronglySorted le l -> StronglySorted le l' -> Permutation l l' -> l = l'.
Proof.
  intros Hl. revert l'. induction Hl as [|x r Hr IH Hx]; intros l' Hl' Hp.
  - apply Permutation_nil in Hp. now subst.
  - destruct l' as [|y r']; [apply Permutation_sym, Permutation_nil in Hp; discriminate|].
    inversion Hl' as [|? ? Hr' Hy]; subst.
    assert (x = y) as ->.
    { assert (In x (y :: r')) as Hin by (eapply Permutation_in; [exact Hp|now left]).
      assert (In y (x :: r)) as Hin' by (eapply Permutation_in; [apply Permutation_sym, Hp|now left]).
      rewrite Forall_forall in Hx, Hy.
      destruct Hin as [->|Hin]; [reflexivity|]. destruct Hin' as [->|Hin']; [reflexivity|].
      apply lex_antisym; auto. }
    f_equal. apply IH; [exact Hr'|]. eapply Permutation_cons_inv; exact Hp.
Qed.

Lemma mem_In x l : mem x l = true <-> In x l.
Proof.
  induction l as [|y r IH]; cbn; [split; [discriminate|tauto]|].
  rewrite orb_true_iff, IH. split; intros [H|H]; auto.
  - apply String.eqb_eq in H. now left.
  - left. subst. apply String.eqb_refl.
Qed.
Lemma dedup_spec l seen :
  NoDup (dedup l seen) /\ (forall x, In x (dedup l seen) <-> In x l /\ ~ In x seen).
Proof.
  revert seen. induction l as [|y r IH]; intro seen; cbn.
  - split; [constructor|]. intro x. tauto.
  - destruct (mem y seen) eqn:E.
    + apply mem_In in E. destruct (IH seen) as [Hn Hi]. split; [exact Hn|].
      intro x. rewrite Hi. split; [tauto|]. intros [[->|H] Hs]; [contradiction|tauto].
    + assert (~ In y seen) as Hy by (intro H; apply mem_In in H; congruence).
      destruct (IH (y :: seen)) as [Hn Hi]. split.
      * constructor; [|exact Hn]. rewrite Hi. cbn. tauto.
      * intro x. cbn. rewrite Hi. cbn. split.
        -- intros [<-|[H1 H2]]; [tauto|]. tauto.
        -- intros [[<-|H1] H2]; [now left|]. destruct (string_dec y x) as [->|Hne]; [now left|right; tauto].
Qed.

(* sorted, duplicate-free, same names *)
Theorem purge_canonical names :
  StronglySorted le (purge names) /\ NoDup (purge names) /\ forall x, In x (purge names) <-> In x names.
Proof.
  unfold purge, purge_with. destruct (dedup_spec names []) as [Hn Hi]. repeat split.
  - apply sort_sorted.
  - eapply Permutation_NoDup; [apply Permutation_sym, sort_perm|exact Hn].
  - intro H. apply (Permutation_in _ (sort_perm _)) in H. apply Hi in H. tauto.
  - intro H. apply (Permutation_in _ (Permutation_sym (sort_perm _))). apply Hi. cbn. tauto.
Qed.

(* the order in which the map yields its keys does not matter *)
Theorem purge_map_order_irrelevant (order : list string -> list string) names :
  (forall l, Permutation (order l) l) -> purge_with order names = purge names.
Proof.
  intro Ho. unfold purge, purge_with. apply sorted_perm_eq; try apply sort_sorted.
  rewrite !sort_perm. apply Ho.
Qed.

(* the result is a function of the SET of names *)
Theorem purge_set_function names names' :
  (forall x, In x names <-> In x names') -> purge names = purge names'.
Proof.
  intro H. destruct (purge_canonical names) as (S1 & N1 & I1). destruct (purge_canonical names') as (S2 & N2 & I2).
  apply sorted_perm_eq; auto. apply NoDup_Permutation; auto. intro x. rewrite I1, I2. apply H.
Qed.

(* ================= (3) keys ================= *)
(* every key parsePublicKey (repaired) returns is safe to hand to CheckSignatureFromKey *)
Theorem pk_safe_for_verify perm s k a : parse_pk true perm s = Ok k -> dispatch a k = Ok tt.
Proof.
  destruct s; cbn; intro H.
  - destruct perm; [|destruct (n <=? 0)%Z; [discriminate|destruct (e <=? 0)%Z; [discriminate|]]];
      inversion H; subst; destruct a; reflexivity.
  - discriminate.
  - destruct ((y <=? 0)%Z || (p <=? 0)%Z || (q <=? 0)%Z || (g <=? 0)%Z); [discriminate|].
    inversion H; subst; destruct a; reflexivity.
  - discriminate.
  - destruct (curve_ok && point_ok); [|discriminate]. inversion H; subst; destruct a; reflexivity.
  - destruct (len =? 32)%N eqn:E; [|discriminate]. inversion H; subst. destruct a; cbn; rewrite ?E; reflexivity.
  - destruct (32 <? len)%N; [discriminate|]. inversion H; subst; destruct a; reflexivity.
  - inversion H; subst; destruct a; reflexivity.
Qed.

Theorem self_sig_check_total perm self_issued a s : self_sig_check true perm self_issued a s <> Panic.
Proof.
  unfold self_sig_check. destruct (parse_pk true perm s) as [k| | |] eqn:E; cbn.
  - destruct self_issued; [|discriminate]. now rewrite (pk_safe_for_verify perm s k a E).
  - discriminate.
  - exfalso. destruct s; cbn in E; try discriminate;
      repeat match type of E with context [if ?c then _ else _] => destruct c end; discriminate.
  - discriminate.
Qed.

(* before the repair: a self-issued certificate with a 31-byte Ed25519 key *)
Lemma self_sig_check_unrepaired_panics perm : self_sig_check false perm true AEd (SEd 31) = Panic.
Proof. destruct perm; reflexivity. Qed.
