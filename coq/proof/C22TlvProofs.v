(* Proofs about the DER identifier/length layer (model/C22Tlv.v):
   header round trip, element splitting, OID body round trip, and the
   "a parsed header is a prefix" facts used for raw sub-encodings (C06). *)
From Coq Require Import List NArith Bool Arith Lia ZArith.
From Coq Require Import ZifyN ZifyNat ZifyBool.
From Verif Require Import Harness.
From VerifModel Require Import C22Tlv.
Import ListNotations.
Open Scope N_scope.

Ltac Zify.zify_post_hook ::= Z.to_euclidean_division_equations.

(* ------------------------------------------------------------------ *)
(* base 128 *)

Lemma b128_hi_nil_iff f m : m < 128 ^ N.of_nat f -> (b128_hi f m = [] <-> m = 0).
Proof.
  destruct f as [|f]; cbn [b128_hi]; intros H.
  - change (128 ^ N.of_nat 0) with 1 in H. split; [lia|reflexivity].
  - destruct (N.eqb_spec m 0) as [E|E]; [tauto|].
    split; [|lia]. intros C. apply app_eq_nil in C. destruct C as [_ C]. discriminate.
Qed.

Lemma pow_succ_nat b (f : nat) : b ^ N.of_nat (S f) = b * b ^ N.of_nat f.
Proof. rewrite Nat2N.inj_succ, N.pow_succ_r'. reflexivity. Qed.

Lemma div_lt_pow b (f : nat) m : 0 < b -> m < b ^ N.of_nat (S f) -> m / b < b ^ N.of_nat f.
Proof.
  intros Hb H. rewrite pow_succ_nat in H. apply N.div_lt_upper_bound; lia.
Qed.

Lemma b128_hi_len_bound f : forall m (j : nat),
  m < 128 ^ N.of_nat j -> (length (b128_hi f m) <= j)%nat.
Proof.
  induction f as [|f IH]; intros m j H; cbn [b128_hi]; [simpl; lia|].
  destruct (N.eqb_spec m 0) as [E|E]; [simpl; lia|].
  destruct j as [|j].
  - change (128 ^ N.of_nat 0) with 1 in H. lia.
  - rewrite app_length. cbn [length]. specialize (IH (m / 128) j (div_lt_pow 128 j m ltac:(lia) H)). lia.
Qed.

Lemma pow128_pos k : 0 < 128 ^ k. Proof. apply N.neq_0_lt_0, N.pow_nonzero. lia. Qed.
Lemma pow256_pos k : 0 < 256 ^ k. Proof. apply N.neq_0_lt_0, N.pow_nonzero. lia. Qed.

(* reading the continuation groups of [m] just accumulates them *)
Lemma parse_b128_hi f : forall m k acc tail,
  m < 128 ^ N.of_nat f ->
  (k + length (b128_hi f m) <= 5)%nat ->
  tail <> [] ->
  parse_b128 k acc (b128_hi f m ++ tail) =
  parse_b128 (k + length (b128_hi f m)) (acc * 128 ^ N.of_nat (length (b128_hi f m)) + m) tail.
Proof.
  induction f as [|f IH]; intros m k acc tail Hm Hk Ht.
  - change (128 ^ N.of_nat 0) with 1 in Hm. assert (m = 0) by lia. subst m.
    cbn [b128_hi length app]. rewrite Nat.add_0_r. change (128 ^ N.of_nat 0) with 1.
    f_equal. lia.
  - cbn [b128_hi] in *. destruct (N.eqb_spec m 0) as [E|E].
    + subst m. cbn [length app]. rewrite Nat.add_0_r. change (128 ^ N.of_nat 0) with 1. f_equal. lia.
    + rewrite app_length in *. cbn [length] in *.
      rewrite <- app_assoc. cbn [app].
      pose proof (div_lt_pow 128 f m ltac:(lia) Hm) as Hd.
      rewrite (IH (m / 128) k acc ((128 + m mod 128) :: tail) Hd ltac:(lia) ltac:(discriminate)).
      set (L := length (b128_hi f (m / 128))) in *.
      cbn [parse_b128].
      destruct (Nat.eqb_spec (k + L) 5) as [E5|E5]; [lia|].
      assert (Hb : (Nat.eqb (k + L) 0 && (128 + m mod 128 =? 128)) = false).
      { destruct (Nat.eqb_spec (k + L) 0) as [E0|E0]; [|reflexivity].
        cbn [andb]. assert (L = 0)%nat by lia.
        assert (Hz : m / 128 = 0). { apply (b128_hi_nil_iff f); [exact Hd|]. apply length_zero_iff_nil. exact H. }
        apply N.eqb_neq. lia. }
      rewrite Hb.
      assert (Hlt : (128 + m mod 128 <? 128) = false) by (apply N.ltb_ge; lia).
      rewrite Hlt.
      replace (k + (L + 1))%nat with (S (k + L)) by lia.
      f_equal.
      replace (N.of_nat (L + 1)) with (N.succ (N.of_nat L)) by lia.
      rewrite N.pow_succ_r'.
      replace ((128 + m mod 128) mod 128) with (m mod 128) by lia.
      pose proof (pow128_pos (N.of_nat L)) as Hp.
      set (P := 128 ^ N.of_nat L) in *. clearbody P.
      assert (Hm' : m = 128 * (m / 128) + m mod 128) by (apply N.div_mod'; lia).
      set (q := m / 128) in *. set (r := m mod 128) in *. clearbody q r. nia.
Qed.

Lemma le_max_int32_div n : n <= max_int32 -> n / 128 < 128 ^ N.of_nat 4.
Proof. unfold max_int32. intros H. change (128 ^ N.of_nat 4) with 268435456. lia. Qed.

Lemma pow128_mono (a b : nat) : (a <= b)%nat -> 128 ^ N.of_nat a <= 128 ^ N.of_nat b.
Proof. intros H. apply N.pow_le_mono_r; lia. Qed.

Theorem parse_b128_enc n tail :
  n <= max_int32 -> parse_b128 0 0 (enc_b128 n ++ tail) = Some (n, tail).
Proof.
  intros Hn. unfold enc_b128. rewrite <- app_assoc. cbn [app].
  pose proof (le_max_int32_div n Hn) as Hd.
  pose proof (b128_hi_len_bound 9 (n / 128) 4 Hd) as HL.
  assert (H9 : n / 128 < 128 ^ N.of_nat 9).
  { eapply N.lt_le_trans; [exact Hd|]. apply pow128_mono. lia. }
  rewrite (parse_b128_hi 9 (n / 128) 0 0 (n mod 128 :: tail) H9 ltac:(lia) ltac:(discriminate)).
  set (L := length (b128_hi 9 (n / 128))) in *.
  cbn [parse_b128 Nat.add].
  destruct (Nat.eqb_spec L 5) as [E5|E5]; [lia|].
  assert (Hb : (Nat.eqb L 0 && (n mod 128 =? 128)) = false).
  { apply andb_false_iff. right. apply N.eqb_neq. lia. }
  rewrite Hb.
  assert (Hlt : (n mod 128 <? 128) = true) by (apply N.ltb_lt; lia). rewrite Hlt.
  replace (0 * 128 ^ N.of_nat L + n / 128) with (n / 128) by lia.
  replace (n / 128 * 128 + n mod 128 mod 128) with n by lia.
  assert (Hmx : (max_int32 <? n) = false) by (apply N.ltb_ge; lia). rewrite Hmx. reflexivity.
Qed.

(* same two facts for the OID body scanner *)
Lemma parse_arcs_hi f : forall m k acc tail,
  m < 128 ^ N.of_nat f ->
  (k + length (b128_hi f m) <= 5)%nat ->
  tail <> [] ->
  parse_arcs k acc (b128_hi f m ++ tail) =
  parse_arcs (k + length (b128_hi f m)) (acc * 128 ^ N.of_nat (length (b128_hi f m)) + m) tail.
Proof.
  induction f as [|f IH]; intros m k acc tail Hm Hk Ht.
  - change (128 ^ N.of_nat 0) with 1 in Hm. assert (m = 0) by lia. subst m.
    cbn [b128_hi length app]. rewrite Nat.add_0_r. change (128 ^ N.of_nat 0) with 1.
    f_equal. lia.
  - cbn [b128_hi] in *. destruct (N.eqb_spec m 0) as [E|E].
    + subst m. cbn [length app]. rewrite Nat.add_0_r. change (128 ^ N.of_nat 0) with 1. f_equal. lia.
    + rewrite app_length in *. cbn [length] in *.
      rewrite <- app_assoc. cbn [app].
      pose proof (div_lt_pow 128 f m ltac:(lia) Hm) as Hd.
      rewrite (IH (m / 128) k acc ((128 + m mod 128) :: tail) Hd ltac:(lia) ltac:(discriminate)).
      set (L := length (b128_hi f (m / 128))) in *.
      cbn [parse_arcs].
      destruct (Nat.eqb_spec (k + L) 5) as [E5|E5]; [lia|].
      assert (Hb : (Nat.eqb (k + L) 0 && (128 + m mod 128 =? 128)) = false).
      { destruct (Nat.eqb_spec (k + L) 0) as [E0|E0]; [|reflexivity].
        cbn [andb]. assert (L = 0)%nat by lia.
        assert (Hz : m / 128 = 0). { apply (b128_hi_nil_iff f); [exact Hd|]. apply length_zero_iff_nil. exact H. }
        apply N.eqb_neq. lia. }
      rewrite Hb.
      assert (Hlt : (128 + m mod 128 <? 128) = false) by (apply N.ltb_ge; lia).
      rewrite Hlt.
      replace (k + (L + 1))%nat with (S (k + L)) by lia.
      f_equal.
      replace (N.of_nat (L + 1)) with (N.succ (N.of_nat L)) by lia.
      rewrite N.pow_succ_r'.
      replace ((128 + m mod 128) mod 128) with (m mod 128) by lia.
      pose proof (pow128_pos (N.of_nat L)) as Hp.
      set (P := 128 ^ N.of_nat L) in *. clearbody P.
      assert (Hm' : m = 128 * (m / 128) + m mod 128) by (apply N.div_mod'; lia).
      set (q := m / 128) in *. set (r := m mod 128) in *. clearbody q r. nia.
Qed.

Lemma parse_arcs_enc n tail :
  n <= max_int32 ->
  parse_arcs 0 0 (enc_b128 n ++ tail) =
  match parse_arcs 0 0 tail with Some l => Some (n :: l) | None => None end.
Proof.
  intros Hn. unfold enc_b128. rewrite <- app_assoc. cbn [app].
  pose proof (le_max_int32_div n Hn) as Hd.
  pose proof (b128_hi_len_bound 9 (n / 128) 4 Hd) as HL.
  assert (H9 : n / 128 < 128 ^ N.of_nat 9).
  { eapply N.lt_le_trans; [exact Hd|]. apply pow128_mono. lia. }
  rewrite (parse_arcs_hi 9 (n / 128) 0 0 (n mod 128 :: tail) H9 ltac:(lia) ltac:(discriminate)).
  set (L := length (b128_hi 9 (n / 128))) in *.
  cbn [parse_arcs Nat.add].
  destruct (Nat.eqb_spec L 5) as [E5|E5]; [lia|].
  assert (Hb : (Nat.eqb L 0 && (n mod 128 =? 128)) = false).
  { apply andb_false_iff. right. apply N.eqb_neq. lia. }
  rewrite Hb.
  assert (Hlt : (n mod 128 <? 128) = true) by (apply N.ltb_lt; lia). rewrite Hlt.
  replace (0 * 128 ^ N.of_nat L + n / 128) with (n / 128) by lia.
  replace (n / 128 * 128 + n mod 128 mod 128) with n by lia.
  assert (Hmx : (max_int32 <? n) = false) by (apply N.ltb_ge; lia). rewrite Hmx. reflexivity.
Qed.

Theorem parse_arcs_concat vs :
  Forall (fun v => v <= max_int32) vs ->
  parse_arcs 0 0 (concat (map enc_b128 vs)) = Some vs.
Proof.
  induction vs as [|v vs IH]; intros H; [reflexivity|].
  inversion H as [|? ? Hv Hvs]; subst. cbn [map concat].
  rewrite parse_arcs_enc by exact Hv. rewrite (IH Hvs). reflexivity.
Qed.

(* well-formed OIDs: what makeObjectIdentifier accepts and parseObjectIdentifier can return *)
Definition wf_oid (o : oid) : Prop :=
  match o with
  | a :: b :: rest =>
      a <= 2 /\ (a < 2 -> b < 40) /\ a * 40 + b <= max_int32 /\
      Forall (fun v => v <= max_int32) rest
  | _ => False
  end.

Theorem parse_oid_enc o :
  wf_oid o -> exists bs, enc_oid o = Some bs /\ parse_oid bs = Some o /\ bs <> [].
Proof.
  destruct o as [|a [|b rest]]; cbn [wf_oid]; try tauto.
  intros (Ha & Hb & Hab & Hr).
  unfold enc_oid.
  assert (Hc : ((2 <? a) || ((a <? 2) && (40 <=? b))) = false).
  { apply orb_false_iff. split; [apply N.ltb_ge; lia|].
    destruct (N.ltb_spec a 2) as [L|L]; cbn [andb]; [|reflexivity]. apply N.leb_gt. auto. }
  rewrite Hc. eexists. split; [reflexivity|]. split.
  - unfold parse_oid. rewrite parse_arcs_concat by (constructor; assumption).
    destruct (N.ltb_spec (a * 40 + b) 80) as [L|L].
    + assert (a < 2) by lia. specialize (Hb H).
      f_equal. f_equal; [|f_equal]; lia.
    + assert (a = 2) by lia. subst a. f_equal. f_equal. f_equal. lia.
  - cbn [map concat]. unfold enc_b128. intros C. apply app_eq_nil in C. destruct C as [C _].
    apply app_eq_nil in C. destruct C as [_ C]. discriminate.
Qed.

(* ------------------------------------------------------------------ *)
(* lengths *)

Lemma be_hi_len_le f : forall m, (length (be_hi f m) <= f)%nat.
Proof.
  induction f as [|f IH]; intros m; cbn [be_hi]; [simpl; lia|].
  destruct (m =? 0); [simpl; lia|]. rewrite app_length. cbn [length]. specialize (IH (m / 256)). lia.
Qed.

Lemma parse_len_be_hi f : forall m j acc tail,
  m < 256 ^ N.of_nat f ->
  acc * 256 ^ N.of_nat (length (be_hi f m)) + m < 2147483648 ->
  parse_len_bytes (length (be_hi f m) + j) acc (be_hi f m ++ tail) =
  parse_len_bytes j (acc * 256 ^ N.of_nat (length (be_hi f m)) + m) tail.
Proof.
  induction f as [|f IH]; intros m j acc tail Hm Hb.
  - change (256 ^ N.of_nat 0) with 1 in Hm. assert (m = 0) by lia. subst m.
    cbn [be_hi length app Nat.add]. change (256 ^ N.of_nat 0) with 1. f_equal. lia.
  - cbn [be_hi] in *. destruct (N.eqb_spec m 0) as [E|E].
    + subst m. cbn [length app Nat.add]. change (256 ^ N.of_nat 0) with 1. f_equal. lia.
    + rewrite app_length in *. cbn [length] in *. rewrite <- app_assoc. cbn [app].
      pose proof (div_lt_pow 256 f m ltac:(lia) Hm) as Hd.
      specialize (IH (m / 256) (S j) acc (m mod 256 :: tail) Hd).
      remember (length (be_hi f (m / 256))) as L eqn:EL.
      replace (L + 1 + j)%nat with (L + S j)%nat by lia.
      replace (N.of_nat (L + 1)) with (N.succ (N.of_nat L)) in * by lia.
      rewrite N.pow_succ_r' in *.
      pose proof (pow256_pos (N.of_nat L)) as Hp.
      assert (Hm' : m = 256 * (m / 256) + m mod 256) by (apply N.div_mod'; lia).
      assert (Hr : m mod 256 < 256) by (apply N.mod_lt; lia).
      remember (256 ^ N.of_nat L) as P eqn:EP.
      remember (m / 256) as q eqn:Eq. remember (m mod 256) as r eqn:Er.
      assert (Hsmall : acc * P + q < 8388608) by nia.
      rewrite IH by lia.
      cbn [parse_len_bytes].
      assert (H1 : (8388608 <=? acc * P + q) = false) by (apply N.leb_gt; exact Hsmall).
      rewrite H1.
      assert (Heq : (acc * P + q) * 256 + r = acc * (256 * P) + m) by nia.
      rewrite Heq.
      assert (H2 : (acc * (256 * P) + m =? 0) = false) by (apply N.eqb_neq; lia).
      rewrite H2. reflexivity.
Qed.

Definition len_ok (n : N) : Prop := n < 2147483648.

Lemma parse_len_enc n tail cls comp tag :
  len_ok n ->
  match enc_len n ++ tail with
  | [] => None
  | lb :: r2 =>
      if lb <? 128 then Some (mkTl cls comp tag lb, r2)
      else
        let nb := lb mod 128 in
        if nb =? 0 then None
        else match parse_len_bytes (N.to_nat nb) 0 r2 with
             | None => None
             | Some (len, r3) => if len <? 128 then None else Some (mkTl cls comp tag len, r3)
             end
  end = Some (mkTl cls comp tag n, tail).
Proof.
  unfold len_ok. intros Hn. unfold enc_len.
  destruct (N.leb_spec 128 n) as [Hge|Hlt].
  - cbn [app]. unfold be_bytes.
    pose proof (be_hi_len_le 8 (n / 256)) as HL.
    remember (length (be_hi 8 (n / 256))) as L eqn:EL.
    rewrite app_length. cbn [length]. rewrite <- EL.
    assert (H1 : (128 + N.of_nat (L + 1) <? 128) = false) by (apply N.ltb_ge; lia). rewrite H1.
    cbv zeta.
    replace ((128 + N.of_nat (L + 1)) mod 128) with (N.of_nat (L + 1)) by lia.
    assert (H2 : (N.of_nat (L + 1) =? 0) = false) by (apply N.eqb_neq; lia). rewrite H2.
    rewrite Nat2N.id. rewrite <- app_assoc. cbn [app].
    assert (Hd : n / 256 < 256 ^ N.of_nat 8). { change (256 ^ N.of_nat 8) with 18446744073709551616. lia. }
    assert (Hq : n / 256 < 8388608) by lia.
    pose proof (parse_len_be_hi 8 (n / 256) 1 0 (n mod 256 :: tail) Hd) as HB.
    rewrite <- EL in HB. rewrite HB by lia.
    cbn [parse_len_bytes].
    replace (0 * 256 ^ N.of_nat L + n / 256) with (n / 256) by lia.
    assert (H3 : (8388608 <=? n / 256) = false) by (apply N.leb_gt; exact Hq). rewrite H3.
    replace (n / 256 * 256 + n mod 256) with n by lia.
    assert (H4 : (n =? 0) = false) by (apply N.eqb_neq; lia). rewrite H4.
    assert (H5 : (n <? 128) = false) by (apply N.ltb_ge; lia). rewrite H5. reflexivity.
  - cbn [app]. assert (H1 : (n <? 128) = true) by (apply N.ltb_lt; lia). rewrite H1. reflexivity.
Qed.

Definition wf_tl (t : tl) : Prop :=
  t_class t < 4 /\ t_tag t <= max_int32 /\ len_ok (t_len t).

Theorem parse_tl_enc t tail : wf_tl t -> parse_tl (enc_tl t ++ tail) = Some (t, tail).
Proof.
  destruct t as [cls comp tag len]. unfold wf_tl. cbn [t_class t_tag t_len t_comp].
  intros (Hc & Ht & Hl). unfold enc_tl. cbn [t_class t_tag t_len t_comp].
  set (cb := if comp then 32 else 0).
  assert (Hcb : cb = 0 \/ cb = 32) by (destruct comp; auto).
  destruct (N.leb_spec 31 tag) as [Hbig|Hsmall].
  - rewrite <- app_assoc. cbn [app]. unfold parse_tl.
    replace ((cls * 64 + cb + 31) / 64) with cls by lia.
    replace ((cls * 64 + cb + 31) mod 32) with 31 by lia.
    replace (32 <=? (cls * 64 + cb + 31) mod 64) with comp.
    2:{ destruct comp; subst cb; symmetry; [apply N.leb_le|apply N.leb_gt]; lia. }
    cbn [N.eqb Pos.eqb].
    rewrite parse_b128_enc by exact Ht.
    assert (H1 : (tag <? 31) = false) by (apply N.ltb_ge; lia). rewrite H1.
    apply parse_len_enc. exact Hl.
  - cbn [app]. unfold parse_tl.
    replace ((cls * 64 + cb + tag) / 64) with cls by lia.
    replace ((cls * 64 + cb + tag) mod 32) with tag by lia.
    replace (32 <=? (cls * 64 + cb + tag) mod 64) with comp.
    2:{ destruct comp; subst cb; symmetry; [apply N.leb_le|apply N.leb_gt]; lia. }
    assert (H1 : (tag =? 31) = false) by (apply N.eqb_neq; lia). rewrite H1.
    apply parse_len_enc. exact Hl.
Qed.

(* ------------------------------------------------------------------ *)
(* elements *)

Theorem take_tlv_tlv cls comp tag content tail :
  cls < 4 -> tag <= max_int32 -> len_ok (N.of_nat (length content)) ->
  take_tlv (tlv cls comp tag content ++ tail) =
  Some (mkTl cls comp tag (N.of_nat (length content)), content, tail).
Proof.
  intros Hc Ht Hl. unfold take_tlv, tlv. rewrite <- app_assoc.
  rewrite parse_tl_enc by (repeat split; assumption).
  cbn [t_len]. rewrite app_length.
  assert (H : (N.of_nat (length content + length tail) <? N.of_nat (length content)) = false)
    by (apply N.ltb_ge; lia).
  rewrite H. rewrite Nat2N.id.
  rewrite firstn_app, Nat.sub_diag, firstn_all. cbn [firstn]. rewrite app_nil_r.
  rewrite skipn_app, Nat.sub_diag, skipn_all. reflexivity.
Qed.

Lemma tlv_not_nil cls comp tag content : tlv cls comp tag content <> [].
Proof.
  unfold tlv, enc_tl. cbn [t_tag]. destruct (31 <=? tag); cbn [app]; discriminate.
Qed.

(* a list of encoded elements splits back into its (header, content) pairs *)
Definition elem := (N * bool * N * bytes)%type.    (* class, compound, tag, content *)
Definition enc_elem (e : elem) : bytes := let '(c, k, t, b) := e in tlv c k t b.
Definition hdr_elem (e : elem) : tl * bytes :=
  let '(c, k, t, b) := e in (mkTl c k t (N.of_nat (length b)), b).
Definition wf_elem (e : elem) : Prop :=
  let '(c, k, t, b) := e in c < 4 /\ t <= max_int32 /\ len_ok (N.of_nat (length b)).

Theorem split_tlvs_concat es : forall fuel,
  Forall wf_elem es ->
  (length (concat (map enc_elem es)) <= fuel)%nat ->
  split_tlvs fuel (concat (map enc_elem es)) = Some (map hdr_elem es).
Proof.
  induction es as [|e es IH]; intros fuel Hwf Hf.
  - destruct fuel; reflexivity.
  - inversion Hwf as [|? ? He Hes]; subst. cbn [map concat] in *.
    destruct e as [[[c k] t] b]. cbn [enc_elem hdr_elem] in *. destruct He as (Hc & Ht & Hl).
    remember (tlv c k t b ++ concat (map enc_elem es)) as bs eqn:Ebs.
    destruct bs as [|x bs'].
    { symmetry in Ebs. apply app_eq_nil in Ebs. destruct Ebs as [C _]. exfalso. exact (tlv_not_nil _ _ _ _ C). }
    destruct fuel as [|fuel]; [simpl in Hf; lia|].
    cbn [split_tlvs]. rewrite Ebs. rewrite take_tlv_tlv by assumption.
    rewrite IH; [reflexivity|assumption|].
    assert (length (x :: bs') = length (tlv c k t b ++ concat (map enc_elem es))) by (rewrite Ebs; reflexivity).
    rewrite app_length in H. cbn [length] in H, Hf.
    assert (0 < length (tlv c k t b))%nat.
    { destruct (tlv c k t b) eqn:E; [exfalso; exact (tlv_not_nil _ _ _ _ E)|simpl; lia]. }
    lia.
Qed.

(* ------------------------------------------------------------------ *)
(* parsing only ever consumes a prefix (used for raw sub-encodings) *)

Lemma parse_b128_suffix : forall bs k acc v r,
  parse_b128 k acc bs = Some (v, r) -> exists h, bs = h ++ r /\ h <> [].
Proof.
  induction bs as [|b bs IH]; intros k acc v r H; cbn [parse_b128] in H; [discriminate|].
  destruct (Nat.eqb k 5); [discriminate|].
  destruct (Nat.eqb k 0 && (b =? 128)); [discriminate|].
  destruct (b <? 128).
  - destruct (max_int32 <? acc * 128 + b mod 128); [discriminate|].
    inversion H; subst. exists [b]. split; [reflexivity|discriminate].
  - apply IH in H. destruct H as (h & -> & _). exists (b :: h). split; [reflexivity|discriminate].
Qed.

Lemma parse_len_bytes_suffix : forall n bs acc v r,
  parse_len_bytes n acc bs = Some (v, r) -> exists h, bs = h ++ r /\ length h = n.
Proof.
  induction n as [|n IH]; intros bs acc v r H; cbn [parse_len_bytes] in H.
  - inversion H; subst. exists []. split; reflexivity.
  - destruct bs as [|b bs]; [discriminate|].
    destruct (8388608 <=? acc); [discriminate|].
    destruct (acc * 256 + b =? 0); [discriminate|].
    apply IH in H. destruct H as (h & -> & Hl). exists (b :: h). split; [reflexivity|simpl; lia].
Qed.

Theorem parse_tl_suffix bs t r :
  parse_tl bs = Some (t, r) -> exists h, bs = h ++ r /\ (2 <= length h)%nat.
Proof.
  unfold parse_tl. destruct bs as [|b bs]; [discriminate|].
  intros H.
  set (tagr := if b mod 32 =? 31 then _ else _) in H.
  assert (Htag : forall tag r1, tagr = Some (tag, r1) -> exists h1, bs = h1 ++ r1).
  { subst tagr. intros tag r1. destruct (b mod 32 =? 31).
    - destruct (parse_b128 0 0 bs) as [[t0 r0]|] eqn:E; [|discriminate].
      destruct (t0 <? 31); [discriminate|]. intros X; inversion X; subst.
      apply parse_b128_suffix in E. destruct E as (h & -> & _). exists h. reflexivity.
    - intros X; inversion X; subst. exists []. reflexivity. }
  destruct tagr as [[tag r1]|]; [|discriminate].
  destruct (Htag tag r1 eq_refl) as (h1 & ->).
  destruct r1 as [|lb r2]; [discriminate|].
  destruct (lb <? 128).
  - inversion H; subst. exists (b :: h1 ++ [lb]). split.
    + cbn [app]. rewrite <- app_assoc. reflexivity.
    + cbn [length]. rewrite app_length. simpl. lia.
  - destruct (lb mod 128 =? 0); [discriminate|].
    destruct (parse_len_bytes (N.to_nat (lb mod 128)) 0 r2) as [[len r3]|] eqn:E; [|discriminate].
    destruct (len <? 128); [discriminate|]. inversion H; subst.
    apply parse_len_bytes_suffix in E. destruct E as (h2 & -> & _).
    exists (b :: h1 ++ lb :: h2). split.
    + cbn [app]. rewrite <- app_assoc. reflexivity.
    + cbn [length]. rewrite app_length. simpl. lia.
Qed.

(* an element is header ++ content ++ rest, and re-parsing header ++ content
   alone (the raw slice) yields the same header and content *)
Theorem take_tlv_split bs t c rest :
  take_tlv bs = Some (t, c, rest) ->
  exists h, bs = h ++ c ++ rest /\ (2 <= length h)%nat /\ N.of_nat (length c) = t_len t.
Proof.
  unfold take_tlv. destruct (parse_tl bs) as [[t0 r]|] eqn:E; [|discriminate].
  destruct (N.ltb_spec (N.of_nat (length r)) (t_len t0)) as [L|L]; [discriminate|].
  intros H; inversion H; subst. apply parse_tl_suffix in E. destruct E as (h & -> & Hh).
  exists h. rewrite firstn_skipn. split; [reflexivity|]. split; [exact Hh|].
  rewrite firstn_length. lia.
Qed.

Lemma raw_prefix_app h c rest :
  raw_prefix (h ++ c ++ rest) rest = h ++ c.
Proof.
  unfold raw_prefix. rewrite !app_length.
  replace (length h + (length c + length rest) - length rest)%nat with (length (h ++ c))
    by (rewrite app_length; lia).
  rewrite app_assoc. rewrite firstn_app, Nat.sub_diag, firstn_all. cbn [firstn]. apply app_nil_r.
Qed.

(* ------------------------------------------------------------------ *)
(* a header parse depends only on the bytes it consumed *)

Lemma parse_b128_prefix : forall bs k acc v r,
  parse_b128 k acc bs = Some (v, r) ->
  exists h, bs = h ++ r /\ h <> [] /\ forall r', parse_b128 k acc (h ++ r') = Some (v, r').
Proof.
  induction bs as [|b bs IH]; intros k acc v r H; cbn [parse_b128] in H; [discriminate|].
  destruct (Nat.eqb k 5) eqn:E5; [discriminate|].
  destruct (Nat.eqb k 0 && (b =? 128)) eqn:E0; [discriminate|].
  destruct (b <? 128) eqn:Eb.
  - destruct (max_int32 <? acc * 128 + b mod 128) eqn:Em; [discriminate|].
    inversion H; subst. exists [b]. split; [reflexivity|]. split; [discriminate|].
    intros r'. cbn [app parse_b128]. rewrite E5, E0, Eb, Em. reflexivity.
  - apply IH in H. destruct H as (h & -> & _ & Hh). exists (b :: h). split; [reflexivity|]. split; [discriminate|].
    intros r'. cbn [app parse_b128]. rewrite E5, E0, Eb. apply Hh.
Qed.

Lemma parse_len_bytes_prefix : forall n bs acc v r,
  parse_len_bytes n acc bs = Some (v, r) ->
  exists h, bs = h ++ r /\ length h = n /\ forall r', parse_len_bytes n acc (h ++ r') = Some (v, r').
Proof.
  induction n as [|n IH]; intros bs acc v r H; cbn [parse_len_bytes] in H.
  - inversion H; subst. exists []. split; [reflexivity|]. split; [reflexivity|]. intros r'. reflexivity.
  - destruct bs as [|b bs]; [discriminate|].
    destruct (8388608 <=? acc) eqn:E1; [discriminate|].
    destruct (acc * 256 + b =? 0) eqn:E2; [discriminate|].
    apply IH in H. destruct H as (h & -> & Hl & Hh). exists (b :: h). split; [reflexivity|].
    split; [simpl; lia|]. intros r'. cbn [app parse_len_bytes]. rewrite E1, E2. apply Hh.
Qed.

Theorem parse_tl_prefix bs t r :
  parse_tl bs = Some (t, r) ->
  exists h, bs = h ++ r /\ (2 <= length h)%nat /\ forall r', parse_tl (h ++ r') = Some (t, r').
Proof.
  unfold parse_tl. destruct bs as [|b bs]; [discriminate|].
  destruct (b mod 32 =? 31) eqn:E31.
  - destruct (parse_b128 0 0 bs) as [[t0 r0]|] eqn:E; [|discriminate].
    destruct (t0 <? 31) eqn:Et0; [discriminate|].
    apply parse_b128_prefix in E. destruct E as (h1 & -> & _ & Hh1).
    destruct r0 as [|lb r2]; [discriminate|].
    destruct (lb <? 128) eqn:Elb.
    + intros H; inversion H; subst. exists (b :: h1 ++ [lb]). split.
      { cbn [app]. rewrite <- app_assoc. reflexivity. }
      split. { cbn [length]. rewrite app_length. simpl. lia. }
      intros r'. cbn [app]. rewrite E31. rewrite <- app_assoc. rewrite Hh1, Et0. cbn [app]. rewrite Elb. reflexivity.
    + destruct (lb mod 128 =? 0) eqn:Enb; [discriminate|].
      destruct (parse_len_bytes (N.to_nat (lb mod 128)) 0 r2) as [[len r3]|] eqn:El; [|discriminate].
      destruct (len <? 128) eqn:E128; [discriminate|]. intros H; inversion H; subst.
      apply parse_len_bytes_prefix in El. destruct El as (h2 & -> & _ & Hh2).
      exists (b :: h1 ++ lb :: h2). split.
      { cbn [app]. rewrite <- app_assoc. reflexivity. }
      split. { cbn [length]. rewrite app_length. simpl. lia. }
      intros r'. cbn [app]. rewrite E31. rewrite <- app_assoc. rewrite Hh1, Et0. cbn [app].
      rewrite Elb, Enb, Hh2, E128. reflexivity.
  - destruct bs as [|lb r2]; [discriminate|].
    destruct (lb <? 128) eqn:Elb.
    + intros H; inversion H; subst. exists [b; lb]. split; [reflexivity|]. split; [simpl; lia|].
      intros r'. cbn [app]. rewrite E31, Elb. reflexivity.
    + destruct (lb mod 128 =? 0) eqn:Enb; [discriminate|].
      destruct (parse_len_bytes (N.to_nat (lb mod 128)) 0 r2) as [[len r3]|] eqn:El; [|discriminate].
      destruct (len <? 128) eqn:E128; [discriminate|]. intros H; inversion H; subst.
      apply parse_len_bytes_prefix in El. destruct El as (h2 & -> & _ & Hh2).
      exists (b :: lb :: h2). split; [reflexivity|]. split; [simpl; lia|].
      intros r'. cbn [app]. rewrite E31, Elb, Enb, Hh2, E128. reflexivity.
Qed.

(* an element is header ++ content ++ rest, and the same header and content are
   read whatever follows (in particular from the raw slice alone) *)
Theorem take_tlv_raw bs t c rest :
  take_tlv bs = Some (t, c, rest) ->
  exists h, bs = h ++ c ++ rest /\ (2 <= length h)%nat /\ N.of_nat (length c) = t_len t /\
            forall rest', take_tlv (h ++ c ++ rest') = Some (t, c, rest').
Proof.
  unfold take_tlv. destruct (parse_tl bs) as [[t0 r]|] eqn:E; [|discriminate].
  destruct (N.ltb_spec (N.of_nat (length r)) (t_len t0)) as [L|L]; [discriminate|].
  intros H; inversion H; subst. apply parse_tl_prefix in E. destruct E as (h & -> & Hh & Hp).
  exists h. rewrite firstn_skipn. split; [reflexivity|]. split; [exact Hh|].
  assert (Hlen : length (firstn (N.to_nat (t_len t)) r) = N.to_nat (t_len t)) by (rewrite firstn_length; lia).
  split; [lia|].
  intros rest'. rewrite Hp. rewrite app_length.
  assert (Hc : (N.of_nat (length (firstn (N.to_nat (t_len t)) r) + length rest') <? t_len t) = false)
    by (apply N.ltb_ge; lia).
  rewrite Hc. rewrite <- Hlen at 1 3.
  rewrite firstn_app, Nat.sub_diag, firstn_all. cbn [firstn]. rewrite app_nil_r.
  rewrite skipn_app, Nat.sub_diag, skipn_all. reflexivity.
Qed.
