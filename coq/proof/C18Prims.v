(* C18Prims — BIT STRING, OBJECT IDENTIFIER, string and time bodies: the strict
   decoders invert the encoders on the documented domain. *)
From Coq Require Import List NArith ZArith Bool Arith Lia.
From Verif Require Import Harness.
From VerifModel Require Import C20 C18.
From VerifProof Require Import C18Header.
Import ListNotations.
Open Scope N_scope.

Ltac Zify.zify_post_hook ::= Z.div_mod_to_equations.

(* lia does not see N.div / N.modulo: pose the defining facts for every occurrence with a literal divisor *)
Ltac ndm_one a b :=
  lazymatch goal with
  | _ : a = b * (a / b) + a mod b |- _ => fail
  | _ => pose proof (N.div_mod a b ltac:(lia)); pose proof (N.mod_lt a b ltac:(lia))
  end.
Ltac ndm :=
  repeat match goal with
         | |- context [N.modulo ?a ?b] => ndm_one a b
         | |- context [N.div ?a ?b] => ndm_one a b
         | H : context [N.modulo ?a ?b] |- _ => ndm_one a b
         | H : context [N.div ?a ?b] |- _ => ndm_one a b
         end.
Ltac nlia := ndm; lia.

(* ------------------------------------------------------------------ BIT STRING *)

(* BitLength >= 0, exactly ceil(BitLength/8) bytes, unused bits zero *)
Definition bits_ok (bs : bytes) (n : Z) : Prop :=
  (0 <= n)%Z /\ Z.of_nat (length bs) = ((n + 7) / 8)%Z
  /\ N.land (last bs 0) (2 ^ Z.to_N ((8 - n mod 8) mod 8)%Z - 1) = 0.

Theorem bits_roundtrip : forall bs n, bits_ok bs n ->
  parse_bitstring (make_bits bs n) = Some (VBits bs n).
Proof.
  intros bs n (Hn & Hlen & Hpad). unfold make_bits, parse_bitstring.
  set (pad := Z.to_N ((8 - n mod 8) mod 8)%Z) in *.
  assert (Hp : Z.of_N pad = ((8 - n mod 8) mod 8)%Z) by (subst pad; rewrite Z2N.id; [reflexivity|apply Z.mod_pos_bound; lia]).
  assert (Hp8 : pad < 8) by lia.
  assert (E7 : (7 <? pad) = false) by (apply N.ltb_ge; lia). rewrite E7. cbn [orb].
  assert (Elast : N.land (last (pad :: bs) 0) (2 ^ pad - 1) = 0).
  { destruct bs as [|b bs']; [|exact Hpad].
    cbn [last length] in *. assert (pad = 0) by lia. subst pad. rewrite H. reflexivity. }
  rewrite Elast. cbn [N.eqb negb orb].
  assert (E0 : ((length bs =? 0)%nat && (0 <? pad)) = false).
  { destruct bs as [|b bs']; [|reflexivity]. cbn [length] in *. cbn [Nat.eqb andb].
    apply N.ltb_ge. lia. }
  rewrite E0. cbn [orb]. f_equal. f_equal. lia.
Qed.

(* ------------------------------------------------------------------ OBJECT IDENTIFIER *)

Lemma append_base128_nonempty n : append_base128 n <> [].
Proof. unfold append_base128. destruct (hi128 10 (n / 128)); discriminate. Qed.

Lemma oid_rest_roundtrip : forall arcs fuel,
  Forall (fun a => a <= 2147483647) arcs ->
  (length (flat_map append_base128 arcs) <= fuel)%nat ->
  oid_rest fuel (flat_map append_base128 arcs) = Some arcs.
Proof.
  induction arcs as [|a r IH]; intros fuel Hall Hf.
  - destruct fuel; reflexivity.
  - inversion_clear Hall as [|? ? Ha Hr]. cbn [flat_map] in *.
    pose proof (append_base128_nonempty a) as Hne.
    destruct (append_base128 a) as [|b0 t0] eqn:Ea; [congruence|].
    rewrite app_length in Hf. cbn [length] in Hf.
    destruct fuel as [|fuel]; [lia|].
    cbn [app oid_rest].
    change (b0 :: t0 ++ flat_map append_base128 r) with ((b0 :: t0) ++ flat_map append_base128 r).
    rewrite <- Ea. rewrite base128_roundtrip by assumption.
    rewrite IH; [reflexivity|assumption|lia].
Qed.

Definition oid_ok (arcs : list N) : Prop :=
  match arcs with
  | a0 :: a1 :: r => a0 <= 2 /\ (a0 < 2 -> a1 < 40) /\ a0 * 40 + a1 <= 2147483647
                     /\ Forall (fun a => a <= 2147483647) r
  | _ => False
  end.

Theorem oid_roundtrip : forall arcs bs, oid_ok arcs -> make_oid arcs = Some bs -> parse_oid bs = Some arcs.
Proof.
  intros arcs bs Hok Hm. destruct arcs as [|a0 [|a1 r]]; try contradiction.
  destruct Hok as (H0 & H1 & Hv & Hr). unfold make_oid in Hm.
  destruct ((2 <? a0) || ((a0 <? 2) && (40 <=? a1))) eqn:E; [discriminate|].
  injection Hm as <-.
  unfold parse_oid.
  pose proof (append_base128_nonempty (a0 * 40 + a1)) as Hne.
  destruct (append_base128 (a0 * 40 + a1)) as [|b0 t0] eqn:Ea; [congruence|].
  cbn [app].
  change (b0 :: t0 ++ flat_map append_base128 r) with ((b0 :: t0) ++ flat_map append_base128 r).
  rewrite <- Ea. rewrite base128_roundtrip by assumption.
  rewrite oid_rest_roundtrip by (try assumption; lia).
  destruct (a0 * 40 + a1 <? 80) eqn:E80; [apply N.ltb_lt in E80 | apply N.ltb_ge in E80].
  - assert (a0 < 2) by lia. specialize (H1 H).
    f_equal. f_equal; [|f_equal].
    + symmetry. apply (N.div_unique _ 40 _ a1); lia.
    + symmetry. apply (N.mod_unique _ 40 a0); lia.
  - assert (a0 = 2).
    { destruct (N.lt_ge_cases a0 2) as [Hlt|Hge]; [|lia]. specialize (H1 Hlt). lia. }
    subst a0. f_equal. f_equal. f_equal. lia.
Qed.

(* ------------------------------------------------------------------ strings *)

Lemma forallb_impl {A} (f g : A -> bool) l :
  (forall x, f x = true -> g x = true) -> forallb f l = true -> forallb g l = true.
Proof. intros H. induction l as [|x l IH]; simpl; auto. intros E. apply andb_prop in E as [E1 E2]. now rewrite (H _ E1), IH. Qed.

Lemma is_printable_mono b a1 a2 : is_printable b a1 a2 = true -> is_printable b true true = true.
Proof.
  unfold is_printable. intros H.
  repeat (apply orb_prop in H as [H|H]); repeat (try (rewrite H; repeat rewrite orb_true_r; reflexivity)).
  - apply andb_prop in H as [_ H]. rewrite H. cbn [andb]. repeat rewrite orb_true_r. reflexivity.
  - apply andb_prop in H as [_ H]. rewrite H. cbn [andb]. repeat rewrite orb_true_r. reflexivity.
Qed.

(* the string encoder's acceptance implies the strict decoder's, for the type the encoder was asked for *)
Theorem string_roundtrip : forall st s bs,
  (st = TagIA5String \/ st = TagPrintableString \/ st = TagNumericString \/ (st = TagUTF8String /\ utf8_valid s = true)) ->
  make_string st s = Some bs -> bs = s /\ parse_string false st s = Some s.
Proof.
  intros st s bs Hst Hm.
  destruct Hst as [->|[->|[->|[-> Hu]]]].
  - change (make_string TagIA5String s) with (if forallb (fun b => b <=? 127) s then Some s else None) in Hm.
    change (parse_string false TagIA5String s) with (parse_ia5 false s).
    destruct (forallb (fun b => b <=? 127) s) eqn:E; [|discriminate]. injection Hm as <-. split; [reflexivity|].
    assert (Hi : forall x : N, (x <=? 127) = true -> (x <? 128) = true) by (intros x Hx; apply N.leb_le in Hx; apply N.ltb_lt; lia).
    unfold parse_ia5. rewrite (forallb_impl _ (fun b => b <? 128) _ Hi E). reflexivity.
  - change (make_string TagPrintableString s) with (if forallb (fun b => is_printable b true false) s then Some s else None) in Hm.
    change (parse_string false TagPrintableString s) with (parse_printable false s).
    destruct (forallb (fun b => is_printable b true false) s) eqn:E; [|discriminate]. injection Hm as <-. split; [reflexivity|].
    assert (Hi : forall x : N, is_printable x true false = true -> is_printable x true true = true) by (intros x Hx; now apply is_printable_mono in Hx).
    unfold parse_printable. rewrite (forallb_impl _ (fun b => is_printable b true true) _ Hi E). reflexivity.
  - change (make_string TagNumericString s) with (if forallb is_numeric s then Some s else None) in Hm.
    change (parse_string false TagNumericString s) with (parse_numeric false s).
    destruct (forallb is_numeric s) eqn:E; [|discriminate]. injection Hm as <-. split; [reflexivity|].
    unfold parse_numeric. now rewrite E.
  - change (make_string TagUTF8String s) with (Some s) in Hm.
    change (parse_string false TagUTF8String s) with (parse_utf8 false s).
    injection Hm as <-. split; [reflexivity|]. unfold parse_utf8. now rewrite Hu.
Qed.

(* a string without a string-type parameter: PrintableString if every byte is in the encoder's printable set,
   UTF8String otherwise (Marshal rejects invalid UTF-8) *)
Theorem untyped_string_roundtrip : forall s tag,
  (if forallb (fun b => (b <? 128) && is_printable b false false) s then Some TagPrintableString
   else if utf8_valid s then Some TagUTF8String else None) = Some tag ->
  parse_string false tag s = Some s.
Proof.
  intros s tag H. destruct (forallb (fun b => (b <? 128) && is_printable b false false) s) eqn:E.
  - inversion H; subst tag. change (parse_string false TagPrintableString s) with (parse_printable false s).
    unfold parse_printable.
    assert (Hi : forall x : N, (x <? 128) && is_printable x false false = true -> is_printable x true true = true)
      by (intros x Hx; apply andb_prop in Hx as [_ Hx]; now apply is_printable_mono in Hx).
    rewrite (forallb_impl _ (fun b => is_printable b true true) _ Hi E). reflexivity.
  - destruct (utf8_valid s) eqn:Eu; [|discriminate]. inversion H; subst tag.
    change (parse_string false TagUTF8String s) with (parse_utf8 false s).
    unfold parse_utf8. now rewrite Eu.
Qed.

(* ------------------------------------------------------------------ times *)

Lemma fmt2_getnum fixed x r : x < 100 -> getnum fixed (fmt2 x ++ r) = Some (x, r).
Proof.
  intros Hx. unfold fmt2, getnum. cbn [app].
  assert (Ha : is_digit (48 + (x / 10) mod 10) = true).
  { unfold is_digit. apply andb_true_iff. split; [apply N.leb_le | apply N.leb_le]; nlia. }
  assert (Hb : is_digit (48 + x mod 10) = true).
  { unfold is_digit. apply andb_true_iff. split; [apply N.leb_le | apply N.leb_le]; nlia. }
  rewrite Ha, Hb. f_equal. f_equal. nlia.
Qed.

Lemma fmt4_long_year y r : y < 10000 -> long_year (fmt4 y ++ r) = Some (Z.of_N y, r).
Proof.
  intros Hy. unfold fmt4, long_year. cbn [app].
  assert (Hd : forall v, is_digit (48 + v mod 10) = true).
  { intros v. unfold is_digit. apply andb_true_iff. split; apply N.leb_le; nlia. }
  rewrite !Hd. cbn [andb]. f_equal. f_equal. f_equal. nlia.
Qed.

Lemma fmt2_not_zone_start x r : zone (fmt2 x ++ 90 :: r) = None \/ True.
Proof. now right. Qed.

(* the documented time domain: a valid civil date and clock, zone offset in whole minutes within +-24:59 *)
Definition time_ok (t : timev) : Prop :=
  (0 <= yr t <= 9999)%Z /\ 1 <= mo t <= 12 /\ 1 <= dy t <= days_in (mo t) (yr t)
  /\ hh t < 24 /\ mi t < 60 /\ ss t < 60
  /\ (off t mod 60 = 0)%Z /\ (- 89940 <= off t <= 89940)%Z.

Definition trunc_time (t : timev) : timev :=
  {| yr := yr t; mo := mo t; dy := dy t; hh := hh t; mi := mi t; ss := ss t; ns := 0; off := off t |}.

(* what appendTimeCommon writes after the seconds *)
Definition zone_bytes (o : Z) : bytes :=
  let om := Z.quot o 60 in
  if (om =? 0)%Z then [90]
  else (if (0 <? o)%Z then [43] else [45]) ++ (let m := Z.to_N (Z.abs om) in fmt2 (m / 60) ++ fmt2 (m mod 60)).

Lemma zone_roundtrip o : (o mod 60 = 0)%Z -> (- 89940 <= o <= 89940)%Z -> zone (zone_bytes o) = Some (o, []).
Proof.
  intros Hm Hr. unfold zone_bytes.
  assert (Hq : (Z.quot o 60 * 60 = o)%Z).
  { pose proof (Z.quot_rem' o 60). assert (Z.rem o 60 = 0)%Z; [|lia].
    apply Z.rem_divide; [lia|]. apply Z.mod_divide; [lia|assumption]. }
  destruct (Z.quot o 60 =? 0)%Z eqn:E0; [apply Z.eqb_eq in E0 | apply Z.eqb_neq in E0].
  - assert (o = 0)%Z by lia. subst. reflexivity.
  - set (m := Z.to_N (Z.abs (Z.quot o 60))).
    assert (Hmz : Z.of_N m = Z.abs (Z.quot o 60)) by (subst m; rewrite Z2N.id; lia).
    assert (Hmb : m <= 1499) by lia.
    assert (H1 : m / 60 < 100) by nlia.
    assert (H2 : m mod 60 < 100) by (pose proof (N.mod_lt m 60); lia).
    unfold zone.
    destruct (0 <? o)%Z eqn:Ep; [apply Z.ltb_lt in Ep | apply Z.ltb_ge in Ep]; cbn [app].
    + unfold fmt2 at 1 2. cbn [app].
      change [48 + (m / 60 / 10) mod 10; 48 + (m / 60) mod 10] with (fmt2 (m / 60) ++ []).
      change [48 + (m mod 60 / 10) mod 10; 48 + (m mod 60) mod 10] with (fmt2 (m mod 60) ++ []).
      rewrite !fmt2_getnum by assumption.
      assert (E24 : (24 <? m / 60) = false) by (apply N.ltb_ge; nlia).
      assert (E60 : (60 <? m mod 60) = false) by (apply N.ltb_ge; pose proof (N.mod_lt m 60); lia).
      rewrite E24, E60. cbn [orb N.eqb Pos.eqb]. f_equal. f_equal.
      pose proof (N.div_mod m 60). lia.
    + unfold fmt2 at 1 2. cbn [app].
      change [48 + (m / 60 / 10) mod 10; 48 + (m / 60) mod 10] with (fmt2 (m / 60) ++ []).
      change [48 + (m mod 60 / 10) mod 10; 48 + (m mod 60) mod 10] with (fmt2 (m mod 60) ++ []).
      rewrite !fmt2_getnum by assumption.
      assert (E24 : (24 <? m / 60) = false) by (apply N.ltb_ge; nlia).
      assert (E60 : (60 <? m mod 60) = false) by (apply N.ltb_ge; pose proof (N.mod_lt m 60); lia).
      rewrite E24, E60. cbn [orb N.eqb Pos.eqb]. f_equal. f_equal.
      pose proof (N.div_mod m 60). lia.
Qed.

Lemma zone_bytes_head o : exists b r, zone_bytes o = b :: r /\ (b = 90 \/ b = 43 \/ b = 45).
Proof.
  unfold zone_bytes. destruct (Z.quot o 60 =? 0)%Z; [exists 90, []; auto|].
  destruct (0 <? o)%Z; cbn [app]; eexists; eexists; split; try reflexivity; auto.
Qed.

Lemma time_common_eq t : time_common t = fmt2 (mo t) ++ fmt2 (dy t) ++ fmt2 (hh t) ++ fmt2 (mi t) ++ fmt2 (ss t) ++ zone_bytes (off t).
Proof. reflexivity. Qed.

Lemma opt_fraction_zone o : opt_fraction (zone_bytes o) = (0, zone_bytes o).
Proof.
  destruct (zone_bytes_head o) as (b & r & E & Hb). rewrite E. unfold opt_fraction.
  destruct r as [|d r']; [reflexivity|].
  assert (Ec : ((b =? 46) || (b =? 44)) = false) by (destruct Hb as [->|[->| ->]]; reflexivity).
  rewrite Ec. reflexivity.
Qed.

(* time.Parse of what the encoder writes after the year *)
Lemma parse_after_year : forall t y,
  time_ok t -> (days_in (mo t) y = days_in (mo t) (yr t)) ->
  forall (longyear : bool) yearbytes,
  (if longyear then long_year (yearbytes ++ time_common t) else short_year (yearbytes ++ time_common t))
    = Some (y, time_common t) ->
  time_parse longyear true (yearbytes ++ time_common t)
  = Some {| yr := y; mo := mo t; dy := dy t; hh := hh t; mi := mi t; ss := ss t; ns := 0; off := off t |}.
Proof.
  intros t y (Hy & Hmo & Hdy & Hh & Hmi & Hs & Hom & Hor) Hdays longyear yb Hyear.
  unfold time_parse. rewrite Hyear. rewrite time_common_eq.
  pose proof (days_in_le31 := I).
  assert (Hd31 : days_in (mo t) (yr t) <= 31).
  { unfold days_in. destruct (mo t =? 2); [destruct (is_leap (yr t)); lia|].
    destruct ((mo t =? 4) || (mo t =? 6) || (mo t =? 9) || (mo t =? 11)); lia. }
  rewrite fmt2_getnum by lia.
  assert (E1 : ((mo t =? 0) || (12 <? mo t)) = false).
  { apply orb_false_iff. split; [apply N.eqb_neq | apply N.ltb_ge]; lia. }
  rewrite E1. rewrite fmt2_getnum by lia. rewrite fmt2_getnum by lia.
  assert (E2 : (24 <=? hh t) = false) by (apply N.leb_gt; lia). rewrite E2.
  rewrite fmt2_getnum by lia.
  assert (E3 : (60 <=? mi t) = false) by (apply N.leb_gt; lia). rewrite E3.
  rewrite fmt2_getnum by lia.
  assert (E4 : (60 <=? ss t) = false) by (apply N.leb_gt; lia). rewrite E4.
  rewrite opt_fraction_zone. rewrite zone_roundtrip by assumption.
  assert (E5 : ((dy t <? 1) || (days_in (mo t) y <? dy t)) = false).
  { rewrite Hdays. apply orb_false_iff. split; apply N.ltb_ge; lia. }
  now rewrite E5.
Qed.

(* Time.Format of the parsed time gives the input back *)
Lemma format_after_year t y (longyear : bool) :
  time_ok t ->
  time_format longyear true {| yr := y; mo := mo t; dy := dy t; hh := hh t; mi := mi t; ss := ss t; ns := 0; off := off t |}
  = (if longyear then fmt4 (Z.to_N y) else fmt2 (Z.to_N (y mod 100)%Z)) ++ time_common t.
Proof.
  intros (Hy & Hmo & Hdy & Hh & Hmi & Hs & Hom & Hor).
  unfold time_format. cbn [yr mo dy hh mi ss off]. rewrite time_common_eq.
  repeat (f_equal; try reflexivity).
  unfold zone_bytes.
  assert (Hq : (Z.quot (off t) 60 * 60 = off t)%Z).
  { pose proof (Z.quot_rem' (off t) 60). assert (Z.rem (off t) 60 = 0)%Z; [|lia].
    apply Z.rem_divide; [lia|]. apply Z.mod_divide; [lia|assumption]. }
  destruct (off t =? 0)%Z eqn:E0; [apply Z.eqb_eq in E0 | apply Z.eqb_neq in E0].
  - rewrite E0. reflexivity.
  - assert (E1 : (Z.quot (off t) 60 =? 0)%Z = false) by (apply Z.eqb_neq; lia). rewrite E1.
    assert (Eabs : (Z.abs (off t) / 60 = Z.abs (Z.quot (off t) 60))%Z).
    { rewrite <- Hq at 1. rewrite Z.abs_mul. change (Z.abs 60) with 60%Z. rewrite Z.div_mul by lia. reflexivity. }
    rewrite Eabs.
    destruct (off t <? 0)%Z eqn:En; destruct (0 <? off t)%Z eqn:Ep; try reflexivity;
      [apply Z.ltb_lt in En; apply Z.ltb_lt in Ep; lia | apply Z.ltb_ge in En; apply Z.ltb_ge in Ep; lia].
Qed.

Theorem gentime_roundtrip : forall t bs, time_ok t -> make_gentime t = Some bs ->
  parse_gentime false bs = Some (trunc_time t).
Proof.
  intros t bs Hok Hm. pose proof Hok as (Hy & _).
  unfold make_gentime in Hm.
  destruct ((yr t <? 0)%Z || (9999 <? yr t)%Z); [discriminate|].
  assert (Hbs : bs = fmt4 (Z.to_N (yr t)) ++ time_common t) by congruence. subst bs. clear Hm.
  unfold parse_gentime.
  assert (Hyl : long_year (fmt4 (Z.to_N (yr t)) ++ time_common t) = Some (yr t, time_common t)).
  { rewrite fmt4_long_year by lia. rewrite Z2N.id by lia. reflexivity. }
  rewrite (parse_after_year t (yr t) Hok eq_refl true _ Hyl).
  unfold reserial_ok. rewrite (format_after_year t (yr t) true Hok).
  unfold bytes_eqb. rewrite list_eqb_refl by apply N.eqb_refl.
  unfold trunc_time. reflexivity.
Qed.

Lemma fmt2_short_year d r : d < 100 ->
  short_year (fmt2 d ++ r) = Some ((if (69 <=? Z.of_N d)%Z then Z.of_N d + 1900 else Z.of_N d + 2000)%Z, r).
Proof.
  intros Hd. unfold fmt2, short_year. cbn [app].
  assert (Ha : is_digit (48 + (d / 10) mod 10) = true) by (unfold is_digit; apply andb_true_iff; split; apply N.leb_le; nlia).
  assert (Hb : is_digit (48 + d mod 10) = true) by (unfold is_digit; apply andb_true_iff; split; apply N.leb_le; nlia).
  rewrite Ha, Hb. cbn [andb].
  replace ((48 + (d / 10) mod 10 - 48) * 10 + (48 + d mod 10 - 48)) with d by nlia. reflexivity.
Qed.

(* zone, with the literal match on 'Z' written as a test *)
Lemma zone_unfold sg x :
  zone (sg :: x) =
  if sg =? 90 then Some (0%Z, x)
  else match x with
       | h1 :: h2 :: m1 :: m2 :: r =>
           match getnum true [h1; h2], getnum true [m1; m2] with
           | Some (hr, _), Some (mm, _) =>
               if (24 <? hr) || (60 <? mm) then None
               else let o := Z.of_N ((hr * 60 + mm) * 60) in
                    if sg =? 43 then Some (o, r) else if sg =? 45 then Some ((- o)%Z, r) else None
           | _, _ => None
           end
       | _ => None
       end.
Proof.
  destruct sg as [|p]; [destruct x as [|? [|? [|? [|? ?]]]]; reflexivity|].
  do 7 (destruct p as [p|p|]; try (destruct x as [|? [|? [|? [|? ?]]]]; reflexivity)).
Qed.

(* the layout without seconds does not match an encoding that has them *)
Lemma no_seconds_layout_fails t yb y :
  time_ok t -> short_year (yb ++ time_common t) = Some (y, time_common t) ->
  time_parse false false (yb ++ time_common t) = None.
Proof.
  intros (Hy & Hmo & Hdy & Hh & Hmi & Hs & Hom & Hor) Hyear.
  unfold time_parse. rewrite Hyear. rewrite time_common_eq.
  assert (Hd31 : days_in (mo t) (yr t) <= 31).
  { unfold days_in. destruct (mo t =? 2); [destruct (is_leap (yr t)); lia|].
    destruct ((mo t =? 4) || (mo t =? 6) || (mo t =? 9) || (mo t =? 11)); lia. }
  rewrite fmt2_getnum by lia.
  assert (E1 : ((mo t =? 0) || (12 <? mo t)) = false).
  { apply orb_false_iff. split; [apply N.eqb_neq | apply N.ltb_ge]; lia. }
  rewrite E1. rewrite fmt2_getnum by lia. rewrite fmt2_getnum by lia.
  assert (E2 : (24 <=? hh t) = false) by (apply N.leb_gt; lia). rewrite E2.
  rewrite fmt2_getnum by lia.
  assert (E3 : (60 <=? mi t) = false) by (apply N.leb_gt; lia). rewrite E3.
  (* the zone parser meets the two digits of the seconds *)
  assert (Hz : zone (fmt2 (ss t) ++ zone_bytes (off t)) = None).
  { destruct (zone_bytes_head (off t)) as (b & r & E & Hb). rewrite E. unfold fmt2. cbn [app].
    rewrite zone_unfold.
    assert (Hd1 : (48 + (ss t / 10) mod 10 =? 90) = false) by (apply N.eqb_neq; nlia).
    rewrite Hd1.
    destruct r as [|r1 [|r2 r3]]; try reflexivity.
    assert (Hg : getnum true [48 + ss t mod 10; b] = None).
    { unfold getnum. destruct (is_digit (48 + ss t mod 10)); [|reflexivity].
      assert (Hnb : is_digit b = false) by (destruct Hb as [->|[->| ->]]; reflexivity). now rewrite Hnb. }
    now rewrite Hg. }
  rewrite Hz. reflexivity.
Qed.

Theorem utctime_roundtrip : forall t bs, time_ok t -> make_utctime t = Some bs ->
  parse_utctime false bs = Some (trunc_time t).
Proof.
  intros t bs Hok Hm. unfold make_utctime in Hm.
  destruct ((1950 <=? yr t)%Z && (yr t <? 2000)%Z) eqn:E1.
  - apply andb_prop in E1 as [Ea Eb]. apply Z.leb_le in Ea. apply Z.ltb_lt in Eb.
    assert (Hbs : bs = fmt2 (Z.to_N (yr t - 1900)) ++ time_common t) by congruence. subst bs. clear Hm.
    set (d := Z.to_N (yr t - 1900)).
    assert (Hd : Z.of_N d = (yr t - 1900)%Z) by (subst d; rewrite Z2N.id; lia).
    assert (Hd100 : d < 100) by lia.
    set (y := (if (69 <=? Z.of_N d)%Z then Z.of_N d + 1900 else Z.of_N d + 2000)%Z).
    assert (Hys : short_year (fmt2 d ++ time_common t) = Some (y, time_common t)) by apply fmt2_short_year, Hd100.
    assert (Hleap : days_in (mo t) y = days_in (mo t) (yr t)).
    { subst y. destruct (69 <=? Z.of_N d)%Z eqn:E69; [f_equal; lia|].
      apply Z.leb_gt in E69. unfold days_in. destruct (mo t =? 2); [|reflexivity].
      replace (Z.of_N d + 2000)%Z with (yr t + 100)%Z by lia.
      unfold is_leap.
      assert (((yr t + 100) mod 4 =? 0) = (yr t mod 4 =? 0))%Z.
      { replace (yr t + 100)%Z with (yr t + 25 * 4)%Z by lia. now rewrite Z.mod_add by lia. }
      rewrite H.
      assert (E100a : ((yr t + 100) mod 100 =? 0)%Z = (yr t mod 100 =? 0)%Z).
      { replace (yr t + 100)%Z with (yr t + 1 * 100)%Z by lia. now rewrite Z.mod_add by lia. }
      rewrite E100a.
      (* 1950..1968 and 2050..2068: no multiple of 100 *)
      assert ((yr t mod 100 =? 0)%Z = false) by (apply Z.eqb_neq; lia).
      rewrite H0. cbn [negb orb]. reflexivity. }
    unfold parse_utctime.
    rewrite (no_seconds_layout_fails t _ y Hok Hys).
    rewrite (parse_after_year t y Hok Hleap false _ Hys).
    unfold reserial_ok. rewrite (format_after_year t y false Hok).
    assert (Hmod : Z.to_N (y mod 100)%Z = d).
    { subst y. destruct (69 <=? Z.of_N d)%Z; lia. }
    rewrite Hmod. unfold bytes_eqb. rewrite list_eqb_refl by apply N.eqb_refl.
    cbn [yr]. unfold trunc_time. subst y.
    destruct (69 <=? Z.of_N d)%Z eqn:E69; [apply Z.leb_le in E69 | apply Z.leb_gt in E69].
    + assert (E2050 : (2050 <=? Z.of_N d + 1900)%Z = false) by (apply Z.leb_gt; lia). rewrite E2050.
      f_equal. f_equal. lia.
    + assert (E2050 : (2050 <=? Z.of_N d + 2000)%Z = true) by (apply Z.leb_le; lia). rewrite E2050.
      cbn [yr mo dy hh mi ss ns off]. f_equal. f_equal. lia.
  - destruct ((2000 <=? yr t)%Z && (yr t <? 2050)%Z) eqn:E2; [|discriminate].
    apply andb_prop in E2 as [Ea Eb]. apply Z.leb_le in Ea. apply Z.ltb_lt in Eb.
    assert (Hbs : bs = fmt2 (Z.to_N (yr t - 2000)) ++ time_common t) by congruence. subst bs. clear Hm.
    set (d := Z.to_N (yr t - 2000)).
    assert (Hd : Z.of_N d = (yr t - 2000)%Z) by (subst d; rewrite Z2N.id; lia).
    assert (Hd100 : d < 100) by lia.
    assert (E69 : (69 <=? Z.of_N d)%Z = false) by (apply Z.leb_gt; lia).
    assert (Hys : short_year (fmt2 d ++ time_common t) = Some (yr t, time_common t)).
    { rewrite fmt2_short_year by assumption. rewrite E69. f_equal. f_equal. lia. }
    unfold parse_utctime.
    rewrite (no_seconds_layout_fails t _ (yr t) Hok Hys).
    rewrite (parse_after_year t (yr t) Hok eq_refl false _ Hys).
    unfold reserial_ok. rewrite (format_after_year t (yr t) false Hok).
    assert (Hmod : Z.to_N (yr t mod 100)%Z = d) by lia.
    rewrite Hmod. unfold bytes_eqb. rewrite list_eqb_refl by apply N.eqb_refl.
    cbn [yr]. assert (E2050 : (2050 <=? yr t)%Z = false) by (apply Z.leb_gt; lia). rewrite E2050.
    reflexivity.
Qed.
