(* Proofs about the C22 model (model/C22.v). *)
From Coq Require Import List NArith Bool Arith Lia Permutation Sorted.
From Verif Require Import Harness.
From VerifModel Require Import C22Tlv C22.
From VerifProof Require Import C22TlvProofs.
Import ListNotations.
Open Scope N_scope.

(* ================================================================== *)
(* A. FillFromRDNSequence *)

Lemma oid_eqb_eq a b : oid_eqb a b = true -> a = b.
Proof. apply list_eqb_eq. intros x y; apply N.eqb_eq. Qed.
Lemma oid_eqb_refl a : oid_eqb a a = true.
Proof. apply list_eqb_refl. intros x; apply N.eqb_refl. Qed.
Lemma oid_eqb_neq a b : a <> b -> oid_eqb a b = false.
Proof. intros H. destruct (oid_eqb a b) eqn:E; [|reflexivity]. apply oid_eqb_eq in E. contradiction. Qed.

Lemma classify_rest_sound t f : classify_rest t = Some f -> t = oid_of f.
Proof.
  unfold classify_rest.
  repeat match goal with
  | |- (if oid_eqb t ?c then _ else _) = _ -> _ =>
      let E := fresh "E" in destruct (oid_eqb t c) eqn:E;
      [apply oid_eqb_eq in E; intros X; inversion X; subst; reflexivity|]
  end.
  discriminate.
Qed.

Lemma classify_x520_sound d f : classify_x520 d = Some f -> [2; 5; 4; d] = oid_of f.
Proof.
  unfold classify_x520.
  repeat match goal with
  | |- (if d =? ?c then _ else _) = _ -> _ =>
      let E := fresh "E" in destruct (N.eqb_spec d c) as [E|E];
      [intros X; inversion X; subst; reflexivity|]
  end.
  discriminate.
Qed.

Lemma classify_sound t f : classify t = Some f -> t = oid_of f.
Proof.
  unfold classify.
  destruct t as [|a [|b [|c [|d [|e t]]]]]; try apply classify_rest_sound.
  destruct ((a =? 2) && (b =? 5) && (c =? 4)) eqn:E; [|apply classify_rest_sound].
  apply andb_prop in E. destruct E as [E E3]. apply andb_prop in E. destruct E as [E1 E2].
  apply N.eqb_eq in E1, E2, E3. subst. apply classify_x520_sound.
Qed.

Lemma classify_complete f : classify (oid_of f) = Some f.
Proof. destruct f; reflexivity. Qed.

Lemma oid_of_inj f f' : oid_of f = oid_of f' -> f = f'.
Proof.
  intros H. assert (E : classify (oid_of f) = classify (oid_of f')) by (rewrite H; reflexivity).
  rewrite !classify_complete in E. inversion E. reflexivity.
Qed.

Lemma lf_eq_dec (f f' : lf) : {f = f'} + {f <> f'}.
Proof. decide equality. Qed.

Lemma get_upd_same f g n : get f (upd f g n) = g (get f n).
Proof. destruct f; reflexivity. Qed.
Lemma get_upd_other f f' g n : f <> f' -> get f (upd f' g n) = get f n.
Proof. intros H. destruct f, f'; try reflexivity; contradiction. Qed.
Lemma get_set_names f v n : get f (set_names v n) = get f n.
Proof. destruct f; reflexivity. Qed.
Lemma get_set_original f v n : get f (set_original v n) = get f n.
Proof. destruct f; reflexivity. Qed.

(* the scalar assignments after the append do not touch the list fields *)
Definition post (f' : lf) (v : bytes) (x : name) : name :=
  match f' with
  | LCommonNames => set_common_name v x
  | LSerialNumbers => set_serial_number v x
  | _ => x
  end.
Lemma fill_atv_str n t v :
  fill_atv n (t, VStr v) =
  match classify t with
  | Some f => post f v (upd f (snoc v) (set_names (snoc (t, VStr v) (names n)) n))
  | None => set_names (snoc (t, VStr v) (names n)) n
  end.
Proof. unfold fill_atv. cbn [fst snd]. destruct (classify t) as [f|]; [destruct f|]; reflexivity. Qed.
Lemma get_post f f' v x : get f (post f' v x) = get f x.
Proof. destruct f'; destruct f; reflexivity. Qed.

Lemma strs_of_cons o a r : strs_of o (a :: r) = strs_of o [a] ++ strs_of o r.
Proof. unfold strs_of. cbn [flat_map]. rewrite app_nil_r. reflexivity. Qed.
Lemma strs_of_one_str o t v : strs_of o [(t, VStr v)] = if oid_eqb t o then [v] else [].
Proof. unfold strs_of. cbn [flat_map fst snd]. apply app_nil_r. Qed.
Lemma strs_of_one_other o t c k tg b : strs_of o [(t, VOther c k tg b)] = [].
Proof. reflexivity. Qed.

Lemma fill_atv_get f n a : get f (fill_atv n a) = get f n ++ strs_of (oid_of f) [a].
Proof.
  destruct a as [t [v|c k tg b]].
  - rewrite fill_atv_str, strs_of_one_str. destruct (classify t) as [f'|] eqn:C.
    + apply classify_sound in C. subst t. rewrite get_post.
      destruct (lf_eq_dec f f') as [->|Hne].
      * rewrite get_upd_same, get_set_names, oid_eqb_refl. reflexivity.
      * rewrite get_upd_other by exact Hne. rewrite get_set_names.
        rewrite oid_eqb_neq; [symmetry; apply app_nil_r|].
        intros E. apply oid_of_inj in E. congruence.
    + rewrite get_set_names.
      destruct (oid_eqb t (oid_of f)) eqn:E; [|symmetry; apply app_nil_r].
      apply oid_eqb_eq in E. subst t. rewrite classify_complete in C. discriminate.
  - unfold fill_atv. cbn [snd]. rewrite get_set_names, strs_of_one_other. symmetry; apply app_nil_r.
Qed.

Lemma fold_fill_atv_get f r : forall n,
  get f (fold_left fill_atv r n) = get f n ++ strs_of (oid_of f) r.
Proof.
  induction r as [|a r IH]; intros n; cbn [fold_left].
  - symmetry; apply app_nil_r.
  - rewrite IH, fill_atv_get, (strs_of_cons _ a r), app_assoc. reflexivity.
Qed.

Lemma fold_fill_get f l : forall n,
  get f (fold_left (fun n r => fold_left fill_atv r n) l n) = get f n ++ vals_of (oid_of f) l.
Proof.
  induction l as [|r l IH]; intros n; cbn [fold_left].
  - symmetry; apply app_nil_r.
  - rewrite IH, fold_fill_atv_get. unfold vals_of. cbn [flat_map]. rewrite app_assoc. reflexivity.
Qed.

Theorem fill_get f n s : get f (fill n s) = get f n ++ vals_of (oid_of f) (seq_of s).
Proof. unfold fill. rewrite fold_fill_get, get_set_original. reflexivity. Qed.

(* scalars: last value wins *)
Lemma last_cons {A} (a : A) l d : last (a :: l) d = last l a.
Proof.
  revert a d. induction l as [|b l IH]; intros a d; [reflexivity|].
  change (last (a :: b :: l) d) with (last (b :: l) d). rewrite !IH. reflexivity.
Qed.
Lemma last_app {A} (l1 l2 : list A) d : last (l1 ++ l2) d = last l2 (last l1 d).
Proof.
  revert d. induction l1 as [|a l1 IH]; intros d; [reflexivity|].
  cbn [app]. rewrite last_cons, IH, last_cons. reflexivity.
Qed.

Lemma common_name_post f' v x :
  common_name (post f' v x) = match f' with LCommonNames => v | _ => common_name x end.
Proof. destruct f'; reflexivity. Qed.
Lemma serial_number_post f' v x :
  serial_number (post f' v x) = match f' with LSerialNumbers => v | _ => serial_number x end.
Proof. destruct f'; reflexivity. Qed.
Lemma common_name_upd f g n : common_name (upd f g n) = common_name n.
Proof. destruct f; reflexivity. Qed.
Lemma serial_number_upd f g n : serial_number (upd f g n) = serial_number n.
Proof. destruct f; reflexivity. Qed.

Lemma fill_atv_cn n a : common_name (fill_atv n a) = last (strs_of oidCommonName [a]) (common_name n).
Proof.
  destruct a as [t [v|c k tg b]]; [|reflexivity].
  rewrite fill_atv_str, strs_of_one_str. destruct (classify t) as [f'|] eqn:C.
  - apply classify_sound in C. subst t. rewrite common_name_post, common_name_upd.
    destruct f'; reflexivity.
  - destruct (oid_eqb t oidCommonName) eqn:E; [|reflexivity].
    apply oid_eqb_eq in E. subst t. discriminate.
Qed.
Lemma fill_atv_sn n a : serial_number (fill_atv n a) = last (strs_of oidSerialNumber [a]) (serial_number n).
Proof.
  destruct a as [t [v|c k tg b]]; [|reflexivity].
  rewrite fill_atv_str, strs_of_one_str. destruct (classify t) as [f'|] eqn:C.
  - apply classify_sound in C. subst t. rewrite serial_number_post, serial_number_upd.
    destruct f'; reflexivity.
  - destruct (oid_eqb t oidSerialNumber) eqn:E; [|reflexivity].
    apply oid_eqb_eq in E. subst t. discriminate.
Qed.

Section Scalars.
  Variable proj : name -> bytes.
  Variable o : oid.
  Hypothesis step : forall n a, proj (fill_atv n a) = last (strs_of o [a]) (proj n).
  Hypothesis orig : forall v n, proj (set_original v n) = proj n.

  Lemma fold_fill_atv_scalar r : forall n, proj (fold_left fill_atv r n) = last (strs_of o r) (proj n).
  Proof.
    induction r as [|a r IH]; intros n; cbn [fold_left]; [reflexivity|].
    rewrite IH, step, (strs_of_cons _ a r), last_app. reflexivity.
  Qed.
  Lemma fold_fill_scalar l : forall n,
    proj (fold_left (fun n r => fold_left fill_atv r n) l n) = last (vals_of o l) (proj n).
  Proof.
    induction l as [|r l IH]; intros n; cbn [fold_left]; [reflexivity|].
    rewrite IH, fold_fill_atv_scalar. unfold vals_of. cbn [flat_map]. rewrite last_app. reflexivity.
  Qed.
  Lemma fill_scalar n s : proj (fill n s) = last (vals_of o (seq_of s)) (proj n).
  Proof. unfold fill. rewrite fold_fill_scalar, orig. reflexivity. Qed.
End Scalars.

Theorem fill_common_name n s :
  common_name (fill n s) = last (vals_of oidCommonName (seq_of s)) (common_name n).
Proof. apply fill_scalar; [apply fill_atv_cn|reflexivity]. Qed.
Theorem fill_serial_number n s :
  serial_number (fill n s) = last (vals_of oidSerialNumber (seq_of s)) (serial_number n).
Proof. apply fill_scalar; [apply fill_atv_sn|reflexivity]. Qed.

(* Names, ExtraNames, OriginalRDNS *)
Lemma fill_atv_names n a : names (fill_atv n a) = names n ++ [a].
Proof.
  destruct a as [t [v|c k tg b]]; [|reflexivity].
  rewrite fill_atv_str. destruct (classify t) as [f'|]; [|reflexivity]. destruct f'; reflexivity.
Qed.
Lemma fill_atv_extra n a : extra_names (fill_atv n a) = extra_names n.
Proof.
  destruct a as [t [v|c k tg b]]; [|reflexivity].
  rewrite fill_atv_str. destruct (classify t) as [f'|]; [|reflexivity]. destruct f'; reflexivity.
Qed.
Lemma fill_atv_original n a : original (fill_atv n a) = original n.
Proof.
  destruct a as [t [v|c k tg b]]; [|reflexivity].
  rewrite fill_atv_str. destruct (classify t) as [f'|]; [|reflexivity]. destruct f'; reflexivity.
Qed.

Section Invariant.
  Context {T : Type}.
  Variable proj : name -> T.
  Hypothesis step : forall n a, proj (fill_atv n a) = proj n.
  Lemma fold_fill_inv l : forall n, proj (fold_left (fun n r => fold_left fill_atv r n) l n) = proj n.
  Proof.
    assert (Ha : forall r n, proj (fold_left fill_atv r n) = proj n).
    { induction r as [|a r IH]; intros n; cbn [fold_left]; [reflexivity|]. rewrite IH. apply step. }
    induction l as [|r l IH]; intros n; cbn [fold_left]; [reflexivity|]. rewrite IH. apply Ha.
  Qed.
End Invariant.

Theorem fill_original n s : original (fill n s) = s.
Proof. unfold fill. rewrite (fold_fill_inv original fill_atv_original). reflexivity. Qed.
Theorem fill_extra_names n s : extra_names (fill n s) = extra_names n.
Proof. unfold fill. rewrite (fold_fill_inv extra_names fill_atv_extra). reflexivity. Qed.

Theorem fill_names n s : names (fill n s) = names n ++ concat (seq_of s).
Proof.
  unfold fill.
  assert (Ha : forall r n, names (fold_left fill_atv r n) = names n ++ r).
  { induction r as [|a r IH]; intros m; cbn [fold_left]; [symmetry; apply app_nil_r|].
    rewrite IH, fill_atv_names, <- app_assoc. reflexivity. }
  assert (Hl : forall l m, names (fold_left (fun n r => fold_left fill_atv r n) l m) = names m ++ concat l).
  { induction l as [|r l IH]; intros m; cbn [fold_left concat]; [symmetry; apply app_nil_r|].
    rewrite IH, Ha, <- app_assoc. reflexivity. }
  rewrite Hl. reflexivity.
Qed.

Theorem to_rdn_fill_some n s : to_rdn (fill n (Some s)) = s.
Proof. unfold to_rdn. rewrite fill_original. reflexivity. Qed.

Theorem to_rdn_fill_nil : to_rdn (fill empty_name None) = [].
Proof. reflexivity. Qed.

(* ================================================================== *)
(* B. ToRDNSequence *)

Lemma vals_of_app o s1 s2 : vals_of o (s1 ++ s2) = vals_of o s1 ++ vals_of o s2.
Proof. apply flat_map_app. Qed.

Lemma strs_of_uniform o o' vals :
  strs_of o (map (fun v => (o', VStr v)) vals) = if oid_eqb o' o then vals else [].
Proof.
  induction vals as [|v vals IH]; [destruct (oid_eqb o' o); reflexivity|].
  cbn [map]. rewrite strs_of_cons, strs_of_one_str, IH. destruct (oid_eqb o' o); reflexivity.
Qed.

Lemma vals_of_append_rdns o o' vals :
  vals_of o (append_rdns vals o') = if oid_eqb o' o then vals else [].
Proof.
  unfold append_rdns. destruct vals as [|v vals]; [destruct (oid_eqb o' o); reflexivity|].
  unfold vals_of. cbn [flat_map]. rewrite app_nil_r. apply strs_of_uniform.
Qed.

Theorem vals_of_to_rdn_fields f n :
  vals_of (oid_of f) (to_rdn_fields n) =
  sent f n ++ vals_of (oid_of f) (singletons (extra_names n)).
Proof.
  unfold to_rdn_fields. cbn [flat_map emitted].
  rewrite !vals_of_app, !vals_of_append_rdns. fold (singletons (extra_names n)).
  destruct f; cbn [oid_of sent get];
    repeat match goal with
    | |- context [oid_eqb ?a ?b] => let b' := eval vm_compute in (oid_eqb a b) in change (oid_eqb a b) with b'
    end; cbn [app]; rewrite ?app_nil_r; reflexivity.
Qed.
