(* C06, no-CT fingerprint: on canonically encoded TBS certificates (built from
   their parts by the DER encoder of model/C22Tlv.v) the model's walk recovers
   the parts, and the re-marshalled TBS without CT extensions depends only on
   the non-CT extensions — so inserting or removing the CT poison / SCT-list
   extension at any index leaves the no-CT fingerprint unchanged. *)
From Coq Require Import List NArith ZArith Bool Arith Lia.
From Verif Require Import Harness.
From VerifModel Require Import C22Tlv C06.
From VerifProof Require Import C22TlvProofs C06Proofs.
Import ListNotations.
Open Scope N_scope.

Definition small (x : bytes) : Prop := len_ok (N.of_nat (length x)).
Lemma small_le x y : (length x <= length y)%nat -> small y -> small x.
Proof. unfold small, len_ok. lia. Qed.
Lemma tlv_length_ge c k t x : (length x <= length (tlv c k t x))%nat.
Proof. unfold tlv. rewrite app_length. lia. Qed.
Lemma small_tlv c k t x : small (tlv c k t x) -> small x.
Proof. apply small_le, tlv_length_ge. Qed.
Lemma small_app_l x y : small (x ++ y) -> small x.
Proof. apply small_le. rewrite app_length. lia. Qed.
Lemma small_app_r x y : small (x ++ y) -> small y.
Proof. apply small_le. rewrite app_length. lia. Qed.
Lemma in_concat_length {A} (x : list A) l : In x l -> (length x <= length (concat l))%nat.
Proof.
  induction l as [|y l IH]; cbn [In concat]; [tauto|]. rewrite app_length.
  intros [->|H]; [lia|]. specialize (IH H). lia.
Qed.

Lemma tlv_cons cls k t x rest : exists b l, tlv cls k t x ++ rest = b :: l.
Proof.
  destruct (tlv cls k t x) as [|b l] eqn:E; [exfalso; exact (tlv_not_nil _ _ _ _ E)|].
  exists b, (l ++ rest). reflexivity.
Qed.
Lemma tlv_length_2 cls k t x : (2 <= length (tlv cls k t x))%nat.
Proof.
  unfold tlv, enc_tl. cbn [t_tag t_len t_class t_comp]. rewrite !app_length.
  assert (1 <= length (enc_len (N.of_nat (length x))))%nat.
  { unfold enc_len. destruct (128 <=? N.of_nat (length x)); simpl; lia. }
  destruct (31 <=? t); simpl; lia.
Qed.

Lemma parse_tl_tlv cls k t x rest :
  cls < 4 -> t <= max_int32 -> small x ->
  parse_tl (tlv cls k t x ++ rest) = Some (mkTl cls k t (N.of_nat (length x)), x ++ rest).
Proof.
  intros Hc Ht Hs. unfold tlv. rewrite <- app_assoc. apply parse_tl_enc. repeat split; assumption.
Qed.

Lemma next_tlv cls k t x rest :
  cls < 4 -> t <= max_int32 -> small x ->
  next (tlv cls k t x ++ rest) = Some (mkTl cls k t (N.of_nat (length x)), x, tlv cls k t x, rest).
Proof.
  intros Hc Ht Hs. unfold next. rewrite take_tlv_tlv by assumption. rewrite raw_prefix_app2. reflexivity.
Qed.

Lemma hdr_is_mk cls k t n : hdr_is (mkTl cls k t n) cls k t = true.
Proof. unfold hdr_is. cbn [t_class t_comp t_tag]. rewrite !N.eqb_refl, eqb_reflx. reflexivity. Qed.

(* ------------------------------------------------------------------ *)
(* canonical TBS certificates *)

(* an extension: the body of its Id and the rest of its content (critical flag, value) *)
Definition ext := (bytes * bytes)%type.
Definition enc_ext (e : ext) : bytes := tlv 0 true 16 (tlv 0 false 6 (fst e) ++ snd e).
Definition ext_oid (e : ext) : oid := match parse_oid (fst e) with Some o => o | None => [] end.
Definition ext_is_ct (e : ext) : bool := is_ct (ext_oid e, enc_ext e).

Record src := mkSrc {
  s_version : option bytes;          (* content of the version INTEGER, None = field absent *)
  s_serial : bytes;                  (* content of the serial INTEGER *)
  s_sigalg : bytes;                  (* content of the AlgorithmIdentifier SEQUENCE *)
  s_issuer : elem;                   (* any element *)
  s_validity : bytes;
  s_subject : elem;
  s_spki : bytes;
  s_uid1 : option bytes;             (* content of the [1] / [2] bit strings *)
  s_uid2 : option bytes }.

Definition ver_el (v : option bytes) : bytes :=
  match v with None => [] | Some b => tlv 2 true 0 (tlv 0 false 2 b) end.
Definition uid_el (tag : N) (u : option bytes) : bytes :=
  match u with None => [] | Some b => tlv 2 false tag b end.
Definition ext_block (x : option (list ext)) : bytes :=
  match x with None => [] | Some l => tlv 2 true 3 (tlv 0 true 16 (concat (map enc_ext l))) end.
Definition exts_list (x : option (list ext)) : list ext := match x with Some l => l | None => [] end.

Definition fixed_part (s : src) (rest : bytes) : bytes :=
  tlv 0 false 2 (s_serial s) ++ tlv 0 true 16 (s_sigalg s) ++ enc_elem (s_issuer s)
  ++ tlv 0 true 16 (s_validity s) ++ enc_elem (s_subject s) ++ tlv 0 true 16 (s_spki s) ++ rest.

(* content of the TBS SEQUENCE with extension block x (None = no [3] element) *)
Definition tbs_content (s : src) (x : option (list ext)) : bytes :=
  ver_el (s_version s) ++ fixed_part s (uid_el 1 (s_uid1 s) ++ uid_el 2 (s_uid2 s) ++ ext_block x).

Definition ver_val (s : src) : Z :=
  match s_version s with
  | None => 0%Z
  | Some b => match int64_val b with Some v => v | None => 0%Z end
  end.

Definition wf_src (s : src) : Prop :=
  (match s_version s with
   | None => True
   | Some b => exists v, int64_val b = Some v /\ v <> 0%Z    (* DER omits the default version *)
   end) /\
  int_ok (s_serial s) = true /\
  wf_elem (s_issuer s) /\ wf_elem (s_subject s) /\
  (match s_uid1 s with None => True | Some b => bits_ok b = true end) /\
  (match s_uid2 s with None => True | Some b => bits_ok b = true end).

Definition wf_exts (l : list ext) : Prop := Forall (fun e => exists o, parse_oid (fst e) = Some o) l.

(* ------------------------------------------------------------------ *)
(* the walk over a built TBS *)

Lemma opt_bits_nil tag : opt_bits tag [] = Some ([], []).
Proof. reflexivity. Qed.

Lemma opt_bits_take tag b rest :
  tag <= max_int32 -> small b -> bits_ok b = true ->
  opt_bits tag (tlv 2 false tag b ++ rest) = Some (tlv 2 false tag b, rest).
Proof.
  intros Ht Hs Hb. destruct (tlv_cons 2 false tag b rest) as (x & l & E).
  unfold opt_bits. rewrite E. rewrite <- E.
  rewrite parse_tl_tlv by (try assumption; lia). rewrite hdr_is_mk.
  rewrite next_tlv by (try assumption; lia). rewrite Hb. reflexivity.
Qed.

Lemma opt_bits_skip tag cls k t x rest :
  cls < 4 -> t <= max_int32 -> small x ->
  hdr_is (mkTl cls k t (N.of_nat (length x))) 2 false tag = false ->
  opt_bits tag (tlv cls k t x ++ rest) = Some ([], tlv cls k t x ++ rest).
Proof.
  intros Hc Ht Hs Hh. destruct (tlv_cons cls k t x rest) as (b & l & E).
  unfold opt_bits. rewrite E. rewrite <- E.
  rewrite parse_tl_tlv by assumption. rewrite Hh. reflexivity.
Qed.

Lemma split_raws_S fuel bs :
  bs <> [] ->
  split_raws (S fuel) bs =
  match next bs with
  | None => None
  | Some (t, c, raw, rest) =>
      match split_raws fuel rest with None => None | Some l => Some ((t, c, raw) :: l) end
  end.
Proof. destruct bs; [contradiction|reflexivity]. Qed.

Lemma split_raws_exts l : forall fuel,
  Forall (fun e => small (tlv 0 false 6 (fst e) ++ snd e)) l ->
  (length (concat (map enc_ext l)) <= fuel)%nat ->
  split_raws fuel (concat (map enc_ext l)) =
  Some (map (fun e => (mkTl 0 true 16 (N.of_nat (length (tlv 0 false 6 (fst e) ++ snd e))),
                       tlv 0 false 6 (fst e) ++ snd e, enc_ext e)) l).
Proof.
  induction l as [|e l IH]; intros fuel Hs Hf.
  - destruct fuel; reflexivity.
  - inversion Hs as [|? ? He Hl]; subst. cbn [map concat] in *.
    pose proof (tlv_length_2 0 true 16 (tlv 0 false 6 (fst e) ++ snd e)) as H2.
    rewrite app_length in Hf.
    change (enc_ext e) with (tlv 0 true 16 (tlv 0 false 6 (fst e) ++ snd e)) in Hf.
    destruct fuel as [|fuel]; [lia|].
    rewrite split_raws_S.
    2:{ intros C. apply app_eq_nil in C. destruct C as [C _]. exact (tlv_not_nil 0 true 16 _ C). }
    change (enc_ext e ++ concat (map enc_ext l)) with
      (tlv 0 true 16 (tlv 0 false 6 (fst e) ++ snd e) ++ concat (map enc_ext l)).
    rewrite next_tlv by (try exact He; unfold max_int32; lia).
    rewrite IH; [reflexivity|exact Hl|lia].
Qed.

Lemma ext_ids_exts l :
  wf_exts l ->
  Forall (fun e => small (tlv 0 false 6 (fst e) ++ snd e)) l ->
  ext_ids (map (fun e => (mkTl 0 true 16 (N.of_nat (length (tlv 0 false 6 (fst e) ++ snd e))),
                          tlv 0 false 6 (fst e) ++ snd e, enc_ext e)) l) =
  Some (map (fun e => (ext_oid e, enc_ext e)) l).
Proof.
  induction 1 as [|e l (o & Ho) Hl IH]; intros Hs; [reflexivity|].
  inversion Hs as [|? ? He Hsl]; subst. destruct e as [ob tl0]. cbn [fst snd] in *.
  cbn [map ext_ids fst snd]. rewrite hdr_is_mk.
  unfold ext_id. rewrite take_tlv_tlv; [|lia|unfold max_int32; lia|exact (small_tlv _ _ _ _ (small_app_l _ _ He))].
  rewrite hdr_is_mk, Ho. rewrite (IH Hsl). unfold ext_oid. cbn [fst]. rewrite Ho. reflexivity.
Qed.

Lemma ext_step_block x :
  wf_exts (exts_list x) -> small (ext_block x) ->
  ext_step (ext_block x) = Some (map (fun e => (ext_oid e, enc_ext e)) (exts_list x)).
Proof.
  destruct x as [l|]; [|reflexivity]. cbn [exts_list ext_block]. intros Hw Hs.
  set (body := concat (map enc_ext l)) in *.
  pose proof (small_tlv _ _ _ _ Hs) as Hs1. pose proof (small_tlv _ _ _ _ Hs1) as Hs2.
  destruct (tlv_cons 2 true 3 (tlv 0 true 16 body) []) as (b & r & E). rewrite app_nil_r in E.
  unfold ext_step. rewrite E. rewrite <- E.
  pose proof (parse_tl_tlv 2 true 3 (tlv 0 true 16 body) [] ltac:(lia) ltac:(unfold max_int32; lia) Hs1) as P.
  rewrite !app_nil_r in P. rewrite P.
  destruct (tlv 0 true 16 body) as [|b1 r1] eqn:E1; [exfalso; exact (tlv_not_nil _ _ _ _ E1)|].
  rewrite <- E1. cbn [t_comp t_len]. rewrite hdr_is_mk. rewrite orb_true_r. cbn [andb].
  assert (Hn : (N.of_nat (length (tlv 0 true 16 body)) =? 0) = false).
  { apply N.eqb_neq. pose proof (tlv_length_2 0 true 16 body). lia. }
  rewrite Hn.
  pose proof (parse_tl_tlv 0 true 16 body [] ltac:(lia) ltac:(unfold max_int32; lia) Hs2) as P2.
  rewrite !app_nil_r in P2. rewrite P2. rewrite hdr_is_mk. cbn [t_len].
  assert (Hl : (N.of_nat (length body) <? N.of_nat (length body)) = false) by (apply N.ltb_ge; lia).
  rewrite Hl. rewrite Nat2N.id, firstn_all.
  assert (Hsm : Forall (fun e => small (tlv 0 false 6 (fst e) ++ snd e)) l).
  { apply Forall_forall. intros e He. apply (small_tlv 0 true 16). eapply small_le; [|exact Hs2].
    unfold body. apply in_concat_length. apply in_map_iff. exists e. split; [reflexivity|exact He]. }
  unfold body. rewrite split_raws_exts; [|exact Hsm|lia].
  apply ext_ids_exts; assumption.
Qed.

Definition built_parts (s : src) (x : option (list ext)) : tbs_parts :=
  mkParts (ver_el (s_version s)) (ver_val s)
          (tlv 0 false 2 (s_serial s)) (tlv 0 true 16 (s_sigalg s)) (enc_elem (s_issuer s))
          (tlv 0 true 16 (s_validity s)) (enc_elem (s_subject s)) (tlv 0 true 16 (s_spki s))
          (uid_el 1 (s_uid1 s)) (uid_el 2 (s_uid2 s))
          (map (fun e => (ext_oid e, enc_ext e)) (exts_list x)).

Lemma version_step_built s rest :
  wf_src s -> small (ver_el (s_version s) ++ fixed_part s rest) ->
  version_step (ver_el (s_version s) ++ fixed_part s rest) =
  Some (ver_el (s_version s), ver_val s, fixed_part s rest).
Proof.
  intros (Hv & _) Hs. unfold ver_val. destruct (s_version s) as [b|]; cbn [ver_el] in *.
  - destruct Hv as (v & Hv & _). rewrite Hv.
    pose proof (small_tlv _ _ _ _ (small_app_l _ _ Hs)) as S1. pose proof (small_tlv _ _ _ _ S1) as S2.
    unfold version_step.
    rewrite parse_tl_tlv by (try exact S1; unfold max_int32; lia).
    destruct (tlv_cons 0 false 2 b (fixed_part s rest)) as (y & l & E). rewrite E. rewrite <- E.
    cbn [t_comp t_len]. rewrite hdr_is_mk, orb_true_r. cbn [andb].
    assert (Hn : (N.of_nat (length (tlv 0 false 2 b)) =? 0) = false).
    { apply N.eqb_neq. pose proof (tlv_length_2 0 false 2 b). lia. }
    rewrite Hn. rewrite take_tlv_tlv by (try exact S2; unfold max_int32; lia).
    rewrite hdr_is_mk, Hv. rewrite raw_prefix_app2. reflexivity.
  - cbn [app] in *. unfold version_step, fixed_part.
    pose proof (small_tlv _ _ _ _ (small_app_l _ _ Hs)) as S1.
    rewrite parse_tl_tlv by (try exact S1; unfold max_int32; lia).
    destruct (s_serial s ++ _) as [|y l] eqn:E.
    { exfalso. apply app_eq_nil in E. destruct E as [_ E].
      destruct (tlv_cons 0 true 16 (s_sigalg s) (enc_elem (s_issuer s) ++ tlv 0 true 16 (s_validity s) ++ enc_elem (s_subject s) ++ tlv 0 true 16 (s_spki s) ++ rest)) as (? & ? & E').
      rewrite E' in E. discriminate. }
    reflexivity.
Qed.

Lemma take_elems_fixed s rest :
  wf_src s -> small (fixed_part s rest) ->
  exists b3 b5 t3 t5,
  take_elems 6 (fixed_part s rest) =
  Some ([(mkTl 0 false 2 (N.of_nat (length (s_serial s))), s_serial s, tlv 0 false 2 (s_serial s));
         (mkTl 0 true 16 (N.of_nat (length (s_sigalg s))), s_sigalg s, tlv 0 true 16 (s_sigalg s));
         (t3, b3, enc_elem (s_issuer s));
         (mkTl 0 true 16 (N.of_nat (length (s_validity s))), s_validity s, tlv 0 true 16 (s_validity s));
         (t5, b5, enc_elem (s_subject s));
         (mkTl 0 true 16 (N.of_nat (length (s_spki s))), s_spki s, tlv 0 true 16 (s_spki s))], rest).
Proof.
  intros (_ & _ & Hi & Hj & _) Hs. unfold fixed_part in *.
  destruct (s_issuer s) as [[[ci ki] ti] bi]. destruct (s_subject s) as [[[cs ks] ts] bs'].
  cbn [wf_elem enc_elem] in *. destruct Hi as (Hi1 & Hi2 & Hi3). destruct Hj as (Hj1 & Hj2 & Hj3).
  pose proof (small_tlv _ _ _ _ (small_app_l _ _ Hs)) as S1.
  pose proof (small_app_r _ _ Hs) as R1.
  pose proof (small_tlv _ _ _ _ (small_app_l _ _ R1)) as S2.
  pose proof (small_app_r _ _ R1) as R2. pose proof (small_app_r _ _ R2) as R3.
  pose proof (small_tlv _ _ _ _ (small_app_l _ _ R3)) as S4.
  pose proof (small_app_r _ _ R3) as R4. pose proof (small_app_r _ _ R4) as R5.
  pose proof (small_tlv _ _ _ _ (small_app_l _ _ R5)) as S6.
  exists bi, bs', (mkTl ci ki ti (N.of_nat (length bi))), (mkTl cs ks ts (N.of_nat (length bs'))).
  cbn [take_elems].
  rewrite next_tlv by (try exact S1; unfold max_int32; lia).
  rewrite next_tlv by (try exact S2; unfold max_int32; lia).
  rewrite next_tlv by assumption.
  rewrite next_tlv by (try exact S4; unfold max_int32; lia).
  rewrite next_tlv by assumption.
  rewrite next_tlv by (try exact S6; unfold max_int32; lia).
  reflexivity.
Qed.

Lemma tail_walk s x :
  wf_src s -> wf_exts (exts_list x) ->
  small (uid_el 1 (s_uid1 s) ++ uid_el 2 (s_uid2 s) ++ ext_block x) ->
  exists c4 c5,
    opt_bits 1 (uid_el 1 (s_uid1 s) ++ uid_el 2 (s_uid2 s) ++ ext_block x) = Some (uid_el 1 (s_uid1 s), c4) /\
    opt_bits 2 c4 = Some (uid_el 2 (s_uid2 s), c5) /\
    ext_step c5 = Some (map (fun e => (ext_oid e, enc_ext e)) (exts_list x)).
Proof.
  intros (_ & _ & _ & _ & H1 & H2) Hx Hs.
  exists (uid_el 2 (s_uid2 s) ++ ext_block x), (ext_block x).
  pose proof (small_app_r _ _ Hs) as R1. pose proof (small_app_r _ _ R1) as R2.
  assert (E3 : ext_step (ext_block x) = Some (map (fun e => (ext_oid e, enc_ext e)) (exts_list x)))
    by (apply ext_step_block; assumption).
  assert (E2 : opt_bits 2 (uid_el 2 (s_uid2 s) ++ ext_block x) = Some (uid_el 2 (s_uid2 s), ext_block x)).
  { destruct (s_uid2 s) as [b|]; cbn [uid_el app] in *.
    - apply opt_bits_take; [unfold max_int32; lia|exact (small_tlv _ _ _ _ (small_app_l _ _ R1))|exact H2].
    - destruct x as [l|]; cbn [ext_block]; [|reflexivity].
      rewrite <- (app_nil_r (tlv 2 true 3 _)).
      rewrite opt_bits_skip; [rewrite app_nil_r; reflexivity|lia|unfold max_int32; lia| |reflexivity].
      cbn [ext_block] in R2. exact (small_tlv _ _ _ _ R2). }
  split; [|split; [exact E2|exact E3]].
  destruct (s_uid1 s) as [b|]; cbn [uid_el app] in *.
  - apply opt_bits_take; [unfold max_int32; lia|exact (small_tlv _ _ _ _ (small_app_l _ _ Hs))|exact H1].
  - destruct (s_uid2 s) as [b|]; cbn [uid_el app] in *.
    + rewrite opt_bits_skip; [reflexivity|lia|unfold max_int32; lia|exact (small_tlv _ _ _ _ (small_app_l _ _ Hs))|reflexivity].
    + destruct x as [l|]; cbn [ext_block]; [|reflexivity].
      rewrite <- (app_nil_r (tlv 2 true 3 _)).
      rewrite opt_bits_skip; [rewrite app_nil_r; reflexivity|lia|unfold max_int32; lia| |reflexivity].
      cbn [ext_block] in Hs. exact (small_tlv _ _ _ _ Hs).
Qed.

Theorem parse_tbs_built s x :
  wf_src s -> wf_exts (exts_list x) -> small (tbs_content s x) ->
  parse_tbs (tbs_content s x) = Some (built_parts s x).
Proof.
  intros Hw Hx Hs. unfold tbs_content in *.
  set (rest := uid_el 1 (s_uid1 s) ++ uid_el 2 (s_uid2 s) ++ ext_block x) in *.
  pose proof (small_app_r _ _ Hs) as Hf.
  assert (Hr : small rest).
  { pose proof Hf as Hr. unfold fixed_part in Hr. do 6 (apply small_app_r in Hr). exact Hr. }
  unfold parse_tbs. rewrite (version_step_built s rest Hw Hs).
  destruct (take_elems_fixed s rest Hw Hf) as (b3 & b5 & t3 & t5 & ->).
  rewrite !hdr_is_mk. destruct Hw as (Hv & Hi & Hrest). rewrite Hi. cbn [andb].
  subst rest.
  destruct (tail_walk s x (conj Hv (conj Hi Hrest)) Hx Hr) as (c4 & c5 & -> & -> & ->).
  reflexivity.
Qed.

(* ------------------------------------------------------------------ *)
(* the re-marshalled TBS without CT extensions *)

Lemma filter_map_ct l :
  map snd (filter (fun e => negb (is_ct e)) (map (fun e => (ext_oid e, enc_ext e)) l)) =
  map enc_ext (filter (fun e => negb (ext_is_ct e)) l).
Proof.
  induction l as [|e l IH]; [reflexivity|]. cbn [map filter]. fold (ext_is_ct e).
  destruct (ext_is_ct e); cbn [negb map]; rewrite IH; reflexivity.
Qed.

Lemma ver_val_zero s : wf_src s -> ((ver_val s =? 0)%Z = true <-> s_version s = None).
Proof.
  intros (Hv & _). unfold ver_val. destruct (s_version s) as [b|].
  - destruct Hv as (v & -> & Hz). split; [|discriminate]. intros E. apply Z.eqb_eq in E. contradiction.
  - split; reflexivity.
Qed.

(* the no-CT TBS is the canonical TBS carrying exactly the non-CT extensions
   (with an extension block even when none is left) *)
Theorem noct_built s x :
  wf_src s ->
  noct_tbs (built_parts s x) =
  tlv 0 true 16 (tbs_content s (Some (filter (fun e => negb (ext_is_ct e)) (exts_list x)))).
Proof.
  intros Hw. unfold noct_tbs, built_parts, tbs_content, fixed_part.
  cbn [p_version p_version_raw p_serial_raw p_sigalg_raw p_issuer_raw p_validity_raw p_subject_raw
       p_spki_raw p_uid1_raw p_uid2_raw p_exts ext_block].
  rewrite filter_map_ct.
  destruct (ver_val s =? 0)%Z eqn:E.
  - apply (ver_val_zero s Hw) in E. rewrite E. reflexivity.
  - reflexivity.
Qed.

Definition insert_at {A} (i : nat) (x : A) (l : list A) : list A := firstn i l ++ x :: skipn i l.

Lemma filter_insert_ct i ct l :
  ext_is_ct ct = true ->
  filter (fun e => negb (ext_is_ct e)) (insert_at i ct l) = filter (fun e => negb (ext_is_ct e)) l.
Proof.
  intros H. unfold insert_at. rewrite filter_app. cbn [filter]. rewrite H. cbn [negb].
  rewrite <- filter_app, firstn_skipn. reflexivity.
Qed.

Section Cert.
  Variables md5 sha1 sha256 : bytes -> bytes.
  Variable sigok : bytes -> bool.

  (* a certificate around a canonical TBS; [tail] = signature algorithm and signature value *)
  Definition cert_of (s : src) (x : option (list ext)) (tail : bytes) : bytes :=
    tlv 0 true 16 (tlv 0 true 16 (tbs_content s x) ++ tail).

  Theorem meta_of_built s x tail :
    wf_src s -> wf_exts (exts_list x) -> small (cert_of s x tail) ->
    exists m, meta_of md5 sha1 sha256 sigok (cert_of s x tail) = Some m /\
      m_raw_tbs m = tlv 0 true 16 (tbs_content s x) /\
      m_raw_issuer m = enc_elem (s_issuer s) /\ m_raw_subject m = enc_elem (s_subject s) /\
      m_raw_spki m = tlv 0 true 16 (s_spki s) /\ m_version m = (ver_val s + 1)%Z /\
      m_fp_noct m =
      sha256 (tlv 0 true 16 (tbs_content s (Some (filter (fun e => negb (ext_is_ct e)) (exts_list x))))).
  Proof.
    intros Hw Hx Hs. unfold cert_of in *.
    pose proof (small_tlv _ _ _ _ Hs) as S1. pose proof (small_tlv _ _ _ _ (small_app_l _ _ S1)) as S2.
    unfold meta_of, cert_parts.
    pose proof (take_tlv_tlv 0 true 16 (tlv 0 true 16 (tbs_content s x) ++ tail) [] ltac:(lia) ltac:(unfold max_int32; lia) S1) as T.
    rewrite app_nil_r in T. rewrite T. rewrite hdr_is_mk.
    rewrite next_tlv by (try exact S2; unfold max_int32; lia). rewrite hdr_is_mk.
    rewrite (parse_tbs_built s x Hw Hx S2).
    eexists. split; [reflexivity|].
    cbn [m_raw_tbs m_raw_issuer m_raw_subject m_raw_spki m_version m_fp_noct].
    repeat split; try reflexivity.
    rewrite (noct_built s x Hw). reflexivity.
  Qed.

  (* adding or removing CT extensions anywhere does not change the no-CT fingerprint:
     two canonical certificates with the same fields, possibly different signatures,
     whose extension lists agree after dropping the CT extensions *)
  Theorem noct_invariant s x1 x2 tail1 tail2 :
    wf_src s -> wf_exts (exts_list x1) -> wf_exts (exts_list x2) ->
    small (cert_of s x1 tail1) -> small (cert_of s x2 tail2) ->
    filter (fun e => negb (ext_is_ct e)) (exts_list x1) = filter (fun e => negb (ext_is_ct e)) (exts_list x2) ->
    exists m1 m2,
      meta_of md5 sha1 sha256 sigok (cert_of s x1 tail1) = Some m1 /\
      meta_of md5 sha1 sha256 sigok (cert_of s x2 tail2) = Some m2 /\
      m_fp_noct m1 = m_fp_noct m2.
  Proof.
    intros Hw H1 H2 S1 S2 Hf.
    destruct (meta_of_built s x1 tail1 Hw H1 S1) as (m1 & E1 & _ & _ & _ & _ & _ & N1).
    destruct (meta_of_built s x2 tail2 Hw H2 S2) as (m2 & E2 & _ & _ & _ & _ & _ & N2).
    exists m1, m2. split; [exact E1|]. split; [exact E2|]. rewrite N1, N2, Hf. reflexivity.
  Qed.

  Corollary noct_ct_inserted s l i ct tail1 tail2 :
    wf_src s -> wf_exts l -> wf_exts [ct] -> ext_is_ct ct = true ->
    small (cert_of s (Some l) tail1) -> small (cert_of s (Some (insert_at i ct l)) tail2) ->
    exists m1 m2,
      meta_of md5 sha1 sha256 sigok (cert_of s (Some l) tail1) = Some m1 /\
      meta_of md5 sha1 sha256 sigok (cert_of s (Some (insert_at i ct l)) tail2) = Some m2 /\
      m_fp_noct m1 = m_fp_noct m2.
  Proof.
    intros Hw Hl Hc Hct S1 S2. apply noct_invariant; try assumption.
    - cbn [exts_list]. unfold insert_at, wf_exts in *. apply Forall_app. split.
      + apply Forall_forall. intros e He. apply (proj1 (Forall_forall _ l) Hl e). rewrite <- (firstn_skipn i l). apply in_or_app. left. exact He.
      + constructor; [inversion Hc; assumption|].
        apply Forall_forall. intros e He. apply (proj1 (Forall_forall _ l) Hl e). rewrite <- (firstn_skipn i l). apply in_or_app. right. exact He.
    - cbn [exts_list]. symmetry. apply filter_insert_ct, Hct.
  Qed.
End Cert.

(* ------------------------------------------------------------------ *)
(* non-vacuity: a concrete canonical certificate meets the hypotheses, and the
   model really drops the poison extension placed first, in the middle or last *)
Definition ex_src : src :=
  mkSrc (Some [2]) [1] [6;3;43;101;112] (0, true, 16, []) [23;1;48;23;1;49] (0, true, 16, [])
        [48;5;6;3;43;101;112;3;1;0] None (Some [0;255]).
Definition ex_poison : ext := ([43;6;1;4;1;214;121;2;4;3], [1;1;255;4;2;5;0]).
Definition ex_scts : ext := ([43;6;1;4;1;214;121;2;4;2], [4;4;4;2;0;0]).
Definition ex_ski : ext := ([85;29;14], [4;3;4;1;7]).
Definition ex_bc : ext := ([85;29;19], [1;1;255;4;2;48;0]).

Lemma ex_wf :
  wf_src ex_src /\ wf_exts [ex_ski; ex_bc] /\ wf_exts [ex_poison] /\ wf_exts [ex_scts] /\
  ext_is_ct ex_poison = true /\ ext_is_ct ex_scts = true /\
  ext_is_ct ex_ski = false /\ ext_is_ct ex_bc = false /\
  small (cert_of ex_src (Some (insert_at 1 ex_poison [ex_ski; ex_bc])) [48;0;3;1;0]) /\
  small (cert_of ex_src (Some [ex_ski; ex_bc]) [48;0;3;2;0;7]).
Proof.
  split.
  { unfold wf_src, ex_src. cbn [s_version s_serial s_issuer s_subject s_uid1 s_uid2].
    split; [exists 2%Z; split; [reflexivity|discriminate]|].
    split; [reflexivity|].
    split; [cbn; unfold max_int32, len_ok; lia|]. split; [cbn; unfold max_int32, len_ok; lia|].
    split; [exact I|reflexivity]. }
  split. { repeat constructor; eexists; vm_compute; reflexivity. }
  split. { repeat constructor; eexists; vm_compute; reflexivity. }
  split. { repeat constructor; eexists; vm_compute; reflexivity. }
  split; [vm_compute; reflexivity|]. split; [vm_compute; reflexivity|].
  split; [vm_compute; reflexivity|]. split; [vm_compute; reflexivity|].
  split; unfold small, len_ok; vm_compute; reflexivity.
Qed.

Lemma ex_noct_drops_poison :
  forall i, (i <= 2)%nat ->
  option_map noct_tbs (option_map snd (cert_parts (cert_of ex_src (Some (insert_at i ex_poison [ex_ski; ex_bc])) [48;0;3;1;0]))) =
  Some (tlv 0 true 16 (tbs_content ex_src (Some [ex_ski; ex_bc]))).
Proof.
  intros i Hi. destruct i as [|[|[|i]]]; [vm_compute; reflexivity..|lia].
Qed.
