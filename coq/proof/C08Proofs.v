(* C08Proofs.v — the CertPool model is a fingerprint-keyed ordered set. *)
From Coq Require Import List NArith ZArith Bool Arith Lia Sorted.
From Verif Require Import Harness AbsCert.
From VerifModel Require Import C08.
Import ListNotations.

Definition fps (l : list cert) : list N := map c_fp l.

(* ---------- membership by number ---------- *)
Lemma existsb_eqb_in x s : existsb (N.eqb x) s = true <-> In x s.
Proof.
  rewrite existsb_exists. split.
  - intros [y [Hy E]]. apply N.eqb_eq in E. now subst.
  - intro H. exists x. split; [exact H|apply N.eqb_refl].
Qed.

Lemma existsb_eqb_notin x s : existsb (N.eqb x) s = false <-> ~ In x s.
Proof. rewrite <- existsb_eqb_in. destruct (existsb (N.eqb x) s); split; congruence. Qed.

Lemma NoDup_app_snoc {A} (l : list A) x : NoDup l -> ~ In x l -> NoDup (l ++ [x]).
Proof.
  induction l as [|a r IH]; intros Hn Hx; cbn.
  - constructor; [intros []|constructor].
  - inversion Hn as [|? ? Ha Hr]; subst. constructor.
    + rewrite in_app_iff. cbn. intros [H|[H|[]]]; [contradiction|]. apply Hx. now left.
    + apply IH; [exact Hr|]. intro H; apply Hx; now right.
Qed.

(* ---------- the specification: first occurrences, in order ---------- *)
Fixpoint uniq (seen : list N) (l : list cert) : list cert :=
  match l with
  | [] => []
  | c :: r => if existsb (N.eqb (c_fp c)) seen then uniq seen r
              else c :: uniq (seen ++ [c_fp c]) r
  end.

Lemma uniq_in seen l x :
  In x (fps (uniq seen l)) <-> In x (fps l) /\ ~ In x seen.
Proof.
  revert seen. induction l as [|c r IH]; intro seen; cbn [uniq fps map In].
  - tauto.
  - destruct (existsb (N.eqb (c_fp c)) seen) eqn:E.
    + apply existsb_eqb_in in E. fold (fps (uniq seen r)). rewrite IH. fold (fps r).
      split; [tauto|]. intros [[H|H] Hn]; [subst; contradiction|tauto].
    + apply existsb_eqb_notin in E. cbn [map In]. fold (fps (uniq (seen ++ [c_fp c]) r)).
      rewrite IH. fold (fps r). rewrite in_app_iff. cbn [In].
      split.
      * intros [H|[H Hn]]; [subst; tauto|]. split; [tauto|]. intro; apply Hn; tauto.
      * intros [[H|H] Hn]; [now left|].
        destruct (N.eq_dec (c_fp c) x) as [->|Hne]; [now left|]. right. split; [exact H|].
        intros [H'|[H'|[]]]; [contradiction|congruence].
Qed.

Lemma uniq_nodup seen l : NoDup (fps (uniq seen l)).
Proof.
  revert seen. induction l as [|c r IH]; intro seen; cbn [uniq].
  - constructor.
  - destruct (existsb (N.eqb (c_fp c)) seen); [apply IH|].
    cbn [fps map]. constructor; [|apply IH].
    fold (fps (uniq (seen ++ [c_fp c]) r)). rewrite uniq_in. rewrite in_app_iff. cbn. tauto.
Qed.

Lemma uniq_app s l1 l2 :
  uniq s (l1 ++ l2) = uniq s l1 ++ uniq (s ++ fps (uniq s l1)) l2.
Proof.
  revert s. induction l1 as [|c r IH]; intro s; cbn [app uniq].
  - cbn. now rewrite app_nil_r.
  - destruct (existsb (N.eqb (c_fp c)) s); [apply IH|].
    cbn [app fps map]. rewrite IH. f_equal. f_equal. f_equal.
    rewrite <- app_assoc. reflexivity.
Qed.

Lemma uniq_uniq s s' l :
  (forall x, In x s' -> In x s) -> uniq s (uniq s' l) = uniq s l.
Proof.
  revert s s'. induction l as [|c r IH]; intros s s' Hsub; cbn [uniq]; [reflexivity|].
  destruct (existsb (N.eqb (c_fp c)) s') eqn:E'.
  - apply existsb_eqb_in in E'. apply Hsub in E'. apply existsb_eqb_in in E'. rewrite E'.
    now apply IH.
  - cbn [uniq]. destruct (existsb (N.eqb (c_fp c)) s) eqn:E.
    + apply IH. intros x Hx. apply in_app_iff in Hx as [Hx|[<-|[]]]; [now apply Hsub|].
      now apply existsb_eqb_in.
    + f_equal. apply IH. intros x Hx. rewrite in_app_iff in *. destruct Hx as [Hx|Hx]; [left; now apply Hsub|now right].
Qed.

Lemma uniq_union a b : uniq [] (uniq [] a ++ uniq [] b) = uniq [] (a ++ b).
Proof.
  rewrite !uniq_app. rewrite (uniq_uniq [] [] a) by tauto. f_equal.
  apply uniq_uniq. intros x [].
Qed.

(* ---------- list-level AddCert ---------- *)
Definition mem_fp (c : cert) (l : list cert) : bool := existsb (N.eqb (c_fp c)) (fps l).
Definition ladd (l : list cert) (c : cert) : list cert := if mem_fp c l then l else l ++ [c].

Lemma fold_ladd l : forall acc, fold_left ladd l acc = acc ++ uniq (fps acc) l.
Proof.
  induction l as [|c r IH]; intro acc; cbn [fold_left uniq].
  - now rewrite app_nil_r.
  - unfold ladd at 2, mem_fp. destruct (existsb (N.eqb (c_fp c)) (fps acc)); [apply IH|].
    rewrite IH. unfold fps. rewrite map_app. cbn [map]. now rewrite <- app_assoc.
Qed.

(* ---------- positions ---------- *)
Fixpoint positions_from (f : cert -> bool) (i : nat) (l : list cert) : list nat :=
  match l with
  | [] => []
  | c :: r => if f c then i :: positions_from f (S i) r else positions_from f (S i) r
  end.
Definition positions (f : cert -> bool) (l : list cert) : list nat := positions_from f 0 l.

Lemma positions_from_snoc f l : forall i c,
  positions_from f i (l ++ [c]) = positions_from f i l ++ (if f c then [i + length l] else []).
Proof.
  induction l as [|d r IH]; intros i c; cbn [app positions_from length].
  - rewrite Nat.add_0_r. destruct (f c); reflexivity.
  - rewrite IH. replace (S i + length r) with (i + S (length r)) by lia.
    destruct (f d); reflexivity.
Qed.

Lemma positions_from_spec f l : forall i j,
  In j (positions_from f i l) <->
  i <= j /\ exists c, nth_error l (j - i) = Some c /\ f c = true.
Proof.
  induction l as [|d r IH]; intros i j; cbn [positions_from].
  - split; [intros []|]. intros [_ [c [H _]]]. destruct (j - i); discriminate.
  - assert (R : In j (positions_from f (S i) r) <->
                i <= j /\ j <> i /\ exists c, nth_error (d :: r) (j - i) = Some c /\ f c = true).
    { rewrite IH. split.
      - intros [L [c [Hn Hf]]]. split; [lia|]. split; [lia|]. exists c. split; [|exact Hf].
        replace (j - i) with (S (j - S i)) by lia. exact Hn.
      - intros [L [Ne [c [Hn Hf]]]]. split; [lia|]. exists c. split; [|exact Hf].
        replace (j - i) with (S (j - S i)) in Hn by lia. exact Hn. }
    destruct (f d) eqn:Fd; cbn [In]; rewrite R.
    + split.
      * intros [<-|H]; [|tauto]. split; [lia|]. exists d. rewrite Nat.sub_diag. now split.
      * intros [L H]. destruct (Nat.eq_dec i j) as [->|Ne]; [now left|]. right. split; [exact L|]. split; [congruence|exact H].
    + split; [tauto|]. intros [L [c [Hn Hf]]]. split; [exact L|]. split; [|now exists c].
      intros ->. rewrite Nat.sub_diag in Hn. cbn in Hn. congruence.
Qed.

Lemma positions_spec f l j :
  In j (positions f l) <-> exists c, nth_error l j = Some c /\ f c = true.
Proof.
  unfold positions. rewrite positions_from_spec, Nat.sub_0_r. split; [tauto|]. intro H; split; [lia|exact H].
Qed.

Lemma positions_from_sorted f l : forall i,
  StronglySorted lt (positions_from f i l) /\ Forall (fun j => i <= j) (positions_from f i l).
Proof.
  induction l as [|d r IH]; intro i; cbn [positions_from].
  - split; constructor.
  - destruct (IH (S i)) as [S1 F1].
    assert (F2 : Forall (fun j => i <= j) (positions_from f (S i) r)).
    { eapply Forall_impl; [|exact F1]. cbn; intros; lia. }
    destruct (f d); [|now split].
    split; constructor; [exact S1| |lia|exact F2].
    eapply Forall_impl; [|exact F1]. cbn; intros; lia.
Qed.

Lemma positions_sorted f l : StronglySorted lt (positions f l).
Proof. apply positions_from_sorted. Qed.

(* ---------- association lists ---------- *)
Lemma amap_get_push m k i k' :
  amap_get (amap_push m k i) k' =
  if N.eqb k' k then amap_get m k ++ [i] else amap_get m k'.
Proof.
  induction m as [|[k0 l] r IH]; cbn [amap_push amap_get].
  - destruct (N.eqb k' k); reflexivity.
  - destruct (N.eqb_spec k k0) as [E|Ne]; cbn [amap_get].
    + subst k0. destruct (N.eqb k' k); reflexivity.
    + destruct (N.eqb_spec k' k0) as [E'|Ne'].
      * subst k0. destruct (N.eqb_spec k' k); [congruence|reflexivity].
      * exact IH.
Qed.

Lemma smap_get_snoc m k v k' :
  smap_get (m ++ [(k, v)]) k' =
  match smap_get m k' with Some x => Some x | None => if N.eqb k' k then Some v else None end.
Proof.
  induction m as [|[k0 v0] r IH]; cbn [app smap_get]; [reflexivity|].
  destruct (N.eqb k' k0); [reflexivity|exact IH].
Qed.

(* ---------- the representation invariant ---------- *)
Definition Inv (p : pool) : Prop :=
  NoDup (fps (certs p)) /\
  by_sha p = combine (fps (certs p)) (seq 0 (length (certs p))) /\
  (forall k, amap_get (by_name p) k = positions (fun c => N.eqb (c_subject c) k) (certs p)) /\
  (forall k, amap_get (by_skid p) k = positions (fun c => optN_eqb (c_skid c) (Some k)) (certs p)).

Lemma inv_empty : Inv empty_pool.
Proof. repeat split; cbn; intros; constructor. Qed.

Lemma smap_get_combine ks : forall i k,
  smap_get (combine ks (seq i (length ks))) k = None <-> ~ In k ks.
Proof.
  induction ks as [|k0 r IH]; intros i k; cbn [length seq combine smap_get In].
  - tauto.
  - destruct (N.eqb_spec k k0) as [->|Ne].
    + split; [discriminate|]. intro H; exfalso; apply H; now left.
    + rewrite IH. split; [intros H [E|E]; [congruence|contradiction]|tauto].
Qed.

Lemma smap_get_combine_some ks : forall i k v,
  smap_get (combine ks (seq i (length ks))) k = Some v -> i <= v /\ nth_error ks (v - i) = Some k.
Proof.
  induction ks as [|k0 r IH]; intros i k v; cbn [length seq combine smap_get]; [discriminate|].
  destruct (N.eqb_spec k k0) as [->|Ne].
  - intro H; inversion H; subst. rewrite Nat.sub_diag. split; [lia|reflexivity].
  - intro H. apply IH in H as [L H]. split; [lia|].
    replace (v - i) with (S (v - S i)) by lia. exact H.
Qed.

Lemma mem_fp_sha p c :
  Inv p -> (smap_get (by_sha p) (c_fp c) = None <-> mem_fp c (certs p) = false).
Proof.
  intros [_ [Hs _]]. rewrite Hs. unfold mem_fp. rewrite existsb_eqb_notin.
  unfold fps at 2. rewrite <- (map_length c_fp (certs p)). apply smap_get_combine.
Qed.

Lemma combine_snoc {A B} (l1 : list A) (l2 : list B) a b :
  length l1 = length l2 -> combine (l1 ++ [a]) (l2 ++ [b]) = combine l1 l2 ++ [(a, b)].
Proof.
  revert l2. induction l1 as [|x r IH]; intros [|y s] L; cbn in *; try discriminate; [reflexivity|].
  f_equal. apply IH. lia.
Qed.

Lemma add_cert_certs p c : Inv p -> certs (add_cert p c) = ladd (certs p) c.
Proof.
  intro I. unfold add_cert, ladd.
  destruct (smap_get (by_sha p) (c_fp c)) eqn:E.
  - destruct (mem_fp c (certs p)) eqn:M; [reflexivity|].
    apply (mem_fp_sha p c I) in M. congruence.
  - apply (mem_fp_sha p c I) in E. now rewrite E.
Qed.

Lemma optN_eqb_some a k : optN_eqb a (Some k) = true <-> a = Some k.
Proof.
  destruct a as [x|]; cbn; [|split; discriminate].
  rewrite N.eqb_eq. split; congruence.
Qed.

Lemma add_cert_inv p c : Inv p -> Inv (add_cert p c).
Proof.
  intro I. pose proof I as [Hnd [Hs [Hn Hk]]]. unfold add_cert.
  destruct (smap_get (by_sha p) (c_fp c)) eqn:E; [exact I|].
  apply (mem_fp_sha p c I) in E. unfold mem_fp in E. apply existsb_eqb_notin in E.
  unfold Inv. cbn [certs by_sha by_name by_skid].
  split; [|split; [|split]].
  - unfold fps. rewrite map_app. cbn [map]. apply NoDup_app_snoc; assumption.
  - rewrite Hs. unfold fps. rewrite map_app, app_length. cbn [map length].
    rewrite Nat.add_1_r, seq_S. cbn [plus]. rewrite combine_snoc; [reflexivity|].
    now rewrite map_length, seq_length.
  - intro k. rewrite amap_get_push. unfold positions. rewrite positions_from_snoc. cbn [plus].
    rewrite N.eqb_sym. destruct (N.eqb_spec (c_subject c) k) as [->|Ne].
    + now rewrite Hn.
    + now rewrite app_nil_r, Hn.
  - intro k. unfold positions. rewrite positions_from_snoc. cbn [plus].
    destruct (c_skid c) as [k0|] eqn:Ek.
    + rewrite amap_get_push. cbn [optN_eqb option_eqb]. rewrite N.eqb_sym.
      destruct (N.eqb_spec k0 k) as [->|Ne]; [now rewrite Hk|now rewrite app_nil_r, Hk].
    + cbn. now rewrite app_nil_r, Hk.
Qed.

(* ---------- folds of AddCert ---------- *)
Lemma fold_add_inv l : forall p, Inv p -> Inv (fold_left add_cert l p).
Proof. induction l as [|c r IH]; intros p I; cbn [fold_left]; [exact I|]. apply IH. now apply add_cert_inv. Qed.

Lemma fold_add_certs l : forall p, Inv p ->
  certs (fold_left add_cert l p) = fold_left ladd l (certs p).
Proof.
  induction l as [|c r IH]; intros p I; cbn [fold_left]; [reflexivity|].
  rewrite IH by now apply add_cert_inv. now rewrite add_cert_certs.
Qed.

(* adding a list to a pool that represents history H gives the pool of H ++ l *)
Lemma fold_add_repr l p H :
  Inv p -> certs p = uniq [] H ->
  certs (fold_left add_cert l p) = uniq [] (H ++ l).
Proof.
  intros I E. rewrite fold_add_certs by exact I. rewrite fold_ladd, E, uniq_app. reflexivity.
Qed.

Lemma add_cert_repr c p H :
  Inv p -> certs p = uniq [] H -> certs (add_cert p c) = uniq [] (H ++ [c]).
Proof. intros I E. exact (fold_add_repr [c] p H I E). Qed.

(* ---------- Sum ---------- *)
Lemma sum_inv a b : Inv (sum a b).
Proof. unfold sum. apply fold_add_inv, fold_add_inv, inv_empty. Qed.

Lemma sum_certs a b : certs (sum a b) = uniq [] (opt_certs a ++ opt_certs b).
Proof.
  unfold sum.
  rewrite (fold_add_repr (opt_certs b) _ (opt_certs a)).
  - reflexivity.
  - apply fold_add_inv, inv_empty.
  - exact (fold_add_repr (opt_certs a) empty_pool [] inv_empty eq_refl).
Qed.

(* ---------- AppendCertsFromPEM ---------- *)
Fixpoint pem_certs (bs : list pemblock) : list cert :=
  match bs with
  | [] => []
  | BCert c :: r => c :: pem_certs r
  | _ :: r => pem_certs r
  end.
Definition is_cert_block (b : pemblock) : bool := match b with BCert _ => true | _ => false end.
Definition has_cert (bs : list pemblock) : bool := existsb is_cert_block bs.

Lemma append_pem_spec bs : forall s ok,
  append_pem s bs ok = (fold_left add_cert (pem_certs bs) s, ok || has_cert bs).
Proof.
  induction bs as [|b r IH]; intros s ok; cbn [append_pem pem_certs has_cert existsb fold_left].
  - now rewrite orb_false_r.
  - destruct b; cbn [is_cert_block orb]; rewrite IH; fold (has_cert r); try reflexivity.
    now rewrite orb_true_r.
Qed.

Lemma has_cert_iff bs : has_cert bs = true <-> exists c, In (BCert c) bs.
Proof.
  unfold has_cert. rewrite existsb_exists. split.
  - intros [b [Hin Hb]]. destruct b; try discriminate. now exists c.
  - intros [c Hin]. exists (BCert c). now split.
Qed.

(* ---------- register files ---------- *)
Lemma set_nth_length {A} (st : list A) : forall r p, length (set_nth st r p) = length st.
Proof. induction st as [|h t IH]; intros [|r] p; cbn; try reflexivity. now rewrite IH. Qed.

Lemma nth_set_nth {A} (st : list A) : forall d p r def,
  nth r (set_nth st d p) def = if Nat.eqb r d && Nat.ltb d (length st) then p else nth r st def.
Proof.
  induction st as [|h t IH]; intros d p r def.
  - cbn. rewrite andb_false_r. reflexivity.
  - destruct d as [|d]; destruct r as [|r]; cbn [set_nth nth length]; try reflexivity.
    rewrite IH. reflexivity.
Qed.

Lemma nth_repeat' {A} (x : A) n r : nth r (repeat x n) x = x.
Proof. revert r. induction n as [|n IH]; intros [|r]; cbn; auto. Qed.

(* ghost state: the list of certificates ever added to each register *)
Definition hregs := list (list cert).
Definition hreg (h : hregs) (r : nat) : list cert := nth r h [].
Definition ohreg (h : hregs) (r : option nat) : list cert :=
  match r with None => [] | Some i => hreg h i end.
Definition hstep (h : hregs) (o : op) : hregs :=
  match o with
  | ONew r => set_nth h r []
  | OAdd r c => set_nth h r (hreg h r ++ [c])
  | OPem r bs => set_nth h r (hreg h r ++ pem_certs bs)
  | OSum d a b => set_nth h d (ohreg h a ++ ohreg h b)
  end.
Definition hrun (h : hregs) (ops : list op) : hregs := fold_left hstep ops h.
Definition hinit (n : nat) : hregs := repeat [] n.

Definition Rel (st : regs) (h : hregs) : Prop :=
  length st = length h /\
  forall r, Inv (reg st r) /\ certs (reg st r) = uniq [] (hreg h r).

Lemma rel_init n : Rel (init n) (hinit n).
Proof.
  split; [unfold init, hinit; now rewrite !repeat_length|].
  intro r. unfold reg, hreg, init, hinit. rewrite !nth_repeat'. split; [apply inv_empty|reflexivity].
Qed.

Lemma rel_set st h d p H :
  Rel st h -> Inv p -> certs p = uniq [] H -> Rel (set_reg st d p) (set_nth h d H).
Proof.
  intros [L R] I E. split; [unfold set_reg; now rewrite !set_nth_length|].
  intro r. unfold reg, hreg, set_reg. rewrite !nth_set_nth, <- L.
  destruct (Nat.eqb r d && Nat.ltb d (length st)); [now split|apply R].
Qed.

Lemma oreg_certs st h a : Rel st h -> opt_certs (oreg st a) = uniq [] (ohreg h a).
Proof. intros [_ R]. destruct a as [i|]; cbn; [apply R|reflexivity]. Qed.

Lemma rel_step st h o : Rel st h -> Rel (fst (step st o)) (hstep h o).
Proof.
  intro HR. pose proof HR as [L R]. destruct o as [r|r c|r bs|d a b]; cbn [step hstep fst].
  - apply rel_set; [exact HR|apply inv_empty|reflexivity].
  - destruct (R r) as [I E]. apply rel_set; [exact HR|now apply add_cert_inv|now apply add_cert_repr].
  - destruct (R r) as [I E]. rewrite append_pem_spec. cbn [fst].
    apply rel_set; [exact HR|now apply fold_add_inv|now apply fold_add_repr].
  - apply rel_set; [exact HR|apply sum_inv|].
    rewrite sum_certs, (oreg_certs st h a HR), (oreg_certs st h b HR). apply uniq_union.
Qed.

Lemma rel_run ops : forall st h, Rel st h -> Rel (run_ops st ops) (hrun h ops).
Proof.
  induction ops as [|o r IH]; intros st h HR; cbn; [exact HR|].
  apply IH. now apply rel_step.
Qed.

(* every register, after any history, holds exactly the distinct certificates added to it,
   in first-insertion order, and its indices are consistent *)
Lemma pool_repr n ops r :
  Inv (reg (run_ops (init n) ops) r) /\
  certs (reg (run_ops (init n) ops) r) = uniq [] (hreg (hrun (hinit n) ops) r).
Proof. apply (rel_run ops (init n) (hinit n) (rel_init n)). Qed.

(* ---------- observers ---------- *)
Lemma contains_spec p c :
  Inv p -> (contains (Some p) c = true <-> In (c_fp c) (fps (certs p))).
Proof.
  intro I. cbn [contains]. pose proof (mem_fp_sha p c I) as M. unfold mem_fp in M.
  rewrite existsb_eqb_notin in M.
  destruct (smap_get (by_sha p) (c_fp c)).
  - split; [intros _|reflexivity].
    destruct (in_dec N.eq_dec (c_fp c) (fps (certs p))) as [H|H]; [exact H|].
    apply M in H. discriminate.
  - split; [discriminate|]. intro H. exfalso. now apply (proj1 M).
Qed.

Lemma covers_spec p q :
  Inv p -> (covers p (Some q) = true <-> incl (fps (certs q)) (fps (certs p))).
Proof.
  intro I. cbn [covers]. rewrite forallb_forall. split.
  - intros H x Hx. apply in_map_iff in Hx as [c [<- Hc]]. apply (contains_spec p c I). now apply H.
  - intros H c Hc. apply (contains_spec p c I). apply H. now apply in_map.
Qed.

Lemma observers_agree n ops r :
  let st := run_ops (init n) ops in
  let hist := hrun (hinit n) ops in
  let p := reg st r in
  let S := uniq [] (hreg hist r) in
  certs p = S /\ size (Some p) = length S /\ subjects p = map c_subject S /\
  (forall c, contains (Some p) c = true <-> In (c_fp c) (fps (hreg hist r))) /\
  (forall r', covers p (Some (reg st r')) = true <->
              incl (fps (hreg hist r')) (fps (hreg hist r))) /\
  covers p None = true /\ contains None = (fun _ => false) /\ size None = 0.
Proof.
  cbn zeta. destruct (pool_repr n ops r) as [I E].
  split; [exact E|]. split; [cbn [size]; now rewrite E|]. split; [unfold subjects; now rewrite E|].
  split; [|split; [|repeat split]].
  - intro c. rewrite (contains_spec _ c I), E, uniq_in. cbn. tauto.
  - intro r'. destruct (pool_repr n ops r') as [I' E'].
    rewrite (covers_spec _ _ I), E, E'. unfold incl. split.
    + intros H x Hx. specialize (H x). rewrite !uniq_in in H. apply H. cbn; tauto.
    + intros H x Hx. rewrite uniq_in in *. cbn in *. split; [apply H; tauto|tauto].
Qed.

(* ---------- findVerifiedParents ---------- *)
Section ParentsProofs.
  Variable sigok : cert -> cert -> bool.

  Definition verifies (cs : list cert) (c : cert) (i : nat) : bool :=
    match nth_error cs i with
    | Some par => check_sig_from sigok c par
    | None => false
    end.

  Lemma fvp_loop_filter cs c cand :
    (forall i, In i cand -> i < length cs) ->
    fvp_loop sigok cs c cand = Some (filter (verifies cs c) cand).
  Proof.
    induction cand as [|i r IH]; intro Hr; cbn [fvp_loop filter]; [reflexivity|].
    unfold verifies at 1.
    destruct (nth_error cs i) as [par|] eqn:E.
    - rewrite IH by (intros j Hj; apply Hr; now right).
      destruct (check_sig_from sigok c par); reflexivity.
    - exfalso. apply nth_error_None in E. specialize (Hr i (or_introl eq_refl)). lia.
  Qed.

  Definition by_issuer_name (p : pool) (c : cert) : list nat :=
    positions (fun x => N.eqb (c_subject x) (c_issuer c)) (certs p).

  (* candidates: pool members whose key id equals the child's authority key id if there are any,
     otherwise pool members whose subject equals the child's issuer *)
  Lemma candidates_spec p c :
    Inv p ->
    candidates p c =
    match c_akid c with
    | Some k =>
        match positions (fun x => optN_eqb (c_skid x) (Some k)) (certs p) with
        | [] => by_issuer_name p c
        | l => l
        end
    | None => by_issuer_name p c
    end.
  Proof.
    intros [_ [_ [Hn Hk]]]. unfold candidates, by_issuer_name.
    cbv zeta. destruct (c_akid c) as [k|]; rewrite ?Hk, Hn; [|reflexivity].
    destruct (positions (fun x => optN_eqb (c_skid x) (Some k)) (certs p)); reflexivity.
  Qed.

  Lemma candidates_in_range p c :
    Inv p -> forall i, In i (candidates p c) -> i < length (certs p).
  Proof.
    intros I i Hi. rewrite (candidates_spec p c I) in Hi. unfold by_issuer_name in Hi.
    assert (G : forall f, In i (positions f (certs p)) -> i < length (certs p)).
    { intros f H. apply positions_spec in H as [x [Hx _]]. apply nth_error_Some. congruence. }
    destruct (c_akid c) as [k|]; [|now apply G in Hi].
    destruct (positions (fun x => optN_eqb (c_skid x) (Some k)) (certs p)) eqn:E.
    - now apply G in Hi.
    - rewrite <- E in Hi. now apply G in Hi.
  Qed.

  Lemma parents_exact p c :
    Inv p ->
    find_verified_parents sigok (Some p) c = Some (filter (verifies (certs p) c) (candidates p c)).
  Proof. intro I. cbn. apply fvp_loop_filter. now apply candidates_in_range. Qed.

  Lemma check_sig_from_true c par :
    check_sig_from sigok c par = true ->
    c_subject par = c_issuer c /\ sigok c par = true /\ c_pk_known par = true.
  Proof.
    unfold check_sig_from. intro H.
    destruct (((N.eqb (c_version par) 3 && negb (c_bc_valid par)) || (c_bc_valid par && negb (c_is_ca par))) && negb (c_entrust c)); [discriminate|].
    destruct (negb (N.eqb (c_key_usage par) 0) && N.eqb (N.land (c_key_usage par) ku_cert_sign) 0); [discriminate|].
    destruct (c_pk_known par); [|discriminate]. cbn [negb] in H.
    destruct (N.eqb_spec (c_subject par) (c_issuer c)) as [E|]; [|discriminate].
    cbn [negb] in H. now repeat split.
  Qed.

  (* parent lookup never panics and only returns pool members whose signature over the child verifies *)
  Lemma parents_sound p c :
    Inv p ->
    exists l, find_verified_parents sigok (Some p) c = Some l /\
    forall i, In i l ->
      exists par, nth_error (certs p) i = Some par /\
                  check_sig_from sigok c par = true /\
                  c_subject par = c_issuer c /\ sigok c par = true.
  Proof.
    intro I. eexists. split; [now apply parents_exact|].
    intros i Hi. apply filter_In in Hi as [_ Hv]. unfold verifies in Hv.
    destruct (nth_error (certs p) i) as [par|]; [|discriminate].
    exists par. split; [reflexivity|]. split; [exact Hv|].
    apply check_sig_from_true in Hv. tauto.
  Qed.

  Lemma parents_sound_history n ops r c :
    let p := reg (run_ops (init n) ops) r in
    exists l, find_verified_parents sigok (Some p) c = Some l /\
    forall i, In i l ->
      i < size (Some p) /\
      exists par, nth_error (certs p) i = Some par /\
                  check_sig_from sigok c par = true /\
                  c_subject par = c_issuer c /\ sigok c par = true.
  Proof.
    cbn zeta. destruct (pool_repr n ops r) as [I _].
    destruct (parents_sound _ c I) as [l [E H]]. exists l. split; [exact E|].
    intros i Hi. destruct (H i Hi) as [par [Hn Hr]]. split.
    - cbn [size]. apply nth_error_Some. congruence.
    - now exists par.
  Qed.
End ParentsProofs.

(* non-vacuity: a concrete history with a duplicate, a shared subject and a Sum *)
Definition ex_cert (fp subj : N) (sk : option N) : cert :=
  mkCert fp subj 0%N 0%N sk None 3%N true true (-1)%Z 0%N true false [] 0 0%Z 0%Z false false [] [] [].
Lemma example_history :
  let a := ex_cert 1 7 (Some 5%N) in let b := ex_cert 2 7 None in let c := ex_cert 3 8 (Some 5%N) in
  let st := run_ops (init 2) [OAdd 0 a; OAdd 0 b; OAdd 0 a; OAdd 1 c; OAdd 1 b; OSum 1 (Some 1) (Some 0)] in
  fps (certs (reg st 0)) = [1; 2]%N /\ fps (certs (reg st 1)) = [3; 2; 1]%N /\
  amap_get (by_name (reg st 1)) 7%N = [1; 2] /\ amap_get (by_skid (reg st 1)) 5%N = [0; 2] /\
  covers (reg st 1) (Some (reg st 0)) = true /\ covers (reg st 0) (Some (reg st 1)) = false.
Proof. vm_compute. repeat split. Qed.
