(* C30DirectProofs — the index-arithmetic decoders (mirrored literally in model/C30Direct.v)
   accept exactly the inputs, and produce exactly the values, of the DSL formats used in model/C30.v. *)
From Coq Require Import List NArith Bool Arith Lia.
From Verif Require Import Harness WireTLS.
From VerifModel Require Import C30 C30Direct.
Import ListNotations.
Open Scope N_scope.

Lemma rd_bytes_exact n (r : bytes) :
  match rd_bytes n r with
  | Some (b, []) => Some b
  | _ => None
  end = if n =? blen r then Some r else None.
Proof.
  unfold rd_bytes. destruct (n <=? blen r) eqn:L.
  - apply N.leb_le in L. destruct (n =? blen r) eqn:E.
    + apply N.eqb_eq in E. subst n. unfold blen. rewrite Nat2N.id, firstn_all, skipn_all. reflexivity.
    + apply N.eqb_neq in E. destruct (skipn (N.to_nat n) r) eqn:S; [|reflexivity].
      exfalso. apply E. assert (length (skipn (N.to_nat n) r) = 0%nat) by now rewrite S.
      rewrite skipn_length in H. unfold blen in *. lia.
  - apply N.leb_gt in L. destruct (n =? blen r) eqn:E; [|reflexivity]. apply N.eqb_eq in E. lia.
Qed.

Theorem kx_direct_eq t s :
  dec_all (FPair (FSkip [t]) (FBytes 3 false)) s = option_map (fun b => VP VU (VB b)) (dec_kx_direct s).
Proof.
  unfold dec_all, dec_kx_direct.
  destruct s as [|a [|l1 [|l2 [|l3 r]]]]; try reflexivity.
  cbn [dec]. change (blen [t]) with 1. change (a :: l1 :: l2 :: l3 :: r) with ([a] ++ l1 :: l2 :: l3 :: r) at 1.
  rewrite rd_bytes_app' by reflexivity.
  unfold rd_lp. change (l1 :: l2 :: l3 :: r) with ([l1; l2; l3] ++ r) at 1.
  unfold rd_uint. rewrite rd_bytes_app' by reflexivity.
  replace (blen (a :: l1 :: l2 :: l3 :: r) <? 4) with false
    by (symmetry; apply N.ltb_ge; unfold blen; cbn [length]; lia).
  change (sub 1 3 (a :: l1 :: l2 :: l3 :: r)) with [l1; l2; l3].
  change (skipn 4 (a :: l1 :: l2 :: l3 :: r)) with r.
  replace (blen (a :: l1 :: l2 :: l3 :: r) - 4) with (blen r) by (unfold blen; cbn [length]; lia).
  set (L := be_dec [l1; l2; l3]).
  pose proof (rd_bytes_exact L r) as X.
  destruct (rd_bytes L r) as [[b rest]|]; cbn [andb is_nil].
  - destruct rest; destruct (L =? blen r); cbn [negb option_map]; try discriminate X; try reflexivity.
    inversion X; reflexivity.
  - destruct (L =? blen r); cbn [negb option_map]; [discriminate X|reflexivity].
Qed.

(* a decoder cannot succeed on less than the framing it has to read *)
Fixpoint min_dec_len (f : fmt) : nat :=
  match f with
  | FUnit => 0
  | FUint n _ => n
  | FSkip c => length c
  | FFixed n => N.to_nat n
  | FBytes ll _ => ll
  | FVec ll _ _ => ll
  | FSub ll g => ll + min_dec_len g
  | FHdr _ g => 4 + min_dec_len g
  | FPair g h => min_dec_len g + min_dec_len h
  end.

Lemma dec_min f : forall s v r, dec f s = Some (v, r) -> (min_dec_len f + length r <= length s)%nat.
Proof.
  induction f as [|n p|c|n|ll ne|ll ne g IH|ll g IH|t g IH|g IHg h IHh]; intros s v r H; simpl in H; cbn [min_dec_len].
  - inversion H. lia.
  - unfold rd_uint in H. destruct (rd_bytes (N.of_nat n) s) as [[a b]|] eqn:E; [|discriminate].
    destruct (p (be_dec a)); [|discriminate]. inversion H; subst. apply rd_bytes_some in E as [-> L].
    rewrite app_length. unfold blen in L. lia.
  - destruct (rd_bytes (blen c) s) as [[a b]|] eqn:E; [|discriminate]. inversion H; subst.
    apply rd_bytes_some in E as [-> L]. rewrite app_length. unfold blen in L. lia.
  - destruct (rd_bytes n s) as [[a b]|] eqn:E; [|discriminate]. inversion H; subst.
    apply rd_bytes_some in E as [-> L]. rewrite app_length. unfold blen in L. lia.
  - destruct (rd_lp ll s) as [[a b]|] eqn:E; [|discriminate]. destruct (ne && is_nil a); [discriminate|].
    inversion H; subst. apply rd_lp_some in E as [h0 [-> L]]. rewrite !app_length. lia.
  - destruct (rd_lp ll s) as [[a b]|] eqn:E; [|discriminate]. destruct (ne && is_nil a); [discriminate|].
    destruct (dec_many (dec g) (length a) a); [|discriminate].
    inversion H; subst. apply rd_lp_some in E as [h0 [-> L]]. rewrite !app_length. lia.
  - destruct (rd_lp ll s) as [[a b]|] eqn:E; [|discriminate]. destruct (dec g a) as [[w [|]]|] eqn:D; try discriminate.
    inversion H; subst. apply rd_lp_some in E as [h0 [-> L]]. apply IH in D. simpl in D.
    rewrite !app_length. lia.
  - destruct (rd_bytes 4 s) as [[a b]|] eqn:E; [|discriminate]. apply rd_bytes_some in E as [-> L].
    apply IH in H. rewrite app_length. unfold blen in L. lia.
  - destruct (dec g s) as [[a r1]|] eqn:E1; [|discriminate]. destruct (dec h r1) as [[b r2]|] eqn:E2; [|discriminate].
    inversion H; subst. apply IHg in E1. apply IHh in E2. lia.
Qed.

Lemma dec_all_short f s : (length s < min_dec_len f)%nat -> dec_all f s = None.
Proof.
  intro H. unfold dec_all. destruct (dec f s) as [[v r]|] eqn:D; [|reflexivity].
  apply dec_min in D. lia.
Qed.

Lemma rd_bytes_all (r : bytes) : rd_bytes (blen r) r = Some (r, []).
Proof. pose proof (rd_bytes_app r []) as H. now rewrite app_nil_r in H. Qed.

Lemma rd_bytes_less n (s b r : bytes) : rd_bytes n s = Some (b, r) -> n <> blen s -> r <> [].
Proof.
  intros H Hn Hr. subst r. apply rd_bytes_some in H as [-> L]. rewrite app_nil_r in Hn. congruence.
Qed.

Lemma dec_all_skip_sub c ll g s :
  dec_all (FPair (FSkip c) (FSub ll g)) s =
  match rd_bytes (blen c) s with
  | Some (_, r1) => match rd_lp ll r1 with
                    | Some (b, []) => match dec g b with
                                      | Some (v, []) => Some (VP VU v)
                                      | _ => None
                                      end
                    | _ => None
                    end
  | None => None
  end.
Proof.
  unfold dec_all. cbn [dec]. destruct (rd_bytes (blen c) s) as [[x r1]|]; [|reflexivity].
  destruct (rd_lp ll r1) as [[b rest]|]; [|reflexivity].
  destruct (dec g b) as [[v [|]]|]; destruct rest; reflexivity.
Qed.

Theorem nst_direct_eq s :
  dec_all fmt_nst s =
  option_map (fun x => VP VU (VP (VN (fst x)) (VB (snd x)))) (dec_nst_direct s).
Proof.
  unfold dec_nst_direct. destruct (blen s <? 10) eqn:L10.
  - apply N.ltb_lt in L10. apply dec_all_short. unfold blen in L10. simpl. lia.
  - apply N.ltb_ge in L10.
    destruct s as [|a [|l1 [|l2 [|l3 [|h0 [|h1 [|h2 [|h3 [|t0 [|t1 r]]]]]]]]]];
      try (unfold blen in L10; cbn [length] in L10; lia).
    set (X := h0 :: h1 :: h2 :: h3 :: t0 :: t1 :: r).
    change (sub 1 3 (a :: l1 :: l2 :: l3 :: X)) with [l1; l2; l3].
    change (sub 8 2 (a :: l1 :: l2 :: l3 :: X)) with [t0; t1].
    change (sub 4 4 (a :: l1 :: l2 :: l3 :: X)) with [h0; h1; h2; h3].
    change (skipn 10 (a :: l1 :: l2 :: l3 :: X)) with r.
    replace (blen (a :: l1 :: l2 :: l3 :: X) - 4) with (blen X) by (unfold blen, X; cbn [length]; lia).
    replace (blen (a :: l1 :: l2 :: l3 :: X) - 10) with (blen r) by (unfold blen, X; cbn [length]; lia).
    set (L := be_dec [l1; l2; l3]). set (T := be_dec [t0; t1]).
    unfold fmt_nst. rewrite dec_all_skip_sub. change (blen [4]) with 1.
    change (a :: l1 :: l2 :: l3 :: X) with ([a] ++ l1 :: l2 :: l3 :: X).
    rewrite rd_bytes_app' by reflexivity.
    unfold rd_lp at 1. change (l1 :: l2 :: l3 :: X) with ([l1; l2; l3] ++ X).
    unfold rd_uint at 1. rewrite rd_bytes_app' by reflexivity. fold L.
    destruct (N.eq_dec L (blen X)) as [E|E].
    + rewrite E, rd_bytes_all, N.eqb_refl. cbn [negb].
      (* inside the block: uint32, then the uint16-prefixed ticket that must reach the end *)
      unfold U32. cbn [dec]. unfold rd_uint at 1. change X with ([h0; h1; h2; h3] ++ t0 :: t1 :: r).
      rewrite rd_bytes_app' by reflexivity. cbn [pAny].
      unfold rd_lp. unfold rd_uint. change (t0 :: t1 :: r) with ([t0; t1] ++ r).
      rewrite rd_bytes_app' by reflexivity. fold T.
      destruct (N.eq_dec T (blen r)) as [E2|E2].
      * rewrite E2, rd_bytes_all, N.eqb_refl. reflexivity.
      * replace (blen r =? T) with false by (symmetry; apply N.eqb_neq; congruence). cbn [negb option_map].
        destruct (rd_bytes T r) as [[b rest]|] eqn:R; [|reflexivity].
        pose proof (rd_bytes_less T r b rest R E2) as Hne. cbn [andb]. destruct rest; [contradiction|reflexivity].
    + replace (blen X =? L) with false by (symmetry; apply N.eqb_neq; congruence). cbn [negb option_map].
      destruct (rd_bytes L X) as [[blk rest]|] eqn:R; [|reflexivity].
      pose proof (rd_bytes_less L X blk rest R E) as Hne.
      destruct rest; [contradiction|reflexivity].
Qed.
