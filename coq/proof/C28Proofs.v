(* C28 — proofs about the wire decoders and the log projection (model/C28.v).
   The decoders are left inverses of the RFC encoders (for all field values within the wire
   format's length bounds), so the log computed from the bytes of a message is the
   projection of the message that was sent. *)
From Coq Require Import List NArith Bool Arith Lia.
From Verif Require Import Harness.
From VerifGen Require Import C28Tables_gen.
From VerifModel Require Import C28.
Import ListNotations.
Open Scope N_scope.

(* ------------------------------------------------------------------ integers *)
Lemma dec_u8_enc n rest : dec_u8 (enc_u8 n ++ rest) = Some (n, rest).
Proof. reflexivity. Qed.

Lemma dec_u16_enc n rest : dec_u16 (enc_u16 n ++ rest) = Some (n, rest).
Proof.
  unfold enc_u16, dec_u16. cbn [app]. f_equal. f_equal.
  rewrite N.mul_comm. symmetry. apply N.div_mod. discriminate.
Qed.

Lemma dec_u24_enc n rest : n < 16777216 -> dec_u24 (enc_u24 n ++ rest) = Some (n, rest).
Proof.
  intros H. unfold enc_u24, dec_u24. cbn [app]. f_equal. f_equal.
  assert (n / 65536 = n / 256 / 256) as -> by (rewrite N.div_div by discriminate; reflexivity).
  pose proof (N.div_mod (n / 256) 256). pose proof (N.div_mod n 256). lia.
Qed.

Lemma dec_u32_enc_small n rest : n < 4294967296 -> dec_u32 (enc_u32 n ++ rest) = Some (n, rest).
Proof.
  intros H. unfold enc_u32, dec_u32. cbn [app]. f_equal. f_equal.
  assert (n / 65536 = n / 256 / 256) as E1 by (rewrite N.div_div by discriminate; reflexivity).
  assert (n / 16777216 = n / 256 / 256 / 256) as E2 by (rewrite !N.div_div by discriminate; reflexivity).
  rewrite E1, E2.
  pose proof (N.div_mod (n / 256 / 256) 256). pose proof (N.div_mod (n / 256) 256). pose proof (N.div_mod n 256). lia.
Qed.

(* ------------------------------------------------------------------ vectors *)
Lemma blen_app a b : blen (a ++ b) = blen a + blen b.
Proof. unfold blen. rewrite app_length. lia. Qed.

Lemma take_app a rest : take (blen a) (a ++ rest) = Some (a, rest).
Proof.
  unfold take. rewrite blen_app.
  assert (blen a <=? blen a + blen rest = true) as -> by (apply N.leb_le; lia).
  unfold blen. rewrite Nnat.Nat2N.id. rewrite firstn_app, skipn_app, Nat.sub_diag.
  rewrite firstn_all, skipn_all. cbn. now rewrite app_nil_r.
Qed.

Lemma take_length n b x r : take n b = Some (x, r) -> blen x = n /\ b = x ++ r.
Proof.
  unfold take. destruct (n <=? blen b) eqn:L; [|discriminate]. apply N.leb_le in L.
  intros E. inversion E; subst. split.
  - unfold blen in *. rewrite firstn_length. lia.
  - symmetry. apply firstn_skipn.
Qed.

Lemma dec_vec8_enc b rest : dec_vec8 (enc_vec8 b ++ rest) = Some (b, rest).
Proof. unfold dec_vec8, dec_vec, enc_vec8. rewrite <- app_assoc. cbn [enc_u8 app dec_u8 bind]. apply take_app. Qed.

Lemma dec_vec16_enc b rest : dec_vec16 (enc_vec16 b ++ rest) = Some (b, rest).
Proof.
  unfold dec_vec16, dec_vec, enc_vec16. rewrite <- app_assoc, dec_u16_enc. cbn [bind]. apply take_app.
Qed.

Lemma dec_vec24_enc b rest : blen b < 16777216 -> dec_vec24 (enc_vec24 b ++ rest) = Some (b, rest).
Proof.
  intros H. unfold dec_vec24, dec_vec, enc_vec24. rewrite <- app_assoc, dec_u24_enc by assumption.
  cbn [bind]. apply take_app.
Qed.

(* nothing is lost: a decoded vector has exactly the announced length *)
Lemma dec_vec16_length b x r : dec_vec16 b = Some (x, r) -> exists n rest, dec_u16 b = Some (n, rest) /\ blen x = n.
Proof.
  unfold dec_vec16, dec_vec. destruct (dec_u16 b) as [[n rest]|]; [|discriminate]. cbn [bind].
  intros E. apply take_length in E as [E _]. eauto.
Qed.

Lemma dec_u16s_enc l : dec_u16s (enc_u16s l) = Some l.
Proof.
  induction l as [|a l IH]; [reflexivity|].
  unfold enc_u16s in *. cbn [flat_map enc_u16 app dec_u16s]. rewrite IH. cbn. f_equal. f_equal.
  rewrite N.mul_comm. symmetry. apply N.div_mod. discriminate.
Qed.

(* ------------------------------------------------------------------ sequences of items *)
Section Many.
  Context {A : Type} (item : bytes -> option (A * bytes)) (enc : A -> bytes) (good : A -> Prop).
  Hypothesis item_enc : forall a rest, good a -> item (enc a ++ rest) = Some (a, rest).
  Hypothesis enc_nonempty : forall a, enc a <> [].

  Lemma dec_many_enc l fuel :
    Forall good l -> (length l <= fuel)%nat -> dec_many item fuel (flat_map enc l) = Some l.
  Proof.
    revert fuel. induction l as [|a l IH]; intros fuel G L; [destruct fuel; reflexivity|].
    inversion G; subst. cbn [flat_map]. destruct fuel as [|f]; [cbn in L; lia|].
    destruct (enc a ++ flat_map enc l) eqn:E.
    - exfalso. apply app_eq_nil in E as [E _]. now apply (enc_nonempty a).
    - rewrite <- E. cbn [dec_many]. rewrite E. rewrite <- E.
      rewrite item_enc by assumption. cbn [bind]. rewrite IH; [reflexivity | assumption | cbn in L; lia].
  Qed.

  Lemma flat_map_length_ge l : (length l <= length (flat_map enc l))%nat.
  Proof.
    induction l as [|a l IH]; [apply le_n|]. cbn [flat_map length]. rewrite app_length.
    pose proof (enc_nonempty a). destruct (enc a); [congruence|]. cbn. lia.
  Qed.

  Lemma dec_all_enc l : Forall good l -> dec_all item (flat_map enc l) = Some l.
  Proof. intros G. unfold dec_all. apply dec_many_enc; [assumption | apply flat_map_length_ge]. Qed.
End Many.

(* ------------------------------------------------------------------ records and handshake framing *)
Lemma dec_record_enc ty v frag : dec_record (enc_record ty v frag) = Some (ty, v, frag).
Proof.
  unfold dec_record, enc_record. cbn [enc_u8 app dec_u8 bind]. rewrite dec_u16_enc. cbn [bind].
  rewrite <- (app_nil_r (enc_vec16 frag)). rewrite dec_vec16_enc. reflexivity.
Qed.

Lemma clear_handshake_skip d x r : clear_handshake d ((negb d, x) :: r) = clear_handshake d r.
Proof. cbn [clear_handshake]. destruct d; reflexivity. Qed.

(* one side's handshake records up to its ChangeCipherSpec, however the messages are cut into
   fragments, give back the concatenation of the fragments *)
Lemma clear_handshake_flight d v frags rest :
  clear_handshake d (map (fun f => (d, enc_record 22 v f)) frags ++ (d, enc_record 20 v [1]) :: rest)
  = Some (concat frags).
Proof.
  induction frags as [|f frags IH]; cbn [map app concat clear_handshake].
  - rewrite eqb_reflx, dec_record_enc. reflexivity.
  - rewrite eqb_reflx, dec_record_enc. cbn [bind]. rewrite IH. reflexivity.
Qed.

Definition msg_ok (m : N * bytes) : Prop := blen (snd m) < 16777216.

Lemma dec_msg_enc m rest : msg_ok m -> dec_msg (enc_msg m ++ rest) = Some (m, rest).
Proof.
  intros H. destruct m as [ty body]. unfold dec_msg, enc_msg. cbn [fst snd enc_u8 app dec_u8 bind].
  rewrite dec_vec24_enc by exact H. reflexivity.
Qed.

Lemma dec_msgs_enc msgs : Forall msg_ok msgs -> dec_msgs (flat_map enc_msg msgs) = Some msgs.
Proof.
  intros G. unfold dec_msgs. apply (dec_all_enc dec_msg enc_msg msg_ok); auto.
  - intros a rest. apply dec_msg_enc.
  - intros [ty body]. discriminate.
Qed.

(* ------------------------------------------------------------------ extensions and hellos *)
Lemma dec_ext_enc e rest : dec_ext (enc_ext e ++ rest) = Some (e, rest).
Proof.
  destruct e as [ty data]. unfold dec_ext, enc_ext. cbn [fst snd]. rewrite <- app_assoc, dec_u16_enc.
  cbn [bind]. rewrite dec_vec16_enc. reflexivity.
Qed.

Lemma dec_exts_enc l : dec_exts (enc_exts l) = Some l.
Proof.
  destruct l as [|e l]; [reflexivity|]. unfold enc_exts, dec_exts.
  remember (e :: l) as L. destruct (enc_vec16 (flat_map enc_ext L)) eqn:E; [discriminate|]. rewrite <- E.
  rewrite <- (app_nil_r (enc_vec16 _)), dec_vec16_enc. cbn [bind].
  apply (dec_all_enc dec_ext enc_ext (fun _ => True)).
  - intros a rest _. apply dec_ext_enc.
  - intros [ty data]. discriminate.
  - apply Forall_forall. trivial.
Qed.

Definition hello_ok (h : hello) : Prop := blen (h_random h) = 32.

Lemma dec_client_hello_enc h : hello_ok h -> dec_client_hello (enc_client_hello h) = Some h.
Proof.
  intros R. destruct h as [v rnd sid suites comps exts]. unfold hello_ok in R. cbn [h_random] in R.
  unfold dec_client_hello, enc_client_hello. cbn [h_vers h_random h_sid h_suites h_comps h_exts].
  rewrite dec_u16_enc. cbn [bind]. rewrite <- R, take_app. cbn [bind].
  rewrite dec_vec8_enc. cbn [bind]. rewrite dec_vec16_enc. cbn [bind].
  rewrite dec_u16s_enc. cbn [bind]. rewrite dec_vec8_enc. cbn [bind].
  rewrite dec_exts_enc. reflexivity.
Qed.

Definition server_hello_ok (h : hello) : Prop :=
  blen (h_random h) = 32 /\ (exists s, h_suites h = [s]) /\ (exists c, h_comps h = [c]).

Lemma dec_server_hello_enc h : server_hello_ok h -> dec_server_hello (enc_server_hello h) = Some h.
Proof.
  intros [R [[s Es] [c Ec]]]. destruct h as [v rnd sid suites comps exts].
  cbn [h_random h_suites h_comps] in *. subst.
  unfold dec_server_hello, enc_server_hello. cbn [h_vers h_random h_sid h_suites h_comps h_exts hd].
  rewrite dec_u16_enc. cbn [bind]. rewrite <- R, take_app. cbn [bind].
  rewrite dec_vec8_enc. cbn [bind]. rewrite dec_u16_enc. cbn [bind enc_u8 app dec_u8].
  rewrite dec_exts_enc. reflexivity.
Qed.

(* byte strings are complete: whatever parses has a 32-byte random *)
Lemma dec_client_hello_random b h : dec_client_hello b = Some h -> blen (h_random h) = 32.
Proof.
  unfold dec_client_hello. destruct (dec_u16 b) as [[v r]|]; [|discriminate]. cbn [bind].
  destruct (take 32 r) as [[rnd r1]|] eqn:T; [|discriminate]. cbn [bind].
  apply take_length in T as [T _].
  destruct (dec_vec8 r1) as [[sid r2]|]; [|discriminate]. cbn [bind].
  destruct (dec_vec16 r2) as [[sb r3]|]; [|discriminate]. cbn [bind].
  destruct (dec_u16s sb); [|discriminate]. cbn [bind].
  destruct (dec_vec8 r3) as [[comps r4]|]; [|discriminate]. cbn [bind].
  destruct (dec_exts r4); [|discriminate]. cbn [bind]. intros E. inversion E. exact T.
Qed.

(* extension bodies *)
Lemma dec_sni_enc name : dec_sni (enc_sni name) = Some name.
Proof.
  unfold dec_sni, enc_sni. rewrite <- (app_nil_r (enc_vec16 _)), dec_vec16_enc. cbn [bind].
  unfold dec_all.
  assert (forall fuel, (1 <= fuel)%nat ->
            dec_many dec_sni_entry fuel (enc_u8 0 ++ enc_vec16 name) = Some [(0, name)]) as H.
  { intros fuel L. destruct fuel as [|f]; [lia|]. cbn [enc_u8 app dec_many].
    unfold dec_sni_entry at 1. cbn [dec_u8 bind]. rewrite <- (app_nil_r (enc_vec16 name)), dec_vec16_enc.
    cbn [bind]. destruct f; reflexivity. }
  rewrite H; [reflexivity|]. cbn [enc_u8 app length]. lia.
Qed.

Lemma dec_u16_list16_enc l : dec_u16_list16 (enc_u16_list16 l) = Some l.
Proof.
  unfold dec_u16_list16, enc_u16_list16. rewrite <- (app_nil_r (enc_vec16 _)), dec_vec16_enc.
  cbn [bind]. apply dec_u16s_enc.
Qed.

Lemma dec_u16_list8_enc l : dec_u16_list8 (enc_u16_list8 l) = Some l.
Proof.
  unfold dec_u16_list8, enc_u16_list8. rewrite <- (app_nil_r (enc_vec8 _)), dec_vec8_enc.
  cbn [bind]. apply dec_u16s_enc.
Qed.

Lemma dec_alpn_enc l : dec_alpn (enc_alpn l) = Some l.
Proof.
  unfold dec_alpn, enc_alpn. rewrite <- (app_nil_r (enc_vec16 _)), dec_vec16_enc. cbn [bind].
  apply (dec_all_enc dec_alpn_item enc_vec8 (fun _ => True)).
  - intros a rest _. apply dec_vec8_enc.
  - intros a. discriminate.
  - apply Forall_forall. trivial.
Qed.

(* ------------------------------------------------------------------ other messages *)
Lemma dec_certificate_enc l :
  Forall (fun c => blen c < 16777216) l -> blen (flat_map enc_vec24 l) < 16777216 ->
  dec_certificate (enc_certificate l) = Some l.
Proof.
  intros G T. unfold dec_certificate, enc_certificate.
  rewrite <- (app_nil_r (enc_vec24 _)), dec_vec24_enc by assumption. cbn [bind].
  apply (dec_all_enc dec_cert_item enc_vec24 (fun c => blen c < 16777216)); auto.
  - intros a rest. apply dec_vec24_enc.
  - intros a. discriminate.
Qed.

Lemma dec_sig_enc sch sg :
  dec_sig (match sch with Some _ => true | None => false end) (enc_sig sch sg) = Some (sch, sg).
Proof.
  unfold dec_sig, enc_sig. destruct sch as [s|].
  - rewrite dec_u16_enc. cbn [bind]. rewrite <- (app_nil_r (enc_vec16 sg)), dec_vec16_enc. reflexivity.
  - cbn [app]. rewrite <- (app_nil_r (enc_vec16 sg)), dec_vec16_enc. reflexivity.
Qed.

Definition has_scheme (k : skx) : bool := match skx_scheme k with Some _ => true | None => false end.

Lemma dec_skx_ecdhe_enc k :
  skx_p k = [] -> skx_g k = [] ->
  dec_skx_ecdhe (has_scheme k) (enc_skx_ecdhe k) = Some k.
Proof.
  destruct k as [curve pub p g sch sg]. cbn [skx_p skx_g]. intros -> ->.
  unfold dec_skx_ecdhe, enc_skx_ecdhe, has_scheme. cbn [skx_curve skx_public skx_scheme skx_sig].
  cbn [enc_u8 app dec_u8 bind]. cbn [N.eqb Pos.eqb]. rewrite dec_u16_enc. cbn [bind].
  rewrite dec_vec8_enc. cbn [bind]. rewrite dec_sig_enc. reflexivity.
Qed.

Lemma dec_skx_dhe_enc k :
  skx_curve k = 0 -> dec_skx_dhe (has_scheme k) (enc_skx_dhe k) = Some k.
Proof.
  destruct k as [curve pub p g sch sg]. cbn [skx_curve]. intros ->.
  unfold dec_skx_dhe, enc_skx_dhe, has_scheme. cbn [skx_p skx_g skx_public skx_scheme skx_sig].
  rewrite dec_vec16_enc. cbn [bind]. rewrite dec_vec16_enc. cbn [bind]. rewrite dec_vec16_enc. cbn [bind].
  rewrite dec_sig_enc. reflexivity.
Qed.

Lemma dec_new_session_ticket_enc lt t :
  lt < 4294967296 -> dec_new_session_ticket (enc_new_session_ticket lt t) = Some (lt, t).
Proof.
  intros H. unfold dec_new_session_ticket, enc_new_session_ticket. rewrite dec_u32_enc_small by assumption.
  cbn [bind]. rewrite <- (app_nil_r (enc_vec16 t)), dec_vec16_enc. reflexivity.
Qed.

Lemma dec_ckx16_enc x : dec_ckx16 (enc_vec16 x) = Some x.
Proof. unfold dec_ckx16. rewrite <- (app_nil_r (enc_vec16 x)), dec_vec16_enc. reflexivity. Qed.

Lemma dec_ckx8_enc x : dec_ckx8 (enc_vec8 x) = Some x.
Proof. unfold dec_ckx8, dec_bytes8. rewrite <- (app_nil_r (enc_vec8 x)), dec_vec8_enc. reflexivity. Qed.

(* ------------------------------------------------------------------ what the log shows *)

(* the ClientHello part of the log is a function of the ClientHello that was sent *)
Theorem ch_log_of_wire h :
  hello_ok h -> bind (dec_client_hello (enc_client_hello h)) ch_log_of = ch_log_of h.
Proof. intros H. rewrite dec_client_hello_enc by assumption. reflexivity. Qed.

Theorem sh_log_of_wire h a :
  server_hello_ok h -> bind (dec_server_hello (enc_server_hello h)) (fun x => sh_log_of x a) = sh_log_of h a.
Proof. intros H. rewrite dec_server_hello_enc by assumption. reflexivity. Qed.

(* field by field: the fixed fields are the wire fields, and each extension field is the
   decoding of the body of the first extension of its type *)
Theorem ch_log_fields h l :
  ch_log_of h = Some l ->
  cl_version l = h_vers h /\ cl_random l = h_random h /\ cl_sid l = h_sid h /\
  cl_suites l = h_suites h /\ cl_comps l = h_comps h /\
  cl_ocsp l = has_ext ext_status_request (h_exts h) /\
  cl_ticket l = has_ext ext_ticket (h_exts h) /\
  cl_reneg l = has_ext ext_reneg (h_exts h) /\
  cl_scts l = has_ext ext_sct (h_exts h) /\
  cl_ems l = has_ext ext_ems (h_exts h) /\
  (forall name, find_ext ext_sni (h_exts h) = Some (enc_sni name) -> cl_sni l = name) /\
  (forall cs, find_ext ext_curves (h_exts h) = Some (enc_u16_list16 cs) -> cl_curves l = cs) /\
  (forall vs, find_ext ext_versions (h_exts h) = Some (enc_u16_list8 vs) -> cl_versions l = vs) /\
  (forall ps, find_ext ext_alpn (h_exts h) = Some (enc_alpn ps) -> cl_alpn l = ps) /\
  (forall ss, find_ext ext_sigalgs (h_exts h) = Some (enc_u16_list16 ss) -> cl_sigalgs l = map_sig_algs ss) /\
  (forall t, t <> [] -> find_ext ext_ticket (h_exts h) = Some t -> cl_session_ticket l = Some t).
Proof.
  unfold ch_log_of. intros E.
  destruct (match find_ext ext_sni (h_exts h) with Some b => dec_sni b | None => Some [] end) as [sni|] eqn:E1; [|discriminate].
  cbn [bind] in E.
  destruct (match find_ext ext_curves (h_exts h) with Some b => dec_u16_list16 b | None => Some [] end) as [curves|] eqn:E2; [|discriminate].
  cbn [bind] in E.
  destruct (match find_ext ext_points (h_exts h) with Some b => dec_bytes8 b | None => Some [] end) as [points|] eqn:E3; [|discriminate].
  cbn [bind] in E.
  destruct (match find_ext ext_versions (h_exts h) with Some b => dec_u16_list8 b | None => Some [] end) as [versions|] eqn:E4; [|discriminate].
  cbn [bind] in E.
  destruct (match find_ext ext_sigalgs (h_exts h) with Some b => dec_u16_list16 b | None => Some [] end) as [sigalgs|] eqn:E5; [|discriminate].
  cbn [bind] in E.
  destruct (match find_ext ext_alpn (h_exts h) with Some b => dec_alpn b | None => Some [] end) as [alpn|] eqn:E6; [|discriminate].
  cbn [bind] in E. inversion E; subst l; clear E.
  cbn [cl_version cl_random cl_sid cl_suites cl_comps cl_ocsp cl_ticket cl_reneg cl_scts cl_sni cl_curves
       cl_points cl_versions cl_alpn cl_sigalgs cl_session_ticket cl_ems].
  repeat (split; [reflexivity|]).
  split; [intros name F; rewrite F in E1; cbv iota beta in E1; rewrite dec_sni_enc in E1; now inversion E1|].
  split; [intros cs F; rewrite F in E2; cbv iota beta in E2; rewrite dec_u16_list16_enc in E2; now inversion E2|].
  split; [intros vs F; rewrite F in E4; cbv iota beta in E4; rewrite dec_u16_list8_enc in E4; now inversion E4|].
  split; [intros ps F; rewrite F in E6; cbv iota beta in E6; rewrite dec_alpn_enc in E6; now inversion E6|].
  split; [intros ss F; rewrite F in E5; cbv iota beta in E5; rewrite dec_u16_list16_enc in E5; now inversion E5|].
  intros t NE F. rewrite F. destruct t; [congruence | reflexivity].
Qed.

(* the signature algorithm shown for an ECDHE ServerKeyExchange is determined by the two
   SignatureScheme bytes on the wire ... *)
Theorem sig_hash_is_wire_scheme ka k :
  (ka = 1 \/ ka = 2) -> skx_p k = [] -> skx_g k = [] -> forall s, skx_scheme k = Some s ->
  forall l, skx_log_of ka 771 (enc_skx_ecdhe k) = Some l ->
  kl_sig_and_hash l = logged_sig_and_hash_ecdhe s /\ kl_sig_raw l = skx_sig k /\ kl_curve l = skx_curve k.
Proof.
  intros KA P G s S l. unfold skx_log_of.
  assert ((ka =? 1) || (ka =? 2) = true) as -> by (destruct KA; subst; reflexivity).
  change (771 <=? 771) with true.
  pose proof (dec_skx_ecdhe_enc k P G) as D. unfold has_scheme in D. rewrite S in D. rewrite D. cbn [bind].
  destruct (point_of (skx_curve k) (skx_public k)); [|discriminate]. cbn [bind]. rewrite S.
  destruct (logged_sig_and_hash_ecdhe s) as [pr|]; [|discriminate]. cbn [bind].
  intros E. inversion E. cbn. auto.
Qed.

(* ... for a DHE ServerKeyExchange it is the two bytes themselves ... *)
Theorem sig_hash_is_wire_scheme_dhe ka k :
  ka <> 1 -> ka <> 2 -> skx_curve k = 0 -> forall s, skx_scheme k = Some s ->
  forall l, skx_log_of ka 771 (enc_skx_dhe k) = Some l ->
  kl_sig_and_hash l = Some (s mod 256, s / 256) /\ kl_sig_raw l = skx_sig k.
Proof.
  intros K1 K2 C s S l. unfold skx_log_of.
  assert ((ka =? 1) || (ka =? 2) = false) as ->.
  { apply orb_false_iff. split; apply N.eqb_neq; assumption. }
  change (771 <=? 771) with true.
  pose proof (dec_skx_dhe_enc k C) as D. unfold has_scheme in D. rewrite S in D. rewrite D. cbn [bind].
  intros E. inversion E. cbn. rewrite S. auto.
Qed.

(* ... the pair determines the scheme (nothing about the wire algorithm is lost), and its hash
   component is the TLS HashAlgorithm code point whose table name is the RFC name of the
   scheme's hash: checked for every scheme the package supports, on the regenerated tables *)
Definition rfc_hash_name (s : N) : list N :=
  (* RFC 5246 7.4.1.4.1, RFC 8446 4.2.3, RFC 8422 5.1.3 *)
  let str := fun l => l in
  if (s =? 513) || (s =? 515) then str [115;104;97;49]                   (* sha1 *)
  else if (s =? 1025) || (s =? 1027) || (s =? 2052) then str [115;104;97;50;53;54]   (* sha256 *)
  else if (s =? 1281) || (s =? 1283) || (s =? 2053) then str [115;104;97;51;56;52]   (* sha384 *)
  else if (s =? 1537) || (s =? 1539) || (s =? 2054) then str [115;104;97;53;49;50]   (* sha512 *)
  else if (s =? 2055) then str [105;110;116;114;105;110;115;105;99]       (* intrinsic *)
  else [].
Definition rfc_sig_name (s : N) : list N :=
  if (s =? 513) || (s =? 1025) || (s =? 1281) || (s =? 1537) then [112;107;99;115;49;118;49;53]   (* pkcs1v15 *)
  else if (s =? 515) || (s =? 1027) || (s =? 1283) || (s =? 1539) then [101;99;100;115;97]        (* ecdsa *)
  else if (s =? 2052) || (s =? 2053) || (s =? 2054) then [114;115;97;112;115;115]                 (* rsapss *)
  else if (s =? 2055) then [101;100;50;53;53;49;57]                                                 (* ed25519 *)
  else [].

Definition name_of (tbl : list (N * list N)) (code : N) : list N :=
  match find (fun r => fst r =? code) tbl with Some r => snd r | None => [] end.

Definition scheme_named_ok (s : N) : bool :=
  match logged_sig_and_hash_ecdhe s with
  | Some (sg, h) => lN_eqb (name_of signature_names_tbl sg) (rfc_sig_name s) &&
                    lN_eqb (name_of hash_names_tbl h) (rfc_hash_name s) &&
                    negb (lN_eqb (rfc_hash_name s) [])
  | None => false
  end.

Lemma schemes_named_ok : forallb scheme_named_ok supported_signature_algorithms = true.
Proof. vm_compute. reflexivity. Qed.

Theorem name_table_consistent s :
  In s supported_signature_algorithms ->
  exists sg h, logged_sig_and_hash_ecdhe s = Some (sg, h) /\
               name_of signature_names_tbl sg = rfc_sig_name s /\
               name_of hash_names_tbl h = rfc_hash_name s /\ rfc_hash_name s <> [].
Proof.
  intros H. pose proof schemes_named_ok as T. rewrite forallb_forall in T. specialize (T s H).
  unfold scheme_named_ok in T. destruct (logged_sig_and_hash_ecdhe s) as [[sg h]|]; [|discriminate].
  apply andb_prop in T as [T T3]. apply andb_prop in T as [T1 T2].
  exists sg, h. repeat split.
  - apply list_eqb_eq in T1; [assumption | intros x y; apply N.eqb_eq].
  - apply list_eqb_eq in T2; [assumption | intros x y; apply N.eqb_eq].
  - intros Z. rewrite Z in T3. discriminate.
Qed.

Definition pair_injective_on (l : list N) : bool :=
  forallb (fun s1 => forallb (fun s2 =>
    (s1 =? s2) || negb (option_eqb pairN_eqb (logged_sig_and_hash_ecdhe s1) (logged_sig_and_hash_ecdhe s2)))
    l) l.

Lemma schemes_injective : pair_injective_on supported_signature_algorithms = true.
Proof. vm_compute. reflexivity. Qed.

Theorem logged_pair_determines_scheme s1 s2 :
  In s1 supported_signature_algorithms -> In s2 supported_signature_algorithms ->
  logged_sig_and_hash_ecdhe s1 = logged_sig_and_hash_ecdhe s2 -> s1 = s2.
Proof.
  intros H1 H2 E. pose proof schemes_injective as T. unfold pair_injective_on in T.
  rewrite forallb_forall in T. specialize (T s1 H1). rewrite forallb_forall in T. specialize (T s2 H2).
  apply orb_prop in T as [T|T]; [now apply N.eqb_eq|].
  rewrite E in T. apply negb_true_iff in T.
  assert (forall o, option_eqb pairN_eqb o o = true) as R.
  { intros [[a b]|]; cbn; auto. unfold pairN_eqb, prod_eqb. cbn. now rewrite !N.eqb_refl. }
  rewrite R in T. discriminate.
Qed.

(* ------------------------------------------------------------------ a whole TLS <= 1.2 handshake *)
(* the messages of a full ECDHE handshake as structured values, and the log computed from their
   encodings: every part is the projection of what was sent *)
Theorem log_of_full_ecdhe_handshake ch sh certs k cpub nst a cl sl ka pt cpt :
  hello_ok ch -> server_hello_ok sh -> a_skx_rejected a = false ->
  ch_log_of ch = Some cl -> sh_log_of sh a = Some sl -> sl_selected_version sl = None ->
  Forall (fun c => blen c < 16777216) certs -> blen (flat_map enc_vec24 certs) < 16777216 ->
  ka_of_suite (sl_suite sl) = Some ka -> (ka = 1 \/ ka = 2) ->
  skx_p k = [] -> skx_g k = [] ->
  has_scheme k = (771 <=? sl_version sl) ->
  point_of (skx_curve k) (skx_public k) = Some pt ->
  point_of (skx_curve k) cpub = Some cpt ->
  (forall s, skx_scheme k = Some s -> logged_sig_and_hash_ecdhe s <> None) ->
  (forall lt t, nst = Some (lt, t) -> lt < 4294967296) ->
  log_of_msgs [(1, enc_client_hello ch); (16, enc_vec8 cpub)]
              ([(2, enc_server_hello sh); (11, enc_certificate certs); (12, enc_skx_ecdhe k)] ++
               match nst with Some (lt, t) => [(4, enc_new_session_ticket lt t)] | None => [] end ++ [(14, [])]) a
  = Some (mkLog cl sl certs
            (Some (mkSkxLog (skx_curve k) (Some pt) None (skx_sig k)
                     (match skx_scheme k with Some s => logged_sig_and_hash_ecdhe s | None => None end)))
            (Some (CkxEcdh (skx_curve k) cpt))
            (Some (a_client_finished a)) (Some (a_server_finished a))
            (match nst with
             | Some (lt, t) => Some (t, Some lt)
             | None => match cl_session_ticket cl with Some t => Some (t, None) | None => None end
             end)
            (Some (a_master a)) (Some (a_premaster a))).
Proof.
  intros HC HS REJ CL SL SV GC GT KA KAE P G HSch PT CPT LS NST.
  unfold log_of_msgs.
  change (find_msg 1 [(1, enc_client_hello ch); (16, enc_vec8 cpub)]) with (Some (enc_client_hello ch)).
  cbn [bind].
  assert (forall tl, find_msg 2 ((2, enc_server_hello sh) :: tl) = Some (enc_server_hello sh)) as F2 by reflexivity.
  cbn [app]. rewrite F2. cbn [bind].
  rewrite dec_client_hello_enc, dec_server_hello_enc by assumption. cbn [bind].
  rewrite CL, SL. cbn [bind]. rewrite SV.
  assert (forall tl, find_msg 11 ((2, enc_server_hello sh) :: (11, enc_certificate certs) :: tl) = Some (enc_certificate certs)) as F11 by reflexivity.
  rewrite F11. rewrite dec_certificate_enc by assumption. cbn [bind]. rewrite KA. cbn [bind].
  assert (forall tl, find_msg 12 ((2, enc_server_hello sh) :: (11, enc_certificate certs) :: (12, enc_skx_ecdhe k) :: tl) = Some (enc_skx_ecdhe k)) as F12 by reflexivity.
  rewrite F12.
  unfold skx_log_of.
  assert ((ka =? 1) || (ka =? 2) = true) as KB by (destruct KAE; subst; reflexivity). rewrite KB.
  rewrite <- HSch. rewrite (dec_skx_ecdhe_enc k P G). cbn [bind]. rewrite PT. cbn [bind].
  assert ((do sh0 <- match skx_scheme k with
                     | Some s => do p <- logged_sig_and_hash_ecdhe s; Some (Some p)
                     | None => Some None
                     end; Some (mkSkxLog (skx_curve k) (Some pt) None (skx_sig k) sh0))
          = Some (mkSkxLog (skx_curve k) (Some pt) None (skx_sig k)
                    (match skx_scheme k with Some s => logged_sig_and_hash_ecdhe s | None => None end))) as ->.
  { destruct (skx_scheme k) as [s|] eqn:S; [|reflexivity].
    specialize (LS s eq_refl). destruct (logged_sig_and_hash_ecdhe s); [reflexivity | congruence]. }
  cbn [bind]. rewrite REJ.
  change (find_msg 16 [(1, enc_client_hello ch); (16, enc_vec8 cpub)]) with (Some (enc_vec8 cpub)).
  unfold ckx_log_of. cbn [kl_curve].
  assert (ka =? 0 = false) as -> by (destruct KAE; subst; reflexivity). rewrite KB.
  rewrite dec_ckx8_enc. cbn [bind]. rewrite CPT. cbn [bind].
  destruct nst as [[lt t]|]; cbn [app]; unfold find_msg; cbn [find fst snd option_map N.eqb Pos.eqb].
  - rewrite dec_new_session_ticket_enc by (eapply NST; reflexivity). cbn [bind].
    rewrite andb_false_r. reflexivity.
  - cbn [bind]. rewrite andb_false_r. reflexivity.
Qed.

(* and the record layer / message framing in front of it: each side's clear handshake bytes
   depend only on its own records, and the messages are recovered from any fragmentation of a
   flight into handshake records up to the ChangeCipherSpec *)
Lemma clear_handshake_filter d recs :
  clear_handshake d recs = clear_handshake d (filter (fun x => Bool.eqb (fst x) d) recs).
Proof.
  induction recs as [|[dir rec] r IH]; [reflexivity|].
  cbn [clear_handshake filter fst]. destruct (Bool.eqb dir d) eqn:E.
  - cbn [clear_handshake]. rewrite E. destruct (dec_record rec) as [[[ty v] frag]|]; [|reflexivity].
    cbn [bind]. destruct (ty =? 20); [reflexivity|]. destruct (ty =? 22); [now rewrite IH | exact IH].
  - exact IH.
Qed.

Theorem log_of_transcript recs cmsgs smsgs cfrags sfrags v crest srest a :
  Forall msg_ok cmsgs -> Forall msg_ok smsgs ->
  concat cfrags = flat_map enc_msg cmsgs -> concat sfrags = flat_map enc_msg smsgs ->
  filter (fun x => Bool.eqb (fst x) true) recs
    = map (fun f => (true, enc_record 22 v f)) cfrags ++ (true, enc_record 20 v [1]) :: crest ->
  filter (fun x => Bool.eqb (fst x) false) recs
    = map (fun f => (false, enc_record 22 v f)) sfrags ++ (false, enc_record 20 v [1]) :: srest ->
  log_of recs a = log_of_msgs cmsgs smsgs a.
Proof.
  intros GC GS EC ES FC FS. unfold log_of.
  rewrite (clear_handshake_filter true), FC, clear_handshake_flight. cbn [bind].
  rewrite (clear_handshake_filter false), FS, clear_handshake_flight. cbn [bind].
  rewrite EC, ES, !dec_msgs_enc by assumption. reflexivity.
Qed.

(* non-vacuity: a concrete TLS 1.2 ServerKeyExchange with ecdsa_secp256r1_sha256 (04 03) is
   shown as (ecdsa, sha256 = 4), not as sha384 *)
Lemma sig_hash_example :
  option_map kl_sig_and_hash
    (skx_log_of 2 771 (enc_skx_ecdhe (mkSkx 29 [1;2;3] [] [] (Some 1027) [9;9])))
  = Some (Some (sig_ecdsa, 4)).
Proof. vm_compute. reflexivity. Qed.
